/-
  GM.Proof.QuoteSimOpens — "a line that is not blank always opens a block" (unary facts about run A, `OT`):
  from a state related by `SR` (only A's half is used: the reader stands at position `p` of line `k`, no padding,
  tab-free source) with a rest of line that is not blank,
  * `paragraphParser.Open` builds a paragraph (the left-trimmed segment is not empty);
  * `codeBlockParser.Open` builds a code block when the line is indented by more than three columns
    (`IndentPosition(line, offset, 4)` finds its position).
  With `tryParsers_sim` / `openBlocksLoop_sim` (every candidate list ends with code block, paragraph; a declining
  `Open` leaves the reader where it was) this removes the hypothesis `ReadToEnd` of the whole-run theorem.
-/
import GM.Proof.QuoteSimDriver
import GM.Proof.QuoteSimList

namespace GM.Blocks
open GM GM.Text GM.Spec GM.Proof.Reader

theorem bind_inv_o {α β} {m : M α} {f : α → M β} {s : St} {b : β} {s' : St} (h : (m >>= f) s = .ok (b, s')) :
    ∃ a s1, m s = .ok (a, s1) ∧ f a s1 = .ok (b, s') := by
  change StateT.bind m f s = _ at h
  unfold StateT.bind at h
  cases hm : m s with
  | error e => rw [hm] at h; cases h
  | ok x => obtain ⟨a, s1⟩ := x; rw [hm] at h; exact ⟨a, s1, rfl, h⟩

theorem qs_takeWhile_lt_of_not_all {α} (q : α → Bool) : ∀ (l : List α), l.all q = false → (l.takeWhile q).length < l.length
  | [], h => by simp at h
  | a :: l, h => by
    simp only [List.takeWhile]
    by_cases ha : q a = true
    · rw [ha]
      have : l.all q = false := by simpa [List.all_cons, ha] using h
      have := qs_takeWhile_lt_of_not_all q l this
      simp only [List.length_cons]; omega
    · have : q a = false := by simpa using ha
      rw [this]; simp

/-- a rest of line that is not blank: there is a rest of line, and its leading white space is shorter than it -/
theorem nbv_facts {src : Bytes} {ls p : Nat} (h : NBV src ls p) :
    p < lineEnd src ls ∧ isBlank (sub src p (lineEnd src ls)) = false ∧
      trimLeftSpaceLength (sub src p (lineEnd src ls)) < lineEnd src ls - p := by
  unfold NBV viewA at h
  by_cases hp : p < lineEnd src ls
  · rw [if_pos hp] at h
    simp only [Option.getD_some] at h
    refine ⟨hp, h, ?_⟩
    have := qs_takeWhile_lt_of_not_all isSpace _ (by unfold isBlank at h; exact h)
    rw [length_sub src (lineEnd_le src ls)] at this
    exact this
  · rw [if_neg hp] at h
    simp [isBlank] at h

/-- on a rest of line that is not blank `paragraphParser.Open` builds a paragraph -/
theorem paragraphOpen_opens {src k ls p} (q : Nat) {sA sB : St} {a : Option Nat × PState} {sA' : St}
    (h : SR src k ls p sA sB) (hnb : NBV src ls p) (e : paragraphOpen q sA = .ok (a, sA')) : a.1 ≠ none := by
  obtain ⟨hp, _, hlen⟩ := nbv_facts hnb
  unfold paragraphOpen at e
  obtain ⟨x1, s1, e1, e⟩ := bind_inv_o e
  obtain ⟨y1, t1, _, hx1, _, h1⟩ := peekLine_s2 h x1 s1 e1
  subst hx1
  simp only at e
  obtain ⟨x2, s2, e2, e⟩ := bind_inv_o e
  obtain ⟨y2, t2, _, hx2, _, h2⟩ := source_s2 h1 x2 s2 e2
  rw [hx2] at e
  obtain ⟨t, et, _, ht1, ht2, ht3, ht4⟩ := trimLeftSpace_q (segA_in h.r.inl)
  obtain ⟨x3, s3, e3, e⟩ := bind_inv_o e
  rw [et] at e3
  cases e3
  have hne : t.isEmpty = false := by
    have hs : (segA src ls p).start = (p : Int) := rfl
    have hst : (segA src ls p).stop = (lineEnd src ls : Int) := rfl
    rw [hs, hst] at ht4
    rw [hst] at ht1
    simp only [Int.toNat_natCast] at ht4
    simp only [Segment.isEmpty, Bool.and_eq_false_iff, decide_eq_false_iff_not]
    left
    omega
  rw [hne] at e
  simp only [Bool.false_eq_true, if_false] at e
  obtain ⟨n, s4, _, e⟩ := bind_inv_o e
  obtain ⟨_, s5, _, e⟩ := bind_inv_o e
  obtain ⟨_, s6, _, e⟩ := bind_inv_o e
  cases e
  simp

/-- on a tab-free line whose indentation is wider than three columns the loop of `IndentPositionPadding(…, 4)`
    reaches width 4 -/
theorem ipp_of_width (cur cur' : Int) : ∀ (bs : Bytes) (w p0 i : Int), (∀ c ∈ bs, c ≠ 9) → w ≤ 4 →
    3 < (indentWidthGo cur bs w p0).1 → 4 ≤ (ippLoop cur' 4 bs i 0 w).2 := by
  intro bs
  induction bs with
  | nil =>
    intro w p0 i _ _ h
    simp only [indentWidthGo] at h
    simp only [ippLoop]; omega
  | cons b bs ih =>
    intro w p0 i htf hw h
    have hb : (b == 9) = false := by
      have := htf b (by simp); simpa using this
    unfold indentWidthGo at h
    unfold ippLoop
    simp only [hb, Bool.false_and, Bool.false_eq_true, if_false, Int.lt_irrefl] at h ⊢
    by_cases h32 : (b == 32) = true
    · rw [if_pos h32] at h
      by_cases hw4 : w < 4
      · have hc : (b == 32 && decide (w < 4)) = true := by simp [h32, hw4]
        rw [if_pos hc]
        exact ih (w + 1) (p0 + 1) (i + 1) (fun c hc => htf c (by simp [hc])) (by omega) h
      · have hc : (b == 32 && decide (w < 4)) = false := by simp [hw4]
        rw [hc]
        simp only [Bool.false_eq_true, if_false]
        omega
    · rw [if_neg h32] at h
      have hc : (b == 32 && decide (w < 4)) = false := by
        have : (b == 32) = false := by simpa using h32
        rw [this]; rfl
      rw [hc]
      simp only [Bool.false_eq_true, if_false]
      simp only at h
      omega

theorem indentPosition_of_width (bs : Bytes) (htf : ∀ c ∈ bs, c ≠ 9) (lo lo' : Int)
    (h : 3 < (indentWidthI bs lo).1) : 0 ≤ (indentPosition bs lo' 4).1 := by
  have h4 := ipp_of_width lo lo' bs 0 0 0 htf (by omega) h
  have hle := ippLoop_tf_le lo' 4 bs 0 0 htf (by omega)
  unfold indentPosition indentPositionPadding
  have : ((4 : Int) == 0) = false := rfl
  simp only [this, Bool.false_eq_true, if_false]
  rw [if_pos (by omega)]
  simp only
  omega

/-- on a rest of line that is not blank and is indented by more than three columns `codeBlockParser.Open` builds a
    code block -/
theorem codeOpen_opens {src k ls p} (q : Nat) {sA sB : St} {a : Option Nat × PState} {sA' : St} (lo : Int)
    (h : SR src k ls p sA sB) (hnb : NBV src ls p) (hw : 3 < (indentWidthI ((viewA src ls p).getD []) lo).1)
    (e : codeOpen q sA = .ok (a, sA')) : a.1 ≠ none := by
  unfold codeOpen at e
  obtain ⟨x1, s1, e1, e⟩ := bind_inv_o e
  obtain ⟨y1, t1, _, hx1, _, h1⟩ := peekLine_s2 h x1 s1 e1
  subst hx1
  simp only at e
  obtain ⟨lo', s2, e2, e⟩ := bind_inv_o e
  have htf := viewA_tf_la h.r.tf ls p
  have hpos := indentPosition_of_width _ htf lo lo' hw
  generalize indentPosition ((viewA src ls p).getD []) lo' 4 = pp at e hpos
  obtain ⟨pos, padding⟩ := pp
  simp only at e hpos
  have hc : (decide (pos < 0) || isBlank ((viewA src ls p).getD [])) = false := by
    rw [hnb]; simp; omega
  rw [hc] at e
  simp only [Bool.false_eq_true, if_false] at e
  obtain ⟨n, s4, _, e⟩ := bind_inv_o e
  obtain ⟨_, s5, _, e⟩ := bind_inv_o e
  cases e
  simp

/-! ### the list parsers decline on sources in which no position starts a list item -/

theorem noItem_def (src : Bytes) : NoItem src ↔
    ∀ p, p < src.length → (matchesListItem (sub src p (lineEnd src p)) true).2 = ListTyp.notList := Iff.rfl

instance (src : Bytes) : Decidable (NoItem src) := by unfold NoItem; exact Nat.decidableBallLT _ _

theorem noItem_view {src k ls p} (hno : NoItem src) (hi : InL src k ls p) :
    (matchesListItem ((viewA src ls p).getD []) true).2 = ListTyp.notList := by
  unfold viewA
  by_cases hp : p < lineEnd src ls
  · rw [if_pos hp]
    have := hno p (hi.lt_iff.mpr hp)
    rw [hi.lineEnd_eq] at this
    exact this
  · rw [if_neg hp]; rfl

theorem nodes_noR (n0 : List Node) : NoR (fun s : St => s.nodes = n0) := ⟨fun _ _ hs => hs⟩

/-- `listParser.Open` declines, leaving the node store alone -/
theorem listOpen_declines {src k ls p} (hno : NoItem src) (q : Nat) {sA sB : St} {a : Option Nat × PState} {sA' : St}
    (h : SR src k ls p sA sB) (e : listOpen q sA = .ok (a, sA')) : a.1 = none ∧ sA'.nodes = sA.nodes := by
  unfold listOpen at e
  obtain ⟨last, s0, e0, e⟩ := bind_inv_o e
  rw [lastOpenedBlock_eq] at e0
  cases e0
  cases hl : sA.pc.opened.getLast? with
  | none =>
    rw [hl] at e
    dsimp only at e
    obtain ⟨ln, s1, e1, e⟩ := bind_inv_o e
    cases e1
    dsimp only at e
    obtain ⟨pc, s2, e2, e⟩ := bind_inv_o e
    cases e2
    split at e
    · obtain ⟨_, s3, e3, e⟩ := bind_inv_o e
      cases e3; cases e
      exact ⟨rfl, rfl⟩
    · obtain ⟨x1, s3, e3, e⟩ := bind_inv_o e
      have hn3 : s3.nodes = sA.nodes := peekLine_keeps (nodes_noR sA.nodes) sA _ s3 rfl e3
      obtain ⟨y1, t1, _, hx1, _, _⟩ := peekLine_s2 h x1 s3 e3
      subst hx1
      simp only at e
      have hty := noItem_view hno h.r.inl
      generalize matchesListItem ((viewA src ls p).getD []) true = mt at e hty
      obtain ⟨m, typ⟩ := mt
      simp only at e hty
      subst hty
      simp only [beq_self_eq_true, if_true] at e
      cases e
      exact ⟨rfl, hn3⟩
  | some lb =>
    rw [hl] at e
    dsimp only at e
    obtain ⟨ln, s1, e1, e⟩ := bind_inv_o e
    cases e1
    obtain ⟨ln2, s1', e1', e⟩ := bind_inv_o e
    cases e1'
    dsimp only at e
    obtain ⟨pc, s2, e2, e⟩ := bind_inv_o e
    cases e2
    split at e
    · obtain ⟨_, s3, e3, e⟩ := bind_inv_o e
      cases e3; cases e
      exact ⟨rfl, rfl⟩
    · obtain ⟨x1, s3, e3, e⟩ := bind_inv_o e
      have hn3 : s3.nodes = sA.nodes := peekLine_keeps (nodes_noR sA.nodes) sA _ s3 rfl e3
      obtain ⟨y1, t1, _, hx1, _, _⟩ := peekLine_s2 h x1 s3 e3
      subst hx1
      simp only at e
      have hty := noItem_view hno h.r.inl
      generalize matchesListItem ((viewA src ls p).getD []) true = mt at e hty
      obtain ⟨m, typ⟩ := mt
      simp only at e hty
      subst hty
      simp only [beq_self_eq_true, if_true] at e
      cases e
      exact ⟨rfl, hn3⟩

/-- `listItemParser.Open` declines when its parent is no List -/
theorem listItemOpen_declines (q : Nat) {sA : St} {a : Option Nat × PState} {sA' : St} (hu : UStore sA.nodes)
    (e : listItemOpen q sA = .ok (a, sA')) : a.1 = none ∧ sA'.nodes = sA.nodes := by
  unfold listItemOpen at e
  obtain ⟨pn, s0, e0, e⟩ := bind_inv_o e
  cases e0
  have hk : ((sA.nodes.getD q default).kind != Kind.list) = true := by
    have := (hu.getD q).kind.1
    simpa using this
  rw [if_pos hk] at e
  cases e
  exact ⟨rfl, rfl⟩

/-! ### the setext heading parser declines on sources in which no position starts a setext heading bar -/

/-- the peeked line of run A is no bar (or the matcher panics on it) -/
theorem noBar_view {src k ls p} (hnb : NoBar src) (hi : InL src k ls p) (c : UInt8) :
    matchesSetextHeadingBar ((viewA src ls p).getD []) ≠ .ok (c, true) := by
  unfold viewA
  by_cases hp : p < lineEnd src ls
  · rw [if_pos hp]
    have := hnb p (hi.lt_iff.mpr hp) c
    rw [hi.lineEnd_eq] at this
    exact this
  · rw [if_neg hp]
    simp only [Option.getD_none, matchesSetextHeadingBar_nil]
    intro h; cases h

/-- `setextHeadingParser.Open` declines, leaving the node store and the context alone -/
theorem setextOpen_declines {src k ls p} (hnb : NoBar src) (q : Nat) {sA sB : St} {a : Option Nat × PState} {sA' : St}
    (h : SR src k ls p sA sB) (e : bpOpen .setext q sA = .ok (a, sA')) :
    a.1 = none ∧ sA'.nodes = sA.nodes ∧ sA'.pc = sA.pc := by
  change setextOpen q sA = .ok (a, sA') at e
  unfold setextOpen at e
  obtain ⟨last, s0, e0, e⟩ := bind_inv_o e
  rw [lastOpenedBlock_eq] at e0
  cases e0
  cases hl : sA.pc.opened.getLast? with
  | none =>
    rw [hl] at e
    cases e
    exact ⟨rfl, rfl, rfl⟩
  | some lb =>
    rw [hl] at e
    dsimp only at e
    obtain ⟨ln, s1, e1, e⟩ := bind_inv_o e
    cases e1
    split at e
    · cases e
      exact ⟨rfl, rfl, rfl⟩
    · obtain ⟨x1, s3, e3, e⟩ := bind_inv_o e
      obtain ⟨hn3, hp3⟩ := peekLine_keeps_ls e3
      obtain ⟨y1, t1, _, hx1, _, _⟩ := peekLine_s2 h x1 s3 e3
      subst hx1
      simp only at e
      obtain ⟨x2, s4, e4, e⟩ := bind_inv_o e
      have hbar := noBar_view hnb h.r.inl
      cases hm : matchesSetextHeadingBar ((viewA src ls p).getD []) with
      | error x => rw [hm] at e4; cases e4
      | ok v =>
        obtain ⟨c, ok⟩ := v
        rw [hm] at e4
        cases e4
        cases ok with
        | true => exact absurd hm (hbar c)
        | false =>
          simp only [Bool.not_false, if_true] at e
          cases e
          exact ⟨rfl, hn3, hp3⟩

/-- the unary facts `OT` hold for every source in which no position starts a list item -/
theorem ot_all (src : Bytes) (hno : NoItem src) : OT src where
  para := fun _ _ _ q _ _ _ _ h hnb e => paragraphOpen_opens q h hnb e
  code := fun _ _ _ q _ _ _ _ lo h hnb hw e => codeOpen_opens q lo h hnb hw e
  lsim := by
    intro bp hbp
    cases bp <;> first | exact listOpen_sim src | exact listItemOpen_sim src | cases hbp
  ldecl := by
    intro bp hbp _ k ls p q sA sB a sA' h hu e
    cases bp <;> first | exact listOpen_declines hno q h e | exact listItemOpen_declines q hu e | cases hbp
  sdecl := fun hnb _ _ _ q _ _ _ _ h e =>
    ⟨(setextOpen_declines hnb q h e).1, (setextOpen_declines hnb q h e).2.1⟩

end GM.Blocks
