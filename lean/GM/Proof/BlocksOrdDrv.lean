/-
  GM.Proof.BlocksOrdDrv — the ORDER invariant through the candidate loop, the `continuable:` exit, the `goto retry`
  loop and `openBlocks` (parser.go:928-1024): from a clean state (nothing appended on this source line yet) they end in
  a state where every non-raw block's lines still increase and end at or before the reader's line end (`Dirty`).
-/
import GM.Proof.BlocksOrdOpen

namespace GM.Blocks
open GM GM.Text GM.Spec GM.Proof.Reader
open GM.Proof.BlocksWF0 (isRaw)

theorem Inv.push {src : Bytes} {B : Int} {s : St} (hi : Inv src B s) (node : Nat) (bp : BP)
    (hk : (nd s node).kind = bp.kind) (hlt : node < s.nodes.length) :
    Inv src B { s with pc := { s.pc with opened := s.pc.opened ++ [{ node := node, bp := bp }] } } :=
  ⟨hi.nrb, hi.pne, hi.pnb, hi.tmpk, fun b hb => by
    rcases List.mem_append.1 hb with h | h
    · exact hi.kinds b h
    · simp only [List.mem_singleton] at h; rw [h]; exact ⟨hk, hlt⟩, hi.nodes⟩

theorem appendChild_lk' {p c : Nat} {s : St} {a : Unit} {s' : St} (h : appendChild p c s = .ok (a, s')) : LK s s' :=
  appendChild_lk h

/-- the new node keeps its kind through a `KG` step -/
theorem nk_kg {s s' : St} {node : Nat} {k : Kind} (h : KG s s') (hk : (nd s node).kind = k) (hlt : node < s.nodes.length) :
    (nd s' node).kind = k ∧ node < s'.nodes.length :=
  ⟨by rw [h.2 node hlt]; exact hk, Nat.lt_of_lt_of_le hlt h.1⟩

section tp
variable {src : Bytes}

/-- the end of one successful attempt of the candidate loop (parser.go:1002-1013): `AppendChild`, push, answer -/
theorem tryTailB_ord (parent node : Nat) (bp : BP) (hc : Bool) (lb' : Option Block) (s3 s' : St)
    (x : TryOutcome × OpenResult × Option Block)
    (hk : (nd s3 node).kind = bp.kind) (hlt : node < s3.nodes.length)
    (e : (do
        appendChild parent node
        modPc fun pc => { pc with opened := pc.opened ++ [{ node := node, bp := bp }] }
        if hc = true then pure (TryOutcome.retry node, OpenResult.newBlocksOpened, lb')
          else pure (TryOutcome.done, OpenResult.newBlocksOpened, lb') : M _) s3 = .ok (x, s')) :
    (∀ B, Inv src B s3 → Inv src B s') ∧ s'.r = s3.r ∧
      x = (if hc = true then TryOutcome.retry node else TryOutcome.done, OpenResult.newBlocksOpened, lb') := by
  obtain ⟨_, s4, h4, k4⟩ := obind_ok e
  have hlk := appendChild_lk h4
  obtain ⟨_, s5, h5, k5⟩ := obind_ok k4
  have e5 := omodPc_ok h5
  subst s5
  obtain ⟨hk4, hlt4⟩ := nk_kg hlk.kg hk hlt
  have hx : x = (if hc = true then TryOutcome.retry node else TryOutcome.done, OpenResult.newBlocksOpened, lb') ∧
      s' = { s4 with pc := { s4.pc with opened := s4.pc.opened ++ [{ node := node, bp := bp }] } } := by
    split at k5
    · next h => obtain ⟨a, b⟩ := opure_ok k5; rw [if_pos h]; exact ⟨a, b⟩
    · next h => obtain ⟨a, b⟩ := opure_ok k5; rw [if_neg h]; exact ⟨a, b⟩
  obtain ⟨hx1, hx2⟩ := hx
  subst s'
  exact ⟨fun B hB => (hB.lk hlk).push node bp hk4 hlt4, hlk.r, hx1⟩



/-- one successful attempt behind `Open` (parser.go:985-1013): the RequireParagraph pop, `SetBlankPreviousLines`, the
    `last.Parent() == nil` pop, `AppendChild`, push -/
theorem tryTail_ord (parent node : Nat) (bp : BP) (blank : Bool) (state : PState) (lb' : Option Block) (s2 s' : St)
    (x : TryOutcome × OpenResult × Option Block) (E : Int)
    (hE : Inv src E s2) (hsrc : s2.r.source = src) (hlb : ∀ lb, lb' = some lb → lb ∈ s2.pc.opened)
    (hk : (nd s2 node).kind = bp.kind) (hlt : node < s2.nodes.length)
    (e : (do
        if state.requirePara then
          if lb'.map (·.node) == (← getNode parent).children.getLast? then
            match lb' with
            | none => throw .nil
            | some lb =>
              bpClose lb.bp lb.node
              let blocks := (← getPc).opened
              if blocks.length == 0 then throw .slice
              modPc fun pc => { pc with opened := blocks.dropLast }
              if (← getNode lb.node).kind != .paragraph then throw .assert
        modNode node fun n => { n with blankPrev := blank }
        match lb'.map (·.node) with
        | some l =>
          if (← getNode l).parent.isNone then
            let lastPos : Int := ((← getPc).opened.length : Int) - 1
            closeBlocks lastPos lastPos
        | none => pure ()
        appendChild parent node
        modPc fun pc => { pc with opened := pc.opened ++ [{ node := node, bp := bp }] }
        if state.hasChildren then return (TryOutcome.retry node, OpenResult.newBlocksOpened, lb')
        return (TryOutcome.done, OpenResult.newBlocksOpened, lb') : M _) s2 = .ok (x, s')) :
    (∀ B, Inv src B s2 → Inv src B s') ∧ s'.r = s2.r ∧
      x = (if state.hasChildren = true then TryOutcome.retry node else TryOutcome.done, OpenResult.newBlocksOpened, lb') := by
  -- the part behind the RequireParagraph block, from any state
  have part2 : ∀ (s3 : St), s3.r.source = src → (nd s3 node).kind = bp.kind → node < s3.nodes.length →
      (∃ B, Inv src B s3) →
      (do
        modNode node fun n => { n with blankPrev := blank }
        match lb'.map (·.node) with
        | some l =>
          if (← getNode l).parent.isNone then
            let lastPos : Int := ((← getPc).opened.length : Int) - 1
            closeBlocks lastPos lastPos
        | none => pure ()
        appendChild parent node
        modPc fun pc => { pc with opened := pc.opened ++ [{ node := node, bp := bp }] }
        if state.hasChildren then return (TryOutcome.retry node, OpenResult.newBlocksOpened, lb')
        return (TryOutcome.done, OpenResult.newBlocksOpened, lb') : M _) s3 = .ok (x, s') →
      (∀ B, Inv src B s3 → Inv src B s') ∧ s'.r = s3.r ∧
        x = (if state.hasChildren = true then TryOutcome.retry node else TryOutcome.done, OpenResult.newBlocksOpened, lb') := by
    intro s3 hsrc3 hk3 hlt3 hex e3
    obtain ⟨_, s4, h4, k4⟩ := obind_ok e3
    have hlk := modNode_lk h4 (fun _ => ⟨rfl, rfl, rfl⟩)
    obtain ⟨hk4, hlt4⟩ := nk_kg hlk.kg hk3 hlt3
    have hsrc4 : s4.r.source = src := by rw [hlk.r]; exact hsrc3
    extract_lets jp at k4
    have hjp : ∀ (r : Unit) (s5 : St), (nd s5 node).kind = bp.kind → node < s5.nodes.length → jp r s5 = .ok (x, s') →
        (∀ B, Inv src B s5 → Inv src B s') ∧ s'.r = s5.r ∧
          x = (if state.hasChildren = true then TryOutcome.retry node else TryOutcome.done, OpenResult.newBlocksOpened, lb') :=
      fun r s5 hk5 hlt5 h => tryTailB_ord (src := src) parent node bp state.hasChildren lb' s5 s' x hk5 hlt5 h
    cases hl : lb'.map (·.node) with
    | none =>
      rw [hl] at k4
      obtain ⟨r1, r2, r3⟩ := hjp () s4 hk4 hlt4 k4
      exact ⟨fun B hB => r1 B (hB.lk hlk), by rw [r2, hlk.r], r3⟩
    | some l =>
      rw [hl] at k4
      dsimp only at k4
      obtain ⟨ln, s6, h6, k6⟩ := obind_ok k4
      obtain ⟨_, hs6⟩ := ogetNode_ok h6
      subst s6
      split at k6
      · obtain ⟨pc, s7, h7, k7⟩ := obind_ok k6
        obtain ⟨_, hs7⟩ := ogetPc_ok h7
        subst s7
        obtain ⟨rr, s8, h8, k8⟩ := obind_ok k7
        obtain ⟨B0, hB0⟩ := hex
        have hB4 := hB0.lk hlk
        obtain ⟨_, b2, _, b4⟩ := closeBlocks_inv _ _ hB4 hsrc4 h8
        obtain ⟨hk8, hlt8⟩ := nk_kg b4 hk4 hlt4
        obtain ⟨r1, r2, r3⟩ := hjp rr s8 hk8 hlt8 k8
        exact ⟨fun B hB => r1 B (closeBlocks_inv _ _ (hB.lk hlk) hsrc4 h8).1, by rw [r2, b2, hlk.r], r3⟩
      · obtain ⟨r1, r2, r3⟩ := hjp () s4 hk4 hlt4 k6
        exact ⟨fun B hB => r1 B (hB.lk hlk), by rw [r2, hlk.r], r3⟩
  extract_lets jpB jp1 at e
  have hjp1 : ∀ (r : Unit) (s3 : St), s3.r.source = src → (nd s3 node).kind = bp.kind → node < s3.nodes.length →
      (∃ B, Inv src B s3) → jp1 r s3 = .ok (x, s') →
      (∀ B, Inv src B s3 → Inv src B s') ∧ s'.r = s3.r ∧
        x = (if state.hasChildren = true then TryOutcome.retry node else TryOutcome.done, OpenResult.newBlocksOpened, lb') :=
    fun r s3 a b c d h => part2 s3 a b c d h
  split at e
  · obtain ⟨pn, s4, h4, k4⟩ := obind_ok e
    obtain ⟨_, hs4⟩ := ogetNode_ok h4
    subst s4
    split at k4
    · cases hlb' : lb' with
      | none =>
        rw [hlb'] at k4
        obtain ⟨_, _, ht, _⟩ := obind_ok k4
        cases ht
      | some lb =>
        rw [hlb'] at k4
        dsimp only at k4
        obtain ⟨_, s5, h5, k5⟩ := obind_ok k4
        obtain ⟨hkb, hltb⟩ := hE.kinds lb (hlb lb hlb')
        obtain ⟨c1, c2, c3, c4⟩ := bpClose_inv lb.bp lb.node hE hsrc hkb hltb h5
        obtain ⟨pc, s6, h6, k6⟩ := obind_ok k5
        obtain ⟨rfl, hs6⟩ := ogetPc_ok h6
        subst s6
        have hsrc5 : s5.r.source = src := by rw [c2]; exact hsrc
        obtain ⟨hk5, hlt5⟩ := nk_kg c4 hk hlt
        -- the pop and the type assertion
        have hpop : ∀ (r : Unit), (do
              modPc fun pc => { pc with opened := s5.pc.opened.dropLast }
              if (← getNode lb.node).kind != .paragraph then do
                let __r ← throw Panic.assert
                jp1 __r
              else jp1 () : M _) s5 = .ok (x, s') →
            (∀ B, Inv src B s2 → Inv src B s') ∧ s'.r = s2.r ∧
              x = (if state.hasChildren = true then TryOutcome.retry node else TryOutcome.done,
                OpenResult.newBlocksOpened, lb') := by
          intro _ k7
          obtain ⟨_, s8, h8, k8⟩ := obind_ok k7
          have e8 := omodPc_ok h8
          subst s8
          obtain ⟨ln, s9, h9, k9⟩ := obind_ok k8
          obtain ⟨_, hs9⟩ := ogetNode_ok h9
          subst s9
          split at k9
          · obtain ⟨_, _, ht, _⟩ := obind_ok k9
            cases ht
          · have hpopInv : ∀ B, Inv src B s2 → Inv src B
                ({ s5 with pc := { s5.pc with opened := s5.pc.opened.dropLast } } : St) := fun B hB =>
              ((bpClose_inv lb.bp lb.node hB hsrc hkb hltb h5).1).congr_pc _ rfl
                (fun b hb => List.dropLast_subset _ hb)
            obtain ⟨r1, r2, r3⟩ := hjp1 () ({ s5 with pc := { s5.pc with opened := s5.pc.opened.dropLast } } : St)
              hsrc5 hk5 hlt5 ⟨E, hpopInv E hE⟩ k9
            exact ⟨fun B hB => r1 B (hpopInv B hB), by rw [r2]; exact c2, r3⟩
        split at k6
        · obtain ⟨_, _, ht, _⟩ := obind_ok k6
          cases ht
        · have hfin := hpop () k6
          rw [hlb'] at hfin
          exact hfin
    · exact hjp1 () s2 hsrc hk hlt ⟨E, hE⟩ k4
  · exact hjp1 () s2 hsrc hk hlt ⟨E, hE⟩ e


/-- `BlockOffset` is an index of the current view (or −1) -/
def BoffOK (src : Bytes) (s : St) (c : RCur) : Prop := s.pc.blockOffset < (((RCur.view src c).getD []).length : Int)

/-- **the candidate loop** (parser.go:960-1014) from a clean state: nothing opened — still clean, same cursor, same
    store and stack; a leaf opened — `Dirty`; a container opened — clean again, cursor further on. -/
theorem tryParsers_ord (L : Int) (parent : Nat) (blank cont : Bool) (w : Int) :
    ∀ (bps : List BP) (result : OpenResult) (lb : Option Block) (s : St) (c : RCur)
      (x : TryOutcome × OpenResult × Option Block) (s' : St),
      Clean src L s c → c.p < src.length → BoffOK src s c →
      tryParsers parent blank cont w bps result lb s = .ok (x, s') →
      Dirty src s' ∧
      ((x.1 = .done ∧ x.2.1 = result ∧ Clean src L s' c ∧ s'.nodes = s.nodes ∧ s'.pc.opened = s.pc.opened ∧
          s'.pc.blockOffset = s.pc.blockOffset ∧ (x.2.2 = lb ∨ x.2.2 = s.pc.opened.getLast?)) ∨
       (x.1 = .done ∧ x.2.1 = .newBlocksOpened) ∨
       (∃ p' c', x.1 = .retry p' ∧ x.2.1 = .newBlocksOpened ∧ Clean src L s' c' ∧ c.p ≤ c'.p)) := by
  intro bps
  induction bps with
  | nil =>
    intro result lb s c x s' hc _ _ h
    unfold tryParsers at h
    obtain ⟨rfl, hs⟩ := opure_ok h
    subst s'
    exact ⟨hc.dirty, .inl ⟨rfl, rfl, hc, rfl, rfl, rfl, .inl rfl⟩⟩
  | cons bp bps ih =>
    intro result lb s c x s' hc hlt hoff h
    unfold tryParsers at h
    split at h
    · exact ih _ _ _ _ _ _ hc hlt hoff (by simpa using h)
    · split at h
      · exact ih _ _ _ _ _ _ hc hlt hoff (by simpa using h)
      · obtain ⟨lb', s1, h1, k1⟩ := obind_ok h
        obtain ⟨hlb', hs1⟩ := olastOpenedBlock_ok h1
        subst s1
        subst lb'
        dsimp only at k1
        obtain ⟨y, s2, h2, k2⟩ := obind_ok k1
        have eff := open_eff bp parent hc hlt hoff h2
        obtain ⟨node, state⟩ := y
        cases node with
        | none =>
          dsimp only at k2
          obtain ⟨hc2, hn2⟩ := eff.declined rfl
          have hoff2 : BoffOK src s2 c := by unfold BoffOK; rw [eff.boff]; exact hoff
          obtain ⟨d, hcases⟩ := ih _ _ _ _ _ _ hc2 hlt hoff2 k2
          refine ⟨d, ?_⟩
          rcases hcases with ⟨a1, a2, a3, a4, a5, a6, a7⟩ | hb | hcc
          · refine .inl ⟨a1, a2, a3, a4.trans hn2, a5.trans eff.opened, a6.trans eff.boff, .inr ?_⟩
            rcases a7 with a7 | a7
            · exact a7
            · rw [a7, eff.opened]
          · exact .inr (.inl hb)
          · exact .inr (.inr hcc)
        | some node =>
          dsimp only at k2
          obtain ⟨hid, hltn, hkn⟩ := eff.node node rfl
          have htail := tryTail_ord (src := src) parent node bp blank state s.pc.opened.getLast? s2 s' x
            (lineEnd src c.p : Int) eff.invE eff.stop.source
            (fun lb0 hlb0 => by rw [eff.opened]; exact List.mem_of_getLast? hlb0) hkn hltn k2
          obtain ⟨t1, t2, t3⟩ := htail
          have hd : Dirty src s' := ⟨_, t1 _ eff.invE, eff.stop.congr t2⟩
          refine ⟨hd, ?_⟩
          by_cases hch : state.hasChildren = true
          · obtain ⟨c', hc', hle⟩ := eff.container hch
            rw [if_pos hch] at t3
            refine .inr (.inr ⟨node, c', by rw [t3], by rw [t3], hc'.congr (t1 L hc'.inv) t2, hle⟩)
          · rw [if_neg hch] at t3
            exact .inr (.inl ⟨by rw [t3], by rw [t3]⟩)

/-- `cont` was computed from the last opened block, which is a Paragraph -/
def ContOK (cont : Bool) (s : St) : Prop :=
  cont = true → ∃ lb, s.pc.opened.getLast? = some lb ∧ (nd s lb.node).kind = .paragraph

/-- **the `continuable:` exit** (parser.go:1016-1023) from a clean state -/
theorem toContinuable_ord (L : Int) (cont : Bool) (result : OpenResult) (lbo : Option Block) (s : St) (c : RCur)
    (r' : OpenResult) (s' : St) (hc : Clean src L s c)
    (hres : result = .noBlocksOpened → lbo = s.pc.opened.getLast? ∧ ContOK cont s)
    (h : toContinuable cont result lbo s = .ok (r', s')) : Dirty src s' := by
  unfold toContinuable at h
  split at h
  · next hcond =>
    simp only [Bool.and_eq_true, beq_iff_eq] at hcond
    obtain ⟨hlbo, hck⟩ := hres hcond.1
    obtain ⟨lb, hlast, hkind⟩ := hck hcond.2
    rw [hlbo, hlast] at h
    dsimp only at h
    obtain ⟨st, s1, h1, k1⟩ := obind_ok h
    have hs' : s' = s1 := by
      split at k1
      · obtain ⟨_, hs⟩ := opure_ok k1; exact hs
      · obtain ⟨_, hs⟩ := opure_ok k1; exact hs
    subst s'
    have hmem := List.mem_of_getLast? hlast
    obtain ⟨hkb, hltb⟩ := hc.inv.kinds lb hmem
    have hbp : lb.bp = .paragraph := kind_paragraph (by rw [← hkb]; exact hkind)
    rw [hbp] at h1
    have h1' : paragraphContinue lb.node s = .ok (st, s1) := h1
    obtain ⟨r1, c1, hr1, hri1, hle1, hpc1, hcase⟩ := (paragraphContinue_line hc.ri lb.node).of_ok h1'
    have hstop : Stop src (lineEnd src c.p : Int) s1 := by
      have := (paragraphContinue_pres (stop_prims src (lineEnd src c.p : Int)) lb.node).h s hc.ri.stop
      rw [h1'] at this; exact this
    refine ⟨(lineEnd src c.p : Int), ?_, hstop⟩
    rcases hcase with ⟨_, hn, _⟩ | ⟨_, hp, hok, hnbs, hlt', hn⟩
    · exact ⟨fun i => by simp only [nd, hn]; exact hc.invE.nrb i, fun i => by simp only [nd, hn]; exact hc.invE.pne i,
        fun i => by simp only [nd, hn]; exact hc.invE.pnb i,
        fun t ht => by rw [hpc1] at ht; simp only [nd, hn]; exact hc.invE.tmpk t ht, fun b hb => by
          rw [hpc1] at hb; simp only [nd, hn]; exact hc.invE.kinds b hb, fun m hm => hc.invE.nodes m (by rw [← hn]; exact hm)⟩
    · -- the continuation line goes to a block whose lines all end at or before the line start
      have hge := lineEnd_ge src hc.ri.inRange
      have hfresh := (hc.inv.nrb lb.node).1 (by rw [hkind]; rfl)
      have hs1 : s1 = ⟨r1, s.nodes.set lb.node
          { (nd s lb.node) with lines := (nd s lb.node).lines ++ [RCur.seg src c], linesNil := false }, s.pc⟩ := by
        cases s1; simp only at hr1 hpc1 hn; subst hr1 hpc1 hn; rfl
      have hnd : ∀ i, nd s1 i = if i = lb.node then
          { (nd s lb.node) with lines := (nd s lb.node).lines ++ [RCur.seg src c], linesNil := false } else nd s i := by
        intro i
        have : nd s1 i = nd (upd s lb.node fun n => { n with lines := n.lines ++ [RCur.seg src c], linesNil := false }) i := by
          rw [hs1]; rfl
        rw [this, nd_upd]
        by_cases hi : i = lb.node
        · subst hi; simp [hltb]
        · have : ¬ (lb.node = i ∧ lb.node < s.nodes.length) := fun hh => hi hh.1.symm
          rw [if_neg this, if_neg hi]
      have hord : OrdFrom 0 ((nd s lb.node).lines ++ [RCur.seg src c]) ∧
          Below (lineEnd src c.p : Int) ((nd s lb.node).lines ++ [RCur.seg src c]) ∧
          ∀ t ∈ (nd s lb.node).lines ++ [RCur.seg src c], t.start < t.stop ∧ t.forceNewline = false :=
        ⟨OrdFrom.append_fresh (L := L) (by show L ≤ (c.p : Int); exact hc.le) hfresh.1 hfresh.2.1
            (by show (0 : Int) ≤ (c.p : Int); omega),
          hfresh.2.1.append (by have := hc.le; omega) (Int.le_refl _),
          fun t ht => by
            rcases List.mem_append.1 ht with h' | h'
            · exact hfresh.2.2 t h'
            · simp only [List.mem_singleton] at h'; rw [h']; exact ⟨hlt', rfl⟩⟩
      refine ⟨fun i => ?_, fun i hk => ?_, fun i hk => ?_, fun t ht => ?_, fun b hb => ?_, fun m hm => ?_⟩
      · rw [hnd]
        split
        · exact ⟨fun _ => hord, (fun hr => by simp only at hr; rw [hkind] at hr; cases hr),
            (fun hr => by simp only at hr; rw [hkind] at hr; cases hr)⟩
        · exact hc.invE.nrb i
      · rw [hnd] at hk ⊢
        split
        · simp
        · next hne => rw [if_neg hne] at hk; exact hc.invE.pne i hk
      · rw [hnd] at hk ⊢
        split
        · intro t ht
          rcases List.mem_append.1 ht with h' | h'
          · exact hc.inv.pnb lb.node hkind t h'
          · simp only [List.mem_singleton] at h'; rw [h']; exact hnbs
        · next hne => rw [if_neg hne] at hk; exact hc.invE.pnb i hk
      · rw [hpc1] at ht
        rw [hnd]; split
        · exact hkind
        · exact hc.inv.tmpk t ht
      · rw [hpc1] at hb
        obtain ⟨k1', k2'⟩ := hc.inv.kinds b hb
        refine ⟨?_, by rw [hs1]; simpa using k2'⟩
        rw [hnd]; split
        · next he => simp only; rw [← he]; exact k1'
        · exact k1'
      · obtain ⟨i, hil, rfl⟩ := mem_nodes_nd hm
        rw [hnd]
        split
        · refine ⟨fun u hu => ?_, fun hn0 => by cases hn0⟩
          rcases List.mem_append.1 hu with h' | h'
          · exact (nodeOK_nd hc.inv.nodes lb.node).lines u h'
          · simp only [List.mem_singleton] at h'; rw [h']; exact hok
        · exact nodeOK_nd hc.inv.nodes i
  · have h' : (pure result : M OpenResult) s = .ok (r', s') := h
    obtain ⟨_, hs⟩ := opure_ok h'
    subst s'
    exact hc.dirty


theorem toContinuable_new (cont : Bool) (lbo : Option Block) (s : St) (r' : OpenResult) (s' : St)
    (h : toContinuable cont .newBlocksOpened lbo s = .ok (r', s')) : s' = s := by
  unfold toContinuable at h
  rw [if_neg (by simp)] at h
  have h' : (pure OpenResult.newBlocksOpened : M OpenResult) s = .ok (r', s') := h
  exact (opure_ok h').2

theorem lineOffset_inv {s s2 : St} {c : RCur} {lo : Int} (h : RI src s.r c) (e : lineOffset s = .ok (lo, s2)) :
    ∃ r2, s2 = { s with r := r2 } ∧ RI src r2 c := by
  obtain ⟨_, r2, hs, hr⟩ := (lineOffset_okl h).of_ok e
  exact ⟨r2, hs, hr⟩

/-- **the `goto retry` loop of openBlocks** (parser.go:935-1023) from a clean state ends `Dirty` -/
theorem openBlocksLoop_ord (L : Int) (blank cont : Bool) :
    ∀ (fuel parent : Nat) (result : OpenResult) (lbo : Option Block) (s : St) (c : RCur) (r' : OpenResult) (s' : St),
      Clean src L s c → (result = .noBlocksOpened → lbo = s.pc.opened.getLast? ∧ ContOK cont s) →
      openBlocksLoop blank cont fuel parent result lbo s = .ok (r', s') → Dirty src s' := by
  intro fuel
  induction fuel with
  | zero => intro parent result lbo s c r' s' _ _ h; unfold openBlocksLoop at h; cases h
  | succ fuel ih =>
    intro parent result lbo s c r' s' hc hres h
    unfold openBlocksLoop at h
    obtain ⟨y, s1, h1, k1⟩ := obind_ok h
    obtain ⟨rfl, r1, hs1, hr1⟩ := peekLine_inv hc.ri h1
    subst s1
    dsimp only at k1
    obtain ⟨lo, s2, h2, k2⟩ := obind_ok k1
    obtain ⟨r2, hs2, hr2⟩ := lineOffset_inv (s := { s with r := r1 }) hr1 h2
    subst s2
    obtain ⟨u, s3, h3, k3⟩ := obind_ok k2
    have e3 := omodPc_ok h3
    -- the state after the three steps: reader caches and BlockOffset / BlockIndent changed
    have hop3 : s3.pc.opened = s.pc.opened := by rw [e3]; dsimp only; split <;> rfl
    have htm3 : s3.pc.tmpPara = s.pc.tmpPara := by rw [e3]; dsimp only; split <;> rfl
    have hn3 : s3.nodes = s.nodes := by rw [e3]
    have hr3 : s3.r = r2 := by rw [e3]
    have hc3 : Clean src L s3 c := by
      refine ⟨?_, by rw [hr3]; exact hr2, hc.pad, hc.le, hc.padl⟩
      have hi := hc.inv
      exact ⟨fun i => by simp only [nd, hn3]; exact hi.nrb i, fun i => by simp only [nd, hn3]; exact hi.pne i,
        fun i => by simp only [nd, hn3]; exact hi.pnb i,
        fun t ht => by rw [htm3] at ht; simp only [nd, hn3]; exact hi.tmpk t ht,
        fun b hb => by rw [hop3] at hb; simp only [nd, hn3]; exact hi.kinds b hb,
        fun m hm => hi.nodes m (by rw [← hn3]; exact hm)⟩
    have hres3 : result = .noBlocksOpened → lbo = s3.pc.opened.getLast? ∧ ContOK cont s3 := by
      intro hr
      obtain ⟨a, b⟩ := hres hr
      refine ⟨by rw [hop3]; exact a, fun hct => ?_⟩
      obtain ⟨lb, h1', h2'⟩ := b hct
      exact ⟨lb, by rw [hop3]; exact h1', by simp only [nd, hn3]; exact h2'⟩
    have hboff : (RCur.view src c).isSome = true → BoffOK src s3 c := by
      intro hsome
      unfold BoffOK
      rw [e3]
      dsimp only
      split
      · simp only; omega
      · simp only; omega
    have exit : ∀ (res : OpenResult) (l : Option Block) (sA : St), sA = s3 →
        (res = .noBlocksOpened → l = s3.pc.opened.getLast? ∧ ContOK cont s3) →
        toContinuable cont res l sA = .ok (r', s') → Dirty src s' := by
      intro res l sA hsA hr hk
      subst hsA
      exact toContinuable_ord L cont res l sA c r' s' hc3 hr hk
    have viaTry : ∀ (bps : List BP), (RCur.view src c).isSome = true →
        (do let s0 ← get
            let __x ← tryParsers parent blank cont (indentWidthI ((RCur.view src c).getD []) lo).1 bps result lbo
            match __x.1 with
            | TryOutcome.retry parent' => do
              let s1 ← get
              if (!decide (retryMeasure s1 < retryMeasure s0)) = true then do
                throw Panic.pre
                openBlocksLoop blank cont fuel parent' __x.2.1 __x.2.2
              else openBlocksLoop blank cont fuel parent' __x.2.1 __x.2.2
            | TryOutcome.done => toContinuable cont __x.2.1 __x.2.2 : M OpenResult) s3 = .ok (r', s') →
        Dirty src s' := by
      intro bps hsome hk
      obtain ⟨s0, s4, h4, k4⟩ := obind_ok hk
      have e4 : s4 = s3 := by cases h4; rfl
      subst s4
      obtain ⟨x, s5, h5, k5⟩ := obind_ok k4
      have hlt : c.p < src.length := by
        cases hv : RCur.view src c with
        | none => rw [hv] at hsome; cases hsome
        | some l => exact view_some_lt src c hv
      obtain ⟨hd5, hcases⟩ := tryParsers_ord (src := src) L parent blank cont _ bps result lbo s3 c x s5 hc3 hlt
        (hboff hsome) h5
      rcases hcases with ⟨a1, a2, a3, a4, a5, _, a7⟩ | ⟨b1, b2⟩ | ⟨p', c', c1, c2, c3, _⟩
      · rw [a1] at k5
        dsimp only at k5
        refine toContinuable_ord L cont x.2.1 x.2.2 s5 c r' s' a3 (fun hr => ?_) k5
        rw [a2] at hr
        obtain ⟨q1, q2⟩ := hres3 hr
        refine ⟨?_, fun hct => ?_⟩
        · rcases a7 with a7 | a7
          · rw [a7, q1, a5]
          · rw [a7, a5]
        · obtain ⟨lb, h1', h2'⟩ := q2 hct
          exact ⟨lb, by rw [a5]; exact h1', by simp only [nd, a4]; exact h2'⟩
      · rw [b1] at k5
        dsimp only at k5
        rw [b2] at k5
        rw [toContinuable_new cont _ s5 r' s' k5]
        exact hd5
      · rw [c1] at k5
        dsimp only at k5
        obtain ⟨s6, s7, h7, k7⟩ := obind_ok k5
        have e7 : s7 = s5 := by cases h7; rfl
        subst s7
        have hrec : openBlocksLoop blank cont fuel p' x.2.1 x.2.2 s5 = .ok (r', s') := by
          split at k7
          · obtain ⟨_, _, hthrow, _⟩ := obind_ok k7
            cases hthrow
          · exact k7
        exact ih p' x.2.1 x.2.2 s5 c' r' s' c3 (fun hr => by rw [c2] at hr; cases hr) hrec
    split at k3
    · exact exit _ _ s3 rfl hres3 k3
    · next hsome0 =>
      have hsome : (RCur.view src c).isSome = true := by
        cases hv : RCur.view src c with
        | none => rw [hv] at hsome0; simp at hsome0
        | some l => rfl
      obtain ⟨ch, s4, h4, k4⟩ := obind_ok k3
      obtain ⟨_, e4⟩ := oliftE_ok h4
      subst s4
      split at k4
      · exact exit _ _ s3 rfl hres3 k4
      · split at k4
        · obtain ⟨c', s5, h5, k5⟩ := obind_ok k4
          obtain ⟨_, e5⟩ := oliftE_ok h5
          subst s5
          obtain ⟨bps, s6, h6, k6⟩ := obind_ok k5
          obtain ⟨_, e6⟩ := opure_ok h6
          subst s6
          exact viaTry bps hsome k6
        · obtain ⟨bps, s6, h6, k6⟩ := obind_ok k4
          obtain ⟨_, e6⟩ := opure_ok h6
          subst s6
          exact viaTry bps hsome k6

/-- **openBlocks** (parser.go:928-1024) from a clean state ends `Dirty` -/
theorem openBlocks_ord (L : Int) (parent : Nat) (blank : Bool) (s : St) (c : RCur) (r' : OpenResult) (s' : St)
    (hc : Clean src L s c) (h : openBlocks parent blank s = .ok (r', s')) : Dirty src s' := by
  unfold openBlocks at h
  obtain ⟨lb, s1, h1, k1⟩ := obind_ok h
  obtain ⟨hlb, hs1⟩ := olastOpenedBlock_ok h1
  subst s1
  subst lb
  have fin : ∀ cont, ContOK cont s →
      (do let v ← source; openBlocksLoop blank cont (retryFuel v) parent OpenResult.noBlocksOpened s.pc.opened.getLast? : M OpenResult) s
      = .ok (r', s') → Dirty src s' := by
    intro cont hco k2
    obtain ⟨v, s3, h3, k3⟩ := obind_ok k2
    have e3 : s3 = s := by cases h3; rfl
    subst s3
    exact openBlocksLoop_ord L blank cont _ parent _ _ s c r' s' hc (fun _ => ⟨rfl, hco⟩) k3
  dsimp only at k1
  cases hl : s.pc.opened.getLast? with
  | none =>
    rw [hl] at k1
    dsimp only at k1
    obtain ⟨cont, s2, h2, k2⟩ := obind_ok k1
    obtain ⟨hcont, e2⟩ := opure_ok h2
    subst s2
    subst cont
    rw [← hl] at k2
    exact fin false (fun h => by cases h) k2
  | some b =>
    rw [hl] at k1
    dsimp only at k1
    obtain ⟨n, s2, h2, k2⟩ := obind_ok k1
    obtain ⟨hn, e2⟩ := ogetNode_ok h2
    subst s2
    subst n
    obtain ⟨cont, s3, h3, k3⟩ := obind_ok k2
    obtain ⟨hcont, e3⟩ := opure_ok h3
    subst s3
    subst cont
    rw [← hl] at k3
    exact fin _ (fun hct => ⟨b, hl, by simpa using hct⟩) k3

end tp

end GM.Blocks
