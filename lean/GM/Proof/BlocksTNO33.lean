/-
  GM.Proof.BlocksTNO8 — GM.Proof.BlocksTNO3 for EVERY source: the candidate loop `tryParsersT` WITH the RequireParagraph
  path (`requireParaT`: `paragraph.Close`, pop, transformParagraph; KEEP — the setext block is pushed with the key naming the
  popped paragraph, which has lines and is no open block's node; GONE — `.retryTransformed`, the Heading node is abandoned,
  the state is clean again), the `continuable:` exit, the `goto retry` loop and `openBlocksT`, for two transformer lists
  that agree on paragraphs whose lines pass the run-time check (`AgreeP`: no hypothesis on the parent).
-/
import GM.Proof.BlocksTNO32

namespace GM.Blocks.TX
open GM GM.Text GM.Spec GM.Proof.Reader GM.LinkRef GM.Blocks.TO GM.TableX
open GM.Proof.BlocksWF0 (isRaw)

/-- `Agree` without the hypothesis that the paragraph has a parent -/
def AgreeP (src : Bytes) (pts1 pts2 : List PT) : Prop :=
  ∀ (node : Nat) (s : St), s.r.source = src → node < s.nodes.length → (nd s node).kind = .paragraph →
    NodesOK src s → linesOKB src (nd s node).lines = true →
    EQV (fun g s' => PTPostX src node s s' ∧ (g = false → (nd s' node).parent.isSome = true))
      (transformParagraph pts1 node) (transformParagraph pts2 node) s

theorem AgreeP.agree {src : Bytes} {pts1 pts2 : List PT} (h : AgreeP src pts1 pts2) : Agree src pts1 pts2 :=
  fun node s a b c _ d f => (h node s a b c d f).mono (fun _ _ hh => hh.1)

/-! ### "no setext block below a paragraph block" -/

def QQ (s : St) : Prop := s.pc.opened.Pairwise (fun a b => b.bp = .paragraph → a.bp ≠ .setext)

theorem QQ.congr {s s' : St} (h : QQ s) (ho : s'.pc.opened.Sublist s.pc.opened) : QQ s' := List.Pairwise.sublist ho h

theorem QQ.of_leafy {s : St} (h : Leafy s.pc.opened) : QQ s := by
  unfold QQ
  generalize s.pc.opened = l at h
  induction l with
  | nil => exact List.Pairwise.nil
  | cons x xs ih =>
    refine List.Pairwise.cons (fun b hb _ hx => ?_) (ih (fun b hb => h b ?_))
    · have hne : xs ≠ [] := List.ne_nil_of_mem hb
      have : x ∈ (x :: xs).dropLast := by
        cases xs with
        | nil => exact absurd rfl hne
        | cons y ys => simp [List.dropLast]
      have := h x this
      rw [hx] at this; cases this
    · cases xs with
      | nil => simp at hb
      | cons y ys => simp only [List.dropLast_cons₂]; exact List.mem_cons_of_mem _ hb

/-- when the last opened block is a Paragraph node, no setext block is open -/
theorem QQ.sf {s : St} (hq : QQ s) (hk : ∀ b ∈ s.pc.opened, (nd s b.node).kind = b.bp.kind) {lb : Block}
    (hl : s.pc.opened.getLast? = some lb) (hp : (nd s lb.node).kind = .paragraph) : ∀ b ∈ s.pc.opened, b.bp ≠ .setext := by
  have hlbp : lb.bp = .paragraph := kind_paragraph (by rw [← hk lb (List.mem_of_getLast? hl)]; exact hp)
  obtain ⟨ys, hys⟩ := List.getLast?_eq_some_iff.1 hl
  intro b hb
  unfold QQ at hq
  rw [hys] at hb hq
  rcases List.mem_append.1 hb with h | h
  · exact (List.pairwise_append.1 hq).2.2 b h lb (by simp) hlbp
  · simp only [List.mem_singleton] at h; rw [h, hlbp]; decide

theorem isContainer_ne_paragraph {bp : BP} (h : bp.isContainer = true) : bp ≠ .paragraph := by
  intro e; rw [e] at h; cases h

theorem InvGFX.push {F : Prop} {src : Bytes} {B : Int} {s : St} (hi : InvGF F src B s) (node : Nat) (bp : BP)
    (hk : (nd s node).kind = bp.kind) (hlt : node < s.nodes.length)
    (hgt : ∀ b ∈ s.pc.opened, b.node < node) (hnt : ∀ t, s.pc.tmpPara = some t → t ≠ node) (hsx : bp = .setext → F)
    (hpo : bp = .paragraph → ∀ t, (nd s node).lines.getLast? = some t → LEnd src t) :
    InvG src B { s with pc := { s.pc with opened := s.pc.opened ++ [{ node := node, bp := bp }] } } := by
  refine ⟨hi.nrb, ?_, hi.pnb, hi.tmpk, fun b hb => ?_, hi.nodes, fun t ht hm => ?_, hi.raw, hi.pnl, fun b hb hd hbp => ?_⟩
  rotate_left 3
  · rcases List.mem_append.1 hb with h | h
    · exact hi.pol b h hd hbp
    · simp only [List.mem_singleton] at h; rw [h] at hbp ⊢; exact hpo hbp
  · exact List.pairwise_append.2 ⟨hi.ord, List.pairwise_singleton _ _, fun a ha b hb => by
      simp only [List.mem_singleton] at hb; rw [hb]; exact hgt a ha⟩
  · rcases List.mem_append.1 hb with h | h
    · exact hi.kinds b h
    · simp only [List.mem_singleton] at h; rw [h]; exact ⟨hk, hlt⟩
  · obtain ⟨b, hb, hs⟩ := hm.resolve_left id
    have hm' : F ∨ ∃ b ∈ s.pc.opened, b.bp = .setext := by
      rcases List.mem_append.1 hb with h | h
      · exact .inr ⟨b, h, hs⟩
      · simp only [List.mem_singleton] at h; rw [h] at hs; exact .inl (hsx hs)
    obtain ⟨a1, a2⟩ := hi.tl t ht hm'
    refine ⟨a1, fun b' hb' => ?_⟩
    rcases List.mem_append.1 hb' with h | h
    · exact a2 b' h
    · simp only [List.mem_singleton] at h; rw [h]; exact fun e0 => hnt t ht e0.symm

section inv
variable {src : Bytes}

/-- the end of one successful attempt of the candidate loop (parser.go:1002-1013): `AppendChild`, push, answer -/
theorem tryTailBG_ord {F : Prop} (parent node : Nat) (bp : BP) (hc : Bool) (lb' : Option Block) (s3 s' : St)
    (x : TryOutcomeT × OpenResult × Option Block)
    (hk : (nd s3 node).kind = bp.kind) (hlt : node < s3.nodes.length)
    (hgt : ∀ b ∈ s3.pc.opened, b.node < node) (hnt : ∀ t, s3.pc.tmpPara = some t → t ≠ node)
    (hpo : bp = .paragraph → ∀ t, (nd s3 node).lines.getLast? = some t → LEnd src t)
    (e : (do
        appendChild parent node
        modPc fun pc => { pc with opened := pc.opened ++ [{ node := node, bp := bp }] }
        if hc = true then pure (TryOutcomeT.retry node, OpenResult.newBlocksOpened, lb')
          else pure (TryOutcomeT.done, OpenResult.newBlocksOpened, lb') : M _) s3 = .ok (x, s')) :
    (∀ B, InvGF F src B s3 → (bp = .setext → F) → InvG src B s') ∧ s'.r = s3.r ∧
      x = (if hc = true then TryOutcomeT.retry node else TryOutcomeT.done, OpenResult.newBlocksOpened, lb') ∧
      s'.pc.opened = s3.pc.opened ++ [{ node := node, bp := bp }] ∧ s'.pc.tmpPara = s3.pc.tmpPara := by
  obtain ⟨_, s4, h4, k4⟩ := obind_ok e
  have hlk := appendChild_lk h4
  obtain ⟨_, s5, h5, k5⟩ := obind_ok k4
  have e5 := omodPc_ok h5
  subst s5
  obtain ⟨hk4, hlt4⟩ := nk_kg hlk.kg hk hlt
  have hx : x = (if hc = true then TryOutcomeT.retry node else TryOutcomeT.done, OpenResult.newBlocksOpened, lb') ∧
      s' = { s4 with pc := { s4.pc with opened := s4.pc.opened ++ [{ node := node, bp := bp }] } } := by
    split at k5
    · next h => obtain ⟨a, b⟩ := opure_ok k5; rw [if_pos h]; exact ⟨a, b⟩
    · next h => obtain ⟨a, b⟩ := opure_ok k5; rw [if_neg h]; exact ⟨a, b⟩
  obtain ⟨hx1, hx2⟩ := hx
  subst s'
  exact ⟨fun B hB hF => (hB.lk hlk).push node bp hk4 hlt4 (by rw [hlk.pc]; exact hgt) (by rw [hlk.pc]; exact hnt) hF
      (fun hb t ht => hpo hb t (by rw [← (hlk.same node).1]; exact ht)),
    hlk.r, hx1, by simp only; rw [hlk.pc], by simp only; rw [hlk.pc]⟩

/-- **the `continuable:` exit** (parser.go:1016-1023) from a clean state -/
theorem toContinuableG_ord (L : Int) (cont : Bool) (result : OpenResult) (lbo : Option Block) (s : St) (c : RCur)
    (r' : OpenResult) (s' : St) (hc : CleanG src L s c)
    (hres : result = .noBlocksOpened → cont = true → lbo = s.pc.opened.getLast? ∧ ContOK cont s)
    (h : toContinuable cont result lbo s = .ok (r', s')) : DirtyG src s' := by
  unfold toContinuable at h
  split at h
  · next hcond =>
    simp only [Bool.and_eq_true, beq_iff_eq] at hcond
    obtain ⟨hlbo, hck⟩ := hres hcond.1 hcond.2
    obtain ⟨lb, hlast, hkind⟩ := hck hcond.2
    rw [hlbo, hlast] at h
    dsimp only at h
    obtain ⟨st, s1, h1, k1⟩ := obind_ok h
    have hs' : s' = s1 := by
      split at k1
      · obtain ⟨_, hs⟩ := opure_ok k1; exact hs
      · obtain ⟨_, hs⟩ := opure_ok k1; exact hs
    subst s'
    have hmem := List.mem_of_getLast? hlast
    obtain ⟨hkb, hltb⟩ := hc.inv.kinds lb hmem
    have hbp : lb.bp = .paragraph := kind_paragraph (by rw [← hkb]; exact hkind)
    rw [hbp] at h1
    have h1' : paragraphContinue lb.node s = .ok (st, s1) := h1
    obtain ⟨r1, c1, hr1, hri1, hle1, hpc1, hcase⟩ := (paragraphContinue_line hc.ri lb.node).of_ok h1'
    have hstop : Stop src (lineEnd src c.p : Int) s1 := by
      have := (paragraphContinue_pres (stop_prims src (lineEnd src c.p : Int)) lb.node).h s hc.ri.stop
      rw [h1'] at this; exact this
    refine ⟨(lineEnd src c.p : Int), ?_, hstop⟩
    rcases hcase with ⟨_, hn, _⟩ | ⟨_, hp, hok, hnbs, hlt', hn⟩
    · exact ⟨fun i => by simp only [nd, hn]; exact hc.invE.nrb i, by rw [hpc1]; exact hc.invE.ord,
        fun i => by simp only [nd, hn]; exact hc.invE.pnb i,
        fun t ht => by rw [hpc1] at ht; simp only [nd, hn]; exact hc.invE.tmpk t ht, fun b hb => by
          rw [hpc1] at hb; simp only [nd, hn]; exact hc.invE.kinds b hb, fun m hm => hc.invE.nodes m (by rw [← hn]; exact hm),
        fun t ht hm => by rw [hpc1] at ht hm ⊢; simp only [nd, hn]; exact hc.invE.tl t ht hm,
        fun i => by simp only [nd, hn]; exact hc.invE.raw i,
        fun i => by simp only [nd, hn]; exact hc.invE.pnl i,
        fun b hb hd hbp => by rw [hpc1] at hb; simp only [nd, hn]; exact hc.invE.pol b hb hd hbp⟩
    · -- the continuation line goes to a block whose lines all end at or before the line start
      have hge := lineEnd_ge src hc.ri.inRange
      have hfresh := hc.inv.nrb lb.node (by rw [hkind]; rfl) (by rw [hkind]; decide)
      have hfb : Below L (nd s lb.node).lines := hfresh.2.1 (by rw [hkind]; decide)
      have hs1 : s1 = ⟨r1, s.nodes.set lb.node
          { (nd s lb.node) with lines := (nd s lb.node).lines ++ [RCur.seg src c], linesNil := false }, s.pc⟩ := by
        cases s1; simp only at hr1 hpc1 hn; subst hr1 hpc1 hn; rfl
      have hnd : ∀ i, nd s1 i = if i = lb.node then
          { (nd s lb.node) with lines := (nd s lb.node).lines ++ [RCur.seg src c], linesNil := false } else nd s i := by
        intro i
        have : nd s1 i = nd (upd s lb.node fun n => { n with lines := n.lines ++ [RCur.seg src c], linesNil := false }) i := by
          rw [hs1]; rfl
        rw [this, nd_upd]
        by_cases hi : i = lb.node
        · subst hi; simp [hltb]
        · have : ¬ (lb.node = i ∧ lb.node < s.nodes.length) := fun hh => hi hh.1.symm
          rw [if_neg this, if_neg hi]
      have hord : OrdFrom 0 ((nd s lb.node).lines ++ [RCur.seg src c]) ∧
          Below (lineEnd src c.p : Int) ((nd s lb.node).lines ++ [RCur.seg src c]) ∧
          ∀ t ∈ (nd s lb.node).lines ++ [RCur.seg src c], t.start < t.stop ∧ t.forceNewline = false :=
        ⟨OrdFrom.append_fresh (L := L) (by show L ≤ (c.p : Int); exact hc.le) hfresh.1 hfb
            (by show (0 : Int) ≤ (c.p : Int); omega),
          hfb.append (by have := hc.le; omega) (Int.le_refl _),
          fun t ht => by
            rcases List.mem_append.1 ht with h' | h'
            · exact hfresh.2.2 t h'
            · simp only [List.mem_singleton] at h'; rw [h']; exact ⟨hlt', rfl⟩⟩
      refine ⟨fun i hr => ?_, by rw [hpc1]; exact hc.invE.ord, fun i hk => ?_, fun t ht => ?_, fun b hb => ?_, fun m hm => ?_, fun t ht hm => ?_, fun i hr => ?_,
        fun i hk => ?_, fun b hb hd hbp' => ?_⟩
      · rw [hnd] at hr ⊢
        split
        · exact fun _ => ⟨hord.1, fun _ => hord.2.1, hord.2.2⟩
        · next hne => rw [if_neg hne] at hr; exact hc.invE.nrb i hr
      · rw [hnd] at hk ⊢
        split
        · intro t ht
          rcases List.mem_append.1 ht with h' | h'
          · exact hc.inv.pnb lb.node hkind t h'
          · simp only [List.mem_singleton] at h'; rw [h']; exact hnbs
        · next hne => rw [if_neg hne] at hk; exact hc.invE.pnb i hk
      · rw [hpc1] at ht
        rw [hnd]; split
        · exact hkind
        · exact hc.inv.tmpk t ht
      · rw [hpc1] at hb
        obtain ⟨k1', k2'⟩ := hc.inv.kinds b hb
        refine ⟨?_, by rw [hs1]; simpa using k2'⟩
        rw [hnd]; split
        · next he => simp only; rw [← he]; exact k1'
        · exact k1'
      · obtain ⟨i, hil, rfl⟩ := mem_nodes_nd hm
        rw [hnd]
        split
        · refine ⟨fun u hu => ?_, fun hn0 => by cases hn0⟩
          rcases List.mem_append.1 hu with h' | h'
          · exact (nodeOK_nd hc.inv.nodes lb.node).lines u h'
          · simp only [List.mem_singleton] at h'; rw [h']; exact hok
        · exact nodeOK_nd hc.inv.nodes i
      · rw [hpc1] at ht hm ⊢
        obtain ⟨a1, a2⟩ := hc.invE.tl t ht hm
        refine ⟨?_, a2⟩
        rw [hnd]; split
        · simp
        · exact a1
      · by_cases he : i = lb.node
        · rw [hnd, if_pos he] at hr
          simp only at hr
          rw [hkind] at hr; cases hr
        · rw [hnd, if_neg he] at hr ⊢; exact hc.invE.raw i hr
      · rw [hnd] at hk ⊢
        split
        · simp only [List.dropLast_concat]
          intro t ht
          -- an old line: inner (pnl), or the old last line, which ends at a line end before the current line
          rcases List.eq_nil_or_concat (nd s lb.node).lines with h0 | ⟨init, last, h0⟩
          · rw [h0] at ht; cases ht
          · rw [h0, List.concat_eq_append] at ht
            rcases List.mem_append.1 ht with h' | h'
            · exact hc.inv.pnl lb.node hkind t (by rw [h0, List.concat_eq_append, List.dropLast_concat]; exact h')
            · simp only [List.mem_singleton] at h'
              subst h'
              have hl : (nd s lb.node).lines.getLast? = some t := by rw [h0, List.concat_eq_append]; simp
              rcases hc.inv.pol lb hmem (by simp) hbp t hl with h1 | h1
              · exfalso
                have := hfb t (by rw [h0, List.concat_eq_append]; simp)
                have := hc.le
                omega
              · exact h1
        · next hne => rw [if_neg hne] at hk; exact hc.invE.pnl i hk
      · rw [hpc1] at hb
        rw [hnd]
        split
        · simp only [List.getLast?_append, List.getLast?_singleton, Option.some_or]
          intro t ht
          cases ht
          exact lend_of_lineEnd hc.ri.inRange rfl
        · exact hc.invE.pol b hb hd hbp'
  · have h' : (pure result : M OpenResult) s = .ok (r', s') := h
    obtain ⟨_, hs⟩ := opure_ok h'
    subst s'
    exact hc.dirty


end inv

/-- a transformer call that left the paragraph its parent left it a line -/
theorem ptpost_keep {src : Bytes} {node : Nat} {s s' : St} (hn : NodesOK src s) (hlt : node < s.nodes.length)
    (h : PTPost node s s') (hp : (nd s' node).parent.isSome = true) : (nd s' node).lines ≠ [] := by
  obtain ⟨g, ht⟩ := T.tstep_of_post hn hlt h
  cases g with
  | false => exact (ht.keep rfl).1
  | true => rw [ht.goneP rfl] at hp; cases hp

theorem ptpostX_keep {src : Bytes} {node : Nat} {s s' : St} (hn : NodesOK src s) (hlt : node < s.nodes.length)
    (h : PTPostX src node s s') (hp : (nd s' node).parent.isSome = true) : (nd s' node).lines ≠ [] := by
  rcases h with h | ⟨s1, t, h1, htb, hT⟩
  · exact ptpost_keep hn hlt h hp
  · intro h0
    have hl := data_lines hT.self
    rw [hl] at h0
    have h1' := hT.selfpar
    have h0' : (List.map ofSeg (GM.Table.transform src (List.map toSeg (nd s1 node).lines)).para) = [] := h0
    rw [h0'] at h1'
    have := h1'
    simp only [List.isEmpty_nil, if_true] at this
    rw [this] at hp; cases hp

theorem container_kind_ne_paragraph {bp : BP} (h : bp.isContainer = true) : bp.kind ≠ .paragraph := by
  cases bp <;> simp [BP.isContainer, BP.kind] at h ⊢

/-- what `openBlocksT` knows of its entry state `s0` (`old` = its stack): all blocks but the last are containers, and a
    last block that is a Paragraph is the last child of its parent -/
structure Ent (old : List Block) (s0 : St) : Prop where
  leafy : Leafy old
  ll : ∀ lb, old.getLast? = some lb → (nd s0 lb.node).kind = .paragraph → ∀ p, (nd s0 lb.node).parent = some p →
    (nd s0 p).children.getLast? = some lb.node ∧ p < s0.nodes.length

/-- nothing has happened since the entry of `openBlocksT`, or the last opened block is not a Paragraph -/
def NP (old : List Block) (s0 s : St) : Prop :=
  (s.nodes = s0.nodes ∧ s.pc.opened = old) ∨ ∀ lb, s.pc.opened.getLast? = some lb → (nd s lb.node).kind ≠ .paragraph

theorem NP.congr {old : List Block} {s0 s s' : St} (h : NP old s0 s) (hn : s'.nodes = s.nodes)
    (ho : s'.pc.opened = s.pc.opened) : NP old s0 s' := by
  rcases h with ⟨a, b⟩ | h
  · exact .inl ⟨hn.trans a, ho.trans b⟩
  · exact .inr (fun lb hl => by rw [ho] at hl; simp only [nd, hn]; exact h lb hl)

/-- when the last opened block is a Paragraph node, the stack is the entry stack, and no setext block is open -/
theorem NP.sf {old : List Block} {s0 s : St} (h : NP old s0 s) (hl : Leafy old)
    (hk : ∀ b ∈ s.pc.opened, (nd s b.node).kind = b.bp.kind) {lb : Block}
    (hlast : s.pc.opened.getLast? = some lb) (hp : (nd s lb.node).kind = .paragraph) :
    (s.nodes = s0.nodes ∧ s.pc.opened = old) ∧ ∀ b ∈ s.pc.opened, b.bp ≠ .setext := by
  rcases h with ⟨a, b⟩ | h
  · refine ⟨⟨a, b⟩, fun x hx => ?_⟩
    have hlbp : lb.bp = .paragraph := kind_paragraph (by rw [← hk lb (List.mem_of_getLast? hlast)]; exact hp)
    obtain ⟨ys, hys⟩ := List.getLast?_eq_some_iff.1 hlast
    rw [hys] at hx
    rcases List.mem_append.1 hx with h1 | h1
    · have : x ∈ old.dropLast := by rw [← b, hys, List.dropLast_concat]; exact h1
      have := hl x this
      intro e0; rw [e0] at this; cases this
    · simp only [List.mem_singleton] at h1; rw [h1, hlbp]; decide
  · exact absurd hp (h lb hlast)

section tp
variable {src : Bytes} {pts1 pts2 : List PT} (hag : AgreeP src pts1 pts2)
include hag

/-- behind the RequireParagraph part of one successful attempt (parser.go:998-1013): `SetBlankPreviousLines`, the
    `last.Parent() == nil` pop, `AppendChild`, push, answer -/
theorem tailG {F : Prop} (parent node : Nat) (bp : BP) (blank hch : Bool) (lb' : Option Block) (s3 : St)
    (hsrc : s3.r.source = src) (hk : (nd s3 node).kind = bp.kind) (hlt : node < s3.nodes.length)
    (hgt : ∀ b ∈ s3.pc.opened, b.node < node) (hnt : ∀ t, s3.pc.tmpPara = some t → t ≠ node)
    (hpo : bp = .paragraph → ∀ t, (nd s3 node).lines.getLast? = some t → LEnd src t)
    (hex : ∃ B, InvGF F src B s3) :
    EQV (fun x s' => (∀ B, InvGF F src B s3 → (bp = .setext → F) → InvG src B s') ∧ s'.r = s3.r ∧
        x = (if hch = true then TryOutcomeT.retry node else TryOutcomeT.done, OpenResult.newBlocksOpened, lb') ∧
        (∃ sub : List Block, sub.Sublist s3.pc.opened ∧ s'.pc.opened = sub ++ [{ node := node, bp := bp }]) ∧
        (∀ t, s'.pc.tmpPara = some t → s3.pc.tmpPara = some t))
      (do
        modNode node fun n => { n with blankPrev := blank }
        match Option.map (fun x => x.node) lb' with
          | some l => do
            let __do_lift ← getNode l
            if __do_lift.parent.isNone = true then do
                let __do_lift ← getPc
                closeBlocksT pts1 ((__do_lift.opened.length : Int) - 1) ((__do_lift.opened.length : Int) - 1)
                appendChild parent node
                modPc fun pc => { pc with opened := pc.opened ++ [{ node := node, bp := bp }] }
                if hch = true then pure (TryOutcomeT.retry node, OpenResult.newBlocksOpened, lb')
                  else pure (TryOutcomeT.done, OpenResult.newBlocksOpened, lb')
              else do
                appendChild parent node
                modPc fun pc => { pc with opened := pc.opened ++ [{ node := node, bp := bp }] }
                if hch = true then pure (TryOutcomeT.retry node, OpenResult.newBlocksOpened, lb')
                  else pure (TryOutcomeT.done, OpenResult.newBlocksOpened, lb')
          | none => do
            appendChild parent node
            modPc fun pc => { pc with opened := pc.opened ++ [{ node := node, bp := bp }] }
            if hch = true then pure (TryOutcomeT.retry node, OpenResult.newBlocksOpened, lb')
              else pure (TryOutcomeT.done, OpenResult.newBlocksOpened, lb') : M _)
      (do
        modNode node fun n => { n with blankPrev := blank }
        match Option.map (fun x => x.node) lb' with
          | some l => do
            let __do_lift ← getNode l
            if __do_lift.parent.isNone = true then do
                let __do_lift ← getPc
                closeBlocksT pts2 ((__do_lift.opened.length : Int) - 1) ((__do_lift.opened.length : Int) - 1)
                appendChild parent node
                modPc fun pc => { pc with opened := pc.opened ++ [{ node := node, bp := bp }] }
                if hch = true then pure (TryOutcomeT.retry node, OpenResult.newBlocksOpened, lb')
                  else pure (TryOutcomeT.done, OpenResult.newBlocksOpened, lb')
              else do
                appendChild parent node
                modPc fun pc => { pc with opened := pc.opened ++ [{ node := node, bp := bp }] }
                if hch = true then pure (TryOutcomeT.retry node, OpenResult.newBlocksOpened, lb')
                  else pure (TryOutcomeT.done, OpenResult.newBlocksOpened, lb')
          | none => do
            appendChild parent node
            modPc fun pc => { pc with opened := pc.opened ++ [{ node := node, bp := bp }] }
            if hch = true then pure (TryOutcomeT.retry node, OpenResult.newBlocksOpened, lb')
              else pure (TryOutcomeT.done, OpenResult.newBlocksOpened, lb') : M _) s3 := by
  refine EQV.bind_same (fun _ s4 h4 => ?_)
  have hlk := modNode_lk h4 (fun _ => ⟨rfl, rfl, rfl⟩)
  obtain ⟨hk4, hlt4⟩ := nk_kg hlk.kg hk hlt
  have hsrc4 : s4.r.source = src := by rw [hlk.r]; exact hsrc
  have tail : ∀ s5 : St, (nd s5 node).kind = bp.kind → node < s5.nodes.length →
      (∀ b ∈ s5.pc.opened, b.node < node) → (∀ t, s5.pc.tmpPara = some t → t ≠ node) →
      (bp = .paragraph → ∀ t, (nd s5 node).lines.getLast? = some t → LEnd src t) →
      EQV (fun x s' => (∀ B, InvGF F src B s5 → (bp = .setext → F) → InvG src B s') ∧ s'.r = s5.r ∧
          x = (if hch = true then TryOutcomeT.retry node else TryOutcomeT.done, OpenResult.newBlocksOpened, lb') ∧
          s'.pc.opened = s5.pc.opened ++ [{ node := node, bp := bp }] ∧ s'.pc.tmpPara = s5.pc.tmpPara)
        (do
          appendChild parent node
          modPc fun pc => { pc with opened := pc.opened ++ [{ node := node, bp := bp }] }
          if hch = true then pure (TryOutcomeT.retry node, OpenResult.newBlocksOpened, lb')
            else pure (TryOutcomeT.done, OpenResult.newBlocksOpened, lb') : M _)
        (do
          appendChild parent node
          modPc fun pc => { pc with opened := pc.opened ++ [{ node := node, bp := bp }] }
          if hch = true then pure (TryOutcomeT.retry node, OpenResult.newBlocksOpened, lb')
            else pure (TryOutcomeT.done, OpenResult.newBlocksOpened, lb') : M _) s5 :=
    fun s5 hk5 hlt5 hgt5 hnt5 hpo5 => EQV.refl (fun x s' e =>
      tryTailBG_ord (src := src) (F := F) parent node bp hch lb' s5 s' x hk5 hlt5 hgt5 hnt5 hpo5 e)
  have direct : EQV (fun x s' => (∀ B, InvGF F src B s3 → (bp = .setext → F) → InvG src B s') ∧ s'.r = s3.r ∧
        x = (if hch = true then TryOutcomeT.retry node else TryOutcomeT.done, OpenResult.newBlocksOpened, lb') ∧
        (∃ sub : List Block, sub.Sublist s3.pc.opened ∧ s'.pc.opened = sub ++ [{ node := node, bp := bp }]) ∧
        (∀ t, s'.pc.tmpPara = some t → s3.pc.tmpPara = some t)) _ _ s4 :=
    (tail s4 hk4 hlt4 (by rw [hlk.pc]; exact hgt) (by rw [hlk.pc]; exact hnt)
      (fun hb t ht => hpo hb t (by rw [← (hlk.same node).1]; exact ht))).mono (fun x s' ⟨r1, r2, r3, r4, r5⟩ =>
      ⟨fun B hB hF => r1 B (hB.lk hlk) hF, by rw [r2, hlk.r], r3, ⟨s3.pc.opened, List.Sublist.refl _, by rw [r4, hlk.pc]⟩,
        fun t ht => by rw [r5, hlk.pc] at ht; exact ht⟩)
  cases lb' with
  | none =>
    dsimp only [Option.map]
    exact direct
  | some lb0 =>
    dsimp only [Option.map]
    refine EQV.bind_same (fun ln s6 h6 => ?_)
    obtain ⟨_, hs6⟩ := ogetNode_ok h6
    subst s6
    refine EQV.ite (fun _ => ?_) (fun _ => direct)
    refine EQV.bind_same (fun pc s7 h7 => ?_)
    obtain ⟨_, hs7⟩ := ogetPc_ok h7
    subst s7
    obtain ⟨B0, hB0⟩ := hex
    refine EQV.bind (closeBlocksT_eqg_all hag.agree _ _ (by omega) ⟨B0, hB0.lk hlk⟩ hsrc4)
      (fun rr s8 _ ⟨b1, b2, b3, b4, b5, b6⟩ => ?_)
    obtain ⟨hk8, hlt8⟩ := nk_kg b4 hk4 hlt4
    refine (tail s8 hk8 hlt8 (fun b hb => hgt b (by rw [← hlk.pc]; exact b3.subset hb))
      (fun t ht => hnt t (by rw [← hlk.pc]; exact b5 t ht))
      (fun hb t ht => hpo hb t (by
        rw [← (hlk.same node).1, ← b6 node hlt4 (fun b hb' => Nat.ne_of_lt (hgt b (by rw [← hlk.pc]; exact hb')))]
        exact ht))).mono (fun x s' ⟨r1, r2, r3, r4, r5⟩ => ?_)
    exact ⟨fun B hB hF => r1 B (b1 B (hB.lk hlk)) hF, by rw [r2, b2, hlk.r], r3,
      ⟨s8.pc.opened, by rw [← hlk.pc]; exact b3, r4⟩, fun t ht => by rw [r5] at ht; rw [← hlk.pc]; exact b5 t ht⟩

/-- **the candidate loop** (parser.go:960-1014) from a clean state, both transformer lists, RequireParagraph included -/
theorem tryParsersT_eqg (L : Int) (parent : Nat) (blank cont : Bool) (w : Int) (old : List Block) (s0 : St)
    (hent : Ent old s0) :
    ∀ (bps : List BP) (result : OpenResult) (lb : Option Block) (s : St) (c : RCur),
      CleanG src L s c → c.p < src.length → BoffOK src s c → NP old s0 s →
      EQV (fun x s' => DirtyG src s' ∧
        ((x.1 = .done ∧ x.2.1 = result ∧ CleanG src L s' c ∧ s'.nodes = s.nodes ∧ s'.pc.opened = s.pc.opened ∧
            s'.pc.blockOffset = s.pc.blockOffset ∧ (x.2.2 = lb ∨ x.2.2 = s.pc.opened.getLast?)) ∨
         (x.1 = .done ∧ x.2.1 = .newBlocksOpened) ∨
         (∃ p' c', x.1 = .retry p' ∧ x.2.1 = .newBlocksOpened ∧ CleanG src L s' c' ∧ c.p ≤ c'.p ∧ NP old s0 s') ∨
         (∃ c', x.1 = .retryTransformed ∧ CleanG src L s' c' ∧ c.p ≤ c'.p ∧ NP old s0 s')))
        (tryParsersT pts1 parent blank cont w bps result lb) (tryParsersT pts2 parent blank cont w bps result lb) s := by
  intro bps
  induction bps with
  | nil =>
    intro result lb s c hc _ _ _
    unfold tryParsersT
    exact EQV.pure ⟨hc.dirty, .inl ⟨rfl, rfl, hc, rfl, rfl, rfl, .inl rfl⟩⟩
  | cons bp bps ih =>
    intro result lb s c hc hlt hoff hnp
    unfold tryParsersT
    refine EQV.ite (fun _ => ih _ _ _ _ hc hlt hoff hnp) (fun _ => ?_)
    refine EQV.ite (fun _ => ih _ _ _ _ hc hlt hoff hnp) (fun _ => ?_)
    refine EQV.bind_same (fun lb' s1 h1 => ?_)
    obtain ⟨hlb', hs1⟩ := olastOpenedBlock_ok h1
    subst s1
    subst lb'
    dsimp only
    refine EQV.bind_same (fun y s2 h2 => ?_)
    have hkindsS : ∀ b ∈ s.pc.opened, (nd s b.node).kind = b.bp.kind := fun b hb => (hc.inv.kinds b hb).1
    have eff := open_effG bp parent hc hlt hoff
      (fun _ lb0 hl0 hp0 => (hnp.sf hent.leafy hkindsS hl0 hp0).2) h2
    obtain ⟨node, state⟩ := y
    cases node with
    | none =>
      dsimp only
      obtain ⟨hc2, hn2, _⟩ := eff.declined rfl
      have hoff2 : BoffOK src s2 c := by unfold BoffOK; rw [eff.boff]; exact hoff
      refine (ih _ _ s2 c hc2 hlt hoff2 (hnp.congr hn2 eff.opened)).mono (fun x s' ⟨d, hcases⟩ => ⟨d, ?_⟩)
      rcases hcases with ⟨a1, a2, a3, a4, a5, a6, a7⟩ | hb | hcc | hdd
      · refine .inl ⟨a1, a2, a3, a4.trans hn2, a5.trans eff.opened, a6.trans eff.boff, .inr ?_⟩
        rcases a7 with a7 | a7
        · exact a7
        · rw [a7, eff.opened]
      · exact .inr (.inl hb)
      · exact .inr (.inr (.inl hcc))
      · exact .inr (.inr (.inr hdd))
    | some node =>
      dsimp only
      obtain ⟨hid, hltn, hkn⟩ := eff.node node rfl
      have hgt2 : ∀ b ∈ s2.pc.opened, b.node < node := fun b hb => by
        rw [eff.opened] at hb; rw [hid]; exact (hc.inv.kinds b hb).2
      have hnt2 : ∀ t, s2.pc.tmpPara = some t → t ≠ node := fun t ht => by
        have := eff.tmplt t ht; omega
      have h2' : bp = .setext → setextOpen parent s = .ok ((some node, state), s2) := fun hb => by subst hb; exact h2
      by_cases hrq : state.requirePara = true
      · have hbs := eff.noreq hrq
        subst hbs
        obtain ⟨r', hri', hcase⟩ := setextOpen_line hc.ri (h2' rfl)
        rcases hcase with ⟨hnone, _⟩ | ⟨lb, lvl, hlast, hkp, hpar, ha, hs2⟩
        · cases hnone
        obtain ⟨⟨c', hcl', hle'⟩, _⟩ := eff.sxL rfl rfl
        obtain ⟨⟨hn0, hop0⟩, hsf⟩ := hnp.sf hent.leafy hkindsS hlast hkp
        have hnd0 : ∀ i, nd s0 i = nd s i := fun i => by simp only [nd, hn0]
        obtain ⟨hll, hplt⟩ := hent.ll lb (by rw [← hop0]; exact hlast) (by rw [hnd0]; exact hkp) parent
          (by rw [hnd0]; exact hpar)
        have hplt' : parent < s.nodes.length := by rw [hn0]; exact hplt
        have hlbm : lb ∈ s.pc.opened := List.mem_of_getLast? hlast
        have hlbp : lb.bp = .paragraph := kind_paragraph (by rw [← hkindsS lb hlbm]; exact hkp)
        obtain ⟨ys, hys⟩ := List.getLast?_eq_some_iff.1 hlast
        have hdl : s.pc.opened.dropLast = ys := by rw [hys, List.dropLast_concat]
        have hysn : ∀ a ∈ ys, a.node < lb.node := fun a ha' => by
          have := hc.inv.ord
          rw [hys] at this
          exact (List.pairwise_append.1 this).2.2 a ha' lb (by simp)
        have hstf : state.hasChildren = false := by
          have : state = { requirePara := true } := (Prod.mk.inj ha).2
          rw [this]
        have htmp2 : s2.pc.tmpPara = some lb.node := by rw [hs2]
        have hsrc2 : s2.r.source = src := eff.stop.source
        have hlbm2 : lb ∈ s2.pc.opened := by rw [eff.opened]; exact hlbm
        obtain ⟨hkb, hltb⟩ := hcl'.inv.kinds lb hlbm2
        rw [if_pos hrq, if_pos hrq]
        unfold requireParaT
        rw [hlast]
        refine EQV.bind (P := fun tr s8 => s8.r = s2.r ∧ (∀ B, InvG src B s2 → InvG src B s8) ∧
          s8.pc.opened = s.pc.opened.dropLast ∧ (∀ t, s8.pc.tmpPara = some t → t = lb.node) ∧ KG s2 s8 ∧
          (tr = false → (nd s8 lb.node).lines ≠ [])) ?_ (fun tr s8 _ ⟨m1, m2, m3, m4, m5, m6⟩ => ?_)
        · refine EQV.bind_same (fun pn s3 h3 => ?_)
          obtain ⟨hpn, hs3⟩ := ogetNode_ok h3
          subst s3
          refine EQV.ite (fun _ => ?_) (fun hne => ?_)
          · dsimp only
            refine EQV.bind_same (fun _ s5 h5 => ?_)
            have hclose := fun B (hB : InvG src B s2) =>
              bpClose_invG lb.bp lb.node (hB.dmono (D' := [lb]) (fun _ h => by cases h)) hsrc2 hkb hltb
                (fun hs => by rw [hlbp] at hs; cases hs)
                (fun _ b hb hx => by rw [hB.node_inj hlbm2 hb hx]; exact List.mem_cons_self ..) h5
            obtain ⟨_, c2, c3, c4, c5, _⟩ := hclose L hcl'.inv
            have hys5 : ∀ b ∈ s5.pc.opened.dropLast, b.node < lb.node := fun b hb => by
              rw [c3, eff.opened, hdl] at hb; exact hysn b hb
            refine EQV.bind_same (fun pc6 s6 h6 => ?_)
            obtain ⟨hpc6, hs6⟩ := ogetPc_ok h6
            subst s6
            subst pc6
            refine EQV.ite (fun _ => EQV.bind (P := fun _ _ => False) EQV.throw (fun _ _ _ h => h.elim)) (fun _ => ?_)
            refine EQV.bind_same (fun _ s7 h7 => ?_)
            have e7 := omodPc_ok h7
            subst s7
            refine EQV.bind_same (fun n8 s8 h8 => ?_)
            obtain ⟨_, hs8⟩ := ogetNode_ok h8
            subst s8
            refine EQV.ite (fun _ => EQV.bind (P := fun _ _ => False) EQV.throw (fun _ _ _ h => h.elim)) (fun _ => ?_)
            have hi7 : ∀ B, InvG src B s2 → InvG src B ({ s5 with pc := { s5.pc with opened := s5.pc.opened.dropLast } } : St) :=
              fun B hB => (hclose B hB).1.congr_pcD _ rfl (List.dropLast_sublist _) (fun b hb hd => by
                simp only [List.mem_singleton] at hd
                have := hys5 b hb
                rw [hd] at this; exact Nat.lt_irrefl _ this)
            obtain ⟨hk5, hlt5⟩ := nk_kg c4 (show (nd s2 lb.node).kind = .paragraph by rw [hkb, hlbp]; rfl) hltb
            have hnt7 : ∀ t, ({ s5 with pc := { s5.pc with opened := s5.pc.opened.dropLast } } : St).pc.tmpPara = some t →
                (False ∨ ∃ b ∈ ({ s5 with pc := { s5.pc with opened := s5.pc.opened.dropLast } } : St).pc.opened, b.bp = .setext) →
                t ≠ lb.node := by
              intro t _ hm
              obtain ⟨b, hb, hs⟩ := hm.resolve_left id
              have hb' : b ∈ s.pc.opened := by
                have : b ∈ s5.pc.opened := List.dropLast_subset _ hb
                rw [c3, eff.opened] at this; exact this
              exact absurd hs (hsf b hb')
            refine (hag lb.node ({ s5 with pc := { s5.pc with opened := s5.pc.opened.dropLast } } : St)
              (by show s5.r.source = src; rw [c2]; exact hsrc2) hlt5 hk5 (hi7 L hcl'.inv).nodes
              ((hi7 L hcl'.inv).linesOKB hk5)).mono (fun tr s9 ⟨hp, hpar9⟩ => ?_)
            have hD7 : ∀ b ∈ ({ s5 with pc := { s5.pc with opened := s5.pc.opened.dropLast } } : St).pc.opened,
                b.node = lb.node → b ∈ ([] : List Block) := fun b hb hx => by
              have := hys5 b hb
              rw [hx] at this; exact absurd this (Nat.lt_irrefl _)
            obtain ⟨_, p2, p3, p4, p5, _⟩ := (hi7 L hcl'.inv).ptpostX hlt5 hnt7 hk5 hD7 hp
            refine ⟨by rw [p2]; exact c2, fun B hB => ((hi7 B hB).ptpostX hlt5 hnt7 hk5 hD7 hp).1, ?_, fun t ht => ?_,
              c4.trans p4, fun htr => ptpostX_keep (hi7 L hcl'.inv).nodes hlt5 hp (hpar9 htr)⟩
            · rw [p3]; show s5.pc.opened.dropLast = _; rw [c3, eff.opened]
            · rw [p5] at ht
              have := c5 t ht
              rw [htmp2] at this
              cases this; rfl
          · exfalso
            apply hne
            have : (s2.nodes.getD parent default) = nd s0 parent := by
              rw [hnd0]
              have : s2.nodes = s.nodes ++ [{ kind := .heading, level := lvl, lines := [RCur.seg src c], linesNil := false }] := by
                rw [hs2]
              exact GM.Blocks.L.nd_append_lt this hplt'
            rw [hpn, this, hll]
            simp
        · cases tr with
          | true =>
            simp only [if_true]
            have hcl8 : CleanG src L s8 c' := ⟨m2 L hcl'.inv, by rw [m1]; exact hcl'.ri, hcl'.pad, hcl'.le, hcl'.padl⟩
            refine EQV.pure ⟨hcl8.dirty, .inr (.inr (.inr ⟨c', rfl, hcl8, hle', .inr (fun lb1 hl1 => ?_)⟩))⟩
            have hm1 : lb1 ∈ s8.pc.opened := List.mem_of_getLast? hl1
            have hm1' : lb1 ∈ old.dropLast := by rw [← hop0, ← m3]; exact hm1
            rw [(hcl8.inv.kinds lb1 hm1).1]
            exact container_kind_ne_paragraph (hent.leafy lb1 hm1')
          | false =>
            simp only [Bool.false_eq_true, if_false]
            have hstrong : ∀ t, s8.pc.tmpPara = some t → (nd s8 t).lines ≠ [] ∧ ∀ b' ∈ s8.pc.opened, b'.node ≠ t := by
              intro t ht
              have := m4 t ht
              subst this
              refine ⟨m6 rfl, fun b' hb' => ?_⟩
              rw [m3, hdl] at hb'
              exact Nat.ne_of_lt (hysn b' hb')
            obtain ⟨hk8, hlt8⟩ := nk_kg m5 hkn hltn
            have hsub8 : ∀ b ∈ s8.pc.opened, b ∈ s.pc.opened := fun b hb => by
              rw [m3] at hb; exact List.dropLast_subset _ hb
            refine (tailG hag (F := True) parent node .setext blank state.hasChildren (some lb) s8
              (by rw [m1]; exact hsrc2) hk8 hlt8
              (fun b hb => by rw [hid]; exact (hc.inv.kinds b (hsub8 b hb)).2)
              (fun t ht => by
                have := m4 t ht
                rw [this, hid]; exact Nat.ne_of_lt (hc.inv.kinds lb hlbm).2)
              (fun hb => by cases hb)
              ⟨L, (m2 L hcl'.inv).strengthen hstrong⟩).mono (fun x s' ⟨t1, t2, t3, _, _⟩ => ?_)
            have hd : DirtyG src s' :=
              ⟨_, t1 _ ((m2 _ eff.invE).strengthen hstrong) (fun _ => trivial), eff.stop.congr (t2.trans m1)⟩
            rw [hstf] at t3
            simp only [Bool.false_eq_true, if_false] at t3
            exact ⟨hd, .inr (.inl ⟨by rw [t3], by rw [t3]⟩)⟩
      · have hbs : bp ≠ .setext := by
          intro hb
          obtain ⟨r', _, hcase⟩ := setextOpen_line hc.ri (h2' hb)
          rcases hcase with ⟨hnone, _⟩ | ⟨lb, lvl, _, _, _, ha, _⟩
          · cases hnone
          · have : state = { requirePara := true } := (Prod.mk.inj ha).2
            rw [this] at hrq
            exact hrq rfl
        rw [if_neg hrq, if_neg hrq]
        simp only [pure_bind, Bool.false_eq_true, if_false]
        refine (tailG hag (F := False) parent node bp blank state.hasChildren _ s2 eff.stop.source hkn hltn hgt2 hnt2
          (fun hb t ht => by
            obtain ⟨seg, hl, hle⟩ := eff.pnew node rfl hb
            rw [hl] at ht
            simp only [List.getLast?_singleton, Option.some.injEq] at ht
            rw [← ht]; exact hle)
          ⟨_, eff.invE⟩).mono (fun x s' ⟨t1, t2, t3, ⟨sub, hsub, hop'⟩, _⟩ => ?_)
        have hd : DirtyG src s' := ⟨_, t1 _ eff.invE (fun h => absurd h hbs), eff.stop.congr t2⟩
        refine ⟨hd, ?_⟩
        by_cases hch : state.hasChildren = true
        · obtain ⟨c', hc', hle⟩ := eff.container hch
          rw [if_pos hch] at t3
          have hi' := t1 L hc'.inv (fun h => absurd h hbs)
          refine .inr (.inr (.inl ⟨node, c', by rw [t3], by rw [t3], hc'.congr hi' t2, hle, .inr (fun lb1 hl1 => ?_)⟩))
          rw [hop', List.getLast?_concat] at hl1
          cases hl1
          rw [(hi'.kinds ⟨node, bp⟩ (by rw [hop']; simp)).1]
          exact container_kind_ne_paragraph (eff.cont hch)
        · rw [if_neg hch] at t3
          exact .inr (.inl ⟨by rw [t3], by rw [t3]⟩)

/-- the part of `openBlocksT` from the candidate loop on (`retryStepT`), `again` = `goto retry` -/
theorem retryStepT_eqg (L : Int) (blank tdone cont : Bool) (parent : Nat) (w : Int) (bps : List BP) (result : OpenResult)
    (lbo : Option Block) (again1 again2 : Bool → Bool → Nat → OpenResult → Option Block → M OpenResult) (s3 : St) (c : RCur)
    (old : List Block) (s0 : St) (hent : Ent old s0)
    (hc3 : CleanG src L s3 c) (hlt : c.p < src.length) (hboff : BoffOK src s3 c)
    (hres3 : result = .noBlocksOpened → cont = true → lbo = s3.pc.opened.getLast? ∧ ContOK cont s3) (hnp : NP old s0 s3)
    (hagain : ∀ (td ct : Bool) (p' : Nat) (res : OpenResult) (l : Option Block) (s5 : St) (c' : RCur), CleanG src L s5 c' →
      (res = .noBlocksOpened → ct = true → l = s5.pc.opened.getLast? ∧ ContOK ct s5) → NP old s0 s5 →
      EQV (fun _ s' => DirtyG src s') (again1 td ct p' res l) (again2 td ct p' res l) s5) :
    EQV (fun _ s' => DirtyG src s') (retryStepT pts1 blank tdone cont parent w bps result lbo again1)
      (retryStepT pts2 blank tdone cont parent w bps result lbo again2) s3 := by
  unfold retryStepT
  refine EQV.bind_same (fun sb s4 h4 => ?_)
  have e4 : s4 = s3 := by cases h4; rfl
  subst s4
  refine EQV.bind (tryParsersT_eqg hag L parent blank cont w old s0 hent bps result lbo s3 c hc3 hlt hboff hnp)
    (fun x s5 _ ⟨hd5, hcases⟩ => ?_)
  obtain ⟨o, res, l⟩ := x
  rcases hcases with ⟨a1, a2, a3, a4, a5, _, a7⟩ | ⟨b1, b2⟩ | ⟨p', c', c1, c2, c3, _, c5⟩ | ⟨c', d1, d2, _, d4⟩
  · simp only at a1 a2 a7
    subst a1
    dsimp only
    refine EQV.refl (fun r' s' k5 => toContinuableG_ord L cont res l s5 c r' s' a3 (fun hr hct0 => ?_) k5)
    rw [a2] at hr
    obtain ⟨q1, q2⟩ := hres3 hr hct0
    refine ⟨?_, fun hct => ?_⟩
    · rcases a7 with a7 | a7
      · rw [a7, q1, a5]
      · rw [a7, a5]
    · obtain ⟨lb, h1', h2'⟩ := q2 hct
      exact ⟨lb, by rw [a5]; exact h1', by simp only [nd, a4]; exact h2'⟩
  · simp only at b1 b2
    subst b1
    subst b2
    dsimp only
    refine EQV.refl (fun r' s' k5 => ?_)
    rw [toContinuable_new cont _ s5 r' s' k5]
    exact hd5
  · simp only at c1 c2
    subst c1
    subst c2
    dsimp only
    refine EQV.bind_same (fun s6 s7 h7 => ?_)
    have e7 : s7 = s5 := by cases h7; rfl
    subst s7
    refine EQV.ite (fun _ => EQV.bind (P := fun _ _ => False) EQV.throw (fun _ _ _ h => h.elim)) (fun _ => ?_)
    exact hagain tdone cont p' _ l s5 c' c3 (fun hr => by cases hr) c5
  · simp only at d1
    subst d1
    dsimp only
    refine EQV.bind_same (fun s6 s7 h7 => ?_)
    have e7 : s7 = s5 := by cases h7; rfl
    subst s7
    refine EQV.ite (fun _ => EQV.bind (P := fun _ _ => False) EQV.throw (fun _ _ _ h => h.elim)) (fun _ => ?_)
    exact hagain true false parent _ l s5 c' d2 (fun _ hct => by cases hct) d4

theorem openBlocksLoopT_eqg (L : Int) (blank : Bool) (old : List Block) (s0 : St) (hent : Ent old s0) :
    ∀ (fuel : Nat) (tdone cont : Bool) (parent : Nat) (result : OpenResult) (lbo : Option Block) (s : St) (c : RCur),
      CleanG src L s c → (result = .noBlocksOpened → cont = true → lbo = s.pc.opened.getLast? ∧ ContOK cont s) →
      NP old s0 s →
      EQV (fun _ s' => DirtyG src s') (openBlocksLoopT pts1 blank fuel tdone cont parent result lbo)
        (openBlocksLoopT pts2 blank fuel tdone cont parent result lbo) s := by
  intro fuel
  induction fuel with
  | zero => intro tdone cont parent result lbo s c _ _ _; unfold openBlocksLoopT; exact EQV.throw
  | succ fuel ih =>
    intro tdone cont parent result lbo s c hc hres hnp
    unfold openBlocksLoopT
    refine EQV.bind_same (fun y s1 h1 => ?_)
    obtain ⟨rfl, r1, hs1, hr1⟩ := peekLine_inv hc.ri h1
    subst s1
    dsimp only
    refine EQV.bind_same (fun lo s2 h2 => ?_)
    obtain ⟨r2, hs2, hr2⟩ := lineOffset_inv (s := { s with r := r1 }) hr1 h2
    subst s2
    refine EQV.bind_same (fun u s3 h3 => ?_)
    have e3 := omodPc_ok h3
    -- the state after the three steps: reader caches and BlockOffset / BlockIndent changed
    have hop3 : s3.pc.opened = s.pc.opened := by rw [e3]; dsimp only; split <;> rfl
    have htm3 : s3.pc.tmpPara = s.pc.tmpPara := by rw [e3]; dsimp only; split <;> rfl
    have hn3 : s3.nodes = s.nodes := by rw [e3]
    have hr3 : s3.r = r2 := by rw [e3]
    have hc3 : CleanG src L s3 c := by
      refine ⟨?_, by rw [hr3]; exact hr2, hc.pad, hc.le, hc.padl⟩
      have hi := hc.inv
      exact ⟨fun i => by simp only [nd, hn3]; exact hi.nrb i, by rw [hop3]; exact hi.ord,
        fun i => by simp only [nd, hn3]; exact hi.pnb i,
        fun t ht => by rw [htm3] at ht; simp only [nd, hn3]; exact hi.tmpk t ht,
        fun b hb => by rw [hop3] at hb; simp only [nd, hn3]; exact hi.kinds b hb,
        fun m hm => hi.nodes m (by rw [← hn3]; exact hm),
        fun t ht hm => by rw [htm3] at ht; rw [hop3] at hm ⊢; simp only [nd, hn3]; exact hi.tl t ht hm,
        fun i => by simp only [nd, hn3]; exact hi.raw i,
        fun i => by simp only [nd, hn3]; exact hi.pnl i,
        fun b hb hd hbp => by rw [hop3] at hb; simp only [nd, hn3]; exact hi.pol b hb hd hbp⟩
    have hnp3 : NP old s0 s3 := hnp.congr hn3 hop3
    have hres3 : result = .noBlocksOpened → cont = true → lbo = s3.pc.opened.getLast? ∧ ContOK cont s3 := by
      intro hr hct0
      obtain ⟨a, b⟩ := hres hr hct0
      refine ⟨by rw [hop3]; exact a, fun hct => ?_⟩
      obtain ⟨lb, h1', h2'⟩ := b hct
      exact ⟨lb, by rw [hop3]; exact h1', by simp only [nd, hn3]; exact h2'⟩
    have hboff : (RCur.view src c).isSome = true → BoffOK src s3 c := by
      intro hsome
      unfold BoffOK
      rw [e3]
      dsimp only
      split
      · simp only; omega
      · simp only; omega
    have exit : EQV (fun _ s' => DirtyG src s') (toContinuable cont result lbo) (toContinuable cont result lbo) s3 :=
      EQV.refl (fun r' s' hk => toContinuableG_ord L cont result lbo s3 c r' s' hc3 hres3 hk)
    have viaTry : ∀ (bps : List BP), (RCur.view src c).isSome = true →
        EQV (fun _ s' => DirtyG src s')
          (retryStepT pts1 blank tdone cont parent (indentWidthI ((RCur.view src c).getD []) lo).fst bps result lbo
            (openBlocksLoopT pts1 blank fuel))
          (retryStepT pts2 blank tdone cont parent (indentWidthI ((RCur.view src c).getD []) lo).fst bps result lbo
            (openBlocksLoopT pts2 blank fuel)) s3 := by
      intro bps hsome
      have hlt : c.p < src.length := by
        cases hv : RCur.view src c with
        | none => rw [hv] at hsome; cases hsome
        | some l => exact view_some_lt src c hv
      exact retryStepT_eqg hag L blank tdone cont parent _ bps result lbo _ _ s3 c old s0 hent hc3 hlt (hboff hsome) hres3 hnp3
        (fun td ct p' res l s5 c' h5 hr5 hn5 => ih td ct p' res l s5 c' h5 hr5 hn5)
    refine EQV.ite (fun _ => exit) (fun hsome0 => ?_)
    have hsome : (RCur.view src c).isSome = true := by
      cases hv : RCur.view src c with
      | none => rw [hv] at hsome0; simp at hsome0
      | some l => rfl
    refine EQV.bind_same (fun ch s4 h4 => ?_)
    obtain ⟨_, e4⟩ := oliftE_ok h4
    subst s4
    refine EQV.ite (fun _ => exit) (fun _ => ?_)
    refine EQV.ite (fun _ => ?_) (fun _ => ?_)
    · refine EQV.bind_same (fun c' s5 h5 => ?_)
      obtain ⟨_, e5⟩ := oliftE_ok h5
      subst s5
      refine EQV.bind_same (fun bps s6 h6 => ?_)
      obtain ⟨_, e6⟩ := opure_ok h6
      subst s6
      exact viaTry bps hsome
    · refine EQV.bind_same (fun bps s6 h6 => ?_)
      obtain ⟨_, e6⟩ := opure_ok h6
      subst s6
      exact viaTry bps hsome

/-- **openBlocksT** (parser.go:928-1024) from a clean state, with both transformer lists: the same answer, and a normal
    end is `DirtyG` -/
theorem openBlocksT_eqg (L : Int) (parent : Nat) (blank : Bool) (s : St) (c : RCur) (hc : CleanG src L s c)
    (hent : Ent s.pc.opened s) :
    EQV (fun _ s' => DirtyG src s') (openBlocksT pts1 parent blank) (openBlocksT pts2 parent blank) s := by
  unfold openBlocksT
  refine EQV.bind_same (fun lb s1 h1 => ?_)
  obtain ⟨hlb, hs1⟩ := olastOpenedBlock_ok h1
  subst s1
  subst lb
  have fin : ∀ cont, ContOK cont s →
      EQV (fun _ s' => DirtyG src s')
        (do let v ← source
            openBlocksLoopT pts1 blank (retryFuel v) false cont parent OpenResult.noBlocksOpened s.pc.opened.getLast?)
        (do let v ← source
            openBlocksLoopT pts2 blank (retryFuel v) false cont parent OpenResult.noBlocksOpened s.pc.opened.getLast?)
        s := by
    intro cont hco
    refine EQV.bind_same (fun v s3 h3 => ?_)
    have e3 : s3 = s := by cases h3; rfl
    subst s3
    exact openBlocksLoopT_eqg hag L blank _ s hent _ false cont parent _ _ s c hc (fun _ _ => ⟨rfl, hco⟩) (.inl ⟨rfl, rfl⟩)
  dsimp only
  cases hl : s.pc.opened.getLast? with
  | none =>
    dsimp only
    simp only [pure_bind]
    rw [← hl]
    exact fin false (fun h => by cases h)
  | some b =>
    dsimp only
    refine EQV.bind_same (fun n s2 h2 => ?_)
    obtain ⟨hn, e2⟩ := ogetNode_ok h2
    subst s2
    subst n
    simp only [pure_bind]
    rw [← hl]
    exact fin _ (fun hct => ⟨b, hl, by simpa using hct⟩)

end tp

end GM.Blocks.TX
