/-
  GM.Proof.QuoteSimInvP — the block parsers keep the store invariant `US` (GM.Proof.QuoteSimInv): `Open` of the eight
  parsers that are not list parsers (the node they build is new, hence not node 0, and is no List / ListItem),
  `Continue` and `Close` of the same parsers on a node that is not node 0.
-/
import GM.Proof.QuoteSimInv

namespace GM.Blocks
open GM GM.Text

theorem us_preserveLeadingTab (seg : Segment) (ind : Int) : Keeps US (preserveLeadingTab seg ind) := by
  unfold preserveLeadingTab; uk

theorem us_paragraphOpen (p : Nat) : Keeps US (paragraphOpen p) := by
  unfold paragraphOpen; uk

theorem us_paragraphContinue (n : Nat) (hn0 : n ≠ 0) : Keeps US (paragraphContinue n) := by
  unfold paragraphContinue; uk

theorem us_paragraphClose (n : Nat) (hn0 : n ≠ 0) : Keeps US (paragraphClose n) := by
  have := us_removeChild
  unfold paragraphClose; uk

theorem us_thematicOpen (p : Nat) : Keeps US (thematicOpen p) := by
  unfold thematicOpen; uk

theorem us_atxOpen (p : Nat) : Keeps US (atxOpen p) := by
  unfold atxOpen; uk

theorem us_setextOpen (p : Nat) : Keeps US (setextOpen p) := by
  unfold setextOpen; uk

theorem us_codeTakeLine (n : Nat) (pos padding : Int) (hn0 : n ≠ 0) : Keeps US (codeTakeLine n pos padding) := by
  have := us_preserveLeadingTab
  unfold codeTakeLine; uk

theorem us_codeOpen (p : Nat) : Keeps US (codeOpen p) := by
  have := us_codeTakeLine
  unfold codeOpen; uk

theorem us_codeContinue (n : Nat) (hn0 : n ≠ 0) : Keeps US (codeContinue n) := by
  have := us_codeTakeLine
  unfold codeContinue; uk

theorem us_codeClose (n : Nat) (hn0 : n ≠ 0) : Keeps US (codeClose n) := by
  unfold codeClose; uk

theorem us_fencedOpen (p : Nat) : Keeps US (fencedOpen p) := by
  unfold fencedOpen; uk

theorem us_fencedContinue (n : Nat) (hn0 : n ≠ 0) : Keeps US (fencedContinue n) := by
  have := us_preserveLeadingTab
  unfold fencedContinue; uk

theorem us_fencedClose (n : Nat) : Keeps US (fencedClose n) := by
  unfold fencedClose; uk

theorem us_blockquoteProcess : Keeps US blockquoteProcess := by
  unfold blockquoteProcess; uk

theorem us_blockquoteOpen (p : Nat) : Keeps US (blockquoteOpen p) := by
  have := us_blockquoteProcess
  unfold blockquoteOpen; uk

theorem us_blockquoteContinue (n : Nat) : Keeps US (blockquoteContinue n) := by
  have := us_blockquoteProcess
  unfold blockquoteContinue; uk

theorem us_htmlOpen (p : Nat) : Keeps US (htmlOpen p) := by
  unfold htmlOpen; uk

theorem us_htmlContinue (n : Nat) (hn0 : n ≠ 0) : Keeps US (htmlContinue n) := by
  unfold htmlContinue; uk

theorem us_nextSibling_bind {β} (c : Nat) (f : Option Nat → M β) (hnone : Keeps US (f none))
    (hsome : ∀ nx, nx ≠ 0 → Keeps US (f (some nx))) : Keeps US (nextSibling c >>= f) := by
  refine Keeps.bind_of (us_nextSibling c) (fun a ha => ?_)
  obtain ⟨s, s', hs, hm⟩ := ha
  cases a with
  | none => exact hnone
  | some nx => exact hsome nx (nextSibling_ne0 hs hm)

theorem us_setextClose (n : Nat) (hn0 : n ≠ 0) : Keeps US (setextClose n) := by
  have h1 := us_removeChild
  have h2 := us_insertAfter
  unfold setextClose
  repeat' (first
    | ((with_reducible apply us_nextSibling_bind) <;> (first | (intro_pi; intro_pi) | skip))
    | uk_step
    | (exfalso; contradiction)
    | (refine us_modNode _ _ (fun n hn => ⟨hn.kind, hn.kids⟩) (fun e => ?_); exfalso; simp_all; done))

/-! ### dispatch -/

theorem us_bpOpen (bp : BP) (h : bp.notList = true) (p : Nat) : Keeps US (bpOpen bp p) := by
  cases bp <;> unfold bpOpen
  · exact us_setextOpen p
  · exact us_thematicOpen p
  · cases h
  · cases h
  · exact us_codeOpen p
  · exact us_atxOpen p
  · exact us_fencedOpen p
  · exact us_blockquoteOpen p
  · exact us_htmlOpen p
  · exact us_paragraphOpen p

theorem us_bpContinue (bp : BP) (h : bp.notList = true) (n : Nat) (hn0 : n ≠ 0) : Keeps US (bpContinue bp n) := by
  cases bp <;> unfold bpContinue
  · exact Keeps.pure _
  · exact Keeps.pure _
  · cases h
  · cases h
  · exact us_codeContinue n hn0
  · exact Keeps.pure _
  · exact us_fencedContinue n hn0
  · exact us_blockquoteContinue n
  · exact us_htmlContinue n hn0
  · exact us_paragraphContinue n hn0

theorem us_bpClose (bp : BP) (h : bp.notList = true) (n : Nat) (hn0 : n ≠ 0) : Keeps US (bpClose bp n) := by
  cases bp <;> unfold bpClose
  · exact us_setextClose n hn0
  · exact Keeps.pure _
  · cases h
  · cases h
  · exact us_codeClose n hn0
  · exact Keeps.pure _
  · exact us_fencedClose n
  · exact Keeps.pure _
  · exact Keeps.pure _
  · exact us_paragraphClose n hn0

end GM.Blocks
