/-
  GM.Proof.CMFrag6Abut — stage 6: the per-line loop on the first line of a block that directly follows the previous
  block: the new block is opened while the previous one is still open, then `closeBlocks` closes the previous one.
-/
import GM.Proof.CMFrag6Open

namespace GM.Proof.CMFrag
open GM GM.Text GM.Blocks GM.Spec

theorem getD_pen (d : Blocks.Node) (rest : List Blocks.Node) (x : Blocks.Node) :
    ∀ d' tail, (d' :: ((rest ++ [x]) ++ tail)).getD (rest.length + 1) default = x := by
  intro d' tail; simp [List.getD]

section closeAt
variable {src : Bytes} {p : Nat} {ls : List Bytes}

theorem guardedTransform_at (hne : ls ≠ []) (h : ParaAt src p ls) (hb : ∀ l ∈ ls, BlkLine l)
    (r : Reader) (hr : r.source = src) (nodes : List Blocks.Node) (pi : Nat) (b : Bool)
    (hx : nodes.getD pi default = paraN (openSegs p ls) b) (pc : Ctx) :
    GM.LinkRef.guardedTransform pi ⟨r, nodes, pc⟩ = .ok ((), ⟨r, nodes, pc⟩) := by
  have hw := wf0B_open ls p hne h
  have hw' : GM.LinkRef.wfSegsB src (openSegs p ls) = true := by
    simp only [GM.LinkRef.wf0B, Bool.and_eq_true] at hw; exact hw.1
  unfold GM.LinkRef.guardedTransform
  simp only [bind_apply, getNode_run, hx, source_run, hr, paraN, hw', Bool.not_true, Bool.and_false,
    Bool.false_eq_true, if_false]
  apply GM.Proof.LinkRefFacts.transform_declined_state
  · simp only [hx]
    cases ls with
    | nil => exact absurd rfl hne
    | cons l rest' => simp [openSegs, paraN]
  · simp only [hx, hr]
    exact transformScan_open ls p hne h hb _

theorem paragraphClose_at (hne : ls ≠ []) (h : ParaAt src p ls) (hb : ∀ l ∈ ls, BlkLine l)
    (r : Reader) (hr : r.source = src) (nodes : List Blocks.Node) (pi : Nat) (b : Bool) (hpi : pi < nodes.length)
    (hx : nodes.getD pi default = paraN (openSegs p ls) b) (pc : Ctx) :
    paragraphClose pi ⟨r, nodes, pc⟩ = .ok ((), ⟨r, nodes.set pi (paraN (paraSegs p ls) b), pc⟩) := by
  obtain ⟨init, q, l, hmem, h1, h2, h3⟩ := segs_snoc ls p hne h
  have htl := trimLeftAll_open ls p h hb
  have htr := trimRight_line h3 (hb l hmem)
  have hset : ∀ y : Blocks.Node, (nodes.set pi y).getD pi default = y := by
    intro y; simp [List.getD, hpi]
  unfold paragraphClose
  simp only [bind_apply, getNode_run, hx, source_run, hr, paraN, htl, liftE_ok]
  rw [h1, h2]
  have hlen : ((init ++ [sg q (q + l.length + 1)]).length != 0) = true := by simp
  simp only [hlen, if_true, bind_apply, liftE_ok, lineAt_snoc, htr, lineSet_snoc, modNode_run, hx, paraN, hset,
    getNode_run]
  simp [pure_apply]
end closeAt

theorem blockAt2 (a b : Block) : blockAt [a, b] (0 + ((0 : Nat) : Int)) = .ok a := by simp [blockAt]

theorem slice2 (a b : Block) :
    closeBlocks.slice' [a, b] 0 0 = .ok [] ∧ closeBlocks.slice' [a, b] (0 + 1) (([a, b].length : Nat) : Int) = .ok [b] := by
  constructor <;> simp [closeBlocks.slice']

/-- closeBlocks(0, 0) with two opened blocks, the first a leaf that closes without effect -/
theorem closeBlocks6_leaf (pbp : BP) (hbp : closingBP pbp) (r : Reader) (nodes : List Blocks.Node) (pi : Nat)
    (x : Blocks.Node) (hx : nodes.getD pi default = x) (hk : x.kind ≠ .paragraph) (hpar : x.parent = some 0)
    (nblk : Block) (pc : Ctx) (hop : pc.opened = [{ node := pi, bp := pbp }, nblk]) :
    closeBlocksT pts 0 0 ⟨r, nodes, pc⟩ = .ok ((), ⟨r, nodes, { pc with opened := [nblk] }⟩) := by
  unfold closeBlocksT
  simp only [bind_apply, getPc_run, hop]
  have e1 : ((0 : Int) - 0 + 1).toNat = 1 := by decide
  rw [e1, closeLoopT, closeLoopT]
  have hk' : (x.kind == .paragraph) = false := by simp [hk]
  have hc : bpClose pbp pi = (pure () : M Unit) := by
    rcases hbp with h | h <;> subst h <;> rfl
  simp only [bind_apply, blockAt2, liftE_ok, getNode_run, hx, hk', hpar, Bool.false_and, Bool.false_eq_true, if_false,
    pure_apply, Option.isSome_some, if_true, hc]
  have hs := slice2 { node := pi, bp := pbp } nblk
  simp [hs.1, closeBlocks.slice', liftE_ok, bind_apply, modPc_run, pure_apply]

section closePara
variable {src : Bytes} {p : Nat} {ls : List Bytes}

/-- closeBlocks(0, 0) with two opened blocks, the first the fragment paragraph -/
theorem closeBlocks6_para (hne : ls ≠ []) (h : ParaAt src p ls) (hb : ∀ l ∈ ls, BlkLine l)
    (r : Reader) (hr : r.source = src) (nodes : List Blocks.Node) (pi : Nat) (b : Bool) (hpi : pi < nodes.length)
    (hx : nodes.getD pi default = paraN (openSegs p ls) b) (nblk : Block) (pc : Ctx)
    (hop : pc.opened = [{ node := pi, bp := .paragraph }, nblk]) :
    closeBlocksT pts 0 0 ⟨r, nodes, pc⟩ =
      .ok ((), ⟨r, nodes.set pi (paraN (paraSegs p ls) b), { pc with opened := [nblk] }⟩) := by
  have hg := guardedTransform_at hne h hb r hr nodes pi b hx pc
  have hc := paragraphClose_at hne h hb r hr nodes pi b hpi hx pc
  unfold closeBlocksT
  simp only [bind_apply, getPc_run, hop]
  have e1 : ((0 : Int) - 0 + 1).toNat = 1 := by decide
  rw [e1, closeLoopT, closeLoopT]
  have e3 : (paraN (openSegs p ls) b).kind = .paragraph := rfl
  have e4 : (paraN (openSegs p ls) b).parent = some 0 := rfl
  have e5 : (paraN (paraSegs p ls) b).parent = some 0 := rfl
  simp only [bind_apply, blockAt2, liftE_ok, getNode_run, hx, e3, e4, pts, GM.Convert.paragraphTransformers,
    transformParagraph, hg, pure_apply, bpClose, hc, if_true, Option.isSome_some, Option.isNone_some, beq_self_eq_true,
    Bool.and_self, Bool.false_eq_true, if_false]
  have hs := slice2 { node := pi, bp := .paragraph } nblk
  simp [hs.1, closeBlocks.slice', liftE_ok, bind_apply, modPc_run, pure_apply]
end closePara

section abut
variable {src : Bytes} {p e : Nat} {v : Bytes}

/-- the first line of a block directly behind a leaf block (heading / thematic break): the new block is opened, the leaf
    is closed. `S' bk` = the state the parser loop leaves (`bk` = the blank-line flag of the new node) -/
theorem lineLoop6_leaf (hl : Ln src p e v) (c0 : UInt8) (hidx : idx v 0 = .ok c0) (h10 : (c0 == 10) = false)
    (hiw : indentWidthI v 0 = (0, 0)) (pbp : BP) (hbp : closingBP pbp) (k : Int) (d : Blocks.Node)
    (rest : List Blocks.Node) (x : Blocks.Node) (hk : x.kind ≠ .paragraph) (hpar : x.parent = some 0) (pc : Ctx)
    (hop : pc.opened = [{ node := rest.length + 1, bp := pbp }]) (bl : List LineStat) (nblk : Block) (S' : Bool → St)
    (hS'o : ∀ bk, (S' bk).pc.opened = [{ node := rest.length + 1, bp := pbp }, nblk])
    (hS'x : ∀ bk, (S' bk).nodes.getD (rest.length + 1) default = x)
    (htry : ∀ bk, tryParsersT pts 0 bk false 0 ((triggered c0).getD freeParsers) .noBlocksOpened
        (some { node := rest.length + 1, bp := pbp })
        ⟨rdr src k p p e (some v) 0, d :: (rest ++ [x]), { pc with blockOffset := 0, blockIndent := 0 }⟩ =
      .ok ((.done, .newBlocksOpened, some { node := rest.length + 1, bp := pbp }), S' bk)) :
    ∃ bk, lineLoopT pts 0 [{ node := rest.length + 1, bp := pbp }] 0 [{ node := rest.length + 1, bp := pbp }] 0 bl
        ⟨rdr src k p p e none (-1), d :: (rest ++ [x]), pc⟩ =
      .ok ((.next, bl ++ [{ lineNum := k, level := 0, isBlank := isBlank v }]),
        ⟨(S' bk).r, (S' bk).nodes, { (S' bk).pc with opened := [nblk] }⟩) := by
  have hp : p < src.length := by have := hl.le; have := hl.lt; omega
  have hk'' : (x.kind != .paragraph) = true := by simp [hk]
  have hkf : (x.kind == .paragraph) = false := by simp [hk]
  have hcont : ∀ s : St, bpContinue pbp (rest.length + 1) s = .ok (stClose, s) := by
    intro s; rcases hbp with h | h <;> subst h <;> rfl
  refine ⟨isBlankLine (k - 1) 0 (bl ++ [{ lineNum := k, level := 0, isBlank := isBlank v }]), ?_⟩
  rw [lineLoopT]
  simp only [bind_apply, peekLine_fresh hl.sub hp (Nat.le_of_lt hl.lt) hl.le, position_run, getNode_run, getD_last, hk'',
    if_true, hcont, stClose]
  simp only [liftE_ok, rdr_line, pure_apply, bind_apply, blockAt, Bool.false_eq_true, if_false, Bool.not_true,
    bne_self_eq_false]
  generalize isBlankLine (k - 1) 0 (bl ++ [{ lineNum := k, level := 0, isBlank := isBlank v }]) = bk
  have hob := openBlocks6_of_try hl c0 hidx h10 hiw pts k (d :: (rest ++ [x])) (rest.length + 1) x (getD_last d rest x)
    pbp pc hop bk (some v) (Or.inr rfl) (S' bk) (by rw [hkf]; exact htry bk)
  have hcl := closeBlocks6_leaf pbp hbp (S' bk).r (S' bk).nodes (rest.length + 1) x (hS'x bk) hk hpar nblk (S' bk).pc (hS'o bk)
  have hsl : slotAfter [{ node := rest.length + 1, bp := pbp }] (S' bk).pc.opened 0 =
      some { node := rest.length + 1, bp := pbp } := by
    rw [hS'o bk]; rfl
  have hcl' : closeBlocksT pts 0 0 (S' bk) =
      .ok ((), ⟨(S' bk).r, (S' bk).nodes, { (S' bk).pc with opened := [nblk] }⟩) := hcl
  simp [liftE_ok, hob, getPc_run, bind_apply, map_apply, hsl, hcl', pure_apply]

/-- the first line of a block that interrupts the open paragraph: the new block is opened, the paragraph is closed -/
theorem lineLoop6_para {P : Nat} {ls : List Bytes} (hne : ls ≠ []) (hpa : ParaAt src P ls) (hb : ∀ l ∈ ls, BlkLine l)
    (hl : Ln src p e v) (c0 : UInt8) (hidx : idx v 0 = .ok c0) (h10 : (c0 == 10) = false)
    (hiw : indentWidthI v 0 = (0, 0)) (k : Int) (d : Blocks.Node)
    (rest : List Blocks.Node) (b : Bool) (pc : Ctx)
    (hop : pc.opened = [{ node := rest.length + 1, bp := .paragraph }]) (bl : List LineStat) (nblk : Block) (S' : Bool → St)
    (hS'o : ∀ bk, (S' bk).pc.opened = [{ node := rest.length + 1, bp := .paragraph }, nblk])
    (hS'x : ∀ bk, (S' bk).nodes.getD (rest.length + 1) default = paraN (openSegs P ls) b)
    (hS'l : ∀ bk, rest.length + 1 < (S' bk).nodes.length) (hS'r : ∀ bk, (S' bk).r.source = src)
    (htry : ∀ bk, tryParsersT pts 0 bk true 0 ((triggered c0).getD freeParsers) .noBlocksOpened
        (some { node := rest.length + 1, bp := .paragraph })
        ⟨rdr src k p p e (some v) 0, d :: (rest ++ [paraN (openSegs P ls) b]), { pc with blockOffset := 0, blockIndent := 0 }⟩ =
      .ok ((.done, .newBlocksOpened, some { node := rest.length + 1, bp := .paragraph }), S' bk)) :
    ∃ bk, lineLoopT pts 0 [{ node := rest.length + 1, bp := .paragraph }] 0 [{ node := rest.length + 1, bp := .paragraph }] 0 bl
        ⟨rdr src k p p e none (-1), d :: (rest ++ [paraN (openSegs P ls) b]), pc⟩ =
      .ok ((.next, bl ++ [{ lineNum := k, level := 0, isBlank := isBlank v }]),
        ⟨(S' bk).r, (S' bk).nodes.set (rest.length + 1) (paraN (paraSegs P ls) b), { (S' bk).pc with opened := [nblk] }⟩) := by
  have hp : p < src.length := by have := hl.le; have := hl.lt; omega
  have e3 : (paraN (openSegs P ls) b).kind = .paragraph := rfl
  refine ⟨isBlankLine (k - 1) 0 (bl ++ [{ lineNum := k, level := 0, isBlank := isBlank v }]), ?_⟩
  rw [lineLoopT]
  simp only [bind_apply, peekLine_fresh hl.sub hp (Nat.le_of_lt hl.lt) hl.le, position_run, getNode_run, getD_last, e3]
  simp only [liftE_ok, rdr_line, pure_apply, bind_apply, blockAt, Bool.false_eq_true, if_false, Bool.not_true,
    bne_self_eq_false]
  generalize isBlankLine (k - 1) 0 (bl ++ [{ lineNum := k, level := 0, isBlank := isBlank v }]) = bk
  have hob := openBlocks6_of_try hl c0 hidx h10 hiw pts k (d :: (rest ++ [paraN (openSegs P ls) b])) (rest.length + 1)
    (paraN (openSegs P ls) b) (getD_last d rest _) .paragraph pc hop bk (some v) (Or.inr rfl) (S' bk) (htry bk)
  have hcl := closeBlocks6_para hne hpa hb (S' bk).r (hS'r bk) (S' bk).nodes (rest.length + 1) b (hS'l bk) (hS'x bk) nblk
    (S' bk).pc (hS'o bk)
  have hcl' : closeBlocksT pts 0 0 (S' bk) =
      .ok ((), ⟨(S' bk).r, (S' bk).nodes.set (rest.length + 1) (paraN (paraSegs P ls) b),
        { (S' bk).pc with opened := [nblk] }⟩) := hcl
  have hsl : slotAfter [{ node := rest.length + 1, bp := .paragraph }] (S' bk).pc.opened 0 =
      some { node := rest.length + 1, bp := .paragraph } := by
    rw [hS'o bk]; rfl
  simp [liftE_ok, hob, getPc_run, bind_apply, map_apply, hsl, hcl', pure_apply]
end abut

end GM.Proof.CMFrag
