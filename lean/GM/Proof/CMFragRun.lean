/-
  GM.Proof.CMFragRun — `blocksLoopT` over a whole fragment document (induction over its paragraphs) and `runT`:
  the final node store is the Document with one closed Paragraph per paragraph of the document.
-/
import GM.Proof.CMFragLoop

namespace GM.Proof.CMFrag
open GM GM.Text GM.Blocks GM.Spec

/-- a document as the block phase sees it: paragraphs (`gap` blank lines in front, lines); position `q` is a block
    boundary: behind the one blank line that ends the previous paragraph (or the start of the source) -/
def DocAt (src : Bytes) : Nat → List (Nat × List Bytes) → Nat → Prop
  | q, [], trail => BlanksAt src q trail ∧ q + trail = src.length
  | q, (g, ls) :: rest, trail =>
    BlanksAt src q g ∧ ParaAt src (q + g) ls ∧
      ((rest = [] ∧ trail = 0 ∧ q + g + (paraBytes ls).length = src.length) ∨
       (Ln src (q + g + (paraBytes ls).length) (q + g + (paraBytes ls).length + 1) [10] ∧
         ((rest = [] ∧ ∃ t, trail = t + 1 ∧ DocAt src (q + g + (paraBytes ls).length + 1) rest t) ∨
          (rest ≠ [] ∧ DocAt src (q + g + (paraBytes ls).length + 1) rest trail))))

/-- where the paragraphs start -/
def closedOf : Nat → List (Nat × List Bytes) → List (Nat × List Bytes)
  | _, [] => []
  | q, (g, ls) :: rest => (q + g, ls) :: closedOf (q + g + (paraBytes ls).length + 1) rest

/-- closed paragraph nodes -/
def mkParas : List (Nat × List Bytes) → List Bool → List Blocks.Node
  | (p, ls) :: rest, b :: bs => paraN (paraSegs p ls) b :: mkParas rest bs
  | _, _ => []

/-- the Document node with `n` more children, numbered from `m + 1` -/
def addKids (d : Blocks.Node) (m n : Nat) : Blocks.Node := { d with children := d.children ++ List.range' (m + 1) n }

/-- fuel the loops need -/
def cost : List (Nat × List Bytes) → Nat
  | [] => 0
  | (_, ls) :: rest => ls.length + 1 + cost rest

theorem blanks_le {src : Bytes} : ∀ (g q : Nat), BlanksAt src q g → q + g ≤ src.length ∨ g = 0
  | 0, _, _ => Or.inr rfl
  | g + 1, q, h => by
    rcases blanks_le g (q + 1) h.2 with h' | h'
    · left; omega
    · left; have := h.1.le; omega

section run
variable {src : Bytes}

theorem skipR_text {g q : Nat} (k : Int) {e : Nat} {v : Bytes} (hb : BlanksAt src q g)
    (hl : Ln src (q + g) e v) (hv : isBlank v = false) (nodes pc) :
    skipBlankLinesR ⟨rdr src k q q (lineEnd src q) none (-1), nodes, pc⟩ =
      .ok ((sg (q + g) e, (g : Int), true), ⟨rdr src (k + g) (q + g) (q + g) e (some v) (-1), nodes, pc⟩) := by
  have hg : g + 1 ≤ loopFuel src := by
    have := hl.le; have := hl.lt
    unfold loopFuel; omega
  unfold skipBlankLinesR
  simp only [rdr_source, skipBlank_text g q k 0 (loopFuel src) hb hl hv hg, bind, Except.bind, pure, Except.pure]
  simp

theorem skipR_eof {g q : Nat} (k : Int) (hb : BlanksAt src q g) (hq : q + g = src.length) (nodes pc) :
    ∃ r', skipBlankLinesR ⟨rdr src k q q (lineEnd src q) none (-1), nodes, pc⟩ =
      .ok ((sg (q + g) (lineEnd src (q + g)), (g : Int), false), ⟨r', nodes, pc⟩) := by
  have hg : g + 1 ≤ loopFuel src := by unfold loopFuel; omega
  obtain ⟨r', h⟩ := skipBlank_eof g q k 0 (loopFuel src) hb hq hg
  refine ⟨r', ?_⟩
  unfold skipBlankLinesR
  simp only [rdr_source, h, bind, Except.bind, pure, Except.pure]
  simp


theorem addKids_zero (d : Blocks.Node) (m : Nat) : addKids d m 0 = d := by
  cases d; simp [addKids]

/-- the outer loop of parseBlocks over a fragment document -/
theorem blocksLoop_doc : ∀ (items : List (Nat × List Bytes)) (trail q : Nat) (k : Int) (fuel : Nat) (bl : List LineStat)
    (d : Blocks.Node) (cs : List Blocks.Node) (pc : Ctx),
    DocAt src q items trail → (∀ it ∈ items, it.2 ≠ [] ∧ ∀ l ∈ it.2, BlkLine l) → cost items + 1 ≤ fuel →
    pc.opened = [] →
    ∃ s' bs, blocksLoopT pts 0 fuel bl ⟨rdr src k q q (lineEnd src q) none (-1), d :: cs, pc⟩ = .ok ((), s') ∧
      bs.length = items.length ∧
      s'.nodes = addKids d cs.length items.length :: (cs ++ mkParas (closedOf q items) bs) ∧ s'.pc.refs = pc.refs
  | [], trail, q, k, fuel, bl, d, cs, pc, hd, _, hf, hop => by
    obtain ⟨f, rfl⟩ : ∃ f, fuel = f + 1 := ⟨fuel - 1, by omega⟩
    obtain ⟨r', hs⟩ := skipR_eof k hd.1 hd.2 (d :: cs) pc
    refine ⟨⟨r', d :: cs, pc⟩, [], ?_, rfl, ?_, rfl⟩
    · rw [blocksLoopT]
      simp only [bind_apply, hs]
      simp [pure_apply]
    · simp [addKids_zero, mkParas, closedOf]
  | (g, ls) :: rest, trail, q, k, fuel, bl, d, cs, pc, hd, hgood, hf, hop => by
    obtain ⟨f, rfl⟩ : ∃ f, fuel = f + 1 := ⟨fuel - 1, by omega⟩
    obtain ⟨hbl, hpa, htail⟩ := hd
    obtain ⟨hne, hbk⟩ := hgood (g, ls) (by simp)
    cases ls with
    | nil => exact absurd rfl hne
    | cons l0 more =>
      obtain ⟨hl0, hmore⟩ := hpa
      obtain ⟨c, t, hlc, hc⟩ := (hbk l0 (by simp)).first
      obtain ⟨_, _, _, hsp, _, _⟩ := letter_facts c hc
      have hv : l0 ++ [10] = c :: (t ++ [10]) := by rw [hlc]; rfl
      have hnb : isBlank (l0 ++ [10]) = false := by rw [hv]; simp [isBlank, hsp]
      rw [blocksLoopT]
      simp only [bind_apply, skipR_text k hbl hl0 hnb, Bool.not_true, Bool.false_eq_true, if_false, position_run,
        getPc_run, hop, List.length_nil, rdr_line, blankStats, pure_apply,
        openBlocks_line hl0 hv hc pts _ d cs pc hop _ (some (l0 ++ [10])) (Or.inr rfl)]
      generalize (if ((g : Int) != 0) = true then [] else bl) = BL
      generalize isBlankLine (k + (g : Int) - 1) 0 BL = bk
      simp only [bne_self_eq_false, Bool.false_eq_true, if_false, bind_apply, advanceLine_run]
      have e0 : q + g + (paraBytes [l0]).length = q + g + l0.length + 1 := by simp [paraBytes]; omega
      have hfl : more.length + 2 ≤ f := by simp [cost] at hf; omega
      have hall : ∀ l ∈ [l0] ++ more, BlkLine l := by simpa using hbk
      have haft : After src (q + g + (paraBytes ([l0] ++ more)).length) := by
        rcases htail with h | h
        · exact Or.inl h.2.2
        · exact Or.inr h.1
      obtain ⟨ret, bl', s1, h1, h2, h3, h4, h5⟩ :=
        linesLoop_para (src := src) { d with children := d.children ++ [cs.length + 1] } cs bk (q + g) more [l0]
          (k + g + 1) f BL
          { pc with blockOffset := 0, blockIndent := 0, opened := [{ node := cs.length + 1, bp := .paragraph }] }
          (by simp) ⟨hl0, trivial⟩ (by rw [e0]; exact hmore) hall haft hfl rfl
      rw [e0] at h1
      have eo : openSegs (q + g) [l0] = [sg (q + g) (q + g + l0.length + 1)] := rfl
      rw [eo] at h1
      simp only [h1]
      have hQ : q + g + (paraBytes ([l0] ++ more)).length = q + g + (paraBytes (l0 :: more)).length := rfl
      rw [hQ] at h5
      have hpara : paraSegs (q + g) ([l0] ++ more) = paraSegs (q + g) (l0 :: more) := rfl
      rw [hpara] at h2
      have h4' : s1.pc.refs = pc.refs := h4
      rcases h5 with ⟨hr, hq⟩ | ⟨hr, hln, k', hk'⟩
      · subst hr
        have hrest : rest = [] := by
          rcases htail with h | h
          · exact h.1
          · have := h.1.le; omega
        subst hrest
        refine ⟨s1, [bk], ?_, rfl, ?_, h4'⟩
        · simp [pure_apply]
        · rw [h2]; simp [addKids, mkParas, closedOf]
      · subst hr
        have step : ∀ trail', DocAt src (q + g + (paraBytes (l0 :: more)).length + 1) rest trail' →
            ∃ s' bs, (if false = true then pure () else blocksLoopT pts 0 f bl') s1 = .ok ((), s') ∧
              bs.length = ((g, l0 :: more) :: rest).length ∧
              s'.nodes = addKids d cs.length ((g, l0 :: more) :: rest).length ::
                (cs ++ mkParas (closedOf q ((g, l0 :: more) :: rest)) bs) ∧ s'.pc.refs = pc.refs := by
          intro trail' hdt
          have es1 : s1 = ⟨rdr src k' (q + g + (paraBytes (l0 :: more)).length + 1)
              (q + g + (paraBytes (l0 :: more)).length + 1)
              (lineEnd src (q + g + (paraBytes (l0 :: more)).length + 1)) none (-1),
              { d with children := d.children ++ [cs.length + 1] } :: (cs ++ [paraN (paraSegs (q + g) (l0 :: more)) bk]),
              s1.pc⟩ := by
            cases s1; simp only at hk' h2 ⊢; rw [hk', h2]
          obtain ⟨s', bs, i1, i2, i3, i4⟩ :=
            blocksLoop_doc rest trail' (q + g + (paraBytes (l0 :: more)).length + 1) k' f bl'
              { d with children := d.children ++ [cs.length + 1] } (cs ++ [paraN (paraSegs (q + g) (l0 :: more)) bk])
              s1.pc hdt (fun it hit => hgood it (by simp [hit])) (by simp [cost] at hf ⊢; omega) h3
          refine ⟨s', bk :: bs, ?_, by simp [i2], ?_, by rw [i4, h4']⟩
          · rw [es1]; simpa using i1
          · rw [i3]
            simp [addKids, mkParas, closedOf, List.range'_succ]
        rcases htail with h | h
        · exfalso; have := hln.le; omega
        · rcases h.2 with ⟨_, t, _, hdt⟩ | ⟨_, hdt⟩
          · exact step t hdt
          · exact step trail hdt
end run

end GM.Proof.CMFrag
