/-
  GM.Proof.QuoteSimOps — what the block parsers compute from a line is the same in run A and run B:
  column-taking recognisers on tab-free lines (`indentWidthI`, `indentPositionPadding`, `isThematicBreak` do not
  depend on the column), segment operations on a segment of line `k` and on the same segment moved by the
  markers (`Segment.trimLeftSpace`, `trimRightSpace`, `value`), and the tree operations under `SR`.
-/
import GM.Proof.QuoteSimRel

namespace GM.Blocks
open GM GM.Text GM.Spec GM.Proof.Reader

/-! ### tab-free lines: the column does not matter -/

theorem indentWidthGo_tf (cur cur' : Int) : ∀ (bs : Bytes) (w p : Int), (∀ c ∈ bs, c ≠ 9) →
    indentWidthGo cur bs w p = indentWidthGo cur' bs w p := by
  intro bs
  induction bs with
  | nil => intro w p _; rfl
  | cons b bs ih =>
    intro w p h
    have hb : (b == 9) = false := by
      have := h b (by simp); simpa using this
    unfold indentWidthGo
    simp only [hb, Bool.false_eq_true, if_false]
    split
    · exact ih _ _ (fun c hc => h c (by simp [hc]))
    · rfl

theorem indentWidthI_tf (bs : Bytes) (h : ∀ c ∈ bs, c ≠ 9) (cur cur' : Int) :
    indentWidthI bs cur = indentWidthI bs cur' := indentWidthGo_tf cur cur' bs 0 0 h

theorem ippLoop_tf (cur cur' width : Int) : ∀ (bs : Bytes) (i p w : Int), (∀ c ∈ bs, c ≠ 9) →
    ippLoop cur width bs i p w = ippLoop cur' width bs i p w := by
  intro bs
  induction bs with
  | nil => intro i p w _; rfl
  | cons b bs ih =>
    intro i p w h
    have hb : (b == 9) = false := by
      have := h b (by simp); simpa using this
    have ht := fun i p w => ih i p w (fun c hc => h c (by simp [hc]))
    unfold ippLoop
    simp only [hb, Bool.false_and, Bool.false_eq_true, if_false]
    split
    · exact ht _ _ _
    · split
      · exact ht _ _ _
      · rfl

theorem indentPositionPadding_tf (bs : Bytes) (h : ∀ c ∈ bs, c ≠ 9) (cur cur' pad width : Int) :
    indentPositionPadding bs cur pad width = indentPositionPadding bs cur' pad width := by
  unfold indentPositionPadding
  rw [ippLoop_tf cur cur' width bs 0 pad 0 h]

theorem indentPosition_tf (bs : Bytes) (h : ∀ c ∈ bs, c ≠ 9) (cur cur' width : Int) :
    indentPosition bs cur width = indentPosition bs cur' width :=
  indentPositionPadding_tf bs h cur cur' 0 width

theorem isThematicBreak_tf (bs : Bytes) (h : ∀ c ∈ bs, c ≠ 9) (cur cur' : Int) :
    isThematicBreak bs cur = isThematicBreak bs cur' := by
  unfold isThematicBreak
  rw [indentWidthI_tf bs h cur cur']

/-- on a tab-free line with no padding the loop of IndentPositionPadding ends with `w ≤ width` -/
theorem ippLoop_tf_le (cur width : Int) : ∀ (bs : Bytes) (i w : Int), (∀ c ∈ bs, c ≠ 9) → w ≤ width →
    (ippLoop cur width bs i 0 w).2 ≤ width ∧ i ≤ (ippLoop cur width bs i 0 w).1 ∧
      (ippLoop cur width bs i 0 w).1 ≤ i + bs.length := by
  intro bs
  induction bs with
  | nil => intro i w _ hw; simp [ippLoop]; exact hw
  | cons b bs ih =>
    intro i w h hw
    have hb : (b == 9) = false := by
      have := h b (by simp); simpa using this
    unfold ippLoop
    simp only [hb, Bool.false_and, Bool.false_eq_true, if_false, Int.lt_irrefl]
    split
    · next hc =>
      simp only [Bool.and_eq_true, decide_eq_true_eq] at hc
      have := ih (i + 1) (w + 1) (fun c hc => h c (by simp [hc])) (by omega)
      simp only [List.length_cons]; omega
    · simp only [List.length_cons]; omega

/-- `IndentPosition` on a tab-free line: no padding is ever asked for, and the position is inside the line -/
theorem indentPosition_tf_pad (bs : Bytes) (h : ∀ c ∈ bs, c ≠ 9) (cur width : Int) (hw : 0 ≤ width) :
    (indentPosition bs cur width).2 ≤ 0 ∧ (indentPosition bs cur width).1 ≤ bs.length := by
  unfold indentPosition indentPositionPadding
  split
  · simp
  · have := ippLoop_tf_le cur width bs 0 0 h hw
    simp only
    split
    · simp only; omega
    · simp only; omega

/-! ### segments of line `k` -/

theorem toNat_shift (a : Int) (k : Nat) (h : 0 ≤ a) : (a + 2 * ((k : Int) + 1)).toNat = a.toNat + 2 * (k + 1) := by
  omega

theorem sliceB_q {src k ls} (h : LineAt src k ls) {a b : Int} (h1 : (ls : Int) ≤ a) (h2 : a ≤ b)
    (h3 : b ≤ lineEnd src ls) :
    sliceB src a b = .ok (sub src a.toNat b.toNat) ∧
    sliceB (quotePrefix src) (a + 2 * ((k : Int) + 1)) (b + 2 * ((k : Int) + 1)) = .ok (sub src a.toNat b.toNat) := by
  have hle := lineEnd_le src ls
  have hq := qp_length_ge h
  constructor
  · exact sliceB_ok src (by omega) h2 (by omega)
  · rw [sliceB_ok _ (by omega) (by omega) (by omega), toNat_shift a k (by omega), toNat_shift b k (by omega),
      qp_sub h (by omega) (by omega) (by omega)]

/-- a segment inside line `k` -/
structure SegIn (src : Bytes) (k ls : Nat) (s : Segment) : Prop where
  line : LineAt src k ls
  ge : (ls : Int) ≤ s.start
  le : s.start ≤ s.stop
  stop : s.stop ≤ lineEnd src ls

theorem segA_in {src k ls p} (h : InL src k ls p) : SegIn src k ls (segA src ls p) :=
  ⟨h.line, by simp [segA]; exact h.ge, by simp [segA]; exact h.le, by simp [segA]⟩

theorem trimLeftSpace_q {src k ls s} (h : SegIn src k ls s) :
    ∃ t, s.trimLeftSpace src = .ok t ∧ (shK k s).trimLeftSpace (quotePrefix src) = .ok (shK k t) ∧
      t.stop = s.stop ∧ s.start ≤ t.start ∧ t.padding = 0 ∧
      t.start = s.start + trimLeftSpaceLength (sub src s.start.toNat s.stop.toNat) := by
  obtain ⟨e1, e2⟩ := sliceB_q h.line h.ge h.le h.stop
  unfold Segment.trimLeftSpace
  simp only [shK, e1, e2, bind, Except.bind, pure, Except.pure]
  refine ⟨_, rfl, ?_, rfl, by simp only; omega, rfl, rfl⟩
  simp only [Except.ok.injEq, Segment.mk.injEq, and_true]
  omega

theorem takeWhile_length_le {α} (p : α → Bool) (l : List α) : (l.takeWhile p).length ≤ l.length := by
  induction l with
  | nil => simp
  | cons a l ih => simp only [List.takeWhile]; split <;> simp <;> omega

theorem trimLeftSpaceLength_le (v : Bytes) : trimLeftSpaceLength v ≤ v.length := by
  unfold trimLeftSpaceLength
  exact takeWhile_length_le _ _

theorem trimRightSpace_q {src k ls s} (h : SegIn src k ls s) :
    ∃ t, s.trimRightSpace src = .ok t ∧ (shK k s).trimRightSpace (quotePrefix src) = .ok (shK k t) ∧
      t.start = s.start ∧ t.stop ≤ s.stop ∧ t.start ≤ t.stop := by
  obtain ⟨e1, e2⟩ := sliceB_q h.line h.ge h.le h.stop
  have hl : (trimRightSpaceLength (sub src s.start.toNat s.stop.toNat) : Int) ≤ s.stop - s.start := by
    have h0 : trimRightSpaceLength (sub src s.start.toNat s.stop.toNat) ≤ (sub src s.start.toNat s.stop.toNat).length := by
      unfold trimRightSpaceLength
      have := takeWhile_length_le isSpace (sub src s.start.toNat s.stop.toNat).reverse
      simpa using this
    have hle := lineEnd_le src ls
    rw [length_sub src (by have := h.stop; omega)] at h0
    have := h.ge; have := h.le
    omega
  unfold Segment.trimRightSpace
  simp only [shK, e1, e2, bind, Except.bind, pure, Except.pure]
  split
  · exact ⟨_, rfl, by simp, rfl, by simp only; exact h.le, by simp⟩
  · refine ⟨_, rfl, by simp only [Except.ok.injEq, Segment.mk.injEq, and_true, true_and]; omega, rfl,
      by simp only; omega, by simp only; omega⟩

/-! ### `SegRel` from a segment of the current line -/

theorem segRel_of_in {src k ls s} (h : SegIn src k ls s) (_hlt : s.start < lineEnd src ls) : SegRel src s (shK k s) := by
  exact ⟨k, ls, h.line, h.ge, h.le, h.stop, rfl⟩

end GM.Blocks
