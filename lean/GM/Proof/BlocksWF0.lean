/-
  GM.Proof.BlocksWF0 — the interface between the block phase and the inline phase, as a statement.

  The inline-phase theorems (GM.Props.Inlines: `parseBlock_total`, `text_segments_in_range_and_ordered`, …) are
  about ONE block and assume `WF0 src segs` of its line list (GM.Proof.InlinesReader.WF0: `WFSegs` — a non-empty
  list, every line `prev.stop ≤ start < stop ≤ len(src)`, `padding ≥ 0`, no ForceNewline — and `padding = 0`).
  This file says which nodes of the block model's store the inline phase runs on (`inlineBearing`), gives a
  decidable checker for `WF0` (`wf0B`, `wf0B_iff`), and states — does NOT prove — that the block phase establishes
  `WF0` for every inline-bearing block (`BlocksEstablishWF0`). The `example`s evaluate the statement on samples.

  Which blocks (parser/parser.go): `Parse` (876-881) runs `parseBlocks`, then `walkBlock(root, cb)` (1130-1135:
  post-order over FirstChild/NextSibling — i.e. exactly the nodes reachable from the Document through child
  lists) with `cb = parseBlock(blockReader, node, pc)`; `parseBlock` (1152-1155) returns at once when
  `parent.IsRaw()` (CodeBlock, FencedCodeBlock, HTMLBlock: ast/block.go:249, 307, 490; BaseBlock: false), and
  otherwise does `block.Reset(parent.Lines())` and loops until `PeekLine` answers nil — which it does
  immediately when the block has no lines (Document, Blockquote, List, ListItem, ThematicBreak, an empty ATX
  heading): for those the loop body never runs and the reader is never asked anything. So the blocks whose line
  list the inline phase READS are: reachable, not raw, at least one line. With the default block parsers these
  are Paragraph, TextBlock and Heading nodes; the definition below does not depend on that.
-/
import GM.Model.Blocks
import GM.Proof.InlinesReader

namespace GM.Proof.BlocksWF0
open GM GM.Text GM.Spec GM.Blocks
open GM.Proof.InlinesReader (WF0)

/-- `Node.IsRaw()` of the block kinds (ast/block.go:23, 249, 307, 490) -/
def isRaw : Kind → Bool
  | .codeBlock | .fencedCodeBlock | .htmlBlock => true
  | _ => false

/-- the inline phase reads this node's lines: `!IsRaw()` (parser.go:1153) and `Lines().Len() > 0` (with no lines
    the first `PeekLine`, parser.go:1161, is nil and the loop ends). Reachability from the Document (walkBlock,
    parser.go:1130) is a property of the store, see `reachable`. -/
def inlineBearing (n : Node) : Bool := !isRaw n.kind && !n.lines.isEmpty

/-! ### a decidable `WF0` -/

/-- `WFSegsFrom src lo segs` with `padding = 0`, as a Boolean (`len` = `len(src)`) -/
def wf0FromB (len : Int) : Int → List Segment → Bool
  | _, [] => true
  | lo, s :: rest =>
    decide (lo ≤ s.start) && decide (s.start < s.stop) && decide (s.stop ≤ len) && decide (s.padding = 0) &&
      !s.forceNewline && wf0FromB len s.stop rest

/-- `WF0 src segs` as a Boolean -/
def wf0B (src : Bytes) (segs : List Segment) : Bool := !segs.isEmpty && wf0FromB src.length 0 segs

theorem wf0FromB_iff (src : Bytes) : ∀ (segs : List Segment) (lo : Int),
    wf0FromB src.length lo segs = true ↔ (WFSegsFrom src lo segs ∧ ∀ s ∈ segs, s.padding = 0) := by
  intro segs
  induction segs with
  | nil => intro lo; simp [wf0FromB, WFSegsFrom]
  | cons a rest ih =>
    intro lo
    simp only [wf0FromB, WFSegsFrom, Bool.and_eq_true, decide_eq_true_eq, Bool.not_eq_true', ih a.stop,
      List.mem_cons, forall_eq_or_imp]
    constructor
    · rintro ⟨⟨⟨⟨⟨h1, h2⟩, h3⟩, h4⟩, h5⟩, h6, h7⟩
      exact ⟨⟨h1, h2, h3, by omega, h5, h6⟩, h4, h7⟩
    · rintro ⟨⟨h1, h2, h3, _, h5, h6⟩, h4, h7⟩
      exact ⟨⟨⟨⟨⟨h1, h2⟩, h3⟩, h4⟩, h5⟩, h6, h7⟩

theorem wf0B_iff (src : Bytes) (segs : List Segment) : wf0B src segs = true ↔ WF0 src segs := by
  unfold wf0B WF0 WFSegs
  rw [Bool.and_eq_true, wf0FromB_iff]
  have : (!segs.isEmpty) = true ↔ segs ≠ [] := by cases segs <;> simp
  rw [this]
  exact ⟨fun ⟨a, b, c⟩ => ⟨⟨a, b⟩, c⟩, fun ⟨⟨a, b⟩, c⟩ => ⟨a, b, c⟩⟩

instance (src : Bytes) (segs : List Segment) : Decidable (WF0 src segs) :=
  decidable_of_iff _ (wf0B_iff src segs)

/-! ### the statement -/

/-- ids reachable from `id` through child lists in at most `fuel` steps (`fuel` = size of the store is enough for
    a tree), pre-order — the nodes `walkBlock` (parser.go:1130-1135) calls back on -/
def reach (nodes : List Node) : Nat → Nat → List Nat
  | 0, id => [id]
  | fuel + 1, id => id :: ((nodes.getD id default).children.map (reach nodes fuel)).flatten

/-- the nodes of the final tree (reachable from the Document, node 0) -/
def reachable (s : St) : List Node := (reach s.nodes s.nodes.length 0).map fun id => s.nodes.getD id default

/-- every inline-bearing node of the STORE — attached to the tree or not — has `WF0` lines -/
def allInlineWF0 (src : Bytes) (s : St) : Bool := s.nodes.all fun n => !inlineBearing n || wf0B src n.lines

/-- the same for the nodes of the final tree only (what `Parse` needs) -/
def treeInlineWF0 (src : Bytes) (s : St) : Bool := (reachable s).all fun n => !inlineBearing n || wf0B src n.lines

/-- THE INTERFACE STATEMENT (not proved here): whenever the block phase returns, every block the inline phase
    will read has `WF0` lines, so `parseBlock_total` & co. apply to it. -/
def BlocksEstablishWF0 (src : Bytes) : Prop := ∀ s, GM.Blocks.run src = .ok s → allInlineWF0 src s = true

/-- the weaker form: only the nodes of the final tree -/
def BlocksEstablishTreeWF0 (src : Bytes) : Prop := ∀ s, GM.Blocks.run src = .ok s → treeInlineWF0 src s = true

/-- what the statement gives, node by node, in terms of the `Prop` the inline theorems assume -/
theorem wf0_of_allInlineWF0 {src : Bytes} {s : St} (h : allInlineWF0 src s = true) {n : Node} (hn : n ∈ s.nodes)
    (hb : inlineBearing n = true) : WF0 src n.lines := by
  have := (List.all_eq_true.mp h) n hn
  rw [hb] at this
  exact (wf0B_iff src n.lines).mp (by simpa using this)

/-- evaluation of the statement on one source (`false` also when the block phase panics) -/
def check (src : Bytes) : Bool :=
  match GM.Blocks.run src with
  | .ok s => allInlineWF0 src s && treeInlineWF0 src s
  | .error _ => false

/-- number of inline-bearing nodes in the final tree (so that a `check` is not vacuous) -/
def bearing (src : Bytes) : Nat :=
  match GM.Blocks.run src with
  | .ok s => ((reachable s).filter inlineBearing).length
  | .error _ => 0

/-- `inlineBearing` is false on the node a dangling id would read (`getD … default`) -/
theorem inlineBearing_default : inlineBearing (default : Node) = false := by decide

/-- the store-wide form implies the tree form: a reachable node is a node of the store (or the default node,
    which has no lines) -/
theorem treeInlineWF0_of_all {src : Bytes} {s : St} (h : allInlineWF0 src s = true) : treeInlineWF0 src s = true := by
  simp only [treeInlineWF0, reachable, List.all_eq_true, List.mem_map]
  rintro n ⟨id, _, rfl⟩
  by_cases hid : id < s.nodes.length
  · have hm : s.nodes.getD id default ∈ s.nodes := by
      rw [List.getD_eq_getElem?_getD, List.getElem?_eq_getElem hid]; simp
    exact List.all_eq_true.mp h _ hm
  · rw [List.getD_eq_getElem?_getD, List.getElem?_eq_none (by omega)]
    simp [inlineBearing_default]

theorem tree_of_store (src : Bytes) (h : BlocksEstablishWF0 src) : BlocksEstablishTreeWF0 src :=
  fun s hs => treeInlineWF0_of_all (h s hs)

/-! ### evaluation on samples (`(check src, bearing src)`: the statement holds — for the whole store and for the
tree — and the number of inline-bearing blocks in the tree, so that no sample is vacuous). Exhaustive evaluation
(not part of this file): all 8^n sources, n ≤ 7, over `' ' \t \n # - > a =`, all 13^5 over that plus `\r 1 . ` <`,
all 9^6 over `' ' \t \n - > a 1 . *`: `check = true` every time. -/

/-- paragraph: indentation, trailing spaces and tab, interior line -/
example : (check (strBytes "  a  \n   b \t \n"), bearing (strBytes "  a  \n   b \t \n")) = (true, 1) := by decide +kernel

/-- ATX headings: closing sequence, empty `#` (no lines: not inline-bearing), `##` + spaces, tab after `#`, no
    final newline -/
example : (check (strBytes "# h #\n#\n##   \n### x ###  \n#\tt"), bearing (strBytes "# h #\n#\n##   \n### x ###  \n#\tt"))
    = (true, 3) := by decide +kernel

/-- setext headings (two-line and one-line); the replaced paragraphs stay in the store, unreachable, with the
    same lines -/
example : (check (strBytes "a\n  b  \n===\nc\n---\n"), bearing (strBytes "a\n  b  \n===\nc\n---\n")) = (true, 2) := by
  decide +kernel

/-- tight list: TextBlocks replace the paragraphs (which stay in the store) -/
example : (check (strBytes "- a\n- b\n  c\n"), bearing (strBytes "- a\n- b\n  c\n")) = (true, 2) := by decide +kernel

/-- loose list -/
example : (check (strBytes "- a\n\n- b\n\n  c\n"), bearing (strBytes "- a\n\n- b\n\n  c\n")) = (true, 3) := by
  decide +kernel

/-- block quote, lazy continuation, last line without newline -/
example : (check (strBytes "> a\nb\n> c\n  d"), bearing (strBytes "> a\nb\n> c\n  d")) = (true, 1) := by decide +kernel

/-- tabs after the list marker and the quote marker, tab-indented continuation -/
example : (check (strBytes "-\ta\n\n\tb\n>\tc\n\t\td"), bearing (strBytes "-\ta\n\n\tb\n>\tc\n\t\td")) = (true, 3) := by
  decide +kernel

/-- CR LF -/
example : (check (strBytes "a\r\n b \r\n\r\n# h\r\n"), bearing (strBytes "a\r\n b \r\n\r\n# h\r\n")) = (true, 2) := by
  decide +kernel

/-- nested ordered / bullet lists -/
example : (check (strBytes "1. a\n   - b\n     c\n2. d"), bearing (strBytes "1. a\n   - b\n     c\n2. d")) = (true, 3) := by
  decide +kernel

/-- raw blocks (fenced code, HTML, indented code: padding and ForceNewline in their lines) are not inline-bearing -/
example : (check (strBytes "a  \n```\nx\n```\n<div>\ny\n\n    code\nz"),
    bearing (strBytes "a  \n```\nx\n```\n<div>\ny\n\n    code\nz")) = (true, 2) := by decide +kernel

/-- list in a quote with a lazy line, heading in a quote -/
example : (check (strBytes "> - a\n> b\n>\n> # h\n"), bearing (strBytes "> - a\n> b\n>\n> # h\n")) = (true, 2) := by
  decide +kernel

/-- setext heading inside a list item; quote with lazy line followed by a thematic break inside an item -/
example : (check (strBytes "- a\n  ===\n- > b\n  c\n  ---"), bearing (strBytes "- a\n  ===\n- > b\n  c\n  ---")) = (true, 2) := by
  decide +kernel

/-- the checker does reject: padding, ForceNewline, an empty line, lines out of order, no line at all -/
example : wf0B [97, 98] [{ start := 0, stop := 1, padding := 1 }] = false := by decide
example : wf0B [97, 98] [{ start := 0, stop := 1, forceNewline := true }] = false := by decide
example : wf0B [97, 98] [{ start := 1, stop := 1 }] = false := by decide
example : wf0B [97, 98] [{ start := 1, stop := 2 }, { start := 0, stop := 1 }] = false := by decide
example : wf0B [97, 98] [] = false := by decide
example : wf0B [97, 98] [{ start := 0, stop := 1 }, { start := 1, stop := 2 }] = true := by decide

end GM.Proof.BlocksWF0
