/-
  GM.Proof.BlocksOrdOpen — the ORDER invariant through `openBlocks` (parser.go:928-1024).

  `Clean src L s c`: nothing has been appended on the current source line yet — `Inv src L s` (every non-raw block's
  lines end at or before the line start `L`), the reader stands for a cursor `c` with `L ≤ c.p`.
  `Dirty src s`: `Inv src E s` for some `E ≤ pos.Stop` — after the (single) append of the line.
  * `open_eff`      — `Open` of each of the ten parsers from a clean state: declined → clean with the same cursor;
                      a container → clean with a cursor further on; always `Inv` up to the end of the line.
  * `tryParsers_ord`, `toContinuable_ord`, `openBlocksLoop_ord`, `openBlocks_ord` — the driver functions.
-/
import GM.Proof.BlocksOrdInv
import GM.Proof.BlocksOrdAtx
import GM.Proof.BlocksOrdRaw

namespace GM.Blocks
open GM GM.Text GM.Spec GM.Proof.Reader
open GM.Proof.BlocksWF0 (isRaw)

structure Clean (src : Bytes) (L : Int) (s : St) (c : RCur) : Prop where
  inv : Inv src L s
  ri : RI src s.r c
  pad : PadOK c
  le : L ≤ c.p
  padl : PadL L c

/-- `Inv` up to some `E` that the reader's line end has reached -/
def Dirty (src : Bytes) (s : St) : Prop := ∃ E : Int, Inv src E s ∧ Stop src E s

theorem RI.stop {src : Bytes} {s : St} {c : RCur} (h : RI src s.r c) : Stop src (lineEnd src c.p : Int) s := by
  have hp := h.pos
  have h1 := lineEnd_le src c.p
  refine ⟨h.source, ?_, ?_, ?_⟩ <;> rw [hp] <;> simp only <;> omega

theorem Clean.dirty {src : Bytes} {L : Int} {s : St} {c : RCur} (h : Clean src L s c) : Dirty src s := by
  have h2 := lineEnd_ge src h.ri.inRange
  exact ⟨(lineEnd src c.p : Int), h.inv.mono (by have := h.le; omega), h.ri.stop⟩

theorem Clean.invE {src : Bytes} {L : Int} {s : St} {c : RCur} (h : Clean src L s c) :
    Inv src (lineEnd src c.p : Int) s := by
  have h2 := lineEnd_ge src h.ri.inRange
  exact h.inv.mono (by have := h.le; omega)

/-- a state change that keeps `Stop` (the reader is the same) -/
theorem Stop.congr {src : Bytes} {E : Int} {s s' : St} (h : Stop src E s) (hr : s'.r = s.r) : Stop src E s' :=
  ⟨by rw [hr]; exact h.source, by rw [hr]; exact h.stop0, by rw [hr]; exact h.stop_le, by rw [hr]; exact h.lb⟩

theorem Clean.congr {src : Bytes} {L : Int} {s s' : St} {c : RCur} (h : Clean src L s c) (hi : Inv src L s')
    (hr : s'.r = s.r) : Clean src L s' c := ⟨hi, by rw [hr]; exact h.ri, h.pad, h.le, h.padl⟩

/-! ### a new node at the end of the store -/

theorem nd_snoc {s s' : St} {n : Node} (h : s'.nodes = s.nodes ++ [n]) (i : Nat) :
    nd s' i = if i < s.nodes.length then nd s i else if i = s.nodes.length then n else default := by
  by_cases h1 : i < s.nodes.length
  · rw [if_pos h1]; exact GM.Blocks.L.nd_append_lt h h1
  · rw [if_neg h1]
    by_cases h2 : i = s.nodes.length
    · rw [if_pos h2, h2]; exact GM.Blocks.L.nd_append_self h
    · rw [if_neg h2]; exact GM.Blocks.L.nd_append_gt h (by omega)

theorem Inv.snoc {src : Bytes} {B : Int} {s s' : St} {n : Node} (hi : Inv src B s) (h : s'.nodes = s.nodes ++ [n])
    (ho : s'.pc.opened = s.pc.opened)
    (ht : ∀ t, s'.pc.tmpPara = some t → t < s.nodes.length ∧ (nd s t).kind = .paragraph)
    (hb : NodeB B n) (hp : n.kind = .paragraph → n.lines ≠ [] ∧ ∀ t ∈ n.lines, NonBlankSeg src t)
    (hok : NodeOK src n) : Inv src B s' := by
  refine ⟨fun i => ?_, fun i hk => ?_, fun i hk => ?_, fun t htt => ?_, fun b hbm => ?_, fun m hm => ?_⟩
  · rw [nd_snoc h]; split
    · exact hi.nrb i
    · split
      · exact hb
      · exact NodeB.nil B rfl
  · rw [nd_snoc h] at hk ⊢; split
    · next h1 => rw [if_pos h1] at hk; exact hi.pne i hk
    · next h1 =>
      rw [if_neg h1] at hk
      split
      · next h2 => rw [if_pos h2] at hk; exact (hp hk).1
      · next h2 => rw [if_neg h2] at hk; cases hk
  · rw [nd_snoc h] at hk ⊢; split
    · next h1 => rw [if_pos h1] at hk; exact hi.pnb i hk
    · next h1 =>
      rw [if_neg h1] at hk
      split
      · next h2 => rw [if_pos h2] at hk; exact (hp hk).2
      · next h2 => rw [if_neg h2] at hk; cases hk
  · obtain ⟨h1, h2⟩ := ht t htt
    rw [nd_snoc h, if_pos h1]; exact h2
  · rw [ho] at hbm
    obtain ⟨h1, h2⟩ := hi.kinds b hbm
    rw [nd_snoc h, if_pos h2, h]
    exact ⟨h1, by simp; omega⟩
  · rw [h] at hm
    rcases List.mem_append.1 hm with h1 | h1
    · exact hi.nodes m h1
    · simp only [List.mem_singleton] at h1; rw [h1]; exact hok

theorem tmp_lt {s : St} {t : Nat} (h : (nd s t).kind = .paragraph) : t < s.nodes.length := by
  rcases Nat.lt_or_ge t s.nodes.length with h' | h'
  · exact h'
  · rw [nd_default_of_ge s h'] at h; cases h

/-! ### the lines of a new node, parser by parser -/

theorem lastOffset_inv {s s' : St} {p : Nat} {v : Int} (e : lastOffset p s = .ok (v, s')) : li_ListKidsOK s p := by
  unfold lastOffset at e
  obtain ⟨n, s1, h1, k1⟩ := obind_ok e
  obtain ⟨rfl, hs1⟩ := ogetNode_ok h1
  subst s1
  intro lc hlc
  have hlc' : (s.nodes.getD p default).children.getLast? = some lc := hlc
  rw [hlc'] at k1
  dsimp only at k1
  obtain ⟨c, s2, h2, k2⟩ := obind_ok k1
  obtain ⟨rfl, hs2⟩ := ogetNode_ok h2
  subst s2
  split at k2
  · obtain ⟨_, _, ht, _⟩ := obind_ok k2; cases ht
  · next hk => simpa using hk

theorem listItemOpen_kids {s s' : St} {parent : Nat} {a : Option Nat × PState}
    (e : listItemOpen parent s = .ok (a, s')) (hk : (nd s parent).kind = .list) : li_ListKidsOK s parent := by
  unfold listItemOpen at e
  obtain ⟨n, s1, h1, k1⟩ := obind_ok e
  obtain ⟨rfl, hs1⟩ := ogetNode_ok h1
  subst s1
  split at k1
  · next hne => exfalso; simp only [nd] at hk; rw [hk] at hne; simp at hne
  · obtain ⟨off, s2, h2, _⟩ := obind_ok k1
    exact lastOffset_inv h2

/-- the node a successful `Open` appends: not raw ⇒ its lines (none, or one inside the rest of the current source
    line) increase and end at or before the end of the line; a Paragraph has its line -/
theorem open_newNode {src : Bytes} {L : Int} {s s' : St} {c : RCur} (bp : BP) (parent : Nat) {a : Option Nat × PState}
    (hctx : LineCtx src s c) (hL : L ≤ c.p) (hpl : PadL L c)
    (e : bpOpen bp parent s = .ok (a, s')) {n : Node} (hn : s'.nodes = s.nodes ++ [n])
    (hk : n.kind = bp.kind) (hid : a.1.isSome = true) (h0 : ∀ t ∈ n.lines, 0 ≤ t.start) :
    NodeB (lineEnd src c.p : Int) n ∧
      (n.kind = .paragraph → n.lines ≠ [] ∧ ∀ t ∈ n.lines, NonBlankSeg src t) := by
  have hge := lineEnd_ge src hctx.ri.inRange
  have hltE := lt_lineEnd src hctx.lt
  have one : ∀ t : Segment, (c.p : Int) ≤ t.start → t.stop ≤ (lineEnd src c.p : Int) → t.start < t.stop →
      t.forceNewline = false →
      OrdFrom 0 [t] ∧ Below (lineEnd src c.p : Int) [t] ∧ ∀ u ∈ [t], u.start < u.stop ∧ u.forceNewline = false :=
    fun t h1 h2 h3 h4 =>
    ⟨⟨by omega, trivial⟩, (fun u hu => by simp only [List.mem_singleton] at hu; rw [hu]; exact h2),
      fun u hu => by simp only [List.mem_singleton] at hu; rw [hu]; exact ⟨h3, h4⟩⟩
  have none' : OrdFrom 0 ([] : List Segment) ∧ Below (lineEnd src c.p : Int) [] ∧
      ∀ u ∈ ([] : List Segment), u.start < u.stop ∧ u.forceNewline = false :=
    ⟨trivial, Below.nil _, fun u hu => by cases hu⟩
  have raw : isRaw n.kind = true → NodeB (lineEnd src c.p : Int) n ∧
      (n.kind = .paragraph → n.lines ≠ [] ∧ ∀ t ∈ n.lines, NonBlankSeg src t) :=
    fun hr => ⟨⟨(fun h => by rw [hr] at h; cases h), fun _ =>
      bpOpen_raw_new bp parent (by rw [← hk]; exact hr) hctx.ri hctx.lt hL hpl e hn hid h0,
      (fun h => by rw [noLinesKind_of_raw hr] at h; cases h)⟩,
      (fun hp => by rw [hp] at hr; cases hr)⟩
  -- a node that is not raw
  have nonraw : isRaw n.kind = false →
      (OrdFrom 0 n.lines ∧ Below (lineEnd src c.p : Int) n.lines ∧ ∀ u ∈ n.lines, u.start < u.stop ∧ u.forceNewline = false) →
      (noLinesKind n.kind = true → n.lines = []) →
      NodeB (lineEnd src c.p : Int) n := fun hnr h hnl => ⟨fun _ => h, (fun hr => by rw [hnr] at hr; cases hr), hnl⟩
  cases bp
  case setext =>
    have e' : setextOpen parent s = .ok (a, s') := e
    obtain ⟨r', _, h1 | ⟨lb, lvl, _, _, _, _, hs'⟩⟩ := setextOpen_line hctx.ri e'
    · exfalso; rw [h1.2] at hn; simp at hn
    · rw [hs'] at hn
      have : n = { kind := .heading, level := lvl, lines := [RCur.seg src c], linesNil := false } := by
        simpa using hn.symm
      subst this
      exact ⟨nonraw rfl
        (one _ (Int.le_refl _) (Int.le_refl _) (by show (c.p : Int) < (lineEnd src c.p : Int); omega) rfl)
        (fun h => by cases h),
        (fun h => by cases h)⟩
  case thematic =>
    have e' : thematicOpen parent s = .ok (a, s') := e
    obtain ⟨_, _, _, _, _, _, _, h1 | h1⟩ := (thematicOpen_okl hctx.ri parent).of_ok e'
    · exfalso; rw [h1.2.1] at hn; simp at hn
    · rw [h1.2] at hn
      have : n = { kind := .thematicBreak } := by simpa using hn.symm
      subst this
      exact ⟨nonraw rfl none' (fun _ => rfl), (fun h => by cases h)⟩
  case list =>
    have e' : listOpen parent s = .ok (a, s') := e
    obtain ⟨_, _, _, _, _, _, _, _, _, hnone, hsome⟩ := (listOpen_okl_ri src parent s c hctx.ri).of_ok e'
    cases ha : a.1 with
    | none => exfalso; rw [(hnone ha).1] at hn; simp at hn
    | some id =>
      obtain ⟨_, _, _, _, ⟨m, hm, _, _, hl, _⟩, _⟩ := hsome id ha
      rw [hm] at hn
      have : n = m := by simpa using hn.symm
      subst this
      exact ⟨nonraw (by rw [hk]; rfl) (by rw [hl]; exact none') (fun _ => hl), (fun h => by rw [hk] at h; cases h)⟩
  case listItem =>
    have e' : listItemOpen parent s = .ok (a, s') := e
    by_cases hkl : (nd s parent).kind = .list
    · obtain ⟨_, _, _, _, _, _, _, _, _, _, hnone, hsome⟩ :=
        (listItemOpen_okl src parent s c hctx (listItemOpen_kids e' hkl)).of_ok e'
      cases ha : a.1 with
      | none => exfalso; rw [hnone ha] at hn; simp at hn
      | some id =>
        obtain ⟨_, _, m, hm, _, _, hl, _⟩ := hsome id ha
        rw [hm] at hn
        have : n = m := by simpa using hn.symm
        subst this
        exact ⟨nonraw (by rw [hk]; rfl) (by rw [hl]; exact none') (fun _ => hl), (fun h => by rw [hk] at h; cases h)⟩
    · exfalso
      rw [GM.Blocks.L.listItemOpen_notList parent s hkl] at e'
      cases e'
      simp at hn
  case code => exact raw (by rw [hk]; rfl)
  case atx =>
    have e' : atxOpen parent s = .ok (a, s') := e
    obtain ⟨_, _, _, _, _, h1 | ⟨_, m, hm, _, _, hl⟩⟩ := (atxOpen_line hctx.ri parent).of_ok e'
    · exfalso; rw [h1.2] at hn; simp at hn
    · rw [hm] at hn
      have : n = m := by simpa using hn.symm
      subst this
      refine ⟨nonraw (by rw [hk]; rfl) ?_ (fun h => by rw [hk] at h; cases h), (fun h => by rw [hk] at h; cases h)⟩
      rcases hl with hl | ⟨t, hl, h1, h2, h3, _, h5⟩
      · rw [hl]; exact none'
      · rw [hl]; exact one t (by omega) h3 h2 h5
  case fenced => exact raw (by rw [hk]; rfl)
  case blockquote =>
    have e' : blockquoteOpen parent s = .ok (a, s') := e
    unfold blockquoteOpen at e'
    obtain ⟨b, s1, h1, k1⟩ := obind_ok e'
    obtain ⟨r1, c1, hs1, _⟩ := (blockquoteProcess_okl hctx.ri).of_ok h1
    subst s1
    split at k1
    · obtain ⟨id, s2, h2, k2⟩ := obind_ok k1
      obtain ⟨_, hs2⟩ := onewNode_ok h2
      subst s2
      obtain ⟨_, hs⟩ := opure_ok k2
      subst s'
      have : n = { kind := .blockquote } := by simpa using hn.symm
      subst this
      exact ⟨nonraw rfl none' (fun _ => rfl), (fun h => by cases h)⟩
    · obtain ⟨_, hs⟩ := opure_ok k1
      subst s'
      exfalso; simp at hn
  case html => exact raw (by rw [hk]; rfl)
  case paragraph =>
    have e' : paragraphOpen parent s = .ok (a, s') := e
    obtain ⟨_, _, _, _, _, _, _, h1 | ⟨_, m, seg, hm, _, hl, _, _, h2, h3, h4, _, h6, h7⟩⟩ :=
      (paragraphOpen_line hctx.ri parent).of_ok e'
    · exfalso; rw [h1.2.1] at hn; simp at hn
    · rw [hm] at hn
      have : n = m := by simpa using hn.symm
      subst this
      exact ⟨nonraw (by rw [hk]; rfl) (by rw [hl]; exact one seg h2 (by rw [h4]; exact Int.le_refl _) h3 h6)
          (fun h => by rw [hk] at h; cases h),
        (fun _ => by rw [hl]; exact ⟨by simp, fun u hu => by simp only [List.mem_singleton] at hu; rw [hu]; exact h7⟩)⟩

/-! ### `Open` from a clean state -/

/-- what `Open` of any of the ten parsers does to a clean state (the contract `OpenPost` of GM.Proof.BlocksInv, the list
    parsers' own contracts, and `open_newNode`) -/
structure OpenEff (src : Bytes) (L : Int) (bp : BP) (s : St) (c : RCur) (a : Option Nat × PState) (s' : St) : Prop where
  invE : Inv src (lineEnd src c.p : Int) s'
  stop : Stop src (lineEnd src c.p : Int) s'
  opened : s'.pc.opened = s.pc.opened
  boff : s'.pc.blockOffset = s.pc.blockOffset
  declined : a.1 = none → Clean src L s' c ∧ s'.nodes = s.nodes
  container : a.2.hasChildren = true → ∃ c', Clean src L s' c' ∧ c.p ≤ c'.p
  node : ∀ id, a.1 = some id → id = s.nodes.length ∧ id < s'.nodes.length ∧ (nd s' id).kind = bp.kind
  tmp : ∀ t, s'.pc.tmpPara = some t → t < s.nodes.length ∧ (nd s t).kind = .paragraph
  req : a.2.requirePara = true → bp = .setext
  snoc : ∀ id, a.1 = some id → ∃ n, s'.nodes = s.nodes ++ [n] ∧ n.kind = bp.kind

theorem open_eff {src : Bytes} {L : Int} {s s' : St} {c : RCur} (bp : BP) (parent : Nat) {a : Option Nat × PState}
    (hc : Clean src L s c) (hlt : c.p < src.length)
    (hoff : s.pc.blockOffset < (((RCur.view src c).getD []).length : Int))
    (e : bpOpen bp parent s = .ok (a, s')) : OpenEff src L bp s c a s' := by
  have hctx : LineCtx src s c := ⟨hc.ri, hlt, hc.pad, hoff, hc.inv.nodes⟩
  -- the reader never moves its line end back
  have hstop : Stop src (lineEnd src c.p : Int) s' := by
    have := (bpOpen_pres (stop_prims src (lineEnd src c.p : Int)) bp parent).h s hc.ri.stop
    rw [e] at this; exact this
  -- the common part, from: reader, stack, new node / no node, `tmpPara`
  have common : ∀ (c' : RCur), RI src s'.r c' → PadOK c' → c.p ≤ c'.p → (a.1 = none → c' = c) →
      (a.2.hasChildren = true → c' = c ∨ c.p < c'.p) →
      s'.pc.opened = s.pc.opened → s'.pc.blockOffset = s.pc.blockOffset →
      (a.1 = none → s'.nodes = s.nodes) →
      (∀ id, a.1 = some id → id = s.nodes.length ∧ ∃ n, s'.nodes = s.nodes ++ [n] ∧ n.kind = bp.kind ∧ NodeOK src n ∧
        (isRaw bp.kind = false → a.2.hasChildren = true → n.lines = [])) →
      (∀ t, s'.pc.tmpPara = some t → t < s.nodes.length ∧ (nd s t).kind = .paragraph) →
      (a.2.hasChildren = true → a.1.isSome = true ∧ isRaw bp.kind = false) →
      (a.2.requirePara = true → bp = .setext) →
      OpenEff src L bp s c a s' := by
    intro c' hri hpad hle hsame hprg ho hbo hnone hsome htmp hkids hreq
    have hnewOK : ∀ id, a.1 = some id → ∀ n, s'.nodes = s.nodes ++ [n] → ∀ t ∈ n.lines, 0 ≤ t.start := by
      intro id ha n hn t ht
      obtain ⟨_, m, hm, _, hok, _⟩ := hsome id ha
      rw [hm] at hn
      have : n = m := by simpa using hn.symm
      subst this
      exact (hok.lines t ht).1
    -- `Inv` for every bound `B` that the new node (if any) respects
    have hinv : ∀ B : Int, Inv src B s → (∀ n, s'.nodes = s.nodes ++ [n] → NodeB B n) → Inv src B s' := by
      intro B hiB hnB
      cases ha : a.1 with
      | none =>
        have hn := hnone ha
        exact ⟨fun i => by simp only [nd, hn]; exact hiB.nrb i, fun i => by simp only [nd, hn]; exact hiB.pne i,
          fun i => by simp only [nd, hn]; exact hiB.pnb i,
          fun t ht => by simp only [nd, hn]; exact (htmp t ht).2, fun b hb => by
            rw [ho] at hb; simp only [nd, hn]; exact hiB.kinds b hb, fun m hm => hiB.nodes m (by rw [← hn]; exact hm)⟩
      | some id =>
        obtain ⟨_, n, hn, hk, hok, _⟩ := hsome id ha
        exact hiB.snoc hn ho htmp (hnB n hn)
          (open_newNode bp parent hctx hc.le hc.padl e hn hk (by rw [ha]; rfl) (hnewOK id ha n hn)).2 hok
    refine ⟨hinv _ hc.invE (fun n hn => ?_), hstop, ho, hbo, fun ha => ?_, fun hch => ?_, fun id ha => ?_, htmp, hreq,
      fun id ha => by obtain ⟨_, n, hn, hk, _⟩ := hsome id ha; exact ⟨n, hn, hk⟩⟩
    · cases ha : a.1 with
      | none => exfalso; rw [hnone ha] at hn; simp at hn
      | some id =>
        obtain ⟨_, m, hm, hk, _, _⟩ := hsome id ha
        rw [hm] at hn
        have : n = m := by simpa using hn.symm
        subst this
        exact (open_newNode bp parent hctx hc.le hc.padl e hm hk (by rw [ha]; rfl) (hnewOK id ha n hm)).1
    · have hcc := hsame ha
      subst hcc
      refine ⟨⟨hinv L hc.inv (fun n hn => ?_), hri, hpad, hc.le, hc.padl⟩, hnone ha⟩
      exfalso; rw [hnone ha] at hn; simp at hn
    · obtain ⟨hsm, hnr⟩ := hkids hch
      have hpl' : PadL L c' := by
        rcases hprg hch with h1 | h1
        · rw [h1]; exact hc.padl
        · intro _; have := hc.le; omega
      refine ⟨c', ⟨hinv L hc.inv (fun n hn => ?_), hri, hpad, by have := hc.le; omega, hpl'⟩, hle⟩
      cases ha : a.1 with
      | none => rw [ha] at hsm; cases hsm
      | some id =>
        obtain ⟨_, m, hm, hk, _, hl⟩ := hsome id ha
        rw [hm] at hn
        have : n = m := by simpa using hn.symm
        subst this
        exact NodeB.nil L (hl hnr hch)
    · obtain ⟨hid, n, hn, hk, _, _⟩ := hsome id ha
      subst hid
      exact ⟨rfl, by rw [hn]; simp, by rw [GM.Blocks.L.nd_append_self hn]; exact hk⟩
  by_cases hl1 : bp = .list
  · subst hl1
    have e' : listOpen parent s = .ok (a, s') := e
    obtain ⟨r', hr', hri, ho, hbo, _, htm, _, _, hnone, hsome⟩ := (listOpen_okl_ri src parent s c hc.ri).of_ok e'
    subst hr'
    refine common c hri hc.pad (Nat.le_refl _) (fun _ => rfl) (fun _ => .inl rfl) ho hbo (fun ha => (hnone ha).1) (fun id ha => ?_)
      (fun t ht => by rw [htm] at ht; exact ⟨tmp_lt (hc.inv.tmpk t ht), hc.inv.tmpk t ht⟩) (fun hch => ?_)
      (fun hrq => by
        have := (Ret.h (m := listOpen parent) (Q := fun x => x.2.requirePara = false) (by unfold listOpen; ret)) s a s' e'
        rw [this] at hrq; cases hrq)
    · obtain ⟨h1, _, _, _, ⟨n, hn, hk, _, hl, _, _, hok⟩, _⟩ := hsome id ha
      exact ⟨h1, n, hn, hk, hok, fun _ _ => hl⟩
    · cases ha : a.1 with
      | none => rw [(hnone ha).2.1] at hch; cases hch
      | some id => exact ⟨rfl, rfl⟩
  by_cases hl2 : bp = .listItem
  · subst hl2
    have e' : listItemOpen parent s = .ok (a, s') := e
    by_cases hkl : (nd s parent).kind = .list
    · obtain ⟨c', hri, hpad, hle, hsame, hprog, ho, hbo, htm, _, hnone, hsome⟩ :=
        (listItemOpen_okl src parent s c hctx (listItemOpen_kids e' hkl)).of_ok e'
      refine common c' hri hpad hle hsame (fun hch => .inr (hprog hch)) ho hbo hnone (fun id ha => ?_)
        (fun t ht => by rw [htm] at ht; exact ⟨tmp_lt (hc.inv.tmpk t ht), hc.inv.tmpk t ht⟩) (fun hch => ?_)
        (fun hrq => by
          have := (Ret.h (m := listItemOpen parent) (Q := fun x => x.2.requirePara = false)
            (by unfold listItemOpen; ret)) s a s' e'
          rw [this] at hrq; cases hrq)
      · obtain ⟨h1, _, n, hn, hk, _, hl, hln, _⟩ := hsome id ha
        exact ⟨h1, n, hn, hk, ⟨(by rw [hl]; exact fun t ht => by cases ht), fun _ => hl⟩, fun _ _ => hl⟩
      · refine ⟨?_, rfl⟩
        cases ha : a.1 with
        | some id => rfl
        | none =>
          exfalso
          have h1 := hsame ha
          have h2 := hprog hch
          rw [h1] at h2
          omega
    · rw [GM.Blocks.L.listItemOpen_notList parent s hkl] at e'
      cases e'
      exact common c hc.ri hc.pad (Nat.le_refl _) (fun _ => rfl) (fun _ => .inl rfl) rfl rfl (fun _ => rfl) (fun id ha => by cases ha)
        (fun t ht => ⟨tmp_lt (hc.inv.tmpk t ht), hc.inv.tmpk t ht⟩) (fun hch => by cases hch) (fun hrq => by cases hrq)
  · have hO := ((specs_notList src).opn bp ⟨hl1, hl2⟩ parent s c hctx).of_ok e
    obtain ⟨c', hri, hpad, hle, hsame, hprog⟩ := hO.ri
    refine common c' hri hpad hle hsame (fun hch => .inr (hprog hch)) hO.opened hO.boff hO.noNode (fun id ha => ?_)
      (fun t ht => ?_) (fun hch => ?_)
      (fun hrq => (hO.req hrq).1)
    · obtain ⟨h1, n, hn, hk, hok, _⟩ := hO.newNode id ha
      refine ⟨h1, n, hn, hk, hok, fun hnr hch => ?_⟩
      -- a non-raw container other than list / list item is the block quote
      have hbq : bp = .blockquote := by
        have := (hO.kids hch).1
        cases bp <;> simp_all [BP.isContainer]
      subst hbq
      have e' : blockquoteOpen parent s = .ok (a, s') := e
      unfold blockquoteOpen at e'
      obtain ⟨b, s1, h1', k1⟩ := obind_ok e'
      obtain ⟨r1, c1, hs1, _⟩ := (blockquoteProcess_okl hc.ri).of_ok h1'
      subst s1
      split at k1
      · obtain ⟨id', s2, h2, k2⟩ := obind_ok k1
        obtain ⟨_, hs2⟩ := onewNode_ok h2
        subst s2
        obtain ⟨_, hs⟩ := opure_ok k2
        subst s'
        have : n = { kind := .blockquote } := by simpa using hn.symm
        subst this
        rfl
      · obtain ⟨hx, hs⟩ := opure_ok k1
        subst s'
        exfalso; simp at hn
    · rcases hO.tmp with ⟨_, _, lb, _, hk, _, htm⟩ | ⟨_, htm⟩
      · rw [htm] at ht; cases ht; exact ⟨tmp_lt hk, hk⟩
      · rw [htm] at ht; exact ⟨tmp_lt (hc.inv.tmpk t ht), hc.inv.tmpk t ht⟩
    · obtain ⟨h1, h2⟩ := hO.kids hch
      refine ⟨h2, ?_⟩
      cases bp <;> simp_all [BP.isContainer, BP.kind, isRaw]

end GM.Blocks
