/-
  GM.Proof.ShiftSimOpenL — `openBlocks` under the shift relation with ALL ten parsers (the list parsers included): the
  proofs of GM.Proof.ShiftSimOpenW over the contracts `PSimL`, threading the unary invariant `K` of run A's store
  instead of a set of covered parsers. The candidate loop (`TryParsersSimL`) is a hypothesis.
-/
import GM.Proof.ShiftSimOpenW
import GM.Proof.ShiftSimLDefs

namespace GM.Blocks.Sh
open GM GM.Text GM.Spec GM.Proof.Reader GM.Blocks

variable {F : Frame} {b : Bytes}

/-! ### the exit `continuable:` -/

theorem toContinuable_L (hP : PSimL F b) (continuable : Bool) (result : OpenResult)
    (lastBlock : Option Block) {sA sB : St} (hlim : SRLim F b sA sB) (hsr : result = .noBlocksOpened → SR F b sA sB)
    (hk : K sA) (hlb : ∀ l, lastBlock = some l → 0 < l.node)
    (hnli : result = .noBlocksOpened → NoLI continuable lastBlock) :
    P2 (fun x y sA' sB' => y = x ∧ SRLim F b sA' sB' ∧ K sA' ∧ sA'.pc.opened = sA.pc.opened ∧ sA.r.line ≤ sA'.r.line ∧
        (x = .newBlocksOpened → result = .newBlocksOpened))
      (toContinuable continuable result lastBlock sA) (toContinuable continuable result (lastBlock.map (shB F)) sB) := by
  unfold toContinuable
  by_cases hc : (result == OpenResult.noBlocksOpened && continuable) = true
  · rw [if_pos hc, if_pos hc]
    have hres : result = .noBlocksOpened := by
      simp only [Bool.and_eq_true, beq_iff_eq] at hc; exact hc.1
    have hcont : continuable = true := by
      simp only [Bool.and_eq_true] at hc; exact hc.2
    have h := hsr hres
    cases lastBlock with
    | none => exact P2.throwBindL
    | some lb =>
      simp only [Option.map_some]
      have hpos : 0 < lb.node := hlb lb rfl
      have hne : lb.bp ≠ .listItem := hnli hres hcont lb rfl
      obtain ⟨c, hri⟩ := h.ri
      have key : P2 (fun x y sA' sB' => y = x ∧ SRLim F b sA' sB')
          (bpContinue lb.bp lb.node sA) (bpContinue (shB F lb).bp (shB F lb).node sB) := by
        by_cases hp : c.p < b.length
        · exact (hP.co lb.bp hne lb.node sA sB h ⟨c, hri, hp⟩ hk hpos).mono (fun _ _ _ _ ⟨h1, h2, _⟩ => ⟨h1, h2⟩)
        · exact hP.coEof lb.bp lb.node sA sB h ⟨c, hri, hp⟩ hk hpos
      refine P2.bind (key.withL (R := fun _ sA' => sA'.pc.opened = sA.pc.opened ∧ sA.r.line ≤ sA'.r.line ∧ K sA')
        (fun a sA' e => ⟨bpContinue_opened _ _ _ _ _ e, bpContinue_line _ _ _ _ _ e,
          (a2_bpContinue_KS lb.bp lb.node hpos sA sA' a hk e).1⟩))
        (fun st st' sA1 sB1 ⟨⟨hst, h1⟩, ho, hl, hk1⟩ => ?_)
      rw [hst]
      by_cases hcont : st.cont = true
      · rw [if_pos hcont]
        exact P2.pure ⟨rfl, h1, hk1, ho, hl, fun e => by cases e⟩
      · rw [if_neg hcont]
        exact P2.pure ⟨rfl, h1, hk1, ho, hl, fun e => e⟩
  · rw [if_neg hc, if_neg hc]
    exact P2.pure ⟨rfl, hlim, hk, rfl, Int.le_refl _, fun e => e⟩

/-! ### the retry loop -/

/-- what `openBlocks` establishes -/
def OpenQ2L (F : Frame) (b : Bytes) (sA : St) (resIn : OpenResult) (x y : OpenResult) (sA' sB' : St) : Prop :=
  y = x ∧ SRLim F b sA' sB' ∧ K sA' ∧ sA.r.line ≤ sA'.r.line ∧
    (x = .newBlocksOpened → (resIn = .newBlocksOpened → sA.pc.opened ≠ []) → sA'.pc.opened ≠ [])

theorem oblTry_L (hP : PSimL F b) (hT : TryParsersSimL F b)
    (blankLine continuable : Bool) (fuelA fuelB : Nat)
    (ih : ∀ (parent : Nat) (result : OpenResult) (lastBlock : Option Block) (sA sB : St),
      SRw F b sA sB → K sA → parent < sA.nodes.length → (∀ l, lastBlock = some l → 0 < l.node) →
      (result = .noBlocksOpened → NoLI continuable lastBlock ∧ NoLI continuable sA.pc.opened.getLast?) →
      P2 (OpenQ2L F b sA result)
        (openBlocksLoop blankLine continuable fuelA parent result lastBlock sA)
        (openBlocksLoop blankLine continuable fuelB (F.ι parent) result (lastBlock.map (shB F)) sB))
    (parent : Nat) (w : Int) (result : OpenResult) (lastBlock : Option Block) (bps : List BP) {sA sB : St}
    (h : SR F b sA sB) (hl : HasLine b sA) (hk : K sA) (hp : parent < sA.nodes.length)
    (hlb : ∀ l, lastBlock = some l → 0 < l.node)
    (hn : result = .noBlocksOpened → NoLI continuable lastBlock ∧ NoLI continuable sA.pc.opened.getLast?) :
    P2 (OpenQ2L F b sA result)
      (oblTry blankLine continuable fuelA parent w result lastBlock bps sA)
      (oblTry blankLine continuable fuelB (F.ι parent) w result (lastBlock.map (shB F)) bps sB) := by
  unfold oblTry
  refine P2.bind (get_p2 sA sB) (fun s0 t0 sA0 sB0 ⟨e1, e2, e3, e4⟩ => ?_)
  rw [e1, e2, e3, e4]
  refine P2.bind (hT parent blankLine continuable w bps result lastBlock sA sB hlb h hl hk hp)
    (fun x y sA1 sB1 ⟨hy, hpost⟩ => ?_)
  subst hy
  cases hx1 : x.1 with
  | retry parent' =>
    simp only [shO]
    have h1 : SR F b sA1 sB1 := hpost.sr (.inl ⟨parent', hx1⟩)
    refine P2.bind (get_p2 sA1 sB1) (fun s1 t1 sA2 sB2 ⟨e1, e2, e3, e4⟩ => ?_)
    rw [e1, e2, e3, e4]
    rw [retryMeasure_eq h, retryMeasure_eq h1]
    have hnew : x.2.1 = .newBlocksOpened := hpost.retryNew parent' hx1
    have key := ih parent' x.2.1 x.2.2 _ _ h1.w hpost.k (hpost.par parent' hx1) hpost.lb
      (fun e => by rw [hnew] at e; cases e)
    have fin : P2 (OpenQ2L F b sA result)
        (openBlocksLoop blankLine continuable fuelA parent' x.2.1 x.2.2 sA1)
        (openBlocksLoop blankLine continuable fuelB (F.ι parent') x.2.1 (x.2.2.map (shB F)) sB1) := by
      refine key.mono (fun u v sA' sB' ⟨hv, hlim, hk', hline, hne⟩ => ⟨hv, hlim, hk', Int.le_trans hpost.line hline, ?_⟩)
      intro e he
      exact hne e (fun e' => hpost.ne e' he)
    by_cases hm : (!decide (retryMeasure sA1 < retryMeasure sA)) = true
    · rw [if_pos hm, if_pos hm]; exact P2.throwBindL
    · rw [if_neg hm, if_neg hm]; exact fin
  | done =>
    simp only [shO]
    have hnli : x.2.1 = .noBlocksOpened → NoLI continuable x.2.2 := by
      intro e
      obtain ⟨hres, _, hor⟩ := hpost.same e
      obtain ⟨n1, n2⟩ := hn hres
      rcases hor with hor | hor
      · rw [hor]; exact n1
      · rw [hor]; exact n2
    refine (toContinuable_L hP continuable x.2.1 x.2.2 hpost.lim (fun e => hpost.sr (.inr e)) hpost.k hpost.lb hnli).mono
      (fun u v sA' sB' ⟨hv, hlim, hk', ho, hline, hnew⟩ => ⟨hv, hlim, hk', Int.le_trans hpost.line hline, ?_⟩)
    intro e he
    rw [ho]
    exact hpost.ne (hnew e) he

theorem openBlocksLoop_L (hP : PSimL F b) (hT : TryParsersSimL F b) (blankLine continuable : Bool) :
    ∀ (fuelA fuelB parent : Nat) (result : OpenResult) (lastBlock : Option Block) (sA sB : St),
      SRw F b sA sB → K sA → parent < sA.nodes.length → (∀ l, lastBlock = some l → 0 < l.node) →
      (result = .noBlocksOpened → NoLI continuable lastBlock ∧ NoLI continuable sA.pc.opened.getLast?) →
      P2 (OpenQ2L F b sA result)
        (openBlocksLoop blankLine continuable fuelA parent result lastBlock sA)
        (openBlocksLoop blankLine continuable fuelB (F.ι parent) result (lastBlock.map (shB F)) sB) := by
  intro fuelA
  induction fuelA with
  | zero => intro fuelB parent result lastBlock sA sB _ _ _ _ _; unfold openBlocksLoop; exact P2.throwL
  | succ fuelA ih =>
    intro fuelB parent result lastBlock sA sB h hk hp hlb hn
    cases fuelB with
    | zero => unfold openBlocksLoop; exact P2.throwR
    | succ fuelB =>
      rw [openBlocksLoop_succ, openBlocksLoop_succ]
      refine P2.bind ((peekLine_core h.rd).withL (R := fun _ sA' => sA.r.line ≤ sA'.r.line)
        (fun a sA' e => peekLine_lg (k := sA.r.line) sA a sA' (Int.le_refl _) e))
        (fun lp lp' sA1 sB1 ⟨⟨⟨c, hc1, hlp⟩, hlp', hs1⟩, hline1⟩ => ?_)
      have h1 := hs1.srw h
      have epc1 : sA1.pc = sA.pc := by obtain ⟨rA, c', _, e1, _⟩ := hs1; rw [e1]
      have en1 : sA1.nodes = sA.nodes := by obtain ⟨rA, c', _, e1, _⟩ := hs1; rw [e1]
      have e1 : lp'.1 = lp.1 := by rw [hlp']
      rw [e1]
      refine P2.bind ((lineOffset_core h1.rd).withL (R := fun _ sA' => sA1.r.line ≤ sA'.r.line ∧ sA'.r.pos = sA1.r.pos)
        (fun a sA' e => ⟨lineOffset_lg (k := sA1.r.line) sA1 a sA' (Int.le_refl _) e, lineOffset_pos _ _ _ e⟩))
        (fun lo lo' sA2 sB2 ⟨⟨hlo, ⟨c2, hc2, _⟩, hs2⟩, hline2, hpos2⟩ => ?_)
      rw [hlo]
      have h2 := hs2.srw h1
      have epc2 : sA2.pc = sA.pc := by obtain ⟨rA, c', _, e2, _⟩ := hs2; rw [e2]; exact epc1
      have en2 : sA2.nodes = sA.nodes := by obtain ⟨rA, c', _, e2, _⟩ := hs2; rw [e2]; exact en1
      -- the context update: afterwards the full relation
      refine P2.bind (P := fun _ _ sA' sB' => SR F b sA' sB' ∧ sA'.pc.opened = sA.pc.opened ∧ sA'.r = sA2.r ∧
          sA'.nodes = sA.nodes) ?_
        (fun _ _ sA3 sB3 ⟨h3, ho3, er3, en3⟩ => ?_)
      · unfold modPc
        refine P2.ok ⟨⟨h2.ri, h2.r, h2.n, ?_⟩, ?_, rfl, en2⟩
        · simp only
          split
          · exact ctxRel_setBO h2.c _ _
          · exact ctxRel_setBO h2.c _ _
        · simp only
          rw [← epc2]
          split <;> rfl
      have hk3 : K sA3 := (a2_KS_same hk ⟨en3, ho3⟩).1
      have hp3 : parent < sA3.nodes.length := by rw [en3]; exact hp
      have hn3 : result = .noBlocksOpened → NoLI continuable lastBlock ∧ NoLI continuable sA3.pc.opened.getLast? := by
        rw [ho3]; exact hn
      have hline3 : sA.r.line ≤ sA3.r.line := by rw [er3]; exact Int.le_trans hline1 hline2
      have tc : P2 (OpenQ2L F b sA result) (toContinuable continuable result lastBlock sA3)
          (toContinuable continuable result (lastBlock.map (shB F)) sB3) := by
        refine (toContinuable_L hP continuable result lastBlock h3.limbo (fun _ => h3) hk3 hlb (fun e => (hn e).1)).mono
          (fun u v sA' sB' ⟨hv, hlim, hk', ho, hline, hnew⟩ => ⟨hv, hlim, hk', Int.le_trans hline3 hline, ?_⟩)
        intro e he; rw [ho, ho3]; exact he (hnew e)
      by_cases hnone : lp.1.isNone = true
      · rw [if_pos hnone, if_pos hnone]; exact tc
      rw [if_neg hnone, if_neg hnone]
      refine P2.bind (P := fun u v sA' sB' => v = u ∧ sA' = sA3 ∧ sB' = sB3) (P2.liftE_same (fun a _ => ⟨rfl, rfl, rfl⟩))
        (fun c0 c0' sA4 sB4 ⟨e1, e2, e3⟩ => ?_)
      rw [e1, e2, e3]
      by_cases hnl : (c0 == 10) = true
      · rw [if_pos hnl, if_pos hnl]; exact tc
      rw [if_neg hnl, if_neg hnl]
      -- a line is there
      have hview : ∃ l, RCur.view b c = some l ∧ lp.1 = some l := by
        rw [hlp] at hnone ⊢
        cases hv : RCur.view b c with
        | none => rw [hv] at hnone; simp at hnone
        | some l => exact ⟨l, rfl, rfl⟩
      obtain ⟨l, hv, hl1⟩ := hview
      have hpl : c.p < b.length := by
        by_cases hp : c.p < b.length
        · exact hp
        · rw [view_none b c hp] at hv; cases hv
      have hl3 : HasLine b sA3 := by
        have hl1' : HasLine b sA1 := ⟨c, hc1, hpl⟩
        have hl2' : HasLine b sA2 := hasLine_of_pos hl1' ⟨c2, hc2⟩ hpos2
        exact hasLine_of_pos hl2' h3.ri (by rw [er3])
      have conv : ∀ x y sA' sB', OpenQ2L F b sA3 result x y sA' sB' → OpenQ2L F b sA result x y sA' sB' := by
        intro x y sA' sB' ⟨hv', hlim, hk', hline, hne⟩
        exact ⟨hv', hlim, hk', Int.le_trans hline3 hline, fun e he => hne e (fun e' => ho3 ▸ he e')⟩
      by_cases hpos : (indentWidthI (lp.1.getD []) lo).2 < ((lp.1.getD []).length : Int)
      · rw [if_pos hpos, if_pos hpos]
        refine P2.bind (P := fun u v sA' sB' => v = u ∧ sA' = sA3 ∧ sB' = sB3) (P2.liftE_same (fun a _ => ⟨rfl, rfl, rfl⟩))
          (fun ch ch' sA4 sB4 ⟨e1, e2, e3⟩ => ?_)
        rw [e1, e2, e3]
        exact (oblTry_L hP hT blankLine continuable fuelA fuelB (ih fuelB) parent _ result lastBlock _ h3 hl3 hk3 hp3 hlb
          hn3).mono conv
      · rw [if_neg hpos, if_neg hpos]
        exact (oblTry_L hP hT blankLine continuable fuelA fuelB (ih fuelB) parent _ result lastBlock _ h3 hl3 hk3 hp3 hlb
          hn3).mono conv

/-- parser.openBlocks under the relation, all ten parsers -/
theorem openBlocks_L (hP : PSimL F b) (hF : F.OK) (hT : TryParsersSimL F b) : OpenBlocksSimL F b := by
  intro parent blank sA sB h hk hp hli
  unfold openBlocks
  -- lastOpenedBlock
  have hlast : sB.pc.opened.getLast? = sA.pc.opened.getLast?.map (shB F) := h.c.last
  refine P2.bind (P := fun x y sA' sB' => x = sA.pc.opened.getLast? ∧ y = x.map (shB F) ∧ sA' = sA ∧ sB' = sB) ?_
    (fun lb lb' sA1 sB1 ⟨hlb, hlb', e1, e2⟩ => ?_)
  · unfold lastOpenedBlock getPc
    exact P2.ok ⟨rfl, hlast, rfl, rfl⟩
  rw [hlb', e1, e2]
  have hlbc : ∀ l, lb = some l → 0 < l.node := by
    intro l hl; rw [hlb] at hl; exact (hk.opened l (List.mem_of_getLast? hl)).1
  have tail : ∀ cont : Bool, NoLI cont lb →
      P2 (fun x y sA' sB' => y = x ∧ SRLim F b sA' sB' ∧ K sA' ∧ sA.r.line ≤ sA'.r.line ∧
        (x = OpenResult.newBlocksOpened → sA'.pc.opened ≠ []))
      ((do let src ← source
           openBlocksLoop blank cont (retryFuel src) parent OpenResult.noBlocksOpened lb) sA)
      ((do let src ← source
           openBlocksLoop blank cont (retryFuel src) (F.ι parent) OpenResult.noBlocksOpened (lb.map (shB F))) sB) := by
    intro cont hnl
    refine P2.bind (P := fun _ _ sA' sB' => sA' = sA ∧ sB' = sB) (by unfold GM.Blocks.source; exact P2.ok ⟨rfl, rfl⟩)
      (fun src src' sA3 sB3 ⟨e1, e2⟩ => ?_)
    rw [e1, e2]
    refine (openBlocksLoop_L hP hT blank cont _ _ parent .noBlocksOpened lb sA sB h hk hp hlbc
      (fun _ => ⟨hnl, hlb ▸ hnl⟩)).mono
      (fun x y sA' sB' ⟨hv, hlim, hk', hline, hne⟩ => ⟨hv, hlim, hk', hline, fun e => hne e (fun e' => by cases e')⟩)
  cases lb with
  | none => exact tail false (fun e => by cases e)
  | some l =>
    simp only [Option.map_some]
    refine P2.bind (P := fun (x y : Node) sA' sB' => y.kind = x.kind ∧ x = sA.nodes.getD l.node default ∧
        sA' = sA ∧ sB' = sB) ?_
      (fun n n' sA2 sB2 ⟨e0, en, e1, e2⟩ => ?_)
    · unfold getNode
      refine P2.ok ⟨?_, rfl, rfl, rfl⟩
      show (sB.nodes.getD (F.ι l.node) default).kind = _
      rw [h.n.node l.node]; rfl
    rw [e0, e1, e2]
    refine tail (n.kind == Kind.paragraph) ?_
    intro hc x hx
    have hxl : l = x := Option.some.inj hx
    rw [← hxl]
    refine hli l hlb.symm ?_
    rw [← en]
    exact eq_of_beq hc

end GM.Blocks.Sh
