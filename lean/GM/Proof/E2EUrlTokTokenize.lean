/-
  GM.Proof.E2EUrlTokTokenize — from the grammar `WFHtmlU` to the strict tokenizer: every word of the grammar is the
  serialisation of good tokens whose start tags carry only harmless `href` / `src` values (`wf_tokensU`), and every
  non-text token the tokenizer reads back from that serialisation IS one of those tokens (`tokenize_tracks`: adjacent
  inert text merges, tags are read back one by one) — hence `Spec.urlsOK lookupEntity (tokenize b)`, the predicate the
  run-time oracle `tok urls` evaluates. NEW file; GM.Proof.RenderWF.Tokenize is used, not changed.
-/
import GM.Proof.RenderWF.Tokenize
import GM.Proof.E2EUrlTokMain

namespace GM.Proof.RenderWFU
open GM GM.Spec GM.Proof.RenderWF

/-- the `href` / `src` values of a start tag are harmless -/
def urlTokOK : Tok → Prop
  | .startTag _ as _ => UrlAttrs as
  | _ => True

/-- a grammar word is the serialisation of a balanced list of good tokens with harmless URL attributes -/
theorem wf_tokensU {x : Bool} {b : Bytes} (h : WFHtmlU x b) :
    ∃ ts, b = serAll ts ∧ (∀ t ∈ ts, TokGood x t) ∧ ∀ t ∈ ts, urlTokOK t := by
  induction h with
  | nil => exact ⟨[], rfl, by simp, by simp⟩
  | text b hb =>
    refine ⟨[.text b], by simp [serAll, ser], ?_, ?_⟩
    · intro t ht; simp only [List.mem_singleton] at ht; subst ht; exact hb
    · intro t ht; simp only [List.mem_singleton] at ht; subst ht; trivial
  | comment =>
    refine ⟨[.comment], by simp [serAll, ser], ?_, ?_⟩
    · intro t ht; simp only [List.mem_singleton] at ht; subst ht; trivial
    · intro t ht; simp only [List.mem_singleton] at ht; subst ht; trivial
  | void n as hv sok hu =>
    refine ⟨[.startTag n as x], by simp [serAll, ser, closeBytes], ?_, ?_⟩
    · intro t ht; simp only [List.mem_singleton] at ht; subst ht
      exact ⟨sok, by rw [if_pos hv]⟩
    · intro t ht; simp only [List.mem_singleton] at ht; subst ht; exact hu
  | elem n as body hv sok hu _ ih =>
    obtain ⟨ts, e, hg, hurl⟩ := ih
    refine ⟨[.startTag n as false] ++ ts ++ [.endTag n], ?_, ?_, ?_⟩
    · rw [serAll_append, serAll_append, e]; simp [serAll, ser, closeBytes]
    · intro t ht
      simp only [List.mem_append, List.mem_singleton] at ht
      rcases ht with (rfl | ht) | rfl
      · exact ⟨sok, by rw [hv]; rfl⟩
      · exact hg t ht
      · exact ⟨sok.name, startOK_allowed sok⟩
    · intro t ht
      simp only [List.mem_append, List.mem_singleton] at ht
      rcases ht with (rfl | ht) | rfl
      · exact hu
      · exact hurl t ht
      · trivial
  | append a b _ _ iha ihb =>
    obtain ⟨ta, ea, ga, ua⟩ := iha
    obtain ⟨tb, eb, gb, ub⟩ := ihb
    refine ⟨ta ++ tb, by rw [serAll_append, ea, eb], ?_, ?_⟩
    · intro t ht
      rcases List.mem_append.mp ht with ht | ht
      · exact ga t ht
      · exact gb t ht
    · intro t ht
      rcases List.mem_append.mp ht with ht | ht
      · exact ua t ht
      · exact ub t ht

/-- what the tokenizer reads back from `pre ++ serAll ts`: text tokens, and tokens of `ts` -/
def Tracks (ts : List Tok) (s : Bytes) (fuel : Nat) : Prop :=
  ∃ ts', tokenizeFuel fuel s = some ts' ∧ ∀ t ∈ ts', (∃ b, t = .text b) ∨ t ∈ ts

theorem tracks_mono {ts ts2 : List Tok} {s : Bytes} {f : Nat} (h : Tracks ts s f) (hsub : ∀ t ∈ ts, t ∈ ts2) :
    Tracks ts2 s f := by
  obtain ⟨ts', h1, h2⟩ := h
  exact ⟨ts', h1, fun t ht => (h2 t ht).imp id (hsub t)⟩

theorem tracks_peel {ts : List Tok} {c : UInt8} {p s : Bytes} {f : Nat}
    (hin : inertBytes (c :: p) = true) (hs : StopAt (· != 60) s) (h : Tracks ts s f) :
    Tracks ts ((c :: p) ++ s) (f + 1) := by
  obtain ⟨ts', h1, h2⟩ := h
  refine ⟨.text (c :: p) :: ts', ?_, ?_⟩
  · rw [peel_text f c p s hin hs, h1]; rfl
  · intro t ht
    rcases List.mem_cons.mp ht with rfl | ht
    · exact .inl ⟨_, rfl⟩
    · exact h2 t ht

theorem tokenize_tracks {x : Bool} (ts : List Tok) (hg : ∀ t ∈ ts, TokGood x t) :
    ∀ (pre : Bytes), inertBytes pre = true → ∀ fuel, (pre ++ serAll ts).length ≤ fuel →
      Tracks ts (pre ++ serAll ts) fuel := by
  induction ts with
  | nil =>
    intro pre hpre fuel hf
    cases pre with
    | nil => exact ⟨[], tokenizeFuel_nil fuel, by simp⟩
    | cons c p =>
      cases fuel with
      | zero => simp [serAll] at hf
      | succ f => exact tracks_peel hpre (stopAt_nil _) ⟨[], tokenizeFuel_nil f, by simp⟩
  | cons t rest ih =>
    intro pre hpre fuel hf
    have hrest : ∀ t' ∈ rest, TokGood x t' := fun t' h => hg t' (by simp [h])
    by_cases htx : ∃ b, t = .text b
    · obtain ⟨b, rfl⟩ := htx
      have hb : inertBytes b = true := hg (.text b) (by simp)
      have e : pre ++ serAll (.text b :: rest) = (pre ++ b) ++ serAll rest := by simp [serAll, ser]
      rw [e] at hf ⊢
      exact tracks_mono (ih hrest (pre ++ b) (inertBytes_append _ _ hpre hb) fuel hf) (fun t ht => by simp [ht])
    · have hnt : ∀ b, t ≠ .text b := fun b hb => htx ⟨b, hb⟩
      have hgt := hg t (by simp)
      obtain ⟨_, tl, htl⟩ := ser_tag hgt hnt []
      have A : ∀ f, (ser t ++ serAll rest).length ≤ f → Tracks (t :: rest) (ser t ++ serAll rest) f := by
        intro f hf'
        cases f with
        | zero => rw [htl] at hf'; simp at hf'
        | succ f' =>
          obtain ⟨ts', h1, h2⟩ := ih hrest [] rfl f' (by rw [htl] at hf'; simp at hf' ⊢; omega)
          simp only [List.nil_append] at h1
          refine ⟨t :: ts', ?_, ?_⟩
          · rw [tag_step hgt hnt, h1]; rfl
          · intro t' ht'
            rcases List.mem_cons.mp ht' with rfl | ht'
            · exact .inr (by simp)
            · exact (h2 t' ht').imp id (fun h => by simp [h])
      show Tracks (t :: rest) (pre ++ (ser t ++ serAll rest)) fuel
      cases pre with
      | nil => exact A fuel (by simpa [serAll] using hf)
      | cons c p =>
        cases fuel with
        | zero => simp at hf
        | succ f =>
          refine tracks_peel hpre ?_ (A f (by simp [serAll] at hf ⊢; omega))
          rw [htl]; exact stopAt_cons _ _ _ (by decide)

/-- **C04 at token level for the grammar**: the strict tokenizer accepts the word and every `href` / `src` value of
    every start tag it reads is harmless -/
theorem urlsOK_of_wfU {x : Bool} {b : Bytes} (h : WFHtmlU x b) :
    ∃ ts, tokenize b = some ts ∧ urlsOK lookupEntity ts = true := by
  obtain ⟨ts0, e, hg, hu⟩ := wf_tokensU h
  obtain ⟨ts, h1, h2⟩ := tokenize_tracks ts0 hg [] rfl b.length (by simp [e])
  simp only [List.nil_append, ← e] at h1
  refine ⟨ts, h1, ?_⟩
  unfold urlsOK
  rw [List.all_eq_true]
  intro t ht
  rcases h2 t ht with ⟨b', rfl⟩ | hm
  · rfl
  · have := hu t hm
    cases t with
    | startTag n as sc =>
      simp only [urlTokOK] at this
      simp only [List.all_eq_true, Bool.or_eq_true, Bool.not_eq_true']
      intro a ha
      by_cases hc : urlAttrNames.contains a.1 = true
      · exact .inr (this a ha hc)
      · exact .inl (by simpa using hc)
    | _ => rfl

end GM.Proof.RenderWFU
