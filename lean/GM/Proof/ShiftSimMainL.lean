/-
  GM.Proof.ShiftSimMainL — shift invariance of the block phase for ALL ten block parsers (lists included), for frames
  that also relate the flag `emptyListItemWithBlankLines` (`F.flag = true`): the line loops of `parseBlocks` over the
  conditional contracts `PSimL`, run A's store invariant `K` threaded through, run A's states at line boundaries carrying
  the invariant `StableL` of the no-panic proof.
-/
import GM.Proof.ShiftSimMainW
import GM.Proof.ShiftSimListB
import GM.Proof.ShiftSimDriverL
import GM.Proof.ShiftSimOpenL
import GM.Proof.ShiftSimLinesL

namespace GM.Blocks.Sh
open GM GM.Text GM.Spec GM.Proof.Reader GM.Blocks GM.Blocks.L

variable {F : Frame} {b : Bytes}

/-- all ten parsers meet the contracts -/
theorem psimL_all (F : Frame) (hF : F.OK) (hfl : F.flag = true) (b : Bytes) : PSimL F b where
  op := by
    intro bp
    cases bp with
    | list => exact listOpen_sim F b
    | listItem => exact listItemOpen_sim F b
    | setext => exact (psim_notList F hF b).op _ ⟨by decide, by decide⟩
    | thematic => exact (psim_notList F hF b).op _ ⟨by decide, by decide⟩
    | code => exact (psim_notList F hF b).op _ ⟨by decide, by decide⟩
    | atx => exact (psim_notList F hF b).op _ ⟨by decide, by decide⟩
    | fenced => exact (psim_notList F hF b).op _ ⟨by decide, by decide⟩
    | blockquote => exact (psim_notList F hF b).op _ ⟨by decide, by decide⟩
    | html => exact (psim_notList F hF b).op _ ⟨by decide, by decide⟩
    | paragraph => exact (psim_notList F hF b).op _ ⟨by decide, by decide⟩
  cl := by
    intro bp node rA rB sA sB h hk hn
    cases bp with
    | list => exact listClose_simK F hF b node rA rB sA sB h hk hn
    | listItem => exact P2.pure h
    | setext => exact (psim_notList F hF b).cl _ ⟨by decide, by decide⟩ node rA rB sA sB h
    | thematic => exact (psim_notList F hF b).cl _ ⟨by decide, by decide⟩ node rA rB sA sB h
    | code => exact (psim_notList F hF b).cl _ ⟨by decide, by decide⟩ node rA rB sA sB h
    | atx => exact (psim_notList F hF b).cl _ ⟨by decide, by decide⟩ node rA rB sA sB h
    | fenced => exact (psim_notList F hF b).cl _ ⟨by decide, by decide⟩ node rA rB sA sB h
    | blockquote => exact (psim_notList F hF b).cl _ ⟨by decide, by decide⟩ node rA rB sA sB h
    | html => exact (psim_notList F hF b).cl _ ⟨by decide, by decide⟩ node rA rB sA sB h
    | paragraph => exact (psim_notList F hF b).cl _ ⟨by decide, by decide⟩ node rA rB sA sB h
  co := by
    intro bp hne node sA sB h hl hk hn
    cases bp with
    | list => exact listContinue_simK F hfl b node sA sB h hk
    | listItem => exact absurd rfl hne
    | setext => exact (psimW_notList F hF b).co _ ⟨by decide, by decide⟩ node sA sB h hl
    | thematic => exact (psimW_notList F hF b).co _ ⟨by decide, by decide⟩ node sA sB h hl
    | code => exact (psimW_notList F hF b).co _ ⟨by decide, by decide⟩ node sA sB h hl
    | atx => exact (psimW_notList F hF b).co _ ⟨by decide, by decide⟩ node sA sB h hl
    | fenced => exact (psimW_notList F hF b).co _ ⟨by decide, by decide⟩ node sA sB h hl
    | blockquote => exact (psimW_notList F hF b).co _ ⟨by decide, by decide⟩ node sA sB h hl
    | html => exact (psimW_notList F hF b).co _ ⟨by decide, by decide⟩ node sA sB h hl
    | paragraph => exact (psimW_notList F hF b).co _ ⟨by decide, by decide⟩ node sA sB h hl
  coEof := by
    intro bp node sA sB h he hk hn
    cases bp with
    | list => exact listContinue_eofK F hfl b node sA sB h hk
    | listItem => exact listItemContinue_eof F b node sA sB h he
    | setext => exact (psim_notList F hF b).coEof _ ⟨by decide, by decide⟩ node sA sB h he
    | thematic => exact (psim_notList F hF b).coEof _ ⟨by decide, by decide⟩ node sA sB h he
    | code => exact (psim_notList F hF b).coEof _ ⟨by decide, by decide⟩ node sA sB h he
    | atx => exact (psim_notList F hF b).coEof _ ⟨by decide, by decide⟩ node sA sB h he
    | fenced => exact (psim_notList F hF b).coEof _ ⟨by decide, by decide⟩ node sA sB h he
    | blockquote => exact (psim_notList F hF b).coEof _ ⟨by decide, by decide⟩ node sA sB h he
    | html => exact (psim_notList F hF b).coEof _ ⟨by decide, by decide⟩ node sA sB h he
    | paragraph => exact (psim_notList F hF b).coEof _ ⟨by decide, by decide⟩ node sA sB h he
  coLI := by
    intro node sA sB h hl hk hn hp hri
    exact listItemContinue_simK F hfl b node sA sB h hl hk hn hp hri

theorem K.congr_r {s : St} (h : K s) (r' : Reader) : K { s with r := r' } :=
  (a2_KS_same (s' := { s with r := r' }) h ⟨rfl, rfl⟩).1

/-! ### the inner `for {}` over lines -/

def LinesQL (F : Frame) (b : Bytes) (sA : St) (sa : List LineStat)
    (x y : Bool × List LineStat) (sA' sB' : St) : Prop :=
  y.1 = x.1 ∧ StatsRel F x.2 y.2 ∧ SRLim F b sA' sB' ∧ K sA' ∧ 1 ≤ sA'.r.line ∧
    (x.1 = false → SR F b sA' sB' ∧ sA'.pc.opened = [] ∧ AStable b sA' ∧ (sa ≠ [] ∨ sA.pc.opened ≠ [] → x.2 ≠ []))

theorem linesLoop_L (hP : PSimL F b) (hC : CloseBlocksSimL F b) (hO : OpenBlocksSimL F b) :
    ∀ (fuelA fuelB : Nat) (sa sb : List LineStat) (sA sB : St),
      SR F b sA sB → K sA → StatsRel F sa sb → 1 ≤ sA.r.line → AStable b sA →
      P2 (LinesQL F b sA sa) (linesLoop 0 fuelA sa sA) (linesLoop (F.ι 0) fuelB sb sB) := by
  intro fuelA
  induction fuelA with
  | zero => intro fuelB sa sb sA sB _ _ _ _ _; unfold linesLoop; exact P2.throwL
  | succ fuelA ih =>
    intro fuelB sa sb sA sB h hk hst hline hstab
    cases fuelB with
    | zero => unfold linesLoop; exact P2.throwR
    | succ fuelB =>
      unfold linesLoop
      refine P2.bind (getPc_p2 h) (fun x y sA1 sB1 ⟨hx, hy, hxy, e1, e2⟩ => ?_)
      rw [e1, e2]
      have ho : y.opened = x.opened.map (shB F) := hxy.opened
      rw [ho, List.length_map]
      by_cases hl0 : (x.opened.length == 0) = true
      · rw [if_pos hl0, if_pos hl0]
        have hnil : sA.pc.opened = [] := by
          rw [← hx]; exact List.eq_nil_of_length_eq_zero (by simpa using hl0)
        refine P2.pure ⟨rfl, hst, h.limbo, hk, hline, fun _ => ⟨h, hnil, hstab, fun hh => ?_⟩⟩
        rcases hh with hh | hh
        · exact hh
        · exact absurd hnil hh
      · rw [if_neg hl0, if_neg hl0]
        have hne : x.opened ≠ [] := by
          intro e; rw [e] at hl0; simp at hl0
        obtain ⟨c, hri⟩ := h.ri
        have hmid : MidA b x.opened [] x.opened 0 sA :=
          ⟨by simp, rfl, by rw [hx], hstab.st, c, hri, hstab.pad c hri, fun Lb hLb => by simp at hLb⟩
        refine P2.bind ((lineLoop_L hP hC hO x.opened _ rfl x.opened [] 0 sa sb sA sB hmid h hk hst hline
          (by omega)).withL (R := fun _ sA' => StableL b 0 sA')
            (fun a sA' e => by
              have := lineLoopL (lsp_all b) 0 rfl x.opened ((x.opened.length : Int) - 1) rfl x.opened [] 0 sa sA c
                rfl rfl (by rw [hx]) hri (hstab.pad c hri) hstab.st (fun Lb hLb => by simp at hLb)
              obtain ⟨_, _, hst'⟩ := okl_ok this e
              exact hst'))
          (fun u v sA2 sB2 ⟨⟨hv1, hst2, hlim2, hk2, hline2, hne2⟩, hstab2⟩ => ?_)
        obtain ⟨uo, us⟩ := u
        obtain ⟨vo, vs⟩ := v
        simp only at hv1 hst2 hne2
        subst hv1
        cases vo with
        | eof =>
          simp only
          exact P2.pure ⟨rfl, hst2, hlim2, hk2, Int.le_trans hline hline2, fun e => by cases e⟩
        | next =>
          simp only
          refine P2.bind ((advanceLine_limbo' hlim2).withL (R := fun _ sA' => sA' = { sA2 with r := sA2.r.advanceLine })
            (fun a sA' e => by unfold GM.Blocks.advanceLine at e; cases e; rfl))
            (fun _ _ sA3 sB3 ⟨⟨h3, hpc3, hl3⟩, he3⟩ => ?_)
          have hk3 : K sA3 := by rw [he3]; exact hk2.congr_r _
          have hline3 : 1 ≤ sA3.r.line := by omega
          have hu2 : us ≠ [] := hne2 rfl hne
          have hstab3 : AStable b sA3 := by
            rw [he3]
            exact ⟨hstab2.congr_r _, padOK_of_zero (advanceLine_pad _ (limbo_stop hlim2.2))⟩
          refine (ih fuelB us vs sA3 sB3 h3 hk3 hst2 hline3 hstab3).mono
            (fun w z sA' sB' ⟨hz, hst', hlim', hk', hline', hfin⟩ => ⟨hz, hst', hlim', hk', hline', fun e => ?_⟩)
          obtain ⟨f1, f2, f3, f4⟩ := hfin e
          exact ⟨f1, f2, f3, fun _ => f4 (.inl hu2)⟩

/-! ### the outer `for {}` -/

theorem blocksLoop_L (hP : PSimL F b) (hC : CloseBlocksSimL F b) (hO : OpenBlocksSimL F b) :
    ∀ (fuelA fuelB : Nat) (sa sb : List LineStat) (sA sB : St),
      SRw F b sA sB → K sA → sA.pc.opened = [] → 0 ≤ sA.r.line → BInv F sa sb sA.r.line → AStable b sA →
      P2 (fun _ _ sA' sB' => StoreRel F sA'.nodes sB'.nodes)
        (blocksLoop 0 fuelA sa sA) (blocksLoop (F.ι 0) fuelB sb sB) := by
  intro fuelA
  induction fuelA with
  | zero => intro fuelB sa sb sA sB _ _ _ _ _ _; unfold blocksLoop; exact P2.throwL
  | succ fuelA ih =>
    intro fuelB sa sb sA sB h hk hop hline hbi hstab
    cases fuelB with
    | zero => unfold blocksLoop; exact P2.throwR
    | succ fuelB =>
      unfold blocksLoop
      obtain ⟨c0, hri0⟩ := h.ri
      refine P2.bind ((skipBlankLinesR_core h.rd).withL
        (R := fun a sA' => (sA.r.line ≤ sA'.r.line ∧ (a.2.1 = 0 → sA'.r.line = sA.r.line)) ∧ ∀ c, RI b sA'.r c → PadOK c)
        (fun a sA' e => ⟨skipBlankLinesR_line _ _ _ e, by
          unfold skipBlankLinesR at e
          rcases skipBlankLines_ri (src := b) (loopFuel sA.r.source) 0 sA.r c0 hri0 (hstab.pad c0 hri0) with
            ⟨x, r', c', e', h1, h2⟩ | e'
          · rw [e'] at e
            simp only [bind, Except.bind, pure, Except.pure] at e
            cases e
            intro c hc
            rw [ri_unique hc h1]; exact h2
          · rw [e'] at e; cases e⟩)) (fun x y sA1 sB1 ⟨⟨hy, hs1⟩, ⟨hl1, hl1'⟩, hpad1⟩ => ?_)
      have h1 := hs1.srw h
      have epc1 : sA1.pc = sA.pc := by obtain ⟨rA, c', _, e1, _⟩ := hs1; rw [e1]
      have hst1 : StableL b 0 sA1 := by
        obtain ⟨rA, c', _, e1, _⟩ := hs1; rw [e1]; exact hstab.st.congr_r rA
      have hk1 : K sA1 := by
        obtain ⟨rA, c', _, e1, _⟩ := hs1; rw [e1]; exact hk.congr_r rA
      rw [hy]
      simp only
      by_cases hok : (!x.2.2) = true
      · rw [if_pos hok, if_pos hok]; exact P2.pure h1.n
      rw [if_neg hok, if_neg hok]
      refine P2.bind (P := fun u v sA' sB' => u = sA1.r.position ∧ v = (u.1 + F.dl, moveSeg F.d u.2) ∧ sA' = sA1 ∧ sB' = sB1)
        ?_ (fun u v sA2 sB2 ⟨hu, hv, e1, e2⟩ => ?_)
      · unfold GM.Blocks.position
        refine P2.ok ⟨rfl, ?_, rfl, rfl⟩
        rw [h1.r]; rfl
      rw [hv, e1, e2]
      simp only
      refine P2.bind (P := fun u' v' sA' sB' => u' = sA1.pc ∧ v'.opened = u'.opened.map (shB F) ∧ sA' = sA1 ∧ sB' = sB1)
        (by unfold getPc; exact P2.ok ⟨rfl, h1.c.opened, rfl, rfl⟩) (fun pcA pcB sA3 sB3 ⟨hpa, hpb, e1, e2⟩ => ?_)
      rw [hpb, List.length_map, e1, e2]
      have hlen0 : pcA.opened.length = 0 := by rw [hpa, epc1, hop]; rfl
      rw [hlen0]
      have hlineNum : u.1 = sA1.r.line := by rw [hu]; rfl
      obtain ⟨stale, hsb, hstale, hfirst, hsane⟩ := hbi
      have key : ∃ sa' sb', (if (x.2.1 != 0) = true then blankStats u.1 x.2.1 0 else sa) = sa' ∧
          (if (x.2.1 != 0) = true then blankStats (u.1 + F.dl) x.2.1 0 else sb) = sb' ∧ StatsRel F sa' sb' ∧
          isBlankLine (u.1 + F.dl - 1) 0 sb' = isBlankLine (u.1 - 1) 0 sa' := by
        by_cases hz : (x.2.1 != 0) = true
        · rw [if_pos hz, if_pos hz]
          refine ⟨_, _, rfl, rfl, ?_, ?_⟩
          · simp only [blankStats]; exact StatsRel.map F []
          · simp only [blankStats]
            rw [isBlankLine_nil _ _ (Int.le_refl 0), isBlankLine_nil _ _ (Int.le_refl 0)]
        · rw [if_neg hz, if_neg hz]
          have hz0 : x.2.1 = 0 := by simpa using hz
          have hsame := hl1' hz0
          refine ⟨_, _, rfl, rfl, ⟨stale, hsb, hstale⟩, ?_⟩
          by_cases hsa : sa = []
          · subst hsa
            rw [isBlankLine_nil _ _ (Int.le_refl 0)]
            simp only [List.map_nil, List.append_nil] at hsb
            rw [hsb]
            rcases hfirst rfl with hs | ⟨hl0, hs⟩
            · rw [hs]; exact isBlankLine_nil _ _ (Int.le_refl 0)
            · have : u.1 + F.dl - 1 = F.dl - 1 := by rw [hlineNum, hsame, hl0]; omega
              rw [this]; exact hs
          · have h1le := hsane hsa
            have e : u.1 + F.dl - 1 = (u.1 - 1) + F.dl := by omega
            rw [e]
            refine isBlankLine_shift ⟨stale, hsb, hstale⟩ (u.1 - 1) 0 (by rw [hlineNum, hsame]; omega) ?_
            have : 0 < sa.length := List.length_pos_iff.mpr hsa
            omega
      obtain ⟨sa', sb', e1, e2, hst', hblank⟩ := key
      rw [e1, e2, hblank]
      obtain ⟨c1, hri1⟩ := h1.ri
      have hop1 : sA1.pc.opened = [] := by rw [epc1]; exact hop
      have hlast1 : ∀ x, sA1.pc.opened.getLast? = some x →
          (sA1.nodes.getD x.node default).kind = .paragraph → x.bp ≠ .listItem := by
        intro x hx; rw [hop1] at hx; cases hx
      refine P2.bind ((hO 0 (isBlankLine (u.1 - 1) 0 sa') sA1 sB1 h1 hk1 hk1.doc.1 hlast1).withL
        (R := fun _ sA' => StableL b 0 sA')
        (fun a sA' e => by
          have hcl : Call sA1.pc.opened [] := ⟨⟨sA1.pc.opened, by simp, fun _ bb hb => by rw [hop1] at hb; cases hb⟩⟩
          have hkroot : (nd sA1 0).kind ≠ .list := by rw [hst1.ls.rootKind]; decide
          have hobk := openBlocksL (lsp_all b) [] 0 (isBlankLine (u.1 - 1) 0 sa') sA1 c1 hri1 (hpad1 c1 hri1) hst1 hcl rfl
            (fun hk => absurd hk hkroot)
          obtain ⟨c2, new2, hria2, _, hw2, hleafy2, _, _, hend2, _⟩ := okl_ok hobk e
          have hop2 : sA'.pc.opened = new2 := by
            rcases hw2.shape with e' | ⟨hh, _, _⟩
            · rw [e', hop1]; rfl
            · exact absurd hop1 hh
          exact ⟨hw2.nodes, hw2.keys, hw2.blocks, by rw [hop2]; exact hleafy2, hw2.ls, by rw [hop2]; simpa using hw2.chain,
            by rw [hop2]; simpa using hend2⟩))
        (fun r r' sA4 sB4 ⟨⟨hr, hlim4, hk4, hline4, hne4⟩, hst4⟩ => ?_)
      rw [hr]
      by_cases hnew : (r != OpenResult.newBlocksOpened) = true
      · rw [if_pos hnew, if_pos hnew]; exact P2.pure hlim4.1.n
      rw [if_neg hnew, if_neg hnew]
      have hrnew : r = OpenResult.newBlocksOpened := by simpa using hnew
      refine P2.bind ((advanceLine_limbo' hlim4).withL (R := fun _ sA' => sA' = { sA4 with r := sA4.r.advanceLine })
        (fun a sA' e => by unfold GM.Blocks.advanceLine at e; cases e; rfl))
        (fun _ _ sA5 sB5 ⟨⟨h5, hpc5, hl5⟩, he5⟩ => ?_)
      have hk5 : K sA5 := by rw [he5]; exact hk4.congr_r _
      have hline5 : 1 ≤ sA5.r.line := by omega
      have hstab5 : AStable b sA5 := by
        rw [he5]
        exact ⟨hst4.congr_r _, padOK_of_zero (advanceLine_pad _ (limbo_stop hlim4.2))⟩
      refine P2.bind (linesLoop_L hP hC hO fuelA fuelB sa' sb' sA5 sB5 h5 hk5 hst' hline5 hstab5)
        (fun w z sA6 sB6 ⟨hz, hst6, hlim6, hk6, hline6, hfin6⟩ => ?_)
      have hzz : z = (w.1, z.2) := by rw [← hz]
      rw [hzz]
      simp only
      by_cases hret : w.1 = true
      · rw [if_pos hret, if_pos hret]; exact P2.pure hlim6.1.n
      rw [if_neg hret, if_neg hret]
      have hwf : w.1 = false := by simpa using hret
      obtain ⟨h6, hop6, hstab6, hne6⟩ := hfin6 hwf
      have hw2 : w.2 ≠ [] := hne6 (.inr (by rw [hpc5]; exact hne4 hrnew))
      obtain ⟨stale6, hsb6, hstale6⟩ := hst6
      exact ih fuelB w.2 z.2 sA6 sB6 h6.w hk6 hop6 (by omega)
        ⟨stale6, hsb6, hstale6, fun e => absurd e hw2, fun _ => hline6⟩ hstab6

/-! ### whole runs -/

/-- **Shift invariance of the block phase, all block parsers** (lists included): for every source `b` and every frame
    whose start state also resets the flag `emptyListItemWithBlankLines`, run B from the start state behind the prefix
    builds the store of `run b` moved by the frame. -/
theorem shift_invariance_all (F : Frame) (hF : F.OK) (hfl : F.flag = true) (b : Bytes)
    {sB : St} {statsB : List LineStat} (hS : Start F b sB statsB) (fuelB : Nat) (sB' : St)
    (hB : blocksLoop 0 fuelB statsB sB = .ok ((), sB')) :
    ∃ sA', run b = .ok sA' ∧ StoreRel F sA'.nodes sB'.nodes := by
  obtain ⟨sA', hA, _⟩ := run_ok_all b
  refine ⟨sA', hA, ?_⟩
  rw [run_eq_blocksLoop] at hA
  cases hrun : blocksLoop 0 (linesFuel b) [] (initSt b) with
  | error e => rw [hrun] at hA; cases hA
  | ok v =>
    rw [hrun] at hA
    obtain ⟨u, s⟩ := v
    simp only [Except.map, Except.ok.injEq] at hA
    subst hA
    have hline0 : (initSt b).r.line = 0 := by
      simp [initSt, Reader.new, Reader.advanceLine]
    have hbi : BInv F [] statsB (initSt b).r.line := by
      refine ⟨statsB, by simp, hS.stale, fun _ => ?_, fun h => absurd rfl h⟩
      rcases hS.first with h | h
      · exact .inl h
      · exact .inr ⟨hline0, h⟩
    have hpad0 : (initSt b).r.pos.padding = 0 := by
      simp [initSt, Reader.new, Reader.advanceLine]
    have hstab : AStable b (initSt b) := ⟨stable_init b, padOK_of_zero hpad0⟩
    have hP := psimL_all F hF hfl b
    have hC := closeBlocks_L hP
    have hO := openBlocks_L hP hF (tryParsers_L hP hF)
    have := blocksLoop_L hP hC hO (linesFuel b) fuelB [] statsB (initSt b) sB
      (start_srw hS) (a2_K_init b) rfl (by rw [hline0]; exact Int.le_refl _) hbi hstab
    rw [ι_zero] at this
    exact this u s () sB' hrun hB

end GM.Blocks.Sh
