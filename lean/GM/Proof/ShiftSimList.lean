/-
  GM.Proof.ShiftSimList — the list parser (parser/list.go) and the list item parser (parser/list_item.go) under the
  shift simulation.
-/
import GM.Proof.ShiftSimWDefs
import GM.Proof.ShiftSimLeafA
import GM.Proof.ShiftSimEof

namespace GM.Blocks.Sh
open GM GM.Text GM.Spec GM.Proof.Reader GM.Blocks

/-! ### children lists -/

theorem li_sim_kidsB_getLast (F : Frame) (root : Bool) (ch : List Nat) (h : ch ≠ [] ∨ root = false) :
    (kidsB F root ch).getLast? = ch.getLast?.map F.ι := by
  unfold kidsB
  rcases h with h | h
  · rw [List.getLast?_append, List.getLast?_map]
    cases hch : ch.getLast? with
    | none => exact absurd (List.getLast?_eq_none_iff.mp hch) h
    | some c => rfl
  · subst h; simp [List.getLast?_map]

theorem li_sim_getNode_inv {id : Nat} {s s' : St} {n : Node} (h : getNode id s = .ok (n, s')) :
    n = s.nodes.getD id default ∧ s' = s := by
  unfold getNode at h
  cases h; exact ⟨rfl, rfl⟩

theorem li_sim_lastOffset_st {node : Nat} {s s' : St} {a : Int} (h : lastOffset node s = .ok (a, s')) : s' = s := by
  unfold lastOffset at h
  obtain ⟨n, s1, e1, h⟩ := bind_ok_inv h
  obtain ⟨_, e1⟩ := li_sim_getNode_inv e1
  rw [e1] at h
  cases hl : n.children.getLast? with
  | none => rw [hl] at h; cases h; rfl
  | some lc =>
    rw [hl] at h
    obtain ⟨c, s2, e2, h⟩ := bind_ok_inv h
    obtain ⟨_, e2⟩ := li_sim_getNode_inv e2
    rw [e2] at h
    by_cases hk : (c.kind != .listItem) = true
    · rw [if_pos hk] at h
      cases h
    · rw [if_neg hk] at h
      cases h; rfl

theorem li_sim_lastOffset {F b rA rB sA sB} (h : SRL F b rA rB sA sB) (node : Nat) :
    P2 (fun x y sA' sB' => ((sA.nodes.getD node default).children ≠ [] ∨ node ≠ 0 → y = x) ∧ sA' = sA ∧ sB' = sB)
      (lastOffset node sA) (lastOffset (F.ι node) sB) := by
  intro x sA' y sB' eA eB
  refine ⟨fun hne => ?_, li_sim_lastOffset_st eA, li_sim_lastOffset_st eB⟩
  have hne' : (sA.nodes.getD node default).children ≠ [] ∨ (node == 0) = false := by
    rcases hne with h1 | h1
    · exact .inl h1
    · exact .inr (beq_eq_false_iff_ne.mpr h1)
  have key : P2 (fun x y _ _ => y = x) (lastOffset node sA) (lastOffset (F.ι node) sB) := by
    unfold lastOffset
    refine P2.bind (getNode_l h node) (fun n m sA1 sB1 ⟨hn, hm, e1, e2⟩ => ?_)
    rw [e1, e2, hm, shN_children, li_sim_kidsB_getLast F _ _ (by rw [hn]; exact hne')]
    cases hl : n.children.getLast? with
    | none => exact P2.pure rfl
    | some lc =>
      simp only [Option.map_some]
      refine P2.bind (getNode_l h lc) (fun c d sA2 sB2 ⟨hc, hd, e3, e4⟩ => ?_)
      rw [e3, e4, hd, shN_kind]
      by_cases hk : (c.kind != .listItem) = true
      · rw [if_pos hk, if_pos hk]
        exact P2.bind (P := fun _ _ _ _ => False) P2.throwL (fun _ _ _ _ hh => hh.elim)
      · rw [if_neg hk, if_neg hk]; exact P2.ok rfl
  exact key x sA' y sB' eA eB

/-- the last child of `node` is not the Document (B's Document has `kids0` in front of its children) -/
def li_sim_LastNot0 (s : St) (node : Nat) : Prop := (s.nodes.getD node default).children.getLast? ≠ some 0

theorem li_sim_lastChildCount {F b rA rB sA sB} (h : SRL F b rA rB sA sB) (node : Nat) (h0 : li_sim_LastNot0 sA node) :
    P2 (fun x y sA' sB' => y = x ∧ sA' = sA ∧ sB' = sB ∧ (sA.nodes.getD node default).children ≠ [])
      (lastChildCount node sA) (lastChildCount (F.ι node) sB) := by
  unfold lastChildCount
  refine P2.bind (getNode_l h node) (fun n m sA1 sB1 ⟨hn, hm, e1, e2⟩ => ?_)
  rw [e1, e2, hm, shN_children]
  cases hl : n.children.getLast? with
  | none => exact P2.throwL
  | some lc =>
    have hne : n.children ≠ [] := by
      intro e; rw [e] at hl; cases hl
    have hlc : (lc == 0) = false := by
      apply beq_eq_false_iff_ne.mpr
      intro e; subst e; rw [hn] at hl; exact h0 hl
    rw [li_sim_kidsB_getLast F _ _ (.inl hne), hl]
    simp only [Option.map_some]
    refine P2.bind (getNode_l h lc) (fun c d sA2 sB2 ⟨hc, hd, e3, e4⟩ => ?_)
    rw [e3, e4, hd, shN_children, hlc]
    refine P2.pure ⟨?_, rfl, rfl, by rw [← hn]; exact hne⟩
    simp [kidsB]

/-- when `lastOffset` ends normally, the last child (if any) is a list item -/
theorem li_sim_lastOffset_kind {node : Nat} {s s' : St} {a : Int} (h : lastOffset node s = .ok (a, s')) :
    ∀ lc, (s.nodes.getD node default).children.getLast? = some lc → (s.nodes.getD lc default).kind = .listItem := by
  intro lc hl
  unfold lastOffset at h
  obtain ⟨n, s1, e1, h⟩ := bind_ok_inv h
  obtain ⟨en, e1⟩ := li_sim_getNode_inv e1
  rw [e1, en, hl] at h
  obtain ⟨c, s2, e2, h⟩ := bind_ok_inv h
  obtain ⟨ec, e2⟩ := li_sim_getNode_inv e2
  rw [e2] at h
  by_cases hk : (c.kind != .listItem) = true
  · rw [if_pos hk] at h
    cases h
  · rw [← ec]
    simpa using hk

theorem li_sim_lastNot0_of_lastOffset {F : Frame} {nB : List Node} {node : Nat} {s s' : St} {a : Int}
    (hs : StoreRel F s.nodes nB) (h : lastOffset node s = .ok (a, s')) : li_sim_LastNot0 s node := by
  intro hl
  have := li_sim_lastOffset_kind h 0 hl
  rw [hs.doc] at this
  cases this

/-- `rw [if_pos h]` on both sides (the two sides may be the same term) -/
local macro "ifp " h:ident : tactic => `(tactic| (rw [if_pos $h]; try rw [if_pos $h]))
local macro "ifn " h:ident : tactic => `(tactic| (rw [if_neg $h]; try rw [if_neg $h]))

/-! ### list.go: Open -/

theorem li_sim_ctx_skipList {F : Frame} {x y : Ctx} (v : Bool) (h : CtxRel F x y) :
    CtxRel F { x with skipList := v } { y with skipList := v } :=
  ⟨⟨h.opened, h.tmpPara, h.fence, rfl, h.emptyItemBlank⟩, h.blockOffset, h.blockIndent⟩

theorem li_sim_ctx_flag {F : Frame} {x y : Ctx} (v : Bool) (h : CtxRel F x y) :
    CtxRel F { x with emptyItemBlank := v } { y with emptyItemBlank := v } :=
  ⟨⟨h.opened, h.tmpPara, h.fence, h.skipList, fun _ => rfl⟩, h.blockOffset, h.blockIndent⟩

/-- the post-condition of `OpenSim` for the list parsers -/
def li_sim_OpenQ (F : Frame) (b : Bytes) (x y : Option Nat × PState) (sA' sB' : St) : Prop :=
  y = (x.1.map F.ι, x.2) ∧ SRLim F b sA' sB' ∧ ((x.2.hasChildren = true ∨ x.1 = none) → SR F b sA' sB') ∧
    (x.1.isSome = true → sB'.pc.emptyItemBlank = sA'.pc.emptyItemBlank)

theorem li_sim_OpenQ_none {F : Frame} {b : Bytes} {sA sB : St} (h : SR F b sA sB) :
    P2 (li_sim_OpenQ F b) ((pure (none, stNoChildren) : M (Option Nat × PState)) sA)
      ((pure (none, stNoChildren) : M (Option Nat × PState)) sB) :=
  P2.pure ⟨rfl, h.limbo, fun _ => h, fun hh => by simp at hh⟩

def li_sim_openFin (line : Bytes) (m : M6) (start : Int) : M (Option Nat × PState) := do
  let marker ← liftE (idx line (m.r3 - 1))
  let node ← newNode { kind := .list, marker := marker, start := if start > -1 then start else 0 }
  modPc fun pc => { pc with emptyItemBlank := false }
  return (some node, stHasChildren)

def li_sim_openMid (parent : Nat) (lastNode : Option Node) (line : Bytes) (m : M6) (typ : ListTyp) (start : Int) :
    M (Option Nat × PState) := do
  let lastIsParaOfParent := match lastNode with
    | some n => n.kind == Kind.paragraph && n.parent == some parent
    | none => false
  if lastIsParaOfParent then
    if typ == ListTyp.ordered && start != 1 then return (none, stNoChildren)
    if m.r4 < 0 then return (none, stNoChildren)
    if isBlank (← liftE (slice line m.r4 m.r5)) then return (none, stNoChildren)
  li_sim_openFin line m start

def li_sim_openTail (parent : Nat) (lastNode : Option Node) : M (Option Nat × PState) := do
  let lok := match lastNode with | some n => n.kind == .list | none => false
  if lok || (← getPc).skipList then
    modPc fun pc => { pc with skipList := false }
    return (none, stNoChildren)
  let (line, _) ← peekLine
  let line := line.getD []
  let (m, typ) := matchesListItem line true
  if typ == .notList then return (none, stNoChildren)
  if typ == .ordered then
    let number ← liftE (slice line m.r2 (m.r3 - 1))
    li_sim_openMid parent lastNode line m typ (atoiDigits number)
  else li_sim_openMid parent lastNode line m typ (-1)

theorem li_sim_listOpen_eq (parent : Nat) : listOpen parent = (do
    let last ← lastOpenedBlock
    match last with
    | some lb => do
      let n ← getNode lb.node
      li_sim_openTail parent (some n)
    | none => li_sim_openTail parent none) := by
  unfold listOpen
  rfl

theorem li_sim_modPc_flag {F : Frame} {b : Bytes} {sA sB : St} (h : SR F b sA sB) (v : Bool) :
    P2 (fun _ _ sA' sB' => SR F b sA' sB' ∧ sA'.pc.emptyItemBlank = v ∧ sB'.pc.emptyItemBlank = v)
      (modPc (fun pc => { pc with emptyItemBlank := v }) sA) (modPc (fun pc => { pc with emptyItemBlank := v }) sB) := by
  unfold modPc
  exact P2.ok ⟨⟨h.ri, h.r, h.n, li_sim_ctx_flag v h.c⟩, rfl, rfl⟩

theorem li_sim_openFin_p2 {F : Frame} {b : Bytes} {sA sB : St} (h : SR F b sA sB) (line : Bytes) (m : M6) (start : Int) :
    P2 (li_sim_OpenQ F b) (li_sim_openFin line m start sA) (li_sim_openFin line m start sB) := by
  unfold li_sim_openFin
  refine P2.bind (P := fun s t sA' sB' => t = s ∧ sA' = sA ∧ sB' = sB)
    (P2.liftE_same (fun a _ => ⟨rfl, rfl, rfl⟩)) (fun mk mk' sA1 sB1 ⟨ht, e1, e2⟩ => ?_)
  rw [ht, e1, e2]
  refine P2.bind (newNode_p2 h _ _ (by simp [shN, shClosure])) (fun n n' sA2 sB2 ⟨_, hn', _, h2⟩ => ?_)
  rw [hn']
  refine P2.bind (li_sim_modPc_flag h2 false) (fun _ _ sA3 sB3 ⟨h3, f1, f2⟩ => ?_)
  exact P2.pure ⟨rfl, h3.limbo, fun _ => h3, fun _ => by rw [f1, f2]⟩

theorem li_sim_openMid_p2 {F : Frame} {b : Bytes} {sA sB : St} (h : SR F b sA sB) (parent : Nat) (lastNode : Option Node)
    (r : Bool) (line : Bytes) (m : M6) (typ : ListTyp) (start : Int) :
    P2 (li_sim_OpenQ F b) (li_sim_openMid parent lastNode line m typ start sA)
      (li_sim_openMid (F.ι parent) (lastNode.map (shN F r)) line m typ start sB) := by
  unfold li_sim_openMid
  have e : (match lastNode.map (shN F r) with
      | some n => n.kind == Kind.paragraph && n.parent == some (F.ι parent)
      | none => false) = (match lastNode with
      | some n => n.kind == Kind.paragraph && n.parent == some parent
      | none => false) := by
    cases lastNode with
    | none => rfl
    | some n => simp only [Option.map_some, shN_kind, shN_parent, map_ι_beq]
  simp only [e]
  generalize (match lastNode with
      | some n => n.kind == Kind.paragraph && n.parent == some parent
      | none => false) = lp
  by_cases h1 : lp = true
  · ifp h1
    by_cases h2 : (typ == ListTyp.ordered && start != 1) = true
    · ifp h2; exact li_sim_OpenQ_none h
    · ifn h2
      by_cases h3 : m.r4 < 0
      · ifp h3; exact li_sim_OpenQ_none h
      · ifn h3
        refine P2.bind (P := fun s t sA' sB' => t = s ∧ sA' = sA ∧ sB' = sB)
          (P2.liftE_same (fun a _ => ⟨rfl, rfl, rfl⟩)) (fun l l' sA1 sB1 ⟨ht, e1, e2⟩ => ?_)
        rw [ht, e1, e2]
        by_cases h4 : isBlank l = true
        · ifp h4; exact li_sim_OpenQ_none h
        · ifn h4; exact li_sim_openFin_p2 h line m start
  · ifn h1
    exact li_sim_openFin_p2 h line m start

theorem li_sim_openTail_p2 {F : Frame} {b : Bytes} {sA sB : St} (h : SR F b sA sB) (parent : Nat) (lastNode : Option Node)
    (r : Bool) :
    P2 (li_sim_OpenQ F b) (li_sim_openTail parent lastNode sA)
      (li_sim_openTail (F.ι parent) (lastNode.map (shN F r)) sB) := by
  unfold li_sim_openTail
  have e : (match lastNode.map (shN F r) with
      | some n => n.kind == Kind.list
      | none => false) = (match lastNode with
      | some n => n.kind == Kind.list
      | none => false) := by
    cases lastNode with
    | none => rfl
    | some n => rfl
  simp only [e]
  generalize (match lastNode with
      | some n => n.kind == Kind.list
      | none => false) = lok
  refine P2.bind (getPc_p2 h) (fun x y sA1 sB1 ⟨hx, hy, hxy, e1, e2⟩ => ?_)
  rw [e1, e2, hxy.skipList]
  by_cases h1 : (lok || x.skipList) = true
  · ifp h1
    refine P2.bind (modPc_p2 h _ _ (fun x y hxy => li_sim_ctx_skipList false hxy)) (fun _ _ sA3 sB3 h3 => ?_)
    exact li_sim_OpenQ_none h3
  · ifn h1
    refine P2.bind (peekLine_p2 h) (fun x y sA1 sB1 ⟨⟨c, hc, hx⟩, hy, h1⟩ => ?_)
    rw [hy, hx]
    simp only
    generalize (RCur.view b c).getD [] = line
    generalize matchesListItem line true = mt
    by_cases h2 : (mt.2 == ListTyp.notList) = true
    · ifp h2; exact li_sim_OpenQ_none h1
    · ifn h2
      by_cases h3 : (mt.2 == ListTyp.ordered) = true
      · ifp h3
        refine P2.bind (P := fun s t sA' sB' => t = s ∧ sA' = sA1 ∧ sB' = sB1)
          (P2.liftE_same (fun a _ => ⟨rfl, rfl, rfl⟩)) (fun l l' sA2 sB2 ⟨ht, e1, e2⟩ => ?_)
        rw [ht, e1, e2]
        exact li_sim_openMid_p2 h1 parent lastNode r line mt.1 mt.2 _
      · ifn h3
        exact li_sim_openMid_p2 h1 parent lastNode r line mt.1 mt.2 _

theorem listOpen_sim (F : Frame) (b : Bytes) : OpenSim F b .list := by
  intro parent sA sB h _
  show P2 _ (listOpen parent sA) (listOpen (F.ι parent) sB)
  rw [li_sim_listOpen_eq, li_sim_listOpen_eq]
  refine P2.mono (P := li_sim_OpenQ F b) ?_ (fun x y sA' sB' ⟨q1, q2, q3, q4⟩ => ⟨q1, q2, q3, fun _ => q4⟩)
  refine P2.bind (lastOpenedBlock_p2 h) (fun x y sA1 sB1 ⟨hx, hy, e1, e2⟩ => ?_)
  rw [e1, e2, hy]
  cases x with
  | none => exact li_sim_openTail_p2 h parent none false
  | some lb =>
    simp only [Option.map_some]
    refine P2.bind (getNode_p2 h lb.node) (fun n m sA2 sB2 ⟨hn, hm, e3, e4⟩ => ?_)
    rw [e3, e4, hm]
    exact li_sim_openTail_p2 h parent (some n) _

/-! ### list.go: Close -/

theorem li_sim_node_ne0 {F : Frame} {nA nB : List Node} (h : StoreRel F nA nB) {c : Nat} (hc : c ≠ 0) :
    nB.getD (F.ι c) default = shN F false (nA.getD c default) := by
  rw [h.node c, beq_eq_false_iff_ne.mpr hc]

theorem li_sim_kidsB_false (F : Frame) (ch : List Nat) : kidsB F false ch = ch.map F.ι := by
  simp [kidsB]

theorem li_sim_itemLoose {F : Frame} {nA nB : List Node} (h : StoreRel F nA nB) (first : Bool) (c : Nat) (hc : c ≠ 0) :
    itemLoose nB first (F.ι c) = itemLoose nA first c := by
  unfold itemLoose
  rw [li_sim_node_ne0 h hc]
  simp only [shN_children, li_sim_kidsB_false, shN_blankPrev, ← List.map_drop, List.any_map]
  congr 2
  funext c1
  show (nB.getD (F.ι c1) default).blankPrev = _
  rw [h.node c1]; rfl

theorem li_sim_listTight {F : Frame} {nA nB : List Node} (h : StoreRel F nA nB) :
    ∀ (cs : List Nat) (tight first : Bool), (∀ c ∈ cs, c ≠ 0) →
      listTight nB tight (cs.map F.ι) first = listTight nA tight cs first := by
  intro cs
  induction cs with
  | nil => intro tight first _; rfl
  | cons c cs ih =>
    intro tight first h0
    simp only [List.map_cons, listTight]
    rw [li_sim_itemLoose h first c (h0 c List.mem_cons_self), ih _ _ (fun x hx => h0 x (List.mem_cons_of_mem _ hx))]

theorem li_sim_tightenItem {F : Frame} {b : Bytes} {rA rB : Reader} (hF : F.OK) (child : Nat) :
    ∀ (gcs : List Nat) (sA sB : St), SRL F b rA rB sA sB →
      P2 (fun _ _ sA' sB' => SRL F b rA rB sA' sB') (tightenItem child gcs sA) (tightenItem (F.ι child) (gcs.map F.ι) sB) := by
  intro gcs
  induction gcs with
  | nil => intro sA sB h; exact P2.pure h
  | cons gc gcs ih =>
    intro sA sB h
    simp only [List.map_cons, tightenItem]
    refine P2.bind (getNode_l h gc) (fun g g' sA1 sB1 ⟨hg, hg', e1, e2⟩ => ?_)
    rw [e1, e2, hg', shN_kind]
    by_cases hk : (g.kind == Kind.paragraph) = true
    · ifp hk
      refine P2.bind (newNode_l h { kind := .textBlock, lines := g.lines, linesNil := g.linesNil } _
        (by simp [shN, shClosure])) (fun n n' sA2 sB2 ⟨_, hn', _, h2⟩ => ?_)
      rw [hn']
      refine P2.bind (replaceChild_l hF h2 child gc n) (fun _ _ sA3 sB3 h3 => ih sA3 sB3 h3)
    · ifn hk
      exact ih sA sB h

theorem li_sim_tightenItems {F : Frame} {b : Bytes} {rA rB : Reader} (hF : F.OK) :
    ∀ (cs : List Nat) (sA sB : St), (∀ c ∈ cs, c ≠ 0) → SRL F b rA rB sA sB →
      P2 (fun _ _ sA' sB' => SRL F b rA rB sA' sB') (tightenItems cs sA) (tightenItems (cs.map F.ι) sB) := by
  intro cs
  induction cs with
  | nil => intro sA sB _ h; exact P2.pure h
  | cons c cs ih =>
    intro sA sB h0 h
    simp only [List.map_cons, tightenItems]
    refine P2.bind (getNode_l h c) (fun g g' sA1 sB1 ⟨hg, hg', e1, e2⟩ => ?_)
    rw [e1, e2, hg', shN_children, beq_eq_false_iff_ne.mpr (h0 c List.mem_cons_self), li_sim_kidsB_false]
    refine P2.bind (li_sim_tightenItem hF c g.children sA sB h) (fun _ _ sA2 sB2 h2 => ?_)
    exact ih sA2 sB2 (fun x hx => h0 x (List.mem_cons_of_mem _ hx)) h2

/-- `listParser.Close` for a list node that is not the Document and whose items are not the Document (in a real run no
    node has the Document as a child; the relation `StoreRel` alone does not say so, and B's Document has the extra
    children `kids0`) -/
theorem listClose_simN (F : Frame) (hF : F.OK) (b : Bytes) : ∀ node rA rB sA sB, node ≠ 0 →
    (∀ c ∈ (sA.nodes.getD node default).children, c ≠ 0) → SRL F b rA rB sA sB →
    P2 (fun _ _ sA' sB' => SRL F b rA rB sA' sB') (listClose node sA) (listClose (F.ι node) sB) := by
  intro node rA rB sA sB hnode h0 h
  unfold listClose
  refine P2.bind (getNode_l h node) (fun n m sA1 sB1 ⟨hn, hm, e1, e2⟩ => ?_)
  rw [e1, e2, hm]
  refine P2.bind (P := fun x y sA' sB' => x = sA ∧ y = sB ∧ sA' = sA ∧ sB' = sB) (P2.ok ⟨rfl, rfl, rfl, rfl⟩)
    (fun x y sA2 sB2 ⟨hx, hy, e3, e4⟩ => ?_)
  rw [hx, hy, e3, e4, shN_children, beq_eq_false_iff_ne.mpr hnode, li_sim_kidsB_false]
  have ht : (shN F false n).tight = n.tight := rfl
  rw [ht, li_sim_listTight h.n n.children n.tight true (by rw [hn]; exact h0)]
  refine P2.bind (modNode_l h node _ _ (fun a => ?_) (fun _ => rfl)) (fun _ _ sA3 sB3 h3 => ?_)
  · rw [beq_eq_false_iff_ne.mpr hnode]; simp [shN]
  by_cases hc : listTight sA.nodes n.tight n.children true = true
  · ifp hc
    exact li_sim_tightenItems hF n.children sA3 sB3 (by rw [hn]; exact h0) h3
  · ifn hc
    exact P2.pure h3

/-! ### list.go: Continue -/

def li_sim_contTail (marker : UInt8) (line : Bytes) (offset : Int) (lastIsEmpty : Bool) (lo : Int) : M PState := do
  let (indent, _) := indentWidthI line lo
  if indent < offset || lastIsEmpty then
    if indent < 4 then
      let (m, typ) := matchesListItem line false
      if typ != .notList && m.r1 - offset < 4 then
        let mk ← liftE (idx line (m.r3 - 1))
        if !(mk == marker && (typ == .ordered) == markerOrdered marker) then return stClose
        let tail ← liftE (sliceFrom line (m.r3 - 1))
        if isThematicBreak tail 0 then
          let mut isHeading := false
          let lastIsPara ← match ← lastOpenedBlock with
            | some lb => do pure ((← getNode lb.node).kind == .paragraph)
            | none => pure false
          if lastIsPara then
            let (c, ok) ← liftE (matchesSetextHeadingBar tail)
            if ok && c == 45 then isHeading := true
          if !isHeading then return stClose
        return stContinueHasChildren
    if !lastIsEmpty then return stClose
  if lastIsEmpty && indent < offset then return stClose
  if (← getPc).emptyItemBlank then return stClose
  return stContinueHasChildren

theorem li_sim_listContinue_eq (node : Nat) : listContinue node = (do
    let list ← getNode node
    let (line, _) ← peekLine
    let line := line.getD []
    if isBlank line then
      if (← lastChildCount node) == 0 then
        modPc fun pc => { pc with emptyItemBlank := true }
      return stContinueHasChildren
    let offset ← lastOffset node
    let cnt ← lastChildCount node
    let lo ← lineOffset
    li_sim_contTail list.marker line offset (cnt == 0) lo) := by
  unfold listContinue li_sim_contTail
  rfl

theorem li_sim_contTail_p2 {F : Frame} {b : Bytes} {sA sB : St} (hfl : F.flag = true) (h : SR F b sA sB) (marker : UInt8)
    (line : Bytes) (offset : Int) (le : Bool) (lo : Int) :
    P2 (fun x y sA' sB' => y = x ∧ sA' = sA ∧ sB' = sB) (li_sim_contTail marker line offset le lo sA)
      (li_sim_contTail marker line offset le lo sB) := by
  unfold li_sim_contTail
  generalize indentWidthI line lo = iw
  obtain ⟨indent, _⟩ := iw
  simp only []
  have fin1 : P2 (fun x y sA' sB' => y = x ∧ sA' = sA ∧ sB' = sB)
      ((if (le && decide (indent < offset)) = true then pure stClose
        else do
          let pc ← getPc
          if pc.emptyItemBlank = true then pure stClose else pure stContinueHasChildren : M PState) sA)
      ((if (le && decide (indent < offset)) = true then pure stClose
        else do
          let pc ← getPc
          if pc.emptyItemBlank = true then pure stClose else pure stContinueHasChildren : M PState) sB) := by
    by_cases c : (le && decide (indent < offset)) = true
    · ifp c; exact P2.pure ⟨rfl, rfl, rfl⟩
    · ifn c
      refine P2.bind (getPc_p2 h) (fun x y sA1 sB1 ⟨hx, hy, hxy, e1, e2⟩ => ?_)
      rw [e1, e2, hxy.emptyItemBlank hfl]
      by_cases c2 : x.emptyItemBlank = true
      · ifp c2; exact P2.pure ⟨rfl, rfl, rfl⟩
      · ifn c2; exact P2.pure ⟨rfl, rfl, rfl⟩
  have fin2 : P2 (fun x y sA' sB' => y = x ∧ sA' = sA ∧ sB' = sB)
      ((if (!le) = true then pure stClose
        else if (le && decide (indent < offset)) = true then pure stClose
        else do
          let pc ← getPc
          if pc.emptyItemBlank = true then pure stClose else pure stContinueHasChildren : M PState) sA)
      ((if (!le) = true then pure stClose
        else if (le && decide (indent < offset)) = true then pure stClose
        else do
          let pc ← getPc
          if pc.emptyItemBlank = true then pure stClose else pure stContinueHasChildren : M PState) sB) := by
    by_cases c : (!le) = true
    · ifp c; exact P2.pure ⟨rfl, rfl, rfl⟩
    · ifn c; exact fin1
  have para : ∀ (lp : Bool) (tail : Bytes), P2 (fun x y sA' sB' => y = x ∧ sA' = sA ∧ sB' = sB)
      ((if lp = true then do
          let x ← liftE (matchesSetextHeadingBar tail)
          if (x.snd && x.fst == 45) = true then
            if (!true) = true then pure stClose else pure stContinueHasChildren
          else if (!false) = true then pure stClose else pure stContinueHasChildren
        else if (!false) = true then pure stClose else pure stContinueHasChildren : M PState) sA)
      ((if lp = true then do
          let x ← liftE (matchesSetextHeadingBar tail)
          if (x.snd && x.fst == 45) = true then
            if (!true) = true then pure stClose else pure stContinueHasChildren
          else if (!false) = true then pure stClose else pure stContinueHasChildren
        else if (!false) = true then pure stClose else pure stContinueHasChildren : M PState) sB) := by
    intro lp tail
    by_cases c : lp = true
    · ifp c
      refine P2.bind (P := fun s t sA' sB' => t = s ∧ sA' = sA ∧ sB' = sB)
        (P2.liftE_same (fun a _ => ⟨rfl, rfl, rfl⟩)) (fun l l' sA1 sB1 ⟨ht, e1, e2⟩ => ?_)
      rw [ht, e1, e2]
      by_cases c2 : (l.snd && l.fst == 45) = true
      · ifp c2; exact P2.ok ⟨rfl, rfl, rfl⟩
      · ifn c2; exact P2.ok ⟨rfl, rfl, rfl⟩
    · ifn c; exact P2.ok ⟨rfl, rfl, rfl⟩
  by_cases c1 : (decide (indent < offset) || le) = true
  · ifp c1
    by_cases c2 : indent < 4
    · ifp c2
      by_cases c3 : ((matchesListItem line false).snd != ListTyp.notList &&
          decide ((matchesListItem line false).fst.r1 - offset < 4)) = true
      · ifp c3
        refine P2.bind (P := fun s t sA' sB' => t = s ∧ sA' = sA ∧ sB' = sB)
          (P2.liftE_same (fun a _ => ⟨rfl, rfl, rfl⟩)) (fun mk mk' sA1 sB1 ⟨ht, e1, e2⟩ => ?_)
        rw [ht, e1, e2]
        by_cases c4 : (!(mk == marker && ((matchesListItem line false).snd == ListTyp.ordered) == markerOrdered marker)) = true
        · ifp c4; exact P2.pure ⟨rfl, rfl, rfl⟩
        · ifn c4
          refine P2.bind (P := fun s t sA' sB' => t = s ∧ sA' = sA ∧ sB' = sB)
            (P2.liftE_same (fun a _ => ⟨rfl, rfl, rfl⟩)) (fun tl tl' sA2 sB2 ⟨ht2, e3, e4⟩ => ?_)
          rw [ht2, e3, e4]
          by_cases c5 : isThematicBreak tl 0 = true
          · ifp c5
            refine P2.bind (lastOpenedBlock_p2 h) (fun x y sA3 sB3 ⟨hx, hy, e5, e6⟩ => ?_)
            rw [e5, e6, hy]
            cases x with
            | none =>
              simp only [Option.map_none]
              refine P2.bind (P := fun s t sA' sB' => t = s ∧ sA' = sA ∧ sB' = sB) (P2.pure ⟨rfl, rfl, rfl⟩)
                (fun lp lp' sA4 sB4 ⟨ht3, e7, e8⟩ => ?_)
              rw [ht3, e7, e8]
              exact para lp tl
            | some lb =>
              simp only [Option.map_some]
              refine P2.bind (getNode_p2 h lb.node) (fun n m sA4 sB4 ⟨hn, hm, e7, e8⟩ => ?_)
              rw [e7, e8, hm, shN_kind]
              refine P2.bind (P := fun s t sA' sB' => t = s ∧ sA' = sA ∧ sB' = sB) (P2.pure ⟨rfl, rfl, rfl⟩)
                (fun lp lp' sA4 sB4 ⟨ht3, e7, e8⟩ => ?_)
              rw [ht3, e7, e8]
              exact para lp tl
          · ifn c5; exact P2.pure ⟨rfl, rfl, rfl⟩
      · ifn c3; exact fin2
    · ifn c2; exact fin2
  · ifn c1; exact fin1

/-- `PeekLine` under `SR`, keeping the node store and the context -/
theorem li_sim_peekLine {F b sA sB} (h : SR F b sA sB) :
    P2 (fun x y sA' sB' => (∃ c, RI b sA'.r c ∧ x = (RCur.view b c, RCur.seg b c)) ∧ y = (x.1, moveSeg F.d x.2) ∧
        SR F b sA' sB' ∧ sA'.nodes = sA.nodes ∧ sA'.pc = sA.pc) (peekLine sA) (peekLine sB) :=
  (peekLine_core h.rd).mono fun _ _ _ _ ⟨h1, h2, h3⟩ => ⟨h1, h2, h3.sr h, by
    obtain ⟨rA, c, _, e1, _⟩ := h3; rw [e1], by
    obtain ⟨rA, c, _, e1, _⟩ := h3; rw [e1]⟩

/-- `listParser.Continue` on a line. Added hypothesis: the last child of the list node is not the Document (used on
    blank lines only, where `lastChildCount` is called before anything checked the kind of the last child). -/
theorem listContinue_simW' (F : Frame) (hfl : F.flag = true) (b : Bytes) : ∀ node sA sB, SR F b sA sB →
    li_sim_LastNot0 sA node →
    P2 (fun x y sA' sB' => y = x ∧ SRLim F b sA' sB' ∧ ((x.cont = true ∧ x.hasChildren = false) ∨ SR F b sA' sB'))
      (listContinue node sA) (listContinue (F.ι node) sB) := by
  intro node sA sB h h0
  rw [li_sim_listContinue_eq, li_sim_listContinue_eq]
  refine P2.bind (getNode_p2 h node) (fun n m sA0 sB0 ⟨hn, hm, e1, e2⟩ => ?_)
  rw [e1, e2, hm]
  refine P2.bind (li_sim_peekLine h) (fun x y sA1 sB1 ⟨⟨c, hc, hx⟩, hy, h1, hnodes, _⟩ => ?_)
  rw [hy, hx]
  simp only []
  have h0' : li_sim_LastNot0 sA1 node := by unfold li_sim_LastNot0; rw [hnodes]; exact h0
  generalize (RCur.view b c).getD [] = line
  by_cases hb : isBlank line = true
  · ifp hb
    refine P2.bind (li_sim_lastChildCount h1.l node h0') (fun cnt cnt' sA2 sB2 ⟨hy, e1, e2, _⟩ => ?_)
    rw [hy, e1, e2]
    by_cases c1 : (cnt == 0) = true
    · ifp c1
      refine P2.bind (modPc_p2 h1 _ _ (fun x y hxy => li_sim_ctx_flag true hxy)) (fun _ _ sA3 sB3 h3 => ?_)
      exact P2.pure ⟨rfl, h3.limbo, .inr h3⟩
    · ifn c1
      exact P2.pure ⟨rfl, h1.limbo, .inr h1⟩
  · ifn hb
    refine P2.bind (li_sim_lastOffset h1.l node) (fun off off' sA2 sB2 ⟨hoff, e1, e2⟩ => ?_)
    rw [e1, e2]
    refine P2.bind (li_sim_lastChildCount h1.l node h0') (fun cnt cnt' sA3 sB3 ⟨hc, e3, e4, hne⟩ => ?_)
    rw [hc, e3, e4, hoff (.inl hne)]
    refine P2.bind (lineOffset_p2 h1) (fun lo lo' sA4 sB4 ⟨hlo, _, h4⟩ => ?_)
    rw [hlo]
    have hmk : (shN F (node == 0) n).marker = n.marker := rfl
    rw [hmk]
    exact (li_sim_contTail_p2 hfl h4 n.marker line off (cnt == 0) lo).mono
      (fun x y sA' sB' ⟨q1, q2, q3⟩ => ⟨q1, by rw [q2, q3]; exact h4.limbo, .inr (by rw [q2, q3]; exact h4)⟩)

/-! ### `Continue` at the end of the source -/

/-- (with the hypothesis of `listContinue_simW'`) -/
theorem listContinue_eof' (F : Frame) (hfl : F.flag = true) (b : Bytes) : ∀ node sA sB, SR F b sA sB →
    li_sim_LastNot0 sA node →
    P2 (fun x y sA' sB' => y = x ∧ SRLim F b sA' sB') (listContinue node sA) (listContinue (F.ι node) sB) :=
  fun node sA sB h h0 => (listContinue_simW' F hfl b node sA sB h h0).mono fun _ _ _ _ ⟨q1, q2, _⟩ => ⟨q1, q2⟩

theorem listItemContinue_eof (F : Frame) (b : Bytes) : ContinueEofSim F b .listItem := by
  intro node sA sB h ⟨c, hc, hp⟩
  show P2 _ (listItemContinue node sA) (listItemContinue (F.ι node) sB)
  unfold listItemContinue
  refine P2.bind (eof_peekLine_p2c h hc) (fun x y sA1 sB1 ⟨hx, hy, _, h1⟩ => ?_)
  rw [hy, hx]
  simp only []
  have hbl : isBlank ((RCur.view b c).getD []) = true := by rw [view_none b c hp]; exact isBlank_nil
  ifp hbl
  refine P2.bind (advance_limbo h1 _) (fun _ _ sA2 sB2 h2 => ?_)
  exact P2.pure ⟨rfl, h2⟩

/-! ### unary facts: a container's `Continue` never answers "Continue, no children" -/

theorem li_sim_listContinue_ret (node : Nat) :
    Ret (listContinue node) (fun st => st.cont = true → st.hasChildren = true) := by
  unfold listContinue; ret

theorem li_sim_listItemContinue_ret (node : Nat) :
    Ret (listItemContinue node) (fun st => st.cont = true → st.hasChildren = true) := by
  unfold listItemContinue; ret

theorem listContinue_cont (node : Nat) (s s' : St) (st : PState) (h : listContinue node s = .ok (st, s'))
    (hc : st.cont = true) : st.hasChildren = true := (li_sim_listContinue_ret node).h s st s' h hc

theorem listItemContinue_cont (node : Nat) (s s' : St) (st : PState) (h : listItemContinue node s = .ok (st, s'))
    (hc : st.cont = true) : st.hasChildren = true := (li_sim_listItemContinue_ret node).h s st s' h hc

/-! ### list_item.go: Continue -/

/-- the relation without the reader invariant of run A -/
def li_sim_W (F : Frame) (sA sB : St) : Prop :=
  sB.r = shR F sA.r ∧ StoreRel F sA.nodes sB.nodes ∧ CtxRel F sA.pc sB.pc

theorem li_sim_advance_w {F b sA sB} (h : SR F b sA sB) (n : Int) :
    P2 (fun _ _ sA' sB' => li_sim_W F sA' sB') (advance n sA) (advance n sB) := by
  obtain ⟨c, hc⟩ := h.ri
  have hsh := advance_sh F sA.r n (RI.start_nonneg hc) (RI.stop_nonneg hc)
  intro a sA' a' sB' e1 e2
  unfold GM.Blocks.advance at e1 e2
  rw [h.r, hsh] at e2
  cases hA : sA.r.advance n with
  | error e => rw [hA] at e1; cases e1
  | ok r' =>
    rw [hA] at e1 e2
    cases e1; cases e2
    exact ⟨rfl, h.n, h.c⟩

theorem li_sim_advPad_w {F b sA sB} (h : SR F b sA sB) (n pd : Int) :
    P2 (fun _ _ sA' sB' => li_sim_W F sA' sB') (advanceAndSetPadding n pd sA) (advanceAndSetPadding n pd sB) := by
  obtain ⟨c, hc⟩ := h.ri
  have hsh := advanceAndSetPadding_sh F sA.r n pd (RI.start_nonneg hc) (RI.stop_nonneg hc)
  intro a sA' a' sB' e1 e2
  unfold GM.Blocks.advanceAndSetPadding at e1 e2
  rw [h.r, hsh] at e2
  cases hA : sA.r.advanceAndSetPadding n pd with
  | error e => rw [hA] at e1; cases e1
  | ok r' =>
    rw [hA] at e1 e2
    cases e1; cases e2
    exact ⟨rfl, h.n, h.c⟩

theorem SR.li_sim_w {F b sA sB} (h : SR F b sA sB) : li_sim_W F sA sB := ⟨h.r, h.n, h.c⟩

theorem li_sim_listItemContinue_w (F : Frame) (hfl : F.flag = true) (b : Bytes) (node : Nat) (sA sB : St)
    (h : SR F b sA sB) (hnode : node ≠ 0) (hpar : ∀ p, (sA.nodes.getD node default).parent = some p → p ≠ 0) :
    P2 (fun x y sA' sB' => y = x ∧ li_sim_W F sA' sB') (listItemContinue node sA) (listItemContinue (F.ι node) sB) := by
  unfold listItemContinue
  refine P2.bind (li_sim_peekLine h) (fun x y sA1 sB1 ⟨⟨c, hc, hx⟩, hy, h1, hnodes, _⟩ => ?_)
  rw [hy, hx]
  simp only []
  generalize (RCur.view b c).getD [] = line
  by_cases hb : isBlank line = true
  · ifp hb
    refine P2.bind (li_sim_advance_w h1 _) (fun _ _ sA2 sB2 h2 => ?_)
    exact P2.pure ⟨rfl, h2⟩
  · ifn hb
    refine P2.bind (getNode_p2 h1 node) (fun n m sA0 sB0 ⟨hn, hm, e1, e2⟩ => ?_)
    rw [e1, e2, hm, shN_parent, shN_children, beq_eq_false_iff_ne.mpr hnode, li_sim_kidsB_false, List.length_map]
    cases hp : n.parent with
    | none => exact P2.bind (P := fun _ _ _ _ => False) P2.throwL (fun _ _ _ _ hh => hh.elim)
    | some p =>
      simp only [Option.map_some]
      refine P2.bind (li_sim_lastOffset h1.l p) (fun off off' sA2 sB2 ⟨hoff, e3, e4⟩ => ?_)
      have hp0 : p ≠ 0 := hpar p (by rw [← hnodes, ← hn]; exact hp)
      rw [e3, e4, hoff (.inr hp0)]
      refine P2.bind (getPc_p2 h1) (fun pc pc' sA3 sB3 ⟨_, _, hxy, e5, e6⟩ => ?_)
      rw [e5, e6, hxy.emptyItemBlank hfl]
      refine P2.bind (lineOffset_p2 h1) (fun lo lo' sA4 sB4 ⟨hlo, _, h4⟩ => ?_)
      rw [hlo]
      have adv : P2 (fun x y sA' sB' => y = x ∧ li_sim_W F sA' sB')
          ((do advanceAndSetPadding (indentPosition line lo off).fst (indentPosition line lo off).snd
               pure stContinueHasChildren : M PState) sA4)
          ((do advanceAndSetPadding (indentPosition line lo off).fst (indentPosition line lo off).snd
               pure stContinueHasChildren : M PState) sB4) := by
        refine P2.bind (li_sim_advPad_w h4 _ _) (fun _ _ sA5 sB5 h5 => ?_)
        exact P2.pure ⟨rfl, h5⟩
      generalize (n.children.length == 0 && pc.emptyItemBlank) = isEmpty
      by_cases c1 : ((isEmpty || decide ((indentWidthI line lo).fst < off)) &&
          decide ((indentWidthI line lo).fst < 4)) = true
      · ifp c1
        by_cases c2 : ((matchesListItem line true).snd != ListTyp.notList) = true
        · ifp c2
          refine P2.bind (modPc_p2 h4 _ _ (fun x y hxy => li_sim_ctx_skipList true hxy)) (fun _ _ sA5 sB5 h5 => ?_)
          exact P2.pure ⟨rfl, h5.li_sim_w⟩
        · ifn c2
          by_cases c3 : (!isEmpty) = true
          · ifp c3; exact P2.pure ⟨rfl, h4.li_sim_w⟩
          · ifn c3; exact adv
      · ifn c1; exact adv

/-- `listItemParser.Continue` on a line, given that run A's resulting reader satisfies the reader invariant (this replaces
    any proof that the arguments of `Advance` / `AdvanceAndSetPadding` are not negative). Added hypothesis: `node ≠ 0`
    (the children count of the item is read; B's Document has the extra children `kids0`). -/
theorem listItemContinue_simH (F : Frame) (hfl : F.flag = true) (b : Bytes) : ∀ node sA sB, SR F b sA sB →
    HasLine b sA → node ≠ 0 → (∀ p, (sA.nodes.getD node default).parent = some p → p ≠ 0) →
    (∀ a sA', listItemContinue node sA = .ok (a, sA') → ∃ c', RI b sA'.r c') →
    P2 (fun x y sA' sB' => y = x ∧ SR F b sA' sB') (listItemContinue node sA) (listItemContinue (F.ι node) sB) := by
  intro node sA sB h _ hnode hpar hri a sA' a' sB' e1 e2
  obtain ⟨q1, q2, q3, q4⟩ := li_sim_listItemContinue_w F hfl b node sA sB h hnode hpar a sA' a' sB' e1 e2
  exact ⟨q1, hri a sA' e1, q2, q3, q4⟩

/-! ### list_item.go: Open -/

theorem li_sim_P2_with {α β} {Q : α → β → St → St → Prop} {R : α → St → Prop} {R' : β → St → Prop} {x y}
    (h : P2 Q x y) (hr : ∀ a sA, x = .ok (a, sA) → R a sA) (hr' : ∀ a sB, y = .ok (a, sB) → R' a sB) :
    P2 (fun a b sA sB => Q a b sA sB ∧ R a sA ∧ R' b sB) x y :=
  fun a sA b sB e1 e2 => ⟨h a sA b sB e1 e2, hr a sA e1, hr' b sB e2⟩

theorem li_sim_lineOffset_pc {s s' : St} {a : Int} (h : lineOffset s = .ok (a, s')) : s'.pc = s.pc := by
  unfold GM.Blocks.lineOffset at h
  cases hA : s.r.lineOffsetOp with
  | error e => rw [hA] at h; cases h
  | ok r' => rw [hA] at h; cases h; rfl

theorem li_sim_newNode_pc {n : Node} {s s' : St} {a : Nat} (h : newNode n s = .ok (a, s')) : s'.pc = s.pc := by
  unfold newNode at h; cases h; rfl

theorem li_sim_advPad_pc {n pd : Int} {s s' : St} {a : Unit} (h : advanceAndSetPadding n pd s = .ok (a, s')) :
    s'.pc = s.pc := by
  unfold GM.Blocks.advanceAndSetPadding at h
  cases hA : s.r.advanceAndSetPadding n pd with
  | error e => rw [hA] at h; cases h
  | ok r' => rw [hA] at h; cases h; rfl

/-- `listItemParser.Open` on a line, given that run A's resulting reader satisfies the reader invariant (instead of a proof
    that the argument of the final `AdvanceAndSetPadding` is not negative) -/
theorem listItemOpen_simH (F : Frame) (b : Bytes) : ∀ parent sA sB, SR F b sA sB → HasLine b sA →
    (∀ a sA', listItemOpen parent sA = .ok (a, sA') → ∃ c', RI b sA'.r c') →
    P2 (fun x y sA' sB' => y = (x.1.map F.ι, x.2) ∧ SRLim F b sA' sB' ∧
        ((x.2.hasChildren = true ∨ x.1 = none) → SR F b sA' sB') ∧
        ((BP.listItem = .list ∨ BP.listItem = .listItem) → x.1.isSome = true →
          sB'.pc.emptyItemBlank = sA'.pc.emptyItemBlank))
      (listItemOpen parent sA) (listItemOpen (F.ι parent) sB) := by
  intro parent sA sB h _ hri
  suffices hw : P2 (fun x y sA' sB' => y = (x.1.map F.ι, x.2) ∧ li_sim_W F sA' sB' ∧
      (x.1.isSome = true → sB'.pc.emptyItemBlank = sA'.pc.emptyItemBlank))
      (listItemOpen parent sA) (listItemOpen (F.ι parent) sB) by
    intro a sA' a' sB' e1 e2
    obtain ⟨q1, ⟨q2, q3, q4⟩, q5⟩ := hw a sA' a' sB' e1 e2
    have hsr : SR F b sA' sB' := ⟨hri a sA' e1, q2, q3, q4⟩
    exact ⟨q1, hsr.limbo, fun _ => hsr, fun _ => q5⟩
  have none_ : ∀ {sA1 sB1}, SR F b sA1 sB1 → P2 (fun x y sA' sB' => y = (x.1.map F.ι, x.2) ∧ li_sim_W F sA' sB' ∧
      (x.1.isSome = true → sB'.pc.emptyItemBlank = sA'.pc.emptyItemBlank))
      ((pure (none, stNoChildren) : M (Option Nat × PState)) sA1) ((pure (none, stNoChildren) : M (Option Nat × PState)) sB1) :=
    fun h1 => P2.pure ⟨rfl, h1.li_sim_w, fun hh => by simp at hh⟩
  unfold listItemOpen
  refine P2.bind (getNode_p2 h parent) (fun n m sA0 sB0 ⟨hn, hm, e1, e2⟩ => ?_)
  rw [e1, e2, hm, shN_kind]
  by_cases c0 : (n.kind != Kind.list) = true
  · ifp c0; exact none_ h
  · ifn c0
    have hp0 : parent ≠ 0 := by
      intro e; subst e
      rw [hn, h.n.doc] at c0; exact c0 (by decide)
    refine P2.bind (li_sim_lastOffset h.l parent) (fun off off' sA2 sB2 ⟨hoff, e3, e4⟩ => ?_)
    rw [e3, e4, hoff (.inr hp0)]
    refine P2.bind (peekLine_p2 h) (fun x y sA1 sB1 ⟨⟨c, hc, hx⟩, hy, h1⟩ => ?_)
    rw [hy, hx]
    simp only []
    generalize (RCur.view b c).getD [] = line
    generalize matchesListItem line false = mt
    by_cases c1 : (mt.2 == ListTyp.notList) = true
    · ifp c1; exact none_ h1
    · ifn c1
      by_cases c2 : mt.1.r1 - off > 3
      · ifp c2; exact none_ h1
      · ifn c2
        refine P2.bind (li_sim_modPc_flag h1 false) (fun _ _ sA3 sB3 ⟨h3, f1, f2⟩ => ?_)
        refine P2.bind (li_sim_P2_with (lineOffset_p2 h3) (R := fun _ s => s.pc = sA3.pc) (R' := fun _ s => s.pc = sB3.pc)
          (fun _ _ e => li_sim_lineOffset_pc e) (fun _ _ e => li_sim_lineOffset_pc e))
          (fun lo lo' sA4 sB4 ⟨⟨hlo, _, h4⟩, g1, g2⟩ => ?_)
        rw [hlo]
        refine P2.bind (P := fun s t sA' sB' => t = s ∧ sA' = sA4 ∧ sB' = sB4)
          (P2.liftE_same (fun a _ => ⟨rfl, rfl, rfl⟩)) (fun io io' sA5 sB5 ⟨ht, e5, e6⟩ => ?_)
        rw [ht, e5, e6]
        refine P2.bind (li_sim_P2_with (newNode_p2 h4 _ _ (by simp [shN, shClosure])) (R := fun _ s => s.pc = sA4.pc)
          (R' := fun _ s => s.pc = sB4.pc) (fun _ _ e => li_sim_newNode_pc e) (fun _ _ e => li_sim_newNode_pc e))
          (fun nd nd' sA6 sB6 ⟨⟨_, hnd', _, h6⟩, g3, g4⟩ => ?_)
        rw [hnd']
        have hfl6 : sB6.pc.emptyItemBlank = sA6.pc.emptyItemBlank := by rw [g3, g4, g1, g2, f1, f2]
        by_cases c3 : mt.1.r4 < 0
        · ifp c3; exact P2.pure ⟨rfl, h6.li_sim_w, fun _ => hfl6⟩
        · ifn c3
          refine P2.bind (P := fun s t sA' sB' => t = s ∧ sA' = sA6 ∧ sB' = sB6)
            (P2.liftE_same (fun a _ => ⟨rfl, rfl, rfl⟩)) (fun sl sl' sA7 sB7 ⟨ht2, e7, e8⟩ => ?_)
          rw [ht2, e7, e8]
          by_cases c4 : isBlank sl = true
          · ifp c4; exact P2.pure ⟨rfl, h6.li_sim_w, fun _ => hfl6⟩
          · ifn c4
            refine P2.bind (P := fun s t sA' sB' => t = s ∧ sA' = sA6 ∧ sB' = sB6)
              (P2.liftE_same (fun a _ => ⟨rfl, rfl, rfl⟩)) (fun sf sf' sA8 sB8 ⟨ht3, e9, e10⟩ => ?_)
            rw [ht3, e9, e10]
            refine P2.bind (li_sim_P2_with (li_sim_advPad_w h6 _ _) (R := fun _ s => s.pc = sA6.pc)
              (R' := fun _ s => s.pc = sB6.pc) (fun _ _ e => li_sim_advPad_pc e) (fun _ _ e => li_sim_advPad_pc e))
              (fun _ _ sA9 sB9 ⟨h9, g5, g6⟩ => ?_)
            exact P2.pure ⟨rfl, h9, fun _ => by rw [g5, g6]; exact hfl6⟩

end GM.Blocks.Sh
