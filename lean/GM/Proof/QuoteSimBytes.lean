/-
  GM.Proof.QuoteSimBytes — byte-level facts about `quotePrefix` (GM.Model.Blocks.QuoteSim): where the bytes,
  line starts and line ends of a source are in the source with `"> "` put in front of every line.

  `LineAt src k ls`: `ls` is the first byte of line number `k` (0-based) of `src`, and that line exists.
  With `d = 2·(k+1)` (the marker bytes in front of and on line `k`), byte `p` of line `k` is byte `p + d` of
  `quotePrefix src`; the line starts at `ls + 2·k` there (its marker) and ends at `lineEnd src ls + d`.
-/
import GM.Proof.BlocksTerm
import GM.Proof.Reader

namespace GM.Blocks
open GM GM.Text


/-! ### helpers -/

/-- the `atStart` flag of `quotePrefixGo` after the bytes `l` -/
def qpAfter : Bytes → Bool → Bool
  | [], b => b
  | c :: cs, _ => qpAfter cs (c == 10)

theorem qpAfter_append (l₁ l₂ : Bytes) (b : Bool) : qpAfter (l₁ ++ l₂) b = qpAfter l₂ (qpAfter l₁ b) := by
  induction l₁ generalizing b with
  | nil => rfl
  | cons c cs ih => simp [qpAfter, ih]

theorem qpg_append (l₁ l₂ : Bytes) (b : Bool) :
    quotePrefixGo (l₁ ++ l₂) b = quotePrefixGo l₁ b ++ quotePrefixGo l₂ (qpAfter l₁ b) := by
  induction l₁ generalizing b with
  | nil => rfl
  | cons c cs ih => simp [quotePrefixGo, qpAfter, ih]

theorem qpg_length (l : Bytes) (b : Bool) :
    (quotePrefixGo l b).length + (if qpAfter l b then 2 else 0) = l.length + 2 * nlCount l + (if b then 2 else 0) := by
  induction l generalizing b with
  | nil => cases b <;> simp [quotePrefixGo, qpAfter, nlCount]
  | cons c cs ih =>
    simp only [quotePrefixGo, qpAfter, nlCount_cons, List.length_append, List.length_cons]
    by_cases hc : (c == 10) = true
    · have := ih true
      simp only [hc]
      cases b <;> simp at this ⊢ <;> omega
    · have hc' : (c == 10) = false := by simpa using hc
      have := ih false
      simp only [hc']
      cases b <;> simp at this ⊢ <;> omega

theorem qpg_nlCount (l : Bytes) (b : Bool) : nlCount (quotePrefixGo l b) = nlCount l := by
  induction l generalizing b with
  | nil => rfl
  | cons c cs ih =>
    cases b <;> simp [quotePrefixGo, nlCount_cons, ih]

theorem qpg_mem (l : Bytes) (b : Bool) {c : UInt8} (h : c ∈ quotePrefixGo l b) : c ∈ l ∨ c = 62 ∨ c = 32 := by
  induction l generalizing b with
  | nil => simp [quotePrefixGo] at h
  | cons d ds ih =>
    simp only [quotePrefixGo, List.mem_append, List.mem_cons] at h
    rcases h with h | h | h
    · cases b <;> simp at h
      rcases h with h | h <;> simp [h]
    · simp [h]
    · rcases ih _ h with h | h | h <;> simp [h]

theorem lineNo_succ (src : Bytes) (p : Nat) :
    lineNo src (p + 1) = lineNo src p + (if src[p]? = some 10 then 1 else 0) := by
  unfold lineNo
  rw [List.take_add_one, List.filter_append, List.length_append]
  cases h : src[p]? with
  | none => simp
  | some c => by_cases hc : c = 10 <;> simp [hc]

theorem lineNo_eq_nlCount (src : Bytes) (p : Nat) : lineNo src p = nlCount (src.take p) := rfl

theorem lineLen_le_of_nl (l : Bytes) (i : Nat) (h : l[i]? = some 10) : lineLen l ≤ i + 1 := by
  induction l generalizing i with
  | nil => simp at h
  | cons c cs ih =>
    simp only [lineLen]
    split
    · omega
    · cases i with
      | zero => simp at h; simp_all
      | succ i => simp at h; have := ih i h; omega

/-- the end of the line of `p`, characterised -/
theorem lineEnd_char (src : Bytes) {p e : Nat} (hpe : p < e) (hle : e ≤ src.length)
    (hno : ∀ q, p ≤ q → q + 1 < e → src[q]? ≠ some 10) (hend : e = src.length ∨ src[e - 1]? = some 10) :
    lineEnd src p = e := by
  obtain ⟨n, hn⟩ : ∃ n, e = p + 1 + n := ⟨e - p - 1, by omega⟩
  induction n generalizing p with
  | zero =>
    by_cases h10 : src[p]? = some 10
    · rw [GM.Proof.Reader.lineEnd_nl src h10]; omega
    · rcases hend with hend | hend
      · rw [GM.Proof.Reader.lineEnd_succ src (by omega) h10, GM.Proof.Reader.lineEnd_of_ge src (by omega)]; omega
      · have : e - 1 = p := by omega
        rw [this] at hend; exact absurd hend h10
  | succ n ih =>
    have h10 : src[p]? ≠ some 10 := hno p (Nat.le_refl _) (by omega)
    rw [GM.Proof.Reader.lineEnd_succ src (by omega) h10]
    exact ih (by omega) (fun q h1 h2 => hno q (by omega) h2) (by omega)

/-- the start of the line of `p`, characterised -/
theorem lineStart_char (src : Bytes) {s p : Nat} (hsp : s ≤ p) (hs : s = 0 ∨ src[s - 1]? = some 10)
    (hno : ∀ q, s ≤ q → q < p → src[q]? ≠ some 10) : lineStart src p = s := by
  induction p with
  | zero => simp [lineStart]; omega
  | succ p ih =>
    simp only [lineStart]
    by_cases hsp' : s = p + 1
    · have h0 : src[p]? = some 10 := by
        rcases hs with hs | hs
        · omega
        · rw [hsp'] at hs; simpa using hs
      simp [h0, hsp']
    · have h10 : src[p]? ≠ some 10 := hno p (by omega) (by omega)
      have : (src[p]? == some 10) = false := by simpa using h10
      rw [this]; simp only [Bool.false_eq_true, if_false]
      exact ih (by omega) (fun q h1 h2 => hno q h1 (by omega))

theorem sub_getElem? (src : Bytes) (a b i : Nat) : (sub src a b)[i]? = if i < b - a then src[a + i]? else none := by
  unfold sub
  rw [List.getElem?_take]
  split
  · rw [List.getElem?_drop]
  · rfl

/-- the split of the prefixed source at byte `p` -/
theorem qp_split (src : Bytes) {p : Nat} (hp : p < src.length) :
    ∃ A B, quotePrefix src = A ++ ((if qpAfter (src.take p) true then [62, 32] else []) ++ src[p] :: B) ∧
      A.length + (if qpAfter (src.take p) true then 2 else 0) = p + 2 * (lineNo src p + 1) := by
  refine ⟨quotePrefixGo (src.take p) true, quotePrefixGo (src.drop (p + 1)) (src[p] == 10), ?_, ?_⟩
  · have e : src = src.take p ++ src[p] :: src.drop (p + 1) := by
      rw [← List.drop_eq_getElem_cons hp, List.take_append_drop]
    conv => lhs; rw [e]
    unfold quotePrefix
    rw [qpg_append]
    simp only [quotePrefixGo]
  · have := qpg_length (src.take p) true
    rw [List.length_take, Nat.min_eq_left (Nat.le_of_lt hp)] at this
    rw [lineNo_eq_nlCount]; simp at this ⊢; omega

/-- byte `p` in the prefixed source, for every byte -/
theorem qp_byte_gen (src : Bytes) {p : Nat} (hp : p < src.length) :
    (quotePrefix src)[p + 2 * (lineNo src p + 1)]? = src[p]? := by
  obtain ⟨A, B, hq, hl⟩ := qp_split src hp
  rw [hq, List.getElem?_append_right (by omega)]
  cases hb : qpAfter (src.take p) true
  · rw [hb] at hl
    have : p + 2 * (lineNo src p + 1) - A.length = 0 := by simp at hl; omega
    rw [this]; simp [List.getElem?_eq_getElem hp]
  · rw [hb] at hl
    have : p + 2 * (lineNo src p + 1) - A.length = 2 := by simp at hl; omega
    rw [this]; simp [List.getElem?_eq_getElem hp]

theorem qpAfter_snoc (l : Bytes) (c : UInt8) (b : Bool) : qpAfter (l ++ [c]) b = (c == 10) := by
  rw [qpAfter_append]; rfl

theorem qpAfter_take {src : Bytes} {ls : Nat} (hlt : ls < src.length) (h : ls = 0 ∨ src[ls - 1]? = some 10) :
    qpAfter (src.take ls) true = true := by
  by_cases h0 : ls = 0
  · subst h0; rfl
  · have h := h.resolve_left h0
    obtain ⟨m, rfl⟩ : ∃ m, ls = m + 1 := ⟨ls - 1, by omega⟩
    simp only [Nat.add_sub_cancel] at h
    rw [List.take_add_one, h]
    simp [qpAfter_snoc]

/-- `ls` is the start of line number `k` of `src`, and the line is there -/
structure LineAt (src : Bytes) (k ls : Nat) : Prop where
  lt : ls < src.length
  start : ls = 0 ∨ src[ls - 1]? = some 10
  count : lineNo src ls = k

theorem lineAt_zero_qs (src : Bytes) (h : src ≠ []) : LineAt src 0 0 := by
  refine ⟨?_, Or.inl rfl, ?_⟩
  · cases src with
    | nil => exact absurd rfl h
    | cons c cs => simp
  · simp [lineNo]

/-- no `\n` before the last byte of a line -/
theorem line_no_nl {src : Bytes} {ls p : Nat} (h1 : ls ≤ p) (h2 : p + 1 < lineEnd src ls) : src[p]? ≠ some 10 := by
  intro h10
  have hle := lineEnd_le src ls
  have hls : ls ≤ src.length := by
    unfold lineEnd at h2; split at h2 <;> omega
  unfold lineEnd at h2 hle
  rw [if_pos hls] at h2 hle
  have : (src.drop ls)[p - ls]? = some 10 := by
    rw [List.getElem?_drop]
    have : ls + (p - ls) = p := by omega
    rw [this]; exact h10
  have := lineLen_le_of_nl _ _ this
  omega

/-- a line that is not the last one ends with `\n` -/
theorem line_ends_nl {src : Bytes} {ls : Nat} (h : ls < src.length) (hlt : lineEnd src ls < src.length) :
    src[lineEnd src ls - 1]? = some 10 :=
  GM.Proof.Reader.lineEnd_nl_before src (Nat.le_of_lt h) hlt

theorem lineNo_in_aux (src : Bytes) (ls n : Nat) (h2 : ls + n < lineEnd src ls) :
    lineNo src (ls + n) = lineNo src ls := by
  induction n with
  | zero => rfl
  | succ n ih =>
    have h10 : src[ls + n]? ≠ some 10 := line_no_nl (Nat.le_add_right _ _) (by omega)
    rw [← Nat.add_assoc, lineNo_succ, if_neg h10, Nat.add_zero]
    exact ih (by omega)

/-- the line number of a byte of line `k` (as `shiftSeg` computes it) -/
theorem lineNo_in {src : Bytes} {k ls : Nat} (h : LineAt src k ls) {p : Nat} (h1 : ls ≤ p) (h2 : p < lineEnd src ls) :
    lineNo src p = k := by
  obtain ⟨n, rfl⟩ : ∃ n, p = ls + n := ⟨p - ls, by omega⟩
  rw [lineNo_in_aux src ls n h2]; exact h.count

/-- the next line, when the source goes on behind this one -/
theorem lineAt_next {src : Bytes} {k ls : Nat} (h : LineAt src k ls) (hlt : lineEnd src ls < src.length) :
    LineAt src (k + 1) (lineEnd src ls) := by
  have hgt := lt_lineEnd src h.lt
  have hnl := line_ends_nl h.lt hlt
  refine ⟨hlt, Or.inr hnl, ?_⟩
  obtain ⟨e, he⟩ : ∃ e, lineEnd src ls = e + 1 := ⟨lineEnd src ls - 1, by omega⟩
  rw [he] at hnl ⊢
  simp only [Nat.add_sub_cancel] at hnl
  rw [lineNo_succ, if_pos hnl, lineNo_in h (by omega) (by omega)]

/-- the number of a line is at most the number of `\n` of the source -/
theorem lineAt_le_nl {src : Bytes} {k ls : Nat} (h : LineAt src k ls) : k ≤ nlCount src := by
  rw [← h.count]
  unfold lineNo nlCount
  exact ((List.take_sublist ls src).filter _).length_le

/-- the bytes of line `k` -/
theorem qp_byte {src : Bytes} {k ls : Nat} (h : LineAt src k ls) {p : Nat} (h1 : ls ≤ p) (h2 : p < lineEnd src ls) :
    (quotePrefix src)[p + 2 * (k + 1)]? = src[p]? := by
  have hp : p < src.length := Nat.lt_of_lt_of_le h2 (lineEnd_le src ls)
  have := qp_byte_gen src hp
  rw [lineNo_in h h1 h2] at this; exact this

/-- the marker of line `k` -/
theorem qp_marker {src : Bytes} {k ls : Nat} (h : LineAt src k ls) :
    (quotePrefix src)[ls + 2 * k]? = some 62 ∧ (quotePrefix src)[ls + 2 * k + 1]? = some 32 := by
  obtain ⟨A, B, hq, hl⟩ := qp_split src h.lt
  rw [qpAfter_take h.lt h.start, h.count] at hl
  rw [qpAfter_take h.lt h.start] at hq
  have hA : A.length = ls + 2 * k := by simp at hl; omega
  rw [hq, ← hA]
  constructor
  · rw [List.getElem?_append_right (Nat.le_refl _)]; simp
  · rw [List.getElem?_append_right (by omega)]; simp

theorem qp_length_ge {src : Bytes} {k ls : Nat} (h : LineAt src k ls) :
    lineEnd src ls + 2 * (k + 1) ≤ (quotePrefix src).length := by
  have hgt := lt_lineEnd src h.lt
  have hle := lineEnd_le src ls
  have hb := qp_byte h (p := lineEnd src ls - 1) (by omega) (by omega)
  rw [List.getElem?_eq_getElem (by omega : lineEnd src ls - 1 < src.length)] at hb
  rcases Nat.lt_or_ge (lineEnd src ls - 1 + 2 * (k + 1)) (quotePrefix src).length with hlt | hge
  · omega
  · rw [List.getElem?_eq_none hge] at hb; cases hb

theorem nlCount_last (src : Bytes) (hne : src ≠ []) :
    nlCount src = lineNo src (src.length - 1) + (if qpAfter src true then 1 else 0) := by
  obtain ⟨l, c, rfl⟩ : ∃ l c, src = l ++ [c] :=
    ⟨src.dropLast, src.getLast hne, (List.dropLast_concat_getLast hne).symm⟩
  rw [qpAfter_snoc, lineNo_eq_nlCount]
  simp only [List.length_append, List.length_cons, List.length_nil, Nat.add_sub_cancel]
  rw [List.take_left']
  · unfold nlCount
    rw [List.filter_append, List.length_append]
    by_cases hc : c = 10 <;> simp [hc]
  · rfl

/-- when line `k` is the last one, the prefixed source ends where it ends -/
theorem qp_length_end {src : Bytes} {k ls : Nat} (h : LineAt src k ls) (he : lineEnd src ls = src.length) :
    (quotePrefix src).length = src.length + 2 * (k + 1) := by
  have hne : src ≠ [] := by intro e; have := h.lt; rw [e] at this; simp at this
  have hlt := h.lt
  have h1 := nlCount_last src hne
  rw [lineNo_in h (by omega) (by omega)] at h1
  have h2 := qpg_length src true
  unfold quotePrefix
  cases hb : qpAfter src true <;> rw [hb] at h1 h2 <;> simp at h1 h2 <;> omega

/-- sub-ranges of line `k` (its `\n` included) -/
theorem qp_sub {src : Bytes} {k ls : Nat} (h : LineAt src k ls) {a b : Nat} (h1 : ls ≤ a) (h2 : a ≤ b)
    (h3 : b ≤ lineEnd src ls) :
    sub (quotePrefix src) (a + 2 * (k + 1)) (b + 2 * (k + 1)) = sub src a b := by
  apply List.ext_getElem?
  intro i
  rw [sub_getElem?, sub_getElem?]
  have e : b + 2 * (k + 1) - (a + 2 * (k + 1)) = b - a := by omega
  rw [e]
  split
  · have := qp_byte h (p := a + i) (by omega) (by omega)
    have e2 : a + 2 * (k + 1) + i = a + i + 2 * (k + 1) := by omega
    rw [e2]; exact this
  · rfl

/-- the whole prefixed line: marker, then the line -/
theorem qp_sub_line {src : Bytes} {k ls : Nat} (h : LineAt src k ls) :
    sub (quotePrefix src) (ls + 2 * k) (lineEnd src ls + 2 * (k + 1)) = 62 :: 32 :: sub src ls (lineEnd src ls) := by
  have hgt := lt_lineEnd src h.lt
  obtain ⟨hm1, hm2⟩ := qp_marker h
  apply List.ext_getElem?
  intro i
  rw [sub_getElem?]
  match i with
  | 0 => rw [if_pos (by omega)]; simpa using hm1
  | 1 => rw [if_pos (by omega)]; simpa using hm2
  | j + 2 =>
    simp only [List.getElem?_cons_succ]
    rw [sub_getElem?]
    by_cases hj : j < lineEnd src ls - ls
    · rw [if_pos (by omega), if_pos hj]
      have := qp_byte h (p := ls + j) (by omega) (by omega)
      have e2 : ls + 2 * k + (j + 2) = ls + j + 2 * (k + 1) := by omega
      rw [e2]; exact this
    · rw [if_neg (by omega), if_neg hj]

/-- line ends: from the marker and from every byte of the line -/
theorem qp_lineEnd_marker {src : Bytes} {k ls : Nat} (h : LineAt src k ls) :
    lineEnd (quotePrefix src) (ls + 2 * k) = lineEnd src ls + 2 * (k + 1) := by
  have hgt := lt_lineEnd src h.lt
  have hle := lineEnd_le src ls
  obtain ⟨hm1, hm2⟩ := qp_marker h
  apply lineEnd_char _ (by omega) (qp_length_ge h)
  · intro q hq1 hq2
    by_cases h0 : q = ls + 2 * k
    · rw [h0, hm1]; simp
    · by_cases h00 : q = ls + 2 * k + 1
      · rw [h00, hm2]; simp
      · obtain ⟨p, rfl⟩ : ∃ p, q = p + 2 * (k + 1) := ⟨q - 2 * (k + 1), by omega⟩
        rw [qp_byte h (by omega) (by omega)]
        exact line_no_nl (ls := ls) (by omega) (by omega)
  · by_cases he : lineEnd src ls = src.length
    · left; rw [qp_length_end h he, he]
    · right
      have := qp_byte h (p := lineEnd src ls - 1) (by omega) (by omega)
      have e : lineEnd src ls + 2 * (k + 1) - 1 = lineEnd src ls - 1 + 2 * (k + 1) := by omega
      rw [e, this]
      exact line_ends_nl h.lt (by omega)

theorem qp_lineEnd {src : Bytes} {k ls : Nat} (h : LineAt src k ls) {p : Nat} (h1 : ls ≤ p) (h2 : p < lineEnd src ls) :
    lineEnd (quotePrefix src) (p + 2 * (k + 1)) = lineEnd src ls + 2 * (k + 1) ∧ lineEnd src p = lineEnd src ls := by
  have hle := lineEnd_le src ls
  constructor
  · apply lineEnd_char _ (by omega) (qp_length_ge h)
    · intro q hq1 hq2
      obtain ⟨p', rfl⟩ : ∃ p', q = p' + 2 * (k + 1) := ⟨q - 2 * (k + 1), by omega⟩
      rw [qp_byte h (by omega) (by omega)]
      exact line_no_nl (ls := ls) (by omega) (by omega)
    · by_cases he : lineEnd src ls = src.length
      · left; rw [qp_length_end h he, he]
      · right
        have := qp_byte h (p := lineEnd src ls - 1) (by omega) (by omega)
        have e : lineEnd src ls + 2 * (k + 1) - 1 = lineEnd src ls - 1 + 2 * (k + 1) := by omega
        rw [e, this]
        exact line_ends_nl h.lt (by omega)
  · apply lineEnd_char _ h2 hle
    · intro q hq1 hq2
      exact line_no_nl (ls := ls) (by omega) hq2
    · by_cases he : lineEnd src ls = src.length
      · left; exact he
      · right; exact line_ends_nl h.lt (by omega)

theorem qp_prev_nl {src : Bytes} {k ls : Nat} (h : LineAt src k ls) :
    ls + 2 * k = 0 ∨ (quotePrefix src)[ls + 2 * k - 1]? = some 10 := by
  by_cases h0 : ls = 0
  · left
    have := h.count
    rw [h0] at this
    simp [lineNo] at this
    omega
  · right
    have hnl := h.start.resolve_left h0
    have hlt := h.lt
    obtain ⟨m, rfl⟩ : ∃ m, ls = m + 1 := ⟨ls - 1, by omega⟩
    simp only [Nat.add_sub_cancel] at hnl
    have hc := h.count
    rw [lineNo_succ, if_pos hnl] at hc
    have := qp_byte_gen src (p := m) (by omega)
    rw [hnl] at this
    have e : m + 1 + 2 * k - 1 = m + 2 * (lineNo src m + 1) := by omega
    rw [e]; exact this

/-- line starts -/
theorem qp_lineStart_marker {src : Bytes} {k ls : Nat} (h : LineAt src k ls) :
    lineStart (quotePrefix src) (ls + 2 * k) = ls + 2 * k := by
  apply lineStart_char _ (Nat.le_refl _) (qp_prev_nl h)
  intro q h1 h2; omega

theorem qp_lineStart {src : Bytes} {k ls : Nat} (h : LineAt src k ls) {p : Nat} (h1 : ls ≤ p) (h2 : p < lineEnd src ls) :
    lineStart (quotePrefix src) (p + 2 * (k + 1)) = ls + 2 * k ∧ lineStart src p = ls := by
  obtain ⟨hm1, hm2⟩ := qp_marker h
  constructor
  · apply lineStart_char _ (by omega) (qp_prev_nl h)
    intro q hq1 hq2
    by_cases h0 : q = ls + 2 * k
    · rw [h0, hm1]; simp
    · by_cases h00 : q = ls + 2 * k + 1
      · rw [h00, hm2]; simp
      · obtain ⟨p', rfl⟩ : ∃ p', q = p' + 2 * (k + 1) := ⟨q - 2 * (k + 1), by omega⟩
        rw [qp_byte h (by omega) (by omega)]
        exact line_no_nl (ls := ls) (by omega) (by omega)
  · apply lineStart_char _ h1 h.start
    intro q hq1 hq2
    exact line_no_nl (ls := ls) hq1 (by omega)

/-- without tabs a column is a byte count -/
theorem colFrom_tabfree (l : Bytes) (h : ∀ c ∈ l, c ≠ 9) (v : Nat) : colFrom l v = v + l.length := by
  induction l generalizing v with
  | nil => simp [colFrom]
  | cons c cs ih =>
    have hc : c ≠ 9 := h c (by simp)
    have hc' : (c == 9) = false := by simpa using hc
    simp only [colFrom, hc', Bool.false_eq_true, if_false, List.length_cons]
    rw [ih (fun d hd => h d (by simp [hd]))]; omega

theorem sub_mem {src : Bytes} {a b : Nat} {c : UInt8} (h : c ∈ sub src a b) : c ∈ src :=
  List.mem_of_mem_drop (List.mem_of_mem_take h)

/-- the prefixed source has no tab / CR either -/
theorem qp_mem {src : Bytes} {c : UInt8} (h : c ∈ quotePrefix src) : c ∈ src ∨ c = 62 ∨ c = 32 :=
  qpg_mem src true h

/-- the prefixed source has as many `\n` -/
theorem qp_nlCount (src : Bytes) : nlCount (quotePrefix src) = nlCount src :=
  qpg_nlCount src true

theorem qp_nil_iff (src : Bytes) : quotePrefix src = [] ↔ src = [] := by
  cases src with
  | nil => simp [quotePrefix, quotePrefixGo]
  | cons c cs => simp [quotePrefix, quotePrefixGo]

end GM.Blocks
