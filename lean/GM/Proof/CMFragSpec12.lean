/-
  GM.Proof.CMFragSpec12 — the stage-12 fragment (stage 6 plus indented code blocks) of GM.Spec.CMFrag inside the spec
  model GM.Spec.CommonMark:
  * `expectedI_eq_expected`: the prescribed HTML of a stage-12 document is `expected` of the embedded document
    (`iembed`: an indented code block is the spec model's `Block.icode lines`).
  The source relation `spellIc d = spell (iembed d)` holds only where every indented code block has exactly one blank
  line in front and behind (the spec model has no `abut` choice for `Block.icode`); it is evaluated by the tie
  (`cmfrag spec igen|ienum`), not proved here.
-/
import GM.Proof.CMFragSpec6
namespace GM.Proof.CMFrag
open GM GM.Spec.CM GM.Spec.CMFrag

theorem render_expB_iembed (a : Bool) (b : IBlock) (hok : iblockOK b = true) :
    render (expB false false (iembedBlock a b)) = expIBlock b := by
  cases b with
  | h b =>
    rw [iembedBlock, expIBlock, expB_kembedK]
    exact render_expB_hembedH b hok
  | icode lines =>
    rw [iembedBlock, expB, expIBlock]
    have h1 : strBytes "<pre><code>" = [60] ++ strBytes "pre" ++ [62] ++ [60] ++ strBytes "code" ++ [62] := by
      decide +kernel
    have h2 : strBytes "</code></pre>\n" = [60, 47] ++ strBytes "code" ++ [62] ++ [60, 47] ++ strBytes "pre" ++ [62, 10] := by
      decide +kernel
    rw [h1, h2]
    simp [wrap, render, renderPiece, nl, codeText]

theorem render_expBs_iembed (its : List IItem) (hok : ∀ it ∈ its, iblockOK it.block = true) :
    render (expBs false false (its.map fun it => iembedBlock (it.sep == 0) it.block)) =
      its.flatMap fun it => expIBlock it.block := by
  induction its with
  | nil => simp [expBs, render]
  | cons it rest ih =>
    rw [List.map_cons, expBs, render_append, ih (fun x hx => hok x (by simp [hx])),
      List.flatMap_cons, ← render_expB_iembed (it.sep == 0) it.block (hok it (by simp)), Bool.false_and]

theorem ifrag_ok (d : IDoc) (h : IFrag d) :
    (∀ it ∈ d.items, iblockOK it.block = true) ∧ isepsOK none d.items = true := by
  have := h
  simp only [IFrag, ifragB, Bool.and_eq_true, List.all_eq_true] at this
  exact this

/-- I1: the stage-12 prescribed HTML is `expected` of the spec model on the embedded document -/
theorem expectedI_eq_expected (d : IDoc) (h : IFrag d) : expectedI d = expected (iembed d) := by
  rw [expected, expectedPieces, iembed, expectedI, render_expBs_iembed d.items (ifrag_ok d h).1]

/-! ### I2: source -/

/-- the source lines of one block -/
def iblockLines : IBlock → List Bytes
  | .h b => hblockLines b
  | .icode lines => lines.map fun l => [32, 32, 32, 32] ++ l

/-- the source lines of the items: `sep` blank lines in front of every item -/
def docLinesI (its : List IItem) : List Bytes :=
  its.flatMap fun it => List.replicate it.sep [] ++ iblockLines it.block

theorem renderLine_ic (l : Bytes) (h : l.all printable = true) :
    renderLine 0 0 0 0 ((4, l) : Line) = [32, 32, 32, 32] ++ l := by
  simp [renderLine, lcol, spellIndent, spaces, renderBody_id 0 0 0 l (printable_plainH l h)]

theorem map_renderLine_ic (lines : List Bytes) (h : ∀ l ∈ lines, l.all printable = true) :
    (lines.map (fun l => ((4, l) : Line))).map (renderLine 0 0 0 0) = lines.map fun l => [32, 32, 32, 32] ++ l := by
  induction lines with
  | nil => rfl
  | cons l rest ih =>
    rw [List.map_cons, List.map_cons, List.map_cons, ih (fun x hx => h x (by simp [hx])), renderLine_ic l (h l (by simp))]

/-- the kind (of the spec model) of an embedded block does not depend on the `abut` choice -/
def ikind : IBlock → Nat
  | .h b => kindOf (hembedBlock b)
  | .icode _ => 5

theorem kindOf_kembedK (a : Bool) (b : HBlock) : kindOf (kembedBlock a b) = kindOf (hembedBlock b) := by
  cases b with
  | base b => cases b <;> rfl
  | fcode tilde n info lines => rfl

theorem kindOf_iembed (a : Bool) (b : IBlock) : kindOf (iembedBlock a b) = ikind b := by
  cases b with
  | h b => exact kindOf_kembedK a b
  | icode lines => rfl

theorem ikind_ne0 (b : IBlock) : (ikind b == 0) = false := by
  cases b with
  | h b => exact kindOf_hembedK b
  | icode lines => rfl

/-- one embedded stage-12 block in front of any other blocks, rendered: separator, the block's lines, the rest -/
theorem spellBs_iembed_cons (a : Bool) (b : IBlock) (hok : iblockOK b = true) (prev pm : Nat) (rest : List Block) :
    (spellBs false false prev pm (iembedBlock a b :: rest)).map (renderLine 0 0 0 0) =
      ((match b with
        | .h b' => sepK prev a b'
        | .icode _ => if prev == 0 then [] else [blankLine]).map (renderLine 0 0 0 0)) ++ iblockLines b ++
        (spellBs false false (ikind b) 0 rest).map (renderLine 0 0 0 0) := by
  cases b with
  | h b' =>
    rw [iembedBlock, spellBs_kembed_consK, List.map_append, List.map_append, blockLines_kembedK b' hok]
    rfl
  | icode lines =>
    simp only [iblockOK, Bool.and_eq_true, List.all_eq_true] at hok
    have hl : ∀ l ∈ lines, l.all printable = true := by
      intro l hl
      have := hok.2 l hl
      simp only [icLineOK, Bool.and_eq_true] at this
      exact this.1
    have e : spellBs false false prev pm (iembedBlock a (.icode lines) :: rest) =
        (if prev == 0 then [] else [blankLine]) ++ lines.map (fun l => ((4, l) : Line)) ++ spellBs false false 5 0 rest := by
      simp [iembedBlock, spellBs, kindOf, bch, spellB]
    rw [e, List.map_append, List.map_append, map_renderLine_ic lines hl]
    rfl

/-- the blocks behind a block `a` -/
theorem spellBs_iembedI (its : List IItem) (hok : ∀ it ∈ its, iblockOK it.block = true) (a : IBlock)
    (hs : isepsOK (some a) its = true) (h1 : inoExtraBlanksFrom (some a) its = true) (pm : Nat) :
    (spellBs false false (ikind a) pm (its.map fun it => iembedBlock (it.sep == 0) it.block)).map
        (renderLine 0 0 0 0) = docLinesI its := by
  induction its generalizing a pm with
  | nil => simp [spellBs, docLinesI]
  | cons it rest ih =>
    obtain ⟨s, b⟩ := it
    have hb := hok ⟨s, b⟩ (by simp)
    simp only [isepsOK, Bool.and_eq_true, Bool.or_eq_true, bne_iff_ne, ne_eq, Bool.not_eq_true',
      Bool.and_eq_false_iff] at hs
    simp only [inoExtraBlanksFrom, Bool.and_eq_true, decide_eq_true_eq, Bool.or_eq_true, Bool.not_eq_true',
      beq_iff_eq, Bool.or_eq_false_iff] at h1
    obtain ⟨⟨hs1, hic1⟩, h1r⟩ := h1
    have ih' := ih (fun x hx => hok x (by simp [hx])) b hs.2 h1r 0
    have hk := ikind_ne0 a
    have hsep : ((match b with
        | .h b' => sepK (ikind a) (s == 0) b'
        | .icode _ => if ikind a == 0 then [] else [blankLine]).map (renderLine 0 0 0 0)) = List.replicate s [] := by
      cases b with
      | icode lines =>
        have hs1' : s = 1 := by
          rcases hic1 with h | h
          · simp [IBlock.isIc] at h
          · exact h
        subst hs1'
        simp [hk, renderLine_blank]
      | h b' =>
        cases a with
        | icode la =>
          have hs1' : s = 1 := by
            rcases hic1 with h | h
            · simp [IBlock.isIc] at h
            · exact h
          subst hs1'
          simp [sepK, ikind, renderLine_blank]
        | h a' =>
          by_cases h0 : s = 0
          · subst h0
            have hab : kabutOK a' b' = true := by
              rcases hs.1.1 with h | h
              · exact absurd rfl h
              · simpa [iabutOK] using h
            simp [sepK, ikind, kindOf_hembedK a', canAbut_kembedK a' b' hab]
          · have hs1' : s = 1 := by omega
            subst hs1'
            simp [sepK, ikind, kindOf_hembedK a', renderLine_blank]
    rw [List.map_cons, spellBs_iembed_cons _ b hb, hsep, ih']
    simp [docLinesI]

theorem iblockLines_flatMap (b : IBlock) : (iblockLines b).flatMap (· ++ [10]) = spellIBlock b := by
  cases b with
  | h b => exact hblockLines_flatMapH b
  | icode lines => simp [iblockLines, spellIBlock, List.flatMap_map]

theorem docLinesI_flatMap (its : List IItem) :
    (docLinesI its).flatMap (· ++ [10]) = its.flatMap fun it => blanks it.sep ++ spellIBlock it.block := by
  induction its with
  | nil => simp [docLinesI]
  | cons it rest ih =>
    have e : docLinesI (it :: rest) = List.replicate it.sep [] ++ iblockLines it.block ++ docLinesI rest := by
      simp [docLinesI]
    have hbl : ∀ n : Nat, (List.replicate n ([] : Bytes)).flatMap (· ++ [10]) = blanks n := by
      intro n
      induction n with
      | zero => rfl
      | succ n ihn => rw [List.replicate_succ, List.flatMap_cons, ihn, blanks, blanks, List.replicate_succ]; rfl
    rw [e, List.flatMap_append, List.flatMap_append, ih, iblockLines_flatMap, hbl, List.flatMap_cons]

theorem iblockLines_ne (b : IBlock) (h : iblockOK b = true) : iblockLines b ≠ [] := by
  cases b with
  | h b =>
    have := docLinesH_neH ⟨0, b⟩ [] h
    simpa [docLinesH, iblockLines] using this
  | icode lines =>
    simp only [iblockOK, Bool.and_eq_true, Bool.not_eq_true', List.isEmpty_eq_false_iff] at h
    simpa [iblockLines] using h.1

/-- I2: a non-empty stage-12 document without extra blank lines — exactly one blank line in front of and behind every
    indented code block — is spelled byte for byte like the embedded one -/
theorem spellIc_eq_spell (d : IDoc) (h : IFrag d) (hb : inoExtraBlanks d = true) (hne : d.items ≠ []) :
    spellIc d = spell (iembed d) := by
  obtain ⟨hok, hseps⟩ := ifrag_ok d h
  obtain ⟨items, trail⟩ := d
  cases items with
  | nil => exact absurd rfl hne
  | cons it rest =>
    obtain ⟨s, b⟩ := it
    simp only [inoExtraBlanks, inoExtraBlanksFrom, Bool.and_eq_true, beq_iff_eq] at hb
    obtain ⟨ht, hs0, h1⟩ := hb
    simp only at ht hs0 hok hseps; subst ht; subst hs0
    have hbk := hok ⟨0, b⟩ (by simp)
    simp only [isepsOK] at hseps
    have hrest := spellBs_iembedI rest (fun x hx => hok x (by simp [hx])) b hseps h1 0
    have hl : (spellBs false false 0 0 ((⟨0, b⟩ :: rest : List IItem).map fun it => iembedBlock (it.sep == 0) it.block)).map
        (renderLine 0 0 0 0) = docLinesI (⟨0, b⟩ :: rest) := by
      rw [List.map_cons, spellBs_iembed_cons _ b hbk, hrest]
      cases b <;> simp [sepK, docLinesI]
    have hdn : docLinesI (⟨0, b⟩ :: rest) ≠ [] := by
      have := iblockLines_ne b hbk
      simp [docLinesI, this]
    simp only [spell, iembed, spellIc, blanks, List.replicate_zero, List.append_nil, if_true]
    rw [hl, joinLines_flatMap _ hdn, docLinesI_flatMap]
    simp [blanks]

end GM.Proof.CMFrag
