/-
  GM.Proof.BlocksTNO44 — kernel-checked witness: `L.G.X.TableNodesOK src` (the hypothesis of tnp's
  `transformPT_specX`) is false for `|a|⏎|-|⏎`: on the (valid, but never occurring) line list `[{1,1}, {0,4}, {4,8}]` the
  transformer keeps the EMPTY first line and cuts one byte off it: `{1,0}`, which `LinesOK` rejects. (The block phase never
  hands the transformer an empty line: `InvG`; GM.Proof.BlocksTNO23 `tableNodesOK'` is the statement that holds.)
-/
import GM.Proof.BlocksTNO43

namespace GM.Blocks.TX
open GM GM.Text GM.Blocks GM.TableX GM.Blocks.TO

/-- `|a|⏎|-|⏎` -/
def exT : Bytes := [124, 97, 124, 10, 124, 45, 124, 10]
def exLs : List Segment := [{ start := 1, stop := 1 }, { start := 0, stop := 4 }, { start := 4, stop := 8 }]

theorem tableNodesOK_false : ¬ GM.Blocks.L.G.X.TableNodesOK exT := by
  intro h
  cases ht : (GM.Table.transform exT (exLs.map toSeg)).table with
  | none => exact absurd ht (by decide +kernel)
  | some t =>
    have h1 := (h exLs (by decide) t ht).1
    have hp : ((GM.Table.transform exT (exLs.map toSeg)).para.map ofSeg) = [{ start := 1, stop := 0 }] := by decide +kernel
    rw [hp] at h1
    have := h1 _ (List.mem_singleton.2 rfl)
    obtain ⟨_, h2, _⟩ := this
    exact absurd h2 (by decide)

end GM.Blocks.TX
