/-
  GM.Proof.BlockReaderFuel — the helpers written against the Reader interface (SkipSpaces, FindClosure) and
  `BlockReader.Value` on the BLOCK reader, for a reader that stands for a padding-free cursor (`RS`, the situation
  of every inline-bearing block): the fuel `> remaining bytes` suffices, every interface call they make is inside
  its preconditions (no panic), the reader afterwards again stands for a cursor that did not move back, and the
  segments FindClosure hands out lie at or behind the old cursor and are not inverted. `Value` cannot panic on a
  segment that starts at or behind the first line's start and is not inverted by more than the `+1` of its
  `make`. (GM.Proof.ReaderFuel has the source-reader counterparts.) Used by the link parser's contract
  (GM.Proof.InlinesLink). The last section repeats definedness for ANY line paddings on the cursor `BCur` and lifts
  it to the block reader through the simulation of GM.Proof.BlockReader (`blockReader_skipSpaces_defined`,
  `blockReader_findClosure_defined`) — the block-reader counterpart of `rcur_helpers_defined`, for C18.
-/
import GM.Proof.InlinesReader

namespace GM.Proof.BlockReaderFuel
open GM GM.Text GM.Spec GM.Proof.Reader GM.Proof.InlinesReader

variable {src : Bytes} {segs : List Segment}

theorem spanB_fst_len' (p : UInt8 → Bool) (l : Bytes) : (spanB p l).1.length + (spanB p l).2.length = l.length := by
  have := congrArg List.length (spanB_append p l)
  simpa using this

/-- a closer that `scanLine` finds lies inside the scanned bytes -/
theorem scanLine_found_bound (o cl : UInt8) (cs ne : Bool) (l : Bytes) (i op cso j : Nat) :
    scanLine o cl cs ne l i op cso = .found j → i ≤ j ∧ j < i + l.length := by
  fun_induction scanLine o cl cs ne l i op cso with
  | case1 => intro h; simp at h
  | case2 c rest i op cso hc run n ih =>
    intro h
    have hs : run.1.length + run.2.length = rest.length := spanB_fst_len' (· == 96) rest
    have := ih h
    simp only [List.length_cons]
    omega
  | case3 c rest i op cso h1 h2 ih =>
    intro h
    have := ih h
    cases rest with
    | nil => simp at h2
    | cons d r' => simp only [List.length_cons, List.drop_succ_cons, List.drop_zero] at *; omega
  | case4 c rest i op cso h1 h2 h3 run ih =>
    intro h
    have hs : run.1.length + run.2.length = rest.length := spanB_fst_len' (· == 96) rest
    have := ih h
    simp only [List.length_cons]
    omega
  | case5 => intro h; simp at h; simp only [List.length_cons]; omega
  | case6 c rest i op cso _ _ _ _ _ _ ih => intro h; have := ih h; simp only [List.length_cons]; omega
  | case7 => intro h; simp at h
  | case8 c rest i op cso _ _ _ _ _ _ _ ih => intro h; have := ih h; simp only [List.length_cons]; omega
  | case9 c rest i op cso _ _ _ _ _ _ ih => intro h; have := ih h; simp only [List.length_cons]; omega
  | case10 c rest i op cso _ _ _ _ ih => intro h; have := ih h; simp only [List.length_cons]; omega

theorem getElem?_shift' (pre suf : Bytes) (k m : Nat) (hm : m = pre.length + k) : (pre ++ suf)[m]? = suf[k]? := by
  subst hm
  rw [List.getElem?_append_right (by omega)]
  congr 1; omega

/-- the index `scanLine` reports is the index of a closer byte -/
theorem scanLine_found_closer (o cl : UInt8) (cs ne : Bool) (l : Bytes) (i op cso j : Nat) :
    scanLine o cl cs ne l i op cso = .found j → l[j - i]? = some cl := by
  fun_induction scanLine o cl cs ne l i op cso with
  | case1 => intro h; simp at h
  | case2 c rest i op cso hc run n ih =>
    intro h
    have hb := (scanLine_found_bound _ _ _ _ _ _ _ _ _ h).1
    have hs : run.1 ++ run.2 = rest := spanB_append (· == 96) rest
    rw [← ih h, ← hs]
    exact getElem?_shift' (c :: run.1) run.2 _ _ (by simp only [List.length_cons]; omega)
  | case3 c rest i op cso h1 h2 ih =>
    intro h
    have hb := (scanLine_found_bound _ _ _ _ _ _ _ _ _ h).1
    rw [← ih h]
    cases rest with
    | nil => simp at h2
    | cons d r' =>
      exact getElem?_shift' [c, d] r' _ _ (by simp only [List.length_cons, List.length_nil]; omega)
  | case4 c rest i op cso h1 h2 h3 run ih =>
    intro h
    have hb := (scanLine_found_bound _ _ _ _ _ _ _ _ _ h).1
    have hs : run.1 ++ run.2 = rest := spanB_append (· == 96) rest
    rw [← ih h, ← hs]
    exact getElem?_shift' (c :: run.1) run.2 _ _ (by simp only [List.length_cons]; omega)
  | case5 c rest i op cso _ _ _ _ hc _ =>
    intro h
    simp only [Scan.found.injEq] at h
    subst h
    simp at hc ⊢
    exact hc
  | case6 c rest i op cso _ _ _ _ _ _ ih =>
    intro h
    have hb := (scanLine_found_bound _ _ _ _ _ _ _ _ _ h).1
    rw [← ih h]
    exact getElem?_shift' [c] rest _ _ (by simp only [List.length_cons, List.length_nil]; omega)
  | case7 => intro h; simp at h
  | case8 c rest i op cso _ _ _ _ _ _ _ ih =>
    intro h
    have hb := (scanLine_found_bound _ _ _ _ _ _ _ _ _ h).1
    rw [← ih h]
    exact getElem?_shift' [c] rest _ _ (by simp only [List.length_cons, List.length_nil]; omega)
  | case9 c rest i op cso _ _ _ _ _ _ ih =>
    intro h
    have hb := (scanLine_found_bound _ _ _ _ _ _ _ _ _ h).1
    rw [← ih h]
    exact getElem?_shift' [c] rest _ _ (by simp only [List.length_cons, List.length_nil]; omega)
  | case10 c rest i op cso _ _ _ _ ih =>
    intro h
    have hb := (scanLine_found_bound _ _ _ _ _ _ _ _ _ h).1
    rw [← ih h]
    exact getElem?_shift' [c] rest _ _ (by simp only [List.length_cons, List.length_nil]; omega)

/-! ### SkipSpaces -/

/-- the inner loop of SkipSpaces over (a suffix of) the peeked line: every `Advance(1)` is inside the line -/
theorem skipSpacesLine_post (F : SegFacts src segs) (Z : ∀ s ∈ segs, s.padding = 0) (seg : Segment) :
    ∀ (l : Bytes) (i chars : Int) {r : BlockReader} {c : BCur}, RS src segs r c →
    (l.length : Int) ≤ BCur.remaining segs c →
    ∃ res ch r' c', skipSpacesLine blockOps seg l i chars r = .ok (res, ch, r') ∧ RS src segs r' c' ∧
      c.p ≤ c'.p ∧ c.ln ≤ c'.ln ∧ BCur.remaining segs c' ≤ BCur.remaining segs c ∧
      (res = none → BCur.remaining segs c' = BCur.remaining segs c - l.length) := by
  intro l
  induction l with
  | nil =>
    intro i chars r c h _
    exact ⟨none, chars, r, c, rfl, h, Int.le_refl _, Int.le_refl _, Int.le_refl _, fun _ => by simp⟩
  | cons b bs ih =>
    intro i chars r c h hl
    simp only [List.length_cons] at hl
    simp only [skipSpacesLine]
    split
    · obtain ⟨r1, c1, e1, e2, e3, e4, e5, _⟩ := advance_ok F Z h (n := 1) (by omega) (by omega)
      have e1' : blockOps.advance 1 r = .ok r1 := e1
      simp only [e1', bind, Except.bind]
      obtain ⟨res, ch, r', c', g1, g2, g3, g4, g5, g6⟩ := ih (i + 1) (chars + 1) e2 (by omega)
      refine ⟨res, ch, r', c', g1, g2, by omega, by omega, by omega, ?_⟩
      intro hn
      have := g6 hn
      simp only [List.length_cons]; omega
    · exact ⟨_, _, r, c, rfl, h, Int.le_refl _, Int.le_refl _, Int.le_refl _, fun hh => by simp at hh⟩

/-- SkipSpaces on the block reader: a fuel above the number of bytes in front of the cursor suffices -/
theorem skipSpaces_post (F : SegFacts src segs) (Z : ∀ s ∈ segs, s.padding = 0) :
    ∀ (fuel : Nat) (chars : Int) {r : BlockReader} {c : BCur}, RS src segs r c →
    (BCur.remaining segs c).toNat < fuel →
    ∃ x r' c', skipSpaces blockOps fuel chars r = .ok (x, r') ∧ RS src segs r' c' ∧
      c.p ≤ c'.p ∧ c.ln ≤ c'.ln ∧ BCur.remaining segs c' ≤ BCur.remaining segs c := by
  intro fuel
  induction fuel with
  | zero => intro chars r c _ hf; omega
  | succ f ih =>
    intro chars r c h hf
    obtain ⟨hpl, hpos⟩ := peekLine_facts F h
    have hpl' : blockOps.peekLine r = .ok ((BCur.view src segs c, r.pos), r) := hpl
    simp only [skipSpaces, hpl', bind, Except.bind]
    cases hv : BCur.view src segs c with
    | none => exact ⟨_, r, c, rfl, h, Int.le_refl _, Int.le_refl _, Int.le_refl _⟩
    | some l =>
      obtain ⟨v1, v2, v3, v4, v5, v6, v7, v8⟩ := view_some F h.abs.wf h.pad hv
      simp only
      obtain ⟨res, ch, r1, c1, g1, g2, g3, g4, g5, g6⟩ := skipSpacesLine_post F Z r.pos l 0 chars h v7
      simp only [g1]
      cases res with
      | some v => exact ⟨_, r1, c1, rfl, g2, g3, g4, g5⟩
      | none =>
        have := g6 rfl
        obtain ⟨x, r2, c2, k1, k2, k3, k4, k5⟩ := ih ch g2 (by omega)
        exact ⟨x, r2, c2, k1, k2, by omega, by omega, by omega⟩

/-! ### FindClosure -/

/-- the loop of FindClosure on the block reader: the fuel suffices, the calls are inside their preconditions;
    every segment handed out starts at or behind `lo` (any bound at or in front of the cursor) and is not
    inverted -/
theorem findClosureLoop_post (F : SegFacts src segs) (Z : ∀ s ∈ segs, s.padding = 0) (o cl : UInt8)
    (opts : FindClosureOptions) (lo : Int) :
    ∀ (fuel opened cso : Nat) (ret : Option (List Segment)) {r : BlockReader} {c : BCur}, RS src segs r c →
    (BCur.remaining segs c).toNat < fuel → lo ≤ c.p →
    (∀ s ∈ ret.getD [], lo ≤ s.start ∧ s.start ≤ s.stop) →
    ∃ x r' c', findClosureLoop blockOps o cl opts fuel opened cso ret r = .ok (x, r') ∧ RS src segs r' c' ∧
      c.p ≤ c'.p ∧ c.ln ≤ c'.ln ∧ BCur.remaining segs c' ≤ BCur.remaining segs c ∧
      (∀ s ∈ x.1.getD [], lo ≤ s.start ∧ s.start ≤ s.stop) := by
  intro fuel
  induction fuel with
  | zero => intro opened cso ret r c _ hf; omega
  | succ f ih =>
    intro opened cso ret r c h hf hlo hret
    obtain ⟨hpl, hpos⟩ := peekLine_facts F h
    have hpl' : blockOps.peekLine r = .ok ((BCur.view src segs c, r.pos), r) := hpl
    simp only [findClosureLoop, hpl', bind, Except.bind]
    cases hv : BCur.view src segs c with
    | none => exact ⟨_, r, c, rfl, h, Int.le_refl _, Int.le_refl _, Int.le_refl _, hret⟩
    | some bs =>
      obtain ⟨v1, v2, v3, v4, v5, v6, v7, v8⟩ := view_some F h.abs.wf h.pad hv
      simp only
      cases hsc : scanLine o cl opts.codeSpan opts.nesting bs 0 opened cso with
      | found i =>
        have hb := scanLine_found_bound o cl opts.codeSpan opts.nesting bs 0 opened cso i hsc
        obtain ⟨r1, c1, e1, e2, e3, e4, e5, _⟩ := advance_ok F Z h (n := (i : Int) + 1) (by omega) (by omega)
        have e1' : blockOps.advance ((i : Int) + 1) r = .ok r1 := e1
        simp only [e1', pure, Except.pure]
        refine ⟨_, r1, c1, rfl, e2, by omega, e4, by omega, ?_⟩
        intro s hs
        simp only [Option.getD_some, List.mem_append, List.mem_singleton] at hs
        rcases hs with hs | hs
        · exact hret s hs
        · subst hs
          simp only [Segment.withStop, hpos]
          exact ⟨hlo, by omega⟩
      | stop => exact ⟨_, r, c, rfl, h, Int.le_refl _, Int.le_refl _, Int.le_refl _, hret⟩
      | eol o2 c2 =>
        simp only
        split
        · exact ⟨_, r, c, rfl, h, Int.le_refl _, Int.le_refl _, Int.le_refl _, hret⟩
        · obtain ⟨r1, e1, e2⟩ := advanceLine_ok F Z h
          obtain ⟨a1, a2, a3, a4, a5⟩ := advanceLine_facts F h.abs.wf h.pad
          have e1' : blockOps.advanceLine r = .ok r1 := e1
          simp only [e1']
          have := a4 v8
          obtain ⟨x, r2, cc, k1, k2, k3, k4, k5, k6⟩ := ih o2 c2 (some (ret.getD [] ++ [r.pos])) e2 (by omega) (by omega)
            (by
              intro s hs
              simp only [Option.getD_some, List.mem_append, List.mem_singleton] at hs
              rcases hs with hs | hs
              · exact hret s hs
              · subst hs; rw [hpos]; exact ⟨hlo, by simp only; omega⟩)
          exact ⟨x, r2, cc, k1, k2, by omega, by omega, by omega, k6⟩

/-- FindClosure on the block reader (any options): defined, the reader stands for a cursor that did not move
    back, the segments start at or behind the old cursor and are not inverted -/
theorem findClosure_post (F : SegFacts src segs) (Z : ∀ s ∈ segs, s.padding = 0) (o cl : UInt8)
    (opts : FindClosureOptions) (fuel : Nat) {r : BlockReader} {c : BCur} (h : RS src segs r c)
    (hf : (BCur.remaining segs c).toNat < fuel) :
    ∃ x r' c', findClosure blockOps fuel o cl opts r = .ok (x, r') ∧ RS src segs r' c' ∧
      c.p ≤ c'.p ∧ c.ln ≤ c'.ln ∧ BCur.remaining segs c' ≤ BCur.remaining segs c ∧
      (∀ s ∈ x.1.getD [], c.p ≤ s.start ∧ s.start ≤ s.stop) := by
  obtain ⟨x, r1, c1, e1, e2, e3, e4, e5, e6⟩ := findClosureLoop_post F Z o cl opts c.p fuel 1 0 none h hf
    (Int.le_refl _) (by intro s hs; simp at hs)
  unfold findClosure
  simp only [e1, bind, Except.bind]
  by_cases ha : (!opts.advance) = true
  · simp only [ha, if_true]
    obtain ⟨r3, s1, s2⟩ := setPosition_restore F h e2
    have s1' : blockOps.setPosition (blockOps.position r).1 (blockOps.position r).2 r1 = .ok r3 := s1
    simp only [s1']
    split
    · exact ⟨_, r3, c, rfl, s2, Int.le_refl _, Int.le_refl _, Int.le_refl _, e6⟩
    · exact ⟨_, r3, c, rfl, s2, Int.le_refl _, Int.le_refl _, Int.le_refl _, by intro s hs; simp at hs⟩
  · simp only [ha, Bool.false_eq_true, if_false, pure, Except.pure]
    split
    · exact ⟨_, r1, c1, rfl, e2, e3, e4, e5, e6⟩
    · exact ⟨_, r1, c1, rfl, e2, e3, e4, e5, by intro s hs; simp at hs⟩

/-! ### Value -/

theorem valueFindLine_total (_F : SegFacts src segs) {r : BlockReader} {c : BCur} (h : BAbs src segs r c) (s : Segment)
    (h0 : (BCur.segOf segs 0).start ≤ s.start) :
    ∀ m : Nat, 1 ≤ m → (m : Int) ≤ BCur.k segs →
    ∃ j : Int, BlockReader.valueFindLine r s m = .ok j ∧ 0 ≤ j ∧ j < m := by
  intro m
  induction m with
  | zero => intro hm; omega
  | succ m ih =>
    intro _ hk
    simp only [BlockReader.valueFindLine, h.segments, segAt_ok segs (m : Int) (by omega) (by omega), bind, Except.bind]
    split
    · exact ⟨m, rfl, by omega, by omega⟩
    · rename_i hlt
      by_cases hm0 : m = 0
      · subst hm0; exfalso; apply hlt; simpa using h0
      · obtain ⟨j, e1, e2, e3⟩ := ih (by omega) (by omega)
        exact ⟨j, e1, e2, by omega⟩

theorem copyRange_ok (i hi : Int) (h0 : 0 ≤ i) (h1 : hi ≤ src.length) : ∃ v, BlockReader.copyRange src i hi = .ok v := by
  unfold BlockReader.copyRange
  split
  · exact ⟨_, rfl⟩
  · split
    · omega
    · exact ⟨_, rfl⟩

theorem valueLoop_total (F : SegFacts src segs) {r : BlockReader} {c : BCur} (h : BAbs src segs r c) (s : Segment) :
    ∀ (fuel : Nat) (line i : Int) (ret : Bytes), 0 ≤ line → line + fuel ≤ BCur.k segs → (0 ≤ i ∨ i < 0) →
    (0 ≤ i ∨ i = -1) → ∃ v, BlockReader.valueLoop r s fuel line i ret = .ok v := by
  intro fuel
  induction fuel with
  | zero => intro line i ret _ _ _ _; exact ⟨ret, rfl⟩
  | succ f ih =>
    intro line i ret hl hk _ hi
    have rng := F.rng line hl (by omega)
    simp only [BlockReader.valueLoop, h.segments, segAt_ok segs line hl (by omega), bind, Except.bind, h.source]
    obtain ⟨v, hv⟩ := copyRange_ok (src := src)
      (if i < 0 then (BCur.segOf segs line).start else i)
      (if s.stop < (BCur.segOf segs line).stop then s.stop else (BCur.segOf segs line).stop)
      (by split <;> omega) (by split <;> omega)
    simp only [hv]
    -- (the accumulated bytes are left opaque: the proof does not depend on how the line's padding is added)
    by_cases hge : (BCur.segOf segs line).stop ≥ s.stop
    · simp only [hge, if_true]
      exact ⟨_, rfl⟩
    · simp only [hge, if_false]
      exact ih (line + 1) (-1) _ (by omega) (by omega) (Or.inr (by omega)) (Or.inr rfl)

/-- `BlockReader.Value(seg)` cannot panic when `seg` starts at or behind the start of the block's first line
    and `seg.Stop - seg.Start + 1 ≥ 0` (the capacity of its `make`) -/
theorem valueOp_ok (F : SegFacts src segs) {r : BlockReader} {c : BCur} (h : BAbs src segs r c) (s : Segment)
    (h0 : (BCur.segOf segs 0).start ≤ s.start) (h1 : s.start ≤ s.stop + 1) : ∃ v, r.valueOp s = .ok v := by
  unfold BlockReader.valueOp
  have e0 : ¬ (s.stop - s.start + 1 < 0) := by omega
  have hk : (BCur.k segs).toNat = segs.length := by simp [BCur.k]
  have hkpos := F.kpos
  obtain ⟨j, j1, j2, j3⟩ := valueFindLine_total F h s h0 (BCur.k segs).toNat (by omega) (by omega)
  simp only [e0, if_false, bind, Except.bind, h.segLen, j1]
  have r0 := F.rng 0 (Int.le_refl _) hkpos
  exact valueLoop_total F h s _ j s.start [] j2 (by omega) (by omega) (Or.inl (by omega))

/-- the bytes of a list of segments (link.go:264-273, 387-395): no panic -/
theorem segsValue_ok (F : SegFacts src segs) {r : BlockReader} {c : BCur} (h : BAbs src segs r c) :
    ∀ (l : List Segment), (∀ s ∈ l, (BCur.segOf segs 0).start ≤ s.start ∧ s.start ≤ s.stop) →
    ∃ v, GM.Inl.segsValue r l = .ok v
  | [], _ => ⟨[], rfl⟩
  | s :: rest, hl => by
    obtain ⟨v, hv⟩ := valueOp_ok F h s (hl s (by simp)).1 (by have := (hl s (by simp)).2; omega)
    obtain ⟨w, hw⟩ := segsValue_ok F h rest (fun x hx => hl x (by simp [hx]))
    simp only [GM.Inl.segsValue, hv, hw, bind, Except.bind, pure, Except.pure]
    exact ⟨_, rfl⟩

/-- the cursor never stands in front of the first line -/
theorem first_le_p (F : SegFacts src segs) {c : BCur} (w : BWF segs c) : (BCur.segOf segs 0).start ≤ c.p := by
  have hk := F.kpos
  have r0 := F.rng 0 (Int.le_refl _) hk
  by_cases hl : c.ln < BCur.k segs
  · have i1 := (w.inLine hl).1
    by_cases h0 : c.ln = 0
    · rw [h0] at i1; exact i1
    · have := F.mono 0 c.ln (Int.le_refl _) (by have := w.ln0; omega) hl
      have r1 := F.rng c.ln w.ln0 hl
      omega
  · have i1 := (w.past (by omega)).1
    by_cases h0 : BCur.k segs - 1 = 0
    · rw [h0] at i1; exact i1
    · have := F.mono 0 (BCur.k segs - 1) (Int.le_refl _) (by omega) (by omega)
      have r1 := F.rng (BCur.k segs - 1) (by omega) (by omega)
      omega

/-! ### the same for ANY line paddings, on the cursor `BCur` and lifted to the block reader (for C18)

A fuel above `remaining` (the number of bytes of the view in front of the cursor, virtual padding included)
suffices for SkipSpaces and FindClosure; every interface call is inside the cursor's preconditions. -/

theorem bcur_view_len (F : SegFacts src segs) {c : BCur} (w : BWF segs c) {l : Bytes}
    (hv : BCur.view src segs c = some l) :
    1 ≤ l.length ∧ (l.length : Int) ≤ BCur.remaining segs c ∧ BCur.live segs c = true ∧
    BCur.remaining segs c = c.pad + (BCur.stopOf segs c - c.p) + BCur.viewsLen (segs.drop (c.ln.toNat + 1)) ∧
    c.p < BCur.stopOf segs c := by
  unfold BCur.view at hv
  split at hv
  · rename_i hl
    have hlive := hl
    simp only [BCur.live, Bool.and_eq_true, decide_eq_true_eq] at hl
    obtain ⟨l1, l2⟩ := hl
    have i1 := w.inLine l1
    have i2 := F.rng c.ln w.ln0 l1
    have hst : BCur.stopOf segs c = (BCur.segOf segs c.ln).stop := by simp [BCur.stopOf, l1]
    have hplt : c.p < BCur.stopOf segs c := by
      rw [hst]
      rcases i1.2 with h' | ⟨h1, h2⟩
      · exact h'
      · have := F.last
        have e : BCur.k segs - 1 = c.ln := by omega
        rw [e] at this
        omega
    have hrem : BCur.remaining segs c = c.pad + (BCur.stopOf segs c - c.p) +
        BCur.viewsLen (segs.drop (c.ln.toNat + 1)) := by simp [BCur.remaining, hlive]
    have v := viewsLen_nonneg F (c.ln.toNat + 1)
    have hp0 := w.pad0
    simp only [Option.some.injEq] at hv
    have hlen : (l.length : Int) = c.pad + (BCur.stopOf segs c - c.p) := by
      rw [← hv]
      simp only [List.length_append, spaces, List.length_replicate, length_sub src (b := (BCur.stopOf segs c).toNat) (by omega)]
      omega
    exact ⟨by omega, by omega, hlive, hrem, hplt⟩
  · simp at hv

theorem bwf_advanceLine (F : SegFacts src segs) {c : BCur} (w : BWF segs c) : BWF segs (BCur.advanceLine segs c) := by
  unfold BCur.advanceLine
  split
  · rename_i hl
    have r := F.rng (c.ln + 1) (by have := w.ln0; omega) hl
    exact { ln0 := by have := w.ln0; simp only; omega, pad0 := r.2.2.2.1,
            inLine := fun _ => ⟨Int.le_refl _, Or.inl r.2.1⟩, past := fun h => by simp only at h; omega }
  · rename_i hl
    refine { ln0 := by have := w.ln0; simp only; omega, pad0 := w.pad0, inLine := fun h => by simp only at h; omega,
             past := fun _ => ?_ }
    simp only
    by_cases hk : c.ln < BCur.k segs
    · have i1 := w.inLine hk
      have e : BCur.k segs - 1 = c.ln := by omega
      rw [e, F.last, e]
      rcases i1.2 with h' | ⟨_, h'⟩ <;> exact ⟨i1.1, by omega⟩
    · exact w.past (by omega)

theorem rem_advanceLine (F : SegFacts src segs) {c : BCur} (w : BWF segs c) {l : Bytes}
    (hv : BCur.view src segs c = some l) :
    BCur.remaining segs (BCur.advanceLine segs c) + 1 ≤ BCur.remaining segs c := by
  obtain ⟨_, _, hlive, hrem, hplt⟩ := bcur_view_len F w hv
  have hl := hlive
  simp only [BCur.live, Bool.and_eq_true, decide_eq_true_eq] at hl
  have hp0 := w.pad0
  by_cases hn : c.ln + 1 < BCur.k segs
  · have e : BCur.advanceLine segs c = ⟨c.ln + 1, (BCur.segOf segs (c.ln + 1)).start,
        (BCur.segOf segs (c.ln + 1)).padding⟩ := by simp [BCur.advanceLine, hn]
    have i2 := F.rng (c.ln + 1) (by have := w.ln0; omega) hn
    have hsl := stop_le_last F (i := c.ln + 1) (by have := w.ln0; omega) hn
    have hlive' : BCur.live segs ⟨c.ln + 1, (BCur.segOf segs (c.ln + 1)).start, (BCur.segOf segs (c.ln + 1)).padding⟩ = true := by
      simp [BCur.live, hn]; omega
    have hvd := viewsLen_drop segs (c.ln + 1) (by have := w.ln0; omega) hn
    have et : (c.ln + 1).toNat = c.ln.toNat + 1 := by have := w.ln0; omega
    have hr' : BCur.remaining segs ⟨c.ln + 1, (BCur.segOf segs (c.ln + 1)).start, (BCur.segOf segs (c.ln + 1)).padding⟩ =
        BCur.viewsLen (segs.drop (c.ln.toNat + 1)) := by
      simp only [BCur.remaining, hlive', if_true, BCur.stopOf, hn]
      rw [et] at hvd ⊢
      rw [hvd]
    rw [e, hr', hrem]; omega
  · have e : BCur.advanceLine segs c = { c with ln := c.ln + 1 } := by simp [BCur.advanceLine, hn]
    have hd : BCur.remaining segs { c with ln := c.ln + 1 } = 0 := by
      have : BCur.live segs { c with ln := c.ln + 1 } = false := by simp [BCur.live]; intro h; omega
      simp [BCur.remaining, this]
    have v := viewsLen_nonneg F (c.ln.toNat + 1)
    rw [e, hd, hrem]; omega

theorem bcur_advN_rem (F : SegFacts src segs) (n : Nat) : ∀ {c : BCur}, BWF segs c → (n : Int) ≤ BCur.remaining segs c →
    BWF segs (BCur.advN segs n c) ∧ BCur.remaining segs (BCur.advN segs n c) = BCur.remaining segs c - n := by
  induction n with
  | zero => intro c w _; simp [BCur.advN, w]
  | succ n ih =>
    intro c w hn
    have hl : BCur.live segs c = true := rem_nonneg_live (by omega)
    obtain ⟨r1, r2⟩ := rem_adv1 F w hl
    obtain ⟨b1, b2⟩ := ih r2 (by omega)
    simp only [BCur.advN]
    exact ⟨b1, by omega⟩

theorem bcur_skipSpacesLine_ok (F : SegFacts src segs) (seg : Segment) : ∀ (l : Bytes) (i chars : Int) {c : BCur},
    BWF segs c → (l.length : Int) ≤ BCur.remaining segs c →
    ∃ res ch c', skipSpacesLine (BCur.ops src segs) seg l i chars c = .ok (res, ch, c') ∧ BWF segs c' ∧
      BCur.remaining segs c' ≤ BCur.remaining segs c ∧
      (res = none → BCur.remaining segs c' = BCur.remaining segs c - l.length) := by
  intro l
  induction l with
  | nil => intro i chars c w _; exact ⟨none, chars, c, rfl, w, Int.le_refl _, fun _ => by simp⟩
  | cons b bs ih =>
    intro i chars c w hl
    simp only [List.length_cons] at hl
    simp only [skipSpacesLine]
    split
    · have ha : (BCur.ops src segs).advance 1 c = .ok (BCur.advN segs 1 c) := by
        simp only [BCur.ops, BCur.advance]
        rw [if_pos ⟨by omega, by omega⟩]; rfl
      obtain ⟨w1, r1⟩ := bcur_advN_rem F 1 w (by omega)
      simp only [ha, bind, Except.bind]
      obtain ⟨res, ch, c', g1, g2, g3, g4⟩ := ih (i + 1) (chars + 1) w1 (by omega)
      refine ⟨res, ch, c', g1, g2, by omega, ?_⟩
      intro hn; have := g4 hn; simp only [List.length_cons]; omega
    · exact ⟨_, _, c, rfl, w, Int.le_refl _, fun h => by simp at h⟩

/-- SkipSpaces on the block cursor, any paddings -/
theorem bcur_skipSpaces_ok (F : SegFacts src segs) : ∀ (fuel : Nat) (chars : Int) {c : BCur}, BWF segs c →
    (BCur.remaining segs c).toNat < fuel →
    ∃ x c', skipSpaces (BCur.ops src segs) fuel chars c = .ok (x, c') ∧ BWF segs c' ∧
      BCur.remaining segs c' ≤ BCur.remaining segs c := by
  intro fuel
  induction fuel with
  | zero => intro chars c _ hf; omega
  | succ f ih =>
    intro chars c w hf
    have hpl : (BCur.ops src segs).peekLine c = .ok ((BCur.view src segs c, BCur.seg segs c), c) := rfl
    simp only [skipSpaces, hpl, bind, Except.bind]
    cases hv : BCur.view src segs c with
    | none => exact ⟨_, c, rfl, w, Int.le_refl _⟩
    | some l =>
      obtain ⟨v1, v2, _, _, _⟩ := bcur_view_len F w hv
      simp only
      obtain ⟨res, ch, c1, g1, g2, g3, g4⟩ := bcur_skipSpacesLine_ok F (BCur.seg segs c) l 0 chars w v2
      simp only [g1]
      cases res with
      | some v => exact ⟨_, c1, rfl, g2, g3⟩
      | none =>
        have := g4 rfl
        obtain ⟨x, c2, k1, k2, k3⟩ := ih ch g2 (by omega)
        exact ⟨x, c2, k1, k2, by omega⟩

theorem bcur_findClosureLoop_ok (F : SegFacts src segs) (o cl : UInt8) (opts : FindClosureOptions) :
    ∀ (fuel opened cso : Nat) (ret : Option (List Segment)) {c : BCur}, BWF segs c →
    (BCur.remaining segs c).toNat < fuel →
    ∃ x c', findClosureLoop (BCur.ops src segs) o cl opts fuel opened cso ret c = .ok (x, c') ∧ BWF segs c' ∧
      BCur.remaining segs c' ≤ BCur.remaining segs c := by
  intro fuel
  induction fuel with
  | zero => intro opened cso ret c _ hf; omega
  | succ f ih =>
    intro opened cso ret c w hf
    have hpl : (BCur.ops src segs).peekLine c = .ok ((BCur.view src segs c, BCur.seg segs c), c) := rfl
    simp only [findClosureLoop, hpl, bind, Except.bind]
    cases hv : BCur.view src segs c with
    | none => exact ⟨_, c, rfl, w, Int.le_refl _⟩
    | some bs =>
      obtain ⟨v1, v2, _, _, _⟩ := bcur_view_len F w hv
      simp only
      cases hsc : scanLine o cl opts.codeSpan opts.nesting bs 0 opened cso with
      | found i =>
        have hb := scanLine_found_bound o cl opts.codeSpan opts.nesting bs 0 opened cso i hsc
        have ha : (BCur.ops src segs).advance ((i : Int) + 1) c = .ok (BCur.advN segs (i + 1) c) := by
          simp only [BCur.ops, BCur.advance]
          rw [if_pos ⟨by omega, by omega⟩]
          congr 2
        obtain ⟨w1, r1⟩ := bcur_advN_rem F (i + 1) w (by push_cast; omega)
        simp only [ha, pure, Except.pure]
        exact ⟨_, _, rfl, w1, by omega⟩
      | stop => exact ⟨_, c, rfl, w, Int.le_refl _⟩
      | eol o2 c2 =>
        simp only
        split
        · exact ⟨_, c, rfl, w, Int.le_refl _⟩
        · have hal : (BCur.ops src segs).advanceLine c = .ok (BCur.advanceLine segs c) := rfl
          simp only [hal]
          have hr := rem_advanceLine F w hv
          obtain ⟨x, cc, k1, k2, k3⟩ := ih o2 c2 (some (ret.getD [] ++ [BCur.seg segs c])) (bwf_advanceLine F w) (by omega)
          exact ⟨x, cc, k1, k2, by omega⟩

/-- FindClosure on the block cursor, any paddings, any options -/
theorem bcur_findClosure_ok (F : SegFacts src segs) (o cl : UInt8) (opts : FindClosureOptions) (fuel : Nat) {c : BCur}
    (w : BWF segs c) (hf : (BCur.remaining segs c).toNat < fuel) :
    ∃ x c', findClosure (BCur.ops src segs) fuel o cl opts c = .ok (x, c') ∧ BWF segs c' := by
  obtain ⟨x, c1, e1, w1, _⟩ := bcur_findClosureLoop_ok F o cl opts fuel 1 0 none w hf
  unfold findClosure
  simp only [e1, bind, Except.bind]
  by_cases ha : (!opts.advance) = true
  · simp only [ha, if_true]
    have : (BCur.ops src segs).setPosition ((BCur.ops src segs).position c).1 ((BCur.ops src segs).position c).2 c1 = .ok c :=
      bcur_setPosition_seg F c c1 w
    simp only [this]
    split <;> exact ⟨_, c, rfl, w⟩
  · simp only [ha, Bool.false_eq_true, if_false, pure, Except.pure]
    split <;> exact ⟨_, c1, rfl, w1⟩

/-- fuel_suffices for the block READER (any paddings): SkipSpaces and FindClosure are defined — no `loop`, no panic —
    on a reader that stands for a well-formed cursor, given a fuel above the bytes in front of it -/
theorem blockReader_skipSpaces_defined (F : SegFacts src segs) {r : BlockReader} {c : BCur} (h : BAbs src segs r c)
    (fuel : Nat) (hf : (BCur.remaining segs c).toNat < fuel) :
    ∃ x r' c', skipSpaces blockOps fuel 0 r = .ok (x, r') ∧ BAbs src segs r' c' := by
  obtain ⟨x, c', e, _, _⟩ := bcur_skipSpaces_ok (src := src) F fuel 0 h.wf hf
  obtain ⟨r', e', a'⟩ := skipSpaces_sim (blockSim F) fuel h e
  exact ⟨x, r', c', e', a'⟩

theorem blockReader_findClosure_defined (F : SegFacts src segs) {r : BlockReader} {c : BCur} (h : BAbs src segs r c)
    (o cl : UInt8) (opts : FindClosureOptions) (fuel : Nat) (hf : (BCur.remaining segs c).toNat < fuel) :
    ∃ x r' c', findClosure blockOps fuel o cl opts r = .ok (x, r') ∧ BAbs src segs r' c' := by
  obtain ⟨x, c', e, _⟩ := bcur_findClosure_ok (src := src) F o cl opts fuel h.wf hf
  obtain ⟨r', e', a'⟩ := findClosure_sim (blockSim F) fuel o cl opts h e
  exact ⟨x, r', c', e', a'⟩

end GM.Proof.BlockReaderFuel
