/-
  GM.Proof.ConvertFBr — what the functions of the ten block parsers and the link reference transformer do to nodes of kind
  Blockquote (the kind `*ast.Footnote` and the FootnoteList have in the store of GM.Model.ConvertF), as a step relation
  `BR W`: the store only grows, kinds and the open-block stack stay, the LINES of a Blockquote-kind node outside `W` are
  not written, and no child edge TO an existing Blockquote-kind node is added. `W` = the nodes the function may write lines
  of (its own node). Technique: GM.Proof.ConvertHWF / ConvertHWFPar / ConvertHWFClose (`Lk`, `Stp`, `StpX`, tactics `lk`,
  `stp`) with the relation changed; the tree mutators come from GM.Proof.ConvertHWFOps (`OpR`, `RmR`) plus "they write no
  lines" (`Ln`).
-/
import GM.Proof.ConvertHWFOpen
import GM.Proof.ConvertHWFClose

namespace GM.ConvertF
open GM GM.Text GM.Blocks GM.ConvertH

/-! ### the relation -/

structure BR (W : Nat → Prop) (s s' : St) : Prop where
  len : s.nodes.length ≤ s'.nodes.length
  kind : ∀ i, i < s.nodes.length → (ndx s' i).kind = (ndx s i).kind
  opened : s'.pc.opened = s.pc.opened
  lines : ∀ i, ¬ W i → (ndx s' i).kind = .blockquote → (ndx s' i).lines = (ndx s i).lines
  edges : ∀ p c, c ∈ (ndx s' p).children → (ndx s' c).kind = .blockquote → c < s.nodes.length → c ∈ (ndx s p).children

theorem ndx_default_lines (s : St) {i : Nat} (h : s.nodes.length ≤ i) : (ndx s i).lines = [] := by rw [ndx_ge s h]; rfl

theorem BR.refl (W : Nat → Prop) (s : St) : BR W s s := ⟨Nat.le_refl _, fun _ _ => rfl, rfl, fun _ _ _ => rfl, fun _ _ h _ _ => h⟩

theorem BR.trans {W : Nat → Prop} {a b c : St} (h1 : BR W a b) (h2 : BR W b c) : BR W a c where
  len := Nat.le_trans h1.len h2.len
  kind := fun i hi => (h2.kind i (Nat.lt_of_lt_of_le hi h1.len)).trans (h1.kind i hi)
  opened := h2.opened.trans h1.opened
  lines := fun i hw hk => by
    have e2 := h2.lines i hw hk
    by_cases hi : i < b.nodes.length
    · have hk1 : (ndx b i).kind = .blockquote := by rw [← h2.kind i hi]; exact hk
      rw [e2, h1.lines i hw hk1]
    · have hi' : b.nodes.length ≤ i := Nat.le_of_not_lt hi
      rw [e2, ndx_default_lines b hi', ndx_default_lines a (Nat.le_trans h1.len hi')]
  edges := fun p x hx hk hv => by
    have hv1 := Nat.lt_of_lt_of_le hv h1.len
    have e2 := h2.edges p x hx hk hv1
    have hk1 : (ndx b x).kind = .blockquote := by rw [← h2.kind x hv1]; exact hk
    exact h1.edges p x e2 hk1 hv

theorem BR.weaken {W W' : Nat → Prop} {s s' : St} (h : BR W s s') (hw : ∀ i, W i → W' i) : BR W' s s' :=
  ⟨h.len, h.kind, h.opened, fun i hn hk => h.lines i (fun x => hn (hw i x)) hk, h.edges⟩

theorem BR.of_same {W : Nat → Prop} {s s' : St} (hn : s'.nodes = s.nodes) (hp : s'.pc.opened = s.pc.opened) : BR W s s' :=
  ⟨by rw [hn]; exact Nat.le_refl _, fun i _ => by simp only [ndx, hn], hp, fun i _ _ => by simp only [ndx, hn],
   fun p c h _ _ => by simpa only [ndx, hn] using h⟩

/-- a step that may write the node `x` created in between, which is not of kind Blockquote -/
theorem BR.trans_new {W : Nat → Prop} {a b c : St} {x : Nat} (h1 : BR W a b) (hx : a.nodes.length ≤ x)
    (hxb : x < b.nodes.length) (hk : (ndx b x).kind ≠ .blockquote) (h2 : BR (fun i => W i ∨ i = x) b c) : BR W a c := by
  have h2' : BR W b c := by
    refine ⟨h2.len, h2.kind, h2.opened, fun i hw hki => ?_, h2.edges⟩
    by_cases hix : i = x
    · subst hix
      rw [h2.kind i hxb] at hki
      exact absurd hki hk
    · exact h2.lines i (fun o => o.elim hw hix) hki
  exact h1.trans h2'

/-! ### programs -/

structure Br {α : Type} (W : Nat → Prop) (m : M α) : Prop where
  h : ∀ s a s', m s = .ok (a, s') → BR W s s'

variable {W : Nat → Prop}

theorem Br.pure {α} (a : α) : Br W (Pure.pure a : M α) := ⟨fun s _ _ h => by cases h; exact BR.refl W s⟩
theorem Br.throw {α} (e : Panic) : Br W (throw e : M α) := ⟨fun _ _ _ h => by cases h⟩

theorem Br.bind {α β} {m : M α} {f : α → M β} (hm : Br W m) (hf : ∀ a, Br W (f a)) : Br W (m >>= f) := by
  constructor
  intro s b s'' h
  obtain ⟨a, s', h1, h2⟩ := bind_ok h
  exact (hm.h s a s' h1).trans ((hf a).h s' b s'' h2)

theorem Br.ite {α} {c : Prop} [Decidable c] {a b : M α} (ha : Br W a) (hb : Br W b) : Br W (if c then a else b) := by
  split <;> assumption

theorem Br.weaken {α} {W' : Nat → Prop} {m : M α} (h : Br W m) (hw : ∀ i, W i → W' i) : Br W' m :=
  ⟨fun s a s' e => (h.h s a s' e).weaken hw⟩

theorem Br.of_same {α} {m : M α} (h : ∀ s a s', m s = .ok (a, s') → s'.nodes = s.nodes ∧ s'.pc = s.pc) : Br W m :=
  ⟨fun s a s' e => BR.of_same (h s a s' e).1 (by rw [(h s a s' e).2])⟩

/-- whatever only reads the tree links and writes no lines: from `Lk` when the nodes stay -/
theorem getNode_br (id : Nat) : Br W (getNode id) := .of_same fun _ _ _ h => by cases h; exact ⟨rfl, rfl⟩
theorem getPc_br : Br W getPc := .of_same fun _ _ _ h => by cases h; exact ⟨rfl, rfl⟩
theorem source_br : Br W source := .of_same fun _ _ _ h => by cases h; exact ⟨rfl, rfl⟩
theorem position_br : Br W position := .of_same fun _ _ _ h => by cases h; exact ⟨rfl, rfl⟩
theorem get_br : Br W (get : M St) := .of_same fun _ _ _ h => by cases h; exact ⟨rfl, rfl⟩
theorem setPosition_br (l : Int) (p : Segment) : Br W (setPosition l p) := .of_same fun _ _ _ h => by cases h; exact ⟨rfl, rfl⟩
theorem advanceLine_br : Br W advanceLine := .of_same fun _ _ _ h => by cases h; exact ⟨rfl, rfl⟩
theorem liftE_br {α} (e : Except Panic α) : Br W (liftE e) := .of_same fun s a s' h => by
  obtain ⟨_, rfl⟩ := liftE_ok h; exact ⟨rfl, rfl⟩

theorem reader_br {α β} (f : Reader → Except Panic (α × Reader)) (g : α → β) :
    Br W (fun s => do let (x, r) ← f s.r; Pure.pure (g x, { s with r := r }) : M β) := .of_same fun s a s' h => by
  simp only [bind, Except.bind] at h
  cases hf : f s.r with
  | error e => rw [hf] at h; cases h
  | ok p => rw [hf] at h; cases h; exact ⟨rfl, rfl⟩

theorem peekLine_br : Br W peekLine := reader_br (fun r => r.peekLine) id
theorem lineOffset_br : Br W lineOffset := reader_br (fun r => r.lineOffsetOp) id
theorem skipBlankLinesR_br : Br W skipBlankLinesR :=
  .of_same fun s a s' h => by
    unfold skipBlankLinesR at h
    simp only [bind, Except.bind] at h
    cases hf : skipBlankLines readerOps (loopFuel s.r.source) 0 s.r with
    | error e => rw [hf] at h; cases h
    | ok p => rw [hf] at h; cases h; exact ⟨rfl, rfl⟩

theorem advance_br (n : Int) : Br W (advance n) := .of_same fun s a s' h => by
  unfold advance at h
  simp only [bind, Except.bind] at h
  cases hf : s.r.advance n with
  | error e => rw [hf] at h; cases h
  | ok p => rw [hf] at h; cases h; exact ⟨rfl, rfl⟩

theorem advanceAndSetPadding_br (n p : Int) : Br W (advanceAndSetPadding n p) := .of_same fun s a s' h => by
  unfold advanceAndSetPadding at h
  simp only [bind, Except.bind] at h
  cases hf : s.r.advanceAndSetPadding n p with
  | error e => rw [hf] at h; cases h
  | ok p => rw [hf] at h; cases h; exact ⟨rfl, rfl⟩

theorem modPc_br (f : Ctx → Ctx) (hf : ∀ pc, (f pc).opened = pc.opened) : Br W (modPc f) :=
  ⟨fun s a s' h => by
    have := modPc_ok h; subst this
    exact ⟨Nat.le_refl _, fun _ _ => rfl, hf s.pc, fun _ _ _ => rfl, fun _ _ h _ _ => h⟩⟩

/-- `modNode` that keeps kind, children and lines -/
theorem modNode_br (id : Nat) (f : Blocks.Node → Blocks.Node)
    (hf : ∀ n, (f n).kind = n.kind ∧ (f n).children = n.children ∧ (f n).lines = n.lines) : Br W (modNode id f) :=
  ⟨fun s a s' h => by
    have hn := fun i => modNode_ndx h i
    have hs := modNode_state h
    refine ⟨by rw [hs]; simp, fun i _ => ?_, by rw [hs], fun i _ _ => ?_, fun p c hc _ _ => ?_⟩
    · rw [hn]; split
      · rename_i e; rw [e.1]; exact (hf _).1
      · rfl
    · rw [hn]; split
      · rename_i e; rw [e.1]; exact (hf _).2.2
      · rfl
    · rw [hn] at hc; split at hc
      · rename_i e; rw [(hf _).2.1] at hc; rw [e.1]; exact hc
      · exact hc⟩

/-- `modNode` on a node whose lines may be written: keeps kind and children -/
theorem modNode_brw (id : Nat) (f : Blocks.Node → Blocks.Node) (hw : W id)
    (hf : ∀ n, (f n).kind = n.kind ∧ (f n).children = n.children) : Br W (modNode id f) :=
  ⟨fun s a s' h => by
    have hn := fun i => modNode_ndx h i
    have hs := modNode_state h
    refine ⟨by rw [hs]; simp, fun i _ => ?_, by rw [hs], fun i hnw _ => ?_, fun p c hc _ _ => ?_⟩
    · rw [hn]; split
      · rename_i e; rw [e.1]; exact (hf _).1
      · rfl
    · rw [hn]; split
      · rename_i e; exact absurd (e.1 ▸ hw) hnw
      · rfl
    · rw [hn] at hc; split at hc
      · rename_i e; rw [(hf _).2] at hc; rw [e.1]; exact hc
      · exact hc⟩

theorem appendLine_brw (id : Nat) (seg : Segment) (hw : W id) : Br W (appendLine id seg) :=
  modNode_brw id _ hw (fun _ => ⟨rfl, rfl⟩)

/-- a new node without children; a Blockquote-kind one has no lines -/
theorem newNode_br (n : Blocks.Node) (hc : n.children = []) (hl : n.kind = .blockquote → n.lines = []) : Br W (newNode n) :=
  ⟨fun s a s' h => by
    obtain ⟨_, rfl⟩ := newNode_ok h
    refine ⟨by simp, fun i hi => ?_, rfl, fun i _ hk => ?_, fun p c hcm _ _ => ?_⟩
    · rw [ndx_append]; split
      · rename_i e; omega
      · rfl
    · rw [ndx_append] at hk ⊢; split
      · rename_i e
        rw [if_pos e] at hk
        rw [hl hk, e, ndx_default_lines s (Nat.le_refl _)]
      · rfl
    · rw [ndx_append] at hcm; split at hcm
      · rw [hc] at hcm; cases hcm
      · exact hcm⟩

/-- `x` exists and is not of kind Blockquote (a node the function has just created) -/
def PB (x : Nat) (s : St) : Prop := x < s.nodes.length ∧ (ndx s x).kind ≠ .blockquote ∧ (ndx s x).kind ≠ .document

theorem PB.step {x : Nat} {s s' : St} (h : PB x s) (st : BR W s s') : PB x s' :=
  ⟨Nat.lt_of_lt_of_le h.1 st.len, by rw [st.kind x h.1]; exact h.2.1, by rw [st.kind x h.1]; exact h.2.2⟩

structure BrX (x : Nat) {α : Type} (W : Nat → Prop) (m : M α) : Prop where
  h : ∀ s a s', m s = .ok (a, s') → PB x s → BR W s s'

theorem BrX.of_br {x : Nat} {α} {m : M α} (h : Br W m) : BrX x W m := ⟨fun s a s' e _ => h.h s a s' e⟩

theorem BrX.bind {x : Nat} {α β} {m : M α} {f : α → M β} (hm : BrX x W m) (hf : ∀ a, BrX x W (f a)) :
    BrX x W (m >>= f) := by
  constructor
  intro s b s'' h hp
  obtain ⟨a, s', h1, h2⟩ := bind_ok h
  have st := hm.h s a s' h1 hp
  exact st.trans ((hf a).h s' b s'' h2 (hp.step st))

theorem BrX.ite {x : Nat} {α} {c : Prop} [Decidable c] {a b : M α} (ha : BrX x W a) (hb : BrX x W b) :
    BrX x W (if c then a else b) := by split <;> assumption

/-- creating a node that is not a Blockquote (nor the Document) and going on with a computation that may write and insert it -/
theorem Br.new {α} (n : Blocks.Node) {f : Nat → M α} (hk : n.kind ≠ .blockquote) (hd : n.kind ≠ .document)
    (hc : n.children = []) (hf : ∀ x, BrX x (fun i => W i ∨ i = x) (f x)) : Br W (newNode n >>= f) := by
  constructor
  intro s b s'' h
  obtain ⟨x, s', h1, h2⟩ := bind_ok h
  have l1 := (newNode_br (W := W) n hc (fun e => absurd e hk)).h s x s' h1
  obtain ⟨ex, es⟩ := newNode_ok h1
  have hx : PB x s' := by
    refine ⟨by rw [es, ex]; simp, ?_, ?_⟩ <;> (rw [es, ex, ndx_append]; simpa)
  exact l1.trans_new (by omega) hx.1 hx.2.1 ((hf x).h s' b s'' h2 hx)

theorem BrX.new {y : Nat} {α} (n : Blocks.Node) {f : Nat → M α} (hk : n.kind ≠ .blockquote) (hd : n.kind ≠ .document)
    (hc : n.children = []) (hf : ∀ x, BrX x (fun i => W i ∨ i = x) (f x)) : BrX y W (newNode n >>= f) :=
  .of_br (Br.new n hk hd hc hf)

/-! ### the tree mutators write no lines -/

structure Ln {α : Type} (m : M α) : Prop where
  h : ∀ s a s', m s = .ok (a, s') → ∀ i, (ndx s' i).lines = (ndx s i).lines

theorem Ln.pure {α} (a : α) : Ln (Pure.pure a : M α) := ⟨fun s _ _ h i => by cases h; rfl⟩
theorem Ln.bind {α β} {m : M α} {f : α → M β} (hm : Ln m) (hf : ∀ a, Ln (f a)) : Ln (m >>= f) := by
  constructor
  intro s b s'' h i
  obtain ⟨a, s', h1, h2⟩ := bind_ok h
  rw [(hf a).h s' b s'' h2 i, hm.h s a s' h1 i]
theorem Ln.ite {α} {c : Prop} [Decidable c] {a b : M α} (ha : Ln a) (hb : Ln b) : Ln (if c then a else b) := by
  split <;> assumption
theorem getNode_ln (id : Nat) : Ln (getNode id) := ⟨fun s _ _ h i => by cases h; rfl⟩
theorem modNode_ln (id : Nat) (f : Blocks.Node → Blocks.Node) (hf : ∀ n, (f n).lines = n.lines) : Ln (modNode id f) :=
  ⟨fun s a s' h i => by
    rw [modNode_ndx h i]; split
    · rename_i e; rw [e.1]; exact hf _
    · rfl⟩

macro "ln_step" : tactic =>
  `(tactic| first
    | with_reducible apply Ln.pure
    | with_reducible apply Ln.bind
    | with_reducible apply Ln.ite
    | with_reducible apply getNode_ln
    | ((with_reducible apply modNode_ln); intro _; rfl)
    | apply_hyp
    | intro _
    | split)
macro "ln" : tactic => `(tactic| repeat' ln_step)

theorem removeChild_ln (p c : Nat) : Ln (removeChild p c) := by unfold removeChild; ln
theorem ensureIsolated_ln (c : Nat) : Ln (ensureIsolated c) := by
  have := removeChild_ln
  unfold ensureIsolated; ln
theorem appendChild_ln (p c : Nat) : Ln (appendChild p c) := by
  have := ensureIsolated_ln
  unfold appendChild; ln
theorem insertBefore_ln (p : Nat) (v : Option Nat) (ins : Nat) : Ln (insertBefore p v ins) := by
  have := ensureIsolated_ln
  have := appendChild_ln
  unfold insertBefore; ln
theorem nextSibling_ln (c : Nat) : Ln (nextSibling c) := by unfold nextSibling; ln
theorem insertAfter_ln (p : Nat) (v : Option Nat) (ins : Nat) : Ln (insertAfter p v ins) := by
  have := nextSibling_ln
  have := insertBefore_ln
  have := appendChild_ln
  unfold insertAfter; ln
theorem replaceChild_ln (p v ins : Nat) : Ln (replaceChild p v ins) := by
  have := insertBefore_ln
  have := removeChild_ln
  unfold replaceChild; ln

theorem BR.of_rm {s s' : St} (h : RmR s s') (hl : ∀ i, (ndx s' i).lines = (ndx s i).lines) : BR W s s' :=
  ⟨Nat.le_of_eq h.len.symm, fun i _ => h.kind i, by rw [h.pc], fun i _ _ => hl i, fun p c hc _ _ => h.edges p c hc⟩

theorem BR.of_op {p ins : Nat} {s s' : St} (h : OpR p ins s s') (hl : ∀ i, (ndx s' i).lines = (ndx s i).lines)
    (hk : (ndx s ins).kind ≠ .blockquote) : BR W s s' :=
  ⟨Nat.le_of_eq h.len.symm, fun i _ => h.kind i, by rw [h.pc], fun i _ _ => hl i, fun q x hx hkx _ => by
    rcases h.edges q x hx with e | ⟨_, rfl⟩
    · exact e
    · rw [h.kind] at hkx; exact absurd hkx hk⟩

theorem removeChild_br (p c : Nat) : Br W (removeChild p c) :=
  ⟨fun s _ s' h => .of_rm (removeChild_rm p c s s' h).1 ((removeChild_ln p c).h s _ s' h)⟩

theorem nextSibling_br (c : Nat) : Br W (nextSibling c) :=
  .of_same fun s a s' h => by have := nextSibling_same c s a s' h; subst this; exact ⟨rfl, rfl⟩

theorem insertAfter_brx (p : Nat) (v : Option Nat) (x : Nat) : BrX x W (insertAfter p v x) :=
  ⟨fun s _ s' h hp => .of_op (insertAfter_op p v x s s' h) ((insertAfter_ln p v x).h s _ s' h) hp.2.1⟩
theorem replaceChild_brx (p v x : Nat) : BrX x W (replaceChild p v x) :=
  ⟨fun s _ s' h hp => .of_op (replaceChild_op p v x s s' h) ((replaceChild_ln p v x).h s _ s' h) hp.2.1⟩

/-! ### the tactic -/

/-- `W id` for the `W`s the lemmas below use -/
macro "wmem" : tactic =>
  `(tactic| first
    | exact rfl
    | exact Or.inr rfl
    | exact Or.inl rfl
    | exact Or.inl (Or.inr rfl)
    | exact Or.inl (Or.inl rfl)
    | exact Or.inl (Or.inl (Or.inr rfl))
    | assumption)

macro "br_leaf" : tactic =>
  `(tactic| first
    | with_reducible apply getNode_br
    | with_reducible apply getPc_br
    | with_reducible apply source_br
    | with_reducible apply position_br
    | with_reducible apply setPosition_br
    | with_reducible apply get_br
    | with_reducible apply peekLine_br
    | with_reducible apply lineOffset_br
    | with_reducible apply advance_br
    | with_reducible apply advanceAndSetPadding_br
    | with_reducible apply advanceLine_br
    | with_reducible apply liftE_br
    | with_reducible apply removeChild_br
    | with_reducible apply nextSibling_br
    | ((with_reducible apply appendLine_brw); wmem)
    | ((with_reducible apply modNode_br); intro _; exact ⟨rfl, rfl, rfl⟩)
    | ((with_reducible apply modNode_brw); (wmem); intro _; exact ⟨rfl, rfl⟩)
    | ((with_reducible apply modPc_br); intro _; rfl)
    | ((with_reducible apply newNode_br) <;> first | rfl | (intro _; rfl)))

macro "br_step" : tactic =>
  `(tactic| first
    | apply_hyp
    | exact insertAfter_brx _ _ _
    | exact replaceChild_brx _ _ _
    | (refine Br.new _ ?hk ?hd rfl (fun _ => ?_); (case hk => simp); (case hd => simp))
    | (refine BrX.new _ ?hk ?hd rfl (fun _ => ?_); (case hk => simp); (case hd => simp))
    | with_reducible apply BrX.bind
    | with_reducible apply BrX.ite
    | with_reducible apply Br.bind
    | with_reducible apply Br.ite
    | exact Br.throw _
    | exact Br.pure _
    | br_leaf
    | intro _
    | split
    | (with_reducible apply BrX.of_br))

macro "br" : tactic => `(tactic| repeat' br_step)

end GM.ConvertF
