/-
  GM.Proof.E2EQuoteGood — an INSTANCE of the named hypothesis of GM.Proof.E2EQuote (`InlineQuoteStep`): blocks whose lines are
  "good lines" of package cmfrag (`GoodLine`: first byte a letter, the byte loop of the inline phase never consults an inline parser,
  last byte neither white space nor `\`), wherever the lines lie in the two sources (`LinesAtG`). From cmfrag's
  `parseBlock_linesG` / `inlineTrees_linesG`. Core Lean only.
-/
import GM.Proof.E2EQuote
import GM.Proof.CMFragQInl

namespace GM.E2E.Quote
open GM GM.Text GM.Convert GM.Blocks GM.Proof.CMFrag

/-- the inline phase of a block of good lines answers one Text per line (soft line breaks between them), in `D` and in
    `quotePrefix D` alike -/
theorem inlineQuoteStep_good {D : Bytes} (ps ps' : List Nat) (ls : List Bytes) (hne : ls ≠ [])
    (hg : ∀ l ∈ ls, GoodLine l) (hA : LinesAtG D ps ls) (hB : LinesAtG (quotePrefix D) ps' ls) :
    InlineQuoteStep D (paraSegsG ps ls) (paraSegsG ps' ls) := by
  intro env env' _ hes hes' _ _ kids hk
  rw [parseBlock_linesG env hes D ps ls hne hg hA] at hk
  cases hk
  exact ⟨_, parseBlock_linesG env' hes' _ ps' ls hne hg hB, by
    rw [inlineTrees_linesG ps' ls hB, inlineTrees_linesG ps ls hA]⟩

/-! ### good lines of `D` moved by the quote markers are good lines of `quotePrefix D` -/

theorem lineNo_mono (src : Bytes) {a b : Nat} (h : a ≤ b) : lineNo src a ≤ lineNo src b := by
  obtain ⟨d, rfl⟩ : ∃ d, b = a + d := ⟨b - a, by omega⟩
  unfold lineNo
  rw [List.take_add, List.filter_append, List.length_append]
  omega

theorem linesG_transfer {D : Bytes} : ∀ (ls : List Bytes) (ps : List Nat) (L' : List Segment),
    (∀ l ∈ ls, l ≠ []) → LinesAtG D ps ls → SegsRel D (paraSegsG ps ls) L' →
    ∃ ps', L' = paraSegsG ps' ls ∧ LinesAtG (quotePrefix D) ps' ls ∧
      (∀ p, ps.head? = some p → ∃ k ls0, LineAt D k ls0 ∧ ls0 ≤ p ∧ p < lineEnd D ls0 ∧ ps'.head? = some (p + 2 * (k + 1)))
  | [], [], L', _, _, hr => by
    cases L' with
    | nil => exact ⟨[], rfl, trivial, fun p hp => by simp at hp⟩
    | cons t L'' => exact hr.elim
  | [], _ :: _, _, _, h, _ => by simp [LinesAtG] at h
  | _ :: _, [], _, _, h, _ => by simp [LinesAtG] at h
  | [_], _ :: _ :: _, _, _, h, _ => by simp [LinesAtG] at h
  | _ :: _ :: _, [_], _, _, h, _ => by simp [LinesAtG] at h
  | [l], [p], L', hne, h, hr => by
    have hlen : 0 < l.length := List.length_pos_iff.mpr (hne l (by simp))
    simp only [paraSegsG] at hr
    cases L' with
    | nil => exact hr.elim
    | cons t L'' =>
      cases L'' with
      | cons _ _ => exact hr.2.elim
      | nil =>
        obtain ⟨k, ls0, hl, g1, g2, g3, rfl⟩ := hr.1
        simp only [] at g1 g2 g3
        have hq := qp_sub hl (a := p) (b := p + l.length) (by omega) (by omega) (by omega)
        have hge := qp_length_ge hl
        refine ⟨[p + 2 * (k + 1)], ?_, ⟨?_, ?_⟩, ?_⟩
        · simp only [paraSegsG, shK]
          congr 1
          simp only [Segment.mk.injEq]
          refine ⟨by omega, by omega, trivial, trivial⟩
        · have e : p + 2 * (k + 1) + l.length = p + l.length + 2 * (k + 1) := by omega
          rw [e, hq]; exact h.1
        · omega
        · intro p0 hp0
          simp only [List.head?, Option.some.injEq] at hp0
          subst hp0
          exact ⟨k, ls0, hl, by omega, by omega, rfl⟩
  | l :: l' :: rest, p :: p' :: ps, L', hne, h, hr => by
    have hlen : 0 < l.length := List.length_pos_iff.mpr (hne l (by simp))
    have hrr : SegsRel D ({ start := (p : Int), stop := (p : Int) + (l.length : Int) + 1 } :: paraSegsG (p' :: ps) (l' :: rest)) L' := hr
    cases L' with
    | nil => exact hrr.elim
    | cons t L'' =>
      obtain ⟨k, ls0, hl, g1, g2, g3, rfl⟩ := hrr.1
      simp only [] at g1 g2 g3
      obtain ⟨ps'', e1, e2, e3⟩ := linesG_transfer (l' :: rest) (p' :: ps) L''
        (fun x hx => hne x (List.mem_cons_of_mem _ hx)) h.2.2 hrr.2
      obtain ⟨k', ls1, hl', a1, a2, a3⟩ := e3 p' rfl
      cases ps'' with
      | nil => simp at a3
      | cons P' ps3 =>
        simp only [List.head?, Option.some.injEq] at a3
        subst a3
        have hk : k ≤ k' := by
          have c1 : lineNo D p = k := lineNo_in hl (by omega) (by omega)
          have c2 : lineNo D p' = k' := lineNo_in hl' a1 a2
          have := lineNo_mono D (a := p) (b := p') (by have := h.2.1; omega)
          omega
        have hq := qp_sub hl (a := p) (b := p + l.length + 1) (by omega) (by omega) (by omega)
        refine ⟨(p + 2 * (k + 1)) :: (p' + 2 * (k' + 1)) :: ps3, ?_, ⟨?_, ?_, e2⟩, ?_⟩
        · show _ = { start := ((p + 2 * (k + 1) : Nat) : Int), stop := ((p + 2 * (k + 1) : Nat) : Int) + (l.length : Int) + 1 } ::
            paraSegsG ((p' + 2 * (k' + 1)) :: ps3) (l' :: rest)
          rw [← e1]
          congr 1
          simp only [shK, Segment.mk.injEq]
          refine ⟨by omega, by omega, trivial, trivial⟩
        · have e : p + 2 * (k + 1) + l.length + 1 = p + l.length + 1 + 2 * (k + 1) := by omega
          rw [e, hq]; exact h.1
        · have := h.2.1; omega
        · intro p0 hp0
          simp only [List.head?, Option.some.injEq] at hp0
          subst hp0
          exact ⟨k, ls0, hl, by omega, by omega, rfl⟩

/-- every block of the store that has inline content consists of good lines -/
def GoodBlocks (D : Bytes) (s : St) : Prop :=
  ∀ i, isRawKind (s.nodes.getD i default).kind = false → (s.nodes.getD i default).lines ≠ [] →
    ∃ ps ls, (s.nodes.getD i default).lines = paraSegsG ps ls ∧ ls ≠ [] ∧ (∀ l ∈ ls, GoodLine l) ∧ LinesAtG D ps ls

theorem key_of_goodBlocks {D : Bytes} {sA sB : St} (hrel : StoreRel D sA.nodes sB.nodes) (hg : GoodBlocks D sA) :
    ∀ i, isRawKind (sA.nodes.getD i default).kind = false → (sA.nodes.getD i default).lines ≠ [] →
      InlineQuoteStep D (sA.nodes.getD i default).lines (sB.nodes.getD (i + 1) default).lines := by
  intro i h1 h2
  obtain ⟨ps, ls, e, hne, hgl, hat⟩ := hg i h1 h2
  have hr := (hrel.node i).lines
  rw [e] at hr ⊢
  obtain ⟨ps', e', hat', _⟩ := linesG_transfer ls ps _ (fun l hl => (hgl l hl).ne) hat hr
  rw [e']
  exact inlineQuoteStep_good ps ps' ls hne hgl hat hat'

end GM.E2E.Quote
