/-
  GM.Proof.ShiftSimLinesW — one pass of the per-line loop (`lineLoop`, parser.go:1081-1123) under the shift relation,
  WITHOUT the assumption that the source ends with a line feed: `Continue` obeys only the weaker contract
  `ContinueSimW`; a block whose `Continue` answers "Continue, no children" is a leaf, hence the last open block, and
  the loop ends there (only the limbo relation is needed then).
-/
import GM.Proof.ShiftSimLines
import GM.Proof.ShiftSimWDefs

namespace GM.Blocks.Sh
open GM GM.Text GM.Spec GM.Proof.Reader GM.Blocks

variable {F : Frame} {b : Bytes} {Cov : BP → Prop}

theorem lw_body_p2 (hP : PSim F b Cov) (hW : PSimW F b Cov) (hO : OpenBlocksSim F b Cov) (parent : Nat)
    (openedBlocks : List Block) (lastIndex : Int) (bp : BP) (node : Nat) (rest : List Block)
    (i lnA lnB : Int) (bla blb : List LineStat) (line0 : Int) {sA sB : St}
    (h : SR F b sA sB) (hai : AI Cov sA) (hst : StatsRel F bla blb) (hl0 : line0 ≤ sA.r.line)
    (hbl : isBlankLine (lnB - 1) i blb = isBlankLine (lnA - 1) i bla) (hbp : Cov bp) (hline : HasLine b sA)
    (hlf : rest ≠ [] → bp.isContainer = true)
    (hcont : bp.isContainer = true → ∀ node s s' (st : PState),
      bpContinue bp node s = .ok (st, s') → st.cont = true → st.hasChildren = true)
    (hrec : ∀ sA' sB', SR F b sA' sB' → AI Cov sA' → line0 ≤ sA'.r.line → sA.r.line ≤ sA'.r.line →
      P2 (LQ F b Cov line0 bla.length) (lineLoop parent openedBlocks lastIndex rest (i + 1) bla sA')
        (lineLoop (F.ι parent) (openedBlocks.map (shB F)) lastIndex (rest.map (shB F)) (i + 1) blb sB')) :
    P2 (LQ F b Cov line0 bla.length) (llBody parent openedBlocks lastIndex bp node rest i lnA bla sA)
      (llBody (F.ι parent) (openedBlocks.map (shB F)) lastIndex bp (F.ι node) (rest.map (shB F)) i lnB blb sB) := by
  unfold llBody
  refine P2.bind (getNode_p2 h node) (fun n m sA1 sB1 ⟨_, hm, e1, e2⟩ => ?_)
  subst e1 e2 hm
  rw [shN_kind]
  by_cases hk : (n.kind != Kind.paragraph) = true
  · rw [if_pos hk, if_pos hk]
    refine P2.bind ((hW.co bp hbp node sA1 sB1 h hline).withL
      (R := fun a sA' => sA'.pc.opened = sA1.pc.opened ∧ sA1.r.line ≤ sA'.r.line ∧
        bpContinue bp node sA1 = .ok (a, sA'))
      (fun a sA' e => ⟨bpContinue_opened _ _ _ _ _ e, bpContinue_line _ _ _ _ _ e, e⟩))
      (fun st st' sA2 sB2 ⟨⟨hst', hlim2, hdis⟩, ho2, hl2, heq⟩ => ?_)
    subst hst'
    have hai2 : AI Cov sA2 := fun x hx => hai x (ho2 ▸ hx)
    have hl02 : line0 ≤ sA2.r.line := Int.le_trans hl0 hl2
    by_cases hc : st'.cont = true
    · rw [if_pos hc, if_pos hc]
      by_cases hh : (st'.hasChildren && i == lastIndex) = true
      · rw [if_pos hh, if_pos hh, hbl]
        have hch : st'.hasChildren = true := by
          cases hx : st'.hasChildren with
          | true => rfl
          | false => rw [hx] at hh; simp at hh
        have h2 : SR F b sA2 sB2 := by
          rcases hdis with ⟨_, hf⟩ | h2
          · rw [hch] at hf; cases hf
          · exact h2
        refine P2.bind (hO node _ sA2 sB2 h2.w hai2) (fun res res' sA3 sB3 ⟨hres, hlim, hai3, hline3, _⟩ => ?_)
        exact P2.pure ⟨rfl, hst, hlim, hai3, Int.le_trans hl02 hline3, fun _ => Nat.le_refl _⟩
      · rw [if_neg hh, if_neg hh]
        by_cases hch : st'.hasChildren = true
        · have h2 : SR F b sA2 sB2 := by
            rcases hdis with ⟨_, hf⟩ | h2
            · rw [hch] at hf; cases hf
            · exact h2
          exact hrec sA2 sB2 h2 hai2 hl02 hl2
        · have hnc : ¬ bp.isContainer = true := fun hcn => hch (hcont hcn node sA1 sA2 st' heq hc)
          have hnil : rest = [] := by
            apply Classical.byContradiction
            intro hne
            exact hnc (hlf hne)
          subst hnil
          simp only [List.map_nil]
          unfold lineLoop
          exact P2.pure ⟨rfl, hst, hlim2, hai2, hl02, fun _ => Nat.le_refl _⟩
    · rw [if_neg hc, if_neg hc]
      have h2 : SR F b sA2 sB2 := by
        rcases hdis with ⟨hf, _⟩ | h2
        · exact absurd hf hc
        · exact h2
      exact ll_fall_p2 hP hO parent openedBlocks lastIndex i lnA lnB bla blb line0 h2 hai2 hst hl02 hbl
  · rw [if_neg hk, if_neg hk]
    exact ll_fall_p2 hP hO parent openedBlocks lastIndex i lnA lnB bla blb line0 h hai hst hl0 hbl

theorem lw_lineLoop_p2 (hP : PSim F b Cov) (hW : PSimW F b Cov) (hO : OpenBlocksSim F b Cov)
    (parent : Nat) (openedBlocks : List Block) (lastIndex : Int) (hob : ∀ x ∈ openedBlocks, Cov x.bp)
    (hleaf : ∀ pre be rest, openedBlocks = pre ++ be :: rest → rest ≠ [] → be.bp.isContainer = true)
    (hcont : ∀ bp, Cov bp → bp.isContainer = true → ∀ node s s' (st : PState),
      bpContinue bp node s = .ok (st, s') → st.cont = true → st.hasChildren = true) :
    ∀ (rest : List Block) (i : Int) (sa sb : List LineStat) (sA sB : St) (line0 : Int),
      (∃ pre, openedBlocks = pre ++ rest) → SR F b sA sB → AI Cov sA → StatsRel F sa sb → line0 ≤ sA.r.line →
      1 ≤ sA.r.line → i ≤ (sa.length : Int) →
      P2 (LQ F b Cov line0 (sa.length + min 1 rest.length))
        (lineLoop parent openedBlocks lastIndex rest i sa sA)
        (lineLoop (F.ι parent) (openedBlocks.map (shB F)) lastIndex (rest.map (shB F)) i sb sB) := by
  intro rest
  induction rest with
  | nil =>
    intro i sa sb sA sB line0 _ h hai hst hl0 _ _
    simp only [List.map_nil]
    unfold lineLoop
    exact P2.pure ⟨rfl, hst, h.limbo, hai, hl0, fun _ => by simp⟩
  | cons be rest ih =>
    intro i sa sb sA sB line0 hrest h hai hst hl0 h1 hi
    obtain ⟨pre, hpre⟩ := hrest
    have hmem : be ∈ openedBlocks := by rw [hpre]; simp
    simp only [List.map_cons]
    rw [ll_lineLoop_cons, ll_lineLoop_cons]
    refine P2.bind ((peekLine_core h.rd).withL (R := fun _ sA' => sA.r.line ≤ sA'.r.line)
      (fun a sA' e => peekLine_lg (k := sA.r.line) sA a sA' (Int.le_refl _) e))
      (fun x y sA1 sB1 ⟨⟨⟨c, hc, hx⟩, hy, hstep⟩, hl1⟩ => ?_)
    have hs1 : SR F b sA1 sB1 := hstep.sr h
    have hai1 : AI Cov sA1 := by
      obtain ⟨rA, _, _, e1, _⟩ := hstep
      rw [e1]; exact hai
    subst hx hy
    simp only
    cases hv : RCur.view b c with
    | none =>
      simp only
      refine P2.bind (closeBlocks_l2 hP lastIndex 0 hai1 hs1.l) (fun _ _ sA2 sB2 ⟨h2, hai2⟩ => ?_)
      have hs2 : SR F b sA2 sB2 := SRL.sr hs1 h2
      refine P2.bind ((advanceLine_core hs2.rd).withL
        (R := fun _ sA' => sA2.r.line ≤ sA'.r.line ∧ sA'.pc = sA2.pc)
        (fun a sA' e => ll_advanceLine_line _ _ a e)) (fun _ _ sA3 sB3 ⟨hstep3, hl3, hpc3⟩ => ?_)
      have hs3 : SR F b sA3 sB3 := hstep3.sr hs2
      have hai3 : AI Cov sA3 := by unfold AI; rw [hpc3]; exact hai2
      refine P2.pure ⟨rfl, hst, hs3.limbo, hai3, ?_, fun e => by cases e⟩
      have := h2.ra
      rw [this] at hl3
      omega
    | some l =>
      simp only
      have hp : c.p < b.length := by
        apply Classical.byContradiction
        intro hn
        rw [view_none b c hn] at hv
        cases hv
      have hline : HasLine b sA1 := ⟨c, hc, hp⟩
      refine P2.bind (position_p2 hs1) (fun p q sA2 sB2 ⟨hp', hq, e1, e2⟩ => ?_)
      subst e1 e2 hq hp'
      have hst' : StatsRel F (sa ++ [{ lineNum := sA2.r.line, level := i, isBlank := isBlank l }])
          (sb ++ [{ lineNum := sA2.r.line + F.dl, level := i, isBlank := isBlank l }]) :=
        hst.append { lineNum := sA2.r.line, level := i, isBlank := isBlank l }
      have hbl : isBlankLine (sA2.r.line + F.dl - 1) i
            (sb ++ [{ lineNum := sA2.r.line + F.dl, level := i, isBlank := isBlank l }]) =
          isBlankLine (sA2.r.line - 1) i (sa ++ [{ lineNum := sA2.r.line, level := i, isBlank := isBlank l }]) := by
        rw [show sA2.r.line + F.dl - 1 = (sA2.r.line - 1) + F.dl by omega]
        exact isBlankLine_shift hst' (sA2.r.line - 1) i (by omega) (by simp; omega)
      have hrest' : ∃ pre', openedBlocks = pre' ++ rest := ⟨pre ++ [be], by rw [hpre]; simp⟩
      refine (lw_body_p2 hP hW hO parent openedBlocks lastIndex be.bp be.node rest i sA2.r.line
        (sA2.r.line + F.dl) _ _ line0 hs1 hai1 hst' (by omega) hbl (hob be hmem) hline
        (hleaf pre be rest hpre) (hcont be.bp (hob be hmem))
        (fun sA' sB' h' hai' hl0' hl' => ?_)).mono (fun x y sA' sB' hq => ll_LQ_mono (by simp) hq)
      exact (ih (i + 1) _ _ sA' sB' line0 hrest' h' hai' hst' hl0' (by omega) (by simp; omega)).mono
        (fun x y sA' sB' hq => ll_LQ_mono (by omega) hq)

/-- one pass of the per-line loop, no assumption on the end of the source -/
theorem lineLoop_p2W (hP : PSim F b Cov) (hW : PSimW F b Cov) (_hF : F.OK) (hO : OpenBlocksSim F b Cov)
    (parent : Nat) (openedBlocks : List Block) (lastIndex : Int) (hob : ∀ x ∈ openedBlocks, Cov x.bp)
    (hleaf : ∀ pre be rest, openedBlocks = pre ++ be :: rest → rest ≠ [] → be.bp.isContainer = true)
    (hcont : ∀ bp, Cov bp → bp.isContainer = true → ∀ node s s' (st : PState),
      bpContinue bp node s = .ok (st, s') → st.cont = true → st.hasChildren = true) :
    ∀ (rest : List Block) (i : Int) (sa sb : List LineStat) (sA sB : St),
      (∃ pre, openedBlocks = pre ++ rest) → SR F b sA sB → AI Cov sA → StatsRel F sa sb → 1 ≤ sA.r.line →
      i ≤ (sa.length : Int) →
      P2 (LineQ F b Cov sA rest)
        (lineLoop parent openedBlocks lastIndex rest i sa sA)
        (lineLoop (F.ι parent) (openedBlocks.map (shB F)) lastIndex (rest.map (shB F)) i sb sB) := by
  intro rest i sa sb sA sB hrest h hai hst h1 hi
  refine (lw_lineLoop_p2 hP hW hO parent openedBlocks lastIndex hob hleaf hcont rest i sa sb sA sB sA.r.line hrest h
    hai hst (Int.le_refl _) h1 hi).mono
    (fun x y sA' sB' ⟨q1, q2, q3, q4, q5, q6⟩ => ⟨q1, q2, q3, q4, q5, fun e hne => ?_⟩)
  have hlen := q6 e
  have : 0 < rest.length := List.length_pos_iff.mpr hne
  intro hx
  have h0 : x.2.length = 0 := by rw [hx]; rfl
  omega

end GM.Blocks.Sh
