/-
  GM.Proof.QuoteSimListClose — `listParser.Close` (list.go:247-279) under the simulation relation, with ONE named side
  condition: the `HasBlankPreviousLines` flags that the tightness loop reads agree in the two runs (`FlagsOK`: the own
  flag of every item but the first, and the flags of every item's children but the first). The relation does not
  relate these flags (they differ for the direct children of the quote); that they agree for list items is item 3(a) of
  "what remains open" for C08. Given the side condition: the same `IsTight`, and the same Paragraph → TextBlock
  replacement (`tightenItems`, through `replaceChild_s2`).
-/
import GM.Proof.QuoteSimSetext

namespace GM.Blocks
open GM GM.Text GM.Spec GM.Proof.Reader

/-- the flags `listParser.Close` reads below the items `cs` (`first`: the head of `cs` is the list's first item) -/
def FlagsOK (nA nB : List Node) : List Nat → Bool → Prop
  | [], _ => True
  | c :: cs, first =>
    ((first = false → (nB.getD (c + 1) default).blankPrev = (nA.getD c default).blankPrev) ∧
      ∀ c1 ∈ (nA.getD c default).children.drop 1,
        (nB.getD (c1 + 1) default).blankPrev = (nA.getD c1 default).blankPrev) ∧
    FlagsOK nA nB cs false

theorem any_map_congr {α β} (f : α → β) (g : β → Bool) (g' : α → Bool) :
    ∀ (l : List α), (∀ x ∈ l, g (f x) = g' x) → (l.map f).any g = l.any g'
  | [], _ => rfl
  | x :: l, h => by
    simp only [List.map_cons, List.any_cons]
    rw [h x (List.mem_cons_self ..), any_map_congr f g g' l (fun y hy => h y (List.mem_cons_of_mem _ hy))]

theorem itemLoose_q {src : Bytes} {nA nB : List Node} (hn : StoreRel src nA nB) (first : Bool) (c : Nat)
    (h1 : first = false → (nB.getD (c + 1) default).blankPrev = (nA.getD c default).blankPrev)
    (h2 : ∀ c1 ∈ (nA.getD c default).children.drop 1,
      (nB.getD (c1 + 1) default).blankPrev = (nA.getD c1 default).blankPrev) :
    itemLoose nB first (c + 1) = itemLoose nA first c := by
  unfold itemLoose
  simp only
  have hc := (hn.node c).children
  rw [hc, ← List.map_drop, any_map_congr (· + 1) _ (fun c1 => (nA.getD c1 default).blankPrev) _ h2]
  cases first with
  | true => simp
  | false => simp only [Bool.not_false, Bool.true_and]; rw [h1 rfl]

theorem listTight_q {src : Bytes} {nA nB : List Node} (hn : StoreRel src nA nB) :
    ∀ (cs : List Nat) (first t : Bool), FlagsOK nA nB cs first →
      listTight nB t (cs.map (· + 1)) first = listTight nA t cs first
  | [], _, _, _ => rfl
  | c :: cs, first, t, h => by
    simp only [List.map_cons]
    unfold listTight
    by_cases ht : (!t) = true
    · rw [if_pos ht, if_pos ht]
    · rw [if_neg ht, if_neg ht, itemLoose_q hn first c h.1.1 h.1.2]
      exact listTight_q hn cs false _ h.2

theorem nodeRel_textBlock {src : Bytes} {root : Bool} {g g' : Node} (hg : NodeRel src root g g') :
    NodeRel src false { kind := .textBlock, lines := g.lines, linesNil := g.linesNil }
      { kind := .textBlock, lines := g'.lines, linesNil := g'.linesNil } :=
  ⟨rfl, rfl, rfl, hg.lines, hg.linesNil, rfl, rfl, rfl, rfl, rfl, rfl, trivial,
    .inl ⟨by show (-1 : Int) < 0; decide, rfl⟩, (fun h => by cases h), (fun i hi => by cases hi),
    (fun h => absurd h (by show ¬ (0 : Int) ≤ -1; decide)), (fun _ _ => rfl)⟩

theorem kind_para_q {src : Bytes} {id : Nat} {g g' : Node} (hg : NodeRel src (id == 0) g g') :
    (g'.kind == Kind.paragraph) = (g.kind == Kind.paragraph) := by
  have hk := hg.kind
  by_cases hx0 : id = 0
  · subst hx0
    simp only [beq_self_eq_true, if_true] at hk
    rw [hk.1, hk.2]; rfl
  · have hx : (id == 0) = false := beq_eq_false_iff_ne.mpr hx0
    rw [hx] at hk
    simp only [Bool.false_eq_true, if_false] at hk
    rw [hk]

/-- list.go:268-276: the paragraphs among the grandchildren `gcs` of `child` become text blocks -/
theorem tightenItem_s2 {src k ls p} (child : Nat) : ∀ (gcs : List Nat) {sA sB : St}, SR src k ls p sA sB →
    S2 (fun _ _ sA' sB' => SR src k ls p sA' sB') (tightenItem child gcs sA)
      (tightenItem (child + 1) (gcs.map (· + 1)) sB)
  | [], sA, sB, h => by
    simp only [List.map_nil]
    unfold tightenItem
    exact S2.pure h
  | gc :: gcs, sA, sB, h => by
    simp only [List.map_cons]
    unfold tightenItem
    refine S2.bind (getNode_s2 h gc) (fun g g' sA1 sB1 hq => ?_)
    obtain ⟨hg, h1⟩ := hq
    rw [kind_para_q hg]
    by_cases hp : (g.kind == Kind.paragraph) = true
    · rw [if_pos hp, if_pos hp]
      refine S2.bind (newNode_s2 h1 _ _ (nodeRel_textBlock hg)) (fun tb tb' sA2 sB2 hq => ?_)
      obtain ⟨_, hm, hn0, h2⟩ := hq
      subst hm
      exact S2.bind (replaceChild_s2 h2 child gc tb hn0) (fun _ _ sA3 sB3 h3 => tightenItem_s2 child gcs h3)
    · rw [if_neg hp, if_neg hp]
      exact tightenItem_s2 child gcs h1

/-- list.go:267-277 -/
theorem tightenItems_s2 {src k ls p} : ∀ (cs : List Nat) {sA sB : St}, SR src k ls p sA sB →
    S2 (fun _ _ sA' sB' => SR src k ls p sA' sB') (tightenItems cs sA) (tightenItems (cs.map (· + 1)) sB)
  | [], sA, sB, h => by
    simp only [List.map_nil]
    unfold tightenItems
    exact S2.pure h
  | c :: cs, sA, sB, h => by
    simp only [List.map_cons]
    unfold tightenItems
    refine S2.bind (getNode_s2 h c) (fun cn cn' sA1 sB1 hq => ?_)
    obtain ⟨hc, h1⟩ := hq
    rw [hc.children]
    exact S2.bind (tightenItem_s2 c cn.children h1) (fun _ _ sA2 sB2 h2 => tightenItems_s2 cs h2)

/-- **`listParser.Close`**, given that the flags it reads agree in the two runs -/
theorem listClose_sim' (src : Bytes) : ∀ k ls p node sA sB, SR src k ls p sA sB →
    FlagsOK sA.nodes sB.nodes (sA.nodes.getD node default).children true →
    S2 (fun _ _ sA' sB' => SR src k ls p sA' sB') (bpClose .list node sA) (bpClose .list (node + 1) sB) := by
  intro k ls p node sA sB h hfl
  show S2 _ (listClose node sA) (listClose (node + 1) sB)
  unfold listClose
  have eA : getNode node sA = .ok (sA.nodes.getD node default, sA) := rfl
  have eB : getNode (node + 1) sB = .ok (sB.nodes.getD (node + 1) default, sB) := rfl
  rw [bind_run eA, bind_run eB]
  have gA : (get : M St) sA = .ok (sA, sA) := rfl
  have gB : (get : M St) sB = .ok (sB, sB) := rfl
  rw [bind_run gA, bind_run gB]
  have hab := h.n.node node
  have ht : listTight sB.nodes (sB.nodes.getD (node + 1) default).tight (sB.nodes.getD (node + 1) default).children true =
      listTight sA.nodes (sA.nodes.getD node default).tight (sA.nodes.getD node default).children true := by
    rw [hab.tight, hab.children]
    exact listTight_q h.n _ true _ hfl
  rw [ht, hab.children]
  generalize listTight sA.nodes (sA.nodes.getD node default).tight (sA.nodes.getD node default).children true = t
  refine S2.bind (modNode_s2 h node _ _ (fun a b hab' => ?_)) (fun _ _ sA1 sB1 h1 => ?_)
  · exact { hab' with tight := rfl }
  · by_cases htt : t = true
    · rw [if_pos htt, if_pos htt]
      exact tightenItems_s2 _ h1
    · rw [if_neg htt, if_neg htt]
      exact S2.pure h1

end GM.Blocks
