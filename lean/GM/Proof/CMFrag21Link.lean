/-
  GM.Proof.CMFrag21Link — stage 21: the link parser at `[` / `![` / `](d)` when the children in front of the label
  opener hold pending delimiter nodes (emphasis runs that `processDelimiters` resolves only at the end of the block).
  The bottom pushed at the opener is the last delimiter among the children (`bottomOf21`); at `]` the parser finds its
  label (the last label), `processDelimiters` with that bottom is a no-op (the last delimiter IS the bottom), the Text
  behind the label is wrapped and the delimiters in front stay as they are. `link_step21` / `img_step21` are
  `link_step16` / `img_step17` with `NoDL16 ks` weakened to `NoLab21 ks`. X-forms (`CutOK13`, `NoMergeAt13`: the line may
  end in a backslash hard break): `link_stepX21`, `img_stepX21`, `auto_stepX21`, `tag_stepX21`.
-/
import GM.Proof.CMFrag17Inl
import GM.Proof.CMFrag13Inl
import GM.Proof.CMFrag18Inl
import GM.Proof.CMFrag19Inl
import GM.Proof.InlinesDelims

namespace GM.Proof.CMFrag
open GM GM.Text GM.Inl
open GM.Spec (BCur WFSegs)

/-- no label among the children (delimiters are allowed) -/
def NoLab21 (ks : List Inl.Node) : Prop := ∀ n ∈ ks, n.isLabel = false

/-- what `pushLinkBottom` puts on the stack: the last delimiter among the children, a typed nil if there is none -/
def bottomOf21 (ks : List Inl.Node) : Bottom :=
  match splitLastDelim ks with
  | some (_, id, _, _) => .id id
  | none => .tnil

theorem pushBottom_eq21 (st : St) : pushBottom st = { st with bottoms := bottomOf21 st.kids :: st.bottoms } := rfl

theorem noLab_of_noDL21 {ks : List Inl.Node} (h : NoDL16 ks) : NoLab21 ks := fun n hn => (h n hn).2

theorem bottomOf_append21 (ks x : List Inl.Node) (hx : ∀ n ∈ x, n.isDelim = false) :
    bottomOf21 (ks ++ x) = bottomOf21 ks := by
  unfold bottomOf21
  rw [GM.Proof.InlinesDelims.splitLastDelim_prefix_none (splitLastDelim_noDelim11 x hx)]
  cases splitLastDelim ks with
  | none => rfl
  | some v => rfl

/-- `ProcessDelimiters(bottom)` with the last delimiter as bottom: nothing happens -/
theorem processDelimiters_bottomOf21 (kids : List Inl.Node) :
    processDelimiters (bottomOf21 kids) kids = .ok kids := by
  unfold processDelimiters bottomOf21
  cases hs : splitLastDelim kids with
  | none => rfl
  | some v =>
    obtain ⟨preL, lastId, d, post⟩ := v
    have hk := GM.Proof.Inlines.splitLastDelim_eq hs
    simp only [beq_self_eq_true, if_true]
    unfold clearDelimiters
    rw [hs]
    simp only [clearRev, beq_self_eq_true, if_true, List.reverse_cons, List.reverse_reverse]
    rw [hk]
    simp

theorem processLinkLabel21 (rd : BlockReader) (pre : List Inl.Node) (lid : Nat) (lseg tseg : Segment) (nid : Nat)
    (im : Bool) (bts : List Bottom) :
    processLinkLabel { rd := rd, kids := pre ++ [.label lid lseg im, .text tseg false false false], nextId := nid,
                       bottoms := bottomOf21 pre :: bts } =
      .ok ([.text tseg false false false],
        { rd := rd, kids := pre ++ [.label lid lseg im], nextId := nid, bottoms := bts }) := by
  have hx : ∀ n ∈ [Inl.Node.label lid lseg im, .text tseg false false false], n.isDelim = false := by
    intro n hn
    simp only [List.mem_cons, List.not_mem_nil, or_false] at hn
    rcases hn with rfl | rfl <;> rfl
  have hpd : processDelimiters (bottomOf21 pre) (pre ++ [Inl.Node.label lid lseg im, .text tseg false false false]) =
      .ok (pre ++ [Inl.Node.label lid lseg im, .text tseg false false false]) := by
    rw [← bottomOf_append21 pre _ hx]
    exact processDelimiters_bottomOf21 _
  unfold processLinkLabel
  simp only [popBottom, splitLastLabel_tail16 pre lid lseg im (.text tseg false false false) rfl]
  simp [hasLabelL, hasLabel, hpd, splitLastLabel_tail16 pre lid lseg im (.text tseg false false false) rfl,
    Node.isDelim]

theorem labelLen_noLab21 (pre : List Inl.Node) (h : NoLab21 pre) : labelLen pre = 0 := by
  unfold labelLen
  rw [splitFirstLabel_none16 pre h]

/-- the inline part `(d)` of a link or image, the opener and the link text being the last two children -/
theorem parseLinkInline21 (src : Bytes) (segs : List Segment) (L j hd : Int) (a : Nat) (d rest : Bytes) (e : Int)
    (pre : List Inl.Node) (lid : Nat) (lseg tseg : Segment) (nid : Nat) (im : Bool) (bts : List Bottom)
    (h : At16 src L a e (40 :: (d ++ 41 :: rest))) (hj : j < segs.length)
    (hd0 : d ≠ []) (hdc : ∀ c ∈ d, isDestC16 c = true) (hrest : rest ≠ []) :
    parseLinkInline { rd := rdAt src segs L j { start := a, stop := e } hd,
                      kids := pre ++ [.label lid lseg im, .text tseg false false false], nextId := nid,
                      bottoms := bottomOf21 pre :: bts } =
      .ok (some { dest := d, title := none, kids := [.text tseg false false false] },
        { rd := rdAt src segs L j { start := ((a + 1 + d.length + 1 : Nat) : Int), stop := e } hd,
          kids := pre ++ [.label lid lseg im], nextId := nid, bottoms := bts }) := by
  have hrl : 0 < rest.length := List.length_pos_iff.mpr hrest
  obtain ⟨c0, d', hdd⟩ : ∃ c0 d', d = c0 :: d' := by
    cases d with
    | nil => exact absurd rfl hd0
    | cons x xs => exact ⟨x, xs, rfl⟩
  have h1 : At16 src L (a + 1) e (d ++ 41 :: rest) := h.drop [40] _
  have h2 : At16 src L (a + 1 + d.length) e (41 :: rest) := h1.drop d _
  have h1' : At16 src L (a + 1) e (c0 :: (d' ++ 41 :: rest)) := by rw [hdd] at h1; exact h1
  obtain ⟨_, _, h41, _, hs0⟩ := dest_facts16 c0 (hdc c0 (by simp [hdd]))
  obtain ⟨r1, hsk1⟩ := skipSpaces_at16 src segs L j hd (a + 1) e c0 _ h1' hj hs0 0
  obtain ⟨r2, hsk2⟩ := skipSpaces_at16 src segs L j hd (a + 1 + d.length) e 41 _ h2 hj (by decide) 0
  unfold parseLinkInline
  simp only [bind, Except.bind, advance1_at16 src segs L j hd a e _ h (by simp; omega), hsk1,
    peekByte_at16 src segs L j hd (a + 1) e c0 _ h1' hj, h41, Bool.false_eq_true, if_false,
    parseLinkDestination_at16 src segs L j hd (a + 1) d rest e h1 hj hd0 hdc, hsk2,
    peekByte_at16 src segs L j hd (a + 1 + d.length) e 41 _ h2 hj, beq_self_eq_true, if_true,
    advance1_at16 src segs L j hd (a + 1 + d.length) e _ h2 (by simp; omega),
    processLinkLabel21 _ pre lid lseg tseg nid im bts, pure, Except.pure]

/-- the link parser at `[`: a label opener; the bottom is the last pending delimiter -/
theorem parseLink_open21 (env : Env) (src : Bytes) (segs : List Segment) (L j hd : Int) (a : Nat) (tail : Bytes)
    (e : Int) (ks : List Inl.Node) (nid : Nat) (bts : List Bottom)
    (h : At16 src L a e (91 :: tail)) (hj : j < segs.length) (htail : tail ≠ []) :
    parseLink env { rd := rdAt src segs L j { start := a, stop := e } hd, kids := ks, nextId := nid, bottoms := bts } =
      .ok (some (.label nid { start := a, stop := (a : Int) + 1 } false),
        { rd := rdAt src segs L j { start := ((a + 1 : Nat) : Int), stop := e } hd, kids := ks, nextId := nid + 1,
          bottoms := bottomOf21 ks :: bts }) := by
  have htl : 0 < tail.length := List.length_pos_iff.mpr htail
  unfold parseLink
  simp only [bind, Except.bind, peekLine_at16 src segs L j hd a e 91 tail h hj, Option.getD_some,
    show ((91 : UInt8) == 33) = false by decide, show ((91 : UInt8) == 91) = true by decide, Bool.false_eq_true,
    if_false, if_true, pushBottom_eq21, labelOpen,
    advance1_at16 src segs L j hd a e _ h (by simp; omega), pure, Except.pure]

/-- the link parser at `![`: a label opener for an image -/
theorem parseLink_openImg21 (env : Env) (src : Bytes) (segs : List Segment) (L j hd : Int) (a : Nat) (tail : Bytes)
    (e : Int) (ks : List Inl.Node) (nid : Nat) (bts : List Bottom)
    (h : At16 src L a e (33 :: 91 :: tail)) (hj : j < segs.length) (htail : tail ≠ []) :
    ∃ lseg, parseLink env
        { rd := rdAt src segs L j { start := a, stop := e } hd, kids := ks, nextId := nid, bottoms := bts } =
      .ok (some (.label nid lseg true),
        { rd := rdAt src segs L j { start := ((a + 1 + 1 : Nat) : Int), stop := e } hd, kids := ks, nextId := nid + 1,
          bottoms := bottomOf21 ks :: bts }) := by
  have htl : 0 < tail.length := List.length_pos_iff.mpr htail
  have h1 : At16 src L (a + 1) e (91 :: tail) := h.drop [33] _
  refine ⟨{ start := (a : Int) + 1 - 1, stop := (a : Int) + 1 + 1 }, ?_⟩
  unfold parseLink
  simp only [bind, Except.bind, peekLine_at16 src segs L j hd a e 33 _ h hj, Option.getD_some,
    show ((33 : UInt8) == 33) = true by decide, if_true,
    advance1_at16 src segs L j hd a e _ h (by simp), pushBottom_eq21, labelOpen,
    advance1_at16 src segs L j hd (a + 1) e _ h1 (by simp; omega), pure, Except.pure]

/-- the link parser at `]` in front of `(d)`: the Link / Image around the text behind its opener; the children in
    front of the opener (pending delimiters included) stay as they are -/
theorem parseLink_close21 (env : Env) (src : Bytes) (segs : List Segment) (L j hd : Int) (a : Nat) (d rest : Bytes)
    (e : Int) (pre : List Inl.Node) (lid : Nat) (lseg tseg : Segment) (nid : Nat) (im : Bool) (bts : List Bottom)
    (h : At16 src L a e (93 :: 40 :: (d ++ 41 :: rest))) (hj : j < segs.length)
    (hd0 : d ≠ []) (hdc : ∀ c ∈ d, isDestC16 c = true) (hrest : rest ≠ []) (hpre : NoLab21 pre) :
    parseLink env { rd := rdAt src segs L j { start := a, stop := e } hd,
                    kids := pre ++ [.label lid lseg im, .text tseg false false false], nextId := nid,
                    bottoms := bottomOf21 pre :: bts } =
      .ok (some (.link im d none [.text tseg false false false]),
        { rd := rdAt src segs L j { start := ((a + 1 + 1 + d.length + 1 : Nat) : Int), stop := e } hd,
          kids := pre, nextId := nid, bottoms := bts }) := by
  have h1 : At16 src L (a + 1) e (40 :: (d ++ 41 :: rest)) := h.drop [93] _
  unfold parseLink
  simp only [bind, Except.bind, peekLine_at16 src segs L j hd a e 93 _ h hj, Option.getD_some,
    show ((93 : UInt8) == 33) = false by decide, show ((93 : UInt8) == 91) = false by decide, Bool.false_eq_true,
    if_false]
  unfold parseLinkClose
  simp only [splitLastLabel_tail16 pre lid lseg im (.text tseg false false false) rfl, bind, Except.bind,
    advance1_at16 src segs L j hd a e _ h (by simp), labelLen_noLab21 pre hpre,
    peekByte_at16 src segs L j hd (a + 1) e 40 _ h1 hj, linkTry, beq_self_eq_true, if_true,
    parseLinkInline21 src segs L j hd (a + 1) d rest e pre lid lseg tseg nid im bts h1 hj hd0 hdc hrest, linkDone]
  simp [containsLinkL, containsLink]

/-! ### text + link / text + image with pending delimiters in front: two passes -/

theorem link_step21 (env : Env) (henv : env.escapedSpace = false) (src : Bytes) (segs : List Segment) (L j hd : Int)
    (q : Nat) (bs t d rest : Bytes) (e : Int) (ks : List Inl.Node) (nid : Nat) (bts : List Bottom) (fuel : Nat)
    (h : At16 src L q e (bs ++ 91 :: (t ++ 93 :: 40 :: (d ++ 41 :: rest)))) (hj : j < segs.length)
    (hend : EndOK11 rest)
    (hbs : bs ≠ []) (hq : quiet bs 0 false = true) (hesc : escAfter bs false = false)
    (ht0 : t ≠ []) (htc : ∀ c ∈ t, GM.Spec.CM.isAlnumC c = true)
    (hd0 : d ≠ []) (hdc : ∀ c ∈ d, isDestC16 c = true) (hrest : rest ≠ [])
    (hnm : NoMerge8 ks) (hks : NoLab21 ks) :
    lineLoop env (fuel + 1 + 1) false
      { rd := rdAt src segs L j { start := q, stop := e } hd, kids := ks, nextId := nid, bottoms := bts } =
    lineLoop env fuel false
      { rd := rdAt src segs L j { start := ((q + bs.length + 1 + t.length + 1 + 1 + d.length + 1 : Nat) : Int), stop := e } hd,
        kids := ks ++ [.text { start := q, stop := ((q + bs.length : Nat) : Int) } false false false,
          .link false d none [.text { start := ((q + bs.length + 1 : Nat) : Int),
                                      stop := ((q + bs.length + 1 + t.length : Nat) : Int) } false false false]],
        nextId := nid + 1, bottoms := bts } := by
  have h1 : At16 src L (q + bs.length) e (91 :: (t ++ 93 :: 40 :: (d ++ 41 :: rest))) := h.drop bs _
  have h2 : At16 src L (q + bs.length + 1) e (t ++ 93 :: 40 :: (d ++ 41 :: rest)) := h1.drop [91] _
  have h3 : At16 src L (q + bs.length + 1 + t.length) e (93 :: 40 :: (d ++ 41 :: rest)) := h2.drop t _
  have hks1 : NoLab21 (ks ++ [.text { start := q, stop := ((q + bs.length : Nat) : Int) } false false false]) := by
    intro n hn
    simp only [List.mem_append, List.mem_cons, List.not_mem_nil, or_false] at hn
    rcases hn with hn | rfl
    · exact hks n hn
    · rfl
  have hend1 : EndOK11 (t ++ 93 :: 40 :: (d ++ 41 :: rest)) := by
    have := endOK_app11 (t ++ 93 :: 40 :: (d ++ [41])) rest hend
    simpa using this
  have hend2 : EndOK11 (40 :: (d ++ 41 :: rest)) := by
    have := endOK_app11 (40 :: (d ++ [41])) rest hend
    simpa using this
  obtain ⟨hqt, hesct⟩ := alnum_quiet11 t 0 htc
  have p1 := pass16 env henv src segs L j hd q bs 91 _ e ks nid bts (fuel + 1) h hj hend1 hbs hq hesc (Or.inl rfl) hnm _ _
    (parseLink_open21 env src segs L j hd (q + bs.length) _ e _ nid bts h1 hj (by simp))
  rw [p1]
  have p2 := pass16 env henv src segs L j hd (q + bs.length + 1) t 93 _ e
    (ks ++ [.text { start := q, stop := ((q + bs.length : Nat) : Int) } false false false] ++
      [.label nid { start := ((q + bs.length : Nat) : Int), stop := ((q + bs.length : Nat) : Int) + 1 } false])
    (nid + 1)
    (bottomOf21 (ks ++ [.text { start := q, stop := ((q + bs.length : Nat) : Int) } false false false]) :: bts) fuel h2 hj hend2 ht0 hqt hesct (Or.inr rfl) (noMerge_label16 _ _ _ _) _ _
    (by
      rw [List.append_assoc, List.singleton_append]
      exact parseLink_close21 env src segs L j hd (q + bs.length + 1 + t.length) d rest e _ nid _ _ (nid + 1) false bts
        h3 hj hd0 hdc hrest hks1)
  rw [p2]
  simp


theorem img_step21 (env : Env) (henv : env.escapedSpace = false) (src : Bytes) (segs : List Segment) (L j hd : Int)
    (q : Nat) (bs t d rest : Bytes) (e : Int) (ks : List Inl.Node) (nid : Nat) (bts : List Bottom) (fuel : Nat)
    (h : At16 src L q e (bs ++ 33 :: 91 :: (t ++ 93 :: 40 :: (d ++ 41 :: rest)))) (hj : j < segs.length)
    (hend : EndOK11 rest)
    (hbs : bs ≠ []) (hq : quiet bs 0 false = true) (hesc : escAfter bs false = false)
    (ht0 : t ≠ []) (htc : ∀ c ∈ t, GM.Spec.CM.isAlnumC c = true)
    (hd0 : d ≠ []) (hdc : ∀ c ∈ d, isDestC16 c = true) (hrest : rest ≠ [])
    (hnm : NoMerge8 ks) (hks : NoLab21 ks) :
    lineLoop env (fuel + 1 + 1) false
      { rd := rdAt src segs L j { start := q, stop := e } hd, kids := ks, nextId := nid, bottoms := bts } =
    lineLoop env fuel false
      { rd := rdAt src segs L j { start := ((q + bs.length + 1 + 1 + t.length + 1 + 1 + d.length + 1 : Nat) : Int), stop := e } hd,
        kids := ks ++ [.text { start := q, stop := ((q + bs.length : Nat) : Int) } false false false,
          .link true d none [.text { start := ((q + bs.length + 1 + 1 : Nat) : Int),
                                     stop := ((q + bs.length + 1 + 1 + t.length : Nat) : Int) } false false false]],
        nextId := nid + 1, bottoms := bts } := by
  have h1 : At16 src L (q + bs.length) e (33 :: 91 :: (t ++ 93 :: 40 :: (d ++ 41 :: rest))) := h.drop bs _
  have h2 : At16 src L (q + bs.length + 1 + 1) e (t ++ 93 :: 40 :: (d ++ 41 :: rest)) := (h1.drop [33] _).drop [91] _
  have h3 : At16 src L (q + bs.length + 1 + 1 + t.length) e (93 :: 40 :: (d ++ 41 :: rest)) := h2.drop t _
  have hks1 : NoLab21 (ks ++ [.text { start := q, stop := ((q + bs.length : Nat) : Int) } false false false]) := by
    intro n hn
    simp only [List.mem_append, List.mem_cons, List.not_mem_nil, or_false] at hn
    rcases hn with hn | rfl
    · exact hks n hn
    · rfl
  have hend1 : EndOK11 (91 :: (t ++ 93 :: 40 :: (d ++ 41 :: rest))) := by
    have := endOK_app11 (91 :: (t ++ 93 :: 40 :: (d ++ [41]))) rest hend
    simpa using this
  have hend2 : EndOK11 (40 :: (d ++ 41 :: rest)) := by
    have := endOK_app11 (40 :: (d ++ [41])) rest hend
    simpa using this
  obtain ⟨hqt, hesct⟩ := alnum_quiet11 t 0 htc
  obtain ⟨lseg, hopen⟩ := parseLink_openImg21 env src segs L j hd (q + bs.length) _ e
    (ks ++ [.text { start := q, stop := ((q + bs.length : Nat) : Int) } false false false]) nid bts h1 hj (by simp)
  have p1 := pass17 env henv src segs L j hd q bs 33 _ e ks nid bts (fuel + 1) h hj hend1 hbs hq hesc rfl hnm _ _ hopen
  rw [p1]
  have p2 := pass16 env henv src segs L j hd (q + bs.length + 1 + 1) t 93 _ e
    (ks ++ [.text { start := q, stop := ((q + bs.length : Nat) : Int) } false false false] ++ [.label nid lseg true])
    (nid + 1)
    (bottomOf21 (ks ++ [.text { start := q, stop := ((q + bs.length : Nat) : Int) } false false false]) :: bts) fuel h2 hj hend2 ht0 hqt hesct (Or.inr rfl) (noMerge_label16 _ _ _ _) _ _
    (by
      rw [List.append_assoc, List.singleton_append]
      exact parseLink_close21 env src segs L j hd (q + bs.length + 1 + 1 + t.length) d rest e _ nid _ _ (nid + 1) true bts
        h3 hj hd0 hdc hrest hks1)
  rw [p2]
  simp


/-! ### X-forms: only the part of the line that `classify` keeps is scanned -/

/-- one scan that ends at a trigger byte whose parsers give a node; `X` = whatever the byte loop has behind the
    trigger byte (never inspected), `tail` = what really stands there in the source -/
theorem scan_hitX21 (env : Env) (henv : env.escapedSpace = false) (src : Bytes) (segs : List Segment) (L j hd : Int)
    (q : Nat) (bs : Bytes) (c : UInt8) (X tail : Bytes) (e : Int) (ks : List Inl.Node) (nid : Nat) (bts : List Bottom)
    (ips : List Ip) (h : At16 src L q e (bs ++ c :: tail))
    (hbs : bs ≠ []) (hq : quiet bs 0 false = true) (hesc : escAfter bs false = false)
    (hpun : isPunct c = true) (hsp : isSpace c = false) (hF : parsersFor c = ips) (hips : ips.isEmpty = false)
    (hnm : NoMergeAt13 ks q) (nd : Inl.Node) (st' : St)
    (hparse : tryParsers env j { start := ((q + bs.length : Nat) : Int), stop := e } ips
      { rd := rdAt src segs L j { start := ((q + bs.length : Nat) : Int), stop := e } hd,
        kids := ks ++ [.text { start := q, stop := ((q + bs.length : Nat) : Int) } false false false], nextId := nid,
        bottoms := bts } = .ok (some nd, st')) :
    scan env (bs ++ c :: X) 0
      { st := { rd := rdAt src segs L j { start := q, stop := e } hd, kids := ks, nextId := nid, bottoms := bts },
        n := 0, sp := { start := q, stop := e }, escaped := false } =
    .ok (.hit { st' with kids := st'.kids ++ [nd] } false) := by
  have hbl : 0 < bs.length := List.length_pos_iff.mpr hbs
  rw [scan_pre8 env henv bs _ 0 _ hq]
  simp only [hesc, Nat.zero_add, Int.zero_add]
  have hT : isTrigger env c bs.length false = true := by
    simp [isTrigger, hpun]
  have hP : parserChar c bs.length = c := by
    simp [parserChar, hsp, hpun]
  have h10 : (c == 10) = false := by
    rw [beq_eq_false_iff_ne]; intro h0; subst h0; simp [isSpace] at hsp
  rw [scan]
  simp only [h10, Bool.false_eq_true, if_false, hT, hP, hF, hips]
  simp only [Bool.not_false, Bool.and_self, if_true]
  unfold trigger
  simp only [bind, Except.bind]
  rw [advance_at16 src segs L j hd q e _ h bs.length (by simp)]
  have hne0 : (bs.length != 0) = true := by simp; omega
  simp only [hne0, if_true, BlockReader.position, Segment.between, Except.map, bind, Except.bind]
  simp only [show (rdAt src segs L j { start := ((q + bs.length : Nat) : Int), stop := e } hd).pos =
    { start := ((q + bs.length : Nat) : Int), stop := e } from rfl,
    show (rdAt src segs L j { start := ((q + bs.length : Nat) : Int), stop := e } hd).line = j from rfl,
    bne_self_eq_false, Bool.false_eq_true, if_false]
  rw [hnm]
  simp only [textOf, Int.sub_self, hparse, pure, Except.pure]

theorem passX21 (env : Env) (henv : env.escapedSpace = false) (src : Bytes) (segs : List Segment) (L j hd : Int)
    (q : Nat) (bs : Bytes) (c : UInt8) (tail : Bytes) (e : Int) (ks : List Inl.Node) (nid : Nat) (bts : List Bottom)
    (fuel : Nat) (ips : List Ip)
    (h : At16 src L q e (bs ++ c :: tail)) (hj : j < segs.length) (hend : CutOK13 tail)
    (hbs : bs ≠ []) (hq : quiet bs 0 false = true) (hesc : escAfter bs false = false)
    (hpun : isPunct c = true) (hsp : isSpace c = false) (hF : parsersFor c = ips) (hips : ips.isEmpty = false)
    (hnm : NoMergeAt13 ks q) (nd : Inl.Node) (st' : St)
    (hparse : tryParsers env j { start := ((q + bs.length : Nat) : Int), stop := e } ips
      { rd := rdAt src segs L j { start := ((q + bs.length : Nat) : Int), stop := e } hd,
        kids := ks ++ [.text { start := q, stop := ((q + bs.length : Nat) : Int) } false false false], nextId := nid,
        bottoms := bts } = .ok (some nd, st')) :
    lineLoop env (fuel + 1) false
      { rd := rdAt src segs L j { start := q, stop := e } hd, kids := ks, nextId := nid, bottoms := bts } =
    lineLoop env fuel false { st' with kids := st'.kids ++ [nd] } := by
  obtain ⟨b0, bs', hbb⟩ : ∃ b0 bs', bs = b0 :: bs' := by
    cases bs with
    | nil => exact absurd rfl hbs
    | cons x xs => exact ⟨x, xs, rfl⟩
  have hp := peekLine_at16 src segs L j hd q e b0 (bs' ++ c :: tail) (by rw [← List.cons_append, ← hbb]; exact h) hj
  rw [← List.cons_append, ← hbb] at hp
  refine lineLoop_hit8 env fuel false false _ _ _ _ hp ?_ ?_
  · rw [hbb]; rfl
  · obtain ⟨Y, hY⟩ := hend (bs ++ [c])
    rw [List.append_assoc, List.singleton_append] at hY
    rw [hY, List.append_assoc, List.singleton_append]
    exact scan_hitX21 env henv src segs L j hd q bs c Y tail e ks nid bts ips h hbs hq hesc hpun hsp hF hips hnm nd st'
      hparse

theorem tryLink21 (env : Env) (l : Int) (p : Segment) (st st' : St) (nd : Inl.Node)
    (h : parseLink env st = .ok (some nd, st')) : tryParsers env l p [.link] st = .ok (some nd, st') := by
  simp [tryParsers, Ip.parse, h, bind, Except.bind, pure, Except.pure]


theorem link_stepX21 (env : Env) (henv : env.escapedSpace = false) (src : Bytes) (segs : List Segment) (L j hd : Int)
    (q : Nat) (bs t d rest : Bytes) (e : Int) (ks : List Inl.Node) (nid : Nat) (bts : List Bottom) (fuel : Nat)
    (h : At16 src L q e (bs ++ 91 :: (t ++ 93 :: 40 :: (d ++ 41 :: rest)))) (hj : j < segs.length)
    (hend : CutOK13 rest)
    (hbs : bs ≠ []) (hq : quiet bs 0 false = true) (hesc : escAfter bs false = false)
    (ht0 : t ≠ []) (htc : ∀ c ∈ t, GM.Spec.CM.isAlnumC c = true)
    (hd0 : d ≠ []) (hdc : ∀ c ∈ d, isDestC16 c = true) (hrest : rest ≠ [])
    (hnm : NoMergeAt13 ks q) (hks : NoLab21 ks) :
    lineLoop env (fuel + 1 + 1) false
      { rd := rdAt src segs L j { start := q, stop := e } hd, kids := ks, nextId := nid, bottoms := bts } =
    lineLoop env fuel false
      { rd := rdAt src segs L j { start := ((q + bs.length + 1 + t.length + 1 + 1 + d.length + 1 : Nat) : Int), stop := e } hd,
        kids := ks ++ [.text { start := q, stop := ((q + bs.length : Nat) : Int) } false false false,
          .link false d none [.text { start := ((q + bs.length + 1 : Nat) : Int),
                                      stop := ((q + bs.length + 1 + t.length : Nat) : Int) } false false false]],
        nextId := nid + 1, bottoms := bts } := by
  have h1 : At16 src L (q + bs.length) e (91 :: (t ++ 93 :: 40 :: (d ++ 41 :: rest))) := h.drop bs _
  have h2 : At16 src L (q + bs.length + 1) e (t ++ 93 :: 40 :: (d ++ 41 :: rest)) := h1.drop [91] _
  have h3 : At16 src L (q + bs.length + 1 + t.length) e (93 :: 40 :: (d ++ 41 :: rest)) := h2.drop t _
  have hks1 : NoLab21 (ks ++ [.text { start := q, stop := ((q + bs.length : Nat) : Int) } false false false]) := by
    intro n hn
    simp only [List.mem_append, List.mem_cons, List.not_mem_nil, or_false] at hn
    rcases hn with hn | rfl
    · exact hks n hn
    · rfl
  have hend1 : CutOK13 (t ++ 93 :: 40 :: (d ++ 41 :: rest)) := by
    have := cutOK_app13 (t ++ 93 :: 40 :: (d ++ [41])) rest hend
    simpa using this
  have hend2 : CutOK13 (40 :: (d ++ 41 :: rest)) := by
    have := cutOK_app13 (40 :: (d ++ [41])) rest hend
    simpa using this
  obtain ⟨hqt, hesct⟩ := alnum_quiet11 t 0 htc
  have p1 := passX21 env henv src segs L j hd q bs 91 _ e ks nid bts (fuel + 1) [.link] h hj hend1 hbs hq hesc
    (by decide) (by decide) (by decide) rfl hnm _ _
    (tryLink21 env _ _ _ _ _ (parseLink_open21 env src segs L j hd (q + bs.length) _ e _ nid bts h1 hj (by simp)))
  rw [p1]
  have p2 := passX21 env henv src segs L j hd (q + bs.length + 1) t 93 _ e
    (ks ++ [.text { start := q, stop := ((q + bs.length : Nat) : Int) } false false false] ++
      [.label nid { start := ((q + bs.length : Nat) : Int), stop := ((q + bs.length : Nat) : Int) + 1 } false])
    (nid + 1)
    (bottomOf21 (ks ++ [.text { start := q, stop := ((q + bs.length : Nat) : Int) } false false false]) :: bts) fuel
    [.link] h2 hj hend2 ht0 hqt hesct (by decide) (by decide) (by decide) rfl
    (noMergeAt_of8_13 (noMerge_label16 _ _ _ _) _) _ _
    (tryLink21 env _ _ _ _ _ (by
      rw [List.append_assoc, List.singleton_append]
      exact parseLink_close21 env src segs L j hd (q + bs.length + 1 + t.length) d rest e _ nid _ _ (nid + 1) false bts
        h3 hj hd0 hdc hrest hks1))
  rw [p2]
  simp

theorem img_stepX21 (env : Env) (henv : env.escapedSpace = false) (src : Bytes) (segs : List Segment) (L j hd : Int)
    (q : Nat) (bs t d rest : Bytes) (e : Int) (ks : List Inl.Node) (nid : Nat) (bts : List Bottom) (fuel : Nat)
    (h : At16 src L q e (bs ++ 33 :: 91 :: (t ++ 93 :: 40 :: (d ++ 41 :: rest)))) (hj : j < segs.length)
    (hend : CutOK13 rest)
    (hbs : bs ≠ []) (hq : quiet bs 0 false = true) (hesc : escAfter bs false = false)
    (ht0 : t ≠ []) (htc : ∀ c ∈ t, GM.Spec.CM.isAlnumC c = true)
    (hd0 : d ≠ []) (hdc : ∀ c ∈ d, isDestC16 c = true) (hrest : rest ≠ [])
    (hnm : NoMergeAt13 ks q) (hks : NoLab21 ks) :
    lineLoop env (fuel + 1 + 1) false
      { rd := rdAt src segs L j { start := q, stop := e } hd, kids := ks, nextId := nid, bottoms := bts } =
    lineLoop env fuel false
      { rd := rdAt src segs L j { start := ((q + bs.length + 1 + 1 + t.length + 1 + 1 + d.length + 1 : Nat) : Int), stop := e } hd,
        kids := ks ++ [.text { start := q, stop := ((q + bs.length : Nat) : Int) } false false false,
          .link true d none [.text { start := ((q + bs.length + 1 + 1 : Nat) : Int),
                                     stop := ((q + bs.length + 1 + 1 + t.length : Nat) : Int) } false false false]],
        nextId := nid + 1, bottoms := bts } := by
  have h1 : At16 src L (q + bs.length) e (33 :: 91 :: (t ++ 93 :: 40 :: (d ++ 41 :: rest))) := h.drop bs _
  have h2 : At16 src L (q + bs.length + 1 + 1) e (t ++ 93 :: 40 :: (d ++ 41 :: rest)) := (h1.drop [33] _).drop [91] _
  have h3 : At16 src L (q + bs.length + 1 + 1 + t.length) e (93 :: 40 :: (d ++ 41 :: rest)) := h2.drop t _
  have hks1 : NoLab21 (ks ++ [.text { start := q, stop := ((q + bs.length : Nat) : Int) } false false false]) := by
    intro n hn
    simp only [List.mem_append, List.mem_cons, List.not_mem_nil, or_false] at hn
    rcases hn with hn | rfl
    · exact hks n hn
    · rfl
  have hend1 : CutOK13 (91 :: (t ++ 93 :: 40 :: (d ++ 41 :: rest))) := by
    have := cutOK_app13 (91 :: (t ++ 93 :: 40 :: (d ++ [41]))) rest hend
    simpa using this
  have hend2 : CutOK13 (40 :: (d ++ 41 :: rest)) := by
    have := cutOK_app13 (40 :: (d ++ [41])) rest hend
    simpa using this
  obtain ⟨hqt, hesct⟩ := alnum_quiet11 t 0 htc
  obtain ⟨lseg, hopen⟩ := parseLink_openImg21 env src segs L j hd (q + bs.length) _ e
    (ks ++ [.text { start := q, stop := ((q + bs.length : Nat) : Int) } false false false]) nid bts h1 hj (by simp)
  have p1 := passX21 env henv src segs L j hd q bs 33 _ e ks nid bts (fuel + 1) [.link] h hj hend1 hbs hq hesc
    (by decide) (by decide) (by decide) rfl hnm _ _ (tryLink21 env _ _ _ _ _ hopen)
  rw [p1]
  have p2 := passX21 env henv src segs L j hd (q + bs.length + 1 + 1) t 93 _ e
    (ks ++ [.text { start := q, stop := ((q + bs.length : Nat) : Int) } false false false] ++ [.label nid lseg true])
    (nid + 1)
    (bottomOf21 (ks ++ [.text { start := q, stop := ((q + bs.length : Nat) : Int) } false false false]) :: bts) fuel
    [.link] h2 hj hend2 ht0 hqt hesct (by decide) (by decide) (by decide) rfl
    (noMergeAt_of8_13 (noMerge_label16 _ _ _ _) _) _ _
    (tryLink21 env _ _ _ _ _ (by
      rw [List.append_assoc, List.singleton_append]
      exact parseLink_close21 env src segs L j hd (q + bs.length + 1 + 1 + t.length) d rest e _ nid _ _ (nid + 1) true bts
        h3 hj hd0 hdc hrest hks1))
  rw [p2]
  simp

theorem auto_stepX21 (env : Env) (henv : env.escapedSpace = false) (src : Bytes) (segs : List Segment) (L j hd : Int)
    (q : Nat) (bs s r rest : Bytes) (e : Int) (ks : List Inl.Node) (nid : Nat) (bts : List Bottom) (fuel : Nat)
    (h : At16 src L q e (bs ++ 60 :: (s ++ 58 :: (r ++ 62 :: rest)))) (hj : j < segs.length)
    (hend : CutOK13 rest)
    (hbs : bs ≠ []) (hq : quiet bs 0 false = true) (hesc : escAfter bs false = false)
    (hs2 : 2 ≤ s.length) (hs32 : s.length ≤ 32) (hsl : ∀ c ∈ s, GM.Spec.CM.isLetter c = true)
    (hrc : ∀ c ∈ r, isAutoC18 c = true) (hrest : rest ≠ []) (hnm : NoMergeAt13 ks q) :
    lineLoop env (fuel + 1) false
      { rd := rdAt src segs L j { start := q, stop := e } hd, kids := ks, nextId := nid, bottoms := bts } =
    lineLoop env fuel false
      { rd := rdAt src segs L j { start := ((q + bs.length + 1 + s.length + 1 + r.length + 1 : Nat) : Int), stop := e } hd,
        kids := ks ++ [.text { start := q, stop := ((q + bs.length : Nat) : Int) } false false false,
          .autoLink false { start := ((q + bs.length + 1 : Nat) : Int),
                            stop := ((q + bs.length + 1 + s.length + 1 + r.length : Nat) : Int) }],
        nextId := nid, bottoms := bts } := by
  have h1 : At16 src L (q + bs.length) e (60 :: (s ++ 58 :: (r ++ 62 :: rest))) := h.drop bs _
  have hend1 : CutOK13 (s ++ 58 :: (r ++ 62 :: rest)) := by
    have := cutOK_app13 (s ++ 58 :: (r ++ [62])) rest hend
    simpa using this
  have hpa := parseAutoLink18 src segs L j hd (q + bs.length) s r rest e h1 hj hs2 hs32 hsl hrc hrest
  have htry : tryParsers env j { start := ((q + bs.length : Nat) : Int), stop := e } [.autoLink, .rawHTML]
      { rd := rdAt src segs L j { start := ((q + bs.length : Nat) : Int), stop := e } hd,
        kids := ks ++ [.text { start := q, stop := ((q + bs.length : Nat) : Int) } false false false], nextId := nid,
        bottoms := bts } =
      .ok (some (.autoLink false { start := ((q + bs.length + 1 : Nat) : Int),
                                   stop := ((q + bs.length + 1 + s.length + 1 + r.length : Nat) : Int) }),
        { rd := rdAt src segs L j { start := ((q + bs.length + 1 + s.length + 1 + r.length + 1 : Nat) : Int), stop := e } hd,
          kids := ks ++ [.text { start := q, stop := ((q + bs.length : Nat) : Int) } false false false], nextId := nid,
          bottoms := bts }) := by
    simp only [tryParsers, Ip.parse, liftR, bind, Except.bind, hpa, pure, Except.pure]
  have p1 := passX21 env henv src segs L j hd q bs 60 _ e ks nid bts fuel [.autoLink, .rawHTML] h hj hend1 hbs hq hesc
    (by decide) (by decide) (by decide) rfl hnm _ _ htry
  rw [p1]
  simp

theorem tag_stepX21 (env : Env) (henv : env.escapedSpace = false) (src : Bytes) (segs : List Segment) (L : Int) (j : Nat)
    (hd : Int) (q : Nat) (bs tag rest : Bytes) (e : Int) (ks : List Inl.Node) (nid : Nat) (bts : List Bottom) (fuel : Nat)
    (W : WFSegs src segs) (Z : ∀ s ∈ segs, s.padding = 0) (hLs : L = BCur.lastStop segs)
    (hseg : segs[j]? = some { start := hd, stop := e }) (hhd : hd ≤ q)
    (h : At16 src L q e (bs ++ (tag ++ rest))) (hend : CutOK13 rest)
    (hbs : bs ≠ []) (hq : quiet bs 0 false = true) (hesc : escAfter bs false = false)
    (htag : IsTag19 tag) (hrest : rest ≠ []) (hnm : NoMergeAt13 ks q) :
    lineLoop env (fuel + 1) false
      { rd := rdAt src segs L j { start := q, stop := e } hd, kids := ks, nextId := nid, bottoms := bts } =
    lineLoop env fuel false
      { rd := rdAt src segs L j { start := ((q + bs.length + tag.length : Nat) : Int), stop := e } hd,
        kids := ks ++ [.text { start := q, stop := ((q + bs.length : Nat) : Int) } false false false,
          .rawHTML [{ start := ((q + bs.length : Nat) : Int), stop := ((q + bs.length + tag.length : Nat) : Int) }]],
        nextId := nid, bottoms := bts } := by
  have hjl : j < segs.length := (List.getElem?_eq_some_iff.mp hseg).1
  have hj : ((j : Nat) : Int) < segs.length := by omega
  have hpars := tag_parsers19 env src segs L j (q + bs.length) e hd tag rest
    (ks ++ [.text { start := q, stop := ((q + bs.length : Nat) : Int) } false false false]) nid bts W Z hLs hseg
    (by omega) (h.drop bs _) htag hrest
  obtain ⟨tag', htt⟩ : ∃ tag', tag = 60 :: tag' := by
    obtain ⟨c, n', _, _, ht⟩ := htag
    rcases ht with rfl | rfl
    · exact ⟨_, rfl⟩
    · exact ⟨_, rfl⟩
  subst htt
  have p1 := passX21 env henv src segs L j hd q bs 60 (tag' ++ rest) e ks nid bts fuel [.autoLink, .rawHTML]
    (by simpa using h) hj (cutOK_app13 tag' rest hend) hbs hq hesc (by decide) (by decide) (by decide) rfl hnm _ _ hpars
  rw [p1]
  simp

end GM.Proof.CMFrag
