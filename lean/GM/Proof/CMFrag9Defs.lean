/-
  GM.Proof.CMFrag9Defs — stage 9 vocabulary: paragraph lines that may end in a HARD LINE BREAK written with a
  backslash. (Definitions only.)
-/
import GM.Proof.CMFrag7Inl

namespace GM.Proof.CMFrag
open GM GM.Text

/-- one paragraph line: its text `l` and whether a backslash (hard line break) follows it -/
structure HLine where
  l : Bytes
  hard : Bool

/-- the source bytes of the line (without the line feed) -/
def hlineSrc (x : HLine) : Bytes := if x.hard then x.l ++ [92] else x.l

/-- every line good; the last line of a paragraph is not hard -/
def HLinesOK (ls : List HLine) : Prop :=
  (∀ x ∈ ls, GoodLine x.l ∧ ∀ c ∈ x.l, c ≠ 10) ∧ (∀ x, ls.getLast? = some x → x.hard = false)

/-- the children of the paragraph as the renderer reads them: a hard line has `soft = false, hard = true`, another
    line that is not the last has `soft = true`, the last line has neither -/
def hardNodes9 : List HLine → List GM.Node
  | [] => []
  | [x] => [.mk (.text x.l false false false false) none []]
  | x :: y :: rest => .mk (.text x.l (!x.hard) x.hard false false) none [] :: hardNodes9 (y :: rest)

/-- the HTML between `<p>` and `</p>`: every line written by the text writer, `<br />` + line feed behind a hard
    line, a line feed behind another line, nothing behind the last -/
def hardHtml9 : List HLine → Bytes
  | [] => []
  | [x] => GM.write false x.l
  | x :: y :: rest =>
    GM.write false x.l ++ (if x.hard then strBytes "<br />\n" else [10]) ++ hardHtml9 (y :: rest)

end GM.Proof.CMFrag
