-- GENERATED from BlocksTNP1.lean by tools/port_blocks_v.py (package headingids): the same proofs for the monitored driver runV. Do not edit.
/-
  GM.Proof.BlocksTNP1 — no-panic proof of the block driver WITH paragraph transformers (GM.Model.Blocks.DriverT), part 1:
  the three-outcome calculus `OKE`, what one `transformParagraph` call does to the state (`TStep`, from the contract
  `PTsSpec` of GM.Proof.BlocksTNPSpec), and `closeLoopV` / `closeBlocksV` total (the analogue of `closeList_okl` /
  `closeBlocks_okl` of GM.Proof.BlocksDriver).

  WHICH INVARIANTS CHANGE, AND WHY
  * `Ext s s'` (BlocksInv) is FALSE across a transformer call: `Ext.linesNE` says "a non-code node keeps having lines",
    and the GONE case empties the paragraph. `Ext` is used by the driver proof only (a) for `len` / `kind` and (b) through
    `BlockOK.ext` / `KeysOK.ext` to carry `BlockOK` of the blocks that stay open and `KeysOK` over a call. So the
    post-condition of `closeBlocksV` states `ExtW` (= `len` + `kind`) and hands over `BlockOK` of the kept blocks and
    `KeysOK` directly; inside the loop they are carried over the transformer step by `TStep` (exact frame: only the
    transformed node's lines change, its parent in the GONE case) and over the parser's `Close` by the old `Ext`.
  * the kept blocks must not be the transformed node: `Compat` gets the clause "a kept PARAGRAPH block is another node
    than the block closed first" (`CompatT`); callers have it from freshness of new node ids.
  * `KeysOK.tmp` (temporaryParagraphKey points to a paragraph WITH lines) survives a transformer call only if the key does
    not point to the transformed paragraph: hypothesis `s.pc.tmpPara ≠ some top.node` for the (only possible) paragraph
    `top` of the closed range. It holds whenever the key is unset, and in general because `setextOpen` sets the key to the
    last opened paragraph, which `requireParaV` pops at once.
  * a transformed (GONE) paragraph's block stays in the stale `blocks` slice until the end of `closeBlocksV`; its `Close`
    is skipped (`parent = none`); in the KEEP case `paragraphClose` finds `lines ≠ []`.
-/
import GM.Proof.BlocksDriver
import GM.Proof.BlocksVPre
import GM.Proof.BlocksTNPSpec

namespace GM.Blocks.TV
open GM GM.Text GM.Spec GM.Proof.Reader

/-! ### the three-outcome calculus -/

/-- ended normally with `P`, or the fuel error, or the transformers' guard error `e` -/
def OKE (e : Panic) {α : Type} (P : α → St → Prop) (x : Except Panic (α × St)) : Prop :=
  OKL P x ∨ x = .error e

theorem OKE.ok {e : Panic} {α} {P : α → St → Prop} {a : α} {s' : St} (h : P a s') : OKE e P (.ok (a, s')) :=
  .inl (OKL.ok h)

theorem OKE.of_okl {e : Panic} {α} {P : α → St → Prop} {x : Except Panic (α × St)} (h : OKL P x) : OKE e P x := .inl h

theorem OKE.bind {e : Panic} {α β} {P : α → St → Prop} {Q : β → St → Prop} {m : M α} {f : α → M β} {s : St}
    (hm : OKE e P (m s)) (hf : ∀ a s', P a s' → OKE e Q (f a s')) : OKE e Q ((m >>= f) s) := by
  show OKE e Q (StateT.bind m f s)
  unfold StateT.bind
  rcases hm with (⟨a, s', h1, h2⟩ | h1) | h1
  · rw [h1]; exact hf a s' h2
  · rw [h1]; exact .inl (.inr rfl)
  · rw [h1]; exact .inr rfl

theorem OKE.mono {e : Panic} {α} {P Q : α → St → Prop} {x : Except Panic (α × St)} (h : OKE e P x)
    (hpq : ∀ a s, P a s → Q a s) : OKE e Q x := by
  rcases h with h | h
  · exact .inl (h.mono hpq)
  · exact .inr h

/-- a run that is neither the fuel error nor the guard error ended normally -/
theorem OKE.get {e : Panic} {α} {P : α → St → Prop} {x : Except Panic (α × St)} (h : OKE e P x)
    (hl : x ≠ .error .loop) (he : x ≠ .error e) : ∃ a s', x = .ok (a, s') ∧ P a s' := by
  rcases h with h | h
  · exact h.get hl
  · exact absurd h he

/-! ### the tree surgery of the GONE case -/

theorem insertBefore_eq (p v ins : Nat) (s : St) (hv : (nd s v).parent = some p) (hi : (nd s ins).parent = none) :
    insertBefore p (some v) ins s = .ok ((), upd (upd s p fun n => { n with children := insertBeforeIn v ins n.children })
      ins fun n => { n with parent := some p }) := by
  have hv' : (s.nodes.getD v default).parent = some p := hv
  have hi' : (s.nodes.getD ins default).parent = none := hi
  unfold insertBefore ensureIsolated
  simp only [bind, StateT.bind, getNode, Except.bind, pure, StateT.pure, Except.pure, hv', hi', bne_self_eq_false,
    Bool.false_eq_true, if_false]
  rfl

theorem removeChild_eq (p c : Nat) (s : St) (hc : (nd s c).parent = some p) :
    removeChild p c s = .ok ((), upd (upd s p fun n => { n with children := n.children.erase c })
      c fun n => { n with parent := none }) := by
  have hc' : (s.nodes.getD c default).parent = some p := hc
  unfold removeChild
  simp only [bind, StateT.bind, getNode, Except.bind, pure, StateT.pure, Except.pure, hc', bne_self_eq_false,
    Bool.false_eq_true, if_false]
  rfl

theorem parent_upd_children (s : St) (i : Nat) (g : List Nat → List Nat) (j : Nat) :
    (nd (upd s i fun n => { n with children := g n.children }) j).parent = (nd s j).parent := by
  rw [nd_upd]; split
  · rename_i h; obtain ⟨rfl, _⟩ := h; rfl
  · rfl

/-- the state after `ptReplace` (link_ref.go:42-47): the store with the fresh TextBlock appended, up to tree links;
    the paragraph is parentless -/
theorem ptReplace_eq (node p : Nat) (bp : Bool) (sE : St) (hlt : node < sE.nodes.length)
    (hp : (nd sE node).parent = some p) :
    ∃ s', ptReplace node p bp sE = .ok ((), s') ∧
      FrameEq { sE with nodes := sE.nodes ++ [{ kind := .textBlock, blankPrev := bp }] } s' ∧
      (nd s' node).parent = none := by
  generalize hsA : ({ sE with nodes := sE.nodes ++ [{ kind := .textBlock, blankPrev := bp }] } : St) = sA
  have hnA : sA.nodes = sE.nodes ++ [{ kind := .textBlock, blankPrev := bp }] := by rw [← hsA]
  have hA1 : (nd sA node).parent = some p := by rw [nd_of_append_lt hnA hlt]; exact hp
  have hA2 : (nd sA sE.nodes.length).parent = none := by
    simp only [nd, hnA]; rw [getD_length_append]
  have e1 := insertBefore_eq p node sE.nodes.length sA hA1 hA2
  generalize hsB : (upd (upd sA p fun n => { n with children := insertBeforeIn node sE.nodes.length n.children })
      sE.nodes.length fun n => { n with parent := some p }) = sB at e1
  have hfB : FrameEq sA sB := by
    rw [← hsB]
    exact (upd_frame sA p (f := fun n => { n with children := insertBeforeIn node sE.nodes.length n.children })
      (fun n => ⟨rfl, rfl, rfl⟩)).trans (upd_frame _ _ (f := fun n => { n with parent := some p }) (fun n => ⟨rfl, rfl, rfl⟩))
  have hB1 : (nd sB node).parent = some p := by
    rw [← hsB, nd_upd]
    have hne : ¬ (sE.nodes.length = node ∧ sE.nodes.length <
        (upd sA p fun n => { n with children := insertBeforeIn node sE.nodes.length n.children }).nodes.length) := by
      intro h; omega
    rw [if_neg hne, parent_upd_children sA p (fun l => insertBeforeIn node sE.nodes.length l)]
    exact hA1
  have e2 := removeChild_eq p node sB hB1
  refine ⟨upd (upd sB p fun n => { n with children := n.children.erase node }) node fun n => { n with parent := none },
    ?_, ?_, ?_⟩
  · unfold ptReplace newNode replaceChild
    simp only [bind, StateT.bind, pure, Except.pure, Except.bind]
    rw [hsA, e1]
    simp only [Except.bind]
    exact e2
  · exact hfB.trans ((upd_frame sB p (f := fun n => { n with children := n.children.erase node })
      (fun n => ⟨rfl, rfl, rfl⟩)).trans (upd_frame _ _ (f := fun n => { n with parent := none }) (fun n => ⟨rfl, rfl, rfl⟩)))
  · rw [nd_upd]
    have hlen : node < (upd sB p fun n => { n with children := n.children.erase node }).nodes.length := by
      simp only [upd, List.length_set]; rw [hfB.len, hnA]; simp; omega
    rw [if_pos ⟨rfl, hlen⟩]

/-! ### what one `transformParagraph` call does -/

/-- the effect of `transformParagraph pts node` on a Paragraph with a parent and lines; `gone` = its answer -/
structure TStep (src : Bytes) (node : Nat) (s s' : St) (gone : Bool) : Prop where
  r : s'.r = s.r
  pc : ∃ refs, s'.pc = { s.pc with refs := refs }
  len : s.nodes.length ≤ s'.nodes.length
  kind : ∀ i, i < s.nodes.length → (nd s' i).kind = (nd s i).kind
  other : ∀ i, i < s.nodes.length → i ≠ node → (nd s' i).lines = (nd s i).lines
  nodes : NodesOK src s'
  keep : gone = false → (nd s' node).lines ≠ [] ∧ (nd s' node).parent = (nd s node).parent
  goneP : gone = true → (nd s' node).parent = none

theorem TStep.refl {src : Bytes} {node : Nat} {s : St} (hn : NodesOK src s) (hl : (nd s node).lines ≠ []) :
    TStep src node s s false :=
  ⟨rfl, ⟨s.pc.refs, rfl⟩, Nat.le_refl _, fun _ _ => rfl, fun _ _ _ => rfl, hn, fun _ => ⟨hl, rfl⟩, fun h => by cases h⟩

theorem TStep.trans {src : Bytes} {node : Nat} {s s1 s2 : St} {g : Bool} (h1 : TStep src node s s1 false)
    (h2 : TStep src node s1 s2 g) : TStep src node s s2 g where
  r := by rw [h2.r, h1.r]
  pc := by
    obtain ⟨r1, e1⟩ := h1.pc; obtain ⟨r2, e2⟩ := h2.pc
    exact ⟨r2, by rw [e2, e1]⟩
  len := Nat.le_trans h1.len h2.len
  kind := fun i hi => by rw [h2.kind i (Nat.lt_of_lt_of_le hi h1.len), h1.kind i hi]
  other := fun i hi hne => by rw [h2.other i (Nat.lt_of_lt_of_le hi h1.len) hne, h1.other i hi hne]
  nodes := h2.nodes
  keep := fun hg => ⟨(h2.keep hg).1, by rw [(h2.keep hg).2, (h1.keep rfl).2]⟩
  goneP := h2.goneP

theorem nodeOK_drop {src : Bytes} {n : Node} (h : NodeOK src n) (k : Nat) : NodeOK src { n with lines := n.lines.drop k } :=
  ⟨fun t ht => h.lines t (List.mem_of_mem_drop ht), fun hnil => by
    have := h.nil hnil
    show n.lines.drop k = []
    rw [this]; simp⟩

/-- the contract `PTPost` of one transformer call, as a `TStep` -/
theorem tstep_of_post {src : Bytes} {node : Nat} {s s' : St} (hn : NodesOK src s) (hlt : node < s.nodes.length)
    (h : PTPost node s s') : ∃ g, TStep src node s s' g := by
  rcases h.res with ⟨refs, k, hk, e⟩ | ⟨refs, p, hp, e⟩
  · refine ⟨false, ?_⟩
    have hnodes : s'.nodes = s.nodes.set node { (nd s node) with lines := (nd s node).lines.drop k } := by rw [e]
    refine ⟨h.r, ⟨refs, by rw [e]⟩, by rw [hnodes, List.length_set]; exact Nat.le_refl _, fun i hi => ?_, fun i hi hne => ?_,
      hn.of_set hnodes (nodeOK_drop (hn.nd hlt) k), fun _ => ?_, fun hg => by cases hg⟩
    · by_cases hi' : i = node
      · subst hi'; rw [nd_of_set_self hnodes hlt]
      · rw [nd_of_set_ne hnodes hi']
    · rw [nd_of_set_ne hnodes hne]
    · rw [nd_of_set_self hnodes hlt]
      exact ⟨fun h0 => by simp only at h0; rw [h0] at hk; simp at hk, rfl⟩
  · refine ⟨true, ?_⟩
    have hEn : (ptEmptied s node refs).nodes = s.nodes.set node { (nd s node) with lines := [] } := rfl
    have hElt : node < (ptEmptied s node refs).nodes.length := by rw [hEn, List.length_set]; exact hlt
    have hEp : (nd (ptEmptied s node refs) node).parent = some p := by rw [nd_of_set_self hEn hlt]; exact hp
    obtain ⟨s2, e2, hf, hpar⟩ := ptReplace_eq node p (nd s node).blankPrev (ptEmptied s node refs) hElt hEp
    rw [e2] at e
    cases e
    generalize hsA : ({ (ptEmptied s node refs) with nodes := (ptEmptied s node refs).nodes ++
      [{ kind := .textBlock, blankPrev := (nd s node).blankPrev }] } : St) = sA at hf
    have hnA : sA.nodes = (ptEmptied s node refs).nodes ++ [{ kind := .textBlock, blankPrev := (nd s node).blankPrev }] := by
      rw [← hsA]
    have hElen : (ptEmptied s node refs).nodes.length = s.nodes.length := by rw [hEn, List.length_set]
    have hnE : NodesOK src (ptEmptied s node refs) :=
      hn.of_set hEn (nodeOK_noLines src _ rfl)
    have hnAok : NodesOK src sA := hnE.of_append hnA (nodeOK_noLines src _ rfl)
    have hAnd : ∀ i, i < s.nodes.length → nd sA i = nd (ptEmptied s node refs) i := fun i hi =>
      nd_of_append_lt hnA (by rw [hElen]; exact hi)
    refine ⟨h.r, ⟨refs, by rw [hf.pc, ← hsA]; rfl⟩, by rw [hf.len, hnA]; simp [hElen], fun i hi => ?_, fun i hi hne => ?_,
      hf.nodesOK hnAok, (fun hg => by cases hg), fun _ => hpar⟩
    · rw [(hf.same i).1, hAnd i hi]
      by_cases hi' : i = node
      · subst hi'; rw [nd_of_set_self hEn hlt]
      · rw [nd_of_set_ne hEn hi']
    · rw [(hf.same i).2.1, hAnd i hi, nd_of_set_ne hEn hne]

/-- `transformParagraph` on a Paragraph that has a parent and lines, under the transformers' contract -/
theorem transformParagraph_oke {src : Bytes} {e : Panic} : ∀ (pts : List PT), PTsSpec src e pts →
    ∀ (node : Nat) (s : St), s.r.source = src → node < s.nodes.length → (nd s node).kind = .paragraph →
      (nd s node).parent.isSome = true → (nd s node).lines ≠ [] → NodesOK src s →
      OKE e (fun g s' => TStep src node s s' g) (transformParagraph pts node s) := by
  intro pts
  induction pts with
  | nil =>
    intro _ node s _ _ _ _ hl hn
    unfold transformParagraph
    exact OKE.ok (TStep.refl hn hl)
  | cons pt pts ih =>
    intro hs node s hsrc hlt hk hp hl hn
    unfold transformParagraph
    have h1 : OKE e (fun (_ : Unit) s1 => ∃ g, TStep src node s s1 g) (pt node s) := by
      rcases hs pt (List.mem_cons_self ..) node s hsrc hlt hk hp hn with ⟨s1, e1, hpost⟩ | e1
      · rw [e1]; exact OKE.ok (tstep_of_post hn hlt hpost)
      · exact .inr e1
    refine OKE.bind h1 (fun _ s1 hg => ?_)
    obtain ⟨g, hg⟩ := hg
    refine OKE.bind (m := getNode node) (P := fun n sy => n = nd s1 node ∧ sy = s1) (OKE.ok ⟨rfl, rfl⟩) (fun n sy hy => ?_)
    obtain ⟨hn1, hsy⟩ := hy
    subst n sy
    cases g with
    | true =>
      have : (nd s1 node).parent.isNone = true := by rw [hg.goneP rfl]; rfl
      rw [if_pos this]
      exact OKE.ok hg
    | false =>
      obtain ⟨hl1, hp1⟩ := hg.keep rfl
      have : ¬ (nd s1 node).parent.isNone = true := by
        rw [hp1]; cases hh : (nd s node).parent with
        | none => rw [hh] at hp; cases hp
        | some _ => simp
      rw [if_neg this]
      have := ih (fun q hq => hs q (List.mem_cons_of_mem _ hq)) node s1 (by rw [hg.r]; exact hsrc)
        (Nat.lt_of_lt_of_le hlt hg.len) (by rw [hg.kind node hlt]; exact hk) (by rw [hp1]; exact hp) hl1 hg.nodes
      exact this.mono (fun g2 s2 h2 => hg.trans h2)

/-! ### carrying the invariant pieces over a transformer step -/

/-- `len` + `kind` of `Ext` (what is left of it across a transformer call) -/
structure ExtW (s s' : St) : Prop where
  len : s.nodes.length ≤ s'.nodes.length
  kind : ∀ i, i < s.nodes.length → (nd s' i).kind = (nd s i).kind

theorem ExtW.refl (s : St) : ExtW s s := ⟨Nat.le_refl _, fun _ _ => rfl⟩

theorem ExtW.trans {s1 s2 s3 : St} (h1 : ExtW s1 s2) (h2 : ExtW s2 s3) : ExtW s1 s3 :=
  ⟨Nat.le_trans h1.len h2.len, fun i hi => by rw [h2.kind i (Nat.lt_of_lt_of_le hi h1.len), h1.kind i hi]⟩

theorem ExtW.of_ext {s s' : St} (h : Ext s s') : ExtW s s' := ⟨h.len, h.kind⟩

theorem TStep.extW {src node s s' g} (h : TStep src node s s' g) : ExtW s s' := ⟨h.len, h.kind⟩

theorem TStep.tmp {src node s s' g} (h : TStep src node s s' g) : s'.pc.tmpPara = s.pc.tmpPara := by
  obtain ⟨r, e⟩ := h.pc; rw [e]

theorem TStep.fence {src node s s' g} (h : TStep src node s s' g) : s'.pc.fence = s.pc.fence := by
  obtain ⟨r, e⟩ := h.pc; rw [e]

theorem TStep.opened {src node s s' g} (h : TStep src node s s' g) : s'.pc.opened = s.pc.opened := by
  obtain ⟨r, e⟩ := h.pc; rw [e]

/-- a block other than the transformed paragraph stays valid -/
theorem TStep.blockOK {src node s s' g} (h : TStep src node s s' g) (hk : (nd s node).kind = .paragraph) {b : Block}
    (hb : BlockOK s b) (hne : b.bp = .paragraph → b.node ≠ node) : BlockOK s' b where
  lt := Nat.lt_of_lt_of_le hb.lt h.len
  kind := by rw [h.kind _ hb.lt]; exact hb.kind
  para := fun hp => by rw [h.other _ hb.lt (hne hp)]; exact hb.para hp
  setext := fun hp => by
    have hne' : b.node ≠ node := by
      intro e; have := hb.kind; rw [e, hk, hp] at this; cases this
    rw [h.other _ hb.lt hne', h.tmp]; exact hb.setext hp
  fenced := fun hp => by rw [h.fence]; exact hb.fenced hp

theorem TStep.keysOK {src node s s' g} (h : TStep src node s s' g) (hk : KeysOK s) (ht : s.pc.tmpPara ≠ some node) :
    KeysOK s' where
  tmp := fun t htt => by
    rw [h.tmp] at htt
    obtain ⟨a, b, c⟩ := hk.tmp t htt
    have hne : t ≠ node := fun e => ht (by rw [htt, e])
    exact ⟨Nat.lt_of_lt_of_le a h.len, by rw [h.kind t a]; exact b, by rw [h.other t a hne]; exact c⟩
  fence := fun f hf => by
    rw [h.fence] at hf
    obtain ⟨a, b, c⟩ := hk.fence f hf
    exact ⟨a, b, Nat.lt_of_lt_of_le c h.len⟩

/-! ### closeBlocksV -/

/-- closing `c` (with its transformation when it is a paragraph) does not invalidate the kept block `k` -/
def CompatT (s : St) (k c : Block) : Prop :=
  Compat s k c ∧ (c.bp = .paragraph → k.bp = .paragraph → k.node ≠ c.node)

theorem CompatT.of_container {s : St} {k c : Block} (h : c.bp.isContainer = true) : CompatT s k c :=
  ⟨Compat.of_container h, fun hc => absurd hc (container_kind h).1⟩

theorem CompatT.of_container_left {s : St} {k c : Block} (h : k.bp.isContainer = true) : CompatT s k c :=
  ⟨Compat.of_container_left h, fun _ hk => absurd hk (container_kind h).1⟩

/-- the loop of `closeBlocksV` over an explicit list (in closing order) -/
def closeListV (pts : List PT) : List Block → M Unit
  | [] => pure ()
  | b :: bs => do
    let n ← getNode b.node
    if n.kind == .paragraph && n.parent.isSome then
      let _ ← transformParagraph pts b.node
    if (← getNode b.node).parent.isSome then bpCloseV b.bp b.node
    closeListV pts bs

theorem closeLoopV_eq (pts : List PT) (blocks : List Block) (to : Nat) : ∀ k, to + k ≤ blocks.length →
    closeLoopV pts blocks (to : Int) k = closeListV pts ((blocks.drop to).take k).reverse := by
  intro k
  induction k with
  | zero => intro _; simp [closeLoopV, closeListV]
  | succ k ih =>
    intro hk
    have hlt : to + k < blocks.length := by omega
    have e : ((blocks.drop to).take (k + 1)).reverse = blocks[to + k] :: ((blocks.drop to).take k).reverse := by
      rw [List.take_add_one]
      have : (blocks.drop to)[k]? = some blocks[to + k] := by
        rw [List.getElem?_drop]; simp [hlt]
      rw [this]; simp
    rw [e]
    unfold closeLoopV
    simp only [closeListV]
    have hb : blockAt blocks ((to : Int) + (k : Int)) = .ok blocks[to + k] := by
      have := blockAt_ok blocks (to + k) hlt
      simpa using this
    rw [hb, ih (by omega)]
    rfl

section close
variable {src : Bytes} {A : BP → Prop} (sp : Specs src A) {e : Panic} {pts : List PT} (hpts : PTsSpec src e pts)
include sp hpts

/-- what `closeListV` / `closeBlocksV` guarantee about the state -/
def ClosedT (src : Bytes) (K : List Block) (s s' : St) : Prop :=
  s'.r = s.r ∧ NodesOK src s' ∧ KeysOK s' ∧ ExtW s s' ∧ (s'.pc.tmpPara = s.pc.tmpPara ∨ s'.pc.tmpPara = none) ∧
    ∀ k ∈ K, BlockOK s' k

/-- closing a list of blocks of which only the first may be a leaf (and, when it is a paragraph, is transformed first);
    the blocks `K` stay valid -/
theorem closeListV_oke (K : List Block) : ∀ (l : List Block) (s : St), s.r.source = src → NodesOK src s → KeysOK s →
    (∀ b ∈ l, BlockOK s b ∧ A b.bp) → (∀ b ∈ l.tail, b.bp.isContainer = true) →
    (∀ top, l.head? = some top → top.bp = .paragraph → s.pc.tmpPara ≠ some top.node) →
    (∀ k ∈ K, BlockOK s k ∧ ∀ top, l.head? = some top → CompatT s k top) →
    OKE e (fun _ s' => s'.pc.opened = s.pc.opened ∧ ClosedT src K s s') (closeListV pts l s) := by
  intro l
  induction l with
  | nil =>
    intro s _ hn hk _ _ _ hK
    exact OKE.ok ⟨rfl, rfl, hn, hk, ExtW.refl s, .inl rfl, fun k hk' => (hK k hk').1⟩
  | cons top cs ih =>
    intro s hsrc hn hk hl hcs htmp hK
    unfold closeListV
    refine OKE.bind (m := getNode top.node) (P := fun n s1 => n = nd s top.node ∧ s1 = s)
      (OKE.ok ⟨rfl, rfl⟩) (fun n s0 hn0 => ?_)
    obtain ⟨hn0, hs0⟩ := hn0
    subst n s0
    have htop := (hl top (by simp)).1
    have hAtop := (hl top (by simp)).2
    -- the rest of the loop, from the state after the (possibly skipped) Close of `top`
    have rest : ∀ s1 : St, (s1.pc.opened = s.pc.opened ∧ ClosedT src K s s1 ∧ (∀ b ∈ cs, BlockOK s1 b)) →
        OKE e (fun _ s' => s'.pc.opened = s.pc.opened ∧ ClosedT src K s s') (closeListV pts cs s1) := by
      intro s1 h1
      obtain ⟨hop, ⟨hr, hn1, hk1, he1, ht1, hK1⟩, hcs1⟩ := h1
      have := ih s1 (by rw [hr]; exact hsrc) hn1 hk1
        (fun b hb => ⟨hcs1 b hb, (hl b (by simp [hb])).2⟩)
        (fun b hb => hcs b (List.mem_of_mem_tail hb))
        (fun top' ht hp => by
          have : top'.bp.isContainer = true := hcs top' (by
            cases cs with
            | nil => simp at ht
            | cons a as => simp at ht; subst ht; simp)
          exact absurd hp (container_kind this).1)
        (fun k hk' => ⟨hK1 k hk', fun top' ht => CompatT.of_container (hcs top' (by
            cases cs with
            | nil => simp at ht
            | cons a as => simp at ht; subst ht; simp))⟩)
      refine OKE.mono this (fun _ s2 h2 => ?_)
      obtain ⟨b, a, c, d, e', t', f⟩ := h2
      refine ⟨by rw [b, hop], by rw [a, hr], c, d, he1.trans e', ?_, f⟩
      rcases t' with t' | t'
      · rw [t']; exact ht1
      · exact .inr t'
    -- the Close of `top` (when it still has a parent), from a state `s1` in which `top` is a valid block
    have close : ∀ s1 : St, (s1.pc.opened = s.pc.opened ∧ ClosedT src K s s1 ∧ (∀ b ∈ cs, BlockOK s1 b)) →
        BlockOK s1 top → (∀ k ∈ K, Compat s1 k top) →
        OKE e (fun _ s' => s'.pc.opened = s.pc.opened ∧ ClosedT src K s s')
          ((do
            if (← getNode top.node).parent.isSome then bpCloseV top.bp top.node
            closeListV pts cs : M Unit) s1) := by
      intro s1 h1 htop1 hcomp1
      obtain ⟨hop, ⟨hr, hn1, hk1, he1, ht1, hK1⟩, hcs1⟩ := h1
      refine OKE.bind (m := getNode top.node) (P := fun n sy => n = nd s1 top.node ∧ sy = s1)
        (OKE.ok ⟨rfl, rfl⟩) (fun n sy hy => ?_)
      obtain ⟨hn0, hsy⟩ := hy
      subst n sy
      by_cases hp : (nd s1 top.node).parent.isSome = true
      · rw [if_pos hp]
        have hc := sp.close top.bp hAtop top.node s1 (by rw [hr]; exact hsrc) hn1 hk1 htop1
        have hc := bpCloseV_okl (src := src) (fun _ s' h => ⟨h.nodes, by rw [h.r, hr]; exact hsrc⟩) hc
        refine OKE.bind (OKE.of_okl hc) (fun _ s2 h2 => rest s2 ?_)
        have hks : KeysOK s2 := hk1.ext h2.ext
          (by rcases h2.tmp with h | h; exact .inl h; exact .inr h.2)
          (by rcases h2.fence with h | h; exact .inl h; exact .inr h.2.1)
        refine ⟨by rw [h2.opened, hop], ⟨by rw [h2.r, hr], h2.nodes, hks, he1.trans (ExtW.of_ext h2.ext), ?_, ?_⟩, ?_⟩
        · rcases h2.tmp with h | h
          · rw [h]; exact ht1
          · exact .inr h.2
        · intro k hk'
          have kok := hK1 k hk'
          have kc := hcomp1 k hk'
          refine kok.ext h2.ext ?_ ?_
          · intro hse
            rcases h2.tmp with h | h
            · rw [h]; exact (kok.setext hse).2
            · exact absurd h.1 (kc.1 hse)
          · intro hfe
            rcases h2.fence with h | h
            · rw [h]; exact kok.fenced hfe
            · obtain ⟨h1', _, f, hf, hfn⟩ := h
              exact absurd hfn (kc.2 hfe h1' f hf)
        · intro b hb
          exact (hcs1 b hb).ext_container h2.ext (hcs b hb)
      · rw [if_neg hp]
        exact rest s1 ⟨hop, ⟨hr, hn1, hk1, he1, ht1, hK1⟩, hcs1⟩
    have hself : s.pc.opened = s.pc.opened ∧ ClosedT src K s s ∧ (∀ b ∈ cs, BlockOK s b) :=
      ⟨rfl, ⟨rfl, hn, hk, ExtW.refl s, .inl rfl, fun k hk' => (hK k hk').1⟩, fun b hb => (hl b (by simp [hb])).1⟩
    by_cases hpar : ((nd s top.node).kind == Kind.paragraph && (nd s top.node).parent.isSome) = true
    · rw [if_pos hpar]
      simp only [Bool.and_eq_true, beq_iff_eq] at hpar
      obtain ⟨hkind, hpp⟩ := hpar
      have hbp : top.bp = .paragraph := by
        have := htop.kind; rw [hkind] at this; exact kind_paragraph this.symm
      have htp := transformParagraph_oke pts hpts top.node s hsrc htop.lt hkind hpp (htop.para hbp) hn
      refine OKE.bind htp (fun g s1 hg => ?_)
      have hk1 : KeysOK s1 := hg.keysOK hk (htmp top rfl hbp)
      have hK1 : ∀ k ∈ K, BlockOK s1 k := fun k hk' =>
        hg.blockOK hkind (hK k hk').1 (fun hkp => ((hK k hk').2 top rfl).2 hbp hkp)
      have hcs1 : ∀ b ∈ cs, BlockOK s1 b := fun b hb =>
        hg.blockOK hkind (hl b (by simp [hb])).1 (fun hkp => absurd hkp (container_kind (hcs b hb)).1)
      have hcl : s1.pc.opened = s.pc.opened ∧ ClosedT src K s s1 ∧ (∀ b ∈ cs, BlockOK s1 b) :=
        ⟨hg.opened, ⟨hg.r, hg.nodes, hk1, hg.extW, .inl hg.tmp, hK1⟩, hcs1⟩
      cases g with
      | false =>
        obtain ⟨hl1, hp1⟩ := hg.keep rfl
        have htop1 : BlockOK s1 top :=
          ⟨Nat.lt_of_lt_of_le htop.lt hg.len, by rw [hg.kind _ htop.lt]; exact htop.kind, fun _ => hl1,
            (fun h => by rw [hbp] at h; cases h), (fun h => by rw [hbp] at h; cases h)⟩
        refine close s1 hcl htop1 (fun k hk' => ?_)
        have kc := ((hK k hk').2 top rfl).1
        refine ⟨kc.1, fun _ hc => ?_⟩
        rw [hbp] at hc; cases hc
      | true =>
        -- GONE: the paragraph is parentless, its Close is skipped
        refine OKE.bind (m := getNode top.node) (P := fun n sy => n = nd s1 top.node ∧ sy = s1)
          (OKE.ok ⟨rfl, rfl⟩) (fun n sy hy => ?_)
        obtain ⟨hn0, hsy⟩ := hy
        subst n sy
        have : ¬ (nd s1 top.node).parent.isSome = true := by rw [hg.goneP rfl]; simp
        rw [if_neg this]
        exact rest s1 hcl
    · rw [if_neg hpar]
      exact close s hself htop (fun k hk' => ((hK k hk').2 top rfl).1)

/-- `closeBlocksV(from, to)` on `openedBlocks = pre ++ mid ++ post` with `to = |pre|`, `from = |pre| + |mid| - 1`: the blocks
    of `mid` are closed (last first; a paragraph is transformed first and closed only if it is still there),
    `pre ++ post` stays -/
theorem closeBlocksV_oke (pre mid post : List Block) (s : St) (hop : s.pc.opened = pre ++ mid ++ post)
    (hsrc : s.r.source = src) (hn : NodesOK src s) (hk : KeysOK s)
    (hmid : ∀ b ∈ mid, BlockOK s b ∧ A b.bp) (hleafy : Leafy mid)
    (htmp : ∀ top, mid.getLast? = some top → top.bp = .paragraph → s.pc.tmpPara ≠ some top.node)
    (hK : ∀ k ∈ pre ++ post, BlockOK s k ∧ ∀ top, mid.getLast? = some top → CompatT s k top) :
    OKE e (fun _ s' => s'.pc.opened = pre ++ post ∧ ClosedT src (pre ++ post) s s')
      (closeBlocksV pts ((pre.length : Int) + (mid.length : Int) - 1) (pre.length : Int) s) := by
  unfold closeBlocksV
  refine OKE.bind (m := getPc) (P := fun pc s1 => pc = s.pc ∧ s1 = s) (OKE.ok ⟨rfl, rfl⟩) (fun pc s0 h0 => ?_)
  obtain ⟨h0, h0'⟩ := h0
  subst pc s0
  have hcnt : ((pre.length : Int) + (mid.length : Int) - 1 - (pre.length : Int) + 1).toNat = mid.length := by omega
  rw [hcnt, hop, closeLoopV_eq pts (pre ++ mid ++ post) pre.length mid.length (by simp)]
  have hdt : ((pre ++ mid ++ post).drop pre.length).take mid.length = mid := by
    rw [List.append_assoc, List.drop_left, List.take_left]
  rw [hdt]
  have hcl := closeListV_oke sp hpts (pre ++ post) mid.reverse s hsrc hn hk
    (fun b hb => hmid b (by simpa using hb))
    (fun b hb => hleafy b (by
      have : mid.reverse.tail = mid.dropLast.reverse := by
        rw [List.tail_reverse]
      rw [this] at hb; simpa using hb))
    (fun top ht => htmp top (by rw [List.head?_reverse] at ht; exact ht))
    (fun k hk' => ⟨(hK k hk').1, fun top ht => (hK k hk').2 top (by
      rw [List.head?_reverse] at ht; exact ht)⟩)
  refine OKE.bind hcl (fun _ s1 h1 => ?_)
  obtain ⟨hop1, hr, hn1, hk1, he1, ht1, hK1⟩ := h1
  have hpre : closeBlocks.slice' (pre ++ mid ++ post) 0 (pre.length : Int) = .ok pre := by
    unfold closeBlocks.slice'
    rw [if_pos ⟨by omega, by omega, by simp; omega⟩]
    simp
  have hpost : closeBlocks.slice' (pre ++ mid ++ post) ((pre.length : Int) + (mid.length : Int) - 1 + 1)
      ((pre ++ mid ++ post).length : Int) = .ok post := by
    unfold closeBlocks.slice'
    rw [if_pos ⟨by omega, by simp; omega, by omega⟩]
    have e1 : ((pre.length : Int) + (mid.length : Int) - 1 + 1).toNat = pre.length + mid.length := by omega
    have e2 : (((pre ++ mid ++ post).length : Int) - ((pre.length : Int) + (mid.length : Int) - 1 + 1)).toNat = post.length := by
      simp; omega
    rw [e1, e2]
    have : (pre ++ mid ++ post).drop (pre.length + mid.length) = post := by
      rw [← List.length_append, List.drop_left]
    rw [this]; simp
  have fin : ∀ o : List Block, ClosedT src (pre ++ post) s ({ s1 with pc := { s1.pc with opened := o } } : St) := by
    intro o
    refine ⟨hr, hn1, ⟨hk1.tmp, hk1.fence⟩, ⟨he1.len, he1.kind⟩, ht1, ?_⟩
    intro k hk'
    have := hK1 k hk'
    exact ⟨this.lt, this.kind, this.para, this.setext, this.fenced⟩
  by_cases hfl : ((pre.length : Int) + (mid.length : Int) - 1 == ((pre ++ mid ++ post).length : Int) - 1) = true
  · rw [if_pos hfl]
    have hpe : post = [] := by
      have : (pre.length : Int) + (mid.length : Int) - 1 = ((pre ++ mid ++ post).length : Int) - 1 := by simpa using hfl
      simp at this
      cases post with
      | nil => rfl
      | cons a as => simp at this; omega
    subst hpe
    simp only [bind, StateT.bind, liftE, hpre, Except.map, Except.bind, modPc, pure, StateT.pure, Except.pure]
    exact OKE.ok ⟨by simp, fin _⟩
  · rw [if_neg hfl]
    simp only [bind, StateT.bind, liftE, hpre, hpost, Except.map, Except.bind, modPc, pure, StateT.pure, Except.pure]
    exact OKE.ok ⟨rfl, fin _⟩

end close

end GM.Blocks.TV
