/-
  GM.Proof.ConvertXRel — the block driver GM.Blocks.runT is monotone in its list of paragraph transformers for the relation
  "same answer, or the left run answers the domain monitor's `pre`": if `transformParagraph ptsA` and `transformParagraph ptsB`
  are so related on every state, so are the whole block phases. No invariant of the run is needed (the relation is closed
  under bind from every state). Used for C11 of the table paragraph transformer on the composed model.
-/
import GM.Proof.ConvertX

namespace GM.Proof.ConvertXRel
open GM GM.Text GM.Blocks

/-- the same answer from every state, or the left computation answers `pre` -/
structure Rel (x : Bool) {α : Type} (m1 m2 : M α) : Prop where
  h : ∀ s, m1 s = m2 s ∨ (x = true ∧ m1 s = .error .pre)

theorem Rel.refl {x : Bool} {α} (m : M α) : Rel x m m := ⟨fun _ => Or.inl rfl⟩

theorem Rel.bind {x : Bool} {α β} {m1 m2 : M α} {f1 f2 : α → M β} (hm : Rel x m1 m2) (hf : ∀ a, Rel x (f1 a) (f2 a)) :
    Rel x (m1 >>= f1) (m2 >>= f2) := by
  constructor
  intro s
  simp only [Bind.bind, StateT.bind]
  rcases hm.h s with h | h
  · rw [h]
    cases m2 s with
    | error e => exact Or.inl rfl
    | ok p => exact (hf p.1).h p.2
  · rw [h.2]; exact Or.inr ⟨h.1, rfl⟩

theorem Rel.ite {x : Bool} {α} {c : Prop} [Decidable c] {a1 a2 b1 b2 : M α} (ha : Rel x a1 a2) (hb : Rel x b1 b2) :
    Rel x (if c then a1 else b1) (if c then a2 else b2) := by
  split <;> assumption

macro "rel_step" : tactic =>
  `(tactic| first
    | with_reducible apply Rel.refl
    | with_reducible apply Rel.bind
    | with_reducible apply Rel.ite
    | apply_hyp
    | intro _
    | split)

macro "rel" : tactic => `(tactic| repeat' rel_step)

section driver
variable {x : Bool} {ptsA ptsB : List PT} (H : ∀ n, Rel x (transformParagraph ptsA n) (transformParagraph ptsB n))
include H

theorem closeLoopT_rel (blocks : List Block) (to : Int) (k : Nat) :
    Rel x (closeLoopT ptsA blocks to k) (closeLoopT ptsB blocks to k) := by
  induction k with
  | zero => unfold closeLoopT; rel
  | succ k ih => unfold closeLoopT; rel

theorem closeBlocksT_rel (frm to : Int) : Rel x (closeBlocksT ptsA frm to) (closeBlocksT ptsB frm to) := by
  have := closeLoopT_rel H
  unfold closeBlocksT; rel

theorem requireParaT_rel (parent : Nat) (last : Option Nat) (lastBlock : Option Block) :
    Rel x (requireParaT ptsA parent last lastBlock) (requireParaT ptsB parent last lastBlock) := by
  unfold requireParaT; rel

theorem tryParsersT_rel (parent : Nat) (blankLine continuable : Bool) (w : Int) (bps : List BP)
    (result : OpenResult) (lastBlock : Option Block) :
    Rel x (tryParsersT ptsA parent blankLine continuable w bps result lastBlock)
      (tryParsersT ptsB parent blankLine continuable w bps result lastBlock) := by
  have := requireParaT_rel H
  have := closeBlocksT_rel H
  induction bps generalizing result lastBlock with
  | nil => unfold tryParsersT; rel
  | cons bp bps ih => unfold tryParsersT; rel

theorem retryStepT_rel (blankLine tdone continuable : Bool) (parent : Nat) (w : Int) (bps : List BP)
    (result : OpenResult) (lastBlock : Option Block)
    (againA againB : Bool → Bool → Nat → OpenResult → Option Block → M OpenResult)
    (hag : ∀ a b c d e, Rel x (againA a b c d e) (againB a b c d e)) :
    Rel x (retryStepT ptsA blankLine tdone continuable parent w bps result lastBlock againA)
      (retryStepT ptsB blankLine tdone continuable parent w bps result lastBlock againB) := by
  have := tryParsersT_rel H
  unfold retryStepT; rel

theorem openBlocksLoopT_rel (blankLine : Bool) : ∀ (fuel : Nat) (tdone continuable : Bool) (parent : Nat)
    (result : OpenResult) (lastBlock : Option Block),
    Rel x (openBlocksLoopT ptsA blankLine fuel tdone continuable parent result lastBlock)
      (openBlocksLoopT ptsB blankLine fuel tdone continuable parent result lastBlock) := by
  intro fuel
  induction fuel with
  | zero => intro _ _ _ _ _; unfold openBlocksLoopT; rel
  | succ fuel ih =>
    intro tdone continuable parent result lastBlock
    have := fun a b c d e f g => retryStepT_rel H blankLine a b c d e f g _ _ ih
    unfold openBlocksLoopT; rel

theorem openBlocksT_rel (parent : Nat) (blankLine : Bool) :
    Rel x (openBlocksT ptsA parent blankLine) (openBlocksT ptsB parent blankLine) := by
  have := openBlocksLoopT_rel H
  unfold openBlocksT; rel

theorem lineLoopT_rel (parent : Nat) (openedBlocks : List Block) (lastIndex : Int) :
    ∀ (rest : List Block) (i : Int) (blankLines : List LineStat),
    Rel x (lineLoopT ptsA parent openedBlocks lastIndex rest i blankLines)
      (lineLoopT ptsB parent openedBlocks lastIndex rest i blankLines) := by
  have := closeBlocksT_rel H
  have := openBlocksT_rel H
  intro rest
  induction rest with
  | nil => intro _ _; unfold lineLoopT; rel
  | cons be rest ih => intro i blankLines; unfold lineLoopT; rel

theorem linesLoopT_rel (parent : Nat) : ∀ (fuel : Nat) (blankLines : List LineStat),
    Rel x (linesLoopT ptsA parent fuel blankLines) (linesLoopT ptsB parent fuel blankLines) := by
  have := lineLoopT_rel H
  intro fuel
  induction fuel with
  | zero => intro _; unfold linesLoopT; rel
  | succ fuel ih => intro blankLines; unfold linesLoopT; rel

theorem blocksLoopT_rel (parent : Nat) : ∀ (fuel : Nat) (blankLines : List LineStat),
    Rel x (blocksLoopT ptsA parent fuel blankLines) (blocksLoopT ptsB parent fuel blankLines) := by
  have := openBlocksT_rel H
  have := linesLoopT_rel H
  intro fuel
  induction fuel with
  | zero => intro _; unfold blocksLoopT; rel
  | succ fuel ih => intro blankLines; unfold blocksLoopT; rel

theorem parseBlocksT_rel (parent : Nat) : Rel x (parseBlocksT ptsA parent) (parseBlocksT ptsB parent) := by
  have := blocksLoopT_rel H
  unfold parseBlocksT; rel

/-- the whole block phase: the same final state (or the same error), or the left run answers `pre` -/
theorem runT_rel (src : Bytes) : runT ptsA src = runT ptsB src ∨ (x = true ∧ runT ptsA src = .error .pre) := by
  unfold runT
  rcases (parseBlocksT_rel H 0).h (initSt src) with h | h
  · rw [h]; exact Or.inl rfl
  · rw [h.2]; exact Or.inr ⟨h.1, rfl⟩

end driver
/-- one more transformer behind a non-empty list that, on every state, returns the state unchanged or answers `pre` -/
theorem transformParagraph_silent (g tp : PT) (htp : ∀ n s, tp n s = .ok ((), s) ∨ tp n s = .error .pre) (n : Nat) :
    Rel true (transformParagraph ([g] ++ [tp]) n) (transformParagraph ([g] ++ []) n) := by
  constructor
  intro s
  simp only [List.append_nil, List.singleton_append, transformParagraph, bind, StateT.bind, getNode, pure, StateT.pure,
    Except.pure, Except.bind]
  cases hg : g n s with
  | error e => exact Or.inl rfl
  | ok r =>
    obtain ⟨u, s1⟩ := r
    simp only []
    split
    · exact Or.inl rfl
    · rename_i hp
      rcases htp n s1 with h | h
      · left
        simp only [StateT.bind, h, getNode, pure, Except.pure]
        show (if (s1.nodes.getD n default).parent.isNone = true then StateT.pure true else StateT.pure false) s1 = _
        rw [if_neg hp]
      · right
        refine ⟨trivial, ?_⟩
        simp only [StateT.bind, h]
        rfl

open GM.ConvertX GM.Convert in
/-- **the block phase with the table transformer on a source without '-'** is the block phase without it — same node
    store, context, reader, or same error — unless the transformer's domain monitor answers `pre` -/
theorem blockPhaseX_table_no_dash (c : XCfg) (guard : Bool) (src : Bytes) (h : (45 : UInt8) ∉ src) :
    blockPhaseX { c with table := true } guard src = blockPhaseX { c with table := false } guard src ∨
    blockPhaseX { c with table := true } guard src = .error .pre := by
  unfold blockPhaseX paragraphTransformersX paragraphTransformers
  rcases runT_rel (fun n => transformParagraph_silent _ _ (GM.Proof.ConvertX.transformPT_no_dash src h) n) src with e | e
  · exact Or.inl e
  · exact Or.inr e.2

/-! ### Table on a source without '-': whole documents -/

section table
open GM.ConvertX GM.Convert GM.Proof.ConvertX GM.Inl

theorem getElem?_ne_dash {src : Bytes} (h : (45 : UInt8) ∉ src) (i : Nat) : (src[i]? == some 45) = false := by
  cases hx : src[i]? with
  | none => rfl
  | some b =>
    have hb : b ∈ src := List.mem_of_getElem? hx
    have : b ≠ 45 := fun e => h (e ▸ hb)
    simp [this]

/-- on a source without '-' no node of any store decodes as a table node (the witness fails) -/
theorem kindOf_no_dash {src : Bytes} (h : (45 : UInt8) ∉ src) (n : GM.Blocks.Node) : GM.TableX.kindOf src n = none := by
  unfold GM.TableX.kindOf GM.TableX.hasWitness
  simp [getElem?_ne_dash h]

theorem isRowNode_no_dash {src : Bytes} (h : (45 : UInt8) ∉ src) (n : GM.Blocks.Node) : GM.TableX.isRowNode src n = false := by
  simp [GM.TableX.isRowNode, kindOf_no_dash h]

theorem isCellNode_no_dash {src : Bytes} (h : (45 : UInt8) ∉ src) (n : GM.Blocks.Node) : GM.TableX.isCellNode src n = false := by
  simp [GM.TableX.isCellNode, kindOf_no_dash h]

mutual
theorem escOfTree_no_dash {src : Bytes} (h : (45 : UInt8) ∉ src) : ∀ t : GM.Blocks.Tree, GM.TableX.escOfTree src t = []
  | .node n cs => by simp [GM.TableX.escOfTree, isRowNode_no_dash h, escOfTrees_no_dash h cs]
theorem escOfTrees_no_dash {src : Bytes} (h : (45 : UInt8) ∉ src) : ∀ ts : List GM.Blocks.Tree, GM.TableX.escOfTrees src ts = []
  | [] => by simp [GM.TableX.escOfTrees]
  | t :: rest => by simp [GM.TableX.escOfTrees, escOfTree_no_dash h t, escOfTrees_no_dash h rest]
end

mutual
/-- decoding reads the two inline member flags only -/
theorem inlineTreeX_congr (c1 c2 : XCfg) (hs : c1.strikethrough = c2.strikethrough) (ht : c1.tasklist = c2.tasklist)
    (src : Bytes) : ∀ n : Inl.Node, inlineTreeX c1 src n = inlineTreeX c2 src n
  | .text .. => by simp [inlineTreeX]
  | .codeSpan ks => by simp only [inlineTreeX, inlineTreesX_congr c1 c2 hs ht src ks]
  | .emphasis lv ks => by simp only [inlineTreeX, inlineTreesX_congr c1 c2 hs ht src ks, hs, ht]
  | .link _ _ _ ks => by simp only [inlineTreeX, inlineTreesX_congr c1 c2 hs ht src ks]
  | .autoLink .. => by simp [inlineTreeX]
  | .rawHTML .. => by simp [inlineTreeX]
  | .delim .. => by simp [inlineTreeX]
  | .label .. => by simp [inlineTreeX]
theorem inlineTreesX_congr (c1 c2 : XCfg) (hs : c1.strikethrough = c2.strikethrough) (ht : c1.tasklist = c2.tasklist)
    (src : Bytes) : ∀ ns : List Inl.Node, inlineTreesX c1 src ns = inlineTreesX c2 src ns
  | [] => by simp [inlineTreesX]
  | n :: rest => by
    simp only [inlineTreesX, inlineTreeX_congr c1 c2 hs ht src n, inlineTreesX_congr c1 c2 hs ht src rest]
end

theorem inlinePhaseX_table (c : XCfg) (g : Bool) (env : Env) (src : Bytes) (h : (45 : UInt8) ∉ src) (inItem : Bool)
    (n : GM.Blocks.Node) :
    inlinePhaseX { c with table := true } g env src inItem n = inlinePhaseX { c with table := false } g env src inItem n := by
  unfold inlinePhaseX
  simp only [isRowNode_no_dash h, isCellNode_no_dash h, Bool.and_false, Bool.false_and, Bool.false_eq_true, if_false]
  rfl

theorem blockKindX_table (c : XCfg) (src : Bytes) (h : (45 : UInt8) ∉ src) (n : GM.Blocks.Node) :
    blockKindX { c with table := true } src n = blockKindX { c with table := false } src n := by
  unfold blockKindX
  simp [kindOf_no_dash h]

mutual
theorem docTreeX_table (c : XCfg) (g : Bool) (env : Env) (src : Bytes) (h : (45 : UInt8) ∉ src) (escs : List Int) :
    ∀ (inItem : Bool) (t : GM.Blocks.Tree),
    docTreeX { c with table := true } g env src escs inItem t = docTreeX { c with table := false } g env src [] inItem t
  | inItem, .node n cs => by
    unfold docTreeX
    rw [docTreesX_table c g env src h escs _ _ cs, inlinePhaseX_table c g env src h, blockKindX_table c src h]
    simp only [isCellNode_no_dash h, Bool.and_false, Bool.false_and, Bool.false_eq_true, if_false,
      inlineTreesX_congr { c with table := true } { c with table := false } rfl rfl]
theorem docTreesX_table (c : XCfg) (g : Bool) (env : Env) (src : Bytes) (h : (45 : UInt8) ∉ src) (escs : List Int) :
    ∀ (pi first : Bool) (ts : List GM.Blocks.Tree),
    docTreesX { c with table := true } g env src escs pi first ts = docTreesX { c with table := false } g env src [] pi first ts
  | _, _, [] => by unfold docTreesX; rfl
  | pi, first, t :: rest => by
    unfold docTreesX
    rw [docTreeX_table c g env src h escs _ t, docTreesX_table c g env src h escs _ _ rest]
end

/-- parser.Parse with Table on a source without '-': the tree of the run without Table, unless the monitor fires -/
theorem parseDocX_table (c : XCfg) (g : Bool) (uc : List (Nat × (Bool × Bool))) (src : Bytes) (h : (45 : UInt8) ∉ src) :
    parseDocX { c with table := true } g uc src = parseDocX { c with table := false } g uc src ∨
    parseDocX { c with table := true } g uc src = .error (.blocks .pre) := by
  unfold parseDocX
  rcases blockPhaseX_table_no_dash c g src h with hb | hb
  · left
    rw [hb]
    cases liftErr Err.blocks (blockPhaseX { c with table := false } g src) with
    | error e => rfl
    | ok st =>
      simp only [bind, Except.bind, Bool.false_eq_true, if_false, if_true]
      exact docTreeX_table c g _ src h _ _ _
  · right
    rw [hb]; rfl

/-- **Table is conservative at whole-document level**: a source without '-' converts to the same HTML / outcome with and
    without Table — any other members, any renderer options — unless the transformer's domain monitor answers `pre` -/
theorem convertX_table (c : XCfg) (uc : List (Nat × (Bool × Bool))) (o : ROpts) (src : Bytes) (h : (45 : UInt8) ∉ src) :
    convertX { c with table := true } uc o src = convertX { c with table := false } uc o src ∨
    convertX { c with table := true } uc o src = .error (.blocks .pre) := by
  unfold convertX convertXWith
  rcases parseDocX_table c true uc src h with hp | hp
  · left
    rw [hp]
    cases hq : parseDocX { c with table := false } true uc src with
    | error e => rfl
    | ok t =>
      simp only [bind, Except.bind]
      apply renderDocX_exts
      unfold parseDocX at hq
      obtain ⟨st, _, hq⟩ := ebind_ok hq
      have hk := docTreeX_notTable { c with table := false } rfl true _ src _ _ _ t hq
      exact allKinds_mono (fun k hk => by
        simp only [beq_iff_eq]
        exact handled_table c.exts true false hk) t hk
  · right
    rw [hp]; rfl

end table
end GM.Proof.ConvertXRel
