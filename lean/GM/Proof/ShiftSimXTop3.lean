/-
  GM.Proof.ShiftSimXTop3 — towards `LeafKids`: the store invariant `tl_GP` ("a node with children has a container kind; a
  parent pointer points to a container node of the store") is kept by every `Open` / `Continue` / `Close`, by
  `AppendChild p c` when `p` is a container node (`tl_GPc ps`: the nodes of `ps` are container nodes), by `closeBlocks`.
  With `BlockOK` it gives `LeafKids`.
-/
import GM.Proof.ShiftSimXTop2

namespace GM.Blocks.Xs
open GM GM.Text GM.Spec GM.Proof.Reader GM.Blocks GM.Blocks.L
open GM.Blocks.Sh (K KS bind_ok_inv liftE_ok_inv a2_getNode_inv a2_getPc_inv a2_modPc_inv a2_lastOpenedBlock_inv
  ac_getD_set ac_getD_push ac_pure_bind ac_throw_bind)

/-- the leaf blocks on the stack have no children -/
def LeafKids (s : St) : Prop := ∀ x ∈ s.pc.opened, x.bp.isContainer = false → (nd s x.node).children = []

theorem LeafKids.congr_r {s : St} (h : LeafKids s) (r' : Reader) : LeafKids { s with r := r' } := h

/-- the kinds that have children -/
def tl_cont : Kind → Bool
  | .document | .blockquote | .list | .listItem => true
  | _ => false

/-- a node with children has a container kind; a parent pointer points to a container node of the store -/
def tl_GP (s : St) : Prop :=
  (∀ i, (nd s i).children ≠ [] → tl_cont (nd s i).kind = true) ∧
  (∀ i p, (nd s i).parent = some p → p < s.nodes.length ∧ tl_cont (nd s p).kind = true)

/-- `tl_GP`, and the nodes of `ps` are container nodes of the store -/
def tl_GPc (ps : List Nat) (s : St) : Prop :=
  tl_GP s ∧ ∀ p ∈ ps, p < s.nodes.length ∧ tl_cont (nd s p).kind = true

theorem tl_GP.leafKids {s : St} (h : tl_GP s) (hb : ∀ b ∈ s.pc.opened, BlockOK s b) : LeafKids s := by
  intro x hx hc
  cases hch : (nd s x.node).children with
  | nil => rfl
  | cons c cs =>
    exfalso
    have := h.1 x.node (by rw [hch]; exact List.cons_ne_nil _ _)
    rw [(hb x hx).kind] at this
    cases hbp : x.bp <;> rw [hbp] at this hc <;> first | (cases hc; done) | (cases this; done)

theorem tl_GP_init (src : Bytes) : tl_GP (initSt src) := by
  refine ⟨fun i hi => ?_, fun i p hp => ?_⟩
  · match i with
    | 0 => exact absurd rfl hi
    | i + 1 => exact absurd rfl hi
  · match i with
    | 0 => cases hp
    | i + 1 => cases hp

variable {ps : List Nat}

theorem tl_g_set (s : St) (id : Nat) (v : Node) (hs : tl_GPc ps s) (hk : v.kind = (nd s id).kind)
    (hc : v.children ≠ [] → (nd s id).children ≠ [] ∨ tl_cont (nd s id).kind = true)
    (hp : ∀ q, v.parent = some q → (nd s id).parent = some q ∨ (q < s.nodes.length ∧ tl_cont (nd s q).kind = true)) :
    tl_GPc ps { s with nodes := s.nodes.set id v } := by
  have hkind : ∀ j, (nd ({ s with nodes := s.nodes.set id v } : St) j).kind = (nd s j).kind := by
    intro j
    show ((s.nodes.set id v).getD j default).kind = _
    rw [ac_getD_set]
    split
    · next h => obtain ⟨rfl, _⟩ := h; exact hk
    · rfl
  have hlen : ({ s with nodes := s.nodes.set id v } : St).nodes.length = s.nodes.length := List.length_set ..
  refine ⟨⟨fun j hj => ?_, fun j q hq => ?_⟩, fun p hp' => by rw [hkind, hlen]; exact hs.2 p hp'⟩
  · rw [hkind]
    change ((s.nodes.set id v).getD j default).children ≠ [] at hj
    rw [ac_getD_set] at hj
    split at hj
    · next h =>
      obtain ⟨rfl, _⟩ := h
      rcases hc hj with h1 | h1
      · exact hs.1.1 _ h1
      · exact h1
    · exact hs.1.1 _ hj
  · rw [hkind, hlen]
    change ((s.nodes.set id v).getD j default).parent = some q at hq
    rw [ac_getD_set] at hq
    split at hq
    · next h =>
      obtain ⟨rfl, _⟩ := h
      rcases hp q hq with h1 | h1
      · exact hs.1.2 _ _ h1
      · exact h1
    · exact hs.1.2 _ _ hq

theorem tl_g_push (s : St) (n : Node) (hs : tl_GPc ps s) (hc : n.children = []) (hp : n.parent = none) :
    tl_GPc ps { s with nodes := s.nodes ++ [n] } := by
  have hold : ∀ j, j < s.nodes.length → nd ({ s with nodes := s.nodes ++ [n] } : St) j = nd s j := by
    intro j hj
    show (s.nodes ++ [n]).getD j default = _
    rw [ac_getD_push, if_pos hj]
  have hlen : s.nodes.length < ({ s with nodes := s.nodes ++ [n] } : St).nodes.length := by
    show _ < (s.nodes ++ [n]).length
    rw [List.length_append]; exact Nat.lt_succ_self _
  refine ⟨⟨fun j hj => ?_, fun j q hq => ?_⟩, fun p hp' => ?_⟩
  · by_cases h1 : j < s.nodes.length
    · rw [hold j h1] at hj ⊢; exact hs.1.1 j hj
    · exfalso
      change ((s.nodes ++ [n]).getD j default).children ≠ [] at hj
      rw [ac_getD_push, if_neg h1] at hj
      split at hj
      · exact hj hc
      · exact hj rfl
  · by_cases h1 : j < s.nodes.length
    · rw [hold j h1] at hq
      obtain ⟨a, b⟩ := hs.1.2 j q hq
      rw [hold q a]
      exact ⟨Nat.lt_trans a hlen, b⟩
    · exfalso
      change ((s.nodes ++ [n]).getD j default).parent = some q at hq
      rw [ac_getD_push, if_neg h1] at hq
      split at hq
      · rw [hp] at hq; cases hq
      · cases hq
  · obtain ⟨a, b⟩ := hs.2 p hp'
    rw [hold p a]
    exact ⟨Nat.lt_trans a hlen, b⟩

/-! ### primitives -/

theorem tl_g_noR : NoR (tl_GPc ps) := ⟨fun _ _ hs => hs⟩

theorem tl_g_modPc (f : Ctx → Ctx) : Keeps (tl_GPc ps) (modPc f) := modPc_keeps f fun _ hs => hs

/-- a write that keeps the kind, adds no child and no parent -/
theorem tl_g_modNode_sub (id : Nat) (f : Node → Node)
    (h : ∀ n, (f n).kind = n.kind ∧ ((f n).children ≠ [] → n.children ≠ []) ∧
      ∀ q, (f n).parent = some q → n.parent = some q) : Keeps (tl_GPc ps) (modNode id f) := by
  intro s a s' hs hm
  cases hm
  exact tl_g_set s id _ hs (h _).1 (fun hc => Or.inl ((h _).2.1 hc)) (fun q hq => Or.inl ((h _).2.2 q hq))

/-- a write to the children of a container node of `ps` -/
theorem tl_g_modNode_at (p : Nat) (hp : p ∈ ps) (f : Node → Node)
    (h : ∀ n, (f n).kind = n.kind ∧ (f n).parent = n.parent) : Keeps (tl_GPc ps) (modNode p f) := by
  intro s a s' hs hm
  cases hm
  exact tl_g_set s p _ hs (h _).1 (fun _ => Or.inr (hs.2 p hp).2) (fun q hq => Or.inl ((h _).2 ▸ hq))

/-- the parent pointer is set to a container node of `ps` -/
theorem tl_g_modNode_par (c p : Nat) (hp : p ∈ ps) (f : Node → Node)
    (h : ∀ n, (f n).kind = n.kind ∧ (f n).children = n.children ∧ (f n).parent = some p) :
    Keeps (tl_GPc ps) (modNode c f) := by
  intro s a s' hs hm
  cases hm
  exact tl_g_set s c _ hs (h _).1 (fun hc => Or.inl ((h _).2.1 ▸ hc))
    (fun q hq => by rw [(h _).2.2] at hq; cases hq; exact Or.inr (hs.2 p hp))

theorem tl_g_newNode (n : Node) (h : n.children = [] ∧ n.parent = none) : Keeps (tl_GPc ps) (newNode n) := by
  intro s a s' hs hm
  cases hm
  exact tl_g_push s n hs h.1 h.2

theorem tl_g_appendLine (id : Nat) (seg : Segment) : Keeps (tl_GPc ps) (appendLine id seg) :=
  tl_g_modNode_sub id _ fun _ => ⟨rfl, fun h => h, fun _ h => h⟩

macro "tl_gw_step" : tactic =>
  `(tactic| first
    | with_reducible apply Keeps.pure
    | with_reducible apply ac_pure_bind
    | with_reducible apply ac_throw_bind
    | with_reducible apply Keeps.bind
    | with_reducible apply Keeps.ite
    | with_reducible apply Keeps.throw
    | with_reducible apply getNode_keeps
    | with_reducible apply getPc_keeps
    | with_reducible apply source_keeps
    | with_reducible apply position_keeps
    | with_reducible apply get_keeps
    | with_reducible apply liftE_keeps
    | with_reducible apply lastOpenedBlock_keeps
    | (with_reducible apply peekLine_keeps; exact tl_g_noR)
    | (with_reducible apply lineOffset_keeps; exact tl_g_noR)
    | (with_reducible apply advance_keeps; exact tl_g_noR)
    | (with_reducible apply advanceAndSetPadding_keeps; exact tl_g_noR)
    | (with_reducible apply advanceLine_keeps; exact tl_g_noR)
    | (with_reducible apply setPosition_keeps; exact tl_g_noR)
    | (with_reducible apply skipBlankLinesR_keeps; exact tl_g_noR)
    | with_reducible apply tl_g_modPc
    | with_reducible apply tl_g_appendLine
    | ((with_reducible apply tl_g_modNode_sub); (intro n; exact ⟨rfl, fun h => h, fun _ h => h⟩))
    | ((with_reducible apply tl_g_newNode); exact ⟨rfl, rfl⟩)
    | apply_hyp
    | intro_pi
    | split)

/-- walk over an `M` do block that keeps `tl_GPc ps` -/
macro "tl_gw" : tactic => `(tactic| repeat' tl_gw_step)

/-! ### tree operations -/

theorem tl_g_removeChild (p c : Nat) : Keeps (tl_GPc ps) (removeChild p c) := by
  unfold removeChild
  refine Keeps.bind (getNode_keeps _) fun cn => ?_
  split
  · exact Keeps.pure _
  · refine Keeps.bind ?_ fun _ => ?_
    · exact tl_g_modNode_sub p _ fun n => ⟨rfl, fun h e => h (by rw [e]; rfl), fun _ h => h⟩
    · exact tl_g_modNode_sub c _ fun n => ⟨rfl, fun h => h, fun _ h => nomatch h⟩

theorem tl_g_ensureIsolated (c : Nat) : Keeps (tl_GPc ps) (ensureIsolated c) := by
  have := @tl_g_removeChild ps
  unfold ensureIsolated; tl_gw

theorem tl_g_appendChild (p c : Nat) (hp : p ∈ ps) : Keeps (tl_GPc ps) (appendChild p c) := by
  unfold appendChild
  refine Keeps.bind (tl_g_ensureIsolated c) fun _ => ?_
  refine Keeps.bind ?_ fun _ => ?_
  · exact tl_g_modNode_at p hp _ fun _ => ⟨rfl, rfl⟩
  · exact tl_g_modNode_par c p hp _ fun _ => ⟨rfl, rfl, rfl⟩

theorem tl_g_insertBefore (p : Nat) (hp : p ∈ ps) (v1 : Option Nat) (ins : Nat) :
    Keeps (tl_GPc ps) (insertBefore p v1 ins) := by
  have := @tl_g_ensureIsolated ps
  have := tl_g_appendChild p ins hp
  have : ∀ v, Keeps (tl_GPc ps) (modNode p fun n => { n with children := insertBeforeIn v ins n.children }) :=
    fun v => tl_g_modNode_at p hp _ fun _ => ⟨rfl, rfl⟩
  have : Keeps (tl_GPc ps) (modNode ins fun n => { n with parent := some p }) :=
    tl_g_modNode_par ins p hp _ fun _ => ⟨rfl, rfl, rfl⟩
  unfold insertBefore; tl_gw

theorem tl_g_nextSibling (c : Nat) : Keeps (tl_GPc ps) (nextSibling c) := by
  unfold nextSibling; tl_gw

theorem tl_g_insertAfter (p : Nat) (hp : p ∈ ps) (v1 : Option Nat) (ins : Nat) :
    Keeps (tl_GPc ps) (insertAfter p v1 ins) := by
  have := tl_g_appendChild p ins hp
  have := @tl_g_nextSibling ps
  have := fun v1 => tl_g_insertBefore p hp v1 ins
  unfold insertAfter; tl_gw

theorem tl_g_replaceChild (p : Nat) (hp : p ∈ ps) (v1 ins : Nat) : Keeps (tl_GPc ps) (replaceChild p v1 ins) := by
  have := tl_g_insertBefore p hp (some v1) ins
  have := @tl_g_removeChild ps
  unfold replaceChild; tl_gw

/-! ### `Open`, `Continue` -/

theorem tl_g_preserveLeadingTab (seg : Segment) (ind : Int) : Keeps (tl_GPc ps) (preserveLeadingTab seg ind) := by
  unfold preserveLeadingTab; tl_gw

theorem tl_g_lastOffset (n : Nat) : Keeps (tl_GPc ps) (lastOffset n) := by
  unfold lastOffset; tl_gw

theorem tl_g_lastChildCount (n : Nat) : Keeps (tl_GPc ps) (lastChildCount n) := by
  unfold lastChildCount; tl_gw

theorem tl_g_paragraphOpen (p : Nat) : Keeps (tl_GPc ps) (paragraphOpen p) := by
  unfold paragraphOpen; tl_gw

theorem tl_g_thematicOpen (p : Nat) : Keeps (tl_GPc ps) (thematicOpen p) := by
  unfold thematicOpen; tl_gw

theorem tl_g_atxOpen (p : Nat) : Keeps (tl_GPc ps) (atxOpen p) := by
  unfold atxOpen; tl_gw

theorem tl_g_setextOpen (p : Nat) : Keeps (tl_GPc ps) (setextOpen p) := by
  unfold setextOpen; tl_gw

theorem tl_g_codeTakeLine (n : Nat) (pos padding : Int) : Keeps (tl_GPc ps) (codeTakeLine n pos padding) := by
  have := @tl_g_preserveLeadingTab ps
  unfold codeTakeLine; tl_gw

theorem tl_g_codeOpen (p : Nat) : Keeps (tl_GPc ps) (codeOpen p) := by
  have := @tl_g_codeTakeLine ps
  unfold codeOpen; tl_gw

theorem tl_g_fencedOpen (p : Nat) : Keeps (tl_GPc ps) (fencedOpen p) := by
  unfold fencedOpen; tl_gw

theorem tl_g_blockquoteProcess : Keeps (tl_GPc ps) blockquoteProcess := by
  unfold blockquoteProcess; tl_gw

theorem tl_g_blockquoteOpen (p : Nat) : Keeps (tl_GPc ps) (blockquoteOpen p) := by
  have := @tl_g_blockquoteProcess ps
  unfold blockquoteOpen; tl_gw

theorem tl_g_listOpen (p : Nat) : Keeps (tl_GPc ps) (listOpen p) := by
  unfold listOpen; tl_gw

theorem tl_g_listItemOpen (p : Nat) : Keeps (tl_GPc ps) (listItemOpen p) := by
  have := @tl_g_lastOffset ps
  unfold listItemOpen; tl_gw

theorem tl_g_htmlOpen (p : Nat) : Keeps (tl_GPc ps) (htmlOpen p) := by
  unfold htmlOpen; tl_gw

/-- every `Open` keeps `DocInv` -/
theorem tl_g_bpOpen (bp : BP) (parent : Nat) : Keeps (tl_GPc ps) (bpOpen bp parent) := by
  cases bp <;> unfold bpOpen
  · exact tl_g_setextOpen parent
  · exact tl_g_thematicOpen parent
  · exact tl_g_listOpen parent
  · exact tl_g_listItemOpen parent
  · exact tl_g_codeOpen parent
  · exact tl_g_atxOpen parent
  · exact tl_g_fencedOpen parent
  · exact tl_g_blockquoteOpen parent
  · exact tl_g_htmlOpen parent
  · exact tl_g_paragraphOpen parent

/-! ### `Continue` -/

section cont
variable (n : Nat)

theorem tl_g_paragraphContinue : Keeps (tl_GPc ps) (paragraphContinue n) := by
  unfold paragraphContinue; tl_gw

theorem tl_g_codeContinue : Keeps (tl_GPc ps) (codeContinue n) := by
  have := @tl_g_codeTakeLine ps n
  unfold codeContinue; tl_gw

theorem tl_g_fencedContinue : Keeps (tl_GPc ps) (fencedContinue n) := by
  have := @tl_g_preserveLeadingTab ps
  unfold fencedContinue; tl_gw

theorem tl_g_blockquoteContinue : Keeps (tl_GPc ps) (blockquoteContinue n) := by
  have := @tl_g_blockquoteProcess ps
  unfold blockquoteContinue; tl_gw

theorem tl_g_listContinue : Keeps (tl_GPc ps) (listContinue n) := by
  have := @tl_g_lastOffset ps
  have := @tl_g_lastChildCount ps
  unfold listContinue; tl_gw

theorem tl_g_listItemContinue : Keeps (tl_GPc ps) (listItemContinue n) := by
  have := @tl_g_lastOffset ps
  unfold listItemContinue; tl_gw

theorem tl_g_htmlContinue : Keeps (tl_GPc ps) (htmlContinue n) := by
  unfold htmlContinue; tl_gw

/-- every `Continue` on a node other than the Document keeps `DocInv` -/
theorem tl_g_bpContinue (bp : BP) : Keeps (tl_GPc ps) (bpContinue bp n) := by
  cases bp <;> unfold bpContinue
  · exact Keeps.pure _
  · exact Keeps.pure _
  · exact tl_g_listContinue n
  · exact tl_g_listItemContinue n
  · exact tl_g_codeContinue n
  · exact Keeps.pure _
  · exact tl_g_fencedContinue n
  · exact tl_g_blockquoteContinue n
  · exact tl_g_htmlContinue n
  · exact tl_g_paragraphContinue n
end cont

/-! ### `Close` -/

theorem tl_g_paragraphClose (n : Nat) : Keeps (tl_GPc ps) (paragraphClose n) := by
  have := @tl_g_removeChild ps
  unfold paragraphClose; tl_gw

theorem tl_g_codeClose (n : Nat) : Keeps (tl_GPc ps) (codeClose n) := by
  unfold codeClose; tl_gw

theorem tl_g_fencedClose (n : Nat) : Keeps (tl_GPc ps) (fencedClose n) := by
  unfold fencedClose; tl_gw

theorem tl_GPc.weaken {c : Nat} {s : St} (h : tl_GPc (c :: ps) s) : tl_GPc ps s :=
  ⟨h.1, fun p hp => h.2 p (List.mem_cons_of_mem _ hp)⟩

theorem tl_GPc.add {c : Nat} {s : St} (h : tl_GPc ps s) (hc : c < s.nodes.length ∧ tl_cont (nd s c).kind = true) :
    tl_GPc (c :: ps) s :=
  ⟨h.1, fun p hp => by
    rcases List.mem_cons.1 hp with e | e
    · rw [e]; exact hc
    · exact h.2 p e⟩

theorem tl_g_tightenItem (child : Nat) (hc : child ∈ ps) : ∀ gcs, Keeps (tl_GPc ps) (tightenItem child gcs)
  | [] => by unfold tightenItem; exact Keeps.pure _
  | gc :: gcs => by
    have ih := tl_g_tightenItem child hc gcs
    have := fun k => tl_g_replaceChild child hc gc k
    unfold tightenItem; tl_gw

theorem tl_g_tightenItems : ∀ cs, Keeps (tl_GPc ps) (tightenItems cs)
  | [] => by unfold tightenItems; exact Keeps.pure _
  | c :: cs => by
    have ih := tl_g_tightenItems cs
    unfold tightenItems
    intro s a s' hs h
    obtain ⟨n, s1, h1, hA⟩ := bind_ok_inv h
    obtain ⟨en, e1⟩ := a2_getNode_inv h1
    subst e1
    obtain ⟨_, s2, h2, hB⟩ := bind_ok_inv hA
    refine ih s2 a s' ?_ hB
    cases hch : n.children with
    | nil =>
      rw [hch] at h2
      unfold tightenItem at h2
      cases h2
      exact hs
    | cons g gs =>
      have hne : (nd s1 c).children ≠ [] := by
        have e' : (nd s1 c).children = g :: gs := by rw [← hch, en]
        rw [e']; exact List.cons_ne_nil _ _
      have hlt : c < s1.nodes.length := by
        rcases Nat.lt_or_ge c s1.nodes.length with hh | hh
        · exact hh
        · exfalso; rw [nd_default_of_ge s1 hh] at hne; exact hne rfl
      have hc : tl_GPc (c :: ps) s1 := hs.add ⟨hlt, hs.1.1 c hne⟩
      exact (tl_g_tightenItem c List.mem_cons_self _ s1 _ s2 hc h2).weaken

theorem tl_g_listClose (n : Nat) : Keeps (tl_GPc ps) (listClose n) := by
  have := @tl_g_tightenItems ps
  unfold listClose; tl_gw

/-- every `Close` but the setext heading's keeps the invariant -/
theorem tl_g_bpClose (bp : BP) (hbp : bp ≠ .setext) (n : Nat) : Keeps (tl_GPc ps) (bpClose bp n) := by
  cases bp <;> unfold bpClose
  · exact absurd rfl hbp
  · exact Keeps.pure _
  · exact tl_g_listClose n
  · exact Keeps.pure _
  · exact tl_g_codeClose n
  · exact Keeps.pure _
  · exact tl_g_fencedClose n
  · exact Keeps.pure _
  · exact Keeps.pure _
  · exact tl_g_paragraphClose n

end GM.Blocks.Xs
