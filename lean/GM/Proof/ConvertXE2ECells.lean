/-
  GM.Proof.ConvertXE2ECells — tableASTTransformer's walk below a cell (GM.TableX.escNodes: every Text child of a CodeSpan is cut
  at the recorded positions of escaped pipes) keeps what the renderer side of C01 needs of the inline tree, for ANY list of
  positions: CodeSpans still hold Text nodes only (`csH`), no segment gains padding (`P0`); and, when the positions are
  ascending (they are recorded in document order), every segment stays in range. Pieces for C01 end to end with Table.
-/
import GM.Proof.ConvertXE2ECS

namespace GM.Proof.ConvertXE2ECells
open GM GM.Text GM.Spec GM.Inl GM.TableX GM.Proof.Inlines GM.Proof.InlinesTotal GM.Proof.ConvertXE2E GM.E2E.Pad

/-! ### CodeSpans keep holding Text -/

theorem escCut_allText (a b : Int) : ∀ (ps : List Int) (done : List Inl.Node) (cur : Segment) (cut : Bool),
    done.all isText = true → (escCut a b ps done cur cut).1.all isText = true
  | [], _, _, _, h => by simpa [escCut] using h
  | pos :: rest, done, cur, cut, h => by
    unfold escCut
    split
    · exact escCut_allText a b rest _ _ _ (by simp [List.all_append, h, isText, rawTextOf])
    · exact escCut_allText a b rest _ _ _ h

theorem escSpanKids_allText (ps : List Int) : ∀ ks : List Inl.Node, ks.all isText = true →
    (escSpanKids ps ks).all isText = true
  | [], _ => rfl
  | .text seg so ha ra :: rest, h => by
    simp only [List.all_cons, Bool.and_eq_true] at h
    simp only [escSpanKids, List.all_append, Bool.and_eq_true]
    refine ⟨?_, escSpanKids_allText ps rest h.2⟩
    split
    · simp only [List.all_append, Bool.and_eq_true]
      exact ⟨escCut_allText _ _ ps [] seg false rfl, by simp [isText, rawTextOf]⟩
    · simp [isText]
  | .codeSpan _ :: _, h => by simp [isText] at h
  | .emphasis _ _ :: _, h => by simp [isText] at h
  | .link _ _ _ _ :: _, h => by simp [isText] at h
  | .autoLink _ _ :: _, h => by simp [isText] at h
  | .rawHTML _ :: _, h => by simp [isText] at h
  | .delim _ _ :: _, h => by simp [isText] at h
  | .label _ _ _ :: _, h => by simp [isText] at h

mutual
theorem escNode_csH (ps : List Int) : ∀ n : Inl.Node, csH n = true → csH (escNode ps n) = true
  | .codeSpan ks, h => by
    simp only [csH] at h
    simp only [escNode, csH]; exact escSpanKids_allText ps ks h
  | .emphasis lv ks, h => by
    simp only [csH] at h
    simp only [escNode, csH]; exact escNodes_csHL ps ks h
  | .link _ _ _ ks, h => by
    simp only [csH] at h
    simp only [escNode, csH]; exact escNodes_csHL ps ks h
  | .text .., _ => rfl
  | .autoLink .., _ => rfl
  | .rawHTML .., _ => rfl
  | .delim .., _ => rfl
  | .label .., _ => rfl
/-- **CodeSpans hold Text behind the escaped-pipe transformer too** -/
theorem escNodes_csHL (ps : List Int) : ∀ ns : List Inl.Node, csHL ns = true → csHL (escNodes ps ns) = true
  | [], _ => rfl
  | n :: rest, h => by
    simp only [csHL, Bool.and_eq_true] at h
    simp only [escNodes, csHL, Bool.and_eq_true]
    exact ⟨escNode_csH ps n h.1, escNodes_csHL ps rest h.2⟩
end

/-! ### segments in range (ascending positions), no padding gained -/

/-- the property of a segment the cut keeps: `segInRange` -/
def SR (src : Bytes) (s : Segment) : Prop := segInRange src s

theorem escCut_range (src : Bytes) (a b : Int) : ∀ (ps : List Int) (done : List Inl.Node) (cur : Segment) (cut : Bool),
    ps.Pairwise (· < ·) → (∀ p ∈ ps, a ≤ p → cur.start ≤ p) → (∀ s ∈ segsOfL done, segInRange src s) → segInRange src cur → b ≤ cur.stop →
    (∀ s ∈ segsOfL (escCut a b ps done cur cut).1, segInRange src s) ∧ segInRange src (escCut a b ps done cur cut).2.1
  | [], done, cur, cut, _, _, hd, hc, _ => by simpa [escCut] using ⟨hd, hc⟩
  | pos :: rest, done, cur, cut, hs, hlo, hd, hc, hb => by
    have hs' := List.pairwise_cons.mp hs
    unfold escCut
    split
    · rename_i hin
      simp only [Bool.and_eq_true, decide_eq_true_eq] at hin
      have hp := hlo pos (by simp) hin.1
      obtain ⟨c1, c2, c3, c4⟩ := hc
      apply escCut_range src a b rest _ _ _ hs'.2
      · intro p hp' _
        have := hs'.1 p hp'
        show (cur.withStart (pos + 1)).start ≤ p
        simp only [Segment.withStart]; omega
      · intro s hs2
        simp only [segsOfL_append, List.mem_append] at hs2
        rcases hs2 with hs2 | hs2
        · exact hd s hs2
        · simp only [rawTextOf, segsOfL, segsOf, List.append_nil, List.mem_singleton] at hs2
          subst hs2
          exact ⟨c1, by simp only [Segment.withStop]; omega, by simp only [Segment.withStop]; omega, c4⟩
      · exact ⟨by simp only [Segment.withStart]; omega, by simp only [Segment.withStart]; omega, c3, c4⟩
      · exact hb
    · exact escCut_range src a b rest _ _ _ hs'.2 (fun p hp' ha => hlo p (by simp [hp']) ha) hd hc hb

mutual
theorem escNode_range (src : Bytes) (ps : List Int) (hs : ps.Pairwise (· < ·)) : ∀ n : Inl.Node,
    (∀ s ∈ segsOf n, segInRange src s) → ∀ s ∈ segsOf (escNode ps n), segInRange src s
  | .codeSpan ks, h => by
    simp only [escNode, segsOf]; exact escSpanKids_range src ps hs ks (by simpa [segsOf] using h)
  | .emphasis lv ks, h => by
    simp only [escNode, segsOf]; exact escNodes_range src ps hs ks (by simpa [segsOf] using h)
  | .link _ _ _ ks, h => by
    simp only [escNode, segsOf]; exact escNodes_range src ps hs ks (by simpa [segsOf] using h)
  | .text .., h => by simpa [escNode] using h
  | .autoLink .., h => by simpa [escNode] using h
  | .rawHTML .., h => by simpa [escNode] using h
  | .delim .., h => by simpa [escNode] using h
  | .label .., h => by simpa [escNode] using h
/-- **every segment stays in range behind the escaped-pipe transformer** (positions ascending) -/
theorem escNodes_range (src : Bytes) (ps : List Int) (hs : ps.Pairwise (· < ·)) : ∀ ns : List Inl.Node,
    (∀ s ∈ segsOfL ns, segInRange src s) → ∀ s ∈ segsOfL (escNodes ps ns), segInRange src s
  | [], _ => by simp [escNodes, segsOfL]
  | n :: rest, h => by
    intro s hs2
    simp only [escNodes, segsOfL, List.mem_append] at hs2
    rcases hs2 with hs2 | hs2
    · exact escNode_range src ps hs n (fun t ht => h t (by simp [segsOfL, ht])) s hs2
    · exact escNodes_range src ps hs rest (fun t ht => h t (by simp [segsOfL, ht])) s hs2
theorem escSpanKids_range (src : Bytes) (ps : List Int) (hs : ps.Pairwise (· < ·)) : ∀ ns : List Inl.Node,
    (∀ s ∈ segsOfL ns, segInRange src s) → ∀ s ∈ segsOfL (escSpanKids ps ns), segInRange src s
  | [], _ => by simp [escSpanKids, segsOfL]
  | .text seg so ha ra :: rest, h => by
    have hseg : segInRange src seg := h seg (by simp [segsOfL, segsOf])
    have hrest := escSpanKids_range src ps hs rest (fun t ht => h t (by simp [segsOfL, ht]))
    have hc := escCut_range src seg.start seg.stop ps [] seg false hs (fun _ _ ha => ha) (by simp [segsOfL]) hseg
      (Int.le_refl _)
    intro s hs2
    simp only [escSpanKids, segsOfL_append, List.mem_append] at hs2
    rcases hs2 with hs2 | hs2
    · split at hs2
      · simp only [segsOfL_append, List.mem_append] at hs2
        rcases hs2 with hs2 | hs2
        · exact hc.1 s hs2
        · simp only [rawTextOf, segsOfL, segsOf, List.append_nil, List.mem_singleton] at hs2
          subst hs2; exact hc.2
      · simp only [segsOfL, segsOf, List.append_nil, List.mem_singleton] at hs2
        subst hs2; exact hseg
    · exact hrest s hs2
  | .codeSpan ks :: rest, h => by
    intro s hs2
    simp only [escSpanKids, segsOfL, List.mem_append] at hs2
    rcases hs2 with hs2 | hs2
    · exact escNode_range src ps hs _ (fun t ht => h t (by simp [segsOfL, ht])) s hs2
    · exact escSpanKids_range src ps hs rest (fun t ht => h t (by simp [segsOfL, ht])) s hs2
  | .emphasis lv ks :: rest, h => by
    intro s hs2
    simp only [escSpanKids, segsOfL, List.mem_append] at hs2
    rcases hs2 with hs2 | hs2
    · exact escNode_range src ps hs _ (fun t ht => h t (by simp [segsOfL, ht])) s hs2
    · exact escSpanKids_range src ps hs rest (fun t ht => h t (by simp [segsOfL, ht])) s hs2
  | .link a b c ks :: rest, h => by
    intro s hs2
    simp only [escSpanKids, segsOfL, List.mem_append] at hs2
    rcases hs2 with hs2 | hs2
    · exact escNode_range src ps hs _ (fun t ht => h t (by simp [segsOfL, ht])) s hs2
    · exact escSpanKids_range src ps hs rest (fun t ht => h t (by simp [segsOfL, ht])) s hs2
  | .autoLink a b :: rest, h => by
    intro s hs2
    simp only [escSpanKids, segsOfL, List.mem_append] at hs2
    rcases hs2 with hs2 | hs2
    · exact escNode_range src ps hs _ (fun t ht => h t (by simp [segsOfL, ht])) s hs2
    · exact escSpanKids_range src ps hs rest (fun t ht => h t (by simp [segsOfL, ht])) s hs2
  | .rawHTML a :: rest, h => by
    intro s hs2
    simp only [escSpanKids, segsOfL, List.mem_append] at hs2
    rcases hs2 with hs2 | hs2
    · exact escNode_range src ps hs _ (fun t ht => h t (by simp [segsOfL, ht])) s hs2
    · exact escSpanKids_range src ps hs rest (fun t ht => h t (by simp [segsOfL, ht])) s hs2
  | .delim a b :: rest, h => by
    intro s hs2
    simp only [escSpanKids, segsOfL, List.mem_append] at hs2
    rcases hs2 with hs2 | hs2
    · exact escNode_range src ps hs _ (fun t ht => h t (by simp [segsOfL, ht])) s hs2
    · exact escSpanKids_range src ps hs rest (fun t ht => h t (by simp [segsOfL, ht])) s hs2
  | .label a b c :: rest, h => by
    intro s hs2
    simp only [escSpanKids, segsOfL, List.mem_append] at hs2
    rcases hs2 with hs2 | hs2
    · exact escNode_range src ps hs _ (fun t ht => h t (by simp [segsOfL, ht])) s hs2
    · exact escSpanKids_range src ps hs rest (fun t ht => h t (by simp [segsOfL, ht])) s hs2
end

/-- so the decoding of a cell's inline children answers: every `Segment.Value` of the cut tree resolves -/
theorem cell_children_resolve (c : GM.ConvertX.GCfg) (src : Bytes) (ps : List Int) (hs : ps.Pairwise (· < ·))
    (kids : List Inl.Node) (h : ∀ s ∈ segsOfL kids, segInRange src s) :
    ∃ ts, GM.ConvertX.inlineTreesL c src (escNodes ps kids) = .ok ts :=
  inlineTreesL_total c _ (escNodes_range src ps hs kids h)

end GM.Proof.ConvertXE2ECells
