/-
  GM.Proof.BlocksOrdLine — the ORDER invariant through one pass of the line loop (parser.go:1081-1123).

  * `lineTail_ord` / `lineF_ord` — the end of an iteration: `openBlocks` from a clean state, then `closeBlocks`.
-/
import GM.Proof.BlocksOrdDrv

namespace GM.Blocks
open GM GM.Text GM.Spec GM.Proof.Reader

section line
variable {src : Bytes}

/-- `openBlocks(thisParent)` then `closeBlocks(lastIndex, i)` (parser.go:1108-1121) from a clean state -/
theorem lineTail_ord (L : Int) (ob : List Block) (li i : Int) (thisParent : Nat) (blank : Bool) (bl' : List LineStat)
    (s : St) (c : RCur) (x : LineOutcome × List LineStat) (s' : St) (hc : Clean src L s c)
    (e : (do
          let lastNode ← liftE (blockAt ob li)
          let result ← openBlocks thisParent blank
          if (result != OpenResult.paragraphContinuation) = true then do
              let __do_lift ← getPc
              closeBlocks
                  (if (Option.map (fun x => x.node) (slotAfter ob __do_lift.opened li.toNat) != some lastNode.node) = true then
                    li - 1
                  else li)
                  i
              pure (LineOutcome.next, bl')
            else pure (LineOutcome.next, bl') : M _) s = .ok (x, s')) : Dirty src s' := by
  obtain ⟨ln, s1, h1, k1⟩ := obind_ok e
  obtain ⟨_, hs1⟩ := oliftE_ok h1
  subst s1
  obtain ⟨res, s2, h2, k2⟩ := obind_ok k1
  obtain ⟨E, hE, hstop⟩ := openBlocks_ord (src := src) L thisParent blank s c res s2 hc h2
  split at k2
  · obtain ⟨pc, s3, h3, k3⟩ := obind_ok k2
    obtain ⟨_, hs3⟩ := ogetPc_ok h3
    subst s3
    obtain ⟨_, s4, h4, k4⟩ := obind_ok k3
    obtain ⟨a1, a2, _, _⟩ := closeBlocks_inv _ _ hE hstop.source h4
    obtain ⟨_, hs⟩ := opure_ok k4
    subst s'
    exact ⟨E, a1, hstop.congr a2⟩
  · obtain ⟨_, hs⟩ := opure_ok k2
    subst s'
    exact ⟨E, hE, hstop⟩

/-- the fall-through continuation of one iteration of the `for i` loop, as `GM.Blocks.L.lineFL` states it -/
theorem lineF_ord (L : Int) (parent : Nat) (ob : List Block) (li i : Int) (blank : Bool) (bl' : List LineStat)
    (s : St) (c : RCur) (x : LineOutcome × List LineStat) (s' : St) (hc : Clean src L s c)
    (e : (if (i != 0) = true then do
          let b ← liftE (blockAt ob (i - 1))
          let thisParent ← pure b.node
          let lastNode ← liftE (blockAt ob li)
          let result ← openBlocks thisParent blank
          if (result != OpenResult.paragraphContinuation) = true then do
              let __do_lift ← getPc
              closeBlocks
                  (if (Option.map (fun x => x.node) (slotAfter ob __do_lift.opened li.toNat) != some lastNode.node) = true then
                    li - 1
                  else li)
                  i
              pure (LineOutcome.next, bl')
            else pure (LineOutcome.next, bl')
        else do
          let thisParent ← pure parent
          let lastNode ← liftE (blockAt ob li)
          let result ← openBlocks thisParent blank
          if (result != OpenResult.paragraphContinuation) = true then do
              let __do_lift ← getPc
              closeBlocks
                  (if (Option.map (fun x => x.node) (slotAfter ob __do_lift.opened li.toNat) != some lastNode.node) = true then
                    li - 1
                  else li)
                  i
              pure (LineOutcome.next, bl')
            else pure (LineOutcome.next, bl') : M _) s = .ok (x, s')) : Dirty src s' := by
  split at e
  · obtain ⟨b, s1, h1, k1⟩ := obind_ok e
    obtain ⟨_, hs1⟩ := oliftE_ok h1
    subst s1
    obtain ⟨tp, s2, h2, k2⟩ := obind_ok k1
    obtain ⟨htp, hs2⟩ := opure_ok h2
    subst s2
    subst tp
    exact lineTail_ord L ob li i b.node blank bl' s c x s' hc k2
  · obtain ⟨tp, s2, h2, k2⟩ := obind_ok e
    obtain ⟨htp, hs2⟩ := opure_ok h2
    subst s2
    subst tp
    exact lineTail_ord L ob li i parent blank bl' s c x s' hc k2

end line

end GM.Blocks
