/-
  GM.Proof.E2EListHalf — the final store of the transformer-free block phase satisfies the whole driver invariant
  `GM.Blocks.L.StableL` (GM.Proof.BlocksDriverL.runL proves this on the way and exports `NodesOK` only; the same proof with
  the full conclusion). Used for the half `parent is a List ⇒ child is a ListItem` of `ListShape`.
-/
import GM.Proof.BlocksNoPanicAll

namespace GM.Blocks.L
open GM GM.Text GM.Spec GM.Proof.Reader GM.Blocks

/-- **the driver invariant holds of the final store** (or the run is out of fuel, which `run_noLoop` excludes) -/
theorem run_stableL_aux {src : Bytes} (lsp : LSp src) :
    (∃ s, run src = .ok s ∧ StableL src 0 s) ∨ run src = .error .loop := by
  unfold run parseBlocks
  have hinit : StableL src 0 { (initSt src) with pc := { (initSt src).pc with opened := [] } } := by
    have hnd0 : ∀ i, nd ({ (initSt src) with pc := { (initSt src).pc with opened := [] } } : St) i =
        if i = 0 then { kind := .document } else default := by
      intro i
      cases i with
      | zero => rfl
      | succ n => rfl
    refine ⟨?_, ⟨?_, ?_⟩, ?_, ?_, ⟨⟨?_, ?_, ?_⟩, ?_, ?_, ?_, ?_, ?_⟩, ?_, ?_⟩
    · intro n hn
      simp only [initSt, List.mem_singleton] at hn
      subst hn
      exact ⟨by intro t ht; simp at ht, fun _ => rfl⟩
    · intro t h; simp [initSt] at h
    · intro f h; simp [initSt] at h
    · intro b hb; simp at hb
    · intro b hb; simp at hb
    · intro i lc hk; rw [hnd0] at hk; split at hk <;> cases hk
    · intro i hk; rw [hnd0] at hk; split at hk <;> cases hk
    · intro i p hp; rw [hnd0] at hp; split at hp <;> cases hp
    · intro i p hp; rw [hnd0] at hp; split at hp <;> cases hp
    · rw [hnd0]; rfl
    · simp [initSt]
    · intro b hb; simp at hb
    · simp
    · trivial
    · show (nd _ (lastNode 0 [])).kind ≠ .list
      rw [lastNode_nil, hnd0]; decide
  have := blocksLoopL lsp 0 rfl (linesFuel src) [] { (initSt src) with pc := { (initSt src).pc with opened := [] } }
    RCur.init (ri_init src) (fun h => absurd rfl h) hinit rfl
  simp only [bind, StateT.bind, modPc, source, Except.bind, pure, StateT.pure, Except.pure]
  rcases this with ⟨_, s', e, hs'⟩ | e
  · left
    refine ⟨s', ?_, hs'⟩
    have e' : blocksLoop 0 (linesFuel (initSt src).r.source) []
        { r := (initSt src).r, nodes := (initSt src).nodes, pc := { (initSt src).pc with opened := [] } } = .ok ((), s') := e
    rw [e']; rfl
  · right
    have e' : blocksLoop 0 (linesFuel (initSt src).r.source) []
        { r := (initSt src).r, nodes := (initSt src).nodes, pc := { (initSt src).pc with opened := [] } } = .error .loop := e
    rw [e']; rfl

end GM.Blocks.L

namespace GM.Blocks
open GM GM.Text

/-- the driver invariant (`NodesOK`, `KidsOK`, parent indices in range, node 0 is the Document, …) of the final store -/
theorem run_stableL (src : Bytes) (s : St) (h : run src = .ok s) : L.StableL src 0 s := by
  rcases L.run_stableL_aux (lsp_all src) with ⟨s', h', hs⟩ | h'
  · rw [h] at h'; cases h'; exact hs
  · rw [h] at h'; cases h'

/-- **the children of a List are ListItems** in the final store of the transformer-free block phase, every source -/
theorem run_kidsOK (src : Bytes) (s : St) (h : run src = .ok s) : KidsOK s := (run_stableL src s h).ls.kids

end GM.Blocks
