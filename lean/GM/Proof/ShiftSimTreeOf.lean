/-
  GM.Proof.ShiftSimTreeOf — the tree-level form of the store relation `StoreRel` of the C09 shift simulation:
  read with the same fuel, B's subtree below `F.ι j` (`j ≠ 0`) dumps like A's subtree below `j` with every segment
  moved by `|p|`; B's Document has the children `kids0` followed by A's, moved.

  Both theorems assume that no node of A has the child `0` (`h0`): the Document is nobody's child in a well-formed
  store, and `F.ι 0 = 0` is B's Document, whose children are not `ι` of A's.
-/
import GM.Proof.ShiftSimRel

namespace GM.Blocks.Sh
open GM GM.Text GM.Blocks

/-! ### printing -/

theorem to_nodeFields_congr {n m : Node} (hk : n.kind = m.kind) (h1 : n.level = m.level) (h2 : n.marker = m.marker)
    (h3 : n.start = m.start) (h4 : n.tight = m.tight) (h5 : n.offset = m.offset) (h6 : n.info = m.info)
    (h7 : n.htmlType = m.htmlType) (h8 : n.closure = m.closure) : nodeFields n = nodeFields m := by
  unfold nodeFields
  rw [hk, h1, h2, h3, h4, h5, h6, h7, h8]

theorem to_str_congr {n m : Node} {cs ds : List Tree} (hk : n.kind = m.kind) (hb : n.blankPrev = m.blankPrev)
    (hf : nodeFields n = nodeFields m) (hl : n.lines = m.lines) (hc : Tree.strs cs = Tree.strs ds) :
    (Tree.node n cs).str = (Tree.node m ds).str := by
  simp only [Tree.str, hk, hb, hf, hl, hc]

theorem to_strs_append : ∀ (xs ys : List Tree), Tree.strs (xs ++ ys) = Tree.strs xs ++ Tree.strs ys
  | [], ys => by simp [Tree.strs]
  | x :: xs, ys => by
    rw [List.cons_append, Tree.strs, Tree.strs, to_strs_append xs ys, String.append_assoc]

/-! ### `mapSegs`, `readBlank` on lists -/

theorem to_mapSegsL_map (f : Segment → Segment) (g : Nat → Tree) : ∀ ids : List Nat,
    Tree.mapSegsL f (ids.map g) = ids.map (fun i => (g i).mapSegs f)
  | [] => rfl
  | i :: ids => by rw [List.map_cons, Tree.mapSegsL, to_mapSegsL_map f g ids, List.map_cons]

/-- outside a list the position among the siblings does not matter -/
theorem to_readBlankL_false_first : ∀ (first first' : Bool) (ts : List Tree),
    Tree.readBlankL false first ts = Tree.readBlankL false first' ts
  | _, _, [] => rfl
  | _, _, t :: ts => by
    simp only [Tree.readBlankL, Bool.false_and]

theorem to_readBlankL_false_append : ∀ (first : Bool) (xs ys : List Tree),
    Tree.readBlankL false first (xs ++ ys) = Tree.readBlankL false first xs ++ Tree.readBlankL false first ys
  | _, [], _ => rfl
  | first, x :: xs, ys => by
    simp only [List.cons_append, Tree.readBlankL]
    rw [to_readBlankL_false_append false xs ys, to_readBlankL_false_first false first ys]

/-- the node of B below children that dump alike dumps like the mapped node of A -/
theorem to_node_str (F : Frame) (root : Bool) (a : Node) (keep : Bool) (cs ds : List Tree)
    (hc : Tree.strs (Tree.readBlankL (a.kind == .list || a.kind == .listItem) true ds) =
      Tree.strs (Tree.readBlankL (a.kind == .list || a.kind == .listItem) true (Tree.mapSegsL (moveSeg F.d) cs))) :
    ((Tree.node (shN F root a) ds).readBlank keep).str =
      (((Tree.node a cs).mapSegs (moveSeg F.d)).readBlank keep).str := by
  simp only [Tree.readBlank, Tree.mapSegs]
  refine to_str_congr rfl rfl ?_ rfl hc
  exact to_nodeFields_congr rfl rfl rfl rfl rfl rfl rfl rfl rfl

/-- children lists -/
theorem to_strs_sim (F : Frame) {ta tb : Nat → Tree} : ∀ (ids : List Nat) (inList first : Bool),
    (∀ i ∈ ids, ∀ keep, ((tb (F.ι i)).readBlank keep).str = (((ta i).mapSegs (moveSeg F.d)).readBlank keep).str) →
    Tree.strs (Tree.readBlankL inList first ((ids.map F.ι).map tb)) =
      Tree.strs (Tree.readBlankL inList first (Tree.mapSegsL (moveSeg F.d) (ids.map ta)))
  | [], _, _, _ => rfl
  | i :: ids, inList, first, h => by
    simp only [List.map_cons, Tree.mapSegsL, Tree.readBlankL, Tree.strs]
    rw [h i (List.mem_cons_self ..), to_strs_sim F ids inList false (fun j hj => h j (List.mem_cons_of_mem _ hj))]

/-! ### the trees -/

/-- below a node other than the Document: B's subtree dumps like A's with every segment moved by `|p|` -/
theorem treeOf_shift_str {F : Frame} {nA nB : List Node} (h : StoreRel F nA nB)
    (h0 : ∀ j, ∀ c ∈ (nA.getD j default).children, c ≠ 0) :
    ∀ (fuel j : Nat) (keep : Bool), j ≠ 0 →
      ((treeOf nB fuel (F.ι j)).readBlank keep).str =
        (((treeOf nA fuel j).mapSegs (moveSeg F.d)).readBlank keep).str := by
  intro fuel
  induction fuel with
  | zero =>
    intro j keep hj
    have hab := h.node j
    rw [beq_eq_false_iff_ne.mpr hj] at hab
    have e1 : treeOf nA 0 j = .node (nA.getD j default) [] := rfl
    have e2 : treeOf nB 0 (F.ι j) = .node (nB.getD (F.ι j) default) [] := rfl
    rw [e1, e2, hab]
    exact to_node_str F false _ keep [] [] rfl
  | succ f ih =>
    intro j keep hj
    have hab := h.node j
    rw [beq_eq_false_iff_ne.mpr hj] at hab
    have e1 : treeOf nA (f + 1) j =
      .node (nA.getD j default) ((nA.getD j default).children.map (treeOf nA f)) := rfl
    have e2 : treeOf nB (f + 1) (F.ι j) =
      .node (nB.getD (F.ι j) default) ((nB.getD (F.ι j) default).children.map (treeOf nB f)) := rfl
    rw [e1, e2, hab]
    refine to_node_str F false _ keep _ _ ?_
    have hch : (shN F false (nA.getD j default)).children = (nA.getD j default).children.map F.ι := by
      simp [shN]
    rw [hch]
    refine to_strs_sim F (ta := treeOf nA f) (tb := treeOf nB f) _ _ true ?_
    intro i hi keep'
    exact ih i keep' (h0 j i hi)

/-- the Document: B's children are the old ones (`kids0`) followed by A's, moved -/
theorem treeOf_shift_doc {F : Frame} {nA nB : List Node} (h : StoreRel F nA nB) (fuel : Nat)
    (h0 : ∀ j, ∀ c ∈ (nA.getD j default).children, c ≠ 0) :
    Tree.strs (Tree.readBlankL false true ((nB.getD 0 default).children.map (treeOf nB fuel))) =
      Tree.strs (Tree.readBlankL false true (F.kids0.map (treeOf nB fuel) ++
        Tree.mapSegsL (moveSeg F.d) ((nA.getD 0 default).children.map (treeOf nA fuel)))) := by
  have hab := h.node 0
  rw [ι_zero] at hab
  have hch : (nB.getD 0 default).children = F.kids0 ++ (nA.getD 0 default).children.map F.ι := by
    rw [hab]; simp [shN]
  rw [hch, List.map_append, to_readBlankL_false_append, to_readBlankL_false_append, to_strs_append, to_strs_append]
  congr 1
  refine to_strs_sim F (ta := treeOf nA fuel) (tb := treeOf nB fuel) _ false true ?_
  intro i hi keep
  exact treeOf_shift_str h h0 fuel i keep (h0 0 i hi)

end GM.Blocks.Sh
