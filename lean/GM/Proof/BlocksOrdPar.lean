/-
  GM.Proof.BlocksOrdPar — the per-parser half of the LINE PROTOCOL for the inline-bearing blocks (Paragraph, Heading,
  TextBlock): exactly which segment each parser call puts into the tree, relative to the cursor `c` the reader stands
  for (`RI src s.r c`, GM.Proof.BlocksReader), strengthening the round-2 lemmas of GM.Proof.BlocksPara / BlocksAtx
  (which only say "inside the source").

  * `paragraphOpen_line`     — paragraph.go:24-34: the one line of a new Paragraph is the rest of the current source
                               line without its leading white space: `c.p ≤ start < stop = lineEnd src c.p`,
                               padding 0, no ForceNewline, and it holds a byte that is not white space.
  * `paragraphContinue_line` — paragraph.go:36-44: a continuation line is exactly the reader's segment
                               `[c.p, lineEnd src c.p)` with the reader's padding, and it is not blank.
  * `paragraphClose_lines`   — paragraph.go:46-64: `Close` replaces every line by a sub-segment of itself
                               (`Shrinks`), all with padding 0 and without ForceNewline; lines that held a non-space
                               byte stay non-empty. Hence: lines that increase, lie inside the source and are not
                               blank become `WF0` (`paragraphClose_wf0`).
  * `trimLeftSpace_ok2`, `trimRightSpace_ok2`, `trimLeftAll_ok2` — the segment arithmetic behind it.
-/
import GM.Proof.BlocksOrd

namespace GM.Blocks
open GM GM.Text GM.Spec GM.Proof.Reader
open GM.Proof.InlinesReader (WF0)

/-! ### white space at the ends of a byte string -/

theorem takeWhile_lt_of_not_all {α} (p : α → Bool) : ∀ (v : List α), v.all p = false →
    (v.takeWhile p).length < v.length ∧ (v.drop (v.takeWhile p).length).all p = false
  | [], h => by simp at h
  | a :: v, h => by
    by_cases ha : p a = true
    · have hv : v.all p = false := by simpa [List.all_cons, ha] using h
      obtain ⟨h1, h2⟩ := takeWhile_lt_of_not_all p v hv
      simp only [List.takeWhile_cons, ha, if_true, List.length_cons, List.drop_succ_cons]
      exact ⟨by omega, h2⟩
    · simp only [List.takeWhile_cons, ha, Bool.false_eq_true, if_false, List.length_nil, List.length_cons, List.drop_zero]
      exact ⟨by omega, h⟩

/-- behind the longest prefix of `p`-elements the rest, if there is one, starts with an element that fails `p` -/
theorem drop_takeWhile_not_all {α} (p : α → Bool) : ∀ (v : List α), v.drop (v.takeWhile p).length ≠ [] →
    (v.drop (v.takeWhile p).length).all p = false
  | [], h => by simp at h
  | a :: v, h => by
    by_cases ha : p a = true
    · simp only [List.takeWhile_cons, ha, if_true, List.length_cons, List.drop_succ_cons] at h ⊢
      exact drop_takeWhile_not_all p v h
    · simp only [List.takeWhile_cons, ha, Bool.false_eq_true, if_false, List.length_nil, List.drop_zero, List.all_cons]
      simp [ha]

/-- the segment holds a byte that is not white space (`util.IsBlank` of its bytes is false) -/
def NonBlankSeg (src : Bytes) (t : Segment) : Prop := isBlank (sub src t.start.toNat t.stop.toNat) = false

theorem sub_drop (src : Bytes) (a b k : Nat) : (sub src a b).drop k = sub src (a + k) b := by
  unfold sub
  rw [List.drop_take, List.drop_drop]
  congr 1
  omega

theorem sub_take (src : Bytes) (a b k : Nat) (hk : k ≤ b - a) : (sub src a b).take (b - a - k) = sub src a (b - k) := by
  unfold sub
  rw [List.take_take]
  congr 1
  omega

theorem all_of_take_append {α} (p : α → Bool) (v : List α) (n : Nat) :
    v.all p = ((v.take n).all p && (v.drop n).all p) := by
  conv => lhs; rw [← List.take_append_drop n v]
  rw [List.all_append]

/-- trailing white space: the bytes without it are still not blank -/
theorem all_take_of_trailing (v : Bytes) (h : isBlank v = false) :
    trimRightSpaceLength v < v.length ∧ isBlank (v.take (v.length - trimRightSpaceLength v)) = false := by
  unfold trimRightSpaceLength isBlank at *
  have hr : v.reverse.all isSpace = false := by rw [List.all_reverse]; exact h
  obtain ⟨h1, h2⟩ := takeWhile_lt_of_not_all isSpace v.reverse hr
  refine ⟨by simpa using h1, ?_⟩
  rw [List.drop_reverse, List.all_reverse] at h2
  simpa using h2

/-! ### Segment.TrimLeftSpace / TrimRightSpace, with what they keep -/

theorem trimLeftSpace_ok2 {src : Bytes} {t : Segment} (h : SegOK src t) :
    ∃ t', t.trimLeftSpace src = .ok t' ∧ SegOK src t' ∧ t'.stop = t.stop ∧ t.start ≤ t'.start ∧ t'.padding = 0 ∧
      t'.forceNewline = false ∧ (NonBlankSeg src t → NonBlankSeg src t' ∧ t'.start < t'.stop) ∧
      (t'.start < t'.stop → NonBlankSeg src t') := by
  obtain ⟨h0, h1, h2, h3⟩ := h
  unfold Segment.trimLeftSpace
  rw [sliceB_ok src h0 h1 h2]
  simp only [bind, Except.bind, pure, Except.pure]
  have hlen := length_sub src (a := t.start.toNat) (b := t.stop.toNat) (by omega)
  have hl : (trimLeftSpaceLength (sub src t.start.toNat t.stop.toNat) : Int) ≤ t.stop - t.start := by
    have a := length_takeWhile_le'' isSpace (sub src t.start.toNat t.stop.toNat)
    unfold trimLeftSpaceLength
    omega
  refine ⟨_, rfl, ⟨?_, ?_, h2, ?_⟩, rfl, ?_, rfl, rfl, ?_, ?_⟩ <;> simp only
  · omega
  · omega
  · omega
  · omega
  · intro hnb
    unfold NonBlankSeg at hnb ⊢
    simp only
    obtain ⟨k1, k2⟩ := takeWhile_lt_of_not_all isSpace _ hnb
    have e : (t.start + (trimLeftSpaceLength (sub src t.start.toNat t.stop.toNat) : Int)).toNat =
        t.start.toNat + trimLeftSpaceLength (sub src t.start.toNat t.stop.toNat) := by omega
    refine ⟨?_, ?_⟩
    · rw [e, ← sub_drop]; exact k2
    · unfold trimLeftSpaceLength; omega
  · intro hlt
    unfold NonBlankSeg isBlank
    simp only
    have e : (t.start + (trimLeftSpaceLength (sub src t.start.toNat t.stop.toNat) : Int)).toNat =
        t.start.toNat + trimLeftSpaceLength (sub src t.start.toNat t.stop.toNat) := by omega
    rw [e, ← sub_drop]
    unfold trimLeftSpaceLength
    refine drop_takeWhile_not_all isSpace _ (fun he => ?_)
    have hl := congrArg List.length he
    simp only [List.length_drop, List.length_nil] at hl
    unfold trimLeftSpaceLength at hlt
    omega

theorem trimRightSpace_ok2 {src : Bytes} {t : Segment} (h : SegOK src t) :
    ∃ t', t.trimRightSpace src = .ok t' ∧ SegOK src t' ∧ t'.start = t.start ∧ t'.stop ≤ t.stop ∧
      (t.padding = 0 → t'.padding = 0) ∧ t'.forceNewline = false ∧
      (NonBlankSeg src t → NonBlankSeg src t' ∧ t'.start < t'.stop) := by
  obtain ⟨h0, h1, h2, h3⟩ := h
  unfold Segment.trimRightSpace
  rw [sliceB_ok src h0 h1 h2]
  simp only [bind, Except.bind, pure, Except.pure]
  have hlen := length_sub src (a := t.start.toNat) (b := t.stop.toNat) (by omega)
  have hl : trimRightSpaceLength (sub src t.start.toNat t.stop.toNat) ≤ (sub src t.start.toNat t.stop.toNat).length :=
    trimRightSpaceLength_le _
  split
  · next heq =>
    refine ⟨_, rfl, ⟨h0, Int.le_refl _, by simp only; omega, by simp⟩, rfl, h1, fun _ => rfl, rfl, fun hnb => ?_⟩
    exfalso
    have := (all_take_of_trailing _ hnb).1
    have heq' : trimRightSpaceLength (sub src t.start.toNat t.stop.toNat) = (sub src t.start.toNat t.stop.toNat).length := by
      simpa using heq
    omega
  · next hne =>
    have hne' : trimRightSpaceLength (sub src t.start.toNat t.stop.toNat) ≠ (sub src t.start.toNat t.stop.toNat).length := by
      intro e; apply hne; simp [e]
    refine ⟨_, rfl, ⟨h0, ?_, ?_, h3⟩, rfl, ?_, fun hp => hp, rfl, fun hnb => ⟨?_, ?_⟩⟩
    · simp only; omega
    · simp only; omega
    · simp only; omega
    · unfold NonBlankSeg at hnb ⊢
      simp only
      obtain ⟨k1, k2⟩ := all_take_of_trailing _ hnb
      have e : (t.stop - (trimRightSpaceLength (sub src t.start.toNat t.stop.toNat) : Int)).toNat =
          t.stop.toNat - trimRightSpaceLength (sub src t.start.toNat t.stop.toNat) := by omega
      rw [e, ← sub_take src _ _ _ (by omega), ← hlen]
      exact k2
    · simp only; omega

/-- the loop paragraph.go:50-53 -/
theorem trimLeftAll_ok2 {src : Bytes} : ∀ {ls : List Segment}, LinesOK src ls →
    ∃ ls', trimLeftAll src ls = .ok ls' ∧ LinesOK src ls' ∧ Shrinks ls ls' ∧
      (∀ t ∈ ls', t.padding = 0 ∧ t.forceNewline = false) ∧
      ((∀ t ∈ ls, NonBlankSeg src t) → ∀ t ∈ ls', NonBlankSeg src t ∧ t.start < t.stop) := by
  intro ls
  induction ls with
  | nil => intro _; exact ⟨[], rfl, (fun _ h => by cases h), trivial, (fun _ h => by cases h), fun _ _ h => by cases h⟩
  | cons l ls ih =>
    intro h
    obtain ⟨t', ht, hok, hstop, hstart, hpad, hfn, hnb, _⟩ := trimLeftSpace_ok2 (h l (by simp))
    obtain ⟨ls', hls, hok', hsh, hpf, hnb'⟩ := ih (fun t ht => h t (by simp [ht]))
    unfold trimLeftAll
    rw [ht, hls]
    simp only [bind, Except.bind, pure, Except.pure]
    refine ⟨_, rfl, ?_, ⟨hstart, by rw [hstop]; exact Int.le_refl _, hsh⟩, ?_, ?_⟩
    · intro t ht
      simp only [List.mem_cons] at ht
      rcases ht with rfl | ht
      · exact hok
      · exact hok' t ht
    · intro t ht
      simp only [List.mem_cons] at ht
      rcases ht with rfl | ht
      · exact ⟨hpad, hfn⟩
      · exact hpf t ht
    · intro hall t ht
      simp only [List.mem_cons] at ht
      rcases ht with rfl | ht
      · exact hnb (hall l (by simp))
      · exact hnb' (fun u hu => hall u (by simp [hu])) t ht

/-! ### paragraphParser.Open -/

/-- the reader's segment, field by field -/
theorem seg_fields (src : Bytes) (c : RCur) :
    (RCur.seg src c).start = c.p ∧ (RCur.seg src c).stop = lineEnd src c.p ∧ (RCur.seg src c).padding = c.pad ∧
      (RCur.seg src c).forceNewline = false := ⟨rfl, rfl, rfl, rfl⟩

/-- the bytes of the reader's segment are the view without the virtual padding; a view that is not blank holds a
    source byte that is not white space -/
theorem seg_nonBlank_of_view (src : Bytes) (c : RCur) (hp : c.p < src.length)
    (hb : isBlank ((RCur.view src c).getD []) = false) : NonBlankSeg src (RCur.seg src c) := by
  rw [view_eq src c hp] at hb
  simp only [Option.getD_some, isBlank, List.all_append] at hb
  unfold NonBlankSeg isBlank
  have hs : (spaces c.pad).all isSpace = true := by
    simp only [spaces, List.all_eq_true, List.mem_replicate]
    rintro x ⟨_, rfl⟩
    decide
  rw [hs, Bool.true_and] at hb
  simpa [RCur.seg] using hb

/-- **paragraphParser.Open, the line it takes** (paragraph.go:24-34): on an `RI` reader it either builds nothing and
    leaves the cursor, or appends to the store a parentless Paragraph whose single line `seg` is the rest of the
    current source line behind its leading white space: `c.p ≤ seg.start < seg.stop = lineEnd src c.p`, padding 0,
    no ForceNewline, inside the source, holding a non-space byte. -/
theorem paragraphOpen_line {src} {s : St} {c : RCur} (h : RI src s.r c) (parent : Nat) :
    OKL (fun a s' => ∃ r' c', s'.r = r' ∧ RI src r' c' ∧ c.p ≤ c'.p ∧ s'.pc = s.pc ∧ a.2 = stNoChildren ∧
        ((a.1 = none ∧ s'.nodes = s.nodes ∧ c' = c) ∨
         (a.1 = some s.nodes.length ∧ ∃ nd seg, s'.nodes = s.nodes ++ [nd] ∧ nd.kind = .paragraph ∧
            nd.lines = [seg] ∧ SegOK src seg ∧ nd.parent = none ∧
            (c.p : Int) ≤ seg.start ∧ seg.start < seg.stop ∧ seg.stop = lineEnd src c.p ∧ seg.padding = 0 ∧
            seg.forceNewline = false ∧ NonBlankSeg src seg)))
      (paragraphOpen parent s) := by
  unfold paragraphOpen
  refine OKL.bind (peekLine_okl h) (fun x s1 hx => ?_)
  obtain ⟨hx, r1, hs1, h1⟩ := hx
  subst hx hs1
  simp only
  obtain ⟨t', ht, hok, hstop, hstart, hpad, hfn, _, hnbl⟩ := trimLeftSpace_ok2 (seg_ok src c h.inRange)
  refine OKL.bind (m := source) (P := fun v s' => v = src ∧ s' = { s with r := r1 }) (OKL.ok ⟨h1.source, rfl⟩) (fun v s2 hv => ?_)
  obtain ⟨hv, hs2⟩ := hv
  subst hs2
  rw [hv]
  refine OKL.bind (liftE_okl (P := fun a s' => a = t' ∧ s' = { s with r := r1 }) ht ⟨rfl, rfl⟩) (fun a s3 ha => ?_)
  obtain ⟨ha, hs3⟩ := ha
  subst ha hs3
  by_cases he : a.isEmpty = true
  · rw [if_pos he]
    exact OKL.ok ⟨r1, c, rfl, h1, Nat.le_refl _, rfl, rfl, .inl ⟨rfl, rfl, rfl⟩⟩
  · rw [if_neg he]
    have hne : a.start < a.stop := by
      unfold Segment.isEmpty at he
      simp only [hpad] at he
      have : ¬ (a.start ≥ a.stop) := by intro hh; apply he; simp [hh]
      omega
    have hlen : 0 ≤ a.len - 1 := by
      unfold Segment.len
      simp only [hpad]
      omega
    simp only [bind, StateT.bind, newNode, appendLine, modNode, pure, StateT.pure, Except.bind, Except.pure]
    have hadv := advance_okl (src := src)
      (s := { r := r1, nodes := (s.nodes ++ [({ kind := Kind.paragraph } : Node)]).set s.nodes.length
                ({ ((s.nodes ++ [({ kind := Kind.paragraph } : Node)]).getD s.nodes.length default) with
                    lines := ((s.nodes ++ [({ kind := Kind.paragraph } : Node)]).getD s.nodes.length default).lines ++ [a],
                    linesNil := false }), pc := s.pc }) (c := c) h1 hlen
    rcases hadv with ⟨_, s4, e4, r4, hs4, h4⟩ | e4
    · rw [e4]
      simp only
      refine OKL.ok ⟨r4, _, by rw [hs4], h4, (GM.Proof.Reader.advN_mono src _ c h.inRange).1, by rw [hs4], rfl, .inr ⟨rfl, ?_⟩⟩
      rw [hs4]
      simp only [getD_length_append, set_length_append]
      refine ⟨_, a, rfl, rfl, rfl, hok, rfl, ?_, hne, ?_, hpad, hfn, hnbl hne⟩
      · exact hstart
      · rw [hstop]; rfl
    · rw [e4]; exact .inr rfl

/-! ### paragraphParser.Continue -/

/-- **paragraphParser.Continue, the line it takes** (paragraph.go:36-44): `Close` with nothing changed, or the
    reader's own segment `[c.p, lineEnd src c.p)` (with the reader's padding) is appended to `node`; that line is not
    blank: it holds a source byte that is not white space, in particular it is not empty. -/
theorem paragraphContinue_line {src} {s : St} {c : RCur} (h : RI src s.r c) (node : Nat) :
    OKL (fun st s' => ∃ r' c', s'.r = r' ∧ RI src r' c' ∧ c.p ≤ c'.p ∧ s'.pc = s.pc ∧
        ((st = stClose ∧ s'.nodes = s.nodes ∧ c' = c) ∨
         (st = stContinueNoChildren ∧ c.p < src.length ∧ SegOK src (RCur.seg src c) ∧
            NonBlankSeg src (RCur.seg src c) ∧ (c.p : Int) < lineEnd src c.p ∧
            s'.nodes = s.nodes.set node
              { (s.nodes.getD node default) with
                  lines := (s.nodes.getD node default).lines ++ [RCur.seg src c], linesNil := false })))
      (paragraphContinue node s) := by
  unfold paragraphContinue
  refine OKL.bind (peekLine_okl h) (fun x s1 hx => ?_)
  obtain ⟨hx, r1, hs1, h1⟩ := hx
  subst hx hs1
  simp only
  by_cases hb : isBlank ((RCur.view src c).getD []) = true
  · rw [if_pos hb]
    exact OKL.ok ⟨r1, c, rfl, h1, Nat.le_refl _, rfl, .inl ⟨rfl, rfl, rfl⟩⟩
  · rw [if_neg hb]
    have hp : c.p < src.length := by
      rcases Nat.lt_or_ge c.p src.length with hp | hp
      · exact hp
      · rw [view_none src c (by omega)] at hb; simp [isBlank] at hb
    have hv := view_eq src c hp
    have hl := view_len src c hp hv
    have hl2 := view_length src c hp hv
    have hlen : 0 ≤ (RCur.seg src c).len - 1 := by omega
    have hnb : NonBlankSeg src (RCur.seg src c) := seg_nonBlank_of_view src c hp (by simpa using hb)
    have hlt : (c.p : Int) < lineEnd src c.p := by have := lt_lineEnd src hp; omega
    simp only [bind, StateT.bind, appendLine, modNode, pure, StateT.pure, Except.bind, Except.pure]
    have hadv := advance_okl (src := src)
      (s := { r := r1, nodes := s.nodes.set node
                { (s.nodes.getD node default) with
                    lines := (s.nodes.getD node default).lines ++ [RCur.seg src c], linesNil := false }, pc := s.pc })
      (c := c) h1 hlen
    rcases hadv with ⟨_, s4, e4, r4, hs4, h4⟩ | e4
    · rw [e4]
      simp only
      refine OKL.ok ⟨r4, _, by rw [hs4], h4, (GM.Proof.Reader.advN_mono src _ c h.inRange).1, by rw [hs4],
        .inr ⟨rfl, hp, seg_ok src c h.inRange, hnb, hlt, by rw [hs4]⟩⟩
    · rw [e4]; exact .inr rfl

/-! ### paragraphParser.Close -/

/-- **paragraphParser.Close, what it does to the lines** (paragraph.go:46-64): on a paragraph with ≥ 1 line, all
    inside the source, it touches neither reader nor context and replaces the line list by one of the same length in
    which every line is a sub-segment of the old one (`Shrinks`), inside the source, with padding 0 and without
    ForceNewline; if every old line held a byte that is not white space, every new line is a non-empty segment. -/
theorem paragraphClose_lines {src} {s : St} (node : Nat) (hsrc : s.r.source = src)
    (hl : LinesOK src (s.nodes.getD node default).lines) (hne : (s.nodes.getD node default).lines ≠ []) :
    OKL (fun _ s' => s'.r = s.r ∧ s'.pc = s.pc ∧ ∃ ls, LinesOK src ls ∧
        Shrinks (s.nodes.getD node default).lines ls ∧
        (∀ t ∈ ls, t.padding = 0 ∧ t.forceNewline = false) ∧
        ((∀ t ∈ (s.nodes.getD node default).lines, NonBlankSeg src t) → ∀ t ∈ ls, NonBlankSeg src t ∧ t.start < t.stop) ∧
        s'.nodes = s.nodes.set node { (s.nodes.getD node default) with lines := ls })
      (paragraphClose node s) := by
  have hlen : ((s.nodes.getD node default).lines.length != 0) = true := by
    cases hh : (s.nodes.getD node default).lines with
    | nil => exact absurd hh hne
    | cons a b => simp
  obtain ⟨ls', hls, hok', hsh, hpf, hnb⟩ := trimLeftAll_ok2 hl
  have hlen' := hsh.length
  have hpos : 0 < ls'.length := by
    rw [hlen']; cases hh : (s.nodes.getD node default).lines with
    | nil => exact absurd hh hne
    | cons a b => simp
  have hidx : ((ls'.length : Int) - 1).toNat < ls'.length := by omega
  have hat : lineAt ls' ((ls'.length : Int) - 1) = .ok (ls'[((ls'.length : Int) - 1).toNat]) := by
    unfold lineAt segAt
    have : ¬ ((ls'.length : Int) - 1 < 0) := by omega
    rw [if_neg this, List.getElem?_eq_getElem hidx]
  have hmem := List.getElem_mem hidx
  obtain ⟨t', ht, hokt, hst, hsp, hpd, hfn, hnbt⟩ := trimRightSpace_ok2 (hok' _ hmem)
  have hset : lineSet ls' ((ls'.length : Int) - 1) t' = .ok (ls'.set ((ls'.length : Int) - 1).toNat t') := by
    unfold lineSet
    rw [if_pos ⟨by omega, by omega⟩]
  have hls'' : LinesOK src (ls'.set ((ls'.length : Int) - 1).toNat t') := by
    intro t htm
    rcases List.mem_or_eq_of_mem_set htm with h1 | h1
    · exact hok' t h1
    · rw [h1]; exact hokt
  have hsh2 : Shrinks (s.nodes.getD node default).lines (ls'.set ((ls'.length : Int) - 1).toNat t') :=
    hsh.trans (Shrinks.set ls' _ t' hidx (by rw [hst]; exact Int.le_refl _) hsp)
  have hpf2 : ∀ t ∈ ls'.set ((ls'.length : Int) - 1).toNat t', t.padding = 0 ∧ t.forceNewline = false := by
    intro t htm
    rcases List.mem_or_eq_of_mem_set htm with h1 | h1
    · exact hpf t h1
    · rw [h1]; exact ⟨hpd (hpf _ hmem).1, hfn⟩
  have hnb2 : (∀ t ∈ (s.nodes.getD node default).lines, NonBlankSeg src t) →
      ∀ t ∈ ls'.set ((ls'.length : Int) - 1).toNat t', NonBlankSeg src t ∧ t.start < t.stop := by
    intro hall t htm
    rcases List.mem_or_eq_of_mem_set htm with h1 | h1
    · exact hnb hall t h1
    · rw [h1]; exact hnbt (hnb hall _ hmem).1
  unfold paragraphClose
  simp only [bind, StateT.bind, getNode, source, pure, StateT.pure, Except.bind, Except.pure, liftE, Except.map,
    hlen, if_true, hsrc, hls, hat, ht, hset, modNode]
  by_cases hnode : node < s.nodes.length
  · have hget : (s.nodes.set node { (s.nodes.getD node default) with lines := ls'.set ((ls'.length : Int) - 1).toNat t' }).getD node default
        = { (s.nodes.getD node default) with lines := ls'.set ((ls'.length : Int) - 1).toNat t' } := by
      simp [List.getD, List.getElem?_set, hnode]
    rw [hget]
    have hz : (((ls'.set ((ls'.length : Int) - 1).toNat t').length == 0) = false) := by
      rw [List.length_set]; exact beq_false_of_ne (by omega)
    simp only [hz, Bool.false_eq_true, if_false]
    exact OKL.ok ⟨rfl, rfl, _, hls'', hsh2, hpf2, hnb2, rfl⟩
  · exfalso
    have : s.nodes.getD node default = default := by
      simp [List.getD, List.getElem?_eq_none (Nat.le_of_not_lt hnode)]
    rw [this] at hne
    exact hne rfl

/-- **closed paragraphs are `WF0`**: a line list that increases from `lo ≥ 0`, lies inside the source and whose every
    line holds a non-space byte is, after the trims of `Close` (`Shrinks`, padding 0, no ForceNewline, non-empty
    segments), a `WF0` line list — what the inline phase assumes. -/
theorem wf0_of_closed {src : Bytes} {old new : List Segment} (hne : old ≠ []) (hord : OrdFrom 0 old)
    (hsh : Shrinks old new) (hok : LinesOK src new) (hpf : ∀ t ∈ new, t.padding = 0 ∧ t.forceNewline = false)
    (hlt : ∀ t ∈ new, t.start < t.stop) : WF0 src new := by
  refine (wf0_iff_parts src new).2 ⟨?_, OrdFrom.shrinks hsh hord, fun t ht => ⟨hlt t ht, (hok t ht).2.2.1, hpf t ht⟩⟩
  intro e
  have := hsh.length
  rw [e] at this
  exact hne (List.length_eq_zero_iff.1 this.symm)

end GM.Blocks
