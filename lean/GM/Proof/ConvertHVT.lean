/-
  GM.Proof.ConvertHVT — the monitored driver `runV` refines `runT`: when `runV` ends normally so does `runT`, in the same state;
  when `runV` ends in a panic, `runT` ends in the same panic, or the panic is the monitor's (`Segment.Value`: `slice` or
  `explicit`) — in particular never `pre` and never `loop` (`runV_error_pre`).
-/
import GM.Proof.ConvertHV
import GM.Proof.BlocksVPre

namespace GM.Blocks
open GM GM.Text

/-- the panics of `Segment.Value` -/
def VP (e : Panic) : Prop := e = .slice ∨ e = .explicit

def RMSim {α : Type} (x y : Except Panic (α × St)) : Prop :=
  match x with
  | .ok (a, s') => y = .ok (a, s')
  | .error e => y = .error e ∨ VP e

structure MSim {α : Type} (m m0 : M α) : Prop where
  h : ∀ s, RMSim (m s) (m0 s)

theorem MSim.rfl' {α} (m : M α) : MSim m m := ⟨fun s => by
  unfold RMSim; cases m s with
  | error e => exact Or.inl rfl
  | ok p => rfl⟩

theorem MSim.bind {α β} {m m0 : M α} {f f0 : α → M β} (hm : MSim m m0) (hf : ∀ a, MSim (f a) (f0 a)) :
    MSim (m >>= f) (m0 >>= f0) := by
  constructor
  intro s
  have h1 := hm.h s
  unfold RMSim at h1 ⊢
  rw [GM.ConvertH.m_bind_apply, GM.ConvertH.m_bind_apply]
  cases hx : m s with
  | error e =>
    rw [hx] at h1
    rcases h1 with h1 | h1
    · rw [h1]; exact Or.inl rfl
    · exact Or.inr h1
  | ok p =>
    obtain ⟨a, s'⟩ := p
    rw [hx] at h1
    rw [h1]
    exact (hf a).h s'

theorem MSim.ite {α} {c : Prop} [Decidable c] {a b a0 b0 : M α} (ha : MSim a a0) (hb : MSim b b0) :
    MSim (if c then a else b) (if c then a0 else b0) := by split <;> assumption

def MHook : Prop := ∀ bp node, MSim (bpCloseV bp node) (bpClose bp node)

theorem value_vp (t : Segment) (buf : Bytes) (e : Panic) (h : t.value buf = .error e) : VP e := by
  unfold Segment.value at h
  have hs : ∀ x, sliceB buf t.start t.stop = .error x → x = .slice := by
    intro x hx; unfold sliceB at hx; split at hx <;> cases hx; rfl
  split at h
  · cases hsl : sliceB buf t.start t.stop with
    | error x => rw [hsl] at h; simp only [bind, Except.bind] at h; cases h; exact Or.inl (hs _ hsl)
    | ok r => rw [hsl] at h; simp only [bind, Except.bind] at h; split at h <;> cases h
  · simp only [bind, Except.bind, throw, throwThe, MonadExceptOf.throw] at h
    split at h
    · cases h; exact Or.inr rfl
    · simp only [pure, Except.pure] at h
      split at h
      · cases h; exact Or.inr rfl
      · cases hsl : sliceB buf t.start t.stop with
        | error x => rw [hsl] at h; simp only at h; cases h; exact Or.inl (hs _ hsl)
        | ok r => rw [hsl] at h; simp only at h; split at h <;> cases h

theorem mhook : MHook := by
  intro bp node
  constructor
  intro s
  unfold bpCloseV
  rw [GM.ConvertH.m_bind_apply]
  cases hc : bpClose bp node s with
  | error e => exact Or.inl rfl
  | ok p =>
    obtain ⟨⟨⟩, s1⟩ := p
    dsimp only
    cases hp : GM.ConvertH.BP.isHeadingParser bp with
    | false => simp only [Bool.false_eq_true, if_false]; rfl
    | true =>
      simp only [if_true]
      rw [valueCheck_eq]
      cases hl : (s1.nodes.getD node default).lines.getLast? with
      | none => rfl
      | some seg =>
        dsimp only
        cases hv : seg.value s1.r.source with
        | error x => exact Or.inr (value_vp _ _ _ hv)
        | ok v => rfl

open Lean Elab Tactic Meta in
/-- when the `MH` side of an `HSim` goal is a `match` on a term that is not a variable, generalise that term in the whole
    goal (both sides match on it), so that `split` analyses both sides at once -/
elab "gen_discr_m" : tactic => do
  let g ← getMainGoal
  g.withContext do
    let t ← instantiateMVars (← g.getType)
    let args := t.getAppArgs
    if args.size < 3 then throwError "not an MSim goal"
    let m := args[1]!
    let env ← getEnv
    -- a discriminant (closed w.r.t. bound variables, not a variable) of some `match` inside the `MH` program
    let cand : Option Expr := (m.find? fun e =>
      if isMatcherAppCore env e then
        match e.getAppFn.constName? >>= fun n => (getMatcherInfoCore? env n) with
        | some info =>
          let as := e.getAppArgs
          (List.range info.numDiscrs).any fun i =>
            match as[info.numParams + 1 + i]? with
            | some d => !d.isFVar && !d.hasLooseBVars
            | none => false
        | none => false
      else false)
    let some e := cand | throwError "no match on a non-variable"
    let some info := e.getAppFn.constName? >>= fun n => (getMatcherInfoCore? env n) | throwError "no matcher info"
    let as := e.getAppArgs
    for i in List.range info.numDiscrs do
      match as[info.numParams + 1 + i]? with
      | some d =>
        if !d.isFVar && !d.hasLooseBVars then
          let (_, g') ← g.generalize #[{ expr := d }]
          replaceMainGoal [g']
          return
      | none => pure ()
    throwError "no discriminant"


macro "msim_step" : tactic =>
  `(tactic| first
    | apply_hyp
    | with_reducible exact MSim.rfl' _
    | with_reducible apply MSim.bind
    | with_reducible apply MSim.ite
    | intro _
    | gen_discr_m
    | split)

macro "msim" : tactic => `(tactic| repeat' msim_step)

section driver
variable (hook : MHook) (pts : List PT)
include hook

theorem closeLoopV_msim (blocks : List Block) (to : Int) (k : Nat) :
    MSim (closeLoopV pts blocks to k) (closeLoopT pts blocks to k) := by
  have hk : ∀ bp node, MSim (bpCloseV bp node) (bpClose bp node) := hook
  induction k with
  | zero => unfold closeLoopV closeLoopT; msim
  | succ k ih => unfold closeLoopV closeLoopT; msim

theorem closeBlocksV_msim (frm to : Int) :
    MSim (closeBlocksV pts frm to) (closeBlocksT pts frm to) := by
  have := closeLoopV_msim hook pts
  unfold closeBlocksV closeBlocksT; msim

theorem requireParaV_msim (parent : Nat) (last : Option Nat) (lastBlock : Option Block) :
    MSim (requireParaV pts parent last lastBlock) (requireParaT pts parent last lastBlock) := by
  have hk : ∀ bp node, MSim (bpCloseV bp node) (bpClose bp node) := hook
  unfold requireParaV requireParaT; msim

theorem tryParsersV_msim (parent : Nat) (blankLine continuable : Bool) (w : Int) (bps : List BP)
    (result : OpenResult) (lastBlock : Option Block) :
    MSim (tryParsersV pts parent blankLine continuable w bps result lastBlock)
      (tryParsersT pts parent blankLine continuable w bps result lastBlock) := by
  have := requireParaV_msim hook pts
  have := closeBlocksV_msim hook pts
  induction bps generalizing result lastBlock with
  | nil => unfold tryParsersV tryParsersT; msim
  | cons bp bps ih => unfold tryParsersV tryParsersT; msim

theorem retryStepV_msim (blankLine tdone continuable : Bool) (parent : Nat) (w : Int) (bps : List BP)
    (result : OpenResult) (lastBlock : Option Block)
    (againV : Bool → Bool → Nat → OpenResult → Option Block → M OpenResult)
    (againT : Bool → Bool → Nat → OpenResult → Option Block → M OpenResult)
    (ha : ∀ a b c d e, MSim (againV a b c d e) (againT a b c d e)) :
    MSim (retryStepV pts blankLine tdone continuable parent w bps result lastBlock againV)
      (retryStepT pts blankLine tdone continuable parent w bps result lastBlock againT) := by
  have := tryParsersV_msim hook pts
  unfold retryStepV retryStepT; msim

theorem openBlocksLoopV_msim (blankLine : Bool) (fuel : Nat) (tdone continuable : Bool) (parent : Nat)
    (result : OpenResult) (lastBlock : Option Block) :
    MSim (openBlocksLoopV pts blankLine fuel tdone continuable parent result lastBlock)
      (openBlocksLoopT pts blankLine fuel tdone continuable parent result lastBlock) := by
  induction fuel generalizing tdone continuable parent result lastBlock with
  | zero => unfold openBlocksLoopV openBlocksLoopT; msim
  | succ fuel ih =>
    have := retryStepV_msim hook pts
    unfold openBlocksLoopV openBlocksLoopT; msim

theorem openBlocksV_msim (parent : Nat) (blankLine : Bool) :
    MSim (openBlocksV pts parent blankLine) (openBlocksT pts parent blankLine) := by
  have := openBlocksLoopV_msim hook pts
  unfold openBlocksV openBlocksT; msim

theorem lineLoopV_msim (parent : Nat) (openedBlocks : List Block) (lastIndex : Int) (rest : List Block) (i : Int)
    (blankLines : List LineStat) :
    MSim (lineLoopV pts parent openedBlocks lastIndex rest i blankLines)
      (lineLoopT pts parent openedBlocks lastIndex rest i blankLines) := by
  have := closeBlocksV_msim hook pts
  have := openBlocksV_msim hook pts
  induction rest generalizing i blankLines with
  | nil => unfold lineLoopV lineLoopT; msim
  | cons be rest ih => unfold lineLoopV lineLoopT; msim

theorem linesLoopV_msim (parent : Nat) (fuel : Nat) (blankLines : List LineStat) :
    MSim (linesLoopV pts parent fuel blankLines) (linesLoopT pts parent fuel blankLines) := by
  have := lineLoopV_msim hook pts
  induction fuel generalizing blankLines with
  | zero => unfold linesLoopV linesLoopT; msim
  | succ fuel ih => unfold linesLoopV linesLoopT; msim

theorem blocksLoopV_msim (parent : Nat) (fuel : Nat) (blankLines : List LineStat) :
    MSim (blocksLoopV pts parent fuel blankLines) (blocksLoopT pts parent fuel blankLines) := by
  have := openBlocksV_msim hook pts
  have := linesLoopV_msim hook pts
  induction fuel generalizing blankLines with
  | zero => unfold blocksLoopV blocksLoopT; msim
  | succ fuel ih => unfold blocksLoopV blocksLoopT; msim

theorem parseBlocksV_msim (parent : Nat) :
    MSim (parseBlocksV pts parent) (parseBlocksT pts parent) := by
  have := blocksLoopV_msim hook pts
  unfold parseBlocksV parseBlocksT; msim

end driver

theorem runV_refines (pts : List PT) (src : Bytes) :
    match runV pts src with
    | .ok st => runT pts src = .ok st
    | .error e => runT pts src = .error e ∨ VP e := by
  have := (parseBlocksV_msim mhook pts 0).h (initSt src)
  unfold RMSim at this
  unfold runV runT
  cases hx : parseBlocksV pts 0 (initSt src) with
  | error e =>
    rw [hx] at this
    simp only [Except.map]
    rcases this with h | h
    · rw [h]; exact Or.inl rfl
    · exact Or.inr h
  | ok p =>
    obtain ⟨a, s'⟩ := p
    rw [hx] at this
    simp only [Except.map]
    rw [this]

theorem runV_error_pre (pts : List PT) (src : Bytes) (h : runV pts src = .error .pre) : runT pts src = .error .pre := by
  have := runV_refines pts src
  rw [h] at this
  rcases this with h1 | h1
  · exact h1
  · rcases h1 with h1 | h1 <;> cases h1

end GM.Blocks
