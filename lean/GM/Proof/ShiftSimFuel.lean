/-
  Fuel stability of `treeOf` for stores whose child links point downwards, and the algebra of segment moves
  on trees (`Tree.mapSegs (moveSeg k)`): composition and the zero move.
-/
import GM.Model.Blocks.Indep

namespace GM.Blocks.Sh
open GM GM.Text GM.Blocks

/-! ### 1. fuel stability of `treeOf` -/

theorem fu_default_children : (default : Node).children = [] := rfl

theorem fu_getD_default {nodes : List Node} {id : Nat} (h : nodes.length ≤ id) :
    nodes.getD id default = default := by
  simp [List.getD, List.getElem?_eq_none h]

theorem fu_treeOf_leaf {nodes : List Node} {id : Nat} (h : (nodes.getD id default).children = []) :
    ∀ f : Nat, treeOf nodes f id = .node (nodes.getD id default) []
  | 0 => rfl
  | f + 1 => by simp only [treeOf, h, List.map]

theorem fu_map_congr {α β : Type} {g g' : α → β} : ∀ (l : List α), (∀ a, a ∈ l → g a = g' a) → l.map g = l.map g'
  | [], _ => rfl
  | a :: l, h => by
    simp only [List.map]
    rw [h a (List.mem_cons_self), fu_map_congr l (fun b hb => h b (List.mem_cons_of_mem _ hb))]

theorem treeOf_stable {nodes : List Node} (h : ∀ j c, c ∈ (nodes.getD j default).children → j < c) :
    ∀ (f f' id : Nat), nodes.length ≤ f + id → nodes.length ≤ f' + id →
      treeOf nodes f id = treeOf nodes f' id := by
  intro f
  induction f with
  | zero =>
    intro f' id h1 _
    have hd : (nodes.getD id default).children = [] := by
      rw [fu_getD_default (by omega)]; rfl
    rw [fu_treeOf_leaf hd, fu_treeOf_leaf hd]
  | succ f ih =>
    intro f' id h1 h2
    cases f' with
    | zero =>
      have hd : (nodes.getD id default).children = [] := by
        rw [fu_getD_default (by omega)]; rfl
      rw [fu_treeOf_leaf hd, fu_treeOf_leaf hd]
    | succ f' =>
      simp only [treeOf]
      congr 1
      apply fu_map_congr
      intro c hc
      have := h id c hc
      exact ih f' c (by omega) (by omega)

theorem treeOf_root_stable {nodes : List Node} (h : ∀ j c, c ∈ (nodes.getD j default).children → j < c)
    (f : Nat) (hf : nodes.length ≤ f) : treeOf nodes f 0 = treeOf nodes nodes.length 0 :=
  treeOf_stable h f nodes.length 0 (by omega) (by omega)

theorem treeOf_child_stable {nodes : List Node} (h : ∀ j c, c ∈ (nodes.getD j default).children → j < c)
    (f c : Nat) (hc : 1 ≤ c) (hf : nodes.length - 1 ≤ f) :
    treeOf nodes f c = treeOf nodes (nodes.length - 1) c :=
  treeOf_stable h f (nodes.length - 1) c (by omega) (by omega)

/-! ### 2. composition of segment moves -/

theorem fu_moveSeg_comp (a b : Int) (s : Segment) : moveSeg a (moveSeg b s) = moveSeg (a + b) s := by
  cases s
  simp only [moveSeg, Segment.mk.injEq, and_true]
  constructor <;> omega

theorem fu_moveSeg_zero (s : Segment) : moveSeg 0 s = s := by
  cases s
  simp [moveSeg]

theorem fu_moveSeg_start (k : Int) (s : Segment) : (moveSeg k s).start = s.start + k := rfl

theorem fu_map_moveSeg_comp (a b : Int) : ∀ l : List Segment,
    (l.map (moveSeg b)).map (moveSeg a) = l.map (moveSeg (a + b))
  | [] => rfl
  | s :: l => by simp only [List.map, fu_moveSeg_comp, fu_map_moveSeg_comp a b l]

theorem fu_omap_moveSeg_comp (a b : Int) : ∀ o : Option Segment,
    (o.map (moveSeg b)).map (moveSeg a) = o.map (moveSeg (a + b))
  | none => rfl
  | some s => by simp only [Option.map, fu_moveSeg_comp]

theorem fu_closure_comp (d1 d2 : Int) (h2 : 0 ≤ d2) (c : Segment) :
    (if (if c.start < 0 then c else moveSeg d2 c).start < 0 then (if c.start < 0 then c else moveSeg d2 c)
      else moveSeg d1 (if c.start < 0 then c else moveSeg d2 c))
    = (if c.start < 0 then c else moveSeg (d1 + d2) c) := by
  by_cases hc : c.start < 0
  · simp only [hc, if_true]
  · have : ¬ (moveSeg d2 c).start < 0 := by rw [fu_moveSeg_start]; omega
    simp only [hc, if_false, this, fu_moveSeg_comp]

mutual
  theorem mapSegs_moveSeg_comp (d1 d2 : Int) (h2 : 0 ≤ d2) : ∀ t : Tree,
      (t.mapSegs (moveSeg d2)).mapSegs (moveSeg d1) = t.mapSegs (moveSeg (d1 + d2))
    | .node n cs => by
      simp only [Tree.mapSegs, fu_map_moveSeg_comp, fu_omap_moveSeg_comp, fu_closure_comp d1 d2 h2,
        mapSegsL_moveSeg_comp d1 d2 h2 cs]
  theorem mapSegsL_moveSeg_comp (d1 d2 : Int) (h2 : 0 ≤ d2) : ∀ ts : List Tree,
      Tree.mapSegsL (moveSeg d1) (Tree.mapSegsL (moveSeg d2) ts) = Tree.mapSegsL (moveSeg (d1 + d2)) ts
    | [] => by simp only [Tree.mapSegsL]
    | t :: ts => by
      simp only [Tree.mapSegsL, mapSegs_moveSeg_comp d1 d2 h2 t, mapSegsL_moveSeg_comp d1 d2 h2 ts]
end

/-! ### 3. the zero move -/

theorem fu_map_moveSeg_zero : ∀ l : List Segment, l.map (moveSeg 0) = l
  | [] => rfl
  | s :: l => by simp only [List.map, fu_moveSeg_zero, fu_map_moveSeg_zero l]

theorem fu_omap_moveSeg_zero : ∀ o : Option Segment, o.map (moveSeg 0) = o
  | none => rfl
  | some s => by simp only [Option.map, fu_moveSeg_zero]

mutual
  theorem mapSegs_zero : ∀ t : Tree, t.mapSegs (moveSeg 0) = t
    | .node n cs => by
      simp only [Tree.mapSegs, fu_map_moveSeg_zero, fu_omap_moveSeg_zero, fu_moveSeg_zero, ite_self,
        mapSegsL_zero cs]
  theorem mapSegsL_zero : ∀ ts : List Tree, Tree.mapSegsL (moveSeg 0) ts = ts
    | [] => by simp only [Tree.mapSegsL]
    | t :: ts => by simp only [Tree.mapSegsL, mapSegs_zero t, mapSegsL_zero ts]
end

end GM.Blocks.Sh
