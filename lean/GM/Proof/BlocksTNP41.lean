/-
  GM.Proof.BlocksTNP41 — a STORE-LEVEL sufficient condition for `escOrd` of the tree read out of the node store
  (GM.Proof.BlocksTNP40): a labelling of the node ids by source spans `[lo id, hi id)` such that what a node records itself
  ascends inside its span and before the spans of its children, the children's spans are nested in the node's span and
  follow each other in child order (`SpanOK`). `escOrd_treeOf`: then `escOrd src (treeOf nodes fuel id)` for every fuel and id —
  the invariant a walk of the block driver has to establish ("tables appear in source order") in order to close
  `blockPhaseX_esc_ascending` through `blockPhaseX_esc_ascending_of`.
-/
import GM.Proof.BlocksTNP40

namespace GM.Blocks.TP4
open GM GM.Text GM.Blocks GM.TableX

structure SpanOK (src : Bytes) (nodes : List Node) (lo hi : Nat → Int) : Prop where
  own : ∀ id, (ownEsc src (nodes.getD id default)).Pairwise (· < ·) ∧
    ∀ x ∈ ownEsc src (nodes.getD id default), lo id ≤ x ∧ x < hi id
  ownKids : ∀ id c, c ∈ (nodes.getD id default).children → ∀ x ∈ ownEsc src (nodes.getD id default), x < lo c
  nest : ∀ id c, c ∈ (nodes.getD id default).children → lo id ≤ lo c ∧ hi c ≤ hi id
  sib : ∀ id, (nodes.getD id default).children.Pairwise (fun a b => hi a ≤ lo b)

theorem escOrdL_map {src : Bytes} {lo hi : Nat → Int} (f : Nat → Tree)
    (hf : ∀ c, (∀ x ∈ escOfTree src (f c), lo c ≤ x ∧ x < hi c) ∧ escOrd src (f c)) :
    ∀ l : List Nat, l.Pairwise (fun a b => hi a ≤ lo b) →
      (∀ x ∈ escOfTrees src (l.map f), ∃ c ∈ l, lo c ≤ x ∧ x < hi c) ∧ escOrdL src (l.map f)
  | [], _ => by
    simp only [List.map_nil]
    unfold escOfTrees escOrdL
    exact ⟨(fun _ h => by cases h), trivial⟩
  | a :: rest, hp => by
    obtain ⟨h1, h2⟩ := List.pairwise_cons.1 hp
    obtain ⟨ihb, iho⟩ := escOrdL_map f hf rest h2
    simp only [List.map_cons]
    unfold escOfTrees escOrdL
    refine ⟨fun x hx => ?_, (hf a).2, iho, fun x hx y hy => ?_⟩
    · rcases List.mem_append.1 hx with h | h
      · exact ⟨a, by simp, (hf a).1 x h⟩
      · obtain ⟨c, hc, hb⟩ := ihb x h
        exact ⟨c, by simp [hc], hb⟩
    · obtain ⟨c, hc, hb⟩ := ihb y hy
      have := ((hf a).1 x hx).2
      have := h1 c hc
      omega

theorem escOrd_treeOf {src : Bytes} {nodes : List Node} {lo hi : Nat → Int} (h : SpanOK src nodes lo hi) :
    ∀ (fuel id : Nat), (∀ x ∈ escOfTree src (treeOf nodes fuel id), lo id ≤ x ∧ x < hi id) ∧
      escOrd src (treeOf nodes fuel id)
  | 0, id => by
    unfold treeOf escOfTree escOrd
    unfold escOfTrees escOrdL
    refine ⟨fun x hx => ?_, (h.own id).1, before_nil_right _, trivial⟩
    rw [List.append_nil] at hx
    exact (h.own id).2 x hx
  | fuel + 1, id => by
    obtain ⟨hb, ho⟩ := escOrdL_map (src := src) (lo := lo) (hi := hi) (treeOf nodes fuel)
      (fun c => escOrd_treeOf h fuel c) (nodes.getD id default).children (h.sib id)
    unfold treeOf escOfTree escOrd
    refine ⟨fun x hx => ?_, (h.own id).1, fun x hx y hy => ?_, ho⟩
    · rcases List.mem_append.1 hx with h1 | h1
      · exact (h.own id).2 x h1
      · obtain ⟨c, hc, hbb⟩ := hb x h1
        have := h.nest id c hc
        omega
    · obtain ⟨c, hc, hbb⟩ := hb y hy
      have := h.ownKids id c hc x hx
      omega

/-- goal (2) from a span labelling of the final store -/
theorem blockPhaseX_esc_ascending_of_spans (c : GM.ConvertX.GCfg) (src : Bytes) (st : St)
    (hS : c.base.table = true → ∃ lo hi, SpanOK src st.nodes lo hi) :
    (if c.base.table then escOfTree src (treeOf st.nodes st.nodes.length 0) else []).Pairwise (· < ·) :=
  blockPhaseX_esc_ascending_of c src st (fun hc => by
    obtain ⟨lo, hi, h⟩ := hS hc
    exact (escOrd_treeOf h st.nodes.length 0).2)

end GM.Blocks.TP4
