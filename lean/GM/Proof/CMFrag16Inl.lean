/-
  GM.Proof.CMFrag16Inl — stage 16: the inline phase on a paragraph of rich lines with inline links `[t](d)`.
  The link parser at `[` (label opener) and at `](d)` (the Link around the text behind the opener); text + link =
  two passes through `retry:`; lines, paragraphs, `parseBlock_rich16`, `inlineTrees_rich16`.
-/
import GM.Proof.CMFrag16Defs
import GM.Proof.CMFrag11Inl

namespace GM.Proof.CMFrag
open GM GM.Text GM.Inl

set_option maxRecDepth 1000000 in
theorem dest_facts16 : ∀ c : UInt8, isDestC16 c = true →
    (c == 92) = false ∧ (c == 40) = false ∧ (c == 41) = false ∧ (c == 60) = false ∧ isSpace c = false := by
  apply forall_uint8_11
  decide

theorem destPlain_dest16 (rest : Bytes) : ∀ (d : Bytes) (i : Nat), (∀ c ∈ d, isDestC16 c = true) →
    destPlain (d ++ 41 :: rest) i 0 = i + d.length
  | [], i, _ => by
    rw [List.nil_append]; unfold destPlain
    simp
  | c :: d, i, h => by
    obtain ⟨h92, h40, h41, _, hs⟩ := dest_facts16 c (h c (by simp))
    rw [List.cons_append]; unfold destPlain
    simp only [h92, h40, h41, hs, Bool.false_eq_true, if_false]
    rw [destPlain_dest16 rest d (i + 1) (fun x hx => h x (by simp [hx]))]
    simp only [List.length_cons]; omega

theorem destOpened_dest16 (rest : Bytes) : ∀ (d : Bytes), (∀ c ∈ d, isDestC16 c = true) →
    destOpened (d ++ 41 :: rest) 0 = -1
  | [], _ => by
    rw [List.nil_append]; unfold destOpened
    simp
  | c :: d, h => by
    obtain ⟨h92, h40, h41, _, hs⟩ := dest_facts16 c (h c (by simp))
    rw [List.cons_append]; unfold destOpened
    simp only [h92, h40, h41, hs, Bool.false_eq_true, if_false]
    exact destOpened_dest16 rest d (fun x hx => h x (by simp [hx]))

theorem skipSpaces_none16 (rd : BlockReader) (c : UInt8) (l : Bytes) (seg : Segment) (chars : Int)
    (hp : rd.peekLine = .ok ((some (c :: l), seg), rd)) (hs : isSpace c = false) :
    ∃ r, skipSpaces blockOps (rdFuel rd) chars rd = .ok (r, rd) := by
  have : rdFuel rd = (rdFuel rd - 1) + 1 := by unfold rdFuel loopFuel; omega
  rw [this, skipSpaces]
  simp only [blockOps, hp, bind, Except.bind, skipSpacesLine, hs, Bool.false_eq_true, if_false, pure, Except.pure]
  exact ⟨_, rfl⟩


theorem peek_at16 (src : Bytes) (segs : List Segment) (L j a b hd : Int) (c : UInt8) (hj : j < segs.length)
    (h0 : 0 ≤ a) (haL : a < L) (hg : getByte src a = .ok c) :
    (rdAt src segs L j { start := a, stop := b } hd).peek = .ok c := by
  have hlive : (rdAt src segs L j { start := a, stop := b } hd).live = true := by
    simp [BlockReader.live, rdAt, hj, h0, haL]
  unfold BlockReader.peek
  rw [hlive]
  simp only [rdAt, if_true, hg]
  rfl

theorem parseLinkDestination16 (src : Bytes) (segs : List Segment) (L j hd : Int) (a : Nat) (d rest : Bytes) (e : Int)
    (he : e = (a : Int) + d.length + 1 + rest.length) (hj : j < segs.length)
    (hlen : a + d.length + 1 + rest.length ≤ src.length) (hL : e ≤ L)
    (hsub : sub src a (a + (d.length + 1 + rest.length)) = d ++ 41 :: rest)
    (hd0 : d ≠ []) (hdc : ∀ c ∈ d, isDestC16 c = true) :
    parseLinkDestination (rdAt src segs L j { start := a, stop := e } hd) =
      .ok (some d, rdAt src segs L j { start := (a : Int) + d.length, stop := e } hd) := by
  have hdl : 0 < d.length := List.length_pos_iff.mpr hd0
  obtain ⟨c0, d', rfl⟩ : ∃ c0 d', d = c0 :: d' := by
    cases d with
    | nil => exact absurd rfl hd0
    | cons x xs => exact ⟨x, xs, rfl⟩
  obtain ⟨_, _, _, h60, hs0⟩ := dest_facts16 c0 (hdc c0 (by simp))
  have hp := peekLine_at8 src segs L j a e hd hj (by omega) (by omega) (by omega) (by omega)
  have t1 : ((a : Int)).toNat = a := by omega
  have t2 : e.toNat = a + ((c0 :: d').length + 1 + rest.length) := by omega
  rw [t1, t2, hsub] at hp
  obtain ⟨r, hsk⟩ := skipSpaces_none16 _ c0 (d' ++ 41 :: rest) _ 0 hp hs0
  have hpk := peek_at16 src segs L j a e hd c0 hj (by omega) (by omega)
    (getByte8 src a a ((c0 :: d').length + 1 + rest.length) 0 _ c0 hsub (by omega) (by simp) (by omega))
  unfold parseLinkDestination
  simp only [hsk, bind, Except.bind, hp, Option.getD_some, hpk, h60, Bool.false_eq_true, if_false]
  have hdp := destPlain_dest16 rest (c0 :: d') 0 hdc
  have hdo := destOpened_dest16 rest (c0 :: d') hdc
  have hdo' : ¬ (destOpened (c0 :: d' ++ 41 :: rest) 0 > 0) := by rw [hdo]; decide
  rw [if_neg hdo']
  rw [hdp, advance_fast _ _ _ _ _ _ _ _ (by omega)]
  simp [pure, Except.pure]


/-- no delimiter and no label among the children -/
def NoDL16 (ks : List Inl.Node) : Prop := ∀ n ∈ ks, n.isDelim = false ∧ n.isLabel = false

theorem splitFirstLabel_none16 : ∀ (l : List Inl.Node), (∀ n ∈ l, n.isLabel = false) → splitFirstLabel l = none
  | [], _ => rfl
  | n :: rest, h => by
    have ih := splitFirstLabel_none16 rest (fun x hx => h x (by simp [hx]))
    have hn := h n (by simp)
    cases n <;> simp [Node.isLabel] at hn <;> simp [splitFirstLabel, ih]

theorem splitLastLabel_tail16 (pre : List Inl.Node) (id : Nat) (seg : Segment) (im : Bool) (t : Inl.Node)
    (ht : t.isLabel = false) :
    splitLastLabel (pre ++ [.label id seg im, t]) = some (pre, (id, seg, im), [t]) := by
  unfold splitLastLabel
  cases t <;> simp [Node.isLabel] at ht <;> simp [List.reverse_append, splitFirstLabel]

theorem labelLen_none16 (pre : List Inl.Node) (h : NoDL16 pre) : labelLen pre = 0 := by
  unfold labelLen
  rw [splitFirstLabel_none16 pre (fun n hn => (h n hn).2)]

theorem processLinkLabel16 (rd : BlockReader) (pre : List Inl.Node) (lid : Nat) (lseg tseg : Segment) (nid : Nat)
    (b : Bottom) (bts : List Bottom) (h : NoDL16 pre) :
    processLinkLabel { rd := rd, kids := pre ++ [.label lid lseg false, .text tseg false false false], nextId := nid,
                       bottoms := b :: bts } =
      .ok ([.text tseg false false false],
        { rd := rd, kids := pre ++ [.label lid lseg false], nextId := nid, bottoms := bts }) := by
  have hnd : ∀ n ∈ pre ++ [Inl.Node.label lid lseg false, .text tseg false false false], n.isDelim = false := by
    intro n hn
    simp only [List.mem_append, List.mem_cons, List.not_mem_nil, or_false] at hn
    rcases hn with hn | rfl | rfl
    · exact (h n hn).1
    · rfl
    · rfl
  unfold processLinkLabel
  simp only [popBottom, splitLastLabel_tail16 pre lid lseg false (.text tseg false false false) rfl]
  have hpd : processDelimiters b (pre ++ [Inl.Node.label lid lseg false, .text tseg false false false]) =
      .ok (pre ++ [Inl.Node.label lid lseg false, .text tseg false false false]) := by
    unfold processDelimiters
    rw [splitLastDelim_noDelim11 _ hnd]
  simp [hasLabelL, hasLabel, hpd, splitLastLabel_tail16 pre lid lseg false (.text tseg false false false) rfl,
    Node.isDelim]


/-! ### the reader inside a line, positions as natural numbers -/

/-- the bytes `line` stand at offset `a` of the source and reach to the end `e` of the reader's current line -/
def At16 (src : Bytes) (L : Int) (a : Nat) (e : Int) (line : Bytes) : Prop :=
  sub src a (a + line.length) = line ∧ a + line.length ≤ src.length ∧ e = ((a + line.length : Nat) : Int) ∧ e ≤ L

theorem At16.drop {src : Bytes} {L : Int} {a : Nat} {e : Int} (x y : Bytes) (h : At16 src L a e (x ++ y)) :
    At16 src L (a + x.length) e y := by
  obtain ⟨h1, h2, h3, h4⟩ := h
  refine ⟨?_, ?_, ?_, h4⟩
  · exact sub_mid8 src a x y [] (by simpa using h1)
  · simp at h2; omega
  · rw [h3]; simp; omega

theorem peekLine_at16 (src : Bytes) (segs : List Segment) (L j hd : Int) (a : Nat) (e : Int) (c : UInt8) (l : Bytes)
    (h : At16 src L a e (c :: l)) (hj : j < segs.length) :
    (rdAt src segs L j { start := a, stop := e } hd).peekLine =
      .ok ((some (c :: l), { start := a, stop := e }), rdAt src segs L j { start := a, stop := e } hd) := by
  obtain ⟨h1, h2, h3, h4⟩ := h
  simp only [List.length_cons] at h2 h3
  have hp := peekLine_at8 src segs L j a e hd hj (by omega) (by omega) (by omega) (by omega)
  have t1 : ((a : Int)).toNat = a := by omega
  have t2 : e.toNat = a + (c :: l).length := by simp only [List.length_cons]; omega
  rw [t1, t2, h1] at hp
  exact hp

theorem peekByte_at16 (src : Bytes) (segs : List Segment) (L j hd : Int) (a : Nat) (e : Int) (c : UInt8) (l : Bytes)
    (h : At16 src L a e (c :: l)) (hj : j < segs.length) :
    (rdAt src segs L j { start := a, stop := e } hd).peek = .ok c := by
  obtain ⟨h1, h2, h3, h4⟩ := h
  simp only [List.length_cons] at h2 h3
  exact peek_at16 src segs L j a e hd c hj (by omega) (by omega)
    (getByte8 src a a (c :: l).length 0 _ c h1 (by simp) (by simp) (by omega))

theorem advance_at16 (src : Bytes) (segs : List Segment) (L j hd : Int) (a : Nat) (e : Int) (line : Bytes)
    (h : At16 src L a e line) (n : Nat) (hn : n < line.length) :
    (rdAt src segs L j { start := a, stop := e } hd).advance (n : Int) =
      .ok (rdAt src segs L j { start := ((a + n : Nat) : Int), stop := e } hd) := by
  obtain ⟨h1, h2, h3, h4⟩ := h
  rw [advance_fast _ _ _ _ _ _ _ _ (by omega), Int.natCast_add]

theorem advance1_at16 (src : Bytes) (segs : List Segment) (L j hd : Int) (a : Nat) (e : Int) (line : Bytes)
    (h : At16 src L a e line) (hn : 1 < line.length) :
    (rdAt src segs L j { start := a, stop := e } hd).advance 1 =
      .ok (rdAt src segs L j { start := ((a + 1 : Nat) : Int), stop := e } hd) :=
  advance_at16 src segs L j hd a e line h 1 hn

theorem skipSpaces_at16 (src : Bytes) (segs : List Segment) (L j hd : Int) (a : Nat) (e : Int) (c : UInt8) (l : Bytes)
    (h : At16 src L a e (c :: l)) (hj : j < segs.length) (hs : isSpace c = false) (chars : Int) :
    ∃ r, skipSpaces blockOps (rdFuel (rdAt src segs L j { start := a, stop := e } hd)) chars
      (rdAt src segs L j { start := a, stop := e } hd) = .ok (r, rdAt src segs L j { start := a, stop := e } hd) :=
  skipSpaces_none16 _ c l _ chars (peekLine_at16 src segs L j hd a e c l h hj) hs


theorem parseLinkDestination_at16 (src : Bytes) (segs : List Segment) (L j hd : Int) (a : Nat) (d rest : Bytes) (e : Int)
    (h : At16 src L a e (d ++ 41 :: rest)) (hj : j < segs.length)
    (hd0 : d ≠ []) (hdc : ∀ c ∈ d, isDestC16 c = true) :
    parseLinkDestination (rdAt src segs L j { start := a, stop := e } hd) =
      .ok (some d, rdAt src segs L j { start := ((a + d.length : Nat) : Int), stop := e } hd) := by
  obtain ⟨h1, h2, h3, h4⟩ := h
  simp only [List.length_append, List.length_cons] at h1 h2 h3
  rw [Int.natCast_add]
  exact parseLinkDestination16 src segs L j hd a d rest e (by omega) hj (by omega) h4
    (by rw [← h1]; congr 2; omega) hd0 hdc

/-- the inline part `(d)` of a link, the opener and the link text being the last two children -/
theorem parseLinkInline16 (src : Bytes) (segs : List Segment) (L j hd : Int) (a : Nat) (d rest : Bytes) (e : Int)
    (pre : List Inl.Node) (lid : Nat) (lseg tseg : Segment) (nid : Nat) (b : Bottom) (bts : List Bottom)
    (h : At16 src L a e (40 :: (d ++ 41 :: rest))) (hj : j < segs.length)
    (hd0 : d ≠ []) (hdc : ∀ c ∈ d, isDestC16 c = true) (hrest : rest ≠ []) (hpre : NoDL16 pre) :
    parseLinkInline { rd := rdAt src segs L j { start := a, stop := e } hd,
                      kids := pre ++ [.label lid lseg false, .text tseg false false false], nextId := nid,
                      bottoms := b :: bts } =
      .ok (some { dest := d, title := none, kids := [.text tseg false false false] },
        { rd := rdAt src segs L j { start := ((a + 1 + d.length + 1 : Nat) : Int), stop := e } hd,
          kids := pre ++ [.label lid lseg false], nextId := nid, bottoms := bts }) := by
  have hrl : 0 < rest.length := List.length_pos_iff.mpr hrest
  obtain ⟨c0, d', hdd⟩ : ∃ c0 d', d = c0 :: d' := by
    cases d with
    | nil => exact absurd rfl hd0
    | cons x xs => exact ⟨x, xs, rfl⟩
  have h1 : At16 src L (a + 1) e (d ++ 41 :: rest) := h.drop [40] _
  have h2 : At16 src L (a + 1 + d.length) e (41 :: rest) := h1.drop d _
  have h1' : At16 src L (a + 1) e (c0 :: (d' ++ 41 :: rest)) := by rw [hdd] at h1; exact h1
  obtain ⟨_, _, h41, _, hs0⟩ := dest_facts16 c0 (hdc c0 (by simp [hdd]))
  obtain ⟨r1, hsk1⟩ := skipSpaces_at16 src segs L j hd (a + 1) e c0 _ h1' hj hs0 0
  obtain ⟨r2, hsk2⟩ := skipSpaces_at16 src segs L j hd (a + 1 + d.length) e 41 _ h2 hj (by decide) 0
  unfold parseLinkInline
  simp only [bind, Except.bind, advance1_at16 src segs L j hd a e _ h (by simp; omega), hsk1,
    peekByte_at16 src segs L j hd (a + 1) e c0 _ h1' hj, h41, Bool.false_eq_true, if_false,
    parseLinkDestination_at16 src segs L j hd (a + 1) d rest e h1 hj hd0 hdc, hsk2,
    peekByte_at16 src segs L j hd (a + 1 + d.length) e 41 _ h2 hj, beq_self_eq_true, if_true,
    advance1_at16 src segs L j hd (a + 1 + d.length) e _ h2 (by simp; omega),
    processLinkLabel16 _ pre lid lseg tseg nid b bts hpre, pure, Except.pure]


/-- the link parser at `[`: a label opener -/
theorem parseLink_open16 (env : Env) (src : Bytes) (segs : List Segment) (L j hd : Int) (a : Nat) (tail : Bytes)
    (e : Int) (ks : List Inl.Node) (nid : Nat) (bts : List Bottom)
    (h : At16 src L a e (91 :: tail)) (hj : j < segs.length) (htail : tail ≠ [])
    (hks : ∀ n ∈ ks, n.isDelim = false) :
    parseLink env { rd := rdAt src segs L j { start := a, stop := e } hd, kids := ks, nextId := nid, bottoms := bts } =
      .ok (some (.label nid { start := a, stop := (a : Int) + 1 } false),
        { rd := rdAt src segs L j { start := ((a + 1 : Nat) : Int), stop := e } hd, kids := ks, nextId := nid + 1,
          bottoms := .tnil :: bts }) := by
  have htl : 0 < tail.length := List.length_pos_iff.mpr htail
  unfold parseLink
  simp only [bind, Except.bind, peekLine_at16 src segs L j hd a e 91 tail h hj, Option.getD_some,
    show ((91 : UInt8) == 33) = false by decide, show ((91 : UInt8) == 91) = true by decide, Bool.false_eq_true,
    if_false, if_true, pushBottom, splitLastDelim_noDelim11 ks hks, labelOpen,
    advance1_at16 src segs L j hd a e _ h (by simp; omega), pure, Except.pure]

/-- the link parser at `]` in front of `(d)`: the inline link around the text behind the opener -/
theorem parseLink_close16 (env : Env) (src : Bytes) (segs : List Segment) (L j hd : Int) (a : Nat) (d rest : Bytes)
    (e : Int) (pre : List Inl.Node) (lid : Nat) (lseg tseg : Segment) (nid : Nat) (b : Bottom) (bts : List Bottom)
    (h : At16 src L a e (93 :: 40 :: (d ++ 41 :: rest))) (hj : j < segs.length)
    (hd0 : d ≠ []) (hdc : ∀ c ∈ d, isDestC16 c = true) (hrest : rest ≠ []) (hpre : NoDL16 pre) :
    parseLink env { rd := rdAt src segs L j { start := a, stop := e } hd,
                    kids := pre ++ [.label lid lseg false, .text tseg false false false], nextId := nid,
                    bottoms := b :: bts } =
      .ok (some (.link false d none [.text tseg false false false]),
        { rd := rdAt src segs L j { start := ((a + 1 + 1 + d.length + 1 : Nat) : Int), stop := e } hd,
          kids := pre, nextId := nid, bottoms := bts }) := by
  have h1 : At16 src L (a + 1) e (40 :: (d ++ 41 :: rest)) := h.drop [93] _
  unfold parseLink
  simp only [bind, Except.bind, peekLine_at16 src segs L j hd a e 93 _ h hj, Option.getD_some,
    show ((93 : UInt8) == 33) = false by decide, show ((93 : UInt8) == 91) = false by decide, Bool.false_eq_true,
    if_false]
  unfold parseLinkClose
  simp only [splitLastLabel_tail16 pre lid lseg false (.text tseg false false false) rfl, bind, Except.bind,
    advance1_at16 src segs L j hd a e _ h (by simp), labelLen_none16 pre hpre,
    peekByte_at16 src segs L j hd (a + 1) e 40 _ h1 hj, linkTry, beq_self_eq_true, if_true,
    parseLinkInline16 src segs L j hd (a + 1) d rest e pre lid lseg tseg nid b bts h1 hj hd0 hdc hrest hpre, linkDone]
  simp [containsLinkL, containsLink]


/-! ### one pass through `retry:` that ends at a bracket -/

theorem scan_bracket16 (env : Env) (henv : env.escapedSpace = false) (src : Bytes) (segs : List Segment) (L j hd : Int)
    (q : Nat) (bs : Bytes) (c : UInt8) (tail : Bytes) (e : Int) (ks : List Inl.Node) (nid : Nat) (bts : List Bottom)
    (h : At16 src L q e (bs ++ c :: tail)) (_hj : j < segs.length)
    (hbs : bs ≠ []) (hq : quiet bs 0 false = true) (hesc : escAfter bs false = false)
    (hc : c = 91 ∨ c = 93) (hnm : NoMerge8 ks) (nd : Inl.Node) (st' : St)
    (hparse : parseLink env
      { rd := rdAt src segs L j { start := ((q + bs.length : Nat) : Int), stop := e } hd,
        kids := ks ++ [.text { start := q, stop := ((q + bs.length : Nat) : Int) } false false false], nextId := nid,
        bottoms := bts } = .ok (some nd, st')) :
    scan env (bs ++ c :: tail) 0
      { st := { rd := rdAt src segs L j { start := q, stop := e } hd, kids := ks, nextId := nid, bottoms := bts },
        n := 0, sp := { start := q, stop := e }, escaped := false } =
    .ok (.hit { st' with kids := st'.kids ++ [nd] } false) := by
  have hbl : 0 < bs.length := List.length_pos_iff.mpr hbs
  rw [scan_pre8 env henv bs _ 0 _ hq]
  simp only [hesc, Nat.zero_add, Int.zero_add]
  have hT : isTrigger env c bs.length false = true := by
    rcases hc with rfl | rfl <;> (simp [isTrigger]; left; left; decide)
  have hP : parserChar c bs.length = c := by
    rcases hc with rfl | rfl
    · have h1 : isSpace 91 = false := by decide
      have h2 : isPunct 91 = true := by decide
      simp [parserChar, h1, h2]
    · have h1 : isSpace 93 = false := by decide
      have h2 : isPunct 93 = true := by decide
      simp [parserChar, h1, h2]
  have hF : parsersFor c = [.link] := by rcases hc with rfl | rfl <;> decide
  have h10 : (c == 10) = false := by rcases hc with rfl | rfl <;> decide
  rw [scan]
  simp only [h10, Bool.false_eq_true, if_false, hT, hP, hF]
  simp only [List.isEmpty_cons, Bool.not_false, Bool.and_self, if_true]
  unfold trigger
  simp only [bind, Except.bind]
  rw [advance_at16 src segs L j hd q e _ h bs.length (by simp)]
  have hne0 : (bs.length != 0) = true := by simp; omega
  simp only [hne0, if_true, BlockReader.position, Segment.between,
    Except.map, mergeOrAppend_nomerge8 ks _ hnm, tryParsers, Ip.parse, bind, Except.bind]
  simp only [show (rdAt src segs L j { start := ((q + bs.length : Nat) : Int), stop := e } hd).pos =
    { start := ((q + bs.length : Nat) : Int), stop := e } from rfl, bne_self_eq_false, Bool.false_eq_true, if_false]
  simp only [textOf, Int.sub_self] at hparse ⊢
  simp only [hparse, pure, Except.pure]

theorem pass16 (env : Env) (henv : env.escapedSpace = false) (src : Bytes) (segs : List Segment) (L j hd : Int)
    (q : Nat) (bs : Bytes) (c : UInt8) (tail : Bytes) (e : Int) (ks : List Inl.Node) (nid : Nat) (bts : List Bottom)
    (fuel : Nat)
    (h : At16 src L q e (bs ++ c :: tail)) (hj : j < segs.length) (hend : EndOK11 tail)
    (hbs : bs ≠ []) (hq : quiet bs 0 false = true) (hesc : escAfter bs false = false)
    (hc : c = 91 ∨ c = 93) (hnm : NoMerge8 ks) (nd : Inl.Node) (st' : St)
    (hparse : parseLink env
      { rd := rdAt src segs L j { start := ((q + bs.length : Nat) : Int), stop := e } hd,
        kids := ks ++ [.text { start := q, stop := ((q + bs.length : Nat) : Int) } false false false], nextId := nid,
        bottoms := bts } = .ok (some nd, st')) :
    lineLoop env (fuel + 1) false
      { rd := rdAt src segs L j { start := q, stop := e } hd, kids := ks, nextId := nid, bottoms := bts } =
    lineLoop env fuel false { st' with kids := st'.kids ++ [nd] } := by
  obtain ⟨b0, bs', hbb⟩ : ∃ b0 bs', bs = b0 :: bs' := by
    cases bs with
    | nil => exact absurd rfl hbs
    | cons x xs => exact ⟨x, xs, rfl⟩
  have hp := peekLine_at16 src segs L j hd q e b0 (bs' ++ c :: tail) (by rw [← List.cons_append, ← hbb]; exact h) hj
  rw [← List.cons_append, ← hbb] at hp
  refine lineLoop_hit8 env fuel false false _ _ _ _ hp ?_ ?_
  · rw [hbb]; rfl
  · have hcl := hend (bs ++ [c])
    rw [List.append_assoc, List.singleton_append] at hcl
    rw [hcl, List.take_length]
    exact scan_bracket16 env henv src segs L j hd q bs c tail e ks nid bts h hj hbs hq hesc hc hnm nd st' hparse


theorem noMerge_label16 (ks : List Inl.Node) (id : Nat) (seg : Segment) (im : Bool) :
    NoMerge8 (ks ++ [.label id seg im]) := by
  intro seg' h r; simp

theorem noMerge_link16 (ks : List Inl.Node) (im : Bool) (d : Bytes) (t : Option Bytes) (kids : List Inl.Node) :
    NoMerge8 (ks ++ [.link im d t kids]) := by
  intro seg' h r; simp

/-! ### one text atom and the link behind it: two passes -/

theorem link_step16 (env : Env) (henv : env.escapedSpace = false) (src : Bytes) (segs : List Segment) (L j hd : Int)
    (q : Nat) (bs t d rest : Bytes) (e : Int) (ks : List Inl.Node) (nid : Nat) (bts : List Bottom) (fuel : Nat)
    (h : At16 src L q e (bs ++ 91 :: (t ++ 93 :: 40 :: (d ++ 41 :: rest)))) (hj : j < segs.length)
    (hend : EndOK11 rest)
    (hbs : bs ≠ []) (hq : quiet bs 0 false = true) (hesc : escAfter bs false = false)
    (ht0 : t ≠ []) (htc : ∀ c ∈ t, GM.Spec.CM.isAlnumC c = true)
    (hd0 : d ≠ []) (hdc : ∀ c ∈ d, isDestC16 c = true) (hrest : rest ≠ [])
    (hnm : NoMerge8 ks) (hks : NoDL16 ks) :
    lineLoop env (fuel + 1 + 1) false
      { rd := rdAt src segs L j { start := q, stop := e } hd, kids := ks, nextId := nid, bottoms := bts } =
    lineLoop env fuel false
      { rd := rdAt src segs L j { start := ((q + bs.length + 1 + t.length + 1 + 1 + d.length + 1 : Nat) : Int), stop := e } hd,
        kids := ks ++ [.text { start := q, stop := ((q + bs.length : Nat) : Int) } false false false,
          .link false d none [.text { start := ((q + bs.length + 1 : Nat) : Int),
                                      stop := ((q + bs.length + 1 + t.length : Nat) : Int) } false false false]],
        nextId := nid + 1, bottoms := bts } := by
  have h1 : At16 src L (q + bs.length) e (91 :: (t ++ 93 :: 40 :: (d ++ 41 :: rest))) := h.drop bs _
  have h2 : At16 src L (q + bs.length + 1) e (t ++ 93 :: 40 :: (d ++ 41 :: rest)) := h1.drop [91] _
  have h3 : At16 src L (q + bs.length + 1 + t.length) e (93 :: 40 :: (d ++ 41 :: rest)) := h2.drop t _
  have hks1 : NoDL16 (ks ++ [.text { start := q, stop := ((q + bs.length : Nat) : Int) } false false false]) := by
    intro n hn
    simp only [List.mem_append, List.mem_cons, List.not_mem_nil, or_false] at hn
    rcases hn with hn | rfl
    · exact hks n hn
    · exact ⟨rfl, rfl⟩
  have hend1 : EndOK11 (t ++ 93 :: 40 :: (d ++ 41 :: rest)) := by
    have := endOK_app11 (t ++ 93 :: 40 :: (d ++ [41])) rest hend
    simpa using this
  have hend2 : EndOK11 (40 :: (d ++ 41 :: rest)) := by
    have := endOK_app11 (40 :: (d ++ [41])) rest hend
    simpa using this
  obtain ⟨hqt, hesct⟩ := alnum_quiet11 t 0 htc
  have p1 := pass16 env henv src segs L j hd q bs 91 _ e ks nid bts (fuel + 1) h hj hend1 hbs hq hesc (Or.inl rfl) hnm _ _
    (parseLink_open16 env src segs L j hd (q + bs.length) _ e _ nid bts h1 hj (by simp)
      (fun n hn => (hks1 n hn).1))
  rw [p1]
  have p2 := pass16 env henv src segs L j hd (q + bs.length + 1) t 93 _ e
    (ks ++ [.text { start := q, stop := ((q + bs.length : Nat) : Int) } false false false] ++
      [.label nid { start := ((q + bs.length : Nat) : Int), stop := ((q + bs.length : Nat) : Int) + 1 } false])
    (nid + 1) (.tnil :: bts) fuel h2 hj hend2 ht0 hqt hesct (Or.inr rfl) (noMerge_label16 _ _ _ _) _ _
    (by
      rw [List.append_assoc, List.singleton_append]
      exact parseLink_close16 env src segs L j hd (q + bs.length + 1 + t.length) d rest e _ nid _ _ (nid + 1) .tnil bts
        h3 hj hd0 hdc hrest hks1)
  rw [p2]
  simp


/-! ### the children of a paragraph of rich lines -/

/-- the children one line gives, the line's atoms from byte `q` on; `soft`: the line is not the last one -/
def atomKids16 (soft : Bool) : Nat → List LAtom → List Inl.Node
  | _, [] => []
  | q, [.txt bs] => [.text { start := q, stop := ((q + bs.length : Nat) : Int) } soft false false]
  | q, .txt bs :: rest =>
    .text { start := q, stop := ((q + bs.length : Nat) : Int) } false false false :: atomKids16 soft (q + bs.length) rest
  | q, .link t d :: rest =>
    .link false d none [.text { start := ((q + 1 : Nat) : Int), stop := ((q + 1 + t.length : Nat) : Int) } false false false] ::
      atomKids16 soft (q + 1 + t.length + 1 + 1 + d.length + 1) rest

/-- the inline children `parseBlock` gives a paragraph of rich lines that starts at byte `p` -/
def richKids16 : Nat → List (List LAtom) → List Inl.Node
  | _, [] => []
  | p, [l] => atomKids16 false p l
  | p, l :: l' :: rest => atomKids16 true p l ++ richKids16 (p + (llineSrc l).length + 1) (l' :: rest)

/-- label openers a line pushes: one per link -/
def links16 : List LAtom → Nat
  | [] => 0
  | .txt _ :: rest => links16 rest
  | .link _ _ :: rest => links16 rest + 1

/-- the shape of (the rest of) a rich line as the byte loop sees it -/
inductive LT16 : List LAtom → Prop
  | last (bs l0 : Bytes) (c : UInt8) : bs = l0 ++ [c] → isSpace c = false → c ≠ 92 → quiet bs 0 false = true →
      LT16 [.txt bs]
  | cons (bs t d : Bytes) (rest : List LAtom) : bs ≠ [] → quiet bs 0 false = true → escAfter bs false = false →
      t ≠ [] → (∀ c ∈ t, GM.Spec.CM.isAlnumC c = true) → d ≠ [] → (∀ c ∈ d, isDestC16 c = true) → LT16 rest →
      LT16 (.txt bs :: .link t d :: rest)

theorem llineSrc_single16 (bs : Bytes) : llineSrc [.txt bs] = bs := by simp [llineSrc, latomSrc]

theorem llineSrc_cons16 (bs t d : Bytes) (rest : List LAtom) :
    llineSrc (.txt bs :: .link t d :: rest) = bs ++ 91 :: (t ++ 93 :: 40 :: (d ++ 41 :: llineSrc rest)) := by
  simp [llineSrc, latomSrc]

theorem lt_ne16 {as : List LAtom} (h : LT16 as) : llineSrc as ≠ [] := by
  cases h with
  | last bs l0 c hl _ _ _ => rw [llineSrc_single16, hl]; simp
  | cons bs t d rest hbs _ _ _ _ _ _ _ =>
    rw [llineSrc_cons16]
    cases bs with
    | nil => exact absurd rfl hbs
    | cons x xs => simp

theorem lt_concat16 {as : List LAtom} (h : LT16 as) :
    ∃ l0 c, llineSrc as = l0 ++ [c] ∧ isSpace c = false ∧ c ≠ 92 := by
  induction h with
  | last bs l0 c hl hs hb hq => exact ⟨l0, c, by rw [llineSrc_single16, hl], hs, hb⟩
  | cons bs t d rest _ _ _ _ _ _ _ _ ih =>
    obtain ⟨l0, c, hl, hs, hb⟩ := ih
    exact ⟨bs ++ 91 :: (t ++ 93 :: 40 :: (d ++ 41 :: l0)), c, by rw [llineSrc_cons16, hl]; simp, hs, hb⟩

theorem atomKids_cons16 (soft : Bool) (q : Nat) (bs t d : Bytes) (rest : List LAtom) :
    atomKids16 soft q (.txt bs :: .link t d :: rest) =
      [.text { start := q, stop := ((q + bs.length : Nat) : Int) } false false false,
        .link false d none [.text { start := ((q + bs.length + 1 : Nat) : Int),
                                    stop := ((q + bs.length + 1 + t.length : Nat) : Int) } false false false]] ++
      atomKids16 soft (q + bs.length + 1 + t.length + 1 + 1 + d.length + 1) rest := by
  simp [atomKids16]

theorem noDL_atoms16 (soft : Bool) : ∀ (as : List LAtom) (q : Nat), NoDL16 (atomKids16 soft q as)
  | [], _ => by intro n hn; simp [atomKids16] at hn
  | [.txt bs], q => by intro n hn; simp [atomKids16] at hn; subst hn; exact ⟨rfl, rfl⟩
  | .txt bs :: b :: rest, q => by
    intro n hn
    simp only [atomKids16, List.mem_cons] at hn
    rcases hn with rfl | hn
    · exact ⟨rfl, rfl⟩
    · exact noDL_atoms16 soft (b :: rest) _ n hn
  | .link t d :: rest, q => by
    intro n hn
    simp only [atomKids16, List.mem_cons] at hn
    rcases hn with rfl | hn
    · exact ⟨rfl, rfl⟩
    · exact noDL_atoms16 soft rest _ n hn

theorem noDL_append16 {a b : List Inl.Node} (ha : NoDL16 a) (hb : NoDL16 b) : NoDL16 (a ++ b) := by
  intro n hn
  rcases List.mem_append.mp hn with h | h
  · exact ha n h
  · exact hb n h

theorem noMerge_atoms16 {as : List LAtom} (h : LT16 as) : ∀ (ks : List Inl.Node) (q : Nat),
    NoMerge8 (ks ++ atomKids16 true q as) := by
  induction h with
  | last bs l0 c hl hs hb hq => intro ks q; exact noMerge_soft8 ks _ _ _
  | cons bs t d rest _ _ _ _ _ _ _ _ ih =>
    intro ks q
    rw [atomKids_cons16, ← List.append_assoc]
    exact ih _ _

/-! ### one line -/

theorem at_tail16 {src : Bytes} {L : Int} {q : Nat} {e : Int} (bs t d tail : Bytes)
    (h : At16 src L q e (bs ++ 91 :: (t ++ 93 :: 40 :: (d ++ 41 :: tail)))) :
    At16 src L (q + bs.length + 1 + t.length + 1 + 1 + d.length + 1) e tail :=
  ((((((h.drop bs _).drop [91] _).drop t _).drop [93] _).drop [40] _).drop d _).drop [41] _

theorem atoms_mid16 (env : Env) (henv : env.escapedSpace = false) (src : Bytes) (segs : List Segment) (L hd : Int)
    (j : Nat) (seg' : Segment) (bts : List Bottom) (hnext : segs[j + 1]? = some seg') :
    ∀ (as : List LAtom), LT16 as → ∀ (q : Nat) (e : Int) (ks : List Inl.Node) (fuel nid : Nat),
      At16 src L q e (llineSrc as ++ [10]) → NoMerge8 ks → NoDL16 ks →
      lineLoop env (fuel + as.length) false
        { rd := rdAt src segs L j { start := q, stop := e } hd, kids := ks, nextId := nid, bottoms := bts } =
      lineLoop env fuel false
        { rd := rdAt src segs L (j + 1) seg' seg'.start, kids := ks ++ atomKids16 true q as,
          nextId := nid + links16 as, bottoms := bts } := by
  intro as h
  induction h with
  | last bs l0 c hl hs hb hq =>
    intro q e ks fuel nid hat hnm hks
    rw [llineSrc_single16] at hat
    obtain ⟨h1, h2, h3, h4⟩ := hat
    simp only [List.length_append, List.length_cons, List.length_nil, Nat.zero_add] at h1 h2 h3
    have he : e = (q : Int) + bs.length + 1 := by omega
    subst he
    have := line_step8 env henv src segs L hd j q bs l0 c seg' ks nid bts fuel hl hs hb hq
      (by rw [← h1]; congr 1) (by omega) (by omega) hnext
    simp only [List.length_cons, List.length_nil, Nat.zero_add, links16, Nat.add_zero, atomKids16, Int.natCast_add]
    exact this
  | cons bs t d rest hbs hq hesc ht0 htc hd0 hdc hrt ih =>
    intro q e ks fuel nid hat hnm hks
    have hj : ((j : Nat) : Int) < segs.length := by
      have := (List.getElem?_eq_some_iff.mp hnext).1; omega
    obtain ⟨l0, c, hl0, hs, hb⟩ := lt_concat16 hrt
    have hat' : At16 src L q e (bs ++ 91 :: (t ++ 93 :: 40 :: (d ++ 41 :: (llineSrc rest ++ [10])))) := by
      rw [llineSrc_cons16] at hat
      simpa using hat
    have hend : EndOK11 (llineSrc rest ++ [10]) := by rw [hl0]; exact endOK_lf11 l0 c hs hb
    have hstep := link_step16 env henv src segs L j hd q bs t d (llineSrc rest ++ [10]) e ks nid bts
      (fuel + rest.length) hat' hj hend hbs hq hesc ht0 htc hd0 hdc (by simp) hnm hks
    have hks2 : NoDL16 (ks ++ atomKids16 true q [.txt bs, .link t d]) := noDL_append16 hks (noDL_atoms16 _ _ _)
    rw [atomKids_cons16] at hks2
    simp only [atomKids16, List.append_nil] at hks2
    have hih := ih (q + bs.length + 1 + t.length + 1 + 1 + d.length + 1) e _ fuel (nid + 1) (at_tail16 bs t d _ hat')
      (by rw [show ∀ (a b : Inl.Node), ks ++ [a, b] = (ks ++ [a]) ++ [b] by simp]; exact noMerge_link16 _ _ _ _ _) hks2
    rw [show fuel + (LAtom.txt bs :: .link t d :: rest).length = fuel + rest.length + 1 + 1 by
      simp only [List.length_cons]; omega, hstep, hih, atomKids_cons16]
    have hn : nid + 1 + links16 rest = nid + links16 (.txt bs :: .link t d :: rest) := by
      simp only [links16]; omega
    rw [hn]
    simp


theorem atoms_last16 (env : Env) (henv : env.escapedSpace = false) (src : Bytes) (segs : List Segment) (hd : Int)
    (j : Nat) (bts : List Bottom) (hjl : j + 1 = segs.length) :
    ∀ (as : List LAtom), LT16 as → ∀ (q : Nat) (L : Int) (ks : List Inl.Node) (fuel nid : Nat),
      At16 src L q L (llineSrc as) → NoMerge8 ks → NoDL16 ks →
      ∃ rd', lineLoop env (fuel + as.length + 1) false
        { rd := rdAt src segs L j { start := q, stop := L } hd, kids := ks, nextId := nid, bottoms := bts } =
      .ok { rd := rd', kids := ks ++ atomKids16 false q as, nextId := nid + links16 as, bottoms := bts } := by
  intro as h
  induction h with
  | last bs l0 c hl hs hb hq =>
    intro q L ks fuel nid hat hnm hks
    rw [llineSrc_single16] at hat
    obtain ⟨h1, h2, h3, h4⟩ := hat
    have he : L = (q : Int) + bs.length := by omega
    subst he
    have := last_step8 env henv src segs hd j q bs l0 c ks nid bts fuel hl hs hb hq h1 h2 hjl
    simp only [List.length_cons, List.length_nil, Nat.zero_add, links16, Nat.add_zero, atomKids16, Int.natCast_add]
    exact ⟨_, this⟩
  | cons bs t d rest hbs hq hesc ht0 htc hd0 hdc hrt ih =>
    intro q L ks fuel nid hat hnm hks
    have hj : ((j : Nat) : Int) < segs.length := by omega
    obtain ⟨l0, c, hl0, hs, hb⟩ := lt_concat16 hrt
    have hat' : At16 src L q L (bs ++ 91 :: (t ++ 93 :: 40 :: (d ++ 41 :: llineSrc rest))) := by
      rw [llineSrc_cons16] at hat
      exact hat
    have hend : EndOK11 (llineSrc rest) := by rw [hl0]; exact endOK_nolf11 l0 c hs
    have hstep := link_step16 env henv src segs L j hd q bs t d (llineSrc rest) L ks nid bts
      (fuel + rest.length + 1) hat' hj hend hbs hq hesc ht0 htc hd0 hdc (lt_ne16 hrt) hnm hks
    have hks2 : NoDL16 (ks ++ atomKids16 true q [.txt bs, .link t d]) := noDL_append16 hks (noDL_atoms16 _ _ _)
    rw [atomKids_cons16] at hks2
    simp only [atomKids16, List.append_nil] at hks2
    obtain ⟨rd', hih⟩ := ih (q + bs.length + 1 + t.length + 1 + 1 + d.length + 1) L _ fuel (nid + 1)
      (at_tail16 bs t d _ hat')
      (by rw [show ∀ (a b : Inl.Node), ks ++ [a, b] = (ks ++ [a]) ++ [b] by simp]; exact noMerge_link16 _ _ _ _ _) hks2
    refine ⟨rd', ?_⟩
    rw [show fuel + (LAtom.txt bs :: .link t d :: rest).length + 1 = fuel + rest.length + 1 + 1 + 1 by
      simp only [List.length_cons]; omega, hstep, hih, atomKids_cons16]
    have hn : nid + 1 + links16 rest = nid + links16 (.txt bs :: .link t d :: rest) := by
      simp only [links16]; omega
    rw [hn]
    simp

/-! ### the whole paragraph -/

def need16 : List (List LAtom) → Nat
  | [] => 1
  | l :: rest => l.length + need16 rest

theorem loop_rich16 (env : Env) (henv : env.escapedSpace = false) (src : Bytes) (segs : List Segment) (L : Int)
    (bts : List Bottom) :
    ∀ (ls : List (List LAtom)) (p : Nat) (done : List Segment) (ks : List Inl.Node) (f nid : Nat), ls ≠ [] →
      (∀ l ∈ ls, LT16 l) → LinesAtE src p (ls.map llineSrc) → segs = done ++ paraSegs p (ls.map llineSrc) →
      L = (paraEnd p (ls.map llineSrc) : Nat) → NoMerge8 ks → NoDL16 ks →
      ∃ rd' nid', lineLoop env (f + need16 ls) false
        { rd := rdAt src segs L done.length ((paraSegs p (ls.map llineSrc)).headD default) p, kids := ks,
          nextId := nid, bottoms := bts } =
        .ok { rd := rd', kids := ks ++ richKids16 p ls, nextId := nid', bottoms := bts }
  | [], _, _, _, _, _, h, _, _, _, _, _, _ => absurd rfl h
  | [l], p, done, ks, f, nid, _, hg, hla, hsegs, hL, hnm, hks => by
    obtain ⟨hsub, hlen⟩ := hla
    have hL' : L = (p : Int) + (llineSrc l).length := by simp [hL, paraEnd]
    have hat : At16 src L p L (llineSrc l) := ⟨hsub, hlen, by rw [hL']; push_cast; rfl, Int.le_refl _⟩
    obtain ⟨rd', h⟩ := atoms_last16 env henv src segs p done.length bts (by simp [hsegs, paraSegs]) l (hg l (by simp))
      p L ks f nid hat hnm hks
    refine ⟨rd', nid + links16 l, ?_⟩
    have e1 : (paraSegs p ([l].map llineSrc)).headD default = { start := (p : Int), stop := L } := by
      rw [hL']; rfl
    rw [e1]
    have e2 : f + need16 [l] = f + l.length + 1 := by simp [need16]; omega
    rw [e2, h]
    rfl
  | l :: l' :: rest, p, done, ks, f, nid, _, hg, hla, hsegs, hL, hnm, hks => by
    obtain ⟨hsub, hlen, hla'⟩ := hla
    have hrt := hg l (by simp)
    have hpL : (p : Int) + (llineSrc l).length + 1 ≤ L := by
      have := paraEnd_ge ((l' :: rest).map llineSrc) (p + (llineSrc l).length + 1)
      simp only [List.map_cons, paraEnd] at hL this
      omega
    have hsegs' : segs = (done ++ [{ start := (p : Int), stop := (p : Int) + (llineSrc l).length + 1 }]) ++
        paraSegs (p + (llineSrc l).length + 1) ((l' :: rest).map llineSrc) := by
      rw [hsegs]; simp [paraSegs]
    have hnext : segs[done.length + 1]? =
        some ((paraSegs (p + (llineSrc l).length + 1) ((l' :: rest).map llineSrc)).headD default) := by
      rw [hsegs']
      rw [List.getElem?_append_right (by simp)]
      simp only [List.length_append, List.length_cons, List.length_nil, Nat.zero_add, Nat.sub_self]
      cases rest <;> rfl
    have hat : At16 src L p ((p : Int) + (llineSrc l).length + 1) (llineSrc l ++ [10]) :=
      ⟨by simpa [Nat.add_assoc] using hsub, by simpa [Nat.add_assoc] using hlen, by simp; omega, hpL⟩
    have hstep := atoms_mid16 env henv src segs L p done.length _ bts hnext l hrt p
      ((p : Int) + (llineSrc l).length + 1) ks (f + need16 (l' :: rest)) nid hat hnm hks
    obtain ⟨rd', nid', ih⟩ := loop_rich16 env henv src segs L bts (l' :: rest) (p + (llineSrc l).length + 1)
      (done ++ [{ start := (p : Int), stop := (p : Int) + (llineSrc l).length + 1 }])
      (ks ++ atomKids16 true p l) f (nid + links16 l) (by simp)
      (fun x hx => hg x (by simp at hx ⊢; right; exact hx)) hla' hsegs' (by rw [hL]; rfl) (noMerge_atoms16 hrt ks p)
      (noDL_append16 hks (noDL_atoms16 _ _ _))
    refine ⟨rd', nid', ?_⟩
    have e1 : (paraSegs p ((l :: l' :: rest).map llineSrc)).headD default =
        { start := (p : Int), stop := (p : Int) + (llineSrc l).length + 1 } := rfl
    have e0 : f + need16 (l :: l' :: rest) = f + need16 (l' :: rest) + l.length := by
      simp only [need16]; omega
    rw [e1, e0, hstep]
    have e2 : ((done ++ [({ start := (p : Int), stop := (p : Int) + (llineSrc l).length + 1 } : Segment)]).length : Int) =
        (done.length : Int) + 1 := by
      simp
    rw [e2] at ih
    have e3 : ((paraSegs (p + (llineSrc l).length + 1) ((l' :: rest).map llineSrc)).headD default).start =
        ((p + (llineSrc l).length + 1 : Nat) : Int) := by
      cases rest <;> rfl
    rw [e3]
    rw [ih]
    simp [richKids16]


/-! ### rich lines have the shape `LT16` -/

theorem lt_of_rich_aux16 : ∀ (as : List LAtom), lalternating as = true → (∃ bs rest, as = .txt bs :: rest) →
    (∃ bs, as.getLast? = some (.txt bs) ∧ ∀ c, bs.getLast? = some c → isSpace c = false ∧ c ≠ 92) →
    (∀ a ∈ as, LAtomOK a) → LT16 as
  | [], _, hf, _, _ => by obtain ⟨_, _, h⟩ := hf; simp at h
  | .link _ _ :: _, _, hf, _, _ => by obtain ⟨_, _, h⟩ := hf; simp at h
  | [.txt bs], _, _, hl, hok => by
    obtain ⟨bs', hb', hc⟩ := hl
    simp at hb'; subst hb'
    obtain ⟨hne, hq, _⟩ := hok (.txt bs) (by simp)
    rcases List.eq_nil_or_concat bs with h0 | ⟨l0, c, hl⟩
    · exact absurd h0 hne
    · have hl' : bs = l0 ++ [c] := by simpa using hl
      have := hc c (by simp [hl'])
      exact .last bs l0 c hl' this.1 this.2 (hq 0)
  | .txt _ :: .txt _ :: _, ha, _, _, _ => by simp [lalternating, LAtom.isTxt] at ha
  | [.txt _, .link _ _], _, _, hl, _ => by obtain ⟨_, h, _⟩ := hl; simp at h
  | .txt _ :: .link _ _ :: .link _ _ :: _, ha, _, _, _ => by simp [lalternating, LAtom.isTxt] at ha
  | .txt bs :: .link t d :: .txt b' :: rest, ha, _, hl, hok => by
    obtain ⟨hne, hq, he⟩ := hok (.txt bs) (by simp)
    obtain ⟨⟨htne, hta⟩, hdne, hda⟩ := hok (.link t d) (by simp)
    refine .cons bs t d _ hne (hq 0) he htne hta hdne hda
      (lt_of_rich_aux16 (.txt b' :: rest) ?_ ⟨b', rest, rfl⟩ ?_ (fun a h => hok a (by simp at h ⊢; right; right; exact h)))
    · simp [lalternating, LAtom.isTxt] at ha ⊢; exact ha
    · obtain ⟨x, hx, hc⟩ := hl
      exact ⟨x, by simpa [List.getLast?_cons_cons] using hx, hc⟩

theorem lt_of_rich16 {as : List LAtom} (h : LRichLine as) : LT16 as := by
  refine lt_of_rich_aux16 as h.alt (by obtain ⟨bs, rest, he, _⟩ := h.first; exact ⟨bs, rest, he⟩) ?_ h.ok
  obtain ⟨init, bs, he, hc⟩ := h.last
  exact ⟨bs, by rw [he]; simp, hc⟩

/-! ### after the loop -/

def plain16 : Inl.Node → Bool
  | .text .. => true
  | .link false _ _ [.text ..] => true
  | _ => false

theorem noDL_plain16 (ks : List Inl.Node) (h : ∀ n ∈ ks, plain16 n = true) : NoDL16 ks := by
  intro n hn
  have := h n hn
  cases n <;> simp [plain16] at this <;> exact ⟨rfl, rfl⟩

theorem processDelimiters_plain16 (ks : List Inl.Node) (h : ∀ n ∈ ks, plain16 n = true) :
    processDelimiters .nil ks = .ok ks := by
  unfold processDelimiters
  rw [splitLastDelim_noDelim11 ks (fun n hn => (noDL_plain16 ks h n hn).1)]

theorem closeLabelsL_plain16 : ∀ (ks : List Inl.Node), (∀ n ∈ ks, plain16 n = true) → closeLabelsL ks = ks
  | [], _ => by simp [closeLabelsL]
  | n :: rest, h => by
    have ih := closeLabelsL_plain16 rest (fun x hx => h x (by simp [hx]))
    have hn := h n (by simp)
    match n, hn with
    | .text .., _ => simp [closeLabelsL, closeLabels, ih]
    | .link false _ _ [.text ..], _ => simp [closeLabelsL, closeLabels, ih]

theorem atomKids_plain16 (soft : Bool) : ∀ (as : List LAtom) (q : Nat), ∀ n ∈ atomKids16 soft q as, plain16 n = true
  | [], _ => by simp [atomKids16]
  | [.txt bs], q => by simp [atomKids16, plain16]
  | .txt bs :: b :: rest, q => by
    have ih := atomKids_plain16 soft (b :: rest) (q + bs.length)
    simp only [atomKids16, List.mem_cons]
    rintro n (rfl | hn)
    · rfl
    · exact ih n hn
  | .link t d :: rest, q => by
    have ih := atomKids_plain16 soft rest (q + 1 + t.length + 1 + 1 + d.length + 1)
    simp only [atomKids16, List.mem_cons]
    rintro n (rfl | hn)
    · rfl
    · exact ih n hn

theorem richKids_plain16 : ∀ (ls : List (List LAtom)) (p : Nat), ∀ n ∈ richKids16 p ls, plain16 n = true
  | [], _ => by simp [richKids16]
  | [l], p => atomKids_plain16 false l p
  | l :: l' :: rest, p => by
    intro n hn
    simp only [richKids16, List.mem_append] at hn
    rcases hn with hn | hn
    · exact atomKids_plain16 true l p n hn
    · exact richKids_plain16 (l' :: rest) _ n hn

/-! ### fuel -/

theorem atoms_le16 {as : List LAtom} (h : LT16 as) : as.length ≤ (llineSrc as).length := by
  induction h with
  | last bs l0 c hl _ _ _ => rw [llineSrc_single16, hl]; simp
  | cons bs t d rest _ _ _ _ _ _ _ _ ih => rw [llineSrc_cons16]; simp; omega

theorem need_le16 (src : Bytes) : ∀ (ls : List (List LAtom)) (p : Nat), ls ≠ [] → (∀ l ∈ ls, LT16 l) →
    LinesAtE src p (ls.map llineSrc) → p + need16 ls ≤ src.length + 1
  | [], _, h, _, _ => absurd rfl h
  | [l], p, _, hg, hla => by
    have := atoms_le16 (hg l (by simp))
    obtain ⟨_, hlen⟩ := hla
    simp only [need16]; omega
  | l :: l' :: rest, p, _, hg, hla => by
    have := atoms_le16 (hg l (by simp))
    obtain ⟨_, _, hla'⟩ := hla
    have ih := need_le16 src (l' :: rest) _ (by simp) (fun x hx => hg x (by simp at hx ⊢; right; exact hx)) hla'
    simp only [need16] at ih ⊢; omega

/-- the inline phase on a paragraph of rich lines with inline links -/
theorem parseBlock_rich16 (env : GM.Inl.Env) (henv : env.escapedSpace = false) (src : Bytes) (p : Nat)
    (ls : List (List LAtom)) (hne : ls ≠ []) (hg : ∀ l ∈ ls, LRichLine l) (h : LinesAtE src p (ls.map llineSrc)) :
    GM.Inl.parseBlock env src (paraSegs p (ls.map llineSrc)) = .ok (richKids16 p ls) := by
  have hrt : ∀ l ∈ ls, LT16 l := fun l hl => lt_of_rich16 (hg l hl)
  have hne' : ls.map llineSrc ≠ [] := by simpa using hne
  have hfuel : need16 ls ≤ blockFuel src (paraSegs p (ls.map llineSrc)) := by
    have := need_le16 src ls p hne hrt h
    unfold blockFuel
    omega
  obtain ⟨f, hf⟩ : ∃ f, blockFuel src (paraSegs p (ls.map llineSrc)) = f + need16 ls :=
    ⟨_, (Nat.sub_add_cancel hfuel).symm⟩
  obtain ⟨rd', nid', h⟩ := loop_rich16 env henv src (paraSegs p (ls.map llineSrc))
    (paraEnd p (ls.map llineSrc) : Nat) [] ls p [] [] f 0 hne hrt h rfl rfl noMerge_nil8 (by intro n hn; simp at hn)
  unfold parseBlock
  simp only [bind, Except.bind, new_para _ (ls.map llineSrc) p hne']
  have h' : lineLoop env (blockFuel src (paraSegs p (ls.map llineSrc))) false
      { rd := rdAt src (paraSegs p (ls.map llineSrc)) (paraEnd p (ls.map llineSrc) : Nat) 0
          ((paraSegs p (ls.map llineSrc)).headD default) p } =
      .ok { rd := rd', kids := richKids16 p ls, nextId := nid', bottoms := [] } := by
    rw [hf]
    simpa using h
  rw [h']
  simp only [processDelimiters_plain16 _ (richKids_plain16 ls p), closeLabelsL_plain16 _ (richKids_plain16 ls p),
    pure, Except.pure]


/-! ### the renderer's nodes -/

theorem atomTrees16 (src : Bytes) (soft : Bool) : ∀ (as : List LAtom) (q : Nat),
    sub src q (q + (llineSrc as).length) = llineSrc as → q + (llineSrc as).length ≤ src.length →
    GM.Convert.inlineTrees src (atomKids16 soft q as) = .ok (latomNodes soft as)
  | [], _, _, _ => by simp [atomKids16, latomNodes, GM.Convert.inlineTrees, pure, Except.pure]
  | [.txt bs], q, h, hlen => by
    rw [llineSrc_single16] at h hlen
    simp [atomKids16, latomNodes, GM.Convert.inlineTrees, GM.Convert.inlineTree, bind, Except.bind, pure, Except.pure,
      value_at8 src q bs h hlen _ _ rfl rfl]
  | .txt bs :: b :: rest, q, h, hlen => by
    have hs : llineSrc (.txt bs :: b :: rest) = [] ++ bs ++ llineSrc (b :: rest) := by simp [llineSrc, latomSrc]
    have hs' : llineSrc (.txt bs :: b :: rest) = bs ++ llineSrc (b :: rest) ++ [] := by simp [llineSrc, latomSrc]
    have h1 := sub_mid8 src q [] bs (llineSrc (b :: rest)) (by rw [← hs]; exact h)
    have h2 := sub_mid8 src q bs (llineSrc (b :: rest)) [] (by rw [← hs']; exact h)
    have hl : (llineSrc (.txt bs :: b :: rest)).length = bs.length + (llineSrc (b :: rest)).length := by
      rw [hs]; simp
    have ih := atomTrees16 src soft (b :: rest) (q + bs.length) h2 (by omega)
    simp only [List.length_nil, Nat.add_zero] at h1
    have hv : Segment.value { start := (q : Int), stop := ((q + bs.length : Nat) : Int) } src = .ok bs :=
      value_at8 src q bs h1 (by omega) _ _ rfl (by push_cast; rfl)
    simp only [atomKids16, latomNodes, GM.Convert.inlineTrees, GM.Convert.inlineTree, bind, Except.bind, pure,
      Except.pure, hv, ih]
  | .link t d :: rest, q, h, hlen => by
    have hs : llineSrc (.link t d :: rest) = [91] ++ t ++ (93 :: 40 :: (d ++ 41 :: llineSrc rest)) := by
      simp [llineSrc, latomSrc]
    have hs' : llineSrc (.link t d :: rest) = (91 :: (t ++ 93 :: 40 :: (d ++ [41]))) ++ llineSrc rest ++ [] := by
      simp [llineSrc, latomSrc]
    have h1 := sub_mid8 src q [91] t (93 :: 40 :: (d ++ 41 :: llineSrc rest)) (by rw [← hs]; exact h)
    have h2 := sub_mid8 src q (91 :: (t ++ 93 :: 40 :: (d ++ [41]))) (llineSrc rest) [] (by rw [← hs']; exact h)
    have hl : (llineSrc (.link t d :: rest)).length = 1 + t.length + 1 + 1 + d.length + 1 + (llineSrc rest).length := by
      rw [hs]; simp; omega
    have e1 : q + (91 :: (t ++ 93 :: 40 :: (d ++ [41]))).length = q + 1 + t.length + 1 + 1 + d.length + 1 := by
      simp; omega
    rw [e1] at h2
    have ih := atomTrees16 src soft rest (q + 1 + t.length + 1 + 1 + d.length + 1) h2 (by omega)
    simp only [List.length_cons, List.length_nil, Nat.zero_add] at h1
    have hv : Segment.value { start := ((q + 1 : Nat) : Int), stop := ((q + 1 + t.length : Nat) : Int) } src = .ok t :=
      value_at8 src (q + 1) t h1 (by omega) _ _ rfl (by push_cast; rfl)
    simp only [atomKids16, latomNodes, GM.Convert.inlineTrees, GM.Convert.inlineTree, bind, Except.bind, pure,
      Except.pure, hv, ih]
    simp

theorem inlineTrees_richAux16 (src : Bytes) : ∀ (p : Nat) (ls : List (List LAtom)),
    LinesAtE src p (ls.map llineSrc) → GM.Convert.inlineTrees src (richKids16 p ls) = .ok (lrichNodes ls)
  | _, [], _ => by simp [richKids16, lrichNodes, GM.Convert.inlineTrees, pure, Except.pure]
  | p, [l], h => by
    obtain ⟨hsub, hlen⟩ := h
    exact atomTrees16 src false l p hsub hlen
  | p, l :: l' :: rest, h => by
    obtain ⟨hsub, hlen, h'⟩ := h
    have hsub' := sub_prefix src p (llineSrc l).length (llineSrc l) 10 rfl hsub
    exact inlineTrees_append8 src _ _ _ _ (atomTrees16 src true l p hsub' (by omega))
      (inlineTrees_richAux16 src _ (l' :: rest) h')

/-- the renderer's nodes of the children of a paragraph of rich lines with links (`hg` is not needed) -/
theorem inlineTrees_rich16 (src : Bytes) (p : Nat) (ls : List (List LAtom)) (_hg : ∀ l ∈ ls, LRichLine l)
    (h : LinesAtE src p (ls.map llineSrc)) :
    GM.Convert.inlineTrees src (richKids16 p ls) = .ok (lrichNodes ls) :=
  inlineTrees_richAux16 src p ls h

end GM.Proof.CMFrag
