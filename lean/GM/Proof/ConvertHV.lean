/-
  GM.Proof.ConvertHV — the block driver with paragraph transformers and a READ-ONLY MONITOR behind the Close of the two
  heading parsers, in the plain block monad `M` (no second state layer):

    `valueCheck node`  evaluates `Lines().At(Len()-1).Value(source)` of the node — the one call of generateAutoHeadingID
                       (atx_heading.go:203) that can panic — and throws the result away;
    `bpCloseV`         = `bpClose`, then `valueCheck` when the parser is a heading parser;
    `closeLoopV … runV` = GM.Model.Blocks.DriverT (`closeLoopT … runT`) with `bpCloseV` where it calls `bpClose`
                       (generated from DriverT.lean by renaming; nothing else differs).

  `runV` is `runH true` with the id table, the attributes and the ghost logs erased but the `Value` call kept: GM.Proof.ConvertHVSim
  proves `runV pts src = .ok st → ∃ hs, runH true pts src = .ok (hs, st)`. So "the block phase with AutoHeadingID is total" is
  the totality of a pure `M` driver that differs from `runT` by a check that succeeds in every state with `NodesOK`.
-/
import GM.Model.Blocks.DriverT
import GM.Model.ConvertH

namespace GM.Blocks
open GM GM.Text

/-- the `Value` call of generateAutoHeadingID (atx_heading.go:200-205), result dropped -/
def valueCheck (node : Nat) : M Unit := do
  let n ← getNode node
  match n.lines.getLast? with
  | some seg => do
    let src ← source
    let _ ← liftE (seg.value src)
    pure ()
  | none => pure ()

/-- `bp.Close` followed by the monitor for the two heading parsers -/
def bpCloseV (bp : BP) (node : Nat) : M Unit := do
  bpClose bp node
  if GM.ConvertH.BP.isHeadingParser bp then valueCheck node

/-- the loop parser.go:902-911 for `i = to + k - 1` down to `to` -/
def closeLoopV (pts : List PT) (blocks : List Block) (to : Int) : Nat → M Unit
  | 0 => pure ()
  | k + 1 => do
    let b ← liftE (blockAt blocks (to + k))
    let n ← getNode b.node
    if n.kind == .paragraph && n.parent.isSome then
      let _ ← transformParagraph pts b.node
    if (← getNode b.node).parent.isSome then bpCloseV b.bp b.node    -- closes only if node has not been transformed
    closeLoopV pts blocks to k

/-- parser.closeBlocks (parser.go:900-918) -/
def closeBlocksV (pts : List PT) (frm to : Int) : M Unit := do
  let blocks := (← getPc).opened
  closeLoopV pts blocks to (frm - to + 1).toNat
  let len : Int := blocks.length
  let blocks' ←
    if frm == len - 1 then liftE (closeBlocks.slice' blocks 0 to)
    else do
      let a ← liftE (closeBlocks.slice' blocks 0 to)
      let b ← liftE (closeBlocks.slice' blocks (frm + 1) len)
      pure (a ++ b)
  modPc fun pc => { pc with opened := blocks' }

/-- parser.go:985-997, the body of `if state&RequireParagraph != 0`: true = the paragraph has been transformed away -/
def requireParaV (pts : List PT) (parent : Nat) (last : Option Nat) (lastBlock : Option Block) : M Bool := do
  if last == (← getNode parent).children.getLast? then
    match lastBlock with
    | none => throw .nil                         -- lastBlock.Parser.Close on the zero Block
    | some lb =>
      bpCloseV lb.bp lb.node
      let blocks := (← getPc).opened
      if blocks.length == 0 then throw .slice    -- blocks[0 : len(blocks)-1]
      modPc fun pc => { pc with opened := blocks.dropLast }
      if (← getNode lb.node).kind != .paragraph then throw .assert   -- last.(*ast.Paragraph)
      transformParagraph pts lb.node
  else pure false

/-- parser.go:960-1014 -/
def tryParsersV (pts : List PT) (parent : Nat) (blankLine : Bool) (continuable : Bool) (w : Int) :
    List BP → OpenResult → Option Block → M (TryOutcomeT × OpenResult × Option Block)
  | [], result, lastBlock => pure (.done, result, lastBlock)
  | bp :: bps, result, lastBlock => do
    if continuable && result == .noBlocksOpened && !bp.canInterruptParagraph then
      return ← tryParsersV pts parent blankLine continuable w bps result lastBlock
    if w > 3 && !bp.canAcceptIndentedLine then
      return ← tryParsersV pts parent blankLine continuable w bps result lastBlock
    let lastBlock ← lastOpenedBlock
    let last := lastBlock.map (·.node)
    let (node, state) ← bpOpen bp parent
    match node with
    | none => tryParsersV pts parent blankLine continuable w bps result lastBlock
    | some node =>
      let transformed ← if state.requirePara then requireParaV pts parent last lastBlock else pure false
      if transformed then return (.retryTransformed, result, lastBlock)
      modNode node fun n => { n with blankPrev := blankLine }
      match last with
      | some l =>
        if (← getNode l).parent.isNone then
          let lastPos : Int := ((← getPc).opened.length : Int) - 1
          closeBlocksV pts lastPos lastPos
      | none => pure ()
      appendChild parent node
      modPc fun pc => { pc with opened := pc.opened ++ [{ node := node, bp := bp }] }
      if state.hasChildren then return (.retry node, .newBlocksOpened, lastBlock)
      return (.done, .newBlocksOpened, lastBlock)

/-- parser.openBlocks from the label `retry:` on (parser.go:935-1023); `fuel` bounds the number of `goto retry`.

    CONTRACT MONITORS (not Go code). (1) As in GM.Blocks.openBlocksLoop: a retry behind a freshly opened container
    must have decreased `retryMeasure`. (2) The retry behind a transformed paragraph (`tdone` = it has happened in this
    call): it does not consume input, so it must not increase `retryMeasure` and may happen once per `openBlocks` call —
    the only parser with RequireParagraph (setext heading) needs the last opened block to be a Paragraph child of
    `parent`; the paragraph is gone, what is opened afterwards are containers, and a leaf ends the loop. `pre` otherwise
    (the Go code would spin). The tie shows that neither fires. -/
def retryStepV (pts : List PT) (blankLine tdone continuable : Bool) (parent : Nat) (w : Int) (bps : List BP)
    (result : OpenResult) (lastBlock : Option Block)
    (again : Bool → Bool → Nat → OpenResult → Option Block → M OpenResult) : M OpenResult := do
  let before := retryMeasure (← get)
  let (outcome, result, lastBlock) ← tryParsersV pts parent blankLine continuable w bps result lastBlock
  match outcome with
  | .retry parent' =>
    let after := retryMeasure (← get)
    if !(after < before) then throw .pre            -- contract monitor (1)
    again tdone continuable parent' result lastBlock
  | .retryTransformed =>
    let after := retryMeasure (← get)
    if tdone || !(after ≤ before) then throw .pre   -- contract monitor (2)
    again true false parent result lastBlock
  | .done => toContinuable continuable result lastBlock

/-- `openBlocks` from `retry:` on; `retryStepV` is the part from the parser loop on, `again` = `goto retry` -/
def openBlocksLoopV (pts : List PT) (blankLine : Bool) :
    Nat → Bool → Bool → Nat → OpenResult → Option Block → M OpenResult
  | 0, _, _, _, _, _ => throw .loop
  | fuel + 1, tdone, continuable, parent, result, lastBlock => do
    let (line, _) ← peekLine
    let lineB := line.getD []
    let len : Int := lineB.length
    let (w, pos) := indentWidthI lineB (← lineOffset)
    modPc fun pc =>
      if pos ≥ len then { pc with blockOffset := -1, blockIndent := -1 }
      else { pc with blockOffset := pos, blockIndent := w }
    if line.isNone then return ← toContinuable continuable result lastBlock
    if (← liftE (idx lineB 0)) == 10 then return ← toContinuable continuable result lastBlock
    let bps ←
      if pos < len then do
        let c ← liftE (idx lineB pos)
        pure ((triggered c).getD freeParsers)
      else pure freeParsers
    retryStepV pts blankLine tdone continuable parent w bps result lastBlock (openBlocksLoopV pts blankLine fuel)

/-- parser.openBlocks (parser.go:928-1024) -/
def openBlocksV (pts : List PT) (parent : Nat) (blankLine : Bool) : M OpenResult := do
  let lastBlock ← lastOpenedBlock
  let continuable ← match lastBlock with
    | some lb => do pure ((← getNode lb.node).kind == .paragraph)
    | none => pure false
  openBlocksLoopV pts blankLine (retryFuel (← source)) false continuable parent .noBlocksOpened lastBlock

/-- parser.go:1081-1123: the `for i := 0; i < l; i++` loop; `rest` = openedBlocks[i:] -/
def lineLoopV (pts : List PT) (parent : Nat) (openedBlocks : List Block) (lastIndex : Int) :
    List Block → Int → List LineStat → M (LineOutcome × List LineStat)
  | [], _, blankLines => pure (.next, blankLines)
  | be :: rest, i, blankLines => do
    let (line, _) ← peekLine
    match line with
    | none =>
      closeBlocksV pts lastIndex 0
      advanceLine
      return (.eof, blankLines)
    | some line =>
      let (lineNum, _) ← position
      let blankLines := blankLines ++ [{ lineNum := lineNum, level := i, isBlank := isBlank line }]
      let beNode ← getNode be.node
      let mut fallThrough := true
      if beNode.kind != .paragraph then
        let state ← bpContinue be.bp be.node
        if state.cont then
          if state.hasChildren && i == lastIndex then
            let blank := isBlankLine (lineNum - 1) i blankLines
            let _ ← openBlocksV pts be.node blank
            return (.next, blankLines)
          fallThrough := false
      if !fallThrough then
        lineLoopV pts parent openedBlocks lastIndex rest (i + 1) blankLines
      else
        let blank := isBlankLine (lineNum - 1) i blankLines
        let thisParent ←
          if i != 0 then do
            let b ← liftE (blockAt openedBlocks (i - 1))
            pure b.node
          else pure parent
        let lastNode ← liftE (blockAt openedBlocks lastIndex)
        let result ← openBlocksV pts thisParent blank
        if result != .paragraphContinuation then
          let now := slotAfter openedBlocks (← getPc).opened lastIndex.toNat
          let lastIndex := if now.map (·.node) != some lastNode.node then lastIndex - 1 else lastIndex
          closeBlocksV pts lastIndex i
        return (.next, blankLines)

/-- parser.go:1074-1126: the `for {}` over lines; `fuel` bounds the number of lines -/
def linesLoopV (pts : List PT) (parent : Nat) : Nat → List LineStat → M (Bool × List LineStat)
  | 0, _ => throw .loop
  | fuel + 1, blankLines => do
    let openedBlocks := (← getPc).opened
    let l := openedBlocks.length
    if l == 0 then return (false, blankLines)             -- `break`
    let (outcome, blankLines) ← lineLoopV pts parent openedBlocks ((l : Int) - 1) openedBlocks 0 blankLines
    match outcome with
    | .eof => return (true, blankLines)                   -- `return` from parseBlocks
    | .next =>
      advanceLine
      linesLoopV pts parent fuel blankLines

/-- parser.go:1055-1127: the outer `for {}`; `fuel` bounds the number of iterations -/
def blocksLoopV (pts : List PT) (parent : Nat) : Nat → List LineStat → M Unit
  | 0, _ => throw .loop
  | fuel + 1, blankLines => do
    let (_, lines, ok) ← skipBlankLinesR
    if !ok then return
    let (lineNum, _) ← position
    let nOpened := (← getPc).opened.length
    let blankLines := if lines != 0 then blankStats lineNum lines nOpened else blankLines
    let blank := isBlankLine (lineNum - 1) 0 blankLines
    if (← openBlocksV pts parent blank) != .newBlocksOpened then return
    advanceLine
    let (ret, blankLines) ← linesLoopV pts parent fuel blankLines
    if ret then return
    blocksLoopV pts parent fuel blankLines

/-- parser.parseBlocks (parser.go:1051-1128) -/
def parseBlocksV (pts : List PT) (parent : Nat) : M Unit := do
  modPc fun pc => { pc with opened := [] }
  blocksLoopV pts parent (linesFuel (← source)) []

/-- the block phase of `parser.Parse` on `src` with the paragraph transformers `pts`: the final state -/
def runV (pts : List PT) (src : Bytes) : Except Panic St :=
  (parseBlocksV pts 0 (initSt src)).map (·.2)

end GM.Blocks
