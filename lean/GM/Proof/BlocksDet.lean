/-
  GM.Proof.BlocksDet — determinacy facts: thematicBreakParser.Open as a function of the line, what the "no" answers of
  thematic / setext Open leave untouched, pure facts about a line that `matchesListItem` recognises, and
  listParser.Continue with the clause "the next-item branch never runs over a thematic break".
-/
import GM.Proof.BlocksInvL

namespace GM.Blocks
open GM GM.Text GM.Spec GM.Proof.Reader

/-! ### pure helpers -/

/-- `k` spaces, then a byte that is neither a space nor a tab -/
theorem det_indentWidthGo (cur : Int) : ∀ (k : Nat) (line : Bytes) (w p : Int) (b : UInt8),
    (∀ i : Nat, i < k → line[i]? = some 32) → line[k]? = some b → b ≠ 32 → b ≠ 9 →
    indentWidthGo cur line w p = (w + k, p + k) := by
  intro k
  induction k with
  | zero =>
    intro line w p b _ hb h32 h9
    cases line with
    | nil => simp at hb
    | cons a l =>
      simp only [List.getElem?_cons_zero, Option.some.injEq] at hb
      subst hb
      unfold indentWidthGo
      simp [h32, h9]
  | succ k ih =>
    intro line w p b hsp hb h32 h9
    cases line with
    | nil => simp at hb
    | cons a l =>
      have ha : a = 32 := by
        have := hsp 0 (by omega)
        simpa using this
      subst ha
      unfold indentWidthGo
      simp only [beq_self_eq_true, if_true]
      rw [ih l (w + 1) (p + 1) b (fun i hi => by have := hsp (i + 1) (by omega); simpa using this)
        (by simpa using hb) h32 h9]
      simp only [Prod.mk.injEq]
      constructor <;> omega

theorem det_indentWidthI_head (b : UInt8) (bs : Bytes) (cur : Int) (h32 : b ≠ 32) (h9 : b ≠ 9) :
    indentWidthI (b :: bs) cur = (0, 0) := by
  unfold indentWidthI indentWidthGo
  simp [h32, h9]

theorem det_numeric_ne (b : UInt8) (h : isNumeric b = true) :
    b ≠ 32 ∧ b ≠ 9 ∧ b ≠ 45 ∧ b ≠ 61 ∧ b ≠ 42 ∧ b ≠ 95 ∧ b ≠ 43 ∧ b ≠ 10 ∧ b ≠ 13 := by
  refine ⟨?_, ?_, ?_, ?_, ?_, ?_, ?_, ?_, ?_⟩ <;> (intro e; subst e; revert h; decide)

/-- the byte at `m.r1` of a recognised item: the bullet marker, or the first digit -/
theorem det_first_byte (line : Bytes) (m : M6) (typ : ListTyp) (ok : ListMatchOK line m typ) (ht : typ ≠ .notList) :
    ∃ b, line[m.r1.toNat]? = some b ∧
      ((typ = .bullet ∧ (b = 45 ∨ b = 42 ∨ b = 43) ∧ (m.r3 - 1).toNat = m.r1.toNat) ∨
       (typ = .ordered ∧ isNumeric b = true)) := by
  cases typ with
  | notList => exact absurd rfl ht
  | bullet =>
    obtain ⟨b, hb, h1, _⟩ := ok.marker
    have e := ok.bullet rfl
    have e2 := ok.r2
    have e3 : (m.r3 - 1).toNat = m.r1.toNat := by omega
    exact ⟨b, by rw [← e3]; exact hb, .inl ⟨rfl, h1 rfl, e3⟩⟩
  | ordered =>
    have e := ok.ordered rfl
    have e2 := ok.r2
    have e0 := ok.r1_ge
    obtain ⟨b, hb, hn⟩ := ok.digits rfl m.r1.toNat (by omega) (by omega)
    exact ⟨b, hb, .inr ⟨rfl, hn⟩⟩

/-! ### 3. a line that `matchesListItem` recognises -/

theorem det_indent_of_item (line : Bytes) (m : M6) (typ : ListTyp) (lo : Int)
    (h : matchesListItem line false = (m, typ)) (ht : typ ≠ .notList) :
    indentWidthI line lo = (m.r1, m.r1) := by
  have ok := matchesListItem_ok line false m typ h ht
  obtain ⟨b, hb, hcase⟩ := det_first_byte line m typ ok ht
  have h0 := ok.r1_ge
  have hne : b ≠ 32 ∧ b ≠ 9 := by
    rcases hcase with ⟨_, hm, _⟩ | ⟨_, hn⟩
    · rcases hm with e | e | e <;> subst e <;> decide
    · have := det_numeric_ne b hn; exact ⟨this.1, this.2.1⟩
  unfold indentWidthI
  rw [det_indentWidthGo lo m.r1.toNat line 0 0 b (fun i hi => ok.spaces i (by omega)) hb hne.1 hne.2]
  simp only [Prod.mk.injEq]
  constructor <;> omega

theorem det_triggered_list (ch : UInt8) (l : List BP) (h : triggered ch = some l) (hl : BP.list ∈ l) :
    ∃ pre, l = pre ++ [BP.list, BP.listItem] ++ freeParsers ∧ ∀ q ∈ pre, q = BP.setext ∨ q = BP.thematic := by
  unfold triggered at h
  split at h
  · cases h; exact ⟨[.setext, .thematic], rfl, by simp⟩
  split at h
  · cases h; exact absurd hl (by decide)
  split at h
  · cases h; exact ⟨[.thematic], rfl, by simp⟩
  split at h
  · cases h; exact absurd hl (by decide)
  split at h
  · cases h; exact ⟨[], rfl, by simp⟩
  split at h
  · cases h; exact absurd hl (by decide)
  split at h
  · cases h; exact absurd hl (by decide)
  split at h
  · cases h; exact absurd hl (by decide)
  split at h
  · cases h; exact absurd hl (by decide)
  · cases h

theorem det_trigger_of_item (line : Bytes) (m : M6) (typ : ListTyp)
    (h : matchesListItem line false = (m, typ)) (ht : typ ≠ .notList) :
    ∃ ch l, line[m.r1.toNat]? = some ch ∧ triggered ch = some l ∧
      ∃ pre, l = pre ++ [BP.list, BP.listItem] ++ freeParsers ∧ ∀ q ∈ pre, q = BP.setext ∨ q = BP.thematic := by
  have ok := matchesListItem_ok line false m typ h ht
  obtain ⟨b, hb, hcase⟩ := det_first_byte line m typ ok ht
  have key : ∃ l, triggered b = some l ∧ BP.list ∈ l := by
    rcases hcase with ⟨_, hm, _⟩ | ⟨_, hn⟩
    · rcases hm with e | e | e <;> subst e
      · exact ⟨_, rfl, by decide⟩
      · exact ⟨_, rfl, by decide⟩
      · exact ⟨_, rfl, by decide⟩
    · obtain ⟨_, _, h45, h61, h42, h95, _⟩ := det_numeric_ne b hn
      refine ⟨[.list, .listItem] ++ freeParsers, ?_, by decide⟩
      unfold triggered
      simp [h45, h61, h42, h95, hn]
  obtain ⟨l, hl, hmem⟩ := key
  exact ⟨b, l, hb, hl, det_triggered_list b l hl hmem⟩

/-! #### thematic break / setext bar of the tail -/

theorem det_isThematicBreak_eq (line : Bytes) (off : Int) :
    isThematicBreak line off =
      if (indentWidthI line off).1 > 3 then false else tbLoop (line.drop (indentWidthI line off).2.toNat) 0 0 := rfl

theorem det_tbLoop_space (mark : UInt8) (count : Nat) : ∀ l : Bytes, (∀ y ∈ l, isSpace y = true) →
    tbLoop l mark count = decide (count > 2) := by
  intro l
  induction l with
  | nil => intro _; simp [tbLoop]
  | cons a l ih =>
    intro h
    unfold tbLoop
    rw [if_pos (h a (by simp))]
    exact ih (fun y hy => h y (by simp [hy]))

theorem det_getElem?_drop_cons (l : Bytes) (k : Nat) (b : UInt8) (h : l[k]? = some b) :
    l.drop k = b :: l.drop (k + 1) := by
  obtain ⟨hlt, e⟩ := List.getElem?_eq_some_iff.mp h
  rw [List.drop_eq_getElem_cons hlt, e]

theorem det_thematic_of_item (line : Bytes) (m : M6) (typ : ListTyp) (lo : Int)
    (h : matchesListItem line false = (m, typ)) (ht : typ ≠ .notList) :
    isThematicBreak line lo = (typ == .bullet && isThematicBreak (line.drop (m.r3 - 1).toNat) 0) := by
  have ok := matchesListItem_ok line false m typ h ht
  obtain ⟨b, hb, hcase⟩ := det_first_byte line m typ ok ht
  have hiw := det_indent_of_item line m typ lo h ht
  have h3 := ok.r1_le
  have hd := det_getElem?_drop_cons line m.r1.toNat b hb
  rw [det_isThematicBreak_eq line lo, hiw]
  simp only
  rw [if_neg (by omega), hd]
  rcases hcase with ⟨htyp, hm, he⟩ | ⟨htyp, hn⟩
  · subst htyp
    have hne : b ≠ 32 ∧ b ≠ 9 := by rcases hm with e | e | e <;> subst e <;> decide
    rw [he, hd, det_isThematicBreak_eq, det_indentWidthI_head b _ 0 hne.1 hne.2]
    simp
  · subst htyp
    obtain ⟨_, _, h45, _, h42, h95, _, h10, h13⟩ := det_numeric_ne b hn
    have hsp : isSpace b = false := by
      have := det_numeric_ne b hn
      simp [isSpace, this.1, this.2.1, h10, h13]
    unfold tbLoop
    simp [hsp, h45, h42, h95]

theorem det_takeWhile_append_le {α} (p : α → Bool) (y : α) (hy : p y = false) : ∀ (A B : List α),
    ((A ++ y :: B).takeWhile p).length ≤ A.length := by
  intro A
  induction A with
  | nil => intro B; simp [hy]
  | cons a A ih =>
    intro B
    simp only [List.cons_append, List.takeWhile]
    cases p a with
    | true => simp only [List.length_cons]; have := ih B; omega
    | false => simp

theorem det_trimRight_le (pre post : Bytes) (y : UInt8) (hy : isSpace y = false) :
    trimRightSpaceLength (pre ++ y :: post) ≤ post.length := by
  unfold trimRightSpaceLength
  have e : (pre ++ y :: post).reverse = post.reverse ++ y :: pre.reverse := by simp
  rw [e]
  have := det_takeWhile_append_le isSpace y hy post.reverse pre.reverse
  simpa using this

/-- a line without leading space or `=`, with at most one leading `-`, of which at least two bytes survive
    right-trimming: not a setext underline -/
theorem det_setext_bar_aux (L : Bytes) (hc32 : countLeading 32 L = 0) (hc61 : countLeading 61 L = 0)
    (hc45 : countLeading 45 L ≤ 1) (htrim : trimRightSpaceLength L + 2 ≤ L.length) (ch : UInt8)
    (h : matchesSetextHeadingBar L = .ok (ch, true)) : False := by
  unfold matchesSetextHeadingBar at h
  have hsl : slice L 0 L.length = .ok L := by
    unfold slice sliceB
    rw [if_pos ⟨Int.le_refl _, by omega, Int.le_refl _⟩]
    simp [sub]
  obtain ⟨last, hlast, _⟩ := idx_ok L ((L.length : Int) - 1) (by omega) (by omega)
  simp only [bind, Except.bind, pure, Except.pure, hc32] at h
  simp only [Int.cast_ofNat_Int] at h
  rw [if_neg (by omega), hsl] at h
  simp only [hlast, hc61] at h
  generalize hstop : (if isSpace last = true then (L.length : Int) - trimRightSpaceLength L else L.length) = stop at h
  have hst : 2 ≤ stop := by rw [← hstop]; split <;> omega
  simp at h
  rw [if_pos (Or.inr (by omega))] at h
  cases h

theorem det_countLeading_head_ne (c b : UInt8) (l : Bytes) (h : b ≠ c) : countLeading c (b :: l) = 0 := by
  have e : (b == c) = false := by simpa using h
  simp [countLeading, List.takeWhile, e]

theorem det_countLeading_le_one (c b : UInt8) (l : Bytes) (h : l = [] ∨ ∃ d ds, l = d :: ds ∧ d ≠ c) :
    countLeading c (b :: l) ≤ 1 := by
  rcases h with h | ⟨d, ds, h, hd⟩ <;> subst h
  · unfold countLeading; simp only [List.takeWhile]; split <;> simp
  · unfold countLeading; simp only [List.takeWhile]
    have : (d == c) = false := by simpa using hd
    rw [this]
    split <;> simp

/-- a marker byte followed by nothing or by a byte that is not `-`: as a setext underline, only white space follows -/
theorem det_setext_bar (b : UInt8) (rest : Bytes) (h32 : b ≠ 32) (h61 : b ≠ 61)
    (hrest : rest = [] ∨ ∃ d ds, rest = d :: ds ∧ d ≠ 45) (ch : UInt8)
    (h : matchesSetextHeadingBar (b :: rest) = .ok (ch, true)) : ∀ y ∈ rest, isSpace y = true := by
  intro y hy
  cases hsy : isSpace y with
  | true => rfl
  | false =>
    exfalso
    obtain ⟨pre, post, e⟩ := List.append_of_mem hy
    refine det_setext_bar_aux (b :: rest) (det_countLeading_head_ne 32 b rest h32) (det_countLeading_head_ne 61 b rest h61)
      (det_countLeading_le_one 45 b rest hrest) ?_ ch h
    have := det_trimRight_le (b :: pre) post y hsy
    subst e
    simp only [List.cons_append, List.length_cons, List.length_append] at this ⊢
    omega

theorem det_no_heading (line : Bytes) (m : M6) (typ : ListTyp)
    (h : matchesListItem line false = (m, typ)) (ht : typ ≠ .notList)
    (hth : isThematicBreak (line.drop (m.r3 - 1).toNat) 0 = true) :
    ∀ ch ok, matchesSetextHeadingBar (line.drop (m.r3 - 1).toNat) = .ok (ch, ok) → ¬ (ok = true ∧ ch = 45) := by
  intro ch okb hbar hc
  obtain ⟨hokb, _⟩ := hc
  subst hokb
  have ok := matchesListItem_ok line false m typ h ht
  obtain ⟨b, hb, _, _, hmk⟩ := ok.marker
  have hd := det_getElem?_drop_cons line (m.r3 - 1).toNat b hb
  rw [hd] at hth hbar
  have hne : b ≠ 32 ∧ b ≠ 9 ∧ b ≠ 61 ∧ isSpace b = false := by
    rcases hmk with e | e | e | e | e <;> subst e <;> decide
  have hrest : line.drop ((m.r3 - 1).toNat + 1) = [] ∨
      ∃ d ds, line.drop ((m.r3 - 1).toNat + 1) = d :: ds ∧ d ≠ 45 := by
    have := ok.r1_ge; have := ok.r2; have := ok.r3_gt
    have e3 : (m.r3 - 1).toNat + 1 = m.r3.toNat := by omega
    rw [e3]
    rcases ok.tail with ⟨_, _, e⟩ | ⟨e4, _, _, _, _, d, hd4, hdc⟩
    · exact .inl (List.drop_eq_nil_of_le (by omega))
    · rw [e4] at hd4
      refine .inr ⟨d, _, det_getElem?_drop_cons line m.r3.toNat d hd4, ?_⟩
      rcases hdc with e | e | e <;> subst e <;> decide
  have hall := det_setext_bar b _ hne.1 hne.2.2.1 hrest ch hbar
  rw [det_isThematicBreak_eq, det_indentWidthI_head b _ 0 hne.1 hne.2.1] at hth
  simp only [Int.toNat_zero, List.drop_zero] at hth
  rw [if_neg (by omega)] at hth
  unfold tbLoop at hth
  rw [if_neg (by rw [hne.2.2.2]; simp)] at hth
  simp only [beq_self_eq_true, if_true] at hth
  split at hth
  · rw [det_tbLoop_space _ _ _ hall] at hth
    simp at hth
  · cases hth

/-! ### 1. thematicBreakParser.Open -/

theorem thematicOpen_det (src : Bytes) (parent : Nat) (s : St) (c : RCur) (h : RI src s.r c) (hlt : c.p < src.length) :
    OKL (fun a s' => a.1.isSome = isThematicBreak ((RCur.view src c).getD []) (loVal src c) ∧
        (a.1 = none → s'.pc = s.pc ∧ s'.nodes = s.nodes)) (thematicOpen parent s) := by
  unfold thematicOpen
  refine OKL.bind (peekLine_okl h) (fun x s1 hx => ?_)
  obtain ⟨hx, r1, hs1, h1⟩ := hx
  subst hx hs1
  simp only
  refine OKL.bind (lineOffset_okl (s := { s with r := r1 }) h1) (fun lo s2 hlo => ?_)
  obtain ⟨hlo, r2, hs2, h2⟩ := hlo
  have hlo := hlo hlt
  subst hlo hs2
  by_cases hb : isThematicBreak ((RCur.view src c).getD []) (loVal src c) = true
  · rw [if_pos hb]
    have hv := view_eq src c hlt
    have hl := view_len src c hlt hv
    have hl2 := view_length src c hlt hv
    have hlen : 0 ≤ (RCur.seg src c).len - 1 := by omega
    refine OKL.bind (advance_okl (s := { s with r := r2 }) h2 hlen) (fun _ s4 h4 => ?_)
    obtain ⟨r4, hs4, h4⟩ := h4
    subst hs4
    simp only [bind, StateT.bind, newNode, pure, StateT.pure, Except.bind, Except.pure]
    exact OKL.ok ⟨by rw [hb]; rfl, fun hh => (by cases hh)⟩
  · rw [if_neg hb]
    have hb' : isThematicBreak ((RCur.view src c).getD []) (loVal src c) = false := by
      cases hh : isThematicBreak ((RCur.view src c).getD []) (loVal src c) with
      | true => exact absurd hh hb
      | false => rfl
    exact OKL.ok ⟨by rw [hb']; rfl, fun _ => ⟨rfl, rfl⟩⟩

/-! ### 2. setextHeadingParser.Open -/

theorem setextOpen_none (src : Bytes) (parent : Nat) (s : St) (c : RCur) (h : RI src s.r c) (hlt : c.p < src.length) :
    OKL (fun a s' => a.1 = none → s'.pc = s.pc ∧ s'.nodes = s.nodes) (setextOpen parent s) := by
  unfold setextOpen
  have fin : ∀ r1, OKL (fun (a : Option Nat × PState) s' => a.1 = none → s'.pc = s.pc ∧ s'.nodes = s.nodes)
      (.ok ((none, stNoChildren), { s with r := r1 })) := fun r1 => OKL.ok (fun _ => ⟨rfl, rfl⟩)
  refine OKL.bind (m := lastOpenedBlock) (P := fun v s' => s' = s) (OKL.ok rfl) (fun v s1 hs1 => ?_)
  subst hs1
  cases v with
  | none => exact fin s1.r
  | some lb =>
    simp only
    refine OKL.bind (m := getNode lb.node) (P := fun v s' => s' = s1) (OKL.ok rfl) (fun ln s2 hs2 => ?_)
    subst hs2
    by_cases hg : (ln.kind != Kind.paragraph || ln.parent != some parent) = true
    · rw [if_pos hg]; exact fin s2.r
    · rw [if_neg hg]
      refine OKL.bind (peekLine_okl h) (fun x s3 hx => ?_)
      obtain ⟨hx, r1, hs3, h1⟩ := hx
      subst hx hs3
      simp only
      have hv := view_eq src c hlt
      have hl2 := view_length src c hlt hv
      obtain ⟨v, hm⟩ := matchesSetextHeadingBar_total ((RCur.view src c).getD [])
        (by rw [hv]; simp only [Option.getD_some]; intro e; rw [e] at hl2; simp at hl2)
      refine OKL.bind (liftE_okl (P := fun a s' => a = v ∧ s' = { s2 with r := r1 }) hm ⟨rfl, rfl⟩) (fun a s4 ha => ?_)
      obtain ⟨ha, hs4⟩ := ha
      subst ha hs4
      obtain ⟨ch, ok⟩ := a
      simp only
      by_cases hok : (!ok) = true
      · rw [if_pos hok]; exact fin r1
      · rw [if_neg hok]
        simp only [bind, StateT.bind, newNode, appendLine, modNode, modPc, pure, StateT.pure, Except.bind, Except.pure]
        exact OKL.ok (fun hh => (by cases hh))

/-! ### 4. listParser.Continue -/

theorem det_okl_and {α} {P Q : α → St → Prop} {x : Except Panic (α × St)} (hp : OKL P x) (hq : OKL Q x) :
    OKL (fun a s => P a s ∧ Q a s) x := by
  rcases hp with ⟨a, s', h1, h2⟩ | h1
  · rcases hq with ⟨a', s'', h3, h4⟩ | h3
    · rw [h1] at h3; cases h3
      exact .inl ⟨a, s', h1, h2, h4⟩
    · rw [h1] at h3; cases h3
  · exact .inr h1

/-- list.go:196-204 when the tail cannot be a level-2 setext underline: the answer is Close -/
theorem det_listContSetext (tail : Bytes) (lastIsPara : Bool) (hne : tail ≠ [])
    (hnh : ∀ ch ok, matchesSetextHeadingBar tail = .ok (ch, ok) → ¬ (ok = true ∧ ch = 45)) (s : St) :
    OKL (fun st _ => st = stClose) (listContSetext tail lastIsPara s) := by
  unfold listContSetext
  obtain ⟨⟨c, okb⟩, hr⟩ := matchesSetextHeadingBar_total tail hne
  cases lastIsPara with
  | false => exact OKL.ok rfl
  | true =>
    simp only [if_true, bind, StateT.bind, liftE, hr, Except.map, Except.bind]
    by_cases h : (okb && c == 45) = true
    · exfalso
      simp only [Bool.and_eq_true, beq_iff_eq] at h
      exact hnh c okb hr h
    · rw [if_neg h]; exact OKL.ok rfl

/-- list.go:187-207: when the answer is Continue, the rest of the line from the marker on is not a thematic break -/
theorem det_listContNewItem (list : Node) (line : Bytes) (m : M6) (typ : ListTyp)
    (hm : matchesListItem line false = (m, typ)) (ht : typ ≠ .notList) (s : St) :
    OKL (fun st _ => st.cont = true → isThematicBreak (line.drop (m.r3 - 1).toNat) 0 = false)
      (listContNewItem list line m typ s) := by
  have ok := matchesListItem_ok line false m typ hm ht
  unfold listContNewItem
  obtain ⟨b, hb, hb', _⟩ := ok.idx_marker
  obtain ⟨hsf, hne⟩ := ok.sliceFrom_marker
  refine OKL.bind (liftE_okl (P := fun a s' => a = b ∧ s' = s) hb ⟨rfl, rfl⟩) (fun a s1 ha => ?_)
  obtain ⟨ha, hs1⟩ := ha
  subst ha hs1
  by_cases h1 : (!(a == list.marker && (typ == ListTyp.ordered) == markerOrdered list.marker)) = true
  · rw [if_pos h1]; exact OKL.ok (fun hh => (by cases hh))
  · rw [if_neg h1]
    refine OKL.bind (liftE_okl (P := fun a s' => a = line.drop (m.r3 - 1).toNat ∧ s' = s1) hsf ⟨rfl, rfl⟩)
      (fun tail s2 htl => ?_)
    obtain ⟨htl, hs2⟩ := htl
    subst htl hs2
    by_cases h2 : isThematicBreak (List.drop (m.r3 - 1).toNat line) 0 = true
    · rw [if_pos h2]
      refine OKL.bind (m := lastOpenedBlock) (P := fun v s' => s' = s2) (OKL.ok rfl) (fun last s3 hs3 => ?_)
      subst hs3
      have hnh := det_no_heading line m typ hm ht h2
      suffices tl : ∀ lp, OKL (fun st _ => st.cont = true → isThematicBreak (line.drop (m.r3 - 1).toNat) 0 = false)
          (listContSetext (List.drop (m.r3 - 1).toNat line) lp s3) by
        cases last with
        | none => exact tl false
        | some lb => exact tl ((nd s3 lb.node).kind == .paragraph)
      intro lp
      exact (det_listContSetext _ lp hne hnh s3).mono (fun st _ h hc => by rw [h] at hc; cases hc)
    · rw [if_neg h2]
      exact OKL.ok (fun _ => by
        cases hh : isThematicBreak (List.drop (m.r3 - 1).toNat line) 0 with
        | true => exact absurd hh h2
        | false => rfl)

/-- list.go:181-245: the answer Continue through the "next item" branch is never given over a thematic break -/
theorem det_listContLine (list : Node) (line : Bytes) (offset : Int) (lastIsEmpty : Bool) (indent : Int) (s : St) :
    OKL (fun st _ => st.cont = true → indent < 4 → (indent < offset ∨ lastIsEmpty = true) → LineIsItem line offset →
        ∀ lo, isThematicBreak line lo = false)
      (listContLine list line offset lastIsEmpty indent s) := by
  have H := listContLine_okl list line offset lastIsEmpty indent s
  unfold listContLine at H ⊢
  by_cases h1 : (decide (indent < offset) || lastIsEmpty) = true
  · rw [if_pos h1] at H ⊢
    simp only at H ⊢
    by_cases h2 : indent < 4
    · rw [if_pos h2] at H ⊢
      generalize hm : matchesListItem line false = x at H ⊢
      obtain ⟨m, typ⟩ := x
      simp only at H ⊢
      by_cases h4 : (typ != ListTyp.notList && decide (m.r1 - offset < 4)) = true
      · rw [if_pos h4]
        have h4' : typ ≠ .notList ∧ m.r1 - offset < 4 := by simpa using h4
        refine (det_listContNewItem list line m typ hm h4'.1 s).mono (fun st _ h hc _ _ _ lo => ?_)
        rw [det_thematic_of_item line m typ lo hm h4'.1, h hc]
        simp
      · rw [if_neg h4] at H ⊢
        refine H.mono (fun st _ _ _ _ _ hi => ?_)
        exfalso
        obtain ⟨m', typ', e, k1, k2⟩ := hi
        rw [hm] at e; cases e
        apply h4; simp [k1, k2]
    · rw [if_neg h2] at H ⊢
      exact H.mono (fun st _ _ _ hh => absurd hh h2)
  · rw [if_neg h1] at H ⊢
    refine H.mono (fun st _ _ _ _ hh => ?_)
    exfalso; apply h1
    rcases hh with hh | hh
    · simp [hh]
    · simp [hh]

theorem listContinue_okl2 (src : Bytes) (node : Nat) (s : St) (c : RCur) (h : RI src s.r c) (hlt : c.p < src.length)
    (hitem : ListHasItem s node) :
    OKL (fun st s' => ∃ r', s'.r = r' ∧ RI src r' c ∧ s'.nodes = s.nodes ∧ s'.pc.opened = s.pc.opened ∧
        s'.pc.blockOffset = s.pc.blockOffset ∧ s'.pc.blockIndent = s.pc.blockIndent ∧
        s'.pc.tmpPara = s.pc.tmpPara ∧ s'.pc.fence = s.pc.fence ∧ s'.pc.skipList = s.pc.skipList ∧
        (st.cont = true → st.hasChildren = true) ∧
        ∀ lc, (nd s node).children.getLast? = some lc →
          (isBlank ((RCur.view src c).getD []) = true → st = stContinueHasChildren ∧
            s'.pc = (if (nd s lc).children.isEmpty then { s.pc with emptyItemBlank := true } else s.pc)) ∧
          (isBlank ((RCur.view src c).getD []) = false → s'.pc = s.pc ∧
            ListGoesOn (nd s node) ((RCur.view src c).getD []) (nd s lc).offset (nd s lc).children.isEmpty
              (indentWidthI ((RCur.view src c).getD []) (loVal src c)).1 s.pc.emptyItemBlank st ∧
            (st.cont = true → (indentWidthI ((RCur.view src c).getD []) (loVal src c)).1 < 4 →
              ((indentWidthI ((RCur.view src c).getD []) (loVal src c)).1 < (nd s lc).offset ∨
                (nd s lc).children.isEmpty = true) →
              LineIsItem ((RCur.view src c).getD []) (nd s lc).offset →
              isThematicBreak ((RCur.view src c).getD []) (loVal src c) = false)))
      (listContinue node s) := by
  rw [listContinue_eq]
  obtain ⟨lc, hlc, hk⟩ := hitem
  refine OKL.bind (getNode_okl node s) (fun list s0 hl => ?_)
  obtain ⟨hl, hs0⟩ := hl
  subst hl hs0
  refine OKL.bind (peekLine_okl h) (fun x s1 hx => ?_)
  obtain ⟨hx, r1, hs1, h1⟩ := hx
  subst hx hs1
  simp only
  generalize (RCur.view src c).getD [] = line
  by_cases hb : isBlank line = true
  · rw [if_pos hb]
    refine OKL.bind (lastChildCount_okl { s0 with r := r1 } node lc hlc) (fun cnt s2 hc => ?_)
    obtain ⟨hc, hs2⟩ := hc
    subst hc hs2
    rw [length_beq_zero]
    have hnb : ¬ isBlank line = false := by rw [hb]; simp
    by_cases h0 : (nd s0 lc).children.isEmpty = true
    · rw [if_pos h0]
      simp only [bind, StateT.bind, modPc, pure, StateT.pure, Except.bind, Except.pure]
      refine OKL.ok ⟨r1, rfl, h1, rfl, rfl, rfl, rfl, rfl, rfl, rfl, fun _ => rfl, fun lc' hlc' => ?_⟩
      rw [hlc] at hlc'; cases hlc'
      exact ⟨fun _ => ⟨rfl, by rw [if_pos h0]⟩, fun hh => absurd hh hnb⟩
    · rw [if_neg h0]
      refine OKL.ok ⟨r1, rfl, h1, rfl, rfl, rfl, rfl, rfl, rfl, rfl, fun _ => rfl, fun lc' hlc' => ?_⟩
      rw [hlc] at hlc'; cases hlc'
      exact ⟨fun _ => ⟨rfl, by rw [if_neg h0]⟩, fun hh => absurd hh hnb⟩
  · rw [if_neg hb]
    refine OKL.bind (lastOffset_okl { s0 with r := r1 } node lc hlc hk) (fun off s2 ho => ?_)
    obtain ⟨ho, hs2⟩ := ho
    subst ho hs2
    refine OKL.bind (lastChildCount_okl { s0 with r := r1 } node lc hlc) (fun cnt s3 hc => ?_)
    obtain ⟨hc, hs3⟩ := hc
    subst hc hs3
    rw [length_beq_zero]
    refine OKL.bind (lineOffset_okl (s := { s0 with r := r1 }) h1) (fun lo s4 hlo => ?_)
    obtain ⟨hlo, r2, hs4, h2⟩ := hlo
    have hlo := hlo hlt
    subst hlo hs4
    generalize hiw : indentWidthI line (loVal src c) = iw
    obtain ⟨indent, pos⟩ := iw
    simp only
    refine (det_okl_and
      (listContLine_okl (nd s0 node) line (nd s0 lc).offset (nd s0 lc).children.isEmpty indent { s0 with r := r2 })
      (det_listContLine (nd s0 node) line (nd s0 lc).offset (nd s0 lc).children.isEmpty indent
        { s0 with r := r2 })).mono (fun st s' hp => ?_)
    obtain ⟨⟨hs', hgo⟩, hdet⟩ := hp
    subst hs'
    refine ⟨r2, rfl, h2, rfl, rfl, rfl, rfl, rfl, rfl, rfl, fun hc => ?_, fun lc' hlc' => ?_⟩
    · rcases hgo.1 with e | e <;> rw [e] at hc ⊢
      · cases hc
      · rfl
    · rw [hlc] at hlc'; cases hlc'
      exact ⟨fun hh => absurd hh hb, fun _ => ⟨rfl, hgo, fun k1 k2 k3 k4 => hdet k1 k2 k3 k4 _⟩⟩

end GM.Blocks
