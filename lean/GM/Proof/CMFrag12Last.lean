/-
  GM.Proof.CMFrag12Last — stage 12 without the final line feed: the LAST block is an indented code block whose last line
  ends the source. The line is taken by `codeBlockParser.Open` / `Continue` like every other line (the segment ends with
  the source, ForceNewline supplies the line feed of its value), the end of the source closes the block.
-/
import GM.Proof.CMFrag7Last

namespace GM.Proof.CMFrag
open GM GM.Text GM.Blocks GM.Spec

section last12
variable {src : Bytes}

theorem seg_value12E (p e : Nat) (v : Bytes) (hsub : sub src p e = v) (hpe : p ≤ e) (he : e ≤ src.length)
    (hne : v ≠ []) (hnn : v.getLast? ≠ some 10) : (csg p e).value src = .ok (v ++ [10]) := by
  have c2 : (0 ≤ (p : Int) ∧ (p : Int) ≤ (e : Int) ∧ (e : Int) ≤ (src.length : Int)) := by omega
  have h1 : v.isEmpty = false := by cases v with
    | nil => exact absurd rfl hne
    | cons a t => rfl
  have h2 : (v.getLast? != some 10) = true := by simpa [bne_iff_ne] using hnn
  simp [csg, Segment.value, sliceB, c2, needsNewline, hsub, h1, h2, bind, Except.bind, pure, Except.pure]

/-- the segment of the last line (no line feed) of an indented code block -/
theorem fullSeg_icE {Q : Nat} {l : Bytes} (hl : LastLn src Q (ind4 ++ l)) (hg : IcLine l) :
    FullSeg src (csg (Q + 4) (Q + 4 + l.length)) := by
  obtain ⟨c, t, rfl, hc⟩ := hg.first
  have hln := hl.ln
  have hle := hln.le
  have hlen : (ind4 ++ c :: t).length = 4 + (c :: t).length := by simp [ind4]; omega
  rw [hlen] at hln hle
  have hsub : sub src (Q + 4) (Q + (4 + (c :: t).length)) = c :: t := by
    have := sub_shift (src := src) (p := Q) (e := Q + (4 + (c :: t).length)) (a := ind4) (w := c :: t) (by rw [hln.sub])
    simpa [ind4] using this
  have e : Q + 4 + (c :: t).length = Q + (4 + (c :: t).length) := by omega
  rw [e]
  refine ⟨(c :: t) ++ [10], ?_, by simp [isBlank, hc]⟩
  refine seg_value12E (Q + 4) (Q + (4 + (c :: t).length)) (c :: t) hsub (by omega) hle (by simp) ?_
  intro h
  exact hg.noNl 10 (List.mem_of_getLast? h) rfl

theorem icsegsE_snoc : ∀ (xs : List Bytes) (l : Bytes) (p : Nat),
    icsegsE p (xs ++ [l]) = icsegs p xs ++
      [csg (p + (paraBytes (icLines xs)).length + 4) (p + (paraBytes (icLines xs)).length + 4 + l.length)]
  | [], l, p => by simp [icsegsE, icsegs, paraBytes, icLines]
  | a :: rest, l, p => by
    have ih := icsegsE_snoc rest l (p + 4 + a.length + 1)
    have e : p + 4 + a.length + 1 + (paraBytes (icLines rest)).length = p + (paraBytes (icLines (a :: rest))).length := by
      simp [icLines, paraBytes, ind4]; omega
    cases h : rest ++ [l] with
    | nil => simp at h
    | cons y ys =>
      rw [h] at ih
      simp only [List.cons_append, h, icsegsE, icsegs, ih, e]

/-- the end of the source with the CodeBlock (no blank line absorbed) open -/
theorem linesLoop_code_eofA (k : Int) (d : Blocks.Node) (rest : List Blocks.Node) (A : List Segment) (s : Segment)
    (b : Bool) (hs : FullSeg src s) (pc : Ctx) (hop : pc.opened = [{ node := rest.length + 1, bp := .code }])
    (bl : List LineStat) (f : Nat) :
    linesLoopT pts 0 (f + 1) bl
        ⟨rdr src k src.length src.length (lineEnd src src.length) none (-1), d :: (rest ++ [codeN (A ++ [s]) b]), pc⟩ =
      .ok ((true, bl),
        ⟨rdr src (k + 1) (lineEnd src src.length) (lineEnd src src.length) (lineEnd src (lineEnd src src.length)) none (-1),
          d :: (rest ++ [codeN (A ++ [s]) b]), { pc with opened := [] }⟩) := by
  have e1 : (((1 : Nat) : Int) - 1) = 0 := by decide
  have e0 : ((1 : Nat) == 0) = false := rfl
  have h := lineLoop_code_eof (src := src) k (lineEnd src src.length) d rest A s [] b hs (by simp) pc hop bl
  simp only [List.append_nil] at h
  rw [linesLoopT]
  simp only [bind_apply, getPc_run, hop, List.length_singleton, e1, e0, Bool.false_eq_true, if_false, h]
  simp [pure_apply]

/-- the per-line loop over the further lines `mid` (with line feed) and the last line `l` (without) of the open indented
    code block, to the end of the source -/
theorem ic_run_last (d : Blocks.Node) (rest : List Blocks.Node) (b : Bool) (P : Nat) (done mid : List Bytes) (l : Bytes)
    (hmid : ParaAt src (P + (paraBytes (icLines done)).length) (icLines mid)) (hgm : ∀ x ∈ mid, IcLine x)
    (hl : LastLn src (P + (paraBytes (icLines (done ++ mid))).length) (ind4 ++ l)) (hgl : IcLine l)
    (k : Int) (fl : Nat) (bl : List LineStat) (pc : Ctx)
    (hop : pc.opened = [{ node := rest.length + 1, bp := .code }]) (hf : mid.length + 2 ≤ fl) :
    ∃ bl' s',
      linesLoopT pts 0 fl bl
          ⟨rdr src k (P + (paraBytes (icLines done)).length) (P + (paraBytes (icLines done)).length)
            (lineEnd src (P + (paraBytes (icLines done)).length)) none (-1),
            d :: (rest ++ [codeN (icsegs P done) b]), pc⟩ = .ok ((true, bl'), s') ∧
        s'.nodes = d :: (rest ++ [codeN (icsegsE P (done ++ mid ++ [l])) b]) ∧ s'.pc.refs = pc.refs := by
  obtain ⟨f, rfl⟩ : ∃ f, fl = (f + 1 + 1) + mid.length := ⟨fl - mid.length - 2, by omega⟩
  obtain ⟨bl1, k1, hbody⟩ := code_body (src := src) d rest b P mid done k (f + 1 + 1) bl pc hmid hgm hop
  obtain ⟨c, t, hlc, hc⟩ := hgl.first
  have hln := hl.ln
  have hlen : (ind4 ++ l).length = 4 + l.length := by simp [ind4]; omega
  have hpass := pass_next hln k1 _ _ pc _ _ hop bl1 _ _ _ (f + 1)
    (lineLoop_code_cont hln (c := c) (t := t) (by rw [hlc]) hc k1 d rest (icsegs P (done ++ mid)) b pc bl1)
  rw [hl.eof] at hpass
  have hfs := fullSeg_icE hl hgl
  have hfin := linesLoop_code_eofA (src := src) (k1 + 1) d rest (icsegs P (done ++ mid))
    (csg (P + (paraBytes (icLines (done ++ mid))).length + 4) (P + (paraBytes (icLines (done ++ mid))).length + 4 + l.length))
    b hfs pc hop (bl1 ++ [{ lineNum := k1, level := 0, isBlank := isBlank (ind4 ++ l) }]) f
  have eend : P + (paraBytes (icLines (done ++ mid))).length + 4 + l.length = src.length := by
    have := hl.eof; rw [hlen] at this; omega
  rw [eend] at hfin
  refine ⟨_, _, hbody.trans (hpass.trans hfin), ?_, rfl⟩
  simp only
  rw [icsegsE_snoc, eend]
theorem icLines_snoc (xs : List Bytes) (l : Bytes) : icLines (xs ++ [l]) = icLines xs ++ [ind4 ++ l] := by
  simp [icLines]

/-- the last block is an indented code block: from a block boundary -/
theorem lastB_ic (ls : List Bytes) (hne : ls ≠ []) (hg : ∀ l ∈ ls, IcLine l) {q s : Nat}
    (hd : LastDoc src q s (.icode ls)) (k : Int) (f : Nat) (bl : List LineStat) (d : Blocks.Node)
    (cs : List Blocks.Node) (pc : Ctx) (hop : pc.opened = []) (hf : ls.length + 1 ≤ f) :
    ∃ s' bk, blocksLoopT pts 0 (f + 1) bl ⟨rdr src k q q (lineEnd src q) none (-1), d :: cs, pc⟩ = .ok ((), s') ∧
      s'.nodes = { d with children := d.children ++ [cs.length + 1] } :: (cs ++ [node5E (q + s) (.icode ls) bk]) ∧
      s'.pc.refs = pc.refs := by
  obtain ⟨hbl, hE⟩ := hd
  obtain ⟨xs, l, rfl⟩ : ∃ xs l, ls = xs ++ [l] := ⟨ls.dropLast, ls.getLast hne, (List.dropLast_concat_getLast hne).symm⟩
  have hE' : ParaAtE src (q + s) (icLines xs ++ [ind4 ++ l]) := by
    have := hE; simp only [lines5, icLines_snoc] at this; exact this
  obtain ⟨hpa, hl⟩ := (paraAtE_snoc _ _ (q + s)).mp hE'
  have hgl : IcLine l := hg l (by simp)
  have hgx : ∀ x ∈ xs, IcLine x := fun x hx => hg x (by simp [hx])
  cases xs with
  | nil =>
    obtain ⟨c, t, hlc, hc⟩ := hgl.first
    have hln := hl.ln
    have heof := hl.eof
    simp only [icLines, List.map_nil, paraBytes, List.flatMap_nil, List.length_nil, Nat.add_zero] at hln heof hl
    have hv : ind4 ++ l = ind4 ++ c :: t := by rw [hlc]
    have hnb : isBlank (ind4 ++ l) = false := by rw [hv]; exact ic_notBlank hc
    have hlen : (ind4 ++ l).length = 4 + l.length := by simp [ind4]; omega
    obtain ⟨f', rfl⟩ : ∃ f', f = f' + 1 := ⟨f - 1, by simp at hf; omega⟩
    have hfs : FullSeg src (csg (q + s + 4) (q + s + 4 + l.length)) := fullSeg_icE hl hgl
    have eend : q + s + 4 + l.length = src.length := by rw [hlen] at heof; omega
    have heof' : q + s + (ind4 ++ l).length = src.length := heof
    refine ⟨⟨rdr src (k + s + 1 + 1) (lineEnd src src.length) (lineEnd src src.length)
        (lineEnd src (lineEnd src src.length)) none (-1),
        { d with children := d.children ++ [cs.length + 1] } ::
          (cs ++ [codeN ([] ++ [csg (q + s + 4) src.length])
            (isBlankLine (k + (s : Int) - 1) 0 (if ((s : Int) != 0) = true then [] else bl))]),
        { pc with blockOffset := 4, blockIndent := 4, opened := [] }⟩,
      isBlankLine (k + (s : Int) - 1) 0 (if ((s : Int) != 0) = true then [] else bl), ?_,
      by simp [node5E, icsegsE, eend], rfl⟩
    rw [blocksLoopT]
    simp only [bind_apply, skipR_text k hbl hln hnb, Bool.not_true, Bool.false_eq_true, if_false, position_run,
      getPc_run, hop, List.length_nil, rdr_line, blankStats,
      openBlocks_ic hln hv hc _ d cs pc hop _ (some (ind4 ++ l)) (Or.inr rfl)]
    simp only [bne_self_eq_false, Bool.false_eq_true, if_false, bind_apply, advanceLine_run]
    rw [heof']
    have hn : ∀ bk, codeN [csg (q + s + 4) src.length] bk = codeN ([] ++ [csg (q + s + 4) src.length]) bk := fun _ => rfl
    rw [hn, linesLoop_code_eofA (src := src) _ _ cs [] (csg (q + s + 4) src.length) _ (by rw [← eend]; exact hfs) _ rfl]
    simp [pure_apply]
  | cons x0 mid =>
    have hgood : Good5 (.icode (x0 :: (mid ++ [l]))) := ⟨by simp, hg⟩
    have e4 : (ind4 ++ x0).length = 4 + x0.length := by simp [ind4]; omega
    have hl0 : Ln src (q + s) (q + s + 4 + x0.length + 1) (firstLine (.icode (x0 :: (mid ++ [l])))) := by
      have := hpa.1
      rw [e4] at this
      have e : q + s + (4 + x0.length) + 1 = q + s + 4 + x0.length + 1 := by omega
      rw [e] at this
      simpa [firstLine, lines5, icLines] using this
    obtain ⟨BL, bk, eopen⟩ := open_any hbl _ hgood hl0 k d cs pc hop bl f
    have e0 : q + s + (paraBytes (icLines [x0])).length = q + s + 4 + x0.length + 1 := by
      simp [paraBytes, icLines, ind4]; omega
    have hmid : ParaAt src (q + s + (paraBytes (icLines [x0])).length) (icLines mid) := by
      have := hpa.2
      rw [e4] at this
      rw [e0]
      have e : q + s + (4 + x0.length) + 1 = q + s + 4 + x0.length + 1 := by omega
      rw [e] at this; exact this
    obtain ⟨bl', s', h1, h2, h3⟩ :=
      ic_run_last (src := src) { d with children := d.children ++ [cs.length + 1] } cs bk (q + s) [x0] mid l
        hmid (fun x hx => hgx x (by simp [hx])) (by simpa using hl) hgl (k + s + 1) f BL
        (pcAF (.icode (x0 :: (mid ++ [l]))) cs.length pc) rfl (by simp at hf ⊢; omega)
    rw [e0] at h1
    refine ⟨s', bk, ?_, by rw [h2]; simp [node5E], by rw [h3]; rfl⟩
    rw [eopen, tailT_of_lines (by simpa [AF, first5, icsegs] using h1)]
    simp [pure_apply]

/-- the last block is an indented code block directly behind the open previous (leaf) block -/
theorem lastO_ic (ls : List Bytes) (hne : ls ≠ []) (hg : ∀ l ∈ ls, IcLine l) {q : Nat} {x xc : Blocks.Node} {pbp : BP}
    (hprev : OpenPrev src q x xc pbp) (hkf : (x.kind == .paragraph) = false) (hnc : pbp ≠ .code)
    (hE : ParaAtE src q (lines5 (.icode ls))) (k : Int) (fl fb : Nat) (bl : List LineStat) (d : Blocks.Node)
    (rest0 : List Blocks.Node) (pc : Ctx) (hop : pc.opened = [{ node := rest0.length + 1, bp := pbp }])
    (hf : ls.length + 2 ≤ fl) :
    ∃ s' bk, tailT fl fb bl ⟨rdr src k q q (lineEnd src q) none (-1), d :: (rest0 ++ [x]), pc⟩ = .ok ((), s') ∧
      s'.nodes = { d with children := d.children ++ [(rest0 ++ [xc]).length + 1] } ::
        ((rest0 ++ [xc]) ++ [node5E q (.icode ls) bk]) ∧
      s'.pc.refs = pc.refs := by
  obtain ⟨xs, l, rfl⟩ : ∃ xs l, ls = xs ++ [l] := ⟨ls.dropLast, ls.getLast hne, (List.dropLast_concat_getLast hne).symm⟩
  have hE' : ParaAtE src q (icLines xs ++ [ind4 ++ l]) := by
    have := hE; simp only [lines5, icLines_snoc] at this; exact this
  obtain ⟨hpa, hl⟩ := (paraAtE_snoc _ _ q).mp hE'
  have hgl : IcLine l := hg l (by simp)
  have hgx : ∀ x ∈ xs, IcLine x := fun x hx => hg x (by simp [hx])
  obtain ⟨fl', rfl⟩ : ∃ fl', fl = fl' + 1 := ⟨fl - 1, by omega⟩
  have hlenx : (rest0 ++ [x]).length = (rest0 ++ [xc]).length := by simp
  cases xs with
  | nil =>
    obtain ⟨c, t, hlc, hc⟩ := hgl.first
    have hln := hl.ln
    have heof := hl.eof
    simp only [icLines, List.map_nil, paraBytes, List.flatMap_nil, List.length_nil, Nat.add_zero] at hln heof hl
    have hv : ind4 ++ l = ind4 ++ c :: t := by rw [hlc]
    have hlen : (ind4 ++ l).length = 4 + l.length := by simp [ind4]; omega
    have hfs : FullSeg src (csg (q + 4) (q + 4 + l.length)) := fullSeg_icE hl hgl
    have eend : q + 4 + l.length = src.length := by rw [hlen] at heof; omega
    have hvl : 4 < (ind4 ++ l).length := by rw [hv]; simp [ind4]
    have hiw : indentWidthI (ind4 ++ l) 0 = (4, ((4 : Nat) : Int)) := by rw [hv]; exact ic_width hc
    have hidx0 : idx (ind4 ++ l) 0 = .ok 32 := by rw [hv]; rfl
    have hidx : idx (ind4 ++ l) ((4 : Nat) : Int) = .ok c := by rw [hv]; rfl
    have hxp := hprev.parent
    have hgxx := getD_pen d rest0 x
    cases hprev with
    | para _ _ _ _ _ _ => exact absurd hkf (by simp [paraN])
    | code _ _ _ _ _ _ _ _ => exact absurd rfl hnc
    | leaf _ _ _ hbp hk hpar =>
      obtain ⟨bk, hp⟩ := lineLoop6_leaf12 hln 4 4 hvl 32 c hidx0 (by decide) hidx hiw pbp hbp k d rest0 x hk hpar pc hop bl
        { node := (rest0 ++ [x]).length + 1, bp := .code }
        (fun bk => ⟨rdr src k q (q + (ind4 ++ l).length - 1) (q + (ind4 ++ l).length) none (-1),
          { d with children := d.children ++ [(rest0 ++ [x]).length + 1] } ::
            ((rest0 ++ [x]) ++ [codeN [csg (q + 4) (q + (ind4 ++ l).length)] bk]),
          { pc with blockOffset := 4, blockIndent := 4,
                    opened := [{ node := rest0.length + 1, bp := pbp }, { node := (rest0 ++ [x]).length + 1, bp := .code }] }⟩)
        (fun _ => rfl) (fun bk => getD_pen d rest0 x _ _)
        (fun bk => try6_ic hln hv hc k d (rest0 ++ [x]) (rest0.length + 1) x hgxx hxp pbp
          { pc with blockOffset := 4, blockIndent := 4 } hop bk)
      obtain ⟨fl'', rfl⟩ : ∃ f2, fl' = f2 + 1 := ⟨fl' - 1, by simp at hf; omega⟩
      have hpass := pass_next hln k _ _ pc _ _ hop bl _ _ _ (fl'' + 1) hp
      rw [heof] at hpass
      have hfin := linesLoop_code_eofA (src := src) (k + 1)
        { d with children := d.children ++ [(rest0 ++ [x]).length + 1] } (rest0 ++ [x]) []
        (csg (q + 4) src.length) bk (by rw [← eend]; exact hfs)
        { pc with blockOffset := 4, blockIndent := 4, opened := [{ node := (rest0 ++ [x]).length + 1, bp := .code }] }
        rfl (bl ++ [{ lineNum := k, level := 0, isBlank := isBlank (ind4 ++ l) }]) fl''
      have ht := tailT_of_lines (fb := fb) (hpass.trans hfin)
      simp only [if_true, pure_apply] at ht
      exact ⟨_, bk, ht, by simp [node5E, icsegsE, eend], rfl⟩
  | cons x0 mid =>
    have hgood : Good5 (.icode (x0 :: (mid ++ [l]))) := ⟨by simp, hg⟩
    have e4 : (ind4 ++ x0).length = 4 + x0.length := by simp [ind4]; omega
    have hl0 : Ln src q (q + 4 + x0.length + 1) (firstLine (.icode (x0 :: (mid ++ [l])))) := by
      have := hpa.1
      rw [e4] at this
      have e : q + (4 + x0.length) + 1 = q + 4 + x0.length + 1 := by omega
      rw [e] at this
      simpa [firstLine, lines5, icLines] using this
    obtain ⟨BL, bk, eab⟩ := abut_any hprev _ hgood hl0 hkf (fun h => absurd h hnc) k d rest0 pc hop bl fl'
    have e0 : q + (paraBytes (icLines [x0])).length = q + 4 + x0.length + 1 := by
      simp [paraBytes, icLines, ind4]; omega
    have hmid : ParaAt src (q + (paraBytes (icLines [x0])).length) (icLines mid) := by
      have := hpa.2
      rw [e4] at this
      rw [e0]
      have e : q + (4 + x0.length) + 1 = q + 4 + x0.length + 1 := by omega
      rw [e] at this; exact this
    obtain ⟨bl', s', h1, h2, h3⟩ :=
      ic_run_last (src := src) { d with children := d.children ++ [(rest0 ++ [xc]).length + 1] } (rest0 ++ [xc]) bk q
        [x0] mid l hmid (fun x hx => hgx x (by simp [hx])) (by simpa using hl) hgl (k + 1) fl' BL
        (pcAF (.icode (x0 :: (mid ++ [l]))) (rest0 ++ [xc]).length pc) rfl (by simp at hf ⊢; omega)
    rw [e0] at h1
    refine ⟨s', bk, ?_, by rw [h2]; simp [node5E], by rw [h3]; rfl⟩
    rw [tailT_congr eab, tailT_of_lines (by simpa [AF, first5, icsegs] using h1)]
    simp [pure_apply]
end last12

end GM.Proof.CMFrag
