/-
  GM.Proof.E2EQuoteCheck — an executable test for the hypothesis `GoodBlocks D s` of GM.Proof.E2EQuoteGood (every block of the
  store with inline content consists of good lines), with its soundness proof. With it the hypotheses of
  `GM.Props.C08E2E.convert_quote_prefix_good_lines` are decidable for a given source. Core Lean only.
-/
import GM.Proof.E2EQuoteGood

namespace GM.E2E.Quote
open GM GM.Text GM.Convert GM.Blocks GM.Proof.CMFrag

def goodLineB (l : Bytes) : Bool :=
  !l.isEmpty && (match l.head? with | some c => GM.Spec.CM.isLetter c | none => true) && quiet l 0 false &&
    (match l.getLast? with | some c => !isSpace c && c != 92 | none => true)

theorem goodLineB_sound {l : Bytes} (h : goodLineB l = true) : GoodLine l := by
  simp only [goodLineB, Bool.and_eq_true, Bool.not_eq_true'] at h
  obtain ⟨⟨⟨h1, h2⟩, h3⟩, h4⟩ := h
  refine ⟨?_, ?_, h3, ?_, ?_⟩
  · intro e; rw [e] at h1; simp at h1
  · intro c hc; rw [hc] at h2; exact h2
  · intro c hc; rw [hc] at h4; simp at h4; exact h4.1
  · intro c hc; rw [hc] at h4; simp at h4; exact h4.2

def linesAtGB (src : Bytes) : List Nat → List Bytes → Bool
  | [], [] => true
  | [p], [l] => sub src p (p + l.length) == l && decide (p + l.length ≤ src.length)
  | p :: p' :: ps, l :: l' :: rest =>
    sub src p (p + l.length + 1) == l ++ [10] && decide (p + l.length + 1 ≤ p') && linesAtGB src (p' :: ps) (l' :: rest)
  | _, _ => false

theorem linesAtGB_sound {src : Bytes} : ∀ (ps : List Nat) (ls : List Bytes), linesAtGB src ps ls = true → LinesAtG src ps ls
  | [], [], _ => trivial
  | [], _ :: _, h => by simp [linesAtGB] at h
  | _ :: _, [], h => by simp [linesAtGB] at h
  | [_], _ :: _ :: _, h => by simp [linesAtGB] at h
  | _ :: _ :: _, [_], h => by simp [linesAtGB] at h
  | [p], [l], h => by
    simp only [linesAtGB, Bool.and_eq_true, beq_iff_eq, decide_eq_true_eq] at h
    exact h
  | p :: p' :: ps, l :: l' :: rest, h => by
    simp only [linesAtGB, Bool.and_eq_true, beq_iff_eq, decide_eq_true_eq] at h
    exact ⟨h.1.1, h.1.2, linesAtGB_sound (p' :: ps) (l' :: rest) h.2⟩

/-- the lines a list of segments holds, the line feed of all but the last taken off -/
def linesOf (src : Bytes) : List Segment → List Bytes
  | [] => []
  | [s] => [sub src s.start.toNat s.stop.toNat]
  | s :: s' :: rest => sub src s.start.toNat (s.stop.toNat - 1) :: linesOf src (s' :: rest)

def goodNodeB (D : Bytes) (n : Blocks.Node) : Bool :=
  isRawKind n.kind || n.lines.isEmpty ||
    (let ps := n.lines.map (·.start.toNat)
     let ls := linesOf D n.lines
     n.lines == paraSegsG ps ls && !ls.isEmpty && ls.all goodLineB && linesAtGB D ps ls)

def goodBlocksB (D : Bytes) (s : St) : Bool := s.nodes.all (goodNodeB D)

theorem goodBlocksB_sound {D : Bytes} {s : St} (h : goodBlocksB D s = true) : GoodBlocks D s := by
  intro i h1 h2
  have hn : goodNodeB D (s.nodes.getD i default) = true := by
    by_cases hi : i < s.nodes.length
    · have hmem : s.nodes.getD i default ∈ s.nodes := by
        rw [List.getD_eq_getElem?_getD, List.getElem?_eq_getElem hi, Option.getD_some]; exact List.getElem_mem _
      exact List.all_eq_true.mp h _ hmem
    · exfalso
      apply h2
      rw [List.getD_eq_getElem?_getD, List.getElem?_eq_none (by omega)]
      rfl
  simp only [goodNodeB, Bool.or_eq_true, Bool.and_eq_true, Bool.not_eq_true', beq_iff_eq, List.all_eq_true] at hn
  rcases hn with (hr | he) | ⟨⟨⟨e1, e2⟩, e3⟩, e4⟩
  · rw [h1] at hr; cases hr
  · exfalso; apply h2; cases hl : (s.nodes.getD i default).lines with
    | nil => rfl
    | cons a b => rw [hl] at he; simp at he
  · refine ⟨_, _, e1, ?_, fun l hl => goodLineB_sound (e3 l hl), linesAtGB_sound _ _ e4⟩
    intro e; rw [e] at e2; simp at e2

end GM.E2E.Quote
