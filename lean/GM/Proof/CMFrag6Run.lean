/-
  GM.Proof.CMFrag6Run — stage 6: the induction over the blocks of a document whose blocks may follow each other without
  a blank line: `Bnd` (the outer loop at a block boundary, nothing open) and `Opn` (the per-line loop behind a block that
  is still open), proved together.
-/
import GM.Proof.CMFrag6Chain

namespace GM.Proof.CMFrag
open GM GM.Text GM.Blocks GM.Spec

/-- a stage-6 document in the source: `sep` blank lines, the lines of the block, … , `trail` blank lines -/
def DocAt6 (src : Bytes) : Nat → List (Nat × Raw5) → Nat → Prop
  | q, [], trail => BlanksAt src q trail ∧ q + trail = src.length
  | q, (s, b) :: rest, trail =>
    BlanksAt src q s ∧ ParaAt src (q + s) (lines5 b) ∧ DocAt6 src (q + s + (paraBytes (lines5 b)).length) rest trail

/-- where the blocks start -/
def closedOf6 : Nat → List (Nat × Raw5) → List (Nat × List Bytes)
  | _, [] => []
  | q, (s, b) :: rest => (q + s, lines5 b) :: closedOf6 (q + s + (paraBytes (lines5 b)).length) rest

def isParaB : Raw5 → Bool
  | .old (.para _) => true
  | _ => false

/-- every block without blank lines in front may follow its predecessor directly -/
def SepsOK6 : Option Bool → List (Nat × Raw5) → Prop
  | _, [] => True
  | none, (_, b) :: rest => SepsOK6 (some (isParaB b)) rest
  | some ip, (s, b) :: rest => (s = 0 → AbutOK5 ip b) ∧ SepsOK6 (some (isParaB b)) rest

/-- stage 12: no indented code block directly behind an indented code block (blank lines between two of them do not
    separate them: CommonMark reads one block); the flag: the previous block is an indented code block -/
def IcOK6 : Bool → List (Nat × Raw5) → Prop
  | _, [] => True
  | pic, (_, b) :: rest => (pic = true → isIcB b = false) ∧ IcOK6 (isIcB b) rest

theorem icOK6_of_none : ∀ (items : List (Nat × Raw5)) (pic : Bool), (∀ it ∈ items, isIcB it.2 = false) → IcOK6 pic items
  | [], _, _ => trivial
  | (s, b) :: rest, pic, h => by
    have hb : isIcB b = false := h (s, b) (by simp)
    exact ⟨fun _ => hb, by rw [hb]; exact icOK6_of_none rest false (fun it hit => h it (by simp [hit]))⟩

theorem abutOK5_false : ∀ b : Raw5, AbutOK5 false b
  | .old (.para _) => rfl
  | .old (.atx _ _) => trivial
  | .old (.hr _) => fun h => by cases h
  | .fence _ _ _ _ => trivial
  | .icode _ => rfl

/-- the number of lines (line feeds) of the document -/
def left6 : List (Nat × Raw5) → Nat → Nat
  | [], trail => trail
  | (s, b) :: rest, trail => s + (lines5 b).length + left6 rest trail

theorem closedOf6_shift (q s : Nat) (b : Raw5) (rest : List (Nat × Raw5)) :
    closedOf6 (q + 1) ((s, b) :: rest) = closedOf6 q ((s + 1, b) :: rest) := by
  have e : q + 1 + s = q + (s + 1) := by omega
  simp only [closedOf6, e]

section run6
variable {src : Bytes}

theorem lines5_ne6 (b : Raw5) (h : Good5 b) : lines5 b ≠ [] := by
  cases b with
  | old b => exact lines4_ne b h
  | fence fc n info ls => simp [lines5]
  | icode ls => simpa [lines5, icLines] using h.1

theorem firstLine_ln {p : Nat} (b : Raw5) (hg : Good5 b) (hpa : ParaAt src p (lines5 b)) :
    ∃ e, Ln src p e (firstLine b) ∧ e = p + (firstLine b).length := by
  have hne := lines5_ne6 b hg
  cases h : lines5 b with
  | nil => exact absurd h hne
  | cons l0 more =>
    rw [h] at hpa
    refine ⟨p + l0.length + 1, ?_, ?_⟩
    · simp only [firstLine, h, List.headD_cons]; exact hpa.1
    · simp [firstLine, h]; omega

/-- the claim at a block boundary (nothing open) -/
def ClaimB (NL : Nat → Raw5 → Bool → Blocks.Node) (D : Nat → List (Nat × Raw5) → Nat → Prop) (src : Bytes)
    (items : List (Nat × Raw5)) : Prop :=
  (∀ (trail q : Nat) (k : Int) (fb : Nat) (bl : List LineStat) (d : Blocks.Node) (cs : List Blocks.Node) (pc : Ctx),
    D q items trail → (∀ it ∈ items, Good5 it.2) → SepsOK6 none items → IcOK6 false items → left6 items trail + 2 ≤ fb →
    pc.opened = [] →
    ∃ s' bs, blocksLoopT pts 0 fb bl ⟨rdr src k q q (lineEnd src q) none (-1), d :: cs, pc⟩ = .ok ((), s') ∧
      bs.length = items.length ∧
      s'.nodes = addKids d cs.length items.length :: (cs ++ mkNodes5L NL (closedOf6 q items) (items.map (·.2)) bs) ∧
      s'.pc.refs = pc.refs)

/-- the claim behind a block that is still open -/
def ClaimO (NL : Nat → Raw5 → Bool → Blocks.Node) (D : Nat → List (Nat × Raw5) → Nat → Prop) (src : Bytes)
    (items : List (Nat × Raw5)) : Prop :=
  (∀ (trail q : Nat) (x xc : Blocks.Node) (pbp : BP) (k : Int) (fl fb : Nat) (bl : List LineStat) (d : Blocks.Node)
      (rest : List Blocks.Node) (pc : Ctx) (pic : Bool),
    OpenPrev src q x xc pbp → D q items trail → (∀ it ∈ items, Good5 it.2) →
    SepsOK6 (some (x.kind == .paragraph)) items → (pbp = .code → pic = true) → IcOK6 pic items →
    left6 items trail + 2 ≤ fl → left6 items trail + 2 ≤ fb →
    pc.opened = [{ node := rest.length + 1, bp := pbp }] →
    ∃ s' bs, tailT fl fb bl ⟨rdr src k q q (lineEnd src q) none (-1), d :: (rest ++ [x]), pc⟩ = .ok ((), s') ∧
      bs.length = items.length ∧
      s'.nodes = addKids d (rest.length + 1) items.length ::
        ((rest ++ [xc]) ++ mkNodes5L NL (closedOf6 q items) (items.map (·.2)) bs) ∧
      s'.pc.refs = pc.refs)

/-- the two claims about a list of blocks -/
def Claim6 (NL : Nat → Raw5 → Bool → Blocks.Node) (D : Nat → List (Nat × Raw5) → Nat → Prop) (src : Bytes)
    (items : List (Nat × Raw5)) : Prop :=
  ClaimB NL D src items ∧ ClaimO NL D src items

theorem tailT_congr {fl fl' fb : Nat} {bl bl' : List LineStat} {s s' : St}
    (h : linesLoopT pts 0 fl bl s = linesLoopT pts 0 fl' bl' s') : tailT fl fb bl s = tailT fl' fb bl' s' := by
  unfold tailT
  simp only [bind_apply, h]

/-- the open indented code block, blank lines, the end of the source -/
theorem code_trail : ∀ (trail : Nat) {q : Nat} {x xc : Blocks.Node}, OpenPrev src q x xc .code → BlanksAt src q trail →
    q + trail = src.length → ∀ (d : Blocks.Node) (rest : List Blocks.Node) (k : Int) (fl fb : Nat) (bl : List LineStat)
      (pc : Ctx), trail + 1 ≤ fl → pc.opened = [{ node := rest.length + 1, bp := .code }] →
    ∃ s', tailT fl fb bl ⟨rdr src k q q (lineEnd src q) none (-1), d :: (rest ++ [x]), pc⟩ = .ok ((), s') ∧
      s'.nodes = d :: (rest ++ [xc]) ∧ s'.pc.refs = pc.refs
  | 0, q, x, xc, hprev, _, hq, d, rest, k, fl, fb, bl, pc, hf, hop => by
    obtain ⟨s', h1, h2, _, h4⟩ := code_eof hprev (by simpa using hq) d rest k fl bl pc (by omega) hop
    exact ⟨s', by rw [tailT_of_lines h1]; simp [pure_apply], h2, h4⟩
  | t + 1, q, x, xc, hprev, hb, hq, d, rest, k, fl, fb, bl, pc, hf, hop => by
    obtain ⟨fl', rfl⟩ : ∃ fl', fl = fl' + 1 := ⟨fl - 1, by omega⟩
    obtain ⟨x', bl', hprev', e1⟩ := code_absorb hprev hb.1 d rest k fl' bl pc hop
    obtain ⟨s', h1, h2, h3⟩ := code_trail t hprev' hb.2 (by omega) d rest (k + 1) fl' fb bl' pc (by omega) hop
    exact ⟨s', by rw [tailT_congr e1]; exact h1, h2, h3⟩

theorem claim6_nil (NL : Nat → Raw5 → Bool → Blocks.Node) : Claim6 NL (DocAt6 src) src [] := by
  refine ⟨?_, ?_⟩
  · intro trail q k fb bl d cs pc hd _ _ _ hf hop
    obtain ⟨f, rfl⟩ : ∃ f, fb = f + 1 := ⟨fb - 1, by omega⟩
    obtain ⟨r', hs⟩ := skipR_eof k hd.1 hd.2 (d :: cs) pc
    refine ⟨⟨r', d :: cs, pc⟩, [], ?_, rfl, ?_, rfl⟩
    · rw [blocksLoopT]
      simp only [bind_apply, hs]
      simp [pure_apply]
    · simp [addKids_zero, mkNodes5L, closedOf6]
  · intro trail q x xc pbp k fl fb bl d rest pc pic hprev hd _ _ _ _ hfl hfb hop
    obtain ⟨hb, hq⟩ := hd
    by_cases hcode : pbp = .code
    · subst hcode
      obtain ⟨s', h1, h2, h3⟩ := code_trail trail hprev hb hq d rest k fl fb bl pc (by simp [left6] at hfl; omega) hop
      exact ⟨s', [], h1, rfl, by rw [h2]; simp [addKids_zero, mkNodes5L, closedOf6], h3⟩
    have haft : After src q := by
      cases trail with
      | zero => exact Or.inl (by simpa using hq)
      | succ t => exact Or.inr hb.1
    obtain ⟨ret, bl', s1, h1, h2, h3, h4, h5⟩ :=
      prev_end hprev d rest k fl bl pc haft (by simp [left6] at hfl; omega) hop hcode
    rw [tailT_of_lines h1]
    rcases h5 with ⟨hr, _⟩ | ⟨hr, hln, k', hk'⟩
    · subst hr
      exact ⟨s1, [], by simp [pure_apply], rfl, by rw [h2]; simp [addKids_zero, mkNodes5L, closedOf6], h4⟩
    · subst hr
      cases trail with
      | zero => exfalso; have := hln.le; omega
      | succ t =>
        obtain ⟨f, rfl⟩ : ∃ f, fb = f + 1 := ⟨fb - 1, by omega⟩
        obtain ⟨r', hs⟩ := skipR_eof k' hb.2 (by omega) s1.nodes s1.pc
        have es1 : s1 = ⟨rdr src k' (q + 1) (q + 1) (lineEnd src (q + 1)) none (-1), s1.nodes, s1.pc⟩ := by
          cases s1; simp only at hk' ⊢; rw [hk']
        refine ⟨⟨r', s1.nodes, s1.pc⟩, [], ?_, rfl, by simp only; rw [h2]; simp [addKids_zero, mkNodes5L, closedOf6], h4⟩
        simp only [Bool.false_eq_true, if_false]
        rw [es1, blocksLoopT]
        simp only [bind_apply, hs]
        simp [pure_apply]


/-- from behind the first line of block `b` to the end of the document, given the claims for the blocks behind it -/
theorem runBlock (NL : Nat → Raw5 → Bool → Blocks.Node) (D : Nat → List (Nat × Raw5) → Nat → Prop) (b : Raw5)
    (hg : Good5 b) (rest : List (Nat × Raw5))
    (IH : Claim6 NL D src rest) (p e : Nat)
    (hl : Ln src p e (firstLine b)) (hpa : ParaAt src p (lines5 b)) (trail : Nat)
    (hd : D (p + (paraBytes (lines5 b)).length) rest trail) (hgr : ∀ it ∈ rest, Good5 it.2)
    (hs : SepsOK6 (some (isParaB b)) rest) (hicr : IcOK6 (isIcB b) rest)
    (k : Int) (fl fb : Nat) (BL : List LineStat) (d : Blocks.Node)
    (cs : List Blocks.Node) (bk : Bool) (pc : Ctx)
    (hfl : (lines5 b).length + left6 rest trail + 1 ≤ fl) (hfb : left6 rest trail + 2 ≤ fb) :
    ∃ s' bs, tailT fl fb BL (AF src k e d cs b p bk pc) = .ok ((), s') ∧ bs.length = rest.length ∧
      s'.nodes = addKids { d with children := d.children ++ [cs.length + 1] } (cs.length + 1) rest.length ::
        ((cs ++ [node5 p b bk]) ++ mkNodes5L NL (closedOf6 (p + (paraBytes (lines5 b)).length) rest) (rest.map (·.2)) bs) ∧
      s'.pc.refs = pc.refs := by
  have hlen := hl.len
  have hlt := hl.lt
  cases b with
  | old b' =>
    cases b' with
    | para ls =>
      obtain ⟨hne, hbk⟩ := hg
      cases ls with
      | nil => exact absurd rfl hne
      | cons l0 more =>
        have he : e = p + l0.length + 1 := by simp [firstLine, lines5, lines4] at hlen; omega
        subst he
        obtain ⟨fl', rfl⟩ : ∃ fl', fl = fl' + more.length := ⟨fl - more.length, by simp [lines5, lines4] at hfl; omega⟩
        have e0 : p + (paraBytes [l0]).length = p + l0.length + 1 := by simp [paraBytes]; omega
        obtain ⟨bl', k', pc', ho', hr', hbody⟩ :=
          para_body (src := src) { d with children := d.children ++ [cs.length + 1] } cs bk p more [l0] k fl' BL
            (pcAF (.old (.para (l0 :: more))) cs.length pc) (by rw [e0]; exact hpa.2)
            (fun l hl' => hbk l (by simp [hl'])) rfl
        rw [e0] at hbody
        have hprev := OpenPrev.para (src := src) p (l0 :: more) bk (by simp) hpa hbk
        obtain ⟨s', bs, h1, h2, h3, h4⟩ :=
          IH.2 trail _ _ _ .paragraph k' fl' fb bl' { d with children := d.children ++ [cs.length + 1] } cs pc' false
            hprev hd hgr hs (fun h => by cases h) hicr (by simp [lines5, lines4] at hfl; omega) hfb (by rw [ho']; rfl)
        refine ⟨s', bs, ?_, h2, h3, by rw [h4, hr']; rfl⟩
        rw [← h1]
        exact tailT_congr hbody
    | atx level l =>
      obtain ⟨h1l, h6l, hbl', hlast⟩ := hg
      have he : e = p + level + 1 + l.length + 1 := by simp [firstLine, lines5, lines4] at hlen; omega
      subst he
      have eQ : p + (paraBytes (lines5 (.old (.atx level l)))).length = p + level + 1 + l.length + 1 := by
        simp [lines5, lines4, paraBytes]; omega
      rw [eQ] at hd ⊢
      have hprev := OpenPrev.leaf (src := src) (p + level + 1 + l.length + 1) .atx
        (headN level [sg (p + level + 1) (p + level + 1 + l.length + 1 - 1)] bk) (Or.inl rfl) (by simp [headN]) rfl
      obtain ⟨s', bs, h1, h2, h3, h4⟩ :=
        IH.2 trail _ _ _ .atx k fl fb BL { d with children := d.children ++ [cs.length + 1] } cs
          (pcAF (.old (.atx level l)) cs.length pc) false hprev hd hgr hs (fun h => by cases h) hicr
          (by simp [lines5, lines4] at hfl; omega) hfb rfl
      refine ⟨s', bs, h1, h2, ?_, h4⟩
      rw [h3]
      simp [node5, node4]
    | hr h =>
      have he : e = p + h.length + 1 := by simp [firstLine, lines5, lines4] at hlen; omega
      subst he
      have eQ : p + (paraBytes (lines5 (.old (.hr h)))).length = p + h.length + 1 := by
        simp [lines5, lines4, paraBytes]; omega
      rw [eQ] at hd ⊢
      have hprev := OpenPrev.leaf (src := src) (p + h.length + 1) .thematic (hrN bk) (Or.inr rfl) (by simp [hrN]) rfl
      obtain ⟨s', bs, h1, h2, h3, h4⟩ :=
        IH.2 trail _ _ _ .thematic k fl fb BL { d with children := d.children ++ [cs.length + 1] } cs
          (pcAF (.old (.hr h)) cs.length pc) false hprev hd hgr hs (fun h => by cases h) hicr
          (by simp [lines5, lines4] at hfl; omega) hfb rfl
      exact ⟨s', bs, h1, h2, h3, h4⟩
  | fence fc n info ls =>
    obtain ⟨hfc, hinfo, hcode⟩ := hg
    have he : e = p + (n + 3 + info.length) + 1 := by simp [firstLine, lines5] at hlen; omega
    subst he
    have hrest : ParaAt src (p + (n + 3 + info.length) + 1 + (paraBytes []).length) (ls ++ [List.replicate (n + 3) fc]) := by
      have := hpa.2
      simpa [paraBytes] using this
    obtain ⟨bl', s1, h1, h2, h3, h4, k', h5⟩ :=
      linesLoop_fence (src := src) fc hfc n { d with children := d.children ++ [cs.length + 1] } cs
        (if info.isEmpty then none else some (sg (p + n + 3) (p + (n + 3 + info.length) + 1 - 1))) bk
        (p + (n + 3 + info.length) + 1) ls [] k fl BL (pcAF (.fence fc n info ls) cs.length pc)
        hrest hcode (by simp [lines5] at hfl; omega) rfl rfl
    have eQ : p + (paraBytes (lines5 (.fence fc n info ls))).length =
        p + (n + 3 + info.length) + 1 + (paraBytes ([] ++ ls ++ [List.replicate (n + 3) fc])).length := by
      simp [lines5, paraBytes]; omega
    rw [← eQ] at h5
    have es1 : s1 = ⟨rdr src k' (p + (paraBytes (lines5 (.fence fc n info ls))).length)
        (p + (paraBytes (lines5 (.fence fc n info ls))).length)
        (lineEnd src (p + (paraBytes (lines5 (.fence fc n info ls))).length)) none (-1), s1.nodes, s1.pc⟩ := by
      cases s1; simp only at h5 ⊢; rw [h5]
    obtain ⟨s', bs, i1, i2, i3, i4⟩ :=
      IH.1 trail _ k' fb bl' { d with children := d.children ++ [cs.length + 1] }
        (cs ++ [node5 p (.fence fc n info ls) bk]) s1.pc hd hgr (by
          cases rest with
          | nil => trivial
          | cons it rest' => obtain ⟨s0, b0⟩ := it; exact hs.2) hicr hfb h3
    have en : node5 p (.fence fc n info ls) bk =
        fenceN (if info.isEmpty then none else some (sg (p + n + 3) (p + (n + 3 + info.length) + 1 - 1)))
          (csegs (p + (n + 3 + info.length) + 1) ([] ++ ls)) bk := by
      simp only [node5, List.nil_append]
      have a1 : p + n + 3 + info.length = p + (n + 3 + info.length) + 1 - 1 := by omega
      have a2 : p + (n + 3 + info.length) + 1 - 1 + 1 = p + (n + 3 + info.length) + 1 := by omega
      rw [a1, a2]
    refine ⟨s', bs, ?_, i2, by rw [i3]; simp, by rw [i4, h4]; rfl⟩
    have h1' : linesLoopT pts 0 fl BL (AF src k (p + (n + 3 + info.length) + 1) d cs (.fence fc n info ls) p bk pc) =
        .ok ((false, bl'), s1) := by
      simp only [paraBytes, List.flatMap_nil, List.length_nil, Nat.add_zero, csegs] at h1
      simpa [AF, first5] using h1
    rw [tailT_of_lines h1']
    simp only [Bool.false_eq_true, if_false]
    rw [es1, h2, ← en]
    exact i1
  | icode ls =>
    obtain ⟨hne, hg'⟩ := hg
    cases ls with
    | nil => exact absurd rfl hne
    | cons l0 more =>
      have he : e = p + 4 + l0.length + 1 := by simp [firstLine, lines5, icLines, ind4] at hlen; omega
      subst he
      obtain ⟨fl', rfl⟩ : ∃ fl', fl = fl' + more.length :=
        ⟨fl - more.length, by simp [lines5, icLines] at hfl; omega⟩
      have e0 : p + (paraBytes (icLines [l0])).length = p + 4 + l0.length + 1 := by
        simp [paraBytes, icLines, ind4]; omega
      have hpa' : ParaAt src p (icLines (l0 :: more)) := hpa
      have hpa2 : ParaAt src (p + 4 + l0.length + 1) (icLines more) := by
        have := hpa'.2
        have e : p + (ind4 ++ l0).length + 1 = p + 4 + l0.length + 1 := by simp [ind4]; omega
        rw [e] at this; exact this
      obtain ⟨bl', k', hbody⟩ :=
        code_body (src := src) { d with children := d.children ++ [cs.length + 1] } cs bk p more [l0] k fl' BL
          (pcAF (.icode (l0 :: more)) cs.length pc) (by rw [e0]; exact hpa2)
          (fun l hl' => hg' l (by simp [hl'])) rfl
      rw [e0] at hbody
      have hprev := OpenPrev.code (src := src) p (l0 :: more) 0 bk (by simp) hpa' hg' trivial
      simp only [blankSegs, List.append_nil, Nat.add_zero] at hprev
      obtain ⟨s', bs, h1, h2, h3, h4⟩ :=
        IH.2 trail _ _ _ .code k' fl' fb bl' { d with children := d.children ++ [cs.length + 1] } cs
          (pcAF (.icode (l0 :: more)) cs.length pc) true
          hprev hd hgr hs (fun _ => rfl) hicr (by simp [lines5, icLines] at hfl; omega) hfb rfl
      refine ⟨s', bs, ?_, h2, h3, h4⟩
      rw [← h1]
      apply tailT_congr
      simpa [AF, first5, icsegs] using hbody

theorem lines5_len_pos (b : Raw5) (hg : Good5 b) : 1 ≤ (lines5 b).length := by
  have := lines5_ne6 b hg
  cases h : lines5 b with
  | nil => exact absurd h this
  | cons a t => simp

theorem claim6_cons (NL : Nat → Raw5 → Bool → Blocks.Node) (D : Nat → List (Nat × Raw5) → Nat → Prop)
    (rest : List (Nat × Raw5)) (IH : Claim6 NL D src rest)
    (b : Raw5) (hNL : rest = [] → ∀ p bk, NL p b bk = node5 p b bk)
    (hcons : ∀ q s trail, D q ((s, b) :: rest) trail ↔
      (BlanksAt src q s ∧ ParaAt src (q + s) (lines5 b) ∧ D (q + s + (paraBytes (lines5 b)).length) rest trail)) :
    ∀ s, Claim6 NL D src ((s, b) :: rest) := by
  have hmk : ∀ (P Q : Nat) (bk : Bool) (bs : List Bool), bs.length = rest.length →
      node5 P b bk :: mkNodes5L NL (closedOf6 Q rest) (rest.map (·.2)) bs =
        mkNodes5L NL ((P, lines5 b) :: closedOf6 Q rest) (b :: rest.map (·.2)) (bk :: bs) := by
    intro P Q bk bs hbs
    cases rest with
    | nil =>
      have : bs = [] := List.eq_nil_of_length_eq_zero hbs
      subst this
      simp [mkNodes5L, closedOf6, hNL rfl]
    | cons it rest' =>
      obtain ⟨s0, b0⟩ := it
      cases bs with
      | nil => simp at hbs
      | cons k2 bs' => simp only [closedOf6, List.map_cons]; rw [mkNodes5L_cons]
  have hB : ∀ s, ClaimB NL D src ((s, b) :: rest) := by
    intro s trail q k fb bl d cs pc hd hgood hseps hic hf hop
    obtain ⟨hbl, hpa, hdr⟩ := (hcons q s trail).mp hd
    have hg : Good5 b := hgood (s, b) (by simp)
    have hgr : ∀ it ∈ rest, Good5 it.2 := fun it hit => hgood it (by simp [hit])
    obtain ⟨e, hl, _⟩ := firstLine_ln b hg hpa
    obtain ⟨f, rfl⟩ : ∃ f, fb = f + 1 := ⟨fb - 1, by omega⟩
    have hpos := lines5_len_pos b hg
    obtain ⟨BL, bk, eopen⟩ := open_any hbl b hg hl k d cs pc hop bl f
    obtain ⟨s', bs, r1, r2, r3, r4⟩ :=
      runBlock NL D b hg rest IH (q + s) e hl hpa trail hdr hgr hseps hic.2 (k + s + 1) f f BL d cs bk pc
        (by simp only [left6] at hf; omega) (by simp only [left6] at hf; omega)
    refine ⟨s', bk :: bs, by rw [eopen]; exact r1, by simp [r2], ?_, r4⟩
    rw [r3]
    simp only [closedOf6, List.map_cons, ← hmk (q + s) _ bk bs r2]
    simp [addKids, List.range'_succ]
  have hO : ∀ s, ClaimO NL D src ((s, b) :: rest) := by
    intro s
    induction s with
    | zero =>
      intro trail q x xc pbp k fl fb bl d rest0 pc pic hprev hd hgood hseps hpic hic hfl hfb hop
      obtain ⟨hbl, hpa, hdr⟩ := (hcons q 0 trail).mp hd
      have hg : Good5 b := hgood (0, b) (by simp)
      have hgr : ∀ it ∈ rest, Good5 it.2 := fun it hit => hgood it (by simp [hit])
      have hpos := lines5_len_pos b hg
      simp only [Nat.add_zero] at hpa hdr
      have hab : AbutOK5 (x.kind == .paragraph) b := hseps.1 rfl
      obtain ⟨e, hl, _⟩ := firstLine_ln b hg hpa
      obtain ⟨fl', rfl⟩ : ∃ fl', fl = fl' + 1 := ⟨fl - 1, by omega⟩
      obtain ⟨BL, bk, eab⟩ := abut_any hprev b hg hl hab (fun h => hic.1 (hpic h)) k d rest0 pc hop bl fl'
      obtain ⟨s', bs, r1, r2, r3, r4⟩ :=
        runBlock NL D b hg rest IH q e hl hpa trail hdr hgr hseps.2 hic.2 (k + 1) fl' fb BL d (rest0 ++ [xc]) bk pc
          (by simp only [left6] at hfl; omega) (by simp only [left6] at hfb; omega)
      refine ⟨s', bk :: bs, by rw [tailT_congr eab]; exact r1, by simp [r2], ?_, r4⟩
      rw [r3]
      simp only [closedOf6, List.map_cons, Nat.add_zero, ← hmk q _ bk bs r2]
      simp [addKids, List.range'_succ]
    | succ s' ihs =>
      intro trail q x xc pbp k fl fb bl d rest0 pc pic hprev hd hgood hseps hpic hic hfl hfb hop
      obtain ⟨hbl, hpa, hdr⟩ := (hcons q (s' + 1) trail).mp hd
      have hg : Good5 b := hgood (s' + 1, b) (by simp)
      have hgr : ∀ it ∈ rest, Good5 it.2 := fun it hit => hgood it (by simp [hit])
      have hpos := lines5_len_pos b hg
      obtain ⟨hln, hb'⟩ := hbl
      have eqs : q + 1 + s' = q + (s' + 1) := by omega
      have hd' : D (q + 1) ((s', b) :: rest) trail :=
        (hcons (q + 1) s' trail).mpr ⟨hb', by rw [eqs]; exact hpa, by rw [eqs]; exact hdr⟩
      have hgood' : ∀ it ∈ (s', b) :: rest, Good5 it.2 := by
        intro it hit
        simp only [List.mem_cons] at hit
        rcases hit with rfl | hit
        · exact hg
        · exact hgr it hit
      by_cases hcode : pbp = .code
      · -- the blank line is appended to the open indented code block
        subst hcode
        obtain ⟨fl', rfl⟩ : ∃ fl', fl = fl' + 1 := ⟨fl - 1, by omega⟩
        obtain ⟨x', bl', hprev', e1⟩ := code_absorb hprev hln d rest0 k fl' bl pc hop
        have hk' := hprev'.code_kind
        obtain ⟨s2, bs, r1, r2, r3, r4⟩ :=
          ihs trail (q + 1) x' xc .code (k + 1) fl' fb bl' d rest0 pc pic hprev' hd' hgood'
            (by rw [hk']; exact ⟨fun _ => abutOK5_false b, hseps.2⟩) hpic hic
            (by simp only [left6] at hfl ⊢; omega) (by simp only [left6] at hfb ⊢; omega) hop
        refine ⟨s2, bs, by rw [tailT_congr e1]; exact r1, r2, ?_, r4⟩
        rw [r3, closedOf6_shift]
        simp
      · obtain ⟨ret, bl', s1, h1, h2, h3, h4, h5⟩ :=
          prev_end hprev d rest0 k fl bl pc (Or.inr hln) (by omega) hop hcode
        rw [tailT_of_lines h1]
        rcases h5 with ⟨_, hq⟩ | ⟨hr, _, k', hk'⟩
        · exfalso; have := hln.le; omega
        · subst hr
          have es1 : s1 = ⟨rdr src k' (q + 1) (q + 1) (lineEnd src (q + 1)) none (-1), d :: (rest0 ++ [xc]), s1.pc⟩ := by
            cases s1; simp only at hk' h2 ⊢; rw [hk', h2]
          have hic0 : IcOK6 false ((s', b) :: rest) := ⟨fun h => Bool.noConfusion h, hic.2⟩
          obtain ⟨s2, bs, r1, r2, r3, r4⟩ :=
            hB s' trail (q + 1) k' fb bl' d (rest0 ++ [xc]) s1.pc hd' hgood' hseps.2 hic0
              (by simp only [left6] at hfb ⊢; omega) h3
          refine ⟨s2, bs, ?_, r2, ?_, by rw [r4, h4]⟩
          · simp only [Bool.false_eq_true, if_false]
            rw [es1]; exact r1
          · rw [r3, closedOf6_shift]
            simp
  exact fun s => ⟨hB s, hO s⟩

/-- both claims for every document -/
theorem claim6_all : ∀ (items : List (Nat × Raw5)), Claim6 node5 (DocAt6 src) src items
  | [] => claim6_nil node5
  | (s, b) :: rest =>
    claim6_cons node5 (DocAt6 src) rest (claim6_all rest) b (fun _ _ _ => rfl) (fun _ _ _ => Iff.rfl) s
end run6

end GM.Proof.CMFrag
