/-
  GM.Proof.CMFragRender11 — the renderer half of the conformance proof for stage 11 (simple emphasis next to code
  spans):
  * `renderDoc_erich11`: the renderer model on Document[Paragraph[erich nodes]…] writes every paragraph as `<p>` + its
    lines (`erichLineHtml`) joined by a line feed + `</p>` and never panics — for lines that end with a text atom and
    whose code atoms do not end with a line feed (`LineShape11`; both follow from `ERichLine`: `renderDoc_erichLines11`);
  * the bridge to the spec side: `eatomOfS`, `erichLineHtml_eatomOfS11` (the prescribed HTML of a line),
    `elineSrc_eatomOfS11` (the source of a line), `erichLine_eatomOfS11` (`ERichLine` from `elineOKS`),
    `renderDoc_expectedE11` (the whole prescribed HTML `expectedE`).
-/
import GM.Proof.CMFrag11Defs
import GM.Proof.CMFragRender8
namespace GM.Proof.CMFrag
open GM GM.Spec.CM GM.Spec.CMFrag

/-! ### the renderer on the nodes of a line -/

structure LineShape11 (l : List EAtom) : Prop where
  last : ∃ init bs, l = init ++ [.txt bs]
  code : ∀ bs, EAtom.code bs ∈ l → bs.getLast? ≠ some 10

theorem handled_emph11 (e : Exts) (level : Nat) : handled e (.emphasis level) = true := rfl

theorem renderNode_em11 (rc : RCfg) (hes : rc.core.escSpace = false) (hhw : rc.core.hardWraps = false)
    (hea : rc.core.ea = 0) (ph : Bool) (next : Option Node) (bs : Bytes) :
    renderNode rc ph next (.mk (.emphasis 1) none [.mk (.text bs false false false false) none []]) =
      strBytes "<em>" ++ GM.write false bs ++ strBytes "</em>" := by
  rw [renderNode]
  have h1 : strBytes "<em>" = [60] ++ strBytes "em" ++ [62] := by decide +kernel
  have h2 : strBytes "</em>" = strBytes "</" ++ strBytes "em" ++ [62] := by decide +kernel
  simp [enter, leave, handled_emph11, skipsChildren, renderAttrs, renderNodes, renderNode_text rc hes hhw hea, h1, h2]

theorem renderNode_strong11 (rc : RCfg) (hes : rc.core.escSpace = false) (hhw : rc.core.hardWraps = false)
    (hea : rc.core.ea = 0) (ph : Bool) (next : Option Node) (bs : Bytes) :
    renderNode rc ph next (.mk (.emphasis 2) none [.mk (.text bs false false false false) none []]) =
      strBytes "<strong>" ++ GM.write false bs ++ strBytes "</strong>" := by
  rw [renderNode]
  have h1 : strBytes "<strong>" = [60] ++ strBytes "strong" ++ [62] := by decide +kernel
  have h2 : strBytes "</strong>" = strBytes "</" ++ strBytes "strong" ++ [62] := by decide +kernel
  simp [enter, leave, handled_emph11, skipsChildren, renderAttrs, renderNodes, renderNode_text rc hes hhw hea, h1, h2]

theorem eatomNodes_txt_cons11 (soft : Bool) (b : Bytes) (rest : List EAtom) (h : rest ≠ []) :
    eatomNodes soft (.txt b :: rest) = .mk (.text b false false false false) none [] :: eatomNodes soft rest := by
  cases rest with
  | nil => exact absurd rfl h
  | cons a rest => rfl

/-- the nodes of one line, followed by any other nodes -/
theorem renderNodes_eatoms11 (rc : RCfg) (hes : rc.core.escSpace = false) (hhw : rc.core.hardWraps = false)
    (hea : rc.core.ea = 0) (ph soft : Bool) (init : List EAtom) (bs : Bytes) (tail : List Node)
    (hc : ∀ b, EAtom.code b ∈ init → b.getLast? ≠ some 10) :
    renderNodes rc ph (eatomNodes soft (init ++ [.txt bs]) ++ tail) =
      erichLineHtml (init ++ [.txt bs]) ++ (if soft then [10] else []) ++ renderNodes rc ph tail := by
  induction init with
  | nil =>
    simp only [List.nil_append, eatomNodes, List.cons_append, renderNodes, renderNode_text rc hes hhw hea,
      erichLineHtml, List.flatMap_cons, List.flatMap_nil, eatomHtml, List.append_nil]
  | cons a init ih =>
    have ih' := ih (fun b hb => hc b (by simp [hb]))
    cases a with
    | txt b =>
      rw [List.cons_append, eatomNodes_txt_cons11 soft b _ (by simp), List.cons_append, renderNodes,
        renderNode_text rc hes hhw hea, ih']
      simp [erichLineHtml, eatomHtml]
    | code b =>
      rw [List.cons_append, eatomNodes, List.cons_append, renderNodes,
        renderNode_code8 rc ph _ b (hc b (by simp)), ih']
      simp [erichLineHtml, eatomHtml]
    | em b =>
      rw [List.cons_append, eatomNodes, List.cons_append, renderNodes,
        renderNode_em11 rc hes hhw hea, ih']
      simp [erichLineHtml, eatomHtml]
    | strong b =>
      rw [List.cons_append, eatomNodes, List.cons_append, renderNodes,
        renderNode_strong11 rc hes hhw hea, ih']
      simp [erichLineHtml, eatomHtml]

theorem renderNodes_erich11 (rc : RCfg) (hes : rc.core.escSpace = false) (hhw : rc.core.hardWraps = false)
    (hea : rc.core.ea = 0) (ph : Bool) (ls : List (List EAtom)) (hl : ∀ l ∈ ls, LineShape11 l) :
    renderNodes rc ph (erichNodes ls) = GM.Proof.CMFrag.joinNl (ls.map erichLineHtml) := by
  induction ls with
  | nil => simp [erichNodes, renderNodes, GM.Proof.CMFrag.joinNl]
  | cons l rest ih =>
    obtain ⟨⟨init, bs, rfl⟩, hc⟩ := hl l (by simp)
    have hc' : ∀ b, EAtom.code b ∈ init → b.getLast? ≠ some 10 := fun b hb => hc b (by simp [hb])
    cases rest with
    | nil =>
      have := renderNodes_eatoms11 rc hes hhw hea ph false init bs [] hc'
      simp only [List.append_nil] at this
      simp [erichNodes, GM.Proof.CMFrag.joinNl, this, renderNodes]
    | cons l' rest =>
      rw [erichNodes, renderNodes_eatoms11 rc hes hhw hea ph true init bs _ hc',
        ih (fun x hx => hl x (by simp [hx]))]
      simp [GM.Proof.CMFrag.joinNl]

/-- a paragraph of rich lines as the renderer reads it -/
def erichPara11 (ls : List (List EAtom)) : GM.Node := .mk .paragraph none (erichNodes ls)

def erichParaHtml11 (ls : List (List EAtom)) : Bytes :=
  strBytes "<p>" ++ GM.Proof.CMFrag.joinNl (ls.map erichLineHtml) ++ strBytes "</p>\n"

theorem renderNode_erichPara11 (rc : RCfg) (hes : rc.core.escSpace = false) (hhw : rc.core.hardWraps = false)
    (hea : rc.core.ea = 0) (ph : Bool) (next : Option Node) (ls : List (List EAtom))
    (hl : ∀ l ∈ ls, LineShape11 l) :
    renderNode rc ph next (erichPara11 ls) = erichParaHtml11 ls := by
  rw [erichPara11, renderNode]
  simp only [enter, leave, handled_para, skipsChildren, openTag, Kind.isTableHeader,
    renderNodes_erich11 rc hes hhw hea _ ls hl, erichParaHtml11]
  have h1 : strBytes "<p>" = [60] ++ strBytes "p" ++ [62] := by decide +kernel
  rw [h1]; simp

theorem renderNodes_erichParas11 (rc : RCfg) (hes : rc.core.escSpace = false) (hhw : rc.core.hardWraps = false)
    (hea : rc.core.ea = 0) (ph : Bool) (ps : List (List (List EAtom))) (hl : ∀ ls ∈ ps, ∀ l ∈ ls, LineShape11 l) :
    renderNodes rc ph (ps.map erichPara11) = ps.flatMap erichParaHtml11 := by
  induction ps with
  | nil => simp [renderNodes]
  | cons p rest ih =>
    rw [List.map_cons, renderNodes, renderNode_erichPara11 rc hes hhw hea _ _ p (hl p (by simp)),
      ih (fun x hx => hl x (by simp [hx]))]
    simp

/-! ### no panic -/

theorem renderPanicsNodes_eatoms11 (rc : RCfg) (soft : Bool) (l : List EAtom) (tail : List Node)
    (ht : renderPanicsNodes rc tail = none) :
    renderPanicsNodes rc (eatomNodes soft l ++ tail) = none := by
  induction l with
  | nil => simpa [eatomNodes] using ht
  | cons a rest ih =>
    cases a with
    | txt b =>
      cases rest with
      | nil => simp [eatomNodes, renderPanicsNodes, renderPanicsNode, nodePanic, ht]
      | cons a' rest' =>
        rw [eatomNodes_txt_cons11 soft b _ (by simp), List.cons_append, renderPanicsNodes, ih]
        simp [renderPanicsNode, nodePanic, renderPanicsNodes]
    | code b =>
      rw [eatomNodes, List.cons_append, renderPanicsNodes, ih]
      simp [renderPanicsNode, nodePanic, handled_codeSpan8, skipsChildren, codeSpanChildrenText, Node.kind, Kind.isText]
    | em b =>
      rw [eatomNodes, List.cons_append, renderPanicsNodes, ih]
      simp [renderPanicsNode, nodePanic, handled_emph11, skipsChildren, renderPanicsNodes]
    | strong b =>
      rw [eatomNodes, List.cons_append, renderPanicsNodes, ih]
      simp [renderPanicsNode, nodePanic, handled_emph11, skipsChildren, renderPanicsNodes]

theorem renderPanicsNodes_erich11 (rc : RCfg) (ls : List (List EAtom)) :
    renderPanicsNodes rc (erichNodes ls) = none := by
  induction ls with
  | nil => simp [erichNodes, renderPanicsNodes]
  | cons l rest ih =>
    cases rest with
    | nil =>
      have := renderPanicsNodes_eatoms11 rc false l [] (by simp [renderPanicsNodes])
      simpa [erichNodes] using this
    | cons l' rest =>
      rw [erichNodes]
      exact renderPanicsNodes_eatoms11 rc true l _ ih

theorem renderPanicsNodes_erichParas11 (rc : RCfg) (ps : List (List (List EAtom))) :
    renderPanicsNodes rc (ps.map erichPara11) = none := by
  induction ps with
  | nil => simp [renderPanicsNodes]
  | cons p rest ih =>
    rw [List.map_cons, renderPanicsNodes, ih]
    simp [erichPara11, renderPanicsNode, nodePanic, renderPanicsNodes_erich11]

/-! ### the document -/

theorem renderDoc_erich11_any (o : GM.Convert.ROpts) (ho : o.hardWraps = false) (ps : List (List (List EAtom)))
    (hl : ∀ ls ∈ ps, ∀ l ∈ ls, LineShape11 l) :
    GM.Convert.renderDoc o (.mk .document none (ps.map fun ls => .mk .paragraph none (erichNodes ls))) =
      .ok (ps.flatMap fun ls =>
        strBytes "<p>" ++ GM.Proof.CMFrag.joinNl (ls.map erichLineHtml) ++ strBytes "</p>\n") := by
  have hp : renderPanics o.rcfg (.mk .document none (ps.map erichPara11)) = none := by
    simp [renderPanics, renderPanicsNode, nodePanic, renderPanicsNodes_erichParas11]
  have hr : render o.rcfg (.mk .document none (ps.map erichPara11)) = ps.flatMap erichParaHtml11 := by
    rw [render, renderNode]
    simp [enter, leave, handled_doc, skipsChildren, Kind.isTableHeader,
      renderNodes_erichParas11 o.rcfg (rcfg_escSpace o) (by rw [rcfg_hardWraps, ho]) (rcfg_ea o) _ ps hl]
  have e1 : (ps.map fun ls => GM.Node.mk .paragraph none (erichNodes ls)) = ps.map erichPara11 := rfl
  rw [e1, GM.Convert.renderDoc, hp, hr]
  rfl

/-- the renderer on a document of paragraphs of rich lines with emphasis -/
theorem renderDoc_erich11 (ps : List (List (List EAtom))) (hl : ∀ ls ∈ ps, ∀ l ∈ ls, LineShape11 l) :
    GM.Convert.renderDoc cmOpts (.mk .document none (ps.map fun ls => .mk .paragraph none (erichNodes ls))) =
      .ok (ps.flatMap fun ls =>
        strBytes "<p>" ++ GM.Proof.CMFrag.joinNl (ls.map erichLineHtml) ++ strBytes "</p>\n") :=
  renderDoc_erich11_any cmOpts rfl ps hl

theorem lineShape_of_erichLine11 (l : List EAtom) (h : ERichLine l) : LineShape11 l := by
  obtain ⟨init, bs, hl, _⟩ := h.last
  refine ⟨⟨init, bs, hl⟩, ?_⟩
  intro b hb hlast
  have hok := h.ok _ hb
  obtain ⟨ys, hys⟩ := List.getLast?_eq_some_iff.mp hlast
  exact alnum_ne_lf8 10 (hok.2 10 (by rw [hys]; simp)) rfl

theorem renderDoc_erichLines11 (ps : List (List (List EAtom))) (hl : ∀ ls ∈ ps, ∀ l ∈ ls, ERichLine l) :
    GM.Convert.renderDoc cmOpts (.mk .document none (ps.map fun ls => .mk .paragraph none (erichNodes ls))) =
      .ok (ps.flatMap fun ls =>
        strBytes "<p>" ++ GM.Proof.CMFrag.joinNl (ls.map erichLineHtml) ++ strBytes "</p>\n") :=
  renderDoc_erich11 ps (fun ls hls l hlm => lineShape_of_erichLine11 l (hl ls hls l hlm))

/-! ### the bridge to the spec side -/

/-- a spec-side atom as source bytes -/
def eatomOfS : EAtomS → EAtom
  | .txt cs => .txt (escSpell cs)
  | .code c => .code c
  | .em c => .em c
  | .strong c => .strong c

theorem eatomSrc_eatomOfS11 (a : EAtomS) : eatomSrc (eatomOfS a) = spellEAtom a := by
  cases a <;> rfl

theorem elineSrc_eatomOfS11 (l : ELine) : elineSrc (l.map eatomOfS) = spellELine l := by
  simp only [elineSrc, spellELine, List.flatMap_map]
  congr 1; funext a; exact eatomSrc_eatomOfS11 a

/-- what `eatomOKS` says, atom kind by atom kind -/
theorem eatomOKS_txt11 (cs : List TChar) (h : eatomOKS (.txt cs) = true) : cs ≠ [] ∧ ∀ t ∈ cs, charOK t = true := by
  simp only [eatomOKS, Bool.and_eq_true, Bool.not_eq_true', List.isEmpty_eq_false_iff, List.all_eq_true] at h
  exact h

theorem alnumOK11 (c : Bytes) (h : (!c.isEmpty && c.all isAlnumC) = true) : c ≠ [] ∧ ∀ x ∈ c, isAlnumC x = true := by
  simp only [Bool.and_eq_true, Bool.not_eq_true', List.isEmpty_eq_false_iff, List.all_eq_true] at h
  exact h

theorem spell_alnum_lit11 : ∀ c : UInt8, isAlnumC c = true → spellChar ⟨c, .lit⟩ = [c] ∧ printable c = true := by
  apply forall_uint8; decide +kernel

theorem escSpell_elits11 (c : Bytes) (h : ∀ x ∈ c, isAlnumC x = true) : escSpell (elits c) = c := by
  induction c with
  | nil => rfl
  | cons x rest ih =>
    have := ih (fun y hy => h y (by simp [hy]))
    simp only [escSpell, elits, List.map_cons, List.flatMap_cons] at this ⊢
    rw [this, (spell_alnum_lit11 x (h x (by simp))).1]
    rfl

theorem plain_elits11 (c : Bytes) : plain (elits c) = c := by
  induction c with
  | nil => rfl
  | cons x rest ih =>
    simp only [plain, elits, List.map_cons] at ih ⊢
    rw [ih]

/-- letters and digits are written as they are -/
theorem write_alnum11 (c : Bytes) (h : ∀ x ∈ c, isAlnumC x = true) : GM.write false c = escHtml c := by
  have hp : ∀ t ∈ elits c, printable t.c = true := by
    intro t ht
    simp only [elits, List.mem_map] at ht
    obtain ⟨x, hx, rfl⟩ := ht
    exact (spell_alnum_lit11 x (h x hx)).2
  have := write_spelled (elits c) hp
  rwa [escSpell_elits11 c h, plain_elits11] at this

theorem eatomHtml_eatomOfS11 (a : EAtomS) (h : eatomOKS a = true) : eatomHtml (eatomOfS a) = expEAtom a := by
  cases a with
  | txt cs =>
    exact write_spelled cs (fun t ht => charOK_printable t ((eatomOKS_txt11 cs h).2 t ht))
  | code c =>
    simp only [eatomOfS, eatomHtml, expEAtom, GM.Proof.CMSpec.escHtml_eq_rawWrite]
  | em c =>
    simp only [eatomOfS, eatomHtml, expEAtom, write_alnum11 c (alnumOK11 c h).2]
  | strong c =>
    simp only [eatomOfS, eatomHtml, expEAtom, write_alnum11 c (alnumOK11 c h).2]

theorem erichLineHtml_eatomOfS11 (l : ELine) (h : ∀ a ∈ l, eatomOKS a = true) :
    erichLineHtml (l.map eatomOfS) = expELine l := by
  simp only [erichLineHtml, expELine, List.flatMap_map]
  induction l with
  | nil => rfl
  | cons a rest ih =>
    simp only [List.flatMap_cons]
    rw [eatomHtml_eatomOfS11 a (h a (by simp)), ih (fun x hx => h x (by simp [hx]))]

theorem eatomOK_eatomOfS11 (a : EAtomS) (h : eatomOKS a = true) : EAtomOK (eatomOfS a) := by
  cases a with
  | txt cs =>
    obtain ⟨hne, hall⟩ := eatomOKS_txt11 cs h
    exact ⟨escSpell_ne_nil8 cs hne, fun i => quiet_escSpell cs hall i, escAfter_escSpell8 cs⟩
  | code c => exact alnumOK11 c h
  | em c => exact alnumOK11 c h
  | strong c => exact alnumOK11 c h

theorem isTxt_eatomOfS11 (a : EAtomS) : (eatomOfS a).isTxt = a.isTxt := by cases a <;> rfl

theorem ealternating_eatomOfS11 (l : ELine) : ealternating (l.map eatomOfS) = ealternatingS l := by
  induction l with
  | nil => rfl
  | cons a rest ih =>
    cases rest with
    | nil => rfl
    | cons b rest =>
      simp only [List.map_cons, ealternating, ealternatingS, isTxt_eatomOfS11] at ih ⊢
      rw [ih]

theorem erichLine_eatomOfS11 (l : ELine) (h : elineOKS l = true) : ERichLine (l.map eatomOfS) := by
  simp only [elineOKS, Bool.and_eq_true, List.all_eq_true] at h
  obtain ⟨⟨⟨halt, hfirst⟩, hlast⟩, hok⟩ := h
  refine ⟨by rw [ealternating_eatomOfS11]; exact halt, ?_, ?_, ?_⟩
  · -- first
    unfold efirstOKS at hfirst
    split at hfirst
    · rename_i t ts rest
      obtain ⟨tc, te⟩ := t
      obtain ⟨sp, lt⟩ := spell_first tc te hfirst
      refine ⟨escSpell (⟨tc, te⟩ :: ts), rest.map eatomOfS, rfl, ?_⟩
      intro c hc
      simp only [escSpell, List.flatMap_cons, sp, List.cons_append, List.nil_append, List.head?_cons,
        Option.some.injEq] at hc
      subst hc; exact lt
    · cases hfirst
  · -- last
    unfold elastOKS at hlast
    split at hlast
    · rename_i cs hl
      split at hlast
      · rename_i z hz
        obtain ⟨zc, ze⟩ := z
        obtain ⟨sp, nsp, nbs⟩ := spell_last zc ze hlast
        obtain ⟨init, hinit⟩ := List.getLast?_eq_some_iff.mp hl
        obtain ⟨cinit, hcs⟩ := List.getLast?_eq_some_iff.mp hz
        refine ⟨init.map eatomOfS, escSpell cs, by rw [hinit]; simp [eatomOfS], ?_⟩
        intro c hc
        have e : escSpell cs = escSpell cinit ++ [zc] := by rw [hcs]; simp [escSpell, sp]
        rw [e] at hc
        simp at hc
        subst hc; exact ⟨nsp, nbs⟩
      · cases hlast
    · cases hlast
  · intro a ha
    obtain ⟨r, hr, rfl⟩ := List.mem_map.mp ha
    exact eatomOK_eatomOfS11 r (hok r hr)

/-! #### the prescribed HTML of a whole document -/

theorem elineOKS_atoms11 (l : ELine) (h : elineOKS l = true) : ∀ a ∈ l, eatomOKS a = true := by
  simp only [elineOKS, Bool.and_eq_true, List.all_eq_true] at h
  exact h.2

theorem eitemOKS_lines11 (it : EItem) (h : eitemOKS it = true) :
    it.lines ≠ [] ∧ ∀ l ∈ it.lines, elineOKS l = true := by
  simp only [eitemOKS, Bool.and_eq_true, Bool.not_eq_true', List.isEmpty_eq_false_iff, List.all_eq_true] at h
  exact h

/-- the paragraphs of a stage-11 document as lists of proof-side atoms -/
def atomsOfE (d : EDoc) : List (List (List EAtom)) := d.items.map fun it => it.lines.map (·.map eatomOfS)

theorem docHtml_eatomOfS11 (d : EDoc) (h : EFrag d) :
    ((atomsOfE d).flatMap fun ls =>
      strBytes "<p>" ++ GM.Proof.CMFrag.joinNl (ls.map erichLineHtml) ++ strBytes "</p>\n") = expectedE d := by
  simp only [EFrag, efragB, List.all_eq_true] at h
  simp only [atomsOfE, expectedE, List.flatMap_map]
  apply flatMap_congr8
  intro it hit
  have hls := (eitemOKS_lines11 it (h it hit)).2
  have : (it.lines.map (·.map eatomOfS)).map erichLineHtml = it.lines.map expELine := by
    rw [List.map_map]
    apply List.map_congr_left
    intro l hl
    exact erichLineHtml_eatomOfS11 l (elineOKS_atoms11 l (hls l hl))
  rw [this, joinNl_eq, expEItem]

theorem erichLines_atomsOfE11 (d : EDoc) (h : EFrag d) : ∀ ls ∈ atomsOfE d, ∀ l ∈ ls, ERichLine l := by
  simp only [EFrag, efragB, List.all_eq_true] at h
  intro ls hls l hl
  simp only [atomsOfE, List.mem_map] at hls
  obtain ⟨it, hit, rfl⟩ := hls
  obtain ⟨r, hr, rfl⟩ := List.mem_map.mp hl
  exact erichLine_eatomOfS11 r ((eitemOKS_lines11 it (h it hit)).2 r hr)

/-- the renderer on the nodes of a stage-11 document writes the prescribed HTML -/
theorem renderDoc_expectedE11 (d : EDoc) (h : EFrag d) :
    GM.Convert.renderDoc cmOpts
        (.mk .document none ((atomsOfE d).map fun ls => .mk .paragraph none (erichNodes ls))) =
      .ok (expectedE d) := by
  rw [renderDoc_erichLines11 _ (erichLines_atomsOfE11 d h), docHtml_eatomOfS11 d h]

end GM.Proof.CMFrag
