/-
  GM.Proof.QuoteSimNonePos — an `Open` that answers nil leaves the cursor where it was.

  Every block parser calls `advance` / `advanceAndSetPadding` only on the path that returns `some node`;
  `blockquoteProcess` answers `false` only before any advance; `peekLine` and `lineOffset` change only the
  caches `peekedLine` / `lineOffset` of the reader, never `pos`. Two judgments over the `do` blocks:
  * `Keeps (PosIs P0) m` (calculus of GM.Proof.QuoteSimFrame): `m` keeps `r.pos = P0` (tactic `kp`);
  * `NoneP P0 m Q`: a successful run of `m` from `r.pos = P0` whose answer satisfies `Q` ends with
    `r.pos = P0` (tactic `np`). After the first statement that is not known to keep `pos` the rest of the
    block must always answer outside `Q` (`Ret` calculus of GM.Proof.BlocksLeaf; `NoneP.bind_some`,
    `NoneP.bind_true`, `NoneP.bind_np`).
  Results: `bpOpen_none_pos`, `blockquoteProcess_false_pos`, `peekLine_pos`, `lineOffset_pos`.
-/
import GM.Proof.QuoteSimFrame

namespace GM.Blocks
open GM GM.Text

/-- the cursor of the reader is `P0` -/
def PosIs (P0 : Segment) : St → Prop := fun s => s.r.pos = P0

/-! ### the reader caches -/

theorem Reader.peekLine_pos (r r' : Reader) (x : Option Bytes × Segment)
    (h : r.peekLine = .ok (x, r')) : r'.pos = r.pos := by
  unfold Reader.peekLine at h
  split at h
  · split at h
    · cases h; rfl
    · cases hv : r.pos.value r.source with
      | error e => rw [hv] at h; cases h
      | ok v => rw [hv] at h; cases h; rfl
  · cases h; rfl

theorem Reader.lineOffsetOp_pos (r r' : Reader) (x : Int)
    (h : r.lineOffsetOp = .ok (x, r')) : r'.pos = r.pos := by
  unfold Reader.lineOffsetOp at h
  split at h
  · cases hv : colLoop r.source r.head r.pos.start with
    | error e => rw [hv] at h; cases h
    | ok v => rw [hv] at h; cases h; rfl
  · cases h; rfl

section prims
variable {P0 : Segment}

theorem peekLine_kp : Keeps (PosIs P0) peekLine := by
  intro s a s' hs h
  unfold peekLine at h
  cases hp : s.r.peekLine with
  | error e => rw [hp] at h; cases h
  | ok p =>
    rw [hp] at h; cases h
    exact (Reader.peekLine_pos _ _ _ hp).trans hs

theorem lineOffset_kp : Keeps (PosIs P0) lineOffset := by
  intro s a s' hs h
  unfold lineOffset at h
  cases hp : s.r.lineOffsetOp with
  | error e => rw [hp] at h; cases h
  | ok p =>
    rw [hp] at h; cases h
    exact (Reader.lineOffsetOp_pos _ _ _ hp).trans hs

theorem posIs_noNodes : NoNodes (PosIs P0) := ⟨fun _ _ hs => hs⟩

theorem modNode_kp (id : Nat) (f : Node → Node) : Keeps (PosIs P0) (modNode id f) :=
  modNode_keeps posIs_noNodes id f

theorem newNode_kp (n : Node) : Keeps (PosIs P0) (newNode n) := newNode_keeps posIs_noNodes n

theorem appendLine_kp (id : Nat) (seg : Segment) : Keeps (PosIs P0) (appendLine id seg) :=
  appendLine_keeps posIs_noNodes id seg

theorem modPc_kp (f : Ctx → Ctx) : Keeps (PosIs P0) (modPc f) := modPc_keeps f fun _ hs => hs

end prims

macro "kp_step" : tactic =>
  `(tactic| first
    | with_reducible apply Keeps.pure
    | with_reducible apply Keeps.bind
    | with_reducible apply Keeps.ite
    | with_reducible apply Keeps.throw
    | with_reducible apply getNode_keeps
    | with_reducible apply getPc_keeps
    | with_reducible apply source_keeps
    | with_reducible apply liftE_keeps
    | with_reducible apply lastOpenedBlock_keeps
    | with_reducible apply peekLine_kp
    | with_reducible apply lineOffset_kp
    | with_reducible apply modNode_kp
    | with_reducible apply newNode_kp
    | with_reducible apply appendLine_kp
    | with_reducible apply modPc_kp
    | apply_hyp
    | intro_pi
    | split)

/-- walk over an `M` do block that keeps `r.pos` -/
macro "kp" : tactic => `(tactic| repeat' kp_step)

theorem lastOffset_kp {P0 : Segment} (n : Nat) : Keeps (PosIs P0) (lastOffset n) := by
  unfold lastOffset; kp

/-! ### the judgment -/

/-- a successful run of `m` from `r.pos = P0` whose answer satisfies `Q` ends with `r.pos = P0` -/
def NoneP (P0 : Segment) {α : Type} (m : M α) (Q : α → Prop) : Prop :=
  ∀ s a s', s.r.pos = P0 → m s = .ok (a, s') → Q a → s'.r.pos = P0

section calculus
variable {P0 : Segment}

theorem NoneP.pure {α} {Q : α → Prop} (a : α) : NoneP P0 (Pure.pure a : M α) Q := by
  intro s b s' hs h _
  cases h
  exact hs

theorem NoneP.throw {α} {Q : α → Prop} (e : Panic) : NoneP P0 (throw e : M α) Q := by
  intro s a s' _ h
  cases h

/-- a first statement that keeps `pos` -/
theorem NoneP.bind {α β} {Q : β → Prop} {m : M α} {f : α → M β} (hm : Keeps (PosIs P0) m)
    (hf : ∀ a, NoneP P0 (f a) Q) : NoneP P0 (m >>= f) Q := by
  intro s b s' hs h hq
  simp only [Bind.bind, StateT.bind] at h
  cases hms : m s with
  | error e => rw [hms] at h; simp [Except.bind] at h
  | ok p =>
    rw [hms] at h
    simp only [Except.bind] at h
    exact hf p.1 p.2 b s' (hm s p.1 p.2 hs hms) h hq

/-- a first statement whose answers in `Q1` keep `pos`; after an answer outside `Q1` the rest never
    answers in `Q` -/
theorem NoneP.bind_np {α β} {Q1 : α → Prop} {Q : β → Prop} {m : M α} {f : α → M β}
    (hm : NoneP P0 m Q1) (hf : ∀ a, Q1 a → NoneP P0 (f a) Q)
    (hg : ∀ a, ¬ Q1 a → Ret (f a) (fun b => ¬ Q b)) : NoneP P0 (m >>= f) Q := by
  intro s b s' hs h hq
  simp only [Bind.bind, StateT.bind] at h
  cases hms : m s with
  | error e => rw [hms] at h; simp [Except.bind] at h
  | ok p =>
    rw [hms] at h
    simp only [Except.bind] at h
    by_cases hq1 : Q1 p.1
    · exact hf p.1 hq1 p.2 b s' (hm s p.1 p.2 hs hms hq1) h hq
    · exact absurd hq ((hg p.1 hq1).h p.2 b s' h)

theorem NoneP.ite {α} {Q : α → Prop} {c : Prop} [Decidable c] {a b : M α}
    (ha : c → NoneP P0 a Q) (hb : ¬c → NoneP P0 b Q) : NoneP P0 (if c then a else b) Q := by
  split
  · exact ha ‹_›
  · exact hb ‹_›

/-- a block that never answers in `Q` -/
theorem NoneP.of_ret {α} {Q R : α → Prop} {m : M α} (hr : Ret m R) (hqr : ∀ a, R a → ¬ Q a) :
    NoneP P0 m Q := by
  intro s a s' _ h hq
  exact absurd hq (hqr a (hr.h s a s' h))

theorem NoneP.of_keeps {α} {Q : α → Prop} {m : M α} (hm : Keeps (PosIs P0) m) : NoneP P0 m Q :=
  fun s a s' hs h _ => hm s a s' hs h

end calculus

/-- the parser answered nil -/
def IsNone (a : Option Nat × PState) : Prop := a.1 = none

/-- the parser answered a node -/
def IsSome (a : Option Nat × PState) : Prop := a.1.isSome = true

theorem isSome_not_isNone (a : Option Nat × PState) (h : IsSome a) : ¬ IsNone a := by
  intro hn
  unfold IsNone at hn
  unfold IsSome at h
  rw [hn] at h
  cases h

theorem Ret.mono {α} {m : M α} {R Q : α → Prop} (hr : Ret m R) (h : ∀ a, R a → Q a) : Ret m Q :=
  ⟨fun s a s' hm => h a (hr.h s a s' hm)⟩

/-- every answer of `m` is a node -/
theorem NoneP.of_some {P0 : Segment} {m : M (Option Nat × PState)} (hr : Ret m IsSome) :
    NoneP P0 m IsNone := NoneP.of_ret hr isSome_not_isNone

/-- after a first statement that may move the cursor every answer is a node -/
theorem NoneP.bind_some {P0 : Segment} {α} {m : M α} {f : α → M (Option Nat × PState)}
    (hr : ∀ a, Ret (f a) IsSome) : NoneP P0 (m >>= f) IsNone := NoneP.of_some (Ret.bind hr)

/-- after a first statement that may move the cursor every answer is `true` -/
theorem NoneP.bind_true {P0 : Segment} {α} {m : M α} {f : α → M Bool}
    (hr : ∀ a, Ret (f a) (fun b => b = true)) : NoneP P0 (m >>= f) (fun b => b = false) :=
  NoneP.of_ret (Ret.bind hr) fun b hb hf => by rw [hb] at hf; cases hf

/-- walk over a `do` block all of whose answers are closed by `rfl` -/
macro "rs" : tactic =>
  `(tactic| repeat' first
    | ((with_reducible apply Ret.pure); rfl)
    | with_reducible apply Ret.bind
    | with_reducible apply Ret.ite
    | with_reducible apply Ret.throw
    | intro_pi
    | split)

macro "np_step" : tactic =>
  `(tactic| first
    | with_reducible apply NoneP.pure
    | with_reducible apply NoneP.throw
    | ((with_reducible apply NoneP.bind); focus (kp; done))
    | ((with_reducible apply NoneP.bind_some); unfold IsSome; rs; done)
    | ((with_reducible apply NoneP.bind_true); rs; done)
    | with_reducible apply NoneP.ite
    | intro_pi
    | split)

/-- walk over the `do` block of an `Open` -/
macro "np" : tactic => `(tactic| repeat' np_step)

/-! ### the parsers -/

section parsers
variable (P0 : Segment)

theorem paragraphOpen_np (p : Nat) : NoneP P0 (paragraphOpen p) IsNone := by
  unfold paragraphOpen; np

theorem thematicOpen_np (p : Nat) : NoneP P0 (thematicOpen p) IsNone := by
  unfold thematicOpen; np

theorem atxOpen_np (p : Nat) : NoneP P0 (atxOpen p) IsNone := by
  unfold atxOpen; np

theorem setextOpen_np (p : Nat) : NoneP P0 (setextOpen p) IsNone := by
  unfold setextOpen; np

theorem codeOpen_np (p : Nat) : NoneP P0 (codeOpen p) IsNone := by
  unfold codeOpen; np

theorem fencedOpen_np (p : Nat) : NoneP P0 (fencedOpen p) IsNone := by
  unfold fencedOpen; np

theorem htmlOpen_np (p : Nat) : NoneP P0 (htmlOpen p) IsNone := by
  unfold htmlOpen; np

theorem listOpen_np (p : Nat) : NoneP P0 (listOpen p) IsNone := by
  unfold listOpen; np

theorem listItemOpen_np (p : Nat) : NoneP P0 (listItemOpen p) IsNone := by
  have := @lastOffset_kp P0
  unfold listItemOpen; np

/-- `blockquoteProcess` answers `false` only before any advance -/
theorem blockquoteProcess_np : NoneP P0 blockquoteProcess (fun b => b = false) := by
  unfold blockquoteProcess; np

theorem blockquoteOpen_np (p : Nat) : NoneP P0 (blockquoteOpen p) IsNone := by
  unfold blockquoteOpen
  refine NoneP.bind_np (blockquoteProcess_np P0) ?_ ?_
  · intro a ha
    np
  · intro a ha
    have : a = true := by cases a <;> simp_all
    subst this
    refine Ret.mono (R := IsSome) ?_ isSome_not_isNone
    simp only [↓reduceIte]
    unfold IsSome; rs

theorem bpOpen_np (bp : BP) (p : Nat) : NoneP P0 (bpOpen bp p) IsNone := by
  cases bp <;> unfold bpOpen
  · exact setextOpen_np P0 p
  · exact thematicOpen_np P0 p
  · exact listOpen_np P0 p
  · exact listItemOpen_np P0 p
  · exact codeOpen_np P0 p
  · exact atxOpen_np P0 p
  · exact fencedOpen_np P0 p
  · exact blockquoteOpen_np P0 p
  · exact htmlOpen_np P0 p
  · exact paragraphOpen_np P0 p

end parsers

/-- `peekLine` does not move the cursor -/
theorem peekLine_pos (s s' : St) (a : Option Bytes × Segment) (h : peekLine s = .ok (a, s')) :
    s'.r.pos = s.r.pos := peekLine_kp (P0 := s.r.pos) s a s' rfl h

/-- `lineOffset` does not move the cursor -/
theorem lineOffset_pos (s s' : St) (a : Int) (h : lineOffset s = .ok (a, s')) :
    s'.r.pos = s.r.pos := lineOffset_kp (P0 := s.r.pos) s a s' rfl h

/-- a `process` of the block quote parser that answers `false` leaves the cursor where it was -/
theorem blockquoteProcess_false_pos (s s' : St) (h : blockquoteProcess s = .ok (false, s')) :
    s'.r.pos = s.r.pos := blockquoteProcess_np s.r.pos s false s' rfl h rfl

/-- an `Open` that answers nil leaves the cursor where it was -/
theorem bpOpen_none_pos (bp : BP) (parent : Nat) (s s' : St) (a : Option Nat × PState)
    (h : bpOpen bp parent s = .ok (a, s')) (hn : a.1 = none) : s'.r.pos = s.r.pos :=
  bpOpen_np s.r.pos bp parent s a s' rfl h hn

end GM.Blocks
