/-
  GM.Proof.ConvertXStrikeDoc — Strikethrough is conservative at whole-document level: the pieces of GM.Proof.ConvertXStrike
  (same inline children on a source without `~`) and GM.Proof.ConvertXLevels (no Strikethrough representation without the
  member) composed through the tree conversion and the renderer.
-/
import GM.Proof.ConvertXStrike
import GM.Proof.ConvertXLevels
import GM.Proof.ConvertXRel

namespace GM.Proof.ConvertXStrikeDoc
open GM GM.Text GM.Inl GM.Convert GM.ConvertX GM.Proof.ConvertX GM.Proof.ConvertXRelv GM.Proof.ConvertXLevels

mutual
/-- no emphasis node, at any depth, has the level −3 / −4 of a Strikethrough representation -/
def noS : Inl.Node → Bool
  | .emphasis lv ks => !(lv == -3 || lv == -4) && noSL ks
  | .codeSpan ks => noSL ks
  | .link _ _ _ ks => noSL ks
  | _ => true
def noSL : List Inl.Node → Bool
  | [] => true
  | n :: rest => noS n && noSL rest
end

theorem noSL_append (a b : List Inl.Node) : noSL (a ++ b) = (noSL a && noSL b) := by
  induction a with
  | nil => simp [noSL]
  | cons x r ih => simp [noSL, ih, Bool.and_assoc]

theorem noSL_allText : ∀ (ks : List Inl.Node), ks.all GM.Proof.Inlines.isText = true → noSL ks = true
  | [], _ => rfl
  | n :: rest, h => by
    simp only [List.all_cons, Bool.and_eq_true] at h
    have := noSL_allText rest h.2
    cases n <;> simp_all [noSL, noS, GM.Proof.Inlines.isText]

theorem escCut_noS (a b : Int) : ∀ (ps : List Int) (done : List Inl.Node) (cur : Segment) (cut : Bool),
    noSL done = true → noSL (GM.TableX.escCut a b ps done cur cut).1 = true
  | [], _, _, _, h => by simpa [GM.TableX.escCut] using h
  | pos :: rest, done, cur, cut, h => by
    unfold GM.TableX.escCut
    split
    · exact escCut_noS a b rest _ _ _ (by simp [noSL_append, h, noSL, noS, rawTextOf])
    · exact escCut_noS a b rest _ _ _ h

mutual
theorem escNode_noS (ps : List Int) : ∀ n : Inl.Node, noS n = true → noS (GM.TableX.escNode ps n) = true
  | .codeSpan ks, h => by
    simp only [noS] at h
    simp only [GM.TableX.escNode, noS]; exact escSpanKids_noS ps ks h
  | .emphasis lv ks, h => by
    simp only [noS, Bool.and_eq_true] at h
    simp only [GM.TableX.escNode, noS, Bool.and_eq_true]; exact ⟨h.1, escNodes_noS ps ks h.2⟩
  | .link _ _ _ ks, h => by
    simp only [noS] at h
    simp only [GM.TableX.escNode, noS]; exact escNodes_noS ps ks h
  | .text .., _ => rfl
  | .autoLink .., _ => rfl
  | .rawHTML .., _ => rfl
  | .delim .., _ => rfl
  | .label .., _ => rfl
theorem escNodes_noS (ps : List Int) : ∀ ns : List Inl.Node, noSL ns = true → noSL (GM.TableX.escNodes ps ns) = true
  | [], _ => rfl
  | n :: rest, h => by
    simp only [noSL, Bool.and_eq_true] at h
    simp only [GM.TableX.escNodes, noSL, Bool.and_eq_true]
    exact ⟨escNode_noS ps n h.1, escNodes_noS ps rest h.2⟩
theorem escSpanKids_noS (ps : List Int) : ∀ ns : List Inl.Node, noSL ns = true → noSL (GM.TableX.escSpanKids ps ns) = true
  | [], _ => rfl
  | .text seg so ha ra :: rest, h => by
    simp only [noSL, Bool.and_eq_true] at h
    simp only [GM.TableX.escSpanKids, noSL_append, Bool.and_eq_true]
    refine ⟨?_, escSpanKids_noS ps rest h.2⟩
    split
    · simp only [noSL_append, Bool.and_eq_true]
      exact ⟨escCut_noS _ _ ps [] seg false rfl, by simp [noSL, noS, rawTextOf]⟩
    · simp [noSL, noS]
  | .codeSpan ks :: rest, h => by
    simp only [noSL, Bool.and_eq_true] at h
    simp only [GM.TableX.escSpanKids, noSL, Bool.and_eq_true]
    exact ⟨escNode_noS ps _ h.1, escSpanKids_noS ps rest h.2⟩
  | .emphasis lv ks :: rest, h => by
    simp only [noSL, Bool.and_eq_true] at h
    simp only [GM.TableX.escSpanKids, noSL, Bool.and_eq_true]
    exact ⟨escNode_noS ps _ h.1, escSpanKids_noS ps rest h.2⟩
  | .link a b c ks :: rest, h => by
    simp only [noSL, Bool.and_eq_true] at h
    simp only [GM.TableX.escSpanKids, noSL, Bool.and_eq_true]
    exact ⟨escNode_noS ps _ h.1, escSpanKids_noS ps rest h.2⟩
  | .autoLink a b :: rest, h => by
    simp only [noSL, Bool.and_eq_true] at h
    simp only [GM.TableX.escSpanKids, noSL, Bool.and_eq_true]
    exact ⟨escNode_noS ps _ h.1, escSpanKids_noS ps rest h.2⟩
  | .rawHTML a :: rest, h => by
    simp only [noSL, Bool.and_eq_true] at h
    simp only [GM.TableX.escSpanKids, noSL, Bool.and_eq_true]
    exact ⟨escNode_noS ps _ h.1, escSpanKids_noS ps rest h.2⟩
  | .delim a b :: rest, h => by
    simp only [noSL, Bool.and_eq_true] at h
    simp only [GM.TableX.escSpanKids, noSL, Bool.and_eq_true]
    exact ⟨escNode_noS ps _ h.1, escSpanKids_noS ps rest h.2⟩
  | .label a b c :: rest, h => by
    simp only [noSL, Bool.and_eq_true] at h
    simp only [GM.TableX.escSpanKids, noSL, Bool.and_eq_true]
    exact ⟨escNode_noS ps _ h.1, escSpanKids_noS ps rest h.2⟩
end

mutual
/-- on a tree without the representations the decoding does not depend on the inline member flags -/
theorem inlineTreeX_sflag (c1 c2 : XCfg) (ht : c1.tasklist = c2.tasklist) (src : Bytes) : ∀ n : Inl.Node, noS n = true →
    inlineTreeX c1 src n = inlineTreeX c2 src n
  | .text .., _ => by simp [inlineTreeX]
  | .codeSpan ks, h => by
    simp only [noS] at h
    simp only [inlineTreeX, inlineTreesX_sflag c1 c2 ht src ks h]
  | .emphasis lv ks, h => by
    simp only [noS, Bool.and_eq_true, Bool.not_eq_true'] at h
    simp only [inlineTreeX, inlineTreesX_sflag c1 c2 ht src ks h.2, h.1, Bool.and_false, Bool.false_eq_true, if_false, ht]
  | .link _ _ _ ks, h => by
    simp only [noS] at h
    simp only [inlineTreeX, inlineTreesX_sflag c1 c2 ht src ks h]
  | .autoLink .., _ => by simp [inlineTreeX]
  | .rawHTML .., _ => by simp [inlineTreeX]
  | .delim .., _ => by simp [inlineTreeX]
  | .label .., _ => by simp [inlineTreeX]
theorem inlineTreesX_sflag (c1 c2 : XCfg) (ht : c1.tasklist = c2.tasklist) (src : Bytes) : ∀ ns : List Inl.Node, noSL ns = true →
    inlineTreesX c1 src ns = inlineTreesX c2 src ns
  | [], _ => by simp [inlineTreesX]
  | n :: rest, h => by
    simp only [noSL, Bool.and_eq_true] at h
    simp only [inlineTreesX, inlineTreeX_sflag c1 c2 ht src n h.1, inlineTreesX_sflag c1 c2 ht src rest h.2]
end


mutual
theorem fix_noS : ∀ n : Inl.Node, relv g0 n = n → noS n = true
  | .emphasis lv ks, h => by
    simp only [relv_emphasis, Node.emphasis.injEq] at h
    simp only [noS, Bool.and_eq_true, Bool.not_eq_true']
    refine ⟨?_, fixL_noSL ks h.2⟩
    have := h.1
    unfold g0 at this
    split at this
    · rename_i hc
      simp only [Bool.or_eq_true, beq_iff_eq] at hc
      omega
    · rename_i hc; simpa using hc
  | .codeSpan ks, h => by
    simp only [relv_codeSpan, Node.codeSpan.injEq] at h
    simp only [noS]; exact fixL_noSL ks h
  | .link im d t ks, h => by
    simp only [relv_link, Node.link.injEq, true_and] at h
    simp only [noS]; exact fixL_noSL ks h
  | .text .., _ => rfl
  | .autoLink .., _ => rfl
  | .rawHTML .., _ => rfl
  | .delim .., _ => rfl
  | .label .., _ => rfl
theorem fixL_noSL : ∀ l : List Inl.Node, relvL g0 l = l → noSL l = true
  | [], _ => rfl
  | n :: rest, h => by
    simp only [relvL_cons, List.cons.injEq] at h
    simp only [noSL, Bool.and_eq_true]
    exact ⟨fix_noS n h.1, fixL_noSL rest h.2⟩
end

/-! ### the renderer side: a tree built without Strikethrough has no Strikethrough node -/

/-- not a Strikethrough -/
def notStrike : Kind → Bool
  | .strikethrough => false
  | _ => true

theorem handled_strike (e : Exts) (x y : Bool) {k : Kind} (h : notStrike k = true) :
    handled { e with strike := x } k = handled { e with strike := y } k := by
  cases k <;> simp_all [handled, notStrike]

theorem blockKind_notStrike {src : Bytes} {n : GM.Blocks.Node} {k : Kind} (h : blockKind src n = .ok k) :
    notStrike k = true := by
  unfold blockKind at h
  split at h
  case h_8 =>
    dsimp only at h
    split at h
    · obtain ⟨a, _, h⟩ := ebind_ok h
      obtain ⟨b, hb, h⟩ := ebind_ok h
      obtain ⟨c, _, h⟩ := ebind_ok h
      rw [epure_ok h]; rfl
    · obtain ⟨b, hb, h⟩ := ebind_ok h
      obtain ⟨c, _, h⟩ := ebind_ok h
      rw [epure_ok h]; rfl
  case h_9 =>
    dsimp only at h
    split at h
    · obtain ⟨a, _, h⟩ := ebind_ok h
      obtain ⟨b, hb, h⟩ := ebind_ok h
      obtain ⟨c, _, h⟩ := ebind_ok h
      rw [epure_ok h]; rfl
    · obtain ⟨b, hb, h⟩ := ebind_ok h
      obtain ⟨c, _, h⟩ := ebind_ok h
      rw [epure_ok h]; rfl
  all_goals first
    | (rw [epure_ok h]; rfl)
    | (obtain ⟨a, _, h⟩ := ebind_ok h; rw [epure_ok h]; rfl)

theorem blockKindX_notStrike {c : XCfg} {src : Bytes} {n : GM.Blocks.Node} {k : Kind} (h : blockKindX c src n = .ok k) :
    notStrike k = true := by
  unfold blockKindX at h
  split at h
  · split at h
    · rename_i k' hk
      rw [epure_ok h]
      unfold GM.TableX.kindOf at hk
      split at hk
      · split at hk
        · cases hk; rfl
        · split at hk
          · cases hk; rfl
          · split at hk
            · cases hk; rfl
            · split at hk
              · cases hk; rfl
              · cases hk
      · cases hk
    · exact blockKind_notStrike h
  · exact blockKind_notStrike h

mutual
theorem inlineTreeX_notStrike (c : XCfg) (ht : c.strikethrough = false) (src : Bytes) : ∀ (n : Inl.Node) (t : GM.Node),
    inlineTreeX c src n = .ok t → allKinds notStrike t = true
  | .text .., t, h => by
    unfold inlineTreeX at h
    obtain ⟨v, _, h⟩ := ebind_ok h
    rw [epure_ok h]; rfl
  | .codeSpan ks, t, h => by
    unfold inlineTreeX at h
    obtain ⟨cs, hcs, h⟩ := ebind_ok h
    rw [epure_ok h]
    simp only [allKinds, notStrike, Bool.true_and]
    exact inlineTreesX_notStrike c ht src ks cs hcs
  | .emphasis lv ks, t, h => by
    unfold inlineTreeX at h
    obtain ⟨cs, hcs, h⟩ := ebind_ok h
    have hk := inlineTreesX_notStrike c ht src ks cs hcs
    simp only [ht, Bool.false_and, Bool.false_eq_true, if_false] at h
    split at h
    · rw [epure_ok h]; simp only [allKinds, notStrike, Bool.true_and]; exact hk
    · split at h <;> (rw [epure_ok h]; simp only [allKinds, notStrike, Bool.true_and]; exact hk)
  | .link im d tt ks, t, h => by
    unfold inlineTreeX at h
    obtain ⟨cs, hcs, h⟩ := ebind_ok h
    have hk := inlineTreesX_notStrike c ht src ks cs hcs
    rw [epure_ok h]
    simp only [allKinds, Bool.and_eq_true]
    refine ⟨?_, hk⟩
    split <;> rfl
  | .autoLink .., t, h => by
    unfold inlineTreeX at h
    obtain ⟨v, _, h⟩ := ebind_ok h
    rw [epure_ok h]; rfl
  | .rawHTML .., t, h => by
    unfold inlineTreeX at h
    obtain ⟨v, _, h⟩ := ebind_ok h
    rw [epure_ok h]; rfl
  | .delim .., t, h => by
    unfold inlineTreeX at h
    rw [epure_ok h]; rfl
  | .label .., t, h => by
    unfold inlineTreeX at h
    rw [epure_ok h]; rfl
theorem inlineTreesX_notStrike (c : XCfg) (ht : c.strikethrough = false) (src : Bytes) : ∀ (ns : List Inl.Node) (ts : List GM.Node),
    inlineTreesX c src ns = .ok ts → allKindsL notStrike ts = true
  | [], ts, h => by
    unfold inlineTreesX at h
    rw [epure_ok h]; rfl
  | n :: rest, ts, h => by
    unfold inlineTreesX at h
    obtain ⟨t, h1, h⟩ := ebind_ok h
    obtain ⟨ts', h2, h⟩ := ebind_ok h
    rw [epure_ok h]
    simp only [allKindsL, Bool.and_eq_true]
    exact ⟨inlineTreeX_notStrike c ht src n t h1, inlineTreesX_notStrike c ht src rest ts' h2⟩
end

mutual
theorem docTreeX_notStrike (c : XCfg) (ht : c.strikethrough = false) (g : Bool) (env : Env) (src : Bytes) (escs : List Int) :
    ∀ (inItem : Bool) (t : GM.Blocks.Tree) (x : GM.Node),
    docTreeX c g env src escs inItem t = .ok x → allKinds notStrike x = true
  | inItem, .node n cs, x, h => by
    unfold docTreeX at h
    obtain ⟨bs, h1, h⟩ := ebind_ok h
    obtain ⟨kids, _, h⟩ := ebind_ok h
    obtain ⟨is, h3, h⟩ := ebind_ok h
    obtain ⟨k, h4, h⟩ := ebind_ok h
    rw [epure_ok h]
    simp only [allKinds, allKindsL_append, Bool.and_eq_true]
    exact ⟨blockKindX_notStrike (liftErr_ok' h4), docTreesX_notStrike c ht g env src escs _ _ cs bs h1,
      inlineTreesX_notStrike c ht src _ is (liftErr_ok' h3)⟩
theorem docTreesX_notStrike (c : XCfg) (ht : c.strikethrough = false) (g : Bool) (env : Env) (src : Bytes) (escs : List Int) :
    ∀ (pi first : Bool) (ts : List GM.Blocks.Tree) (xs : List GM.Node),
    docTreesX c g env src escs pi first ts = .ok xs → allKindsL notStrike xs = true
  | _, _, [], xs, h => by
    unfold docTreesX at h
    rw [epure_ok h]; rfl
  | pi, first, t :: rest, xs, h => by
    unfold docTreesX at h
    obtain ⟨x, h1, h⟩ := ebind_ok h
    obtain ⟨xs', h2, h⟩ := ebind_ok h
    rw [epure_ok h]
    simp only [allKindsL, Bool.and_eq_true]
    exact ⟨docTreeX_notStrike c ht g env src escs _ t x h1, docTreesX_notStrike c ht g env src escs _ _ rest xs' h2⟩
end


/-! ### whole documents -/

theorem inlineLines_strike (c : XCfg) (env : Env) (src : Bytes) (hsrc : (126 : UInt8) ∉ src) (inItem : Bool)
    (lines : List Segment) :
    inlineLines { c with strikethrough := true } true env src inItem lines =
      inlineLines { c with strikethrough := false } true env src inItem lines := by
  unfold inlineLines
  split
  · rfl
  · split
    · rfl
    · rename_i hw
      have hw' : GM.LinkRef.wf0B src lines = true := by simpa using hw
      obtain ⟨W, Z⟩ := GM.Proof.LinkRefTotal.wf0B_sound hw'
      rw [GM.Proof.ConvertXStrike.parseBlockG_strike_unused c inItem W Z env hsrc]

theorem inlinePhaseX_strike (c : XCfg) (env : Env) (src : Bytes) (hsrc : (126 : UInt8) ∉ src) (inItem : Bool)
    (n : GM.Blocks.Node) :
    inlinePhaseX { c with strikethrough := true } true env src inItem n =
      inlinePhaseX { c with strikethrough := false } true env src inItem n := by
  unfold inlinePhaseX
  rw [inlineLines_strike c env src hsrc]

/-- without Strikethrough the inline children of a block hold no Strikethrough representation -/
theorem inlinePhaseX_noS (c : XCfg) (hs : c.strikethrough = false) (g : Bool) (env : Env) (src : Bytes) (inItem : Bool)
    (n : GM.Blocks.Node) (kids : List Inl.Node) (h : inlinePhaseX c g env src inItem n = .ok kids) : noSL kids = true := by
  unfold inlinePhaseX at h
  split at h
  · cases h; rfl
  · split at h
    · cases h; rfl
    · split at h
      · cases h; rfl
      · unfold inlineLines at h
        split at h
        · cases h; rfl
        · split at h
          · cases h
          · exact fixL_noSL kids (parseBlockG_fix g0_ok (by decide) (by decide) c hs inItem env src n.lines kids
              (liftErr_ok' h))

mutual
theorem docTreeX_strike (c : XCfg) (env : Env) (src : Bytes) (hsrc : (126 : UInt8) ∉ src) (escs : List Int) :
    ∀ (inItem : Bool) (t : GM.Blocks.Tree),
    docTreeX { c with strikethrough := true } true env src escs inItem t =
      docTreeX { c with strikethrough := false } true env src escs inItem t
  | inItem, .node n cs => by
    unfold docTreeX
    rw [docTreesX_strike c env src hsrc escs _ _ cs, inlinePhaseX_strike c env src hsrc]
    cases hd : docTreesX { c with strikethrough := false } true env src escs (n.kind == .listItem) true cs with
    | error e => rfl
    | ok bs =>
      cases hk : inlinePhaseX { c with strikethrough := false } true env src inItem n with
      | error e => rfl
      | ok kids =>
        have hl := inlinePhaseX_noS { c with strikethrough := false } rfl true env src inItem n kids hk
        have hl' : noSL (if (c.table && GM.TableX.isCellNode src n) = true then GM.TableX.escNodes escs kids else kids) = true := by
          split
          · exact escNodes_noS escs kids hl
          · exact hl
        simp only [bind, Except.bind]
        rw [inlineTreesX_sflag { c with strikethrough := true } { c with strikethrough := false } rfl src _ hl']
        rfl
theorem docTreesX_strike (c : XCfg) (env : Env) (src : Bytes) (hsrc : (126 : UInt8) ∉ src) (escs : List Int) :
    ∀ (pi first : Bool) (ts : List GM.Blocks.Tree),
    docTreesX { c with strikethrough := true } true env src escs pi first ts =
      docTreesX { c with strikethrough := false } true env src escs pi first ts
  | _, _, [] => by unfold docTreesX; rfl
  | pi, first, t :: rest => by
    unfold docTreesX
    rw [docTreeX_strike c env src hsrc escs _ t, docTreesX_strike c env src hsrc escs _ _ rest]
end

theorem parseDocX_strike (c : XCfg) (uc : List (Nat × (Bool × Bool))) (src : Bytes) (hsrc : (126 : UInt8) ∉ src) :
    parseDocX { c with strikethrough := true } true uc src = parseDocX { c with strikethrough := false } true uc src := by
  unfold parseDocX
  have hb : blockPhaseX { c with strikethrough := true } true src = blockPhaseX { c with strikethrough := false } true src := rfl
  rw [hb]
  cases liftErr Err.blocks (blockPhaseX { c with strikethrough := false } true src) with
  | error e => rfl
  | ok st =>
    simp only [bind, Except.bind]
    exact docTreeX_strike c _ src hsrc _ _ _

/-- **Strikethrough is conservative at whole-document level**, for EVERY member set: a source without `~` converts to the
    same HTML / outcome with and without Strikethrough -/
theorem convertX_strike (c : XCfg) (uc : List (Nat × (Bool × Bool))) (o : ROpts) (src : Bytes)
    (hsrc : (126 : UInt8) ∉ src) :
    convertX { c with strikethrough := true } uc o src = convertX { c with strikethrough := false } uc o src := by
  unfold convertX convertXWith
  rw [parseDocX_strike c uc src hsrc]
  cases hp : parseDocX { c with strikethrough := false } true uc src with
  | error e => rfl
  | ok t =>
    simp only [bind, Except.bind]
    apply renderDocX_exts
    unfold parseDocX at hp
    obtain ⟨st, _, hp⟩ := ebind_ok hp
    have hk := docTreeX_notStrike { c with strikethrough := false } rfl true _ src _ _ _ t hp
    exact allKinds_mono (fun k hk => by
      simp only [beq_iff_eq]
      exact handled_strike c.exts true false hk) t hk

end GM.Proof.ConvertXStrikeDoc
