/-
  GM.Proof.LinkRefAdj3 — `parseLinkReferenceDefinition` (link_ref.go:56-171) and the `for` loop of Transform
  (link_ref.go:20-31) on well-formed lines WITH ANY paddings none of which is blank: TOTAL (no Go panic: `line[pos]`,
  every `Advance`, every `Value`; no fuel exhaustion; the progress monitor never fires) and the ranges handed to the second
  loop are ADJACENT from line 0 on, non-empty, and end inside the paragraph (contract monitor (3) never fires).

  Exit by exit (`DefOK`): a recognised definition starts on the line `L` the cursor was bound for, ends on a line
  `e > L`, `e ≤ number of lines`, and leaves the cursor bound for line `e`:
    * no title opener behind the destination (link_ref.go:112-116): the reader is behind SkipSpaces over the blank rest of
      the destination's line — by the landing lemma on line `endLine + 1`, or the block is exhausted;
    * opener without closer / "title" followed by text (117-125, 143-150): `SetPosition(endLine, endPos); AdvanceLine()` —
      the head of line `endLine + 1`;
    * title (151-159): the reader stands on the line of the closing delimiter in front of white space only.
-/
import GM.Proof.LinkRefAdj2

namespace GM.Proof.LinkRefAdj
open GM GM.Text GM.Spec GM.Inl GM.LinkRef GM.Proof.Reader GM.Proof.InlinesReader GM.Proof.BlockReaderFuel
open GM.Proof.LinkRefPad GM.Proof.LinkRefTotal GM.Proof.InlinesLink GM.Proof.Inlines GM.Proof.InlinesTotal

variable {src : Bytes} {segs : List Segment} {NB : Prop}

/-- what a stage answers, for a scan bound for line `L`: a result, a reader that stands for a cursor with `PadOK` at or
    behind `p0`; a recognised definition is `(L, e)` with `L < e ≤ k` and leaves the cursor bound for line `e` -/
def DefOK (NB : Prop) (src : Bytes) (segs : List Segment) (L p0 : Int) (res : DefRes) : Prop :=
  ∃ x r' refs' c', res = .ok (x, r', refs') ∧ BP src segs r' c' ∧ p0 ≤ c'.p ∧
    (NB → x.1 > -1 → x.1 = L ∧ L < x.2 ∧ x.2 ≤ BCur.k segs ∧ Bnd src segs c' x.2)

theorem DefOK.mono {L p0 p1 : Int} {res : DefRes} (h : DefOK NB src segs L p1 res) (hp : p0 ≤ p1) : DefOK NB src segs L p0 res := by
  obtain ⟨x, r', refs', c', e, hr, hc, hx⟩ := h
  exact ⟨x, r', refs', c', e, hr, by omega, hx⟩

theorem noDef_ok {r : BlockReader} {c : BCur} (h : BP src segs r c) (refs : RefMap) (L : Int) :
    DefOK NB src segs L c.p (noDef r refs) :=
  ⟨_, _, _, c, rfl, h, Int.le_refl _, by intro _ hh; simp at hh⟩

theorem view_none_of_ge {c : BCur} (h : BCur.k segs ≤ c.ln) : BCur.view src segs c = none := by
  have : BCur.live segs c = false := by
    simp only [BCur.live, Bool.and_eq_false_imp, decide_eq_true_eq, decide_eq_false_iff_not]
    intro h'; omega
  simp [BCur.view, this]

/-- the cursor behind `AdvanceLine` is bound for the next line -/
theorem bnd_advanceLine (F : SegFacts src segs) (hnb : NoBlank src segs) {c : BCur} (w : BWF segs c) :
    Bnd src segs (BCur.advanceLine segs c) (c.ln + 1) := by
  by_cases hl : c.ln + 1 < BCur.k segs
  · have e : BCur.advanceLine segs c = lineCur segs (c.ln + 1) := by simp [BCur.advanceLine, hl, lineCur]
    have h0 : 0 ≤ c.ln + 1 := by have := w.ln0; omega
    right
    refine ⟨_, by rw [e]; exact view_lineCur F h0 hl, .inl ⟨by rw [e]; rfl, ?_⟩⟩
    rw [isBlank_spaces_append]; exact hnb _ h0 hl
  · left
    apply view_none_of_ge
    have : (BCur.advanceLine segs c).ln = c.ln + 1 := by simp [BCur.advanceLine, hl]
    omega

theorem defNoTitle_ok (W : WFSegs src segs) (hnb : NB → NoBlank src segs) {r0 r : BlockReader} {c0 c : BCur}
    (h0 : BP src segs r0 c0) (h : BP src segs r c) (refs : RefMap) (L : Int) (hL : L ≤ c0.ln) (hk : c0.ln < BCur.k segs)
    (label dest : Bytes) :
    DefOK NB src segs L c0.p (defNoTitle r refs L r0.position.1 r0.position.2 label dest) := by
  have F := segFacts W
  obtain ⟨r1, e1, a1⟩ := blockReader_setPosition_restores F h0.abs h.abs
  obtain ⟨r2, e2, a2, _⟩ := badvanceLine_ref F a1
  have hp := advanceLine_p F h0.abs.wf
  have hpos : r0.position.1 = c0.ln := by rw [bposition_ref h0.abs]; rfl
  unfold defNoTitle
  simp only [e1, e2, bind, Except.bind, pure, Except.pure]
  refine ⟨_, _, _, _, rfl, ⟨a2, padOK_advanceLine h0.pad⟩, hp, ?_⟩
  intro hN _
  simp only [hpos]
  exact ⟨trivial, by omega, by omega, bnd_advanceLine F (hnb hN) h0.abs.wf⟩

theorem defTitled_ok (W : WFSegs src segs) (hnb : NB → NoBlank src segs) {r0 r : BlockReader} {c0 c : BCur}
    (h0 : BP src segs r0 c0) (h : BP src segs r c) (hp : c0.p ≤ c.p) (refs : RefMap) (L : Int)
    (hL0 : L ≤ c0.ln) (hk0 : c0.ln < BCur.k segs) (hLc : L ≤ c.ln) (hkc : c.ln < BCur.k segs) (nl : Bool)
    (label dest : Bytes) (sg : List Segment)
    (hsg : ∀ s ∈ sg, (BCur.segOf segs 0).start ≤ s.start ∧ s.start ≤ s.stop) :
    DefOK NB src segs L c0.p (defTitled r refs L r0.position.1 r0.position.2 nl label dest sg) := by
  have F := segFacts W
  obtain ⟨sv, hsv⟩ := segsValue_ok F h.abs sg hsg
  obtain ⟨t, ht⟩ := closureValue_ok hsv
  have hpl := bp_peekLine W h
  have hn := defNoTitle_ok W hnb h0 h refs L hL0 hk0 label dest
  have hline : r.position.1 = c.ln := by rw [bposition_ref h.abs]; rfl
  unfold defTitled
  simp only [ht, hpl, bind, Except.bind, pure, Except.pure]
  cases hv : BCur.view src segs c with
  | none =>
    simp only [Bool.false_eq_true, if_false]
    refine ⟨_, _, _, c, rfl, h, hp, ?_⟩
    intro _ _
    simp only [hline]
    exact ⟨trivial, by omega, by omega, .inl hv⟩
  | some l =>
    simp only
    by_cases hb : isBlank l = true
    · simp only [hb, Bool.not_true, Bool.false_eq_true, if_false]
      refine ⟨_, _, _, c, rfl, h, hp, ?_⟩
      intro _ _
      simp only [hline]
      exact ⟨trivial, by omega, by omega, .inr ⟨l, hv, .inr ⟨rfl, hb⟩⟩⟩
    · have hb' : isBlank l = false := by simpa using hb
      simp only [hb', Bool.not_false, if_true]
      cases nl with
      | false => simp only [Bool.not_false, if_true]; exact (noDef_ok h refs L).mono hp
      | true => simp only [Bool.not_true, Bool.false_eq_true, if_false]; exact hn

/-- `Advance(n)` for `0 ≤ n ≤ remaining` -/
theorem advance_bp_rem (W : WFSegs src segs) {r : BlockReader} {c : BCur} (h : BP src segs r c) {n : Int} (h0 : 0 ≤ n)
    (hn : n ≤ BCur.remaining segs c) :
    ∃ r' c', r.advance n = .ok r' ∧ BP src segs r' c' ∧ c.ln ≤ c'.ln ∧ c.p ≤ c'.p ∧
      (c.ln < BCur.k segs → c'.ln < BCur.k segs) := by
  have F := segFacts W
  have hs : BCur.advance segs n c = .ok (BCur.advN segs n.toNat c) := by
    simp only [BCur.advance]; rw [if_pos ⟨h0, hn⟩]
  obtain ⟨r', hr', ha⟩ := badvance_ref F h.abs hs
  have h1 := advN_ln (segs := segs) n.toNat c
  have h2 := advN_p F n.toNat h.abs.wf (by omega)
  exact ⟨r', _, hr', ⟨ha, padOK_advN _ h.pad⟩, h1.1, h2.1, h1.2⟩

theorem parseLinkDestination_bp (W : WFSegs src segs) (hnb : NB → NoBlank src segs) {r : BlockReader} {c : BCur}
    (h : BP src segs r c) :
    ∃ d r' c', parseLinkDestination r = .ok (d, r') ∧ BP src segs r' c' ∧ c.ln ≤ c'.ln ∧ c.p ≤ c'.p ∧
      (d.isSome = true → c'.ln < BCur.k segs) := by
  have F := segFacts W
  obtain ⟨x, r1, c1, e1, h1, l1, p1, _⟩ := skipSpaces_bp W hnb h
  have hpl := bp_peekLine W h1
  have hpk := bp_peek W h1
  unfold parseLinkDestination
  simp only [e1, hpl, hpk, bind, Except.bind, pure, Except.pure]
  split
  · rename_i h60
    simp only [beq_iff_eq] at h60
    obtain ⟨l, hv⟩ := peek_view h60 (by decide)
    simp only [hv, Option.getD_some, List.drop_succ_cons, List.drop_zero]
    cases hd : destAngle l 1 with
    | none => exact ⟨_, r1, c1, rfl, h1, l1, p1, by simp⟩
    | some i =>
      have hb := destAngle_bound _ l (Nat.le_refl _) 1 i hd
      obtain ⟨r2, c2, g1, g2, g3, g4, g5, _⟩ := advance_bp W h1 hv (n := (i : Int) + 1) (by omega)
        (by simp only [List.length_cons]; omega)
      simp only [g1]
      exact ⟨_, r2, c2, rfl, g2, by omega, by omega, fun _ => g5⟩
  · cases hv : BCur.view src segs c1 with
    | none =>
      have hn := remaining_nonneg F h1.abs.wf
      obtain ⟨r2, c2, g1, g2, g3, g4, _⟩ := advance_bp_rem W h1 (n := 0) (Int.le_refl _) hn
      have g1' : BlockReader.advance ((0 : Nat) : Int) r1 = .ok r2 := by exact_mod_cast g1
      simp only [Option.getD_none]
      split
      · exact ⟨_, r1, c1, rfl, h1, l1, p1, by simp⟩
      simp only [destPlain, g1']
      exact ⟨_, r2, c2, rfl, g2, by omega, by omega, by simp⟩
    | some l =>
      have hb := destPlain_bound _ l (Nat.le_refl _) 0 0
      obtain ⟨r2, c2, g1, g2, g3, g4, g5, _⟩ := advance_bp W h1 hv (n := (destPlain l 0 0 : Int)) (by omega) (by omega)
      simp only [Option.getD_some]
      split
      · exact ⟨_, r1, c1, rfl, h1, l1, p1, by simp⟩   -- an open parenthesis is left (repair ce3b6c4): rejected, reader not advanced
      simp only [g1]
      exact ⟨_, r2, c2, rfl, g2, by omega, by omega, fun _ => g5⟩

/-- link_ref.go:94-159 with `isNewLine` as a parameter -/
def afterDestBody (rd : BlockReader) (refs : RefMap) (startLine : Int) (label destination : Bytes) (isNewLine : Bool) :
    DefRes := do
  let (endLine, endPos) := rd.position
  let ((_, spaces, _), rd) ← skipSpaces blockOps (GM.Inl.rdFuel rd) 0 rd
  let opener ← rd.peek
  if opener != 34 && opener != 39 && opener != 40 then
    if !isNewLine then noDef rd refs
    else pure ((startLine, endLine + 1), rd, addReference refs label destination none)
  else if spaces == 0 then noDef rd refs
  else
    let rd ← rd.advance 1
    let closer : UInt8 := if opener == 40 then 41 else opener
    let ((segs, found), rd) ← findClosure blockOps (GM.Inl.rdFuel rd) opener closer GM.Inl.linkFindClosureOptions rd
    if !found then
      if !isNewLine then noDef rd refs
      else defNoTitle rd refs startLine endLine endPos label destination
    else defTitled rd refs startLine endLine endPos isNewLine label destination (segs.getD [])

theorem defAfterDest_eq (rd : BlockReader) (refs : RefMap) (sl : Int) (label dest : Bytes) :
    defAfterDest rd refs sl label dest =
      (rd.peekLine >>= fun x => afterDestBody x.2 refs sl label dest (match x.1.1 with | none => true | some l => isBlank l)) := by
  unfold defAfterDest afterDestBody
  rfl

theorem afterDestBody_ok (W : WFSegs src segs) (hnb : NB → NoBlank src segs) {r : BlockReader} {c : BCur} (h : BP src segs r c)
    (refs : RefMap) (L : Int) (hL : L ≤ c.ln) (hk : c.ln < BCur.k segs) (label dest : Bytes) (nl : Bool)
    (hnl : NB → nl = true → Bnd src segs c (c.ln + 1)) :
    DefOK NB src segs L c.p (afterDestBody r refs L label dest nl) := by
  have F := segFacts W
  obtain ⟨⟨sg0, spaces, ok0⟩, r1, c1, e1, h1, l1, p1, land⟩ := skipSpaces_bp W hnb h
  have hpk := bp_peek W h1
  have hpos : r.position = (c.ln, r.position.2) := by rw [bposition_ref h.abs]; rfl
  unfold afterDestBody
  rw [hpos]
  simp only [e1, hpk, bind, Except.bind, pure, Except.pure]
  by_cases hop : (BCur.peek src segs c1 != 34 && BCur.peek src segs c1 != 39 && BCur.peek src segs c1 != 40) = true
  · simp only [hop, if_true]
    cases nl with
    | false => simp only [Bool.not_false, if_true]; exact (noDef_ok h1 refs L).mono p1
    | true =>
      simp only [Bool.not_true, Bool.false_eq_true, if_false]
      -- the rest of the destination's line is blank: the reader is behind SkipSpaces over it
      refine ⟨_, _, _, c1, rfl, h1, p1, ?_⟩
      intro hN _
      have hbnd := hnl hN rfl
      refine ⟨rfl, by simp only; omega, by simp only; omega, ?_⟩
      rcases land with q | ⟨b, rest, q1, q2, q3⟩
      · exact .inl q
      · refine .inr ⟨_, q1, .inl ⟨q3 _ hN hbnd, ?_⟩⟩
        simp only [isBlank, List.all_cons, q2, Bool.false_and]
  · simp only [hop, Bool.false_eq_true, if_false]
    by_cases hsp : (spaces == 0) = true
    · simp only [hsp, if_true]
      exact (noDef_ok h1 refs L).mono p1
    · simp only [hsp, Bool.false_eq_true, if_false]
      have hne : BCur.peek src segs c1 ≠ 255 := by
        intro e; rw [e] at hop; simp at hop
      obtain ⟨l, hv⟩ := peek_view (rfl : BCur.peek src segs c1 = _) hne
      obtain ⟨r2, c2, g1, g2, l2, p2, k2, _⟩ := advance_bp W h1 hv (n := 1) (by omega) (by simp only [List.length_cons]; omega)
      obtain ⟨⟨sgs, found⟩, r3, c3, k1, h3, l3, p3, kf, ksg⟩ := findClosure_bp W g2 (BCur.peek src segs c1)
        (if (BCur.peek src segs c1 == 40) = true then 41 else BCur.peek src segs c1)
        (by intro e; split at e
            · cases e
            · rw [e] at hop; simp at hop)
      have hfirst := first_le_p F g2.abs.wf
      have hn := defNoTitle_ok W hnb h h3 refs L hL hk label dest
      have ht : found = true → ∀ nl, DefOK NB src segs L c.p
          (defTitled r3 refs L r.position.1 r.position.2 nl label dest (sgs.getD [])) := fun hf nl =>
        defTitled_ok W hnb h h3 (by omega) refs L hL hk (by omega) (kf hf) nl label dest (sgs.getD [])
          (fun s hs => by have := ksg s hs; exact ⟨by omega, this.2⟩)
      rw [hpos] at hn ht
      simp only at hn ht
      simp only [g1, k1]
      cases found with
      | false =>
        simp only [Bool.not_false, if_true]
        cases nl with
        | false => simp only [Bool.not_false, if_true]; exact (noDef_ok h3 refs L).mono (by omega)
        | true => simp only [Bool.not_true, Bool.false_eq_true, if_false]; exact hn
      | true =>
        simp only [Bool.not_true, Bool.false_eq_true, if_false]
        exact ht rfl _

theorem defAfterDest_ok (W : WFSegs src segs) (hnb : NB → NoBlank src segs) {r : BlockReader} {c : BCur} (h : BP src segs r c)
    (refs : RefMap) (L : Int) (hL : L ≤ c.ln) (hk : c.ln < BCur.k segs) (label dest : Bytes) :
    DefOK NB src segs L c.p (defAfterDest r refs L label dest) := by
  have hpl := bp_peekLine W h
  rw [defAfterDest_eq, hpl]
  simp only [bind, Except.bind]
  apply afterDestBody_ok W hnb h refs L hL hk label dest
  intro _ hnl
  cases hv : BCur.view src segs c with
  | none => exact .inl hv
  | some l =>
    rw [hv] at hnl
    exact .inr ⟨l, hv, .inr ⟨rfl, hnl⟩⟩

theorem defAfterLabel_ok (W : WFSegs src segs) (hnb : NB → NoBlank src segs) {r : BlockReader} {c : BCur} (h : BP src segs r c)
    (refs : RefMap) (L : Int) (hL : L ≤ c.ln) (label : Bytes) :
    DefOK NB src segs L c.p (defAfterLabel r refs L label) := by
  have hpk := bp_peek W h
  unfold defAfterLabel
  simp only [hpk, bind, Except.bind, pure, Except.pure]
  split
  · exact noDef_ok h refs L
  · split
    · exact noDef_ok h refs L
    · rename_i h58
      have hne : BCur.peek src segs c ≠ 255 := by
        intro e; rw [e] at h58; simp at h58
      obtain ⟨l, hv⟩ := peek_view (rfl : BCur.peek src segs c = _) hne
      obtain ⟨r2, c2, g1, g2, l2, p2, _, _⟩ := advance_bp W h hv (n := 1) (by omega) (by simp only [List.length_cons]; omega)
      obtain ⟨x, r3, c3, e3, h3, l3, p3, _⟩ := skipSpaces_bp W hnb g2
      obtain ⟨d, r4, c4, e4, h4, l4, p4, k4⟩ := parseLinkDestination_bp W hnb h3
      simp only [g1, e3, e4]
      cases d with
      | none => exact (noDef_ok h4 refs L).mono (by omega)
      | some dest => exact (defAfterDest_ok W hnb h4 refs L (by omega) (k4 rfl) label dest).mono (by omega)

theorem defTail_ok (W : WFSegs src segs) (hnb : NB → NoBlank src segs) {r : BlockReader} {c : BCur} (h : BP src segs r c)
    (refs : RefMap) (pos : Int) {l : Bytes} (hv : BCur.view src segs c = some l) (hz : c.pad = 0)
    (h0 : 0 ≤ pos) (h1 : pos < l.length) :
    DefOK NB src segs c.ln (c.p + 1) (defTail r refs c.ln pos) := by
  have F := segFacts W
  obtain ⟨r1, c1, g1, g2, l1, _, _, p1⟩ := advance_bp W h hv (n := pos + 1) (by omega) (by omega)
  have p1' := p1 hz (by omega)
  obtain ⟨y, r2, c2, k1, h2, l2, p2, _, ksg⟩ := findClosure_bp W g2 91 93 (by decide)
  have hfirst := first_le_p F g2.abs.wf
  obtain ⟨sv, hsv⟩ := segsValue_ok F h2.abs (y.1.getD []) (fun s hs => by have := ksg s hs; exact ⟨by omega, this.2⟩)
  obtain ⟨lab, hlab⟩ := closureValue_ok hsv
  unfold defTail
  simp only [g1, k1, hlab, bind, Except.bind, pure, Except.pure]
  split
  · exact (noDef_ok h2 refs c.ln).mono (by omega)
  · exact (defAfterLabel_ok W hnb h2 refs c.ln (by omega) _).mono (by omega)

/-- **one call of parseLinkReferenceDefinition** from a cursor bound for line `L`: total; a recognised definition is
    `(L, e)` with `L < e ≤ k`, moves the reader forward by at least a byte and leaves it bound for line `e` -/
theorem parseLinkReferenceDefinition_ok (W : WFSegs src segs) (hnb : NB → NoBlank src segs) {r : BlockReader} {c : BCur}
    (h : BP src segs r c) {L : Int} (hb : NB → Bnd src segs c L) (refs : RefMap) :
    ∃ x r' refs' c', parseLinkReferenceDefinition r refs = .ok (x, r', refs') ∧ BP src segs r' c' ∧ c.p ≤ c'.p ∧
      (x.1 > -1 → c.p < c'.p ∧ c.p < src.length) ∧
      (NB → x.1 > -1 → x.1 = L ∧ L < x.2 ∧ x.2 ≤ BCur.k segs ∧ Bnd src segs c' x.2) := by
  have F := segFacts W
  obtain ⟨x, r1, c1, e1, h1, l1, p1, land⟩ := skipSpaces_bp W hnb h
  have hpl := bp_peekLine W h1
  unfold parseLinkReferenceDefinition defHead
  simp only [e1, hpl, bind, Except.bind, pure, Except.pure]
  rcases land with hv | ⟨b, rest, hv, hsp, hln⟩
  · rw [hv]
    exact ⟨_, r1, refs, c1, rfl, h1, p1, by intro hh; simp [noDef] at hh, by intro _ hh; simp [noDef] at hh⟩
  · rw [hv]
    have hnsp : b ≠ 32 ∧ b ≠ 9 := by
      constructor <;> (intro e; subst e; revert hsp; decide)
    simp only [GM.Blocks.indentWidthI, GM.Blocks.indentWidthGo, beq_iff_eq, hnsp.1, hnsp.2, if_false]
    have hidx : GM.Blocks.idx (b :: rest) 0 = .ok b := by simp [GM.Blocks.idx, getByte]
    simp only [show ¬ ((0 : Int) > 3) by omega, if_false, bne_self_eq_false, Bool.false_eq_true, hidx]
    by_cases hb91 : (b != 91) = true
    · simp only [hb91, if_true]
      exact ⟨_, r1, refs, c1, rfl, h1, p1, by intro hh; simp [noDef] at hh, by intro _ hh; simp [noDef] at hh⟩
    · -- the padding is used up: the first byte of the view is not a space
      simp only [hb91, Bool.false_eq_true, if_false]
      obtain ⟨_, _, hlive, _, hplt⟩ := bcur_view_len F h1.abs.wf hv
      have hz : c1.pad = 0 := by
        have hp0 := h1.abs.wf.pad0
        by_cases hz : c1.pad = 0
        · exact hz
        · exfalso
          simp only [BCur.view, hlive, if_true, Option.some.injEq] at hv
          have : c1.pad.toNat = (c1.pad.toNat - 1) + 1 := by omega
          rw [this] at hv
          simp only [spaces, List.replicate_succ, List.cons_append, List.cons.injEq] at hv
          exact hnsp.1 hv.1.symm
      have hline : r1.position.1 = c1.ln := by rw [bposition_ref h1.abs]; rfl
      have hkk := view_live hv
      have hstop : BCur.stopOf segs c1 ≤ src.length := by
        have := (F.rng c1.ln h1.abs.wf.ln0 hkk).2.2.1
        simp only [BCur.stopOf, hkk, if_true]; exact this
      obtain ⟨y, r', refs', c', e, hr, hm, hx⟩ := defTail_ok W hnb h1 refs 0 hv hz (Int.le_refl _)
        (by simp only [List.length_cons]; omega)
      rw [hline, e]
      refine ⟨y, r', refs', c', rfl, hr, by omega, fun _ => ⟨by omega, by omega⟩, ?_⟩
      intro hN hy
      have hc1 : c1.ln = L := hln L hN (hb hN)
      obtain ⟨q1, q2, q3, q4⟩ := hx hN hy
      exact ⟨by omega, by omega, q3, q4⟩

/-- **the `for` loop of Transform**: total (the progress monitor never fires), and what it appends to the ranges is
    adjacent from line `L` on, non-empty, and ends inside the block -/
theorem transformLoop_ok (W : WFSegs src segs) (hnb : NB → NoBlank src segs) :
    ∀ (fuel : Nat) (rd : BlockReader) (c : BCur) (refs : RefMap) (removes : List (Int × Int)) (L : Int),
      BP src segs rd c → (NB → Bnd src segs c L) → (NB → L ≤ BCur.k segs) → offsetMeasure rd < fuel →
      ∃ rm refs', transformLoop fuel rd refs removes = .ok (removes ++ rm, refs') ∧
        (NB → adjacentB L rm = true ∧ lastEndOf L rm ≤ BCur.k segs) := by
  intro fuel
  induction fuel with
  | zero => intro _ _ _ _ _ _ _ _ h; omega
  | succ fuel ih =>
    intro rd c refs removes L h hb hLk hf
    obtain ⟨⟨s, e⟩, rd', refs', c', hd, h', m, hprog, hx⟩ := parseLinkReferenceDefinition_ok W hnb h hb refs
    unfold transformLoop
    simp only [hd, bind, Except.bind, pure, Except.pure]
    split
    · rename_i hs
      obtain ⟨q5, q6⟩ := hprog hs
      have hm : offsetMeasure rd' < offsetMeasure rd := by
        unfold offsetMeasure
        rw [h'.abs.pos, h.abs.pos, h'.abs.source, h.abs.source]
        simp only
        omega
      simp only [hm, decide_true, Bool.not_true, Bool.false_eq_true, if_false]
      obtain ⟨rm, refs'', g1, g⟩ := ih rd' c' refs' (removes ++ [(s, e)]) e h' (fun hN => (hx hN hs).2.2.2)
        (fun hN => (hx hN hs).2.2.1) (by omega)
      refine ⟨(s, e) :: rm, refs'', by rw [g1]; simp, ?_⟩
      intro hN
      obtain ⟨q1, q2, q3, q4⟩ := hx hN hs
      obtain ⟨g2, g3⟩ := g hN
      simp only at q1 q2 q3 q4
      refine ⟨?_, ?_⟩
      · simp only [adjacentB, Bool.and_eq_true, beq_iff_eq, decide_eq_true_eq]
        exact ⟨⟨q1, q2⟩, g2⟩
      · simpa only [lastEndOf] using g3
    · exact ⟨[], refs', by simp, fun hN => ⟨rfl, by simpa only [lastEndOf] using hLk hN⟩⟩

/-- the initial cursor is bound for line 0 -/
theorem bnd_init (F : SegFacts src segs) (hnb : NoBlank src segs) : Bnd src segs (BCur.init segs) 0 := by
  have e : BCur.init segs = lineCur segs 0 := rfl
  right
  refine ⟨_, by rw [e]; exact view_lineCur F (Int.le_refl _) F.kpos, .inl ⟨rfl, ?_⟩⟩
  rw [isBlank_spaces_append]; exact hnb _ (Int.le_refl _) F.kpos

/-- **the scan of Transform** on well-formed lines with any paddings, none of them blank: total, ranges adjacent from
    line 0 on, non-empty, ending inside the paragraph -/
theorem transformScan_ok {src : Bytes} {lines : List Segment} (W : WFSegs src lines) (hnb : NB → NoBlank src lines)
    (refs : RefMap) :
    ∃ rm refs', transformScan src lines refs = .ok (rm, refs') ∧ (NB → adjacentB 0 rm = true ∧
      lastEndOf 0 rm ≤ lines.length) := by
  have F := segFacts W
  obtain ⟨r0, e0, a0⟩ := blockReader_init F
  have hp : PadOK lines (BCur.init lines) := by intro _; simp only [BCur.init]; exact Int.le_refl _
  unfold transformScan
  simp only [e0, bind, Except.bind]
  obtain ⟨rm, refs', g1, g2⟩ := transformLoop_ok W hnb (transformFuel r0) r0 _ refs [] 0 ⟨a0, hp⟩
    (fun hN => bnd_init F (hnb hN)) (fun _ => by have := F.kpos; omega) (by unfold transformFuel; omega)
  exact ⟨rm, refs', by simpa using g1, g2⟩

end GM.Proof.LinkRefAdj
