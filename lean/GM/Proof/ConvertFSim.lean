/-
  GM.Proof.ConvertFSim — with the footnote block parser NOT registered (`on = false`) the block driver of GM.Model.ConvertF,
  erased to `M`, is the block driver with paragraph transformers (GM.Model.Blocks.DriverT), and the footnote state stays empty.

  `FSim m m0`: from every two-layer state `({}, s)` the `MF` program `m` and the `M` program `m0` agree: when `m` ends normally
  so does `m0`, with the same value and the same `St`, and the footnote state is still `{}`; when `m` ends in a panic, `m0`
  ends in the same panic. (The calculus is GM.Proof.ConvertHSim's, for the other state layer.)
-/
import GM.Model.ConvertF
import GM.Proof.BlocksPres

namespace GM.ConvertF
open GM GM.Text GM.Blocks GM.Convert

/-- the footnote layer is empty -/
def FS.empty (f : FS) : Prop := f.list = none ∧ f.refs = []

theorem FS.empty_default : FS.empty {} := ⟨rfl, rfl⟩

theorem FS.empty_eq {f : FS} (h : f.empty) : f = {} := by
  cases f; simp only [FS.empty] at h; obtain ⟨h1, h2⟩ := h; subst h1; subst h2; rfl

def RSimF {α : Type} (x : Except Panic ((α × FS) × St)) (y : Except Panic (α × St)) : Prop :=
  match x with
  | .ok ((a, f'), s') => f'.empty ∧ y = .ok (a, s')
  | .error e => y = .error e

structure FSim {α : Type} (m : MF α) (m0 : M α) : Prop where
  h : ∀ f s, FS.empty f → RSimF (m f s) (m0 s)

theorem mf_bind_apply {α β} (m : MF α) (k : α → MF β) (f : FS) (s : St) :
    (m >>= k) f s = match m f s with
      | .ok ((a, f'), s') => k a f' s'
      | .error e => .error e := by
  simp only [bind, StateT.bind, Except.bind]
  cases m f s with
  | error e => rfl
  | ok x => rfl

theorem m_bind_apply' {α β} (m : M α) (k : α → M β) (s : St) :
    (m >>= k) s = match m s with
      | .ok (a, s') => k a s'
      | .error e => .error e := by
  simp only [bind, StateT.bind, Except.bind]
  cases m s with
  | error e => rfl
  | ok x => rfl

theorem upF_apply {α} (x : M α) (f : FS) (s : St) :
    (up x) f s = match x s with
      | .ok (a, s') => .ok ((a, f), s')
      | .error e => .error e := by
  simp only [up, StateT.lift, bind, StateT.bind, Except.bind, pure, StateT.pure, Except.pure]
  cases x s with
  | error e => rfl
  | ok x => rfl

theorem FSim.up {α} (x : M α) : FSim (up x) x := by
  constructor
  intro f s hf
  rw [upF_apply]
  cases x s with
  | error e => exact rfl
  | ok p => exact ⟨hf, rfl⟩

theorem FSim.pure {α} (a : α) : FSim (Pure.pure a : MF α) (Pure.pure a : M α) :=
  ⟨fun _ _ hf => ⟨hf, rfl⟩⟩

theorem FSim.throw {α} (e : Panic) : FSim (throw e : MF α) (throw e : M α) :=
  ⟨fun _ _ _ => rfl⟩

theorem FSim.bind {α β} {m : MF α} {m0 : M α} {k : α → MF β} {k0 : α → M β}
    (hm : FSim m m0) (hk : ∀ a, FSim (k a) (k0 a)) : FSim (m >>= k) (m0 >>= k0) := by
  constructor
  intro f s hf
  rw [mf_bind_apply, m_bind_apply']
  have h1 := hm.h f s hf
  cases hx : m f s with
  | error e =>
    rw [hx] at h1
    simp only [RSimF] at h1
    rw [h1]; exact rfl
  | ok p =>
    obtain ⟨⟨a, f'⟩, s'⟩ := p
    rw [hx] at h1
    obtain ⟨h2, h3⟩ := h1
    rw [h3]
    exact (hk a).h f' s' h2

theorem FSim.ite {α} {c : Prop} [Decidable c] {a b : MF α} {a0 b0 : M α}
    (ha : FSim a a0) (hb : FSim b b0) : FSim (if c then a else b) (if c then a0 else b0) := by
  split <;> assumption

open Lean Elab Tactic Meta in
/-- when the `MF` side of an `FSim` goal is a `match` on a term that is not a variable, generalise that term in the whole
    goal (both sides match on it), so that `split` analyses both sides at once -/
elab "gen_discr_f" : tactic => do
  let g ← getMainGoal
  g.withContext do
    let t ← instantiateMVars (← g.getType)
    let args := t.getAppArgs
    if args.size < 3 then throwError "not an FSim goal"
    let m := args[1]!
    let env ← getEnv
    let cand : Option Expr := (m.find? fun e =>
      if isMatcherAppCore env e then
        match e.getAppFn.constName? >>= fun n => (getMatcherInfoCore? env n) with
        | some info =>
          let as := e.getAppArgs
          (List.range info.numDiscrs).any fun i =>
            match as[info.numParams + 1 + i]? with
            | some d => !d.isFVar && !d.hasLooseBVars
            | none => false
        | none => false
      else false)
    let some e := cand | throwError "no match on a non-variable"
    let some info := e.getAppFn.constName? >>= fun n => (getMatcherInfoCore? env n) | throwError "no matcher info"
    let as := e.getAppArgs
    for i in List.range info.numDiscrs do
      match as[info.numParams + 1 + i]? with
      | some d =>
        if !d.isFVar && !d.hasLooseBVars then
          let (_, g') ← g.generalize #[{ expr := d }]
          replaceMainGoal [g']
          return
      | none => pure ()
    throwError "no discriminant"

macro "fsim_step" : tactic =>
  `(tactic| first
    | exact FSim.up _
    | exact FSim.pure _
    | exact FSim.throw _
    | apply_hyp
    | with_reducible apply FSim.bind
    | with_reducible apply FSim.ite
    | intro _
    | gen_discr_f
    | split)

/-- walk over two `do` blocks of the same shape -/
macro "fsim" : tactic => `(tactic| repeat' fsim_step)

/-- the same, where a `let x ← pure …` binds different (related) values on the two sides -/
macro "fsim_p" : tactic => `(tactic| repeat' (first
    | exact FSim.up _
    | exact FSim.pure _
    | exact FSim.throw _
    | apply_hyp
    | rw [pure_bind, pure_bind]
    | fsim_step))

/-! ### the dispatch points while no Footnote exists -/

theorem bpContinueF_sim (bp : BP) (node : Nat) : FSim (bpContinueF bp node) (bpContinue bp node) := by
  constructor
  intro f s hf
  have hf' := FS.empty_eq hf
  subst hf'
  unfold bpContinueF
  rw [mf_bind_apply]
  simp only [getF, StateT.get, Pure.pure, Except.pure, FS.isFn, List.lookup, Option.isSome, Bool.false_eq_true, if_false]
  exact (FSim.up (bpContinue bp node)).h {} s FS.empty_default

theorem bpCloseF_sim (bp : BP) (node : Nat) : FSim (bpCloseF bp node) (bpClose bp node) := by
  constructor
  intro f s hf
  have hf' := FS.empty_eq hf
  subst hf'
  unfold bpCloseF
  rw [mf_bind_apply]
  simp only [getF, StateT.get, Pure.pure, Except.pure, FS.isFn, List.lookup, Option.isSome, Bool.false_eq_true, if_false]
  exact (FSim.up (bpClose bp node)).h {} s FS.empty_default

theorem bpOpenF_core_sim (bp : BP) (parent : Nat) : FSim (bpOpenF (.core bp) parent) (bpOpen bp parent) :=
  FSim.up _

/-! ### the driver -/

section driver
variable (pts : List PT)

theorem closeLoopF_sim (blocks : List Block) (to : Int) (k : Nat) :
    FSim (closeLoopF pts blocks to k) (closeLoopT pts blocks to k) := by
  have hk := bpCloseF_sim
  induction k with
  | zero => unfold closeLoopF closeLoopT; fsim
  | succ k ih => unfold closeLoopF closeLoopT; fsim

theorem closeBlocksF_sim (frm to : Int) : FSim (closeBlocksF pts frm to) (closeBlocksT pts frm to) := by
  have := closeLoopF_sim pts
  unfold closeBlocksF closeBlocksT; fsim

theorem requireParaF_sim (parent : Nat) (last : Option Nat) (lastBlock : Option Block) :
    FSim (requireParaF pts parent last lastBlock) (requireParaT pts parent last lastBlock) := by
  have hk := bpCloseF_sim
  unfold requireParaF requireParaT; fsim

theorem tryParsersF_sim (parent : Nat) (blankLine continuable : Bool) (w : Int) (bps : List BP)
    (result : OpenResult) (lastBlock : Option Block) :
    FSim (tryParsersF pts parent blankLine continuable w (bps.map .core) result lastBlock)
      (tryParsersT pts parent blankLine continuable w bps result lastBlock) := by
  have := requireParaF_sim pts
  have := closeBlocksF_sim pts
  have ho := bpOpenF_core_sim
  induction bps generalizing result lastBlock with
  | nil => unfold tryParsersF tryParsersT; fsim
  | cons bp bps ih =>
    simp only [List.map]
    unfold tryParsersF tryParsersT
    dsimp only [BPF.canInterruptParagraph, BPF.canAcceptIndentedLine, BPF.tag]
    apply FSim.ite
    · exact ih _ _
    apply FSim.ite
    · exact ih _ _
    fsim

theorem retryStepF_sim (blankLine tdone continuable : Bool) (parent : Nat) (w : Int) (bps : List BP)
    (result : OpenResult) (lastBlock : Option Block)
    (againF : Bool → Bool → Nat → OpenResult → Option Block → MF OpenResult)
    (againT : Bool → Bool → Nat → OpenResult → Option Block → M OpenResult)
    (ha : ∀ a b c d e, FSim (againF a b c d e) (againT a b c d e)) :
    FSim (retryStepF pts blankLine tdone continuable parent w (bps.map .core) result lastBlock againF)
      (retryStepT pts blankLine tdone continuable parent w bps result lastBlock againT) := by
  have := tryParsersF_sim pts
  unfold retryStepF retryStepT; fsim

theorem triggeredF_off (c : UInt8) : (triggeredF false c).getD freeParsersF = ((triggered c).getD freeParsers).map .core := by
  unfold triggeredF freeParsersF
  simp only [Bool.false_and, Bool.false_eq_true, if_false]
  cases triggered c <;> rfl

theorem openBlocksLoopF_sim (blankLine : Bool) (fuel : Nat) (tdone continuable : Bool) (parent : Nat)
    (result : OpenResult) (lastBlock : Option Block) :
    FSim (openBlocksLoopF false pts blankLine fuel tdone continuable parent result lastBlock)
      (openBlocksLoopT pts blankLine fuel tdone continuable parent result lastBlock) := by
  induction fuel generalizing tdone continuable parent result lastBlock with
  | zero => unfold openBlocksLoopF openBlocksLoopT; fsim
  | succ fuel ih =>
    have hr := retryStepF_sim pts
    unfold openBlocksLoopF openBlocksLoopT
    simp only [triggeredF_off]
    have hfree : freeParsersF = freeParsers.map .core := rfl
    rw [hfree]
    fsim_p

theorem openBlocksF_sim (parent : Nat) (blankLine : Bool) :
    FSim (openBlocksF false pts parent blankLine) (openBlocksT pts parent blankLine) := by
  have := openBlocksLoopF_sim pts
  unfold openBlocksF openBlocksT; fsim

theorem lineLoopF_sim (parent : Nat) (openedBlocks : List Block) (lastIndex : Int) (rest : List Block) (i : Int)
    (blankLines : List LineStat) :
    FSim (lineLoopF false pts parent openedBlocks lastIndex rest i blankLines)
      (lineLoopT pts parent openedBlocks lastIndex rest i blankLines) := by
  have := closeBlocksF_sim pts
  have := openBlocksF_sim pts
  have hc := bpContinueF_sim
  induction rest generalizing i blankLines with
  | nil => unfold lineLoopF lineLoopT; fsim
  | cons be rest ih => unfold lineLoopF lineLoopT; fsim

theorem linesLoopF_sim (parent : Nat) (fuel : Nat) (blankLines : List LineStat) :
    FSim (linesLoopF false pts parent fuel blankLines) (linesLoopT pts parent fuel blankLines) := by
  have := lineLoopF_sim pts
  induction fuel generalizing blankLines with
  | zero => unfold linesLoopF linesLoopT; fsim
  | succ fuel ih => unfold linesLoopF linesLoopT; fsim

theorem blocksLoopF_sim (parent : Nat) (fuel : Nat) (blankLines : List LineStat) :
    FSim (blocksLoopF false pts parent fuel blankLines) (blocksLoopT pts parent fuel blankLines) := by
  have := openBlocksF_sim pts
  have := linesLoopF_sim pts
  induction fuel generalizing blankLines with
  | zero => unfold blocksLoopF blocksLoopT; fsim
  | succ fuel ih => unfold blocksLoopF blocksLoopT; fsim

theorem parseBlocksF_sim (parent : Nat) : FSim (parseBlocksF false pts parent) (parseBlocksT pts parent) := by
  have := blocksLoopF_sim pts
  unfold parseBlocksF parseBlocksT; fsim

end driver

/-- with the block parser not registered the block phase is GM.Blocks.runT, and no Footnote / FootnoteList exists -/
theorem runF_off (pts : List PT) (src : Bytes) :
    runF false pts src = (runT pts src).map fun st => ({}, st) := by
  have := (parseBlocksF_sim pts 0).h {} (initSt src) FS.empty_default
  unfold RSimF at this
  unfold runF runT
  cases hx : parseBlocksF false pts 0 {} (initSt src) with
  | error e =>
    rw [hx] at this
    simp only [Except.map]
    rw [this]
  | ok p =>
    obtain ⟨⟨a, f'⟩, s'⟩ := p
    rw [hx] at this
    simp only [Except.map]
    rw [this.2, FS.empty_eq this.1]

end GM.ConvertF
