/-
  GM.Proof.ConvertXRect — C17 on the composed OUTPUT tree, the tree half: `docTreeX` turns a block tree whose Table nodes are
  rectangular IN THE NODE STORE's encoding (`rectT`: a Table node has no lines, its children are one TableHeader and
  TableRows, every row has as many children as the header, all of them TableCells) into a `GM.Node` tree that satisfies
  `rectB`. Child counts are kept (`docTreesX` is a map), the kinds are the decoded ones (`blockKindX`), a row / a Table node
  gets no inline children, inline subtrees contain no table kind. What is left of `TablesRectangular` is a statement about
  the store the block phase ends in (`StoreTablesRect`).
-/
import GM.Proof.ConvertX
import GM.Model.ConvertXRect

namespace GM.Proof.ConvertXRect
open GM GM.Text GM.Convert GM.ConvertX GM.Inl GM.Proof.ConvertX

/-! ### the output side -/

theorem rectL_append : ∀ (a b : List GM.Node), rectL (a ++ b) = (rectL a && rectL b)
  | [], b => by simp [rectL]
  | x :: a, b => by simp [rectL, rectL_append a b, Bool.and_assoc]

mutual
theorem rectB_of_notTable : ∀ t : GM.Node, allKinds notTable t = true → rectB t = true
  | .mk k a cs, h => by
    simp only [allKinds, Bool.and_eq_true] at h
    have hk : (k == GM.Kind.table) = false := by
      cases k <;> first | rfl | (simp [notTable] at h)
    simp only [rectB, hk, Bool.false_eq_true, if_false, Bool.true_and]
    exact rectL_of_notTable cs h.2
theorem rectL_of_notTable : ∀ ts : List GM.Node, allKindsL notTable ts = true → rectL ts = true
  | [], _ => rfl
  | t :: rest, h => by
    simp only [allKindsL, Bool.and_eq_true] at h
    simp only [rectL, Bool.and_eq_true]
    exact ⟨rectB_of_notTable t h.1, rectL_of_notTable rest h.2⟩
end

/-- the parts of `docTreeX`'s answer -/
theorem docTreeX_parts {c : XCfg} {g : Bool} {env : Env} {src : Bytes} {escs : List Int} {inItem : Bool}
    {n : GM.Blocks.Node} {cs : List GM.Blocks.Tree} {x : GM.Node}
    (h : docTreeX c g env src escs inItem (.node n cs) = .ok x) :
    ∃ bs kids is k, docTreesX c g env src escs (n.kind == .listItem) true cs = .ok bs ∧
      inlinePhaseX c g env src inItem n = .ok kids ∧
      inlineTreesX c src (if c.table && GM.TableX.isCellNode src n then GM.TableX.escNodes escs kids else kids) = .ok is ∧
      blockKindX c src n = .ok k ∧ x = .mk k none (bs ++ is) := by
  unfold docTreeX at h
  obtain ⟨bs, h1, h⟩ := ebind_ok h
  obtain ⟨kids, h2, h⟩ := ebind_ok h
  obtain ⟨is, h3, h⟩ := ebind_ok h
  obtain ⟨k, h4, h⟩ := ebind_ok h
  exact ⟨bs, kids, is, k, h1, h2, liftErr_ok' h3, liftErr_ok' h4, epure_ok h⟩

theorem inlineTreesX_nil {c : XCfg} {src : Bytes} {is : List GM.Node} (h : inlineTreesX c src [] = .ok is) : is = [] := by
  unfold inlineTreesX at h
  exact epure_ok h

/-- pointwise relation of two lists -/
inductive All2 {α β : Type} (R : α → β → Prop) : List α → List β → Prop
  | nil : All2 R [] []
  | cons {a : α} {b : β} {l1 : List α} {l2 : List β} : R a b → All2 R l1 l2 → All2 R (a :: l1) (b :: l2)

/-- `docTreesX` is a map -/
theorem docTreesX_forall (c : XCfg) (g : Bool) (env : Env) (src : Bytes) (escs : List Int) :
    ∀ (pi first : Bool) (ts : List GM.Blocks.Tree) (xs : List GM.Node),
    docTreesX c g env src escs pi first ts = .ok xs →
    All2 (fun t x => ∃ inItem, docTreeX c g env src escs inItem t = .ok x) ts xs
  | _, _, [], xs, h => by
    unfold docTreesX at h
    rw [epure_ok h]; exact .nil
  | pi, first, t :: rest, xs, h => by
    unfold docTreesX at h
    obtain ⟨x, h1, h⟩ := ebind_ok h
    obtain ⟨xs', h2, h⟩ := ebind_ok h
    rw [epure_ok h]
    exact .cons ⟨_, h1⟩ (docTreesX_forall c g env src escs _ _ rest xs' h2)

theorem kindOf_cases (src : Bytes) (n : GM.Blocks.Node) :
    GM.TableX.kindOf src n = none ∨ GM.TableX.kindOf src n = some .table ∨ GM.TableX.kindOf src n = some .tableHeader ∨
      GM.TableX.kindOf src n = some .tableRow ∨ ∃ a, GM.TableX.kindOf src n = some (.tableCell a) := by
  unfold GM.TableX.kindOf
  split
  · split
    · exact Or.inr (Or.inl rfl)
    · split
      · exact Or.inr (Or.inr (Or.inl rfl))
      · split
        · exact Or.inr (Or.inr (Or.inr (Or.inl rfl)))
        · split
          · exact Or.inr (Or.inr (Or.inr (Or.inr ⟨_, rfl⟩)))
          · exact Or.inl rfl
  · exact Or.inl rfl

theorem blockKindX_of_kindOf {c : XCfg} (hc : c.table = true) {src : Bytes} {n : GM.Blocks.Node} {k k' : Kind}
    (hk : GM.TableX.kindOf src n = some k) (h : blockKindX c src n = .ok k') : k' = k := by
  unfold blockKindX at h
  simp only [hc, if_true, hk] at h
  exact epure_ok h

/-- a node the renderer sees as a Table decodes as a Table in the store -/
theorem isTableN_of_kind {c : XCfg} {src : Bytes} {n : GM.Blocks.Node}
    (h : blockKindX c src n = .ok GM.Kind.table) : c.table = true ∧ isTableN src n = true := by
  cases hc : c.table with
  | false => exact absurd (blockKindX_notTable hc h) (by simp [notTable])
  | true =>
    refine ⟨rfl, ?_⟩
    unfold blockKindX at h
    simp only [hc, if_true] at h
    unfold isTableN
    rcases kindOf_cases src n with e | e | e | e | ⟨a, e⟩
    · rw [e] at h; exact absurd (blockKind_notTable h) (by simp [notTable])
    · rw [e]
    · rw [e] at h; cases epure_ok h
    · rw [e] at h; cases epure_ok h
    · rw [e] at h; cases epure_ok h

/-- a cell of the store is a TableCell of the output -/
theorem cell_kind {c : XCfg} (hc : c.table = true) {g : Bool} {env : Env} {src : Bytes} {escs : List Int} {inItem : Bool}
    {t : GM.Blocks.Tree} {x : GM.Node} (ht : isCellT src t = true) (h : docTreeX c g env src escs inItem t = .ok x) :
    isCellKind x.kind = true := by
  obtain ⟨n, cs⟩ := t
  obtain ⟨bs, kids, is, k, _, _, _, h4, rfl⟩ := docTreeX_parts h
  simp only [isCellT, GM.TableX.isCellNode] at ht
  rcases kindOf_cases src n with e | e | e | e | ⟨a, e⟩
  · rw [e] at ht; cases ht
  · rw [e] at ht; cases ht
  · rw [e] at ht; cases ht
  · rw [e] at ht; cases ht
  · rw [blockKindX_of_kindOf hc e h4]; rfl

theorem all_cells {c : XCfg} (hc : c.table = true) {g : Bool} {env : Env} {src : Bytes} {escs : List Int}
    {ts : List GM.Blocks.Tree} {xs : List GM.Node}
    (hf : All2 (fun t x => ∃ inItem, docTreeX c g env src escs inItem t = .ok x) ts xs)
    (ht : ts.all (isCellT src) = true) : xs.length = ts.length ∧ xs.all (fun x => isCellKind x.kind) = true := by
  induction hf with
  | nil => exact ⟨rfl, rfl⟩
  | cons h1 _ ih =>
    simp only [List.all_cons, Bool.and_eq_true] at ht
    obtain ⟨i1, i2⟩ := ih ht.2
    obtain ⟨inItem, h1⟩ := h1
    simp only [List.length_cons, List.all_cons, Bool.and_eq_true]
    exact ⟨by omega, cell_kind hc ht.1 h1, i2⟩

/-- a row of the store is a rectangular row of the output -/
theorem row_ok {c : XCfg} (hc : c.table = true) {g : Bool} {env : Env} {src : Bytes} {escs : List Int} {inItem : Bool}
    {hdr : Bool} {cols : Nat} {t : GM.Blocks.Tree} {x : GM.Node} (ht : rowT src hdr cols t = true)
    (h : docTreeX c g env src escs inItem t = .ok x) : rowOK hdr cols x = true := by
  obtain ⟨n, cs⟩ := t
  obtain ⟨bs, kids, is, k, h1, h2, h3, h4, rfl⟩ := docTreeX_parts h
  simp only [rowT, Bool.and_eq_true, beq_iff_eq] at ht
  obtain ⟨⟨hk, hlen⟩, hcells⟩ := ht
  have hrow : GM.TableX.isRowNode src n = true ∧ GM.TableX.isCellNode src n = false ∧
      k = (if hdr then GM.Kind.tableHeader else GM.Kind.tableRow) := by
    rcases kindOf_cases src n with e | e | e | e | ⟨a, e⟩
    · rw [e] at hk; cases hk
    · rw [e] at hk; cases hk
    · rw [e] at hk; simp only at hk; subst hk
      exact ⟨by simp [GM.TableX.isRowNode, e], by simp [GM.TableX.isCellNode, e], blockKindX_of_kindOf hc e h4⟩
    · rw [e] at hk; simp only [Bool.not_eq_true'] at hk; subst hk
      exact ⟨by simp [GM.TableX.isRowNode, e], by simp [GM.TableX.isCellNode, e], blockKindX_of_kindOf hc e h4⟩
    · rw [e] at hk; cases hk
  obtain ⟨r1, r2, r3⟩ := hrow
  -- a row has no inline children
  have hkids : kids = [] := by
    unfold inlinePhaseX at h2
    split at h2
    · cases h2; rfl
    · simp only [hc, r1, Bool.and_self, if_true] at h2
      cases h2; rfl
  subst hkids
  have his : is = [] := by
    simp only [r2, Bool.and_false, Bool.false_eq_true, if_false] at h3
    exact inlineTreesX_nil h3
  subst his
  obtain ⟨l1, l2⟩ := all_cells (g := g) (env := env) (escs := escs) hc (docTreesX_forall c g env src escs _ _ cs bs h1) hcells
  simp only [rowOK, GM.Node.kind, GM.Node.children, List.append_nil, Bool.and_eq_true, beq_iff_eq]
  refine ⟨⟨?_, by omega⟩, l2⟩
  rw [r3]
  cases hdr <;> rfl

theorem rows_ok {c : XCfg} (hc : c.table = true) {g : Bool} {env : Env} {src : Bytes} {escs : List Int}
    {cols : Nat} {ts : List GM.Blocks.Tree} {xs : List GM.Node}
    (hf : All2 (fun t x => ∃ inItem, docTreeX c g env src escs inItem t = .ok x) ts xs)
    (ht : ts.all (rowT src false cols) = true) : xs.all (rowOK false cols) = true := by
  induction hf with
  | nil => rfl
  | cons h1 _ ih =>
    simp only [List.all_cons, Bool.and_eq_true] at ht ⊢
    obtain ⟨inItem, h1⟩ := h1
    exact ⟨row_ok hc ht.1 h1, ih ht.2⟩

theorem rowOK_len {hdr : Bool} {cols : Nat} {x : GM.Node} (h : rowOK hdr cols x = true) : x.children.length = cols := by
  simp only [rowOK, Bool.and_eq_true, beq_iff_eq] at h
  exact h.1.2

/-- the children of a Table node of the store are the rectangular children of a Table node of the output -/
theorem table_ok {c : XCfg} (hc : c.table = true) {g : Bool} {env : Env} {src : Bytes} {escs : List Int}
    {ts : List GM.Blocks.Tree} {xs : List GM.Node}
    (hf : All2 (fun t x => ∃ inItem, docTreeX c g env src escs inItem t = .ok x) ts xs)
    (ht : tableT src ts = true) : tableOK xs = true := by
  cases hf with
  | nil => simp [tableT] at ht
  | cons h1 hr =>
    rename_i t x rest xs'
    obtain ⟨hn, hcs⟩ := t
    simp only [tableT, Bool.and_eq_true, decide_eq_true_eq] at ht
    obtain ⟨⟨hpos, hh⟩, hrows⟩ := ht
    obtain ⟨inItem, h1⟩ := h1
    have r1 := row_ok hc hh h1
    have hl := rowOK_len r1
    simp only [tableOK, Bool.and_eq_true, decide_eq_true_eq, hl]
    exact ⟨⟨hpos, r1⟩, rows_ok hc hr hrows⟩

mutual
/-- **the tree half of C17**: a block tree that is rectangular in the store's encoding becomes a rectangular output tree -/
theorem docTreeX_rect (c : XCfg) (hc : c.table = true) (g : Bool) (env : Env) (src : Bytes) (escs : List Int) :
    ∀ (inItem : Bool) (t : GM.Blocks.Tree) (x : GM.Node), rectT src t = true →
    docTreeX c g env src escs inItem t = .ok x → rectB x = true
  | inItem, .node n cs, x, hr, h => by
    obtain ⟨bs, kids, is, k, h1, h2, h3, h4, rfl⟩ := docTreeX_parts h
    simp only [rectT, Bool.and_eq_true] at hr
    obtain ⟨hr1, hr2⟩ := hr
    have hbs := docTreesX_rect c hc g env src escs _ _ cs bs hr2 h1
    have his := rectL_of_notTable is (inlineTreesX_notTable c src _ is h3)
    simp only [rectB, rectL_append, hbs, his, Bool.and_true]
    split
    · rename_i hk
      have hk' : k = GM.Kind.table := by
        cases k <;> first | rfl | (exact Bool.noConfusion hk)
      subst hk'
      obtain ⟨_, hT⟩ := isTableN_of_kind h4
      simp only [hT, if_true, Bool.and_eq_true, List.isEmpty_iff] at hr1
      obtain ⟨hl, htab⟩ := hr1
      -- a Table node has no inline children: it is neither a row nor a cell, and has no lines
      have hnc : GM.TableX.isCellNode src n = false ∧ GM.TableX.isRowNode src n = false := by
        unfold isTableN at hT
        rcases kindOf_cases src n with e | e | e | e | ⟨a, e⟩
        · rw [e] at hT; cases hT
        · exact ⟨by simp [GM.TableX.isCellNode, e], by simp [GM.TableX.isRowNode, e]⟩
        · rw [e] at hT; cases hT
        · rw [e] at hT; cases hT
        · rw [e] at hT; cases hT
      have hkids : kids = [] := by
        unfold inlinePhaseX at h2
        split at h2
        · cases h2; rfl
        · simp only [hnc.1, hnc.2, Bool.and_false, Bool.false_eq_true, if_false, Bool.false_and] at h2
          unfold inlineLines at h2
          simp only [hl, List.isEmpty_nil, if_true] at h2
          cases h2; rfl
      subst hkids
      have : is = [] := by
        simp only [hnc.1, Bool.and_false, Bool.false_eq_true, if_false] at h3
        exact inlineTreesX_nil h3
      subst this
      rw [List.append_nil]
      exact table_ok hc (docTreesX_forall c g env src escs _ _ cs bs h1) htab
    · rfl
theorem docTreesX_rect (c : XCfg) (hc : c.table = true) (g : Bool) (env : Env) (src : Bytes) (escs : List Int) :
    ∀ (pi first : Bool) (ts : List GM.Blocks.Tree) (xs : List GM.Node), rectTs src ts = true →
    docTreesX c g env src escs pi first ts = .ok xs → rectL xs = true
  | _, _, [], xs, _, h => by
    unfold docTreesX at h
    rw [epure_ok h]; rfl
  | pi, first, t :: rest, xs, hr, h => by
    unfold docTreesX at h
    obtain ⟨x, h1, h⟩ := ebind_ok h
    obtain ⟨xs', h2, h⟩ := ebind_ok h
    rw [epure_ok h]
    simp only [rectTs, Bool.and_eq_true] at hr
    simp only [rectL, Bool.and_eq_true]
    exact ⟨docTreeX_rect c hc g env src escs _ t x hr.1 h1, docTreesX_rect c hc g env src escs _ _ rest xs' hr.2 h2⟩
end

/-- what is left of C17 on the output: the block tree read out of the store the block phase (with the table paragraph
    transformer) ends in is rectangular in the store's encoding -/
def StoreTablesRect : Prop :=
  ∀ (c : XCfg) (src : Bytes) (st : GM.Blocks.St), c.table = true → blockPhaseX c true src = .ok st →
    rectT src (GM.Blocks.treeOf st.nodes st.nodes.length 0) = true

theorem parseDocX_rect (H : StoreTablesRect) (c : XCfg) (uc : List (Nat × (Bool × Bool))) (src : Bytes) (t : GM.Node)
    (h : parseDocX c true uc src = .ok t) : rectB t = true := by
  unfold parseDocX at h
  obtain ⟨st, h1, h⟩ := ebind_ok h
  cases hc : c.table with
  | false => exact rectB_of_notTable t (docTreeX_notTable c hc true _ src _ _ _ t h)
  | true =>
    have hst : blockPhaseX c true src = .ok st := by
      cases hb : blockPhaseX c true src with
      | error e => rw [hb] at h1; cases h1
      | ok s => rw [hb] at h1; cases h1; rfl
    exact docTreeX_rect c hc true _ src _ _ _ t (H c src st hc hst) h

end GM.Proof.ConvertXRect
