/-
  GM.Proof.CMFrag20Main — stage 20: paragraphs whose lines contain underscore emphasis; the phases composed.
-/
import GM.Proof.CMFragParas
import GM.Proof.CMFrag8Main
import GM.Proof.CMFrag20Inl
import GM.Proof.CMFragRender20
import GM.Proof.CMFragSpec20

namespace GM.Proof.CMFrag
open GM GM.Text GM.Blocks GM.Spec GM.Spec.CM GM.Spec.CMFrag

theorem unatomSrc_noNl (a : UnAtom) (h : UnAtomOK a) : ∀ c ∈ unatomSrc a, c ≠ 10 := by
  cases a with
  | txt bs => exact quiet_no_nl bs 0 false (h.2.1 0)
  | em bs =>
    intro c hc
    simp only [unatomSrc, List.mem_append, List.mem_cons, List.not_mem_nil, or_false] at hc
    rcases hc with (rfl | hc) | rfl
    · decide
    · exact alnum_ne_lf8 c (h.2 c hc)
    · decide
  | strong bs =>
    intro c hc
    simp only [unatomSrc, List.mem_append, List.mem_cons, List.not_mem_nil, or_false] at hc
    rcases hc with ((rfl | rfl) | hc) | (rfl | rfl)
    · decide
    · decide
    · exact alnum_ne_lf8 c (h.2 c hc)
    · decide
    · decide

theorem unlineSrc_append (a b : List UnAtom) : unlineSrc (a ++ b) = unlineSrc a ++ unlineSrc b := by
  simp [unlineSrc]

/-- a rich line is good for the block phase -/
theorem unrichLine_blk {l : List UnAtom} (h : UnRichLine l) : BlkLine (unlineSrc l) := by
  refine ⟨?_, ?_, ?_⟩
  · obtain ⟨bs, rest, e, hf⟩ := h.first
    have hok := h.ok (.txt bs) (by rw [e]; simp)
    cases bs with
    | nil => exact absurd rfl hok.1
    | cons c t =>
      exact ⟨c, t ++ unlineSrc rest, by rw [e]; simp [unlineSrc, unatomSrc], hf c rfl⟩
  · obtain ⟨init, bs, e, hl⟩ := h.last
    have hok := h.ok (.txt bs) (by rw [e]; simp)
    intro c hc
    have e2 : unlineSrc l = unlineSrc init ++ bs := by rw [e, unlineSrc_append]; simp [unlineSrc, unatomSrc]
    rw [e2, List.getLast?_append] at hc
    cases hb : bs.getLast? with
    | none => exact absurd (List.getLast?_eq_none_iff.mp hb) hok.1
    | some z =>
      rw [hb] at hc
      have hc' : z = c := by simpa using hc
      subst hc'
      exact (hl z hb).1
  · intro c hc
    simp only [unlineSrc, List.mem_flatMap] at hc
    obtain ⟨a, ha, hca⟩ := hc
    exact unatomSrc_noNl a (h.ok a ha) c hca

/-- the paragraphs of a stage-20 document as byte lines with the extra blank lines in front -/
def itemsOfUn (d : UnDoc) : List (Nat × List Bytes) :=
  d.items.map fun it => (it.gap, (it.lines.map (·.map unatomOfS)).map unlineSrc)

theorem spellUnItems_raw : ∀ (first : Bool) (its : List UnItem) (trail : Nat),
    spellUnItems first its ++ GM.Spec.CMFrag.blanks trail =
      rawDoc6 (paraItems first (its.map fun it => (it.gap, (it.lines.map (·.map unatomOfS)).map unlineSrc))) trail
  | _, [], _ => by simp [spellUnItems, paraItems, rawDoc6, blanks_eq]
  | first, it :: rest, trail => by
    have ih := spellUnItems_raw false rest trail
    have e : it.lines.flatMap (fun l => spellUnLine l ++ [10]) =
        paraBytes ((it.lines.map (·.map unatomOfS)).map unlineSrc) := by
      simp [paraBytes, List.flatMap_map, unlineSrc_unatomOfS20]
    simp only [spellUnItems, List.map_cons, paraItems, rawDoc6, lines5, lines4, List.append_assoc, ih, e, blanks_eq]

theorem spellUn_raw (d : UnDoc) : spellUn d = rawDoc6 (paraItems true (itemsOfUn d)) d.trail :=
  spellUnItems_raw true d.items d.trail

theorem unfrag_items (d : UnDoc) (h : UnFrag d) : ∀ it ∈ d.items, unitemOKS it = true := by
  have := h; simp only [UnFrag, unfragB, List.all_eq_true] at this; exact this

theorem unitem_rich (it : UnItem) (h : unitemOKS it = true) : ∀ l ∈ it.lines.map (·.map unatomOfS), UnRichLine l := by
  intro l hl
  obtain ⟨r, hr, rfl⟩ := List.mem_map.mp hl
  exact erichLine_unatomOfS20 r ((unitemOKS_lines20 it h).2 r hr)

theorem itemsOfUn_blk (d : UnDoc) (h : UnFrag d) : ∀ it ∈ itemsOfUn d, it.2 ≠ [] ∧ ∀ l ∈ it.2, BlkLine l := by
  intro x hx
  obtain ⟨it, hit, rfl⟩ := List.mem_map.mp hx
  have hok := unfrag_items d h it hit
  refine ⟨by simpa using (unitemOKS_lines20 it hok).1, ?_⟩
  intro l hl
  obtain ⟨y, hy, rfl⟩ := List.mem_map.mp hl
  exact unrichLine_blk (unitem_rich it hok y hy)

theorem parasDT_Un (env : GM.Inl.Env) (henv : env.escapedSpace = false) : ∀ (its : List UnItem),
    (∀ it ∈ its, unitemOKS it = true) →
    ParasDT env (its.map fun it => (it.gap, (it.lines.map (·.map unatomOfS)).map unlineSrc))
      ((its.map fun it => it.lines.map (·.map unatomOfS)).map unrichNodes)
  | [], _ => trivial
  | it :: rest, h => by
    have hok := unitem_rich it (h it (by simp))
    have hne : it.lines.map (·.map unatomOfS) ≠ [] := by simpa using (unitemOKS_lines20 it (h it (by simp))).1
    exact ⟨⟨fun p => richKids20 p (it.lines.map (·.map unatomOfS)),
        fun src p hl => parseBlock_rich20 env henv src p _ hne hok hl,
        fun src p hl => inlineTrees_rich20 src p _ hok hl⟩,
      parasDT_Un env henv rest (fun x hx => h x (by simp [hx]))⟩

/-- **the conformance theorem of the stage-20 fragment** -/
theorem fragment20_conforms (d : UnDoc) (h : UnFrag d) (uc : List (Nat × (Bool × Bool))) :
    GM.Convert.convertCore uc cmOpts (spellUn d) = .ok (expectedUn d) := by
  rw [spellUn_raw]
  refine convert_paras_gen uc (itemsOfUn d) d.trail ((atomsOfUn d).map unrichNodes) (expectedUn d) (itemsOfUn_blk d h)
    (fun env henv => parasDT_Un env henv d.items (unfrag_items d h)) ?_
  have := renderDoc_expectedUn20 d h
  simpa [List.map_map, Function.comp_def] using this

/-- the stage-20 document without its final line feed -/
theorem fragment20_conforms_nofinal (d : UnDoc) (h : UnFrag d) (hne : d.items ≠ []) (uc : List (Nat × (Bool × Bool))) :
    GM.Convert.convertCore uc cmOpts (rawDoc6E (paraItems true (itemsOfUn d))) = .ok (expectedUn d) := by
  refine convert_paras_genE uc (itemsOfUn d) (by simpa [itemsOfUn] using hne) ((atomsOfUn d).map unrichNodes) (expectedUn d)
    (itemsOfUn_blk d h) (fun env henv => parasDT_Un env henv d.items (unfrag_items d h)) ?_
  have := renderDoc_expectedUn20 d h
  simpa [List.map_map, Function.comp_def] using this

end GM.Proof.CMFrag
