/-
  GM.Proof.ShiftSimEof — `Continue` called at the END OF THE SOURCE under the shift simulation (the reader has no
  line: goldmark's `openBlocks` does this for the last opened paragraph when a container consumed the rest of the last
  line): same answer on both sides, afterwards at least the limbo relation.
-/
import GM.Proof.ShiftSimLeafA
import GM.Proof.ShiftSimFenced
import GM.Proof.ShiftSimQuoteHtml

namespace GM.Blocks.Sh
open GM GM.Text GM.Spec GM.Proof.Reader GM.Blocks

/-- `Continue` at the end of the source (no line): the answer is the same; afterwards the limbo relation
    (`ContinueEofSim` of GM.Proof.ShiftSimDriver, restated) -/
def eof_ContinueEofSim (F : Frame) (b : Bytes) (bp : BP) : Prop := ∀ node sA sB, SR F b sA sB →
  (∃ c, RI b sA.r c ∧ ¬ c.p < b.length) →
  P2 (fun x y sA' sB' => y = x ∧ SRLim F b sA' sB') (bpContinue bp node sA) (bpContinue bp (F.ι node) sB)

/-! ### reader steps -/

/-- `PeekLine`, keeping track of A's cursor -/
theorem eof_peekLine_p2c {F b sA sB} (h : SR F b sA sB) {c : RCur} (hc : RI b sA.r c) :
    P2 (fun x y sA' sB' => x = (RCur.view b c, RCur.seg b c) ∧ y = (x.1, moveSeg F.d x.2) ∧ RI b sA'.r c ∧
        SR F b sA' sB') (peekLine sA) (peekLine sB) := by
  obtain ⟨r', e1, e2⟩ := ri_peekLine hc
  have hB : sB.r.peekLine = .ok ((RCur.view b c, moveSeg F.d (RCur.seg b c)), shR F r') := by
    rw [h.r, peekLine_sh F _ (RI.start_nonneg hc), e1]; rfl
  unfold GM.Blocks.peekLine
  rw [e1, hB]
  exact P2.ok ⟨rfl, rfl, e2, h.withR e2⟩

theorem eof_advPad_neg (r : Reader) (n pd : Int) (hn : n < 0) : ∃ r', r.advanceAndSetPadding n pd = .ok r' ∧
    r'.source = r.source ∧ r'.pos.stop = r.pos.stop ∧ r'.pos.forceNewline = r.pos.forceNewline ∧ r'.line = r.line := by
  unfold Reader.advanceAndSetPadding Reader.advance
  simp only
  have : n.toNat = 0 := by omega
  rw [this]
  split <;> split <;>
    (simp only [bind, Except.bind, pure, Except.pure, Reader.advanceLoop, Reader.setPadding]
     split <;> exact ⟨_, rfl, rfl, rfl, rfl, rfl⟩)

/-- `AdvanceAndSetPadding(n, ·)` with any `n`: afterwards the limbo relation -/
theorem eof_advanceAndSetPadding_limbo {F b sA sB} (h : SR F b sA sB) (n pd : Int) :
    P2 (fun _ _ sA' sB' => SRLim F b sA' sB') (advanceAndSetPadding n pd sA) (advanceAndSetPadding n pd sB) := by
  by_cases hn : 0 ≤ n
  · exact (advanceAndSetPadding_p2 h rfl rfl hn).mono fun _ _ _ _ h3 => h3.limbo
  · obtain ⟨c, hc⟩ := h.ri
    obtain ⟨r', e1, e2, e3, e4, e5⟩ := eof_advPad_neg sA.r n pd (by omega)
    obtain ⟨r'', f1, f2, f3, f4, f5⟩ := eof_advPad_neg sB.r n pd (by omega)
    unfold GM.Blocks.advanceAndSetPadding
    rw [e1, f1]
    have hl := h.limbo
    have hA : r'.advanceLine = sA.r.advanceLine :=
      advanceLine_congr' (RI.stop_nonneg hc) e2 e3 e4 e5
    have hB : r''.advanceLine = sB.r.advanceLine :=
      advanceLine_congr' (by rw [h.r]; have := RI.stop_nonneg hc; simp only [shR, moveSeg, Frame.d]; omega) f2 f3 f4 f5
    refine P2.ok ⟨⟨rfl, rfl, by simp only; rw [e2]; exact hl.1.srcA, by simp only; rw [f2]; exact hl.1.srcB, h.n, h.c⟩, ?_, ?_⟩
    · simp only; rw [hA]; exact hl.2.1
    · simp only; rw [hA, hB]; exact hl.2.2

/-! ### the parsers whose `Continue` is `return Close` -/

theorem eof_setextContinue (F : Frame) (b : Bytes) : eof_ContinueEofSim F b .setext := by
  intro node sA sB h _
  exact P2.pure ⟨rfl, h.limbo⟩

theorem eof_thematicContinue (F : Frame) (b : Bytes) : eof_ContinueEofSim F b .thematic := by
  intro node sA sB h _
  exact P2.pure ⟨rfl, h.limbo⟩

theorem eof_atxContinue (F : Frame) (b : Bytes) : eof_ContinueEofSim F b .atx := by
  intro node sA sB h _
  exact P2.pure ⟨rfl, h.limbo⟩

/-! ### paragraph.go -/

theorem eof_paragraphContinue (F : Frame) (b : Bytes) : eof_ContinueEofSim F b .paragraph := by
  intro node sA sB h _
  show P2 _ (paragraphContinue node sA) (paragraphContinue (F.ι node) sB)
  unfold paragraphContinue
  refine P2.bind (peekLine_p2 h) (fun x y sA1 sB1 ⟨⟨c, hc, hx⟩, hy, h1⟩ => ?_)
  subst hx hy
  simp only
  by_cases hb : isBlank ((RCur.view b c).getD []) = true
  · rw [if_pos hb, if_pos hb]; exact P2.pure ⟨rfl, h1.limbo⟩
  · rw [if_neg hb, if_neg hb]
    refine P2.bind (appendLine_p2 h1 node rfl) (fun _ _ sA2 sB2 h2 => ?_)
    rw [moveSeg_len]
    refine P2.bind (advance_limbo h2 _) (fun _ _ sA3 sB3 h3 => ?_)
    exact P2.pure ⟨rfl, h3⟩

/-! ### blockquote.go -/

theorem eof_blockquoteContinue (F : Frame) (b : Bytes) : eof_ContinueEofSim F b .blockquote := by
  intro node sA sB h _
  show P2 _ (blockquoteContinue node sA) (blockquoteContinue (F.ι node) sB)
  unfold blockquoteContinue
  refine P2.bind (blockquoteProcess_p2 h) (fun x y sA1 sB1 ⟨hy, h1⟩ => ?_)
  subst hy
  by_cases hx : y = true
  · rw [if_pos hx]; exact P2.pure ⟨rfl, h1.limbo⟩
  · rw [if_neg hx]; exact P2.pure ⟨rfl, h1.limbo⟩

/-! ### html_block.go -/

theorem eof_htmlContinue (F : Frame) (b : Bytes) : eof_ContinueEofSim F b .html := by
  intro node sA sB h _
  show P2 _ (htmlContinue node sA) (htmlContinue (F.ι node) sB)
  unfold htmlContinue
  refine P2.bind (getNode_p2 h node) (fun n m sA0 sB0 ⟨_, hm, e1, e2⟩ => ?_)
  subst hm e1 e2
  refine P2.bind (peekLine_p2 h) (fun x y sA1 sB1 ⟨⟨c, hc, hx⟩, hy, h1⟩ => ?_)
  subst hx hy
  simp only
  have hty : (shN F (node == 0) n).htmlType = n.htmlType := rfl
  rw [hty, shN_lines, List.length_map]
  have hs0 : ¬ (RCur.seg b c).start < 0 := by simp [RCur.seg]
  generalize (RCur.view b c).getD [] = line
  generalize RCur.seg b c = segment at hs0 ⊢
  have hcl : ∀ v, (if (n.htmlType == 1) = true then type1Close v
      else if (n.htmlType == 2) = true then containsSub (strBytes "-->") v
      else if (n.htmlType == 3) = true then containsSub (strBytes "?>") v
      else if (n.htmlType == 4) = true then containsSub (strBytes ">") v
      else containsSub (strBytes "]]>") v) = qh_htmlCloses n.htmlType v := fun v => rfl
  simp only [hcl]
  have fin : ∀ sA2 sB2, SR F b sA2 sB2 → P2 (fun x y sA' sB' => y = x ∧ SRLim F b sA' sB')
      ((do appendLine node segment
           advance (segment.len - trimRightSpaceLength line)
           pure stContinueNoChildren : M PState) sA2)
      ((do appendLine (F.ι node) (moveSeg F.d segment)
           advance ((moveSeg F.d segment).len - trimRightSpaceLength line)
           pure stContinueNoChildren : M PState) sB2) := by
    intro sA2 sB2 h2
    refine P2.bind (appendLine_p2 h2 node rfl) (fun _ _ sA3 sB3 h3 => ?_)
    rw [moveSeg_len]
    refine P2.bind (advance_limbo h3 _) (fun _ _ sA4 sB4 h4 => ?_)
    exact P2.pure ⟨rfl, h4⟩
  have mid : ∀ sA2 sB2, SR F b sA2 sB2 → P2 (fun x y sA' sB' => y = x ∧ SRLim F b sA' sB')
      ((if qh_htmlCloses n.htmlType line = true then do
            modNode node fun n => { n with closure := segment }
            advance (segment.len - trimRightSpaceLength line)
            pure stClose
          else do
            appendLine node segment
            advance (segment.len - trimRightSpaceLength line)
            pure stContinueNoChildren : M PState) sA2)
      ((if qh_htmlCloses n.htmlType line = true then do
            modNode (F.ι node) fun n => { n with closure := moveSeg F.d segment }
            advance ((moveSeg F.d segment).len - trimRightSpaceLength line)
            pure stClose
          else do
            appendLine (F.ι node) (moveSeg F.d segment)
            advance ((moveSeg F.d segment).len - trimRightSpaceLength line)
            pure stContinueNoChildren : M PState) sB2) := by
    intro sA2 sB2 h2
    by_cases hc1 : qh_htmlCloses n.htmlType line = true
    · rw [if_pos hc1, if_pos hc1]
      refine P2.bind (modNode_p2 h2 node _ _ (fun a => by simp [shN, shClosure, hs0]) (fun _ => rfl))
        (fun _ _ sA3 sB3 h3 => ?_)
      rw [moveSeg_len]
      refine P2.bind (advance_limbo h3 _) (fun _ _ sA4 sB4 h4 => ?_)
      exact P2.pure ⟨rfl, h4⟩
    · rw [if_neg hc1, if_neg hc1]; exact fin _ _ h2
  by_cases hc0 : (decide (1 ≤ n.htmlType) && decide (n.htmlType ≤ 5)) = true
  · rw [if_pos hc0, if_pos hc0]
    by_cases hc1 : (n.lines.length == 1) = true
    · rw [if_pos hc1, if_pos hc1]
      refine P2.bind (P := fun s t sA' sB' => t = moveSeg F.d s ∧ sA' = sA1 ∧ sB' = sB1)
        (P2.liftE (fun s t e1 e2 => ?_)) (fun l1 l1' sA3 sB3 ⟨ht, e1, e2⟩ => ?_)
      · rw [lineAt_sh F.d e1] at e2; cases e2; exact ⟨rfl, rfl, rfl⟩
      subst ht e1 e2
      refine P2.bind (source_p2 h1) (fun a a' sA2 sB2 ⟨ha, hb, e1, e2⟩ => ?_)
      subst e1 e2
      rw [ha, hb]
      refine P2.bind (P := fun s t sA' sB' => t = s ∧ sA' = sA2 ∧ sB' = sB2)
        (P2.liftE (fun s t e1 e2 => ?_)) (fun v v' sA3 sB3 ⟨ht, e1, e2⟩ => ?_)
      · rw [value_ok_shift F b e1] at e2; cases e2; exact ⟨rfl, rfl, rfl⟩
      subst ht e1 e2
      by_cases hc2 : qh_htmlCloses n.htmlType v' = true
      · rw [if_pos hc2, if_pos hc2]; exact P2.pure ⟨rfl, h1.limbo⟩
      · rw [if_neg hc2, if_neg hc2]; exact mid _ _ h1
    · rw [if_neg hc1, if_neg hc1]; exact mid _ _ h1
  · rw [if_neg hc0, if_neg hc0]
    by_cases hc1 : (n.htmlType == 6 || n.htmlType == 7) = true
    · rw [if_pos hc1, if_pos hc1]
      by_cases hc2 : isBlank line = true
      · rw [if_pos hc2, if_pos hc2]; exact P2.pure ⟨rfl, h1.limbo⟩
      · rw [if_neg hc2, if_neg hc2]; exact fin _ _ h1
    · rw [if_neg hc1, if_neg hc1]; exact fin _ _ h1

/-! ### code_block.go -/

theorem eof_codeContinue (F : Frame) (b : Bytes) : eof_ContinueEofSim F b .code := by
  intro node sA sB h ⟨c, hc, hp⟩
  show P2 _ (codeContinue node sA) (codeContinue (F.ι node) sB)
  unfold codeContinue
  refine P2.bind (eof_peekLine_p2c h hc) (fun x y sA1 sB1 ⟨hx, hy, _, h1⟩ => ?_)
  subst hy hx
  simp only
  have hbl : isBlank ((RCur.view b c).getD []) = true := by
    rw [view_none b c hp]; exact isBlank_nil
  rw [if_pos hbl, if_pos hbl]
  refine P2.bind (source_p2 h1) (fun a a' sA2 sB2 ⟨ha, hb, e1, e2⟩ => ?_)
  subst e1 e2
  rw [ha, hb]
  refine P2.bind (P := fun s t sA' sB' => t = moveSeg F.d s ∧ sA2 = sA' ∧ sB2 = sB')
    (P2.liftE (fun s t e1 e2 => ?_)) (fun s t sA3 sB3 ⟨ht, e1, e2⟩ => ?_)
  · rw [trimLeftSpaceWidth_sh F _ 4 e1] at e2; cases e2; exact ⟨rfl, rfl, rfl⟩
  subst ht e1 e2
  refine P2.bind (appendLine_p2 h1 node rfl) (fun _ _ sA4 sB4 h4 => ?_)
  exact P2.pure ⟨rfl, h4.limbo⟩

/-! ### fcode_block.go -/

theorem eof_fencedTail_p2 {F : Frame} {b : Bytes} {sA sB : St} (hF : F.OK) (h : SR F b sA sB) (line : Bytes)
    (seg : Segment) (node : Nat) (lo : Int) (fd : FenceData) :
    P2 (fun x y sA' sB' => y = x ∧ SRLim F b sA' sB')
      (fencedTail node line seg lo fd sA)
      (fencedTail (F.ι node) line (moveSeg F.d seg) lo (shF F fd) sB) := by
  unfold fencedTail
  have e1 : fencedPP line (moveSeg F.d seg) lo (shF F fd).indent = fencedPP line seg lo fd.indent := rfl
  have e2 : (shF F fd).indent = fd.indent := rfl
  rw [e1, e2]
  generalize fencedPP line seg lo fd.indent = pp
  unfold fencedStore
  simp only
  have hseg : ({ start := (moveSeg F.d seg).start + pp.1, stop := (moveSeg F.d seg).stop, padding := pp.2 } : Segment) =
      moveSeg F.d { start := seg.start + pp.1, stop := seg.stop, padding := pp.2 } := by
    simp only [moveSeg, Segment.mk.injEq, and_true]; omega
  rw [hseg]
  have hadv : (moveSeg F.d seg).stop - (moveSeg F.d seg).start - pp.1 - 1 = seg.stop - seg.start - pp.1 - 1 := by
    simp only [moveSeg]; omega
  rw [hadv]
  have rest : ∀ (sg : Segment) (sA1 sB1 : St), SR F b sA1 sB1 → P2 (fun x y sA' sB' => y = x ∧ SRLim F b sA' sB')
      ((appendLine node { sg with forceNewline := true } >>= fun _ =>
        advanceAndSetPadding (seg.stop - seg.start - pp.1 - 1) pp.2 >>= fun _ => pure stContinueNoChildren) sA1)
      ((appendLine (F.ι node) { moveSeg F.d sg with forceNewline := true } >>= fun _ =>
        advanceAndSetPadding (seg.stop - seg.start - pp.1 - 1) pp.2 >>= fun _ =>
          pure stContinueNoChildren) sB1) := by
    intro sg sA1 sB1 h1
    refine P2.bind (appendLine_p2 h1 node rfl) (fun _ _ sA2 sB2 h2 => ?_)
    refine P2.bind (eof_advanceAndSetPadding_limbo h2 _ _) (fun _ _ sA3 sB3 h3 => ?_)
    exact P2.pure ⟨rfl, h3⟩
  by_cases hc : (pp.2 != 0) = true
  · rw [if_pos hc, if_pos hc]
    refine P2.bind (fc_preserveLeadingTab_p2 hF h _ _) (fun sg sg' sA1 sB1 ⟨e, h1⟩ => ?_)
    subst e
    exact rest sg sA1 sB1 h1
  · rw [if_neg hc, if_neg hc]
    refine P2.bind (P := fun x y sA' sB' => y = moveSeg F.d x ∧ SR F b sA' sB') (P2.pure ⟨rfl, h⟩)
      (fun sg sg' sA1 sB1 ⟨e, h1⟩ => ?_)
    subst e
    exact rest sg sA1 sB1 h1

theorem eof_fencedContinue (F : Frame) (hF : F.OK) (b : Bytes) : eof_ContinueEofSim F b .fenced := by
  intro node sA sB h _
  show P2 _ (fencedContinue' node sA) (fencedContinue' (F.ι node) sB)
  unfold fencedContinue'
  refine P2.bind (peekLine_p2 h) (fun x y sA1 sB1 ⟨⟨c, hc, hx⟩, hy, h1⟩ => ?_)
  subst hx hy
  simp only
  refine P2.bind (getPc_p2 h1) (fun x y sA2 sB2 ⟨hx, hy, hxy, e1, e2⟩ => ?_)
  subst e1 e2
  rw [hxy.fence]
  cases x.fence with
  | none => exact P2.bind (P := fun _ _ _ _ => False) P2.throwL (fun _ _ _ _ hh => hh.elim)
  | some f =>
    simp only [Option.map]
    refine P2.bind (P := fun s t sA' sB' => s = f ∧ t = shF F f ∧ sA' = sA2 ∧ sB' = sB2) (P2.pure ⟨rfl, rfl, rfl, rfl⟩)
      (fun fd fd' sA3 sB3 ⟨e0, e0', e1, e2⟩ => ?_)
    subst e0 e0' e1 e2
    refine P2.bind (lineOffset_p2 h1) (fun lo lo' sA3 sB3 ⟨hlo, _, h3⟩ => ?_)
    subst hlo
    have ec : (shF F fd).char = fd.char := rfl
    have el : (shF F fd).length = fd.length := rfl
    rw [ec, el]
    generalize (RCur.view b c).getD [] = line
    generalize RCur.seg b c = seg
    have tail := eof_fencedTail_p2 hF h3 line seg node lo' fd
    generalize (indentWidthI line lo').2 = pos
    generalize (indentWidthI line lo').1 = w
    generalize scanWhileEq line fd.char pos = i
    by_cases hc1 : w < 4
    · rw [if_pos hc1, if_pos hc1]
      by_cases hc2 : i - pos ≥ fd.length
      · rw [if_pos hc2, if_pos hc2]
        refine P2.bind (P := fun s t sA' sB' => t = s ∧ sA' = sA3 ∧ sB' = sB3)
          (P2.liftE_same (fun a _ => ⟨rfl, rfl, rfl⟩)) (fun rest0 rest sA4 sB4 ⟨ht, e1, e2⟩ => ?_)
        subst ht e1 e2
        by_cases hc3 : isBlank rest = true
        · rw [if_pos hc3, if_pos hc3]
          refine P2.bind (P := fun s t sA' sB' => t = s ∧ sA' = sA4 ∧ sB' = sB4)
            (P2.liftE_same (fun a _ => ⟨rfl, rfl, rfl⟩)) (fun last0 last sA5 sB5 ⟨ht, e1, e2⟩ => ?_)
          subst ht e1 e2
          have hadv : (moveSeg F.d seg).stop - (moveSeg F.d seg).start - (if (last != 10) = true then 0 else 1) +
              (moveSeg F.d seg).padding = seg.stop - seg.start - (if (last != 10) = true then 0 else 1) + seg.padding := by
            simp only [moveSeg]; omega
          rw [hadv]
          refine P2.bind (advance_limbo h3 _) (fun _ _ sA6 sB6 h5 => ?_)
          exact P2.pure ⟨rfl, h5⟩
        · rw [if_neg hc3, if_neg hc3]; exact tail
      · rw [if_neg hc2, if_neg hc2]; exact tail
    · rw [if_neg hc1, if_neg hc1]; exact tail

end GM.Blocks.Sh
