/-
  GM.Proof.Resolve — the reference / escape resolvers keep valid UTF-8 valid.
-/
import GM.Model.Util
import GM.Proof.Utf8

namespace GM.Proof
open GM

def asciiAll (l : Bytes) : Bool := l.all (· < 128)

theorem u8run_asciiAll (l : Bytes) (h : asciiAll l = true) (st : U8St) :
    u8run st l = if l = [] then st else if st = .s0 then .s0 else .bad := by
  induction l generalizing st with
  | nil => rfl
  | cons c l ih =>
    simp only [asciiAll, List.all_cons, Bool.and_eq_true] at h
    rw [u8run_cons, u8step_ascii st c (of_decide_eq_true h.1), ih h.2]
    by_cases hst : st = .s0
    · subst hst; simp
    · simp [hst]

/-- an ASCII byte in front of a string accepted from `st`: `st` was the start state -/
theorem u8run_ascii_head {st : U8St} {c : UInt8} {l : Bytes} (hc : c < 128)
    (h : u8run st (c :: l) = .s0) : st = .s0 ∧ u8run .s0 l = .s0 := by
  rw [u8run_cons, u8step_ascii st c hc] at h
  by_cases hst : st = .s0
  · subst hst; exact ⟨rfl, by simpa using h⟩
  · simp only [hst, if_false] at h; rw [u8run_bad] at h; cases h

theorem u8run_ascii_mid {mid rest : Bytes} (hm : asciiAll mid = true) (h : u8run .s0 (mid ++ rest) = .s0) :
    u8run .s0 rest = .s0 := by
  rw [u8run_append, u8run_asciiAll mid hm] at h
  by_cases hmid : mid = []
  · simpa [hmid] using h
  · simpa [hmid] using h

/-! ### UnescapePunctuations -/

theorem isPunct_ascii : ∀ c : UInt8, isPunct c = true → c < 128 := by
  apply forall_uint8; decide +kernel

theorem unescapePunct_valid_st (v : Bytes) : ∀ st, u8run st v = .s0 → u8run st (unescapePunct v) = .s0 := by
  fun_induction unescapePunct v with
  | case1 => intro st h; exact h
  | case2 c => intro st h; exact h
  | case3 c d rest hcd ih =>
    intro st h
    simp only [Bool.and_eq_true, beq_iff_eq] at hcd
    obtain ⟨hc, hd⟩ := hcd
    subst hc
    obtain ⟨hst, h1⟩ := u8run_ascii_head (by decide) h
    subst hst
    have hd' := isPunct_ascii d hd
    obtain ⟨_, h2⟩ := u8run_ascii_head hd' h1
    rw [u8run_cons, u8step_ascii _ d hd']
    exact ih _ h2
  | case4 c d rest hcd ih =>
    intro st h
    rw [u8run_cons] at h ⊢
    exact ih _ h

theorem unescapePunct_valid (v : Bytes) (h : validUtf8 v = true) : validUtf8 (unescapePunct v) = true := by
  simp only [validUtf8, beq_iff_eq] at *
  exact unescapePunct_valid_st v _ h

/-! ### numeric references -/

theorem spanB_all (p : UInt8 → Bool) (l : Bytes) : (spanB p l).1.all p = true := by
  induction l with
  | nil => rfl
  | cons c cs ih =>
    simp only [spanB]; split
    · rename_i h; simp [h, ih]
    · rfl

theorem all_imp {p q : UInt8 → Bool} (hpq : ∀ c, p c = true → q c = true) (l : Bytes)
    (h : l.all p = true) : l.all q = true := by
  induction l with
  | nil => rfl
  | cons c cs ih =>
    simp only [List.all_cons, Bool.and_eq_true] at h ⊢
    exact ⟨hpq c h.1, ih h.2⟩

theorem isHex_ascii : ∀ c : UInt8, isHex c = true → c < 128 := by
  apply forall_uint8; decide +kernel
theorem isNumeric_ascii : ∀ c : UInt8, isNumeric c = true → c < 128 := by
  apply forall_uint8; decide +kernel
theorem isAlnum_ascii : ∀ c : UInt8, isAlnum c = true → c < 128 := by
  apply forall_uint8; decide +kernel

/-- whenever a numeric reference is recognised, the consumed text is ASCII and the replacement is the
    encoding of a rune produced by `runeOfUint32` -/
theorem tryNumRef_shape {cs out rest : Bytes} (h : tryNumRef cs = some (out, rest)) :
    ∃ mid n, cs = mid ++ rest ∧ asciiAll mid = true ∧ out = encodeRune (runeOfUint32 n) := by
  unfold tryNumRef at h
  split at h
  · rename_i nc r2
    split at h
    · rename_i hx
      split at h
      · rename_i r4 heq
        split at h
        · cases h
        · cases h
          have happ := spanB_append isHex r2
          rw [heq] at happ
          refine ⟨35 :: nc :: ((spanB isHex r2).1 ++ [59]), _, ?_, ?_, rfl⟩
          · simp only [List.cons_append, List.append_assoc, List.nil_append]; rw [happ]
          · have h1 := all_imp (q := fun c => decide (c < 128)) (fun c h => decide_eq_true (isHex_ascii c h)) _ (spanB_all isHex r2)
            have hnc : nc < 128 := by
              simp only [Bool.or_eq_true, beq_iff_eq] at hx
              rcases hx with hx | hx <;> subst hx <;> decide
            simp only [asciiAll, List.all_cons, List.all_append, h1, hnc, List.all_nil]
            decide
      · cases h
    · split at h
      · split at h
        · rename_i r4 heq
          split at h
          · cases h
            have happ := spanB_append isNumeric (nc :: r2)
            rw [heq] at happ
            refine ⟨35 :: ((spanB isNumeric (nc :: r2)).1 ++ [59]), _, ?_, ?_, rfl⟩
            · simp only [List.cons_append, List.append_assoc, List.nil_append]; rw [happ]
            · have h1 := all_imp (q := fun c => decide (c < 128)) (fun c h => decide_eq_true (isNumeric_ascii c h)) _ (spanB_all isNumeric (nc :: r2))
              simp only [asciiAll, List.all_cons, List.all_append, h1, List.all_nil]
              decide
          · cases h
        · cases h
      · cases h
  · cases h

theorem resolveNumeric_valid_st (v : Bytes) : ∀ st, u8run st v = .s0 → u8run st (resolveNumeric v) = .s0 := by
  fun_induction resolveNumeric v with
  | case1 => intro st h; exact h
  | case2 c cs hc out rest ht ih =>
    intro st h
    have hc' : c = 38 := by simpa using hc
    subst hc'
    obtain ⟨mid, n, hcs, hmid, hout⟩ := tryNumRef_shape ht
    obtain ⟨hst, h1⟩ := u8run_ascii_head (by decide) h
    subst hst
    rw [hcs] at h1
    have h2 := u8run_ascii_mid hmid h1
    rw [u8run_append, hout, encodeRune_valid]
    exact ih _ h2
  | case3 c cs hc ht ih =>
    intro st h
    rw [u8run_cons] at h ⊢
    exact ih _ h
  | case4 c cs hc ih =>
    intro st h
    rw [u8run_cons] at h ⊢
    exact ih _ h

theorem resolveNumeric_valid (v : Bytes) (h : validUtf8 v = true) : validUtf8 (resolveNumeric v) = true := by
  simp only [validUtf8, beq_iff_eq] at *
  exact resolveNumeric_valid_st v _ h

/-- what `ToValidRune(rune(parsed value))` yields: always a valid, non-zero rune; zero, surrogates and
    everything above U+10FFFF (including values ≥ 2^31, which wrap to negative `rune`s) become U+FFFD -/
theorem runeOfUint32_spec (n : Nat) :
    validRune (runeOfUint32 n) = true ∧ runeOfUint32 n ≠ 0 ∧
    ((n = 0 ∨ 0x10FFFF < n ∨ (0xD800 ≤ n ∧ n ≤ 0xDFFF)) → runeOfUint32 n = 0xFFFD) ∧
    (¬(n = 0 ∨ 0x10FFFF < n ∨ (0xD800 ≤ n ∧ n ≤ 0xDFFF)) → runeOfUint32 n = n) := by
  unfold runeOfUint32 toValidRune validRune
  by_cases h1 : n ≥ 2147483648
  · rw [if_pos h1]
    exact ⟨by decide, by decide, fun _ => rfl, fun h => absurd (Or.inr (Or.inl (by omega))) h⟩
  · rw [if_neg h1]
    by_cases hv : n < 0xD800 ∨ (0xDFFF < n ∧ n ≤ 0x10FFFF)
    · have hb : (decide (n < 55296) || decide (57343 < n) && decide (n ≤ 1114111)) = true := by
        simpa using hv
      by_cases h0 : n = 0
      · subst h0; exact ⟨by decide, by decide, fun _ => rfl, fun h => absurd (Or.inl rfl) h⟩
      · have e : (if (n == 0 || !(decide (n < 55296) || decide (57343 < n) && decide (n ≤ 1114111))) = true
            then 65533 else n) = n := by
          rw [hb]; simp [h0]
        rw [e]
        exact ⟨hb, h0, fun h => by omega, fun _ => rfl⟩
    · have hb : (decide (n < 55296) || decide (57343 < n) && decide (n ≤ 1114111)) = false := by
        simp only [Bool.or_eq_false_iff, Bool.and_eq_false_iff, decide_eq_false_iff_not]
        omega
      have e : (if (n == 0 || !(decide (n < 55296) || decide (57343 < n) && decide (n ≤ 1114111))) = true
          then 65533 else n) = 65533 := by
        rw [hb]; simp
      rw [e]
      exact ⟨by decide, by decide, fun _ => rfl, fun h => by omega⟩

/-! ### named references -/

theorem lookup_mem {α β} [BEq α] [LawfulBEq α] (l : List (α × β)) (k : α) (v : β) (h : l.lookup k = some v) :
    (k, v) ∈ l := by
  induction l with
  | nil => cases h
  | cons e l ih =>
    obtain ⟨k', v'⟩ := e
    simp only [List.lookup] at h
    split at h
    · rename_i heq
      have : k = k' := by simpa using heq
      cases h; subst this; exact List.mem_cons_self
    · exact List.mem_cons_of_mem _ (ih h)

/-- every expansion in the regenerated HTML5 entity table is valid UTF-8 (all 2,124 entries, by kernel
    evaluation) -/
theorem entities_valid : entityTable.all (fun e => validUtf8 e.2) = true := by decide +kernel

theorem lookupEntity_valid {name out : Bytes} (h : lookupEntity name = some out) : u8run .s0 out = .s0 := by
  have hm := lookup_mem _ _ _ h
  have := List.all_eq_true.mp entities_valid _ hm
  simpa [validUtf8] using this

theorem tryEntity_shape {cs out rest : Bytes} (h : tryEntity cs = some (out, rest)) :
    ∃ mid name, cs = mid ++ rest ∧ asciiAll mid = true ∧ lookupEntity name = some out := by
  unfold tryEntity at h
  split at h
  · cases h
  · split at h
    · rename_i r4 heq
      split at h
      · cases h
      · simp only [Option.map_eq_some_iff] at h
        obtain ⟨e, he, hpair⟩ := h
        cases hpair
        have happ := spanB_append isAlnum cs
        rw [heq] at happ
        refine ⟨(spanB isAlnum cs).1 ++ [59], _, ?_, ?_, he⟩
        · simp only [List.append_assoc, List.cons_append, List.nil_append]; rw [happ]
        · have h1 := all_imp (q := fun c => decide (c < 128)) (fun c h => decide_eq_true (isAlnum_ascii c h)) _ (spanB_all isAlnum cs)
          simp only [asciiAll, List.all_append, h1, List.all_cons, List.all_nil]
          decide
    · cases h

theorem resolveEntities_valid_st (v : Bytes) : ∀ st, u8run st v = .s0 → u8run st (resolveEntities v) = .s0 := by
  fun_induction resolveEntities v with
  | case1 => intro st h; exact h
  | case2 c cs hc out rest ht ih =>
    intro st h
    have hc' : c = 38 := by simpa using hc
    subst hc'
    obtain ⟨mid, name, hcs, hmid, hout⟩ := tryEntity_shape ht
    obtain ⟨hst, h1⟩ := u8run_ascii_head (by decide) h
    subst hst
    rw [hcs] at h1
    have h2 := u8run_ascii_mid hmid h1
    rw [u8run_append, lookupEntity_valid hout]
    exact ih _ h2
  | case3 c cs hc ht ih =>
    intro st h
    rw [u8run_cons] at h ⊢
    exact ih _ h
  | case4 c cs hc ih =>
    intro st h
    rw [u8run_cons] at h ⊢
    exact ih _ h

theorem resolveEntities_valid (v : Bytes) (h : validUtf8 v = true) : validUtf8 (resolveEntities v) = true := by
  simp only [validUtf8, beq_iff_eq] at *
  exact resolveEntities_valid_st v _ h

end GM.Proof
