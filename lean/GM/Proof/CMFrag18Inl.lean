/-
  GM.Proof.CMFrag18Inl — stage 18: the inline phase on a paragraph of rich lines with URI autolinks `<s:r>`.
  The autolink parser (first in the table entry of `<`, so the raw-HTML parser is never consulted) on `<s:r>`;
  text + autolink = one pass through `retry:`; lines, paragraphs, `parseBlock_rich18`, `inlineTrees_rich18`.
-/
import GM.Proof.CMFrag18Defs
import GM.Proof.CMFrag16Inl

namespace GM.Proof.CMFrag
open GM GM.Text GM.Inl

set_option maxRecDepth 1000000 in
theorem letter_facts18 : ∀ c : UInt8, GM.Spec.CM.isLetter c = true →
    (emailTbl c % 2 == 1) = true ∧ (urlTbl c % 8 != 7) = false ∧ (urlTbl c / 4 % 2 == 1) = true := by
  apply forall_uint8_11
  decide

set_option maxRecDepth 1000000 in
theorem auto_facts18 : ∀ c : UInt8, isAutoC18 c = true → (urlTbl c % 2 == 1) = true := by
  apply forall_uint8_11
  decide

theorem takeWhile_run18 (p : UInt8 → Bool) (x : UInt8) (t : Bytes) (hx : p x = false) :
    ∀ (l : Bytes), (∀ c ∈ l, p c = true) → (l ++ x :: t).takeWhile p = l
  | [], _ => by simp [hx]
  | c :: l, h => by
    simp only [List.cons_append, List.takeWhile, h c (by simp)]
    rw [takeWhile_run18 p x t hx l (fun y hy => h y (by simp [hy]))]

theorem findEmailIndex_scheme18 (s x : Bytes) (hs0 : s ≠ []) (hsl : ∀ c ∈ s, GM.Spec.CM.isLetter c = true) :
    findEmailIndex (s ++ 58 :: x) = -1 := by
  have htw := takeWhile_run18 (fun c => emailTbl c % 2 == 1) 58 x (by decide) s (fun c hc => (letter_facts18 c (hsl c hc)).1)
  have hl : 0 < s.length := List.length_pos_iff.mpr hs0
  unfold findEmailIndex
  simp only [htw]
  have h1 : (s.length == 0) = false := by simp; omega
  have h2 : (s ++ 58 :: x)[s.length]? = some 58 := by simp
  simp [h1]

theorem findURLIndex_scheme18 (s r rest : Bytes) (hs2 : 2 ≤ s.length) (hs32 : s.length ≤ 32)
    (hsl : ∀ c ∈ s, GM.Spec.CM.isLetter c = true) (hrc : ∀ c ∈ r, isAutoC18 c = true) :
    findURLIndex (s ++ 58 :: (r ++ 62 :: rest)) = ((s.length + 1 + r.length : Nat) : Int) := by
  obtain ⟨c, s', rfl⟩ : ∃ c s', s = c :: s' := by
    cases s with
    | nil => simp at hs2
    | cons c s' => exact ⟨c, s', rfl⟩
  obtain ⟨_, h7, _⟩ := letter_facts18 c (hsl c (by simp))
  have htw := takeWhile_run18 (fun c => urlTbl c / 4 % 2 == 1) 58 (r ++ 62 :: rest) (by decide) s'
    (fun x hx => (letter_facts18 x (hsl x (by simp [hx]))).2.2)
  have htw2 := takeWhile_run18 (fun c => urlTbl c % 2 == 1) 62 rest (by decide) r (fun x hx => auto_facts18 x (hrc x hx))
  simp only [List.length_cons] at hs2 hs32
  rw [List.cons_append]
  unfold findURLIndex
  simp only [h7, Bool.false_eq_true, if_false, htw]
  have e1 : (1 + s'.length == 1) = false := by rw [beq_eq_false_iff_ne]; omega
  have e2 : ¬ (1 + s'.length > 32) := by omega
  have e3 : ¬ (1 + s'.length ≥ (c :: (s' ++ 58 :: (r ++ 62 :: rest))).length) := by simp; omega
  have e4 : (c :: (s' ++ 58 :: (r ++ 62 :: rest)))[1 + s'.length]? = some 58 := by
    rw [Nat.add_comm, List.getElem?_cons_succ]; simp
  have e5 : (c :: (s' ++ 58 :: (r ++ 62 :: rest))).drop (1 + s'.length + 1) = r ++ 62 :: rest := by
    rw [show 1 + s'.length + 1 = (s'.length + 1) + 1 by omega, List.drop_succ_cons,
      show s' ++ 58 :: (r ++ 62 :: rest) = (s' ++ [58]) ++ (r ++ 62 :: rest) by simp]
    exact List.drop_left' (by simp)
  simp only [e1, e2, e3, e4, e5, htw2, Bool.false_or, decide_false, Bool.false_eq_true, if_false, bne_self_eq_false]
  simp only [List.length_cons]
  congr 1; omega


/-- the autolink parser on `<s:r>` -/
theorem parseAutoLink18 (src : Bytes) (segs : List Segment) (L j hd : Int) (a : Nat) (s r rest : Bytes) (e : Int)
    (h : At16 src L a e (60 :: (s ++ 58 :: (r ++ 62 :: rest)))) (hj : j < segs.length)
    (hs2 : 2 ≤ s.length) (hs32 : s.length ≤ 32) (hsl : ∀ c ∈ s, GM.Spec.CM.isLetter c = true)
    (hrc : ∀ c ∈ r, isAutoC18 c = true) (hrest : rest ≠ []) :
    parseAutoLink (rdAt src segs L j { start := a, stop := e } hd) =
      .ok (some (.autoLink false { start := ((a + 1 : Nat) : Int), stop := ((a + 1 + s.length + 1 + r.length : Nat) : Int) }),
        rdAt src segs L j { start := ((a + 1 + s.length + 1 + r.length + 1 : Nat) : Int), stop := e } hd) := by
  have hrl : 0 < rest.length := List.length_pos_iff.mpr hrest
  have hs0 : s ≠ [] := by intro h0; rw [h0] at hs2; simp at hs2
  unfold parseAutoLink
  simp only [bind, Except.bind, peekLine_at16 src segs L j hd a e 60 _ h hj, Option.getD_some, List.isEmpty_cons,
    Bool.false_eq_true, if_false, List.drop_succ_cons, List.drop_zero, findEmailIndex_scheme18 s _ hs0 hsl,
    findURLIndex_scheme18 s r rest hs2 hs32 hsl hrc, show ((-1 : Int) < 0) = True by decide, if_true]
  have e1 : ¬ (((s.length + 1 + r.length : Nat) : Int) < 0) := by omega
  have e2 : ¬ (((s.length + 1 + r.length : Nat) : Int) + 1 ≥ ((60 :: (s ++ 58 :: (r ++ 62 :: rest))).length : Nat)) := by
    simp only [List.length_cons, List.length_append]; push_cast; omega
  have e3 : (60 :: (s ++ 58 :: (r ++ 62 :: rest)))[(((s.length + 1 + r.length : Nat) : Int) + 1).toNat]? = some 62 := by
    have : (((s.length + 1 + r.length : Nat) : Int) + 1).toNat = (s.length + 1 + r.length) + 1 := by omega
    rw [this, List.getElem?_cons_succ,
      show s ++ 58 :: (r ++ 62 :: rest) = (s ++ 58 :: r) ++ 62 :: rest by simp]
    have h2 : s.length + 1 + r.length = (s ++ 58 :: r).length := by simp only [List.length_cons, List.length_append]; omega
    rw [h2]
    simp
  have e4 := advance_at16 src segs L j hd a e _ h (s.length + 1 + r.length + 1 + 1)
    (by simp only [List.length_cons, List.length_append]; omega)
  have e5 : (((s.length + 1 + r.length : Nat) : Int) + 1 + 1) = ((s.length + 1 + r.length + 1 + 1 : Nat) : Int) := by
    omega
  simp only [e1, e2, e3, e5, e4, if_false, bne_self_eq_false, Bool.false_eq_true, or_self, pure, Except.pure]
  have e6 : (a : Int) + 1 = ((a + 1 : Nat) : Int) := by omega
  have e7 : (a : Int) + (((s.length + 1 + r.length : Nat) : Int) + 1) = ((a + 1 + s.length + 1 + r.length : Nat) : Int) := by
    omega
  have e8 : a + (s.length + 1 + r.length + 1 + 1) = a + 1 + s.length + 1 + r.length + 1 := by omega
  simp only [decide_false, Bool.or_self, Bool.false_eq_true, if_false, e6, e7, e8]


/-! ### one pass through `retry:` that ends at an autolink -/

theorem noMerge_auto18 (ks : List Inl.Node) (em : Bool) (seg : Segment) : NoMerge8 (ks ++ [.autoLink em seg]) := by
  intro seg' h r; simp

theorem scan_lt18 (env : Env) (henv : env.escapedSpace = false) (src : Bytes) (segs : List Segment) (L j hd : Int)
    (q : Nat) (bs tail : Bytes) (e : Int) (ks : List Inl.Node) (nid : Nat) (bts : List Bottom)
    (h : At16 src L q e (bs ++ 60 :: tail))
    (hbs : bs ≠ []) (hq : quiet bs 0 false = true) (hesc : escAfter bs false = false)
    (hnm : NoMerge8 ks) (nd : Inl.Node) (rd' : BlockReader)
    (hparse : parseAutoLink (rdAt src segs L j { start := ((q + bs.length : Nat) : Int), stop := e } hd) =
      .ok (some nd, rd')) :
    scan env (bs ++ 60 :: tail) 0
      { st := { rd := rdAt src segs L j { start := q, stop := e } hd, kids := ks, nextId := nid, bottoms := bts },
        n := 0, sp := { start := q, stop := e }, escaped := false } =
    .ok (.hit { rd := rd',
                kids := ks ++ [.text { start := q, stop := ((q + bs.length : Nat) : Int) } false false false, nd],
                nextId := nid, bottoms := bts } false) := by
  have hbl : 0 < bs.length := List.length_pos_iff.mpr hbs
  rw [scan_pre8 env henv bs _ 0 _ hq]
  simp only [hesc, Nat.zero_add, Int.zero_add]
  have hT : isTrigger env 60 bs.length false = true := by
    simp [isTrigger]; left; left; decide
  have hP : parserChar 60 bs.length = 60 := by
    have h1 : isSpace 60 = false := by decide
    have h2 : isPunct 60 = true := by decide
    simp [parserChar, h1, h2]
  have hF : parsersFor 60 = [.autoLink, .rawHTML] := by decide
  have h10 : ((60 : UInt8) == 10) = false := by decide
  rw [scan]
  simp only [h10, Bool.false_eq_true, if_false, hT, hP, hF]
  simp only [List.isEmpty_cons, Bool.not_false, Bool.and_self, if_true]
  unfold trigger
  simp only [bind, Except.bind]
  rw [advance_at16 src segs L j hd q e _ h bs.length (by simp)]
  have hne0 : (bs.length != 0) = true := by simp; omega
  simp only [hne0, if_true, BlockReader.position, Segment.between,
    Except.map, mergeOrAppend_nomerge8 ks _ hnm, tryParsers, Ip.parse, liftR, bind, Except.bind]
  simp only [show (rdAt src segs L j { start := ((q + bs.length : Nat) : Int), stop := e } hd).pos =
    { start := ((q + bs.length : Nat) : Int), stop := e } from rfl, bne_self_eq_false, Bool.false_eq_true, if_false]
  simp only [textOf, Int.sub_self, hparse, pure, Except.pure]
  simp

/-- one text atom and the autolink behind it: one pass -/
theorem auto_step18 (env : Env) (henv : env.escapedSpace = false) (src : Bytes) (segs : List Segment) (L j hd : Int)
    (q : Nat) (bs s r rest : Bytes) (e : Int) (ks : List Inl.Node) (nid : Nat) (bts : List Bottom) (fuel : Nat)
    (h : At16 src L q e (bs ++ 60 :: (s ++ 58 :: (r ++ 62 :: rest)))) (hj : j < segs.length)
    (hend : EndOK11 rest)
    (hbs : bs ≠ []) (hq : quiet bs 0 false = true) (hesc : escAfter bs false = false)
    (hs2 : 2 ≤ s.length) (hs32 : s.length ≤ 32) (hsl : ∀ c ∈ s, GM.Spec.CM.isLetter c = true)
    (hrc : ∀ c ∈ r, isAutoC18 c = true) (hrest : rest ≠ []) (hnm : NoMerge8 ks) :
    lineLoop env (fuel + 1) false
      { rd := rdAt src segs L j { start := q, stop := e } hd, kids := ks, nextId := nid, bottoms := bts } =
    lineLoop env fuel false
      { rd := rdAt src segs L j { start := ((q + bs.length + 1 + s.length + 1 + r.length + 1 : Nat) : Int), stop := e } hd,
        kids := ks ++ [.text { start := q, stop := ((q + bs.length : Nat) : Int) } false false false,
          .autoLink false { start := ((q + bs.length + 1 : Nat) : Int),
                            stop := ((q + bs.length + 1 + s.length + 1 + r.length : Nat) : Int) }],
        nextId := nid, bottoms := bts } := by
  have h1 : At16 src L (q + bs.length) e (60 :: (s ++ 58 :: (r ++ 62 :: rest))) := h.drop bs _
  obtain ⟨b0, bs', hbb⟩ : ∃ b0 bs', bs = b0 :: bs' := by
    cases bs with
    | nil => exact absurd rfl hbs
    | cons x xs => exact ⟨x, xs, rfl⟩
  have hp := peekLine_at16 src segs L j hd q e b0 (bs' ++ 60 :: (s ++ 58 :: (r ++ 62 :: rest)))
    (by rw [← List.cons_append, ← hbb]; exact h) hj
  rw [← List.cons_append, ← hbb] at hp
  refine lineLoop_hit8 env fuel false false _ _ _ _ hp ?_ ?_
  · rw [hbb]; rfl
  · have hcl := endOK_app11 (60 :: (s ++ 58 :: (r ++ [62]))) rest hend bs
    have hE : bs ++ (60 :: (s ++ 58 :: (r ++ [62])) ++ rest) = bs ++ 60 :: (s ++ 58 :: (r ++ 62 :: rest)) := by simp
    rw [hE] at hcl
    rw [hcl, List.take_length]
    exact scan_lt18 env henv src segs L j hd q bs _ e ks nid bts h hbs hq hesc hnm _ _
      (parseAutoLink18 src segs L j hd (q + bs.length) s r rest e h1 hj hs2 hs32 hsl hrc hrest)

/-! ### the children of a paragraph of rich lines -/

/-- the children one line gives, the line's atoms from byte `q` on; `soft`: the line is not the last one -/
def atomKids18 (soft : Bool) : Nat → List AAtom → List Inl.Node
  | _, [] => []
  | q, [.txt bs] => [.text { start := q, stop := ((q + bs.length : Nat) : Int) } soft false false]
  | q, .txt bs :: rest =>
    .text { start := q, stop := ((q + bs.length : Nat) : Int) } false false false :: atomKids18 soft (q + bs.length) rest
  | q, .auto s r :: rest =>
    .autoLink false { start := ((q + 1 : Nat) : Int), stop := ((q + 1 + s.length + 1 + r.length : Nat) : Int) } ::
      atomKids18 soft (q + 1 + s.length + 1 + r.length + 1) rest

/-- the inline children `parseBlock` gives a paragraph of rich lines that starts at byte `p` -/
def richKids18 : Nat → List (List AAtom) → List Inl.Node
  | _, [] => []
  | p, [l] => atomKids18 false p l
  | p, l :: l' :: rest => atomKids18 true p l ++ richKids18 (p + (alineSrc l).length + 1) (l' :: rest)

/-- passes through `retry:` a line takes: one per text atom -/
def passes18 : List AAtom → Nat
  | [] => 0
  | .txt _ :: rest => passes18 rest + 1
  | .auto _ _ :: rest => passes18 rest

/-- the shape of (the rest of) a rich line as the byte loop sees it -/
inductive AT18 : List AAtom → Prop
  | last (bs l0 : Bytes) (c : UInt8) : bs = l0 ++ [c] → isSpace c = false → c ≠ 92 → quiet bs 0 false = true →
      AT18 [.txt bs]
  | cons (bs s r : Bytes) (rest : List AAtom) : bs ≠ [] → quiet bs 0 false = true → escAfter bs false = false →
      2 ≤ s.length → s.length ≤ 32 → (∀ c ∈ s, GM.Spec.CM.isLetter c = true) → (∀ c ∈ r, isAutoC18 c = true) →
      AT18 rest → AT18 (.txt bs :: .auto s r :: rest)

theorem alineSrc_single18 (bs : Bytes) : alineSrc [.txt bs] = bs := by simp [alineSrc, aatomSrc]

theorem alineSrc_cons18 (bs s r : Bytes) (rest : List AAtom) :
    alineSrc (.txt bs :: .auto s r :: rest) = bs ++ 60 :: (s ++ 58 :: (r ++ 62 :: alineSrc rest)) := by
  simp [alineSrc, aatomSrc]

theorem at_ne18 {as : List AAtom} (h : AT18 as) : alineSrc as ≠ [] := by
  cases h with
  | last bs l0 c hl _ _ _ => rw [alineSrc_single18, hl]; simp
  | cons bs s r rest hbs _ _ _ _ _ _ _ =>
    rw [alineSrc_cons18]
    cases bs with
    | nil => exact absurd rfl hbs
    | cons x xs => simp

theorem at_concat18 {as : List AAtom} (h : AT18 as) :
    ∃ l0 c, alineSrc as = l0 ++ [c] ∧ isSpace c = false ∧ c ≠ 92 := by
  induction h with
  | last bs l0 c hl hs hb hq => exact ⟨l0, c, by rw [alineSrc_single18, hl], hs, hb⟩
  | cons bs s r rest _ _ _ _ _ _ _ _ ih =>
    obtain ⟨l0, c, hl, hs, hb⟩ := ih
    exact ⟨bs ++ 60 :: (s ++ 58 :: (r ++ 62 :: l0)), c, by rw [alineSrc_cons18, hl]; simp, hs, hb⟩

theorem atomKids_cons18 (soft : Bool) (q : Nat) (bs s r : Bytes) (rest : List AAtom) :
    atomKids18 soft q (.txt bs :: .auto s r :: rest) =
      [.text { start := q, stop := ((q + bs.length : Nat) : Int) } false false false,
        .autoLink false { start := ((q + bs.length + 1 : Nat) : Int),
                          stop := ((q + bs.length + 1 + s.length + 1 + r.length : Nat) : Int) }] ++
      atomKids18 soft (q + bs.length + 1 + s.length + 1 + r.length + 1) rest := by
  simp [atomKids18]

theorem noMerge_atoms18 {as : List AAtom} (h : AT18 as) : ∀ (ks : List Inl.Node) (q : Nat),
    NoMerge8 (ks ++ atomKids18 true q as) := by
  induction h with
  | last bs l0 c hl hs hb hq => intro ks q; exact noMerge_soft8 ks _ _ _
  | cons bs s r rest _ _ _ _ _ _ _ _ ih =>
    intro ks q
    rw [atomKids_cons18, ← List.append_assoc]
    exact ih _ _

/-! ### one line -/

theorem at_tail18 {src : Bytes} {L : Int} {q : Nat} {e : Int} (bs s r tail : Bytes)
    (h : At16 src L q e (bs ++ 60 :: (s ++ 58 :: (r ++ 62 :: tail)))) :
    At16 src L (q + bs.length + 1 + s.length + 1 + r.length + 1) e tail :=
  (((((h.drop bs _).drop [60] _).drop s _).drop [58] _).drop r _).drop [62] _

theorem atoms_mid18 (env : Env) (henv : env.escapedSpace = false) (src : Bytes) (segs : List Segment) (L hd : Int)
    (j : Nat) (seg' : Segment) (nid : Nat) (bts : List Bottom) (hnext : segs[j + 1]? = some seg') :
    ∀ (as : List AAtom), AT18 as → ∀ (q : Nat) (e : Int) (ks : List Inl.Node) (fuel : Nat),
      At16 src L q e (alineSrc as ++ [10]) → NoMerge8 ks →
      lineLoop env (fuel + passes18 as) false
        { rd := rdAt src segs L j { start := q, stop := e } hd, kids := ks, nextId := nid, bottoms := bts } =
      lineLoop env fuel false
        { rd := rdAt src segs L (j + 1) seg' seg'.start, kids := ks ++ atomKids18 true q as,
          nextId := nid, bottoms := bts } := by
  intro as h
  induction h with
  | last bs l0 c hl hs hb hq =>
    intro q e ks fuel hat hnm
    rw [alineSrc_single18] at hat
    obtain ⟨h1, h2, h3, h4⟩ := hat
    simp only [List.length_append, List.length_cons, List.length_nil, Nat.zero_add] at h1 h2 h3
    have he : e = (q : Int) + bs.length + 1 := by omega
    subst he
    have := line_step8 env henv src segs L hd j q bs l0 c seg' ks nid bts fuel hl hs hb hq
      (by rw [← h1]; congr 1) (by omega) (by omega) hnext
    simp only [passes18, Nat.zero_add, atomKids18, Int.natCast_add]
    exact this
  | cons bs s r rest hbs hq hesc hs2 hs32 hsl hrc hrt ih =>
    intro q e ks fuel hat hnm
    have hj : ((j : Nat) : Int) < segs.length := by
      have := (List.getElem?_eq_some_iff.mp hnext).1; omega
    obtain ⟨l0, c, hl0, hs, hb⟩ := at_concat18 hrt
    have hat' : At16 src L q e (bs ++ 60 :: (s ++ 58 :: (r ++ 62 :: (alineSrc rest ++ [10])))) := by
      rw [alineSrc_cons18] at hat
      simpa using hat
    have hend : EndOK11 (alineSrc rest ++ [10]) := by rw [hl0]; exact endOK_lf11 l0 c hs hb
    have hstep := auto_step18 env henv src segs L j hd q bs s r (alineSrc rest ++ [10]) e ks nid bts
      (fuel + passes18 rest) hat' hj hend hbs hq hesc hs2 hs32 hsl hrc (by simp) hnm
    have hih := ih (q + bs.length + 1 + s.length + 1 + r.length + 1) e
      (ks ++ [.text { start := q, stop := ((q + bs.length : Nat) : Int) } false false false,
        .autoLink false { start := ((q + bs.length + 1 : Nat) : Int),
                          stop := ((q + bs.length + 1 + s.length + 1 + r.length : Nat) : Int) }]) fuel (at_tail18 bs s r _ hat')
      (by rw [show ∀ (a b : Inl.Node), ks ++ [a, b] = (ks ++ [a]) ++ [b] by simp]; exact noMerge_auto18 _ _ _)
    rw [show fuel + passes18 (.txt bs :: .auto s r :: rest) = fuel + passes18 rest + 1 by
      simp only [passes18]; omega, hstep, hih, atomKids_cons18]
    simp

theorem atoms_last18 (env : Env) (henv : env.escapedSpace = false) (src : Bytes) (segs : List Segment) (hd : Int)
    (j : Nat) (nid : Nat) (bts : List Bottom) (hjl : j + 1 = segs.length) :
    ∀ (as : List AAtom), AT18 as → ∀ (q : Nat) (L : Int) (ks : List Inl.Node) (fuel : Nat),
      At16 src L q L (alineSrc as) → NoMerge8 ks →
      ∃ rd', lineLoop env (fuel + passes18 as + 1) false
        { rd := rdAt src segs L j { start := q, stop := L } hd, kids := ks, nextId := nid, bottoms := bts } =
      .ok { rd := rd', kids := ks ++ atomKids18 false q as, nextId := nid, bottoms := bts } := by
  intro as h
  induction h with
  | last bs l0 c hl hs hb hq =>
    intro q L ks fuel hat hnm
    rw [alineSrc_single18] at hat
    obtain ⟨h1, h2, h3, h4⟩ := hat
    have he : L = (q : Int) + bs.length := by omega
    subst he
    have := last_step8 env henv src segs hd j q bs l0 c ks nid bts fuel hl hs hb hq h1 h2 hjl
    simp only [passes18, Nat.zero_add, atomKids18, Int.natCast_add]
    exact ⟨_, this⟩
  | cons bs s r rest hbs hq hesc hs2 hs32 hsl hrc hrt ih =>
    intro q L ks fuel hat hnm
    have hj : ((j : Nat) : Int) < segs.length := by omega
    obtain ⟨l0, c, hl0, hs, hb⟩ := at_concat18 hrt
    have hat' : At16 src L q L (bs ++ 60 :: (s ++ 58 :: (r ++ 62 :: alineSrc rest))) := by
      rw [alineSrc_cons18] at hat
      exact hat
    have hend : EndOK11 (alineSrc rest) := by rw [hl0]; exact endOK_nolf11 l0 c hs
    have hstep := auto_step18 env henv src segs L j hd q bs s r (alineSrc rest) L ks nid bts
      (fuel + passes18 rest + 1) hat' hj hend hbs hq hesc hs2 hs32 hsl hrc (at_ne18 hrt) hnm
    obtain ⟨rd', hih⟩ := ih (q + bs.length + 1 + s.length + 1 + r.length + 1) L
      (ks ++ [.text { start := q, stop := ((q + bs.length : Nat) : Int) } false false false,
        .autoLink false { start := ((q + bs.length + 1 : Nat) : Int),
                          stop := ((q + bs.length + 1 + s.length + 1 + r.length : Nat) : Int) }]) fuel (at_tail18 bs s r _ hat')
      (by rw [show ∀ (a b : Inl.Node), ks ++ [a, b] = (ks ++ [a]) ++ [b] by simp]; exact noMerge_auto18 _ _ _)
    refine ⟨rd', ?_⟩
    rw [show fuel + passes18 (.txt bs :: .auto s r :: rest) + 1 = fuel + passes18 rest + 1 + 1 by
      simp only [passes18]; omega, hstep, hih, atomKids_cons18]
    simp

/-! ### the whole paragraph -/

def need18 : List (List AAtom) → Nat
  | [] => 1
  | l :: rest => passes18 l + need18 rest

theorem loop_rich18 (env : Env) (henv : env.escapedSpace = false) (src : Bytes) (segs : List Segment) (L : Int)
    (nid : Nat) (bts : List Bottom) :
    ∀ (ls : List (List AAtom)) (p : Nat) (done : List Segment) (ks : List Inl.Node) (f : Nat), ls ≠ [] →
      (∀ l ∈ ls, AT18 l) → LinesAtE src p (ls.map alineSrc) → segs = done ++ paraSegs p (ls.map alineSrc) →
      L = (paraEnd p (ls.map alineSrc) : Nat) → NoMerge8 ks →
      ∃ rd', lineLoop env (f + need18 ls) false
        { rd := rdAt src segs L done.length ((paraSegs p (ls.map alineSrc)).headD default) p, kids := ks,
          nextId := nid, bottoms := bts } =
        .ok { rd := rd', kids := ks ++ richKids18 p ls, nextId := nid, bottoms := bts }
  | [], _, _, _, _, h, _, _, _, _, _ => absurd rfl h
  | [l], p, done, ks, f, _, hg, hla, hsegs, hL, hnm => by
    obtain ⟨hsub, hlen⟩ := hla
    have hL' : L = (p : Int) + (alineSrc l).length := by simp [hL, paraEnd]
    have hat : At16 src L p L (alineSrc l) := ⟨hsub, hlen, by rw [hL']; push_cast; rfl, Int.le_refl _⟩
    obtain ⟨rd', h⟩ := atoms_last18 env henv src segs p done.length nid bts (by simp [hsegs, paraSegs]) l (hg l (by simp))
      p L ks f hat hnm
    refine ⟨rd', ?_⟩
    have e1 : (paraSegs p ([l].map alineSrc)).headD default = { start := (p : Int), stop := L } := by
      rw [hL']; rfl
    rw [e1]
    have e2 : f + need18 [l] = f + passes18 l + 1 := by simp [need18]; omega
    rw [e2, h]
    rfl
  | l :: l' :: rest, p, done, ks, f, _, hg, hla, hsegs, hL, hnm => by
    obtain ⟨hsub, hlen, hla'⟩ := hla
    have hrt := hg l (by simp)
    have hpL : (p : Int) + (alineSrc l).length + 1 ≤ L := by
      have := paraEnd_ge ((l' :: rest).map alineSrc) (p + (alineSrc l).length + 1)
      simp only [List.map_cons, paraEnd] at hL this
      omega
    have hsegs' : segs = (done ++ [{ start := (p : Int), stop := (p : Int) + (alineSrc l).length + 1 }]) ++
        paraSegs (p + (alineSrc l).length + 1) ((l' :: rest).map alineSrc) := by
      rw [hsegs]; simp [paraSegs]
    have hnext : segs[done.length + 1]? =
        some ((paraSegs (p + (alineSrc l).length + 1) ((l' :: rest).map alineSrc)).headD default) := by
      rw [hsegs']
      rw [List.getElem?_append_right (by simp)]
      simp only [List.length_append, List.length_cons, List.length_nil, Nat.zero_add, Nat.sub_self]
      cases rest <;> rfl
    have hat : At16 src L p ((p : Int) + (alineSrc l).length + 1) (alineSrc l ++ [10]) :=
      ⟨by simpa [Nat.add_assoc] using hsub, by simpa [Nat.add_assoc] using hlen, by simp; omega, hpL⟩
    have hstep := atoms_mid18 env henv src segs L p done.length _ nid bts hnext l hrt p
      ((p : Int) + (alineSrc l).length + 1) ks (f + need18 (l' :: rest)) hat hnm
    obtain ⟨rd', ih⟩ := loop_rich18 env henv src segs L nid bts (l' :: rest) (p + (alineSrc l).length + 1)
      (done ++ [{ start := (p : Int), stop := (p : Int) + (alineSrc l).length + 1 }])
      (ks ++ atomKids18 true p l) f (by simp)
      (fun x hx => hg x (by simp at hx ⊢; right; exact hx)) hla' hsegs' (by rw [hL]; rfl) (noMerge_atoms18 hrt ks p)
    refine ⟨rd', ?_⟩
    have e1 : (paraSegs p ((l :: l' :: rest).map alineSrc)).headD default =
        { start := (p : Int), stop := (p : Int) + (alineSrc l).length + 1 } := rfl
    have e0 : f + need18 (l :: l' :: rest) = f + need18 (l' :: rest) + passes18 l := by
      simp only [need18]; omega
    rw [e1, e0, hstep]
    have e2 : ((done ++ [({ start := (p : Int), stop := (p : Int) + (alineSrc l).length + 1 } : Segment)]).length : Int) =
        (done.length : Int) + 1 := by
      simp
    rw [e2] at ih
    have e3 : ((paraSegs (p + (alineSrc l).length + 1) ((l' :: rest).map alineSrc)).headD default).start =
        ((p + (alineSrc l).length + 1 : Nat) : Int) := by
      cases rest <;> rfl
    rw [e3]
    rw [ih]
    simp [richKids18]

/-! ### rich lines have the shape `AT18` -/

theorem at_of_rich_aux18 : ∀ (as : List AAtom), aalternating as = true → (∃ bs rest, as = .txt bs :: rest) →
    (∃ bs, as.getLast? = some (.txt bs) ∧ ∀ c, bs.getLast? = some c → isSpace c = false ∧ c ≠ 92) →
    (∀ a ∈ as, AAtomOK a) → AT18 as
  | [], _, hf, _, _ => by obtain ⟨_, _, h⟩ := hf; simp at h
  | .auto _ _ :: _, _, hf, _, _ => by obtain ⟨_, _, h⟩ := hf; simp at h
  | [.txt bs], _, _, hl, hok => by
    obtain ⟨bs', hb', hc⟩ := hl
    simp at hb'; subst hb'
    obtain ⟨hne, hq, _⟩ := hok (.txt bs) (by simp)
    rcases List.eq_nil_or_concat bs with h0 | ⟨l0, c, hl⟩
    · exact absurd h0 hne
    · have hl' : bs = l0 ++ [c] := by simpa using hl
      have := hc c (by simp [hl'])
      exact .last bs l0 c hl' this.1 this.2 (hq 0)
  | .txt _ :: .txt _ :: _, ha, _, _, _ => by simp [aalternating, AAtom.isTxt] at ha
  | [.txt _, .auto _ _], _, _, hl, _ => by obtain ⟨_, h, _⟩ := hl; simp at h
  | .txt _ :: .auto _ _ :: .auto _ _ :: _, ha, _, _, _ => by simp [aalternating, AAtom.isTxt] at ha
  | .txt bs :: .auto s r :: .txt b' :: rest, ha, _, hl, hok => by
    obtain ⟨hne, hq, he⟩ := hok (.txt bs) (by simp)
    obtain ⟨⟨hs2, hs32, hsl⟩, _, hrc⟩ := hok (.auto s r) (by simp)
    refine .cons bs s r _ hne (hq 0) he hs2 hs32 hsl hrc
      (at_of_rich_aux18 (.txt b' :: rest) ?_ ⟨b', rest, rfl⟩ ?_ (fun a h => hok a (by simp at h ⊢; right; right; exact h)))
    · simp [aalternating, AAtom.isTxt] at ha ⊢; exact ha
    · obtain ⟨x, hx, hc⟩ := hl
      exact ⟨x, by simpa [List.getLast?_cons_cons] using hx, hc⟩

theorem at_of_rich18 {as : List AAtom} (h : ARichLine as) : AT18 as := by
  refine at_of_rich_aux18 as h.alt (by obtain ⟨bs, rest, he, _⟩ := h.first; exact ⟨bs, rest, he⟩) ?_ h.ok
  obtain ⟨init, bs, he, hc⟩ := h.last
  exact ⟨bs, by rw [he]; simp, hc⟩

/-! ### after the loop -/

def plain18 : Inl.Node → Bool
  | .text .. => true
  | .autoLink .. => true
  | _ => false

theorem processDelimiters_plain18 (ks : List Inl.Node) (h : ∀ n ∈ ks, plain18 n = true) :
    processDelimiters .nil ks = .ok ks := by
  unfold processDelimiters
  rw [splitLastDelim_noDelim11 ks (fun n hn => by have := h n hn; cases n <;> simp [plain18] at this <;> rfl)]

theorem closeLabelsL_plain18 : ∀ (ks : List Inl.Node), (∀ n ∈ ks, plain18 n = true) → closeLabelsL ks = ks
  | [], _ => by simp [closeLabelsL]
  | n :: rest, h => by
    have ih := closeLabelsL_plain18 rest (fun x hx => h x (by simp [hx]))
    have hn := h n (by simp)
    match n, hn with
    | .text .., _ => simp [closeLabelsL, closeLabels, ih]
    | .autoLink .., _ => simp [closeLabelsL, closeLabels, ih]

theorem atomKids_plain18 (soft : Bool) : ∀ (as : List AAtom) (q : Nat), ∀ n ∈ atomKids18 soft q as, plain18 n = true
  | [], _ => by simp [atomKids18]
  | [.txt bs], q => by simp [atomKids18, plain18]
  | .txt bs :: b :: rest, q => by
    have ih := atomKids_plain18 soft (b :: rest) (q + bs.length)
    simp only [atomKids18, List.mem_cons]
    rintro n (rfl | hn)
    · rfl
    · exact ih n hn
  | .auto s r :: rest, q => by
    have ih := atomKids_plain18 soft rest (q + 1 + s.length + 1 + r.length + 1)
    simp only [atomKids18, List.mem_cons]
    rintro n (rfl | hn)
    · rfl
    · exact ih n hn

theorem richKids_plain18 : ∀ (ls : List (List AAtom)) (p : Nat), ∀ n ∈ richKids18 p ls, plain18 n = true
  | [], _ => by simp [richKids18]
  | [l], p => atomKids_plain18 false l p
  | l :: l' :: rest, p => by
    intro n hn
    simp only [richKids18, List.mem_append] at hn
    rcases hn with hn | hn
    · exact atomKids_plain18 true l p n hn
    · exact richKids_plain18 (l' :: rest) _ n hn

/-! ### fuel -/

theorem passes_le18 {as : List AAtom} (h : AT18 as) : passes18 as ≤ (alineSrc as).length := by
  induction h with
  | last bs l0 c hl _ _ _ => rw [alineSrc_single18, hl]; simp [passes18]
  | cons bs s r rest _ _ _ _ _ _ _ _ ih => rw [alineSrc_cons18]; simp [passes18]; omega

theorem need_le18 (src : Bytes) : ∀ (ls : List (List AAtom)) (p : Nat), ls ≠ [] → (∀ l ∈ ls, AT18 l) →
    LinesAtE src p (ls.map alineSrc) → p + need18 ls ≤ src.length + 1
  | [], _, h, _, _ => absurd rfl h
  | [l], p, _, hg, hla => by
    have := passes_le18 (hg l (by simp))
    obtain ⟨_, hlen⟩ := hla
    simp only [need18]; omega
  | l :: l' :: rest, p, _, hg, hla => by
    have := passes_le18 (hg l (by simp))
    obtain ⟨_, _, hla'⟩ := hla
    have ih := need_le18 src (l' :: rest) _ (by simp) (fun x hx => hg x (by simp at hx ⊢; right; exact hx)) hla'
    simp only [need18] at ih ⊢; omega

/-- the inline phase on a paragraph of rich lines with URI autolinks -/
theorem parseBlock_rich18 (env : GM.Inl.Env) (henv : env.escapedSpace = false) (src : Bytes) (p : Nat)
    (ls : List (List AAtom)) (hne : ls ≠ []) (hg : ∀ l ∈ ls, ARichLine l) (h : LinesAtE src p (ls.map alineSrc)) :
    GM.Inl.parseBlock env src (paraSegs p (ls.map alineSrc)) = .ok (richKids18 p ls) := by
  have hrt : ∀ l ∈ ls, AT18 l := fun l hl => at_of_rich18 (hg l hl)
  have hne' : ls.map alineSrc ≠ [] := by simpa using hne
  have hfuel : need18 ls ≤ blockFuel src (paraSegs p (ls.map alineSrc)) := by
    have := need_le18 src ls p hne hrt h
    unfold blockFuel
    omega
  obtain ⟨f, hf⟩ : ∃ f, blockFuel src (paraSegs p (ls.map alineSrc)) = f + need18 ls :=
    ⟨_, (Nat.sub_add_cancel hfuel).symm⟩
  obtain ⟨rd', h⟩ := loop_rich18 env henv src (paraSegs p (ls.map alineSrc))
    (paraEnd p (ls.map alineSrc) : Nat) 0 [] ls p [] [] f hne hrt h rfl rfl noMerge_nil8
  unfold parseBlock
  simp only [bind, Except.bind, new_para _ (ls.map alineSrc) p hne']
  have h' : lineLoop env (blockFuel src (paraSegs p (ls.map alineSrc))) false
      { rd := rdAt src (paraSegs p (ls.map alineSrc)) (paraEnd p (ls.map alineSrc) : Nat) 0
          ((paraSegs p (ls.map alineSrc)).headD default) p } =
      .ok { rd := rd', kids := richKids18 p ls, nextId := 0, bottoms := [] } := by
    rw [hf]
    simpa using h
  rw [h']
  simp only [processDelimiters_plain18 _ (richKids_plain18 ls p), closeLabelsL_plain18 _ (richKids_plain18 ls p),
    pure, Except.pure]

/-! ### the renderer's nodes -/

theorem atomTrees18 (src : Bytes) (soft : Bool) : ∀ (as : List AAtom) (q : Nat),
    sub src q (q + (alineSrc as).length) = alineSrc as → q + (alineSrc as).length ≤ src.length →
    GM.Convert.inlineTrees src (atomKids18 soft q as) = .ok (aatomNodes soft as)
  | [], _, _, _ => by simp [atomKids18, aatomNodes, GM.Convert.inlineTrees, pure, Except.pure]
  | [.txt bs], q, h, hlen => by
    rw [alineSrc_single18] at h hlen
    simp [atomKids18, aatomNodes, GM.Convert.inlineTrees, GM.Convert.inlineTree, bind, Except.bind, pure, Except.pure,
      value_at8 src q bs h hlen _ _ rfl rfl]
  | .txt bs :: b :: rest, q, h, hlen => by
    have hs : alineSrc (.txt bs :: b :: rest) = [] ++ bs ++ alineSrc (b :: rest) := by simp [alineSrc, aatomSrc]
    have hs' : alineSrc (.txt bs :: b :: rest) = bs ++ alineSrc (b :: rest) ++ [] := by simp [alineSrc, aatomSrc]
    have h1 := sub_mid8 src q [] bs (alineSrc (b :: rest)) (by rw [← hs]; exact h)
    have h2 := sub_mid8 src q bs (alineSrc (b :: rest)) [] (by rw [← hs']; exact h)
    have hl : (alineSrc (.txt bs :: b :: rest)).length = bs.length + (alineSrc (b :: rest)).length := by
      rw [hs]; simp
    have ih := atomTrees18 src soft (b :: rest) (q + bs.length) h2 (by omega)
    simp only [List.length_nil, Nat.add_zero] at h1
    have hv : Segment.value { start := (q : Int), stop := ((q + bs.length : Nat) : Int) } src = .ok bs :=
      value_at8 src q bs h1 (by omega) _ _ rfl (by push_cast; rfl)
    simp only [atomKids18, aatomNodes, GM.Convert.inlineTrees, GM.Convert.inlineTree, bind, Except.bind, pure,
      Except.pure, hv, ih]
  | .auto s r :: rest, q, h, hlen => by
    have hs : alineSrc (.auto s r :: rest) = [60] ++ autoUri18 s r ++ (62 :: alineSrc rest) := by
      simp [alineSrc, aatomSrc, autoUri18]
    have hs' : alineSrc (.auto s r :: rest) = (60 :: (autoUri18 s r ++ [62])) ++ alineSrc rest ++ [] := by
      simp [alineSrc, aatomSrc, autoUri18]
    have h1 := sub_mid8 src q [60] (autoUri18 s r) (62 :: alineSrc rest) (by rw [← hs]; exact h)
    have h2 := sub_mid8 src q (60 :: (autoUri18 s r ++ [62])) (alineSrc rest) [] (by rw [← hs']; exact h)
    have hu : (autoUri18 s r).length = s.length + 1 + r.length := by simp [autoUri18]; omega
    have hl : (alineSrc (.auto s r :: rest)).length = 1 + s.length + 1 + r.length + 1 + (alineSrc rest).length := by
      rw [hs]; simp [hu]; omega
    have e1 : q + (60 :: (autoUri18 s r ++ [62])).length = q + 1 + s.length + 1 + r.length + 1 := by
      simp [hu]; omega
    rw [e1] at h2
    have ih := atomTrees18 src soft rest (q + 1 + s.length + 1 + r.length + 1) h2 (by omega)
    simp only [List.length_cons, List.length_nil, Nat.zero_add] at h1
    have hv : Segment.value { start := ((q + 1 : Nat) : Int), stop := ((q + 1 + s.length + 1 + r.length : Nat) : Int) } src =
        .ok (autoUri18 s r) :=
      value_at8 src (q + 1) (autoUri18 s r) h1 (by omega) _ _ rfl (by rw [hu]; push_cast; omega)
    simp only [atomKids18, aatomNodes, GM.Convert.inlineTrees, GM.Convert.inlineTree, bind, Except.bind, pure,
      Except.pure, hv, ih]

theorem inlineTrees_richAux18 (src : Bytes) : ∀ (p : Nat) (ls : List (List AAtom)),
    LinesAtE src p (ls.map alineSrc) → GM.Convert.inlineTrees src (richKids18 p ls) = .ok (arichNodes ls)
  | _, [], _ => by simp [richKids18, arichNodes, GM.Convert.inlineTrees, pure, Except.pure]
  | p, [l], h => by
    obtain ⟨hsub, hlen⟩ := h
    exact atomTrees18 src false l p hsub hlen
  | p, l :: l' :: rest, h => by
    obtain ⟨hsub, hlen, h'⟩ := h
    have hsub' := sub_prefix src p (alineSrc l).length (alineSrc l) 10 rfl hsub
    exact inlineTrees_append8 src _ _ _ _ (atomTrees18 src true l p hsub' (by omega))
      (inlineTrees_richAux18 src _ (l' :: rest) h')

/-- the renderer's nodes of the children of a paragraph of rich lines with autolinks (`hg` is not needed) -/
theorem inlineTrees_rich18 (src : Bytes) (p : Nat) (ls : List (List AAtom)) (_hg : ∀ l ∈ ls, ARichLine l)
    (h : LinesAtE src p (ls.map alineSrc)) :
    GM.Convert.inlineTrees src (richKids18 p ls) = .ok (arichNodes ls) :=
  inlineTrees_richAux18 src p ls h

end GM.Proof.CMFrag
