/-
  GM.Proof.CMFrag7Leaf — stage 7 (a missing final line feed): the leaf parsers on a LAST line that has no line feed
  (thematic break, ATX heading, closing fence), `openBlocks` at the end of the source, and the per-line loop on such a
  closing fence.
-/
import GM.Proof.CMFrag7Defs

namespace GM.Proof.CMFrag
open GM GM.Text GM.Blocks GM.Spec

/-! ### X2: thematic break without a line feed -/

theorem tbLoop_runE (ch : UInt8) (hch : hrChar ch) : ∀ (m cnt : Nat),
    tbLoop (List.replicate m ch) ch cnt = decide (cnt + m > 2)
  | 0, cnt => by simp [tbLoop]
  | m + 1, cnt => by
    have ih := tbLoop_runE ch hch m (cnt + 1)
    have hsp : isSpace ch = false := by rcases hch with h | h | h <;> subst h <;> decide
    have h0 : (ch == 0) = false := by rcases hch with h | h | h <;> subst h <;> decide
    simp only [List.replicate_succ, tbLoop, hsp, h0, Bool.false_eq_true, if_false, bne_self_eq_false, ih]
    congr 1
    simp only [eq_iff_iff]; omega

theorem isThematic_hrE (ch : UInt8) (hch : hrChar ch) (n : Nat) :
    isThematicBreak (List.replicate (n + 3) ch) 0 = true := by
  have hsp : (ch == 32) = false ∧ (ch == 9) = false ∧ isSpace ch = false ∧ (ch == 42 || ch == 45 || ch == 95) = true := by
    rcases hch with h | h | h <;> subst h <;> decide
  obtain ⟨h32, h9, hs, hset⟩ := hsp
  have hiw : indentWidthI (List.replicate (n + 3) ch) 0 = (0, 0) := by
    simp only [List.replicate_succ]
    unfold GM.Blocks.indentWidthI GM.Blocks.indentWidthGo; simp [h32, h9]
  unfold isThematicBreak
  simp only [hiw]
  have e : (List.replicate (n + 3) ch).drop (0 : Int).toNat = ch :: List.replicate (n + 2) ch := by
    simp [List.replicate_succ]
  rw [e]
  have := tbLoop_runE ch hch (n + 2) 1
  simp only [tbLoop, hs, hset, Bool.false_eq_true, if_false, beq_self_eq_true, if_true, this]
  simp; omega

theorem thematicOpen_hrE {src : Bytes} {p e : Nat} {v : Bytes} (hl : Ln src p e v) (ch : UInt8) (hch : hrChar ch) (n : Nat)
    (hv : v = List.replicate (n + 3) ch) (k : Int) (nodes : List Blocks.Node) (pc : Ctx) (parent : Nat) :
    thematicOpen parent ⟨rdr src k p p e (some v) 0, nodes, pc⟩ =
      .ok ((some nodes.length, stNoChildren),
        ⟨rdr src k p (e - 1) e none (-1), nodes ++ [{ kind := .thematicBreak }], pc⟩) := by
  have hp : p < src.length := by have := hl.le; have := hl.lt; omega
  have hth : isThematicBreak v 0 = true := by rw [hv]; exact isThematic_hrE ch hch n
  unfold thematicOpen
  simp only [bind_apply, peekLine_cached hp, lineOffset_cached, Option.getD_some, hth, if_true]
  have hlen := hl.len
  have hlt := hl.lt
  rw [stAdvance_fast (m := e - p - 1) (by simp [Segment.len, sg]; omega) (by omega)]
  have e3 : p + (e - p - 1) = e - 1 := by omega
  simp [newNode_run, pure_apply, e3]

/-! ### X1: ATX heading without a line feed -/

theorem atxOpen_atxE {src : Bytes} {p e : Nat} {v : Bytes} (hl : Ln src p e v) (level : Nat) (l : Bytes)
    (hv : v = List.replicate level 35 ++ 32 :: l) (h1 : 1 ≤ level) (h6 : level ≤ 6)
    (hb : BlkLine l) (hlast : ∀ c, l.getLast? = some c → c ≠ 35) (k : Int) (nodes : List Blocks.Node) (pc : Ctx)
    (hoff : pc.blockOffset = 0) (parent : Nat) :
    atxOpen parent ⟨rdr src k p p e (some v) 0, nodes, pc⟩ =
      .ok ((some nodes.length, stNoChildren),
        ⟨rdr src k p p e (some v) 0,
          nodes ++ [{ kind := .heading, level := (level : Int), lines := [sg (p + level + 1) e], linesNil := false }], pc⟩) := by
  obtain ⟨c, t, hlc, hc⟩ := hb.first
  obtain ⟨h32, h9, h10, hsp, htr, hbr⟩ := letter_facts c hc
  have hp : p < src.length := by have := hl.le; have := hl.lt; omega
  have hscan := scan_atx level l
  have hsl := sliceFrom_atx level l
  rw [← hv] at hscan hsl
  have hvl : v.length = level + 1 + l.length := by rw [hv]; simp; omega
  unfold atxOpen
  simp only [bind_apply, peekLine_cached hp, getPc_run, hoff, Option.getD_some, hscan]
  have c0 : ¬ ((0 : Int) < 0) := by omega
  have c1 : (((level : Int) == 0) || decide ((level : Int) - 0 > 6)) = false := by
    simp; omega
  have c2 : ((level : Int) == (v.length : Int)) = false := by
    simp; omega
  have hs32 : isSpace 32 = true := by decide
  have htl : trimLeftSpaceLength (32 :: l) = 1 := by
    subst hlc
    simp [trimLeftSpaceLength, List.takeWhile, hsp, hs32]
  have hne : l ≠ [] := by rw [hlc]; simp
  have hlastsp : isSpace (l.getLast hne) = false := hb.lastNoSpace _ (List.getLast?_eq_some_getLast hne)
  have hlast35 : l.getLast hne ≠ 35 := hlast _ (List.getLast?_eq_some_getLast hne)
  have hrev : l.reverse = l.getLast hne :: l.dropLast.reverse := by
    conv => lhs; rw [← List.dropLast_concat_getLast hne]
    simp
  have htrr : trimRightSpaceLength v = 0 := by
    rw [hv]
    unfold trimRightSpaceLength
    simp [hrev, hlastsp]
  have e1 : ((1 : Nat) : Int) = 1 := rfl
  have e0 : ((0 : Nat) : Int) = 0 := rfl
  have hll : 1 ≤ l.length := by rw [hlc]; simp
  have cs : ¬ ((level : Int) + 1 ≥ (v.length : Int)) := by omega
  have etn : ((v.length : Int)).toNat = (level + l.length) + 1 := by omega
  have c3 : (((1 : Int) == 0) = true) = False := by simp
  simp only [c0, if_false, c1, Bool.false_eq_true, c2, bind_apply, hsl, liftE_ok, htl]
  simp only [e1, e0, htrr, Int.sub_zero, cs, if_false, etn, c3, bind_apply, newNode_run]
  have hidx : idx v ((level + l.length : Nat) : Int) = .ok (l.getLast hne) := by
    have ev : v = (List.replicate level 35 ++ 32 :: l.dropLast) ++ l.getLast hne :: [] := by
      rw [hv]
      conv => lhs; rw [← List.dropLast_concat_getLast hne]
      simp
    rw [ev]
    apply idx_atx
    simp; omega
  have h35 : (l.getLast hne == 35) = false := by simp [hlast35]
  have hback : atxBackLoop v ((level : Int) + 1) (level + l.length + 1) = .ok ((level + l.length : Nat) : Int) := by
    rw [atxBackLoop]
    simp only [hidx, bind, Except.bind, h35, Bool.false_and, Bool.false_eq_true, if_false, pure, Except.pure]
  have cne : ((((level + l.length : Nat) : Int) != (v.length : Int) - 1) && !isSpace (l.getLast hne)) = false := by
    have : ((level + l.length : Nat) : Int) = (v.length : Int) - 1 := by omega
    simp [this]
  have hslice : slice v ((level : Int) + 1) (((level + l.length : Nat) : Int) + 1) = .ok l := by
    have c : (0 ≤ (level : Int) + 1 ∧ (level : Int) + 1 ≤ ((level + l.length : Nat) : Int) + 1 ∧
        ((level + l.length : Nat) : Int) + 1 ≤ (v.length : Int)) := by omega
    unfold slice sliceB
    rw [if_pos c]
    have ev : v = (List.replicate level 35 ++ [32]) ++ (l ++ []) := by rw [hv]; simp
    have t1 : ((level : Int) + 1).toNat = (List.replicate level (35 : UInt8) ++ [32]).length := by simp
    have t2 : (((level + l.length : Nat) : Int) + 1).toNat = (List.replicate level (35 : UInt8) ++ [32]).length + l.length := by
      simp; omega
    rw [t1, t2, ev, sub_body]
  have hdw : ((List.dropWhile (fun x => x == 35) l.reverse).length != 0) = true := by
    rw [hrev]; simp [List.dropWhile, h35]
  simp only [hback, liftE_ok, hidx, pure_apply, cne, Bool.false_eq_true, if_false, hslice, hdw, if_true, bind_apply,
    appendLine, modNode_run]
  have hseg : Segment.mk ((sg p e).start + ((level : Int) + 1) - (sg p e).padding)
        ((sg p e).start + (((level + l.length : Nat) : Int) + 1) - (sg p e).padding) 0 false =
      sg (p + level + 1) e := by
    have := hl.len; have := hl.lt
    simp only [sg, Segment.mk.injEq, and_true]
    omega
  rw [hseg]
  simp [List.getD, List.set_append_right]

/-! ### X3: closing fence without a line feed, at the end of the source -/

/-- the slow loop of `Advance` over bytes that are not line feeds -/
theorem advanceLoop_runE (src : Bytes) (k : Int) (h e : Nat) : ∀ (m p : Nat), p + m ≤ src.length →
    (∀ i, p ≤ i → i < p + m → ∃ c, src[i]? = some c ∧ c ≠ 10) →
    Reader.advanceLoop (rdr src k h p e none (-1)) m = .ok (rdr src k h (p + m) e none (-1))
  | 0, p, _, _ => rfl
  | m + 1, p, hle, hb => by
    obtain ⟨c, hc, hc10⟩ := hb p (Nat.le_refl _) (by omega)
    have ih := advanceLoop_runE src k h e m (p + 1) (by omega) (fun i h1 h2 => hb i (by omega) (by omega))
    have c1 : (p : Int) < (src.length : Int) := by omega
    have c10 : (c == 10) = false := by simp [hc10]
    have c0 : ¬ ((p : Int) < 0) := by omega
    have e1 : p + 1 + m = p + (m + 1) := by omega
    rw [e1] at ih
    rw [← ih]
    rw [Reader.advanceLoop]
    simp [rdr, Reader.sourceLength, c1, getByte, c0, hc, c10, bind, Except.bind]

theorem sub_getE {src : Bytes} {p e : Nat} {v : Bytes} (hsub : sub src p e = v) (i : Nat) (h1 : p ≤ i) (h2 : i < e) :
    src[i]? = v[i - p]? := by
  subst hsub
  unfold sub
  rw [List.getElem?_take]
  have : i - p < e - p := by omega
  simp [this]
  congr 1; omega

/-- `Advance(n)` over the whole peeked line, which has no line feed -/
theorem stAdvance_slowE {src : Bytes} {p e : Nat} {v : Bytes} (hl : Ln src p e v) (hnl : ∀ c ∈ v, c ≠ 10) {n : Int}
    (hn : n = ((e - p : Nat) : Int)) (k h lo nodes pc) :
    advance n ⟨rdr src k h p e (some v) lo, nodes, pc⟩ = .ok ((), ⟨rdr src k h e e none (-1), nodes, pc⟩) := by
  subst hn
  have hlen := hl.len
  have hlt := hl.lt
  have hle := hl.le
  have c : ¬ (((e - p : Nat) : Int) < (v.length : Int)) := by omega
  have hloop := advanceLoop_runE src k h e (e - p) p (by omega) (by
    intro i h1 h2
    have hg := sub_getE hl.sub i h1 (by omega)
    have hi : i - p < v.length := by omega
    refine ⟨v[i - p], ?_, hnl _ (List.getElem_mem hi)⟩
    rw [hg]; exact List.getElem?_eq_getElem hi)
  have e1 : p + (e - p) = e := by omega
  rw [e1] at hloop
  simp [advance, Reader.advance, rdr, c, bind, Except.bind, pure, Except.pure] at hloop ⊢
  rw [hloop]

theorem fencedContinue_closeE {src : Bytes} {p e : Nat} {v : Bytes} (hl : Ln src p e v) (he : e = src.length)
    (fc : UInt8) (hfc : fc = 96 ∨ fc = 126) (n : Nat) (hv : v = List.replicate (n + 3) fc) (k : Int)
    (nodes : List Blocks.Node) (pc : Ctx) (node : Nat) (hfd : pc.fence = some (fdOf fc n node)) :
    fencedContinue node ⟨rdr src k p p e (some v) (-1), nodes, pc⟩ =
      .ok (stClose, ⟨rdr src k p e e none (-1), nodes, pc⟩) := by
  have hp : p < src.length := by have := hl.le; have := hl.lt; omega
  have hfacts : (fc == 32) = false ∧ (fc == 9) = false ∧ fc ≠ 10 := by rcases hfc with h | h <;> subst h <;> decide
  have hiw : indentWidthI v 0 = (0, 0) := by
    rw [hv]; simp only [List.replicate_succ]
    unfold GM.Blocks.indentWidthI GM.Blocks.indentWidthGo; simp [hfacts.1, hfacts.2.1]
  have hcl : ∀ m : Nat, countLeading fc (List.replicate m fc) = m := by
    intro m
    induction m with
    | zero => simp [countLeading]
    | succ m ih => simp only [countLeading, List.replicate_succ, List.takeWhile, beq_self_eq_true,
        List.length_cons] at ih ⊢; rw [ih]
  have hscan : scanWhileEq v fc 0 = ((n + 3 : Nat) : Int) := by
    rw [hv]; simp only [scanWhileEq, show ¬ ((0 : Int) < 0) from by decide, if_false, Int.toNat_zero, List.drop_zero, hcl]
    simp
  have hlenv := hl.len
  have hlt := hl.lt
  have hvl : v.length = n + 3 := by rw [hv]; simp
  have hsl : sliceFrom v ((n + 3 : Nat) : Int) = .ok [] := by
    rw [hv]
    have c : (0 ≤ ((n + 3 : Nat) : Int) ∧ ((n + 3 : Nat) : Int) ≤ ((List.replicate (n + 3) fc).length : Int)) := by
      simp; omega
    simp only [sliceFrom, c, Int.toNat_natCast]
    simp
  have hlast : idx v ((v.length : Int) - 1) = .ok fc := by
    rw [hvl, hv]
    have : (((n + 3 : Nat) : Int) - 1) = ((n + 2 : Nat) : Int) := by omega
    rw [this]
    have c : ¬ (((n + 2 : Nat) : Int) < 0) := by omega
    simp only [idx, getByte, c, if_false, Int.toNat_natCast]
    have : (List.replicate (n + 3) fc)[n + 2]? = some fc := by simp
    rw [this]
  have hnl : ∀ c ∈ v, c ≠ 10 := by
    intro c hc; rw [hv] at hc; rw [(List.mem_replicate.mp hc).2]; exact hfacts.2.2
  unfold fencedContinue
  simp only [bind_apply, peekLine_cached hp, getPc_run, hfd, pure_apply, lineOffset_fresh, Option.getD_some, hiw, hscan, fdOf]
  have c1 : ((n + 3 : Nat) : Int) - 0 ≥ ((n + 3 : Nat) : Int) := by omega
  have hib : isBlank [] = true := by decide
  have hne10 : (fc != 10) = true := by simp [hfacts.2.2]
  simp only [show ((0 : Int) < 4) from by decide, if_true, c1, hsl, liftE_ok, bind_apply, hib, hlast]
  have hpad : (sg p e).padding = 0 := rfl
  have hst : (sg p e).start = (p : Int) := rfl
  have hsp : (sg p e).stop = (e : Int) := rfl
  simp only [hne10, if_true, hpad, hst, hsp]
  rw [stAdvance_slowE hl hnl (by omega)]
  simp [pure_apply]

/-! ### X4: `openBlocks` at the end of the source with one non-paragraph block open -/

theorem openBlocks_eofE {src : Bytes} {h p e : Nat} (hp : src.length ≤ p) (hhp : h ≤ p) (hpl : p ≤ src.length) (k : Int) (nodes : List Blocks.Node)
    (pi : Nat) (pbp : BP) (hk : ((nodes.getD pi default).kind == .paragraph) = false) (pc : Ctx)
    (hop : pc.opened = [{ node := pi, bp := pbp }]) (blank : Bool) :
    ∃ lo' : Int, openBlocksT pts 0 blank ⟨rdr src k h p e none (-1), nodes, pc⟩ =
      .ok (.noBlocksOpened, ⟨rdr src k h p e none lo', nodes, { pc with blockOffset := -1, blockIndent := -1 }⟩) := by
  obtain ⟨lo', hlo⟩ := lineOffset_any (src := src) (h := h) (p := p) hhp hpl k e none nodes pc
  refine ⟨lo', ?_⟩
  unfold openBlocksT
  simp only [bind_apply, lastOpenedBlock_run, hop, List.getLast?_singleton, pure_apply, source_run, retryFuel,
    getNode_run, hk]
  rw [openBlocksLoopT]
  have hiw : ∀ lo : Int, indentWidthI [] lo = (0, 0) := by
    intro lo; unfold GM.Blocks.indentWidthI GM.Blocks.indentWidthGo; rfl
  simp only [bind_apply, peekLine_eof hp, Option.getD_none, hlo, hiw]
  simp [modPc_run, toContinuable, pure_apply, hop]

/-! ### X5: the per-line loop on a closing fence without a line feed: the block is closed -/

theorem lineLoop_fence_closeE {src : Bytes} {p e : Nat} {v : Bytes} (hl : Ln src p e v) (he : e = src.length)
    (fc : UInt8) (hfc : fc = 96 ∨ fc = 126) (n : Nat) (hv : v = List.replicate (n + 3) fc) (k : Int) (d : Blocks.Node)
    (rest : List Blocks.Node) (x : Blocks.Node) (hk : x.kind = .fencedCodeBlock) (hpar : x.parent = some 0) (pc : Ctx)
    (hfd : pc.fence = some (fdOf fc n (rest.length + 1)))
    (hop : pc.opened = [{ node := rest.length + 1, bp := .fenced }]) (bl : List LineStat) :
    ∃ lo' : Int,
    lineLoopT pts 0 [{ node := rest.length + 1, bp := .fenced }] 0 [{ node := rest.length + 1, bp := .fenced }] 0 bl
        ⟨rdr src k p p e none (-1), d :: (rest ++ [x]), pc⟩ =
      .ok ((.next, bl ++ [{ lineNum := k, level := 0, isBlank := isBlank v }]),
        ⟨rdr src k p e e none lo', d :: (rest ++ [x]),
          { pc with blockOffset := -1, blockIndent := -1, opened := [], fence := none }⟩) := by
  have hp : p < src.length := by have := hl.le; have := hl.lt; omega
  have hlt := hl.lt
  have hle := hl.le
  have hk1 : (x.kind != .paragraph) = true := by rw [hk]; rfl
  have hk2 : (((d :: (rest ++ [x])).getD (rest.length + 1) default).kind == .paragraph) = false := by
    rw [getD_last, hk]; rfl
  obtain ⟨lo', hob'⟩ := openBlocks_eofE (src := src) (h := p) (p := e) (e := e) (by omega) (by omega) hle k
    (d :: (rest ++ [x])) (rest.length + 1) .fenced hk2 pc hop
    (isBlankLine (k - 1) 0 (bl ++ [{ lineNum := k, level := 0, isBlank := isBlank v }]))
  refine ⟨lo', ?_⟩
  rw [lineLoopT]
  simp only [bind_apply, peekLine_fresh hl.sub hp (Nat.le_of_lt hl.lt) hl.le, position_run, getNode_run, getD_last, hk1,
    if_true, bpContinue, fencedContinue_closeE hl he fc hfc n hv k _ pc _ hfd, stClose]
  simp [liftE_ok, rdr_line, hob', pure_apply, getPc_run, hop, slotAfter, bind_apply, map_apply, blockAt]
  rw [closeBlocks_fence _ d rest x hk hpar
    { pc with blockOffset := -1, blockIndent := -1, opened := [{ node := rest.length + 1, bp := .fenced }] } fc n hfd rfl]

end GM.Proof.CMFrag
