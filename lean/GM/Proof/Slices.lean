import GM.Model.Slices

namespace GM.Slices
open GM

/-- `h'` extends `h0` without touching anything that existed in `h0`: old arrays are bit-identical and every
    new store hit an array allocated after `h0` -/
structure Extends (h0 h' : Heap) : Prop where
  len : h0.arrs.length ≤ h'.arrs.length
  old : ∀ i, i < h0.arrs.length → h'.arrs[i]? = h0.arrs[i]?
  st : ∃ new, h'.stores = new ++ h0.stores ∧ ∀ id ∈ new, h0.arrs.length ≤ id

theorem Extends.refl (h : Heap) : Extends h h :=
  ⟨Nat.le_refl _, fun _ _ => rfl, ⟨[], by simp, by simp⟩⟩

theorem extends_alloc (h0 h : Heap) (e : Extends h0 h) (init : Bytes) (cap : Nat) :
    Extends h0 (alloc h init cap).1 ∧ (alloc h init cap).2.arr = h.arrs.length := by
  refine ⟨⟨?_, ?_, ?_⟩, rfl⟩
  · simp [alloc]; have := e.len; omega
  · intro i hi
    have hl := e.len
    simp only [alloc]
    rw [List.getElem?_append_left (by omega)]
    exact e.old i hi
  · exact e.st

theorem extends_append (grow : Nat → Nat) (h0 h : Heap) (e : Extends h0 h) (s : Slice) (v : Bytes)
    (hs : h0.arrs.length ≤ s.arr) :
    Extends h0 (append grow h s v).1 ∧ h0.arrs.length ≤ (append grow h s v).2.arr := by
  unfold append
  split
  · exact ⟨e, hs⟩
  · split
    · refine ⟨⟨?_, ?_, ?_⟩, hs⟩
      · simp; exact e.len
      · intro i hi
        simp only
        rw [List.getElem?_set_ne (by omega)]
        exact e.old i hi
      · obtain ⟨new, hn, hall⟩ := e.st
        refine ⟨s.arr :: new, by simp [hn], ?_⟩
        intro id hid
        rcases List.mem_cons.mp hid with rfl | h'
        · exact hs
        · exact hall id h'
    · have := extends_alloc h0 h e (h.read s ++ v) (grow (s.len + v.length))
      refine ⟨this.1, ?_⟩
      rw [this.2]; exact e.len

/-- invariant of a copy-on-write buffer created over slice `s` in heap `h0` -/
def CowInv (h0 : Heap) (s : Slice) (hc : Heap × Cow) : Prop :=
  Extends h0 hc.1 ∧ (hc.2.copied = false → hc.2.buf = s ∧ hc.1 = h0) ∧
    (hc.2.copied = true → h0.arrs.length ≤ hc.2.buf.arr)

theorem cowInv_step (grow : Nat → Nat) (h0 : Heap) (s : Slice) (hc : Heap × Cow) (op : CowOp)
    (inv : CowInv h0 s hc) : CowInv h0 s (cowStep grow hc op) := by
  obtain ⟨h, c⟩ := hc
  obtain ⟨e, hnc, hcp⟩ := inv
  cases op with
  | write v =>
    simp only [cowStep]
    cases hcop : c.copied with
    | false =>
      simp only [Bool.not_false, if_true]
      have a := extends_alloc h0 h e [] (c.buf.len + 20)
      have b := extends_append grow h0 _ a.1 (alloc h [] (c.buf.len + 20)).2 v (by rw [a.2]; exact e.len)
      exact ⟨b.1, by simp, fun _ => b.2⟩
    | true =>
      simp only [Bool.not_true, Bool.false_eq_true, if_false]
      have b := extends_append grow h0 h e c.buf v (hcp hcop)
      exact ⟨b.1, by simp [hcop], fun _ => b.2⟩
  | append v =>
    simp only [cowStep]
    cases hcop : c.copied with
    | false =>
      simp only [Bool.not_false, if_true]
      have a := extends_alloc h0 h e (h.read c.buf) (c.buf.len + 20)
      have b := extends_append grow h0 _ a.1 (alloc h (h.read c.buf) (c.buf.len + 20)).2 v (by rw [a.2]; exact e.len)
      exact ⟨b.1, by simp, fun _ => b.2⟩
    | true =>
      simp only [Bool.not_true, Bool.false_eq_true, if_false]
      have b := extends_append grow h0 h e c.buf v (hcp hcop)
      exact ⟨b.1, by simp [hcop], fun _ => b.2⟩

theorem cowInv_run (grow : Nat → Nat) (h0 : Heap) (s : Slice) (ops : List CowOp) :
    CowInv h0 s (cowRun grow h0 s ops) := by
  unfold cowRun
  have start : CowInv h0 s (h0, newCow s) := ⟨Extends.refl h0, fun _ => ⟨rfl, rfl⟩, fun h => by simp [newCow] at h⟩
  generalize (h0, newCow s) = hc at start
  induction ops generalizing hc with
  | nil => simpa using start
  | cons op rest ih => simpa using ih _ (cowInv_step grow h0 s hc op start)

theorem extends_segValue (grow : Nat → Nat) (h0 : Heap) (src : Slice) (start stop padding : Nat) (fn : Bool)
    (hsrc : src.arr < h0.arrs.length) :
    Extends h0 (segValue grow h0 src start stop padding fn).1 := by
  unfold segValue
  simp only
  split
  · -- padding = 0: the result aliases the source; a forced newline goes to a clipped slice
    split
    · -- append onto a slice whose capacity equals its length: always a fresh array
      rename_i hcond
      unfold append
      simp only [Slice.clip]
      split
      · exact Extends.refl _
      · have hno : ¬ (stop - start + 1 ≤ stop - start) := by omega
        simp only [List.length_singleton, hno, if_false]
        exact (extends_alloc h0 h0 (Extends.refl _) _ _).1
    · exact Extends.refl _
  · -- padding > 0: everything happens in a fresh array
    have a := extends_alloc h0 h0 (Extends.refl _) (List.replicate padding 32) (padding + stop - start + 1)
    have b := extends_append grow h0 _ a.1 (alloc h0 (List.replicate padding 32) (padding + stop - start + 1)).2
      (h0.read { src with off := src.off + start, len := stop - start }) (by rw [a.2]; exact Nat.le_refl _)
    split
    · have c := extends_append grow h0 _ b.1
        (append grow (alloc h0 (List.replicate padding 32) (padding + stop - start + 1)).1
          (alloc h0 (List.replicate padding 32) (padding + stop - start + 1)).2
          (h0.read { src with off := src.off + start, len := stop - start })).2.clip [10] (by simpa [Slice.clip] using b.2)
      exact c.1
    · exact b.1

end GM.Slices
