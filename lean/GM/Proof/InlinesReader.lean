/-
  GM.Proof.InlinesReader — the block reader as the inline phase uses it: lines without padding (what the block
  parsers hand over for inline-bearing blocks), every call expressed through the cursor `BCur` of GM.Spec.Cursor
  and pkg-reader's refinement lemmas (GM.Proof.BlockReader): a call inside the preconditions cannot panic, the
  number of bytes in front of the cursor (`remaining`) goes down by what was consumed, byte offsets never go back.
-/
import GM.Proof.BlockReader
import GM.Model.InlinesLoop

namespace GM.Proof.InlinesReader
open GM GM.Text GM.Spec GM.Proof.Reader

/-- well-formed lines of an inline-bearing block: `WFSegs` and no virtual padding -/
def WF0 (src : Bytes) (segs : List Segment) : Prop := WFSegs src segs ∧ ∀ s ∈ segs, s.padding = 0

variable {src : Bytes} {segs : List Segment}

/-- the reader `r` stands for the padding-free cursor `c` -/
structure RS (src : Bytes) (segs : List Segment) (r : BlockReader) (c : BCur) : Prop where
  abs : BAbs src segs r c
  pad : c.pad = 0

theorem segOf_pad (F : SegFacts src segs) (Z : ∀ s ∈ segs, s.padding = 0) (ln : Int) (h0 : 0 ≤ ln) (h1 : ln < BCur.k segs) :
    (BCur.segOf segs ln).padding = 0 := by
  have := F.get ln h0 h1
  exact Z _ (List.mem_of_getElem? this)

/-- bytes in front of the cursor, as a natural number -/
def rem (segs : List Segment) (c : BCur) : Nat := (BCur.remaining segs c).toNat

theorem viewsLen_nonneg (F : SegFacts src segs) : ∀ (n : Nat), 0 ≤ BCur.viewsLen (segs.drop n) := by
  intro n
  have : ∀ (l : List Segment), (∀ s ∈ l, s.start < s.stop ∧ 0 ≤ s.padding) → 0 ≤ BCur.viewsLen l := by
    intro l
    induction l with
    | nil => intro _; simp [BCur.viewsLen]
    | cons a r ih =>
      intro h
      have h1 := h a (by simp)
      have h2 := ih (fun s hs => h s (by simp [hs]))
      simp only [BCur.viewsLen]; omega
  apply this
  intro s hs
  have hm : s ∈ segs := List.mem_of_mem_drop hs
  obtain ⟨i, hi, he⟩ := List.getElem_of_mem hm
  have hk : (i : Int) < BCur.k segs := by simp [BCur.k]; omega
  have g := F.get i (by omega) hk
  have r := F.rng i (by omega) hk
  simp only [Int.toNat_natCast] at g
  rw [List.getElem?_eq_getElem hi, he] at g
  simp at g
  rw [← g] at r
  exact ⟨r.2.1, r.2.2.2.1⟩

theorem remaining_nonneg (F : SegFacts src segs) {c : BCur} (w : BWF segs c) : 0 ≤ BCur.remaining segs c := by
  unfold BCur.remaining
  split
  · rename_i hl
    simp only [BCur.live, Bool.and_eq_true, decide_eq_true_eq] at hl
    have i1 := w.inLine hl.1
    have v := viewsLen_nonneg F (c.ln.toNat + 1)
    have : BCur.stopOf segs c = (BCur.segOf segs c.ln).stop := by simp [BCur.stopOf, hl.1]
    have := w.pad0
    omega
  · omega

/-- one byte forward: still well-formed, no padding, one byte less in front, offsets do not go back -/
theorem adv1_facts (F : SegFacts src segs) (Z : ∀ s ∈ segs, s.padding = 0) {c : BCur} (w : BWF segs c) (hz : c.pad = 0)
    (hl : BCur.live segs c = true) :
    BWF segs (BCur.adv1 segs c) ∧ (BCur.adv1 segs c).pad = 0 ∧
    BCur.remaining segs (BCur.adv1 segs c) = BCur.remaining segs c - 1 ∧
    c.ln ≤ (BCur.adv1 segs c).ln ∧ c.p < (BCur.adv1 segs c).p ∧ (BCur.adv1 segs c).ln < BCur.k segs := by
  obtain ⟨r1, r2⟩ := rem_adv1 F w hl
  simp only [BCur.live, Bool.and_eq_true, decide_eq_true_eq] at hl
  obtain ⟨l1, l2⟩ := hl
  have i1 := w.inLine l1
  have hst : BCur.stopOf segs c = (BCur.segOf segs c.ln).stop := by simp [BCur.stopOf, l1]
  by_cases hh : c.p + 1 < BCur.stopOf segs c ∨ BCur.k segs ≤ c.ln + 1
  · have e : BCur.adv1 segs c = { c with p := c.p + 1 } := by simp [BCur.adv1, hz, hh]
    rw [e] at r1 r2 ⊢
    exact ⟨r2, hz, r1, Int.le_refl _, by simp only; omega, l1⟩
  · have e : BCur.adv1 segs c = ⟨c.ln + 1, (BCur.segOf segs (c.ln + 1)).start,
        (BCur.segOf segs (c.ln + 1)).padding⟩ := by simp [BCur.adv1, hz, hh]
    rw [e] at r1 r2 ⊢
    have hm := F.mono c.ln (c.ln + 1) w.ln0 (by omega) (by omega)
    rw [hst] at hh
    refine ⟨r2, segOf_pad F Z _ (by have := w.ln0; omega) (by omega), r1, by simp only; omega, ?_, by simp only; omega⟩
    simp only; omega

theorem advN_facts (F : SegFacts src segs) (Z : ∀ s ∈ segs, s.padding = 0) (n : Nat) :
    ∀ {c : BCur}, BWF segs c → c.pad = 0 → (n : Int) ≤ BCur.remaining segs c →
    BWF segs (BCur.advN segs n c) ∧ (BCur.advN segs n c).pad = 0 ∧
    BCur.remaining segs (BCur.advN segs n c) = BCur.remaining segs c - n ∧
    c.ln ≤ (BCur.advN segs n c).ln ∧ c.p + n ≤ (BCur.advN segs n c).p := by
  induction n with
  | zero => intro c w hz _; simp [BCur.advN, w, hz]
  | succ n ih =>
    intro c w hz hn
    have hl : BCur.live segs c = true := rem_nonneg_live (by omega)
    obtain ⟨a1, a2, a3, a4, a5, _⟩ := adv1_facts F Z w hz hl
    obtain ⟨b1, b2, b3, b4, b5⟩ := ih a1 a2 (by omega)
    simp only [BCur.advN]
    exact ⟨b1, b2, by omega, by omega, by omega⟩

/-- what PeekLine answers -/
theorem peekLine_facts (F : SegFacts src segs) {r : BlockReader} {c : BCur} (h : RS src segs r c) :
    r.peekLine = .ok ((BCur.view src segs c, r.pos), r) ∧
    r.pos = { start := c.p, stop := BCur.stopOf segs c, padding := 0, forceNewline := false } := by
  have e := bpeekLine_ref F h.abs
  have hp : r.pos = { start := c.p, stop := BCur.stopOf segs c, padding := 0, forceNewline := false } := by
    rw [h.abs.pos, h.pad]
  refine ⟨?_, hp⟩
  rw [e]
  simp only [BCur.peekLine, BCur.seg]
  rw [hp, h.pad]

/-- a line that PeekLine returns: the bytes up to the line's stop, at least one, all of them in front -/
theorem view_some (F : SegFacts src segs) {c : BCur} (w : BWF segs c) (hz : c.pad = 0) {l : Bytes}
    (hv : BCur.view src segs c = some l) :
    c.ln < BCur.k segs ∧ 0 ≤ c.p ∧ c.p < BCur.stopOf segs c ∧ BCur.stopOf segs c ≤ src.length ∧
    l = sub src c.p.toNat (BCur.stopOf segs c).toNat ∧ (l.length : Int) = BCur.stopOf segs c - c.p ∧
    (l.length : Int) ≤ BCur.remaining segs c ∧ BCur.live segs c = true := by
  unfold BCur.view at hv
  split at hv
  · rename_i hl
    have hlive := hl
    simp only [BCur.live, Bool.and_eq_true, decide_eq_true_eq] at hl
    obtain ⟨l1, l2⟩ := hl
    have i1 := w.inLine l1
    have i2 := F.rng c.ln w.ln0 l1
    have hst : BCur.stopOf segs c = (BCur.segOf segs c.ln).stop := by simp [BCur.stopOf, l1]
    have hplt : c.p < BCur.stopOf segs c := by
      rw [hst]
      rcases i1.2 with h' | ⟨h1, h2⟩
      · exact h'
      · have := F.last
        have e : BCur.k segs - 1 = c.ln := by omega
        rw [e] at this
        omega
    simp only [hz, Int.toNat_zero, spaces, List.replicate_zero, List.nil_append, Option.some.injEq] at hv
    have hlen : (l.length : Int) = BCur.stopOf segs c - c.p := by
      rw [← hv]; simp only [sub, List.length_take, List.length_drop]
      omega
    refine ⟨l1, by omega, hplt, by omega, hv.symm, hlen, ?_, hlive⟩
    have v := viewsLen_nonneg F (c.ln.toNat + 1)
    simp only [BCur.remaining, hlive, if_true, hz]
    omega
  · simp at hv

theorem view_none_rem {c : BCur} (hv : BCur.view src segs c = none) :
    BCur.remaining segs c = 0 := by
  unfold BCur.view at hv
  split at hv
  · simp at hv
  · rename_i hl; simp [BCur.remaining, hl]

/-- Advance(n) for 0 ≤ n ≤ remaining -/
theorem advance_ok (F : SegFacts src segs) (Z : ∀ s ∈ segs, s.padding = 0) {r : BlockReader} {c : BCur}
    (h : RS src segs r c) {n : Int} (h0 : 0 ≤ n) (h1 : n ≤ BCur.remaining segs c) :
    ∃ r' c', r.advance n = .ok r' ∧ RS src segs r' c' ∧
      BCur.remaining segs c' = BCur.remaining segs c - n ∧ c.ln ≤ c'.ln ∧ c.p + n ≤ c'.p ∧
      c' = BCur.advN segs n.toNat c := by
  have hs : BCur.advance segs n c = .ok (BCur.advN segs n.toNat c) := by simp [BCur.advance, h0, h1]
  obtain ⟨r', hr, ha⟩ := badvance_ref F h.abs hs
  obtain ⟨b1, b2, b3, b4, b5⟩ := advN_facts F Z n.toNat h.abs.wf h.pad (by omega)
  exact ⟨r', _, hr, ⟨ha, b2⟩, by omega, b4, by omega, rfl⟩

/-- Advance(n) inside the line: only the offset moves -/
theorem advance_inline (F : SegFacts src segs) (Z : ∀ s ∈ segs, s.padding = 0) {r : BlockReader} {c : BCur}
    (h : RS src segs r c) {n : Int} (h0 : 0 ≤ n) (h1 : c.p + n < BCur.stopOf segs c)
    (hr : n ≤ BCur.remaining segs c) :
    ∃ r', r.advance n = .ok r' ∧ RS src segs r' { c with p := c.p + n } := by
  obtain ⟨r', c', e1, e2, _, _, _, e6⟩ := advance_ok F Z h h0 hr
  have := badvN_inline segs n.toNat c h.pad (by omega)
  rw [this] at e6
  have e : ((n.toNat : Nat) : Int) = n := by omega
  rw [e] at e6
  subst e6
  exact ⟨r', e1, e2⟩

theorem advanceLine_ok (F : SegFacts src segs) (Z : ∀ s ∈ segs, s.padding = 0) {r : BlockReader} {c : BCur}
    (h : RS src segs r c) :
    ∃ r', r.advanceLine = .ok r' ∧ RS src segs r' (BCur.advanceLine segs c) := by
  obtain ⟨r', e1, e2, _⟩ := badvanceLine_ref F h.abs
  refine ⟨r', e1, e2, ?_⟩
  unfold BCur.advanceLine
  split
  · exact segOf_pad F Z _ (by have := h.abs.wf.ln0; omega) (by assumption)
  · exact h.pad

/-- SetPosition with what Position returned in a state standing for `c` brings `c` back -/
theorem setPosition_restore (F : SegFacts src segs) {r r2 : BlockReader} {c c2 : BCur}
    (h : RS src segs r c) (h2 : RS src segs r2 c2) :
    ∃ r3, r2.setPosition r.position.1 r.position.2 = .ok r3 ∧ RS src segs r3 c := by
  obtain ⟨r3, e1, e2⟩ := blockReader_setPosition_restores F h.abs h2.abs
  exact ⟨r3, e1, e2, h.pad⟩

theorem peek_ok (F : SegFacts src segs) {r : BlockReader} {c : BCur} (h : RS src segs r c) :
    r.peek = .ok (BCur.peek src segs c) := bpeek_ref F h.abs

theorem precendingCharacter_ok (r : BlockReader) : ∃ v, r.precendingCharacter = .ok v := by
  unfold BlockReader.precendingCharacter
  simp only [bind, Except.bind, pure, Except.pure]
  split
  · exact ⟨_, rfl⟩
  · split
    · exact ⟨_, rfl⟩
    · rename_i hlen
      have : ∃ s, segAt r.segments 0 = .ok s := by
        unfold segAt
        cases hs : r.segments with
        | nil => simp [hs] at hlen
        | cons a t => simp
      obtain ⟨s, hs⟩ := this
      rw [hs]
      simp only
      split
      · exact ⟨_, rfl⟩
      · split
        · exact ⟨_, rfl⟩
        · split <;> exact ⟨_, rfl⟩

/-- AdvanceLine: the next line, offsets do not go back, what was left of the line is no longer in front -/
theorem advanceLine_facts (F : SegFacts src segs) {c : BCur} (w : BWF segs c) (hz : c.pad = 0) :
    (BCur.advanceLine segs c).ln = c.ln + 1 ∧ c.p ≤ (BCur.advanceLine segs c).p ∧
    BCur.remaining segs (BCur.advanceLine segs c) ≤ BCur.remaining segs c ∧
    (BCur.live segs c = true →
      BCur.remaining segs (BCur.advanceLine segs c) = BCur.remaining segs c - (BCur.stopOf segs c - c.p)) ∧
    (c.ln + 1 < BCur.k segs → BCur.stopOf segs c ≤ (BCur.advanceLine segs c).p) := by
  have hn := remaining_nonneg F w
  by_cases hl : c.ln + 1 < BCur.k segs
  · have e : BCur.advanceLine segs c = ⟨c.ln + 1, (BCur.segOf segs (c.ln + 1)).start,
        (BCur.segOf segs (c.ln + 1)).padding⟩ := by simp [BCur.advanceLine, hl]
    have l1 : c.ln < BCur.k segs := by omega
    have i1 := w.inLine l1
    have i2 := F.rng (c.ln + 1) (by have := w.ln0; omega) hl
    have hm := F.mono c.ln (c.ln + 1) w.ln0 (by omega) hl
    have hsl := stop_le_last F (i := c.ln + 1) (by have := w.ln0; omega) hl
    have hst : BCur.stopOf segs c = (BCur.segOf segs c.ln).stop := by simp [BCur.stopOf, l1]
    have hplt : c.p < (BCur.segOf segs c.ln).stop := by rcases i1.2 with h | ⟨h, _⟩ <;> omega
    have hlive : BCur.live segs c = true := by simp [BCur.live, l1]; omega
    have hlive' : BCur.live segs ⟨c.ln + 1, (BCur.segOf segs (c.ln + 1)).start, (BCur.segOf segs (c.ln + 1)).padding⟩ = true := by
      simp [BCur.live, hl]; omega
    have hv := viewsLen_drop segs (c.ln + 1) (by have := w.ln0; omega) hl
    have et : (c.ln + 1).toNat = c.ln.toNat + 1 := by have := w.ln0; omega
    have hr' : BCur.remaining segs ⟨c.ln + 1, (BCur.segOf segs (c.ln + 1)).start, (BCur.segOf segs (c.ln + 1)).padding⟩ =
        BCur.viewsLen (segs.drop (c.ln.toNat + 1)) := by
      simp only [BCur.remaining, hlive', if_true, BCur.stopOf, hl]
      rw [et] at hv ⊢
      rw [hv]
    have hr : BCur.remaining segs c = (BCur.stopOf segs c - c.p) + BCur.viewsLen (segs.drop (c.ln.toNat + 1)) := by
      simp [BCur.remaining, hlive, hz]
    rw [e]
    refine ⟨rfl, by simp only; omega, by rw [hr', hr]; omega, fun _ => by rw [hr', hr]; omega, fun _ => by simp only; omega⟩
  · have e : BCur.advanceLine segs c = { c with ln := c.ln + 1 } := by simp [BCur.advanceLine, hl]
    have hd : BCur.remaining segs { c with ln := c.ln + 1 } = 0 := by
      have : BCur.live segs { c with ln := c.ln + 1 } = false := by simp [BCur.live]; intro h; omega
      simp [BCur.remaining, this]
    rw [e]
    refine ⟨rfl, Int.le_refl _, by rw [hd]; exact hn, ?_, fun h => absurd h hl⟩
    intro hlive
    rw [hd]
    have hlv := hlive
    simp only [BCur.live, Bool.and_eq_true, decide_eq_true_eq] at hlv
    have : BCur.viewsLen (segs.drop (c.ln.toNat + 1)) = 0 :=
      viewsLen_drop_ge segs _ (by have := w.ln0; simp [BCur.k] at hl; omega)
    simp [BCur.remaining, hlive, hz, this]

theorem viewsLen_le (src : Bytes) : ∀ (l : List Segment) (lo : Int), WFSegsFrom src lo l → (∀ s ∈ l, s.padding = 0) →
    lo ≤ src.length → BCur.viewsLen l ≤ src.length - lo
  | [], lo, _, _, h => by simp only [BCur.viewsLen]; omega
  | s :: rest, lo, hw, hz, h => by
    obtain ⟨w1, w2, w3, w4, w5, w6⟩ := hw
    have := viewsLen_le src rest s.stop w6 (fun x hx => hz x (by simp [hx])) w3
    have := hz s (by simp)
    simp only [BCur.viewsLen]; omega

theorem viewsLen_drop_le (F : SegFacts src segs) : ∀ (n : Nat), BCur.viewsLen (segs.drop n) ≤ BCur.viewsLen segs := by
  intro n
  induction n with
  | zero => simp
  | succ n ih =>
    by_cases hn : n < segs.length
    · have hv := viewsLen_drop segs (n : Int) (by omega) (by simp [BCur.k]; omega)
      have r := F.rng (n : Int) (by omega) (by simp [BCur.k]; omega)
      simp only [Int.toNat_natCast] at hv
      omega
    · rw [viewsLen_drop_ge segs (n + 1) (by omega)]
      have := viewsLen_nonneg F 0
      simpa using this

/-- never more bytes in front of the cursor than the source has -/
theorem remaining_le_len (W : WFSegs src segs) (Z : ∀ s ∈ segs, s.padding = 0) {c : BCur} (w : BWF segs c)
    (hz : c.pad = 0) : BCur.remaining segs c ≤ src.length := by
  have F := segFacts W
  unfold BCur.remaining
  split
  · rename_i hl
    simp only [BCur.live, Bool.and_eq_true, decide_eq_true_eq] at hl
    have i1 := w.inLine hl.1
    have hst : BCur.stopOf segs c = (BCur.segOf segs c.ln).stop := by simp [BCur.stopOf, hl.1]
    have hv := viewsLen_drop segs c.ln w.ln0 hl.1
    have h1 := viewsLen_drop_le F c.ln.toNat
    have h2 := viewsLen_le src segs 0 W.2 Z (by omega)
    have r := F.rng c.ln w.ln0 hl.1
    omega
  · omega

theorem rdFuel_gt (W : WFSegs src segs) (Z : ∀ s ∈ segs, s.padding = 0) {r : BlockReader} {c : BCur}
    (h : RS src segs r c) : (BCur.remaining segs c).toNat < GM.Inl.rdFuel r := by
  have := remaining_le_len W Z h.abs.wf h.pad
  unfold GM.Inl.rdFuel loopFuel
  rw [h.abs.source]
  omega

theorem advN_ln_lt (F : SegFacts src segs) (Z : ∀ s ∈ segs, s.padding = 0) (n : Nat) :
    ∀ {c : BCur}, BWF segs c → c.pad = 0 → (n : Int) ≤ BCur.remaining segs c → c.ln < BCur.k segs →
    (BCur.advN segs n c).ln < BCur.k segs := by
  induction n with
  | zero => intro c _ _ _ h; simpa [BCur.advN] using h
  | succ n ih =>
    intro c w hz hn hk
    have hl : BCur.live segs c = true := rem_nonneg_live (by omega)
    obtain ⟨a1, a2, a3, a4, a5, a6⟩ := adv1_facts F Z w hz hl
    simp only [BCur.advN]
    exact ih a1 a2 (by omega) a6

end GM.Proof.InlinesReader
