/-
  GM.Proof.IndepFrame — frame calculus for the block-phase model, used by C09 (first half):

  `IFr R m`: whenever the monadic program `m` ends normally, the start state and the end state are related by `R`
  (a preorder on states: "the open-block stack is the same", "the node store did not shrink", "the context key k
  is the same" …). `IFr` is closed under `bind` / `pure` / `if` / `match`, so a proof for a parser function is a
  syntactic walk over its `do` block (tactic `frame`) that ends in the primitives of the monad; the primitives
  that touch the reader or the node store are hypotheses (`FrPrims R`), every `modPc f` is discharged on the spot
  (`f` must keep what `R` looks at).

  With it: none of the ten `Close` functions touches `pc.openedBlocks` (so `closeBlocks` removes exactly the slots
  it is asked to remove — "the open-block stack is fully unwound"), and each context key is written back by the
  `Close` / `Open` the Go code relies on ("context keys used as cross-line flags are reset").
-/
import GM.Proof.BlocksPres

namespace GM.Blocks
open GM GM.Text

/-! ### inversion of a normal end (backward symbolic execution) -/

theorem bind_ok {α β} {m : M α} {f : α → M β} {s : St} {b : β} {s'' : St} (h : (m >>= f) s = .ok (b, s'')) :
    ∃ a s', m s = .ok (a, s') ∧ f a s' = .ok (b, s'') := by
  simp only [Bind.bind, StateT.bind] at h
  cases hm : m s with
  | error e => rw [hm] at h; simp [Except.bind] at h
  | ok p => rw [hm] at h; exact ⟨p.1, p.2, rfl, h⟩

theorem sbind_ok {α β} {m : M α} {f : α → M β} {s : St} {b : β} {s'' : St} (h : StateT.bind m f s = .ok (b, s'')) :
    ∃ a s', m s = .ok (a, s') ∧ f a s' = .ok (b, s'') := bind_ok (m := m) (f := f) h

theorem pure_ok {α} {a b : α} {s s' : St} (h : (pure a : M α) s = .ok (b, s')) : b = a ∧ s' = s := by
  cases h; exact ⟨rfl, rfl⟩

theorem liftE_ok {α} {e : Except Panic α} {s : St} {a : α} {s' : St} (h : liftE e s = .ok (a, s')) :
    e = .ok a ∧ s' = s := by
  cases e with
  | ok v => simp only [liftE, Except.map] at h; cases h; exact ⟨rfl, rfl⟩
  | error x => simp [liftE, Except.map] at h

theorem modPc_ok {f : Ctx → Ctx} {s : St} {a : Unit} {s' : St} (h : modPc f s = .ok (a, s')) :
    s' = { s with pc := f s.pc } := by cases h; rfl

theorem getPc_ok {s : St} {a : Ctx} {s' : St} (h : getPc s = .ok (a, s')) : a = s.pc ∧ s' = s := by
  cases h; exact ⟨rfl, rfl⟩

theorem getNode_ok {id : Nat} {s : St} {a : Node} {s' : St} (h : getNode id s = .ok (a, s')) :
    a = s.nodes.getD id default ∧ s' = s := by cases h; exact ⟨rfl, rfl⟩

theorem modNode_ok {id : Nat} {f : Node → Node} {s : St} {a : Unit} {s' : St} (h : modNode id f s = .ok (a, s')) :
    s' = { s with nodes := s.nodes.set id (f (s.nodes.getD id default)) } := by cases h; rfl

theorem newNode_ok {n : Node} {s : St} {a : Nat} {s' : St} (h : newNode n s = .ok (a, s')) :
    a = s.nodes.length ∧ s' = { s with nodes := s.nodes ++ [n] } := by cases h; exact ⟨rfl, rfl⟩

theorem throw_ok {α} {e : Panic} {s : St} {a : α} {s' : St} (h : (throw e : M α) s = .ok (a, s')) : False := by
  cases h

/-- whenever `m` ends normally, start and end state are related by `R` -/
structure IFr (R : St → St → Prop) {α : Type} (m : M α) : Prop where
  h : ∀ s a s', m s = .ok (a, s') → R s s'

/-- `R` is a preorder that is kept by the store primitives -/
structure FrPrims (R : St → St → Prop) : Prop where
  refl : ∀ s, R s s
  trans : ∀ {a b c}, R a b → R b c → R a c
  modNode : ∀ s id (f : Node → Node), R s { s with nodes := s.nodes.set id (f (s.nodes.getD id default)) }
  newNode : ∀ s n, R s { s with nodes := s.nodes ++ [n] }

/-- `R` does not look at the reader -/
def IgnoresReader (R : St → St → Prop) : Prop := ∀ s r', R s { s with r := r' }

variable {R : St → St → Prop}

theorem IFr.pure {α} (hR : FrPrims R) (a : α) : IFr R (pure a : M α) :=
  ⟨fun s _ _ h => by cases h; exact hR.refl s⟩

theorem IFr.bind {α β} (hR : FrPrims R) {m : M α} {f : α → M β} (hm : IFr R m) (hf : ∀ a, IFr R (f a)) :
    IFr R (m >>= f) := by
  constructor
  intro s b s' h
  simp only [Bind.bind, StateT.bind] at h
  cases hms : m s with
  | error e => rw [hms] at h; simp [Except.bind] at h
  | ok p =>
    rw [hms] at h
    simp only [Except.bind] at h
    exact hR.trans (hm.h s p.1 p.2 hms) ((hf p.1).h p.2 b s' h)

theorem IFr.ite {α} {c : Prop} [Decidable c] {a b : M α} (ha : IFr R a) (hb : IFr R b) :
    IFr R (if c then a else b) := by
  split <;> assumption

theorem IFr.throw {α} (e : Panic) : IFr R (throw e : M α) := ⟨fun _ _ _ h => by cases h⟩

theorem getNode_fr (hR : FrPrims R) (id : Nat) : IFr R (getNode id) := ⟨fun s _ _ h => by cases h; exact hR.refl s⟩
theorem getPc_fr (hR : FrPrims R) : IFr R getPc := ⟨fun s _ _ h => by cases h; exact hR.refl s⟩
theorem source_fr (hR : FrPrims R) : IFr R source := ⟨fun s _ _ h => by cases h; exact hR.refl s⟩
theorem position_fr (hR : FrPrims R) : IFr R position := ⟨fun s _ _ h => by cases h; exact hR.refl s⟩
theorem get_fr (hR : FrPrims R) : IFr R (get : M St) := ⟨fun s _ _ h => by cases h; exact hR.refl s⟩
theorem modNode_frI (hR : FrPrims R) (id : Nat) (f) : IFr R (modNode id f) :=
  ⟨fun s _ _ h => by cases h; exact hR.modNode s id f⟩
theorem newNode_frI (hR : FrPrims R) (n) : IFr R (newNode n) := ⟨fun s _ _ h => by cases h; exact hR.newNode s n⟩
theorem appendLine_fr (hR : FrPrims R) (id seg) : IFr R (appendLine id seg) := modNode_frI hR _ _
theorem modPc_fr (f : Ctx → Ctx) (hf : ∀ s, R s { s with pc := f s.pc }) : IFr R (modPc f) :=
  ⟨fun s _ _ h => by cases h; exact hf s⟩

theorem liftE_fr {α} (hR : FrPrims R) (e : Except Panic α) : IFr R (liftE e) := by
  constructor
  intro s a s' h
  cases e with
  | ok v => simp only [liftE, Except.map] at h; cases h; exact hR.refl s
  | error x => simp [liftE, Except.map] at h

/-- a program that only moves the reader -/
theorem reader_fr {α β} (hR : IgnoresReader R) (f : Reader → Except Panic (α × Reader)) (g : α → β) :
    IFr R (fun s => do let (x, r) ← f s.r; Pure.pure (g x, { s with r := r }) : M β) := by
  constructor
  intro s a s' h
  cases hf : f s.r with
  | error e => simp [hf, bind, Except.bind] at h
  | ok p =>
    simp only [hf, bind, Except.bind, Pure.pure, Except.pure] at h
    cases h
    exact hR s p.2

theorem peekLine_fr (hR : IgnoresReader R) : IFr R peekLine := reader_fr hR (fun r => r.peekLine) id
theorem lineOffset_fr (hR : IgnoresReader R) : IFr R lineOffset := reader_fr hR (fun r => r.lineOffsetOp) id

theorem advance_fr (hR : IgnoresReader R) (n : Int) : IFr R (advance n) := by
  constructor
  intro s a s' h
  unfold advance at h
  cases hf : s.r.advance n with
  | error e => simp [hf, bind, Except.bind] at h
  | ok p => simp only [hf, bind, Except.bind, Pure.pure, Except.pure] at h; cases h; exact hR s p

theorem advanceAndSetPadding_fr (hR : IgnoresReader R) (n p : Int) : IFr R (advanceAndSetPadding n p) := by
  constructor
  intro s a s' h
  unfold advanceAndSetPadding at h
  cases hf : s.r.advanceAndSetPadding n p with
  | error e => simp [hf, bind, Except.bind] at h
  | ok q => simp only [hf, bind, Except.bind, Pure.pure, Except.pure] at h; cases h; exact hR s q

theorem setPosition_fr (hR : IgnoresReader R) (l : Int) (p : Segment) : IFr R (setPosition l p) :=
  ⟨fun s _ _ h => by cases h; exact hR s _⟩

theorem advanceLine_fr (hR : IgnoresReader R) : IFr R advanceLine :=
  ⟨fun s _ _ h => by cases h; exact hR s _⟩

macro "frame_step" : tactic =>
  `(tactic| first
    | (with_reducible apply IFr.pure; assumption)
    | (with_reducible apply IFr.bind; assumption)
    | with_reducible apply IFr.ite
    | with_reducible apply IFr.throw
    | (with_reducible apply getNode_fr; assumption)
    | (with_reducible apply getPc_fr; assumption)
    | (with_reducible apply source_fr; assumption)
    | (with_reducible apply position_fr; assumption)
    | (with_reducible apply get_fr; assumption)
    | (with_reducible apply modNode_frI; assumption)
    | (with_reducible apply newNode_frI; assumption)
    | (with_reducible apply appendLine_fr; assumption)
    | (with_reducible apply liftE_fr; assumption)
    | (with_reducible apply peekLine_fr; assumption)
    | (with_reducible apply lineOffset_fr; assumption)
    | (with_reducible apply advance_fr; assumption)
    | (with_reducible apply advanceAndSetPadding_fr; assumption)
    | (with_reducible apply setPosition_fr; assumption)
    | (with_reducible apply advanceLine_fr; assumption)
    | apply_hyp
    | intro _
    | split)

/-- walk over an `M` do block; what is left are the `modPc` calls -/
macro "frame" : tactic => `(tactic| repeat' frame_step)

section tree
variable (hR : FrPrims R)
include hR

theorem lastOpenedBlock_fr : IFr R lastOpenedBlock := by unfold lastOpenedBlock; frame

theorem removeChild_frI (p c : Nat) : IFr R (removeChild p c) := by unfold removeChild; frame

theorem ensureIsolated_frI (c : Nat) : IFr R (ensureIsolated c) := by
  have := removeChild_frI hR
  unfold ensureIsolated; frame

theorem appendChild_frI (p c : Nat) : IFr R (appendChild p c) := by
  have := ensureIsolated_frI hR
  unfold appendChild; frame

theorem insertBefore_frI (p : Nat) (v1 : Option Nat) (ins : Nat) : IFr R (insertBefore p v1 ins) := by
  have := ensureIsolated_frI hR
  have := appendChild_frI hR
  unfold insertBefore; frame

theorem nextSibling_fr (c : Nat) : IFr R (nextSibling c) := by unfold nextSibling; frame

theorem insertAfter_fr (p : Nat) (v1 : Option Nat) (ins : Nat) : IFr R (insertAfter p v1 ins) := by
  have := appendChild_frI hR
  have := nextSibling_fr hR
  have := insertBefore_frI hR
  unfold insertAfter; frame

theorem replaceChild_frI (p v1 ins : Nat) : IFr R (replaceChild p v1 ins) := by
  have := insertBefore_frI hR
  have := removeChild_frI hR
  unfold replaceChild; frame

theorem paragraphClose_fr (n : Nat) : IFr R (paragraphClose n) := by
  have := removeChild_frI hR
  unfold paragraphClose; frame

theorem codeClose_fr (n : Nat) : IFr R (codeClose n) := by unfold codeClose; frame

theorem tightenItem_frI (child : Nat) (gcs : List Nat) : IFr R (tightenItem child gcs) := by
  have := replaceChild_frI hR
  induction gcs with
  | nil => unfold tightenItem; frame
  | cons gc gcs ih => unfold tightenItem; frame

theorem tightenItems_frI (cs : List Nat) : IFr R (tightenItems cs) := by
  have := tightenItem_frI hR
  induction cs with
  | nil => unfold tightenItems; frame
  | cons c cs ih => unfold tightenItems; frame

theorem listClose_frI (n : Nat) : IFr R (listClose n) := by
  have := tightenItems_frI hR
  unfold listClose; frame

end tree

/-! ### the relations -/

/-- the open-block stack is the same -/
def SameOpened (s s' : St) : Prop := s'.pc.opened = s.pc.opened

theorem sameOpened_prims : FrPrims SameOpened where
  refl := fun _ => rfl
  trans := fun h1 h2 => h2.trans h1
  modNode := fun _ _ _ => rfl
  newNode := fun _ _ => rfl

/-- the node store did not shrink: every node id that was valid still is -/
def NodesGrow (s s' : St) : Prop := s.nodes.length ≤ s'.nodes.length

theorem nodesGrow_prims : FrPrims NodesGrow where
  refl := fun _ => Nat.le_refl _
  trans := fun h1 h2 => Nat.le_trans h1 h2
  modNode := fun s id f => by simp [NodesGrow]
  newNode := fun s n => by simp [NodesGrow]

/-- the list parser's two flags and the open-block stack are the same -/
def SameListKeys (s s' : St) : Prop :=
  s'.pc.skipList = s.pc.skipList ∧ s'.pc.emptyItemBlank = s.pc.emptyItemBlank

theorem sameListKeys_prims : FrPrims SameListKeys where
  refl := fun _ => ⟨rfl, rfl⟩
  trans := fun h1 h2 => ⟨h2.1.trans h1.1, h2.2.trans h1.2⟩
  modNode := fun _ _ _ => ⟨rfl, rfl⟩
  newNode := fun _ _ => ⟨rfl, rfl⟩

/-- the reader is untouched -/
def SameReader (s s' : St) : Prop := s'.r = s.r

theorem sameReader_prims : FrPrims SameReader where
  refl := fun _ => rfl
  trans := fun h1 h2 => h2.trans h1
  modNode := fun _ _ _ => rfl
  newNode := fun _ _ => rfl

/-! ### `Close` never touches the open-block stack; `closeBlocks` removes exactly the slots `to..frm` -/

theorem setextClose_fr (hR : FrPrims R) (hpc : ∀ s, R s { s with pc := { s.pc with tmpPara := none } }) (n : Nat) :
    IFr R (setextClose n) := by
  have := removeChild_frI hR
  have := insertAfter_fr hR
  have := nextSibling_fr hR
  unfold setextClose; frame
  all_goals exact modPc_fr _ hpc

theorem fencedClose_fr (hR : FrPrims R) (hpc : ∀ s, R s { s with pc := { s.pc with fence := none } }) (n : Nat) :
    IFr R (fencedClose n) := by
  unfold fencedClose; frame
  all_goals exact modPc_fr _ hpc

theorem bpClose_fr (hR : FrPrims R) (h1 : ∀ s, R s { s with pc := { s.pc with tmpPara := none } })
    (h2 : ∀ s, R s { s with pc := { s.pc with fence := none } }) (bp : BP) (n : Nat) : IFr R (bpClose bp n) := by
  cases bp <;> unfold bpClose
  · exact setextClose_fr hR h1 n
  · exact IFr.pure hR _
  · exact listClose_frI hR n
  · exact IFr.pure hR _
  · exact codeClose_fr hR n
  · exact IFr.pure hR _
  · exact fencedClose_fr hR h2 n
  · exact IFr.pure hR _
  · exact IFr.pure hR _
  · exact paragraphClose_fr hR n

theorem closeLoop_fr (hR : FrPrims R) (h1 : ∀ s, R s { s with pc := { s.pc with tmpPara := none } })
    (h2 : ∀ s, R s { s with pc := { s.pc with fence := none } }) (blocks : List Block) (to : Int) (k : Nat) :
    IFr R (closeLoop blocks to k) := by
  have := bpClose_fr hR h1 h2
  induction k with
  | zero => unfold closeLoop; frame
  | succ k ih => unfold closeLoop; frame

/-- no `Close` function writes `pc.openedBlocks` -/
theorem closeLoop_sameOpened (blocks : List Block) (to : Int) (k : Nat) : IFr SameOpened (closeLoop blocks to k) :=
  closeLoop_fr sameOpened_prims (fun _ => rfl) (fun _ => rfl) blocks to k

/-- no `Close` function removes a node from the store -/
theorem closeLoop_nodesGrow (blocks : List Block) (to : Int) (k : Nat) : IFr NodesGrow (closeLoop blocks to k) :=
  closeLoop_fr nodesGrow_prims (fun _ => Nat.le_refl _) (fun _ => Nat.le_refl _) blocks to k

/-- no `Close` function writes the list parser's flags -/
theorem closeLoop_sameListKeys (blocks : List Block) (to : Int) (k : Nat) : IFr SameListKeys (closeLoop blocks to k) :=
  closeLoop_fr sameListKeys_prims (fun _ => ⟨rfl, rfl⟩) (fun _ => ⟨rfl, rfl⟩) blocks to k

/-- no `Close` function moves the reader -/
theorem closeLoop_sameReader (blocks : List Block) (to : Int) (k : Nat) : IFr SameReader (closeLoop blocks to k) :=
  closeLoop_fr sameReader_prims (fun _ => rfl) (fun _ => rfl) blocks to k

theorem closeSlice_ok {l : List Block} {a b : Int} {r : List Block} (h : closeBlocks.slice' l a b = .ok r) :
    0 ≤ a ∧ a ≤ b ∧ b ≤ l.length ∧ r = (l.drop a.toNat).take (b - a).toNat := by
  unfold closeBlocks.slice' at h
  split at h
  · cases h; rename_i hc; exact ⟨hc.1, hc.2.1, hc.2.2, rfl⟩
  · cases h

/-- **closeBlocks removes exactly the slots `to..frm` of the open-block stack** (parser.go:900-918), from any state:
    afterwards the stack is the old one without them. -/
theorem closeBlocks_opened (frm to : Int) (s s' : St) (h : closeBlocks frm to s = .ok ((), s')) :
    0 ≤ to ∧ s'.pc.opened = s.pc.opened.take to.toNat ++ s.pc.opened.drop (frm + 1).toNat := by
  unfold closeBlocks at h
  obtain ⟨pc, s0, h0, h⟩ := bind_ok h
  obtain ⟨rfl, rfl⟩ := getPc_ok h0
  obtain ⟨u, s1, hcl, h⟩ := bind_ok h
  have hso : s1.pc.opened = s0.pc.opened := (closeLoop_sameOpened _ _ _).h s0 u s1 hcl
  dsimp only at h
  split at h
  · rename_i hfl
    obtain ⟨blocks', s2, hb, h⟩ := bind_ok h
    have hm := modPc_ok h
    subst hm
    show 0 ≤ to ∧ blocks' = _
    obtain ⟨hsl, _⟩ := liftE_ok hb
    obtain ⟨_, h0, h1, hr⟩ := closeSlice_ok hsl
    have hfl' : frm = (s0.pc.opened.length : Int) - 1 := by simpa using hfl
    refine ⟨h0, ?_⟩
    rw [hr]
    have : (frm + 1).toNat = s0.pc.opened.length := by omega
    rw [this, List.drop_length]
    simp
  · obtain ⟨a, s3, ha, h⟩ := bind_ok h
    obtain ⟨hsl, _⟩ := liftE_ok ha
    obtain ⟨b, s4, hb2, h⟩ := bind_ok h
    obtain ⟨hsl2, _⟩ := liftE_ok hb2
    obtain ⟨blocks', s5, hp, h⟩ := bind_ok h
    obtain ⟨rfl, _⟩ := pure_ok hp
    have hm := modPc_ok h
    subst hm
    show 0 ≤ to ∧ a ++ b = _
    obtain ⟨_, h0, h1, hr⟩ := closeSlice_ok hsl
    obtain ⟨g0, g1, _, hr2⟩ := closeSlice_ok hsl2
    refine ⟨h0, ?_⟩
    rw [hr, hr2]
    congr 1
    · simp
    · apply List.take_of_length_le
      simp only [List.length_drop]
      omega

/-- **the open-block stack is fully unwound**: `closeBlocks(len-1, 0)` — what parseBlocks does at the end of the
    source and when a line continues none of the open blocks — leaves no block open, from any state. -/
theorem closeBlocks_unwinds (s s' : St) (h : closeBlocks ((s.pc.opened.length : Int) - 1) 0 s = .ok ((), s')) :
    s'.pc.opened = [] := by
  obtain ⟨_, h2⟩ := closeBlocks_opened _ _ s s' h
  rw [h2]
  have : ((s.pc.opened.length : Int) - 1 + 1).toNat = s.pc.opened.length := by omega
  rw [this]
  simp

/-- `closeBlocks` never removes a node from the store -/
theorem closeBlocks_nodesGrow (frm to : Int) : IFr NodesGrow (closeBlocks frm to) := by
  have hR := nodesGrow_prims
  have := closeLoop_nodesGrow
  unfold closeBlocks; frame
  all_goals exact modPc_fr _ (fun _ => Nat.le_refl _)

/-- `closeBlocks` never writes the list parser's flags -/
theorem closeBlocks_sameListKeys (frm to : Int) : IFr SameListKeys (closeBlocks frm to) := by
  have hR := sameListKeys_prims
  have := closeLoop_sameListKeys
  unfold closeBlocks; frame
  all_goals exact modPc_fr _ (fun _ => ⟨rfl, rfl⟩)

/-- `closeBlocks` never moves the reader -/
theorem closeBlocks_sameReader (frm to : Int) : IFr SameReader (closeBlocks frm to) := by
  have hR := sameReader_prims
  have := closeLoop_sameReader
  unfold closeBlocks; frame
  all_goals exact modPc_fr _ (fun _ => rfl)

/-! ### the context keys are written back -/

/-- fencedCodeBlockInfoKey (fcode_block.go:29, :109-114): after `Close` of the fenced code block that set it,
    the key is nil again -/
theorem fencedClose_resets (node : Nat) (s s' : St) (h : fencedClose node s = .ok ((), s'))
    (hk : s.pc.fence.map (·.node) = some node) : s'.pc.fence = none := by
  unfold fencedClose at h
  simp only [bind, StateT.bind, getPc, pure, Except.pure, Except.bind] at h
  cases hf : s.pc.fence with
  | none => rw [hf] at hk; cases hk
  | some f =>
    rw [hf] at h hk
    simp only [Option.map, Option.some.injEq] at hk
    simp only [hk, beq_self_eq_true, ↓reduceIte, modPc] at h
    cases h
    rfl

/-- a key that is nil stays nil -/
def TmpStaysNone (s s' : St) : Prop := s.pc.tmpPara = none → s'.pc.tmpPara = none

theorem tmpStaysNone_prims : FrPrims TmpStaysNone where
  refl := fun _ h => h
  trans := fun h1 h2 h => h2 (h1 h)
  modNode := fun _ _ _ h => h
  newNode := fun _ _ h => h

theorem IFr.apply {α} {m : M α} {s : St} {a : α} {s' : St} (h : m s = .ok (a, s')) (hm : IFr R m) : R s s' :=
  hm.h s a s' h

/-- temporaryParagraphKey (setext_headings.go:9, :72, :85): after `Close` of a setext heading the key is nil,
    from any state -/
theorem setextClose_resets (node : Nat) (s s' : St) (h : setextClose node s = .ok ((), s')) :
    s'.pc.tmpPara = none := by
  unfold setextClose at h
  obtain ⟨hn, s1, h1, h⟩ := bind_ok h
  obtain ⟨seg, s2, h2, h⟩ := bind_ok h
  obtain ⟨_, s3, h3, h⟩ := bind_ok h
  obtain ⟨pc, s4, h4, h⟩ := bind_ok h
  have hR := tmpStaysNone_prims
  have rm := removeChild_frI hR
  have ia := insertAfter_fr hR
  have ns := nextSibling_fr hR
  dsimp only at h
  cases hp : pc.tmpPara with
  | none =>
    rw [hp] at h
    obtain ⟨tmp, s5, h5, h⟩ := bind_ok h
    exact (throw_ok h5).elim
  | some t =>
  rw [hp] at h
  · obtain ⟨tmp, s5, h5, h⟩ := bind_ok h
    obtain ⟨_, s6, h6, h⟩ := bind_ok h
    have hm := modPc_ok h6
    have hr : TmpStaysNone s6 s' := by
      refine IFr.apply h ?_
      frame
    apply hr
    rw [hm]

end GM.Blocks
