/-
  GM.Proof.ShiftSimXTop9 — the pass theorems of ShiftSimXTop6/7/8 over an ABSTRACT reader invariant `J`, with the fact
  "the candidate parsers of `openBlocksLoop` are `Cov6`" as a hypothesis about `J` (`hfree`, `hJtrig`) instead of the
  byte-level class `Plain6`: `topLast_lineLoopJ`, `att_lineLoopJ`, `attAll_lineLoopJ`, `att_openBlocks0J`.
  (Generalised copies; the proofs are those of ShiftSimXTop6/7/8.)
-/
import GM.Proof.ShiftSimXTop8

namespace GM.Blocks.Xs
open GM GM.Text GM.Spec GM.Proof.Reader GM.Blocks GM.Blocks.L
open GM.Blocks.Sh (K KS bind_ok_inv liftE_ok_inv a2_getNode_inv a2_getPc_inv a2_modPc_inv a2_lastOpenedBlock_inv
  llOpen llFall llBody ll_lineLoop_cons tpJp1 tpJp2 tpSome tryParsers_cons oblTry openBlocksLoop_succ)

section j9
variable {J : St → Prop} (hJr : ∀ t t' : St, J t → t'.r = t.r → J t')
  (hJo : ∀ bp, Cov6 bp → ∀ (p : Nat) (s : St) (x : Option Nat × PState) (s' : St), J s → bpOpen bp p s = .ok (x, s') →
    (x.1 = none ∨ x.2.hasChildren = true) → J s')
  (hJlo : Keeps J lineOffset)
  (hJpk : ∀ (t : St) lp t1, J t → peekLine t = .ok (lp, t1) → J t1)
  (hfree : ∀ bp ∈ freeParsers, Cov6 bp)
  (hJtrig : ∀ (t t1 : St) (lp : Option Bytes × Segment) (l : Bytes) (lo : Int) (ch : UInt8), J t →
    peekLine t = .ok (lp, t1) → lp.1 = some l → idx l (indentWidthI l lo).2 = .ok ch →
    ∀ bp ∈ (triggered ch).getD freeParsers, Cov6 bp)
include hJr hJo hJlo hJpk hfree hJtrig

variable {ob : List Block} {p0 : Nat} {d0 : List Nat} {L0 : Nat}

omit hJr hJo hJlo hJpk hfree hJtrig in
/-- the candidate loop only retries after a parser that answered `hasChildren` -/
theorem h9_tpSome_retry (parent node : Nat) (bp : BP) (state : PState) (lastBlock : Option Block) (blankLine : Bool)
    (last : Option Nat) :
    Ret (tpSome parent node bp state lastBlock blankLine last) (fun x => ∀ q, x.1 = .retry q → state.hasChildren = true) := by
  unfold tpSome Sh.tpJp3 tpJp1 tpJp2
  repeat' first
    | with_reducible apply Ret.bind
    | with_reducible apply Ret.throw
    | intro _
    | split
    | (apply Ret.pure; intro q e; first | assumption | exact nomatch e)

omit hJlo hJpk hfree hJtrig in
theorem h9_tryParsers (parent : Nat) (blankLine continuable : Bool) (w : Int) :
    ∀ (bps : List BP), (∀ bp ∈ bps, Cov6 bp) → ∀ (result : OpenResult) (lastBlock : Option Block) (s s' : St)
      (x : TryOutcome × OpenResult × Option Block), J s → W6 ob p0 d0 L0 parent s →
      tryParsers parent blankLine continuable w bps result lastBlock s = .ok (x, s') →
      ∃ q, (∀ p', x.1 = .retry p' → J s') ∧ W6 ob p0 d0 L0 q s' ∧ ∀ p', x.1 = .retry p' → p' = q := by
  intro bps
  induction bps with
  | nil =>
    intro _ result lastBlock s s' x hj hw h
    unfold tryParsers at h
    cases h
    exact ⟨parent, (fun p' e => by cases e), hw, fun p' e => by cases e⟩
  | cons bp bps ih =>
    intro hb result lastBlock s s' x hj hw h
    have ih' := ih (fun b hb' => hb b (List.mem_cons_of_mem _ hb'))
    have hcov := hb bp List.mem_cons_self
    rw [tryParsers_cons] at h
    by_cases c1 : (continuable && result == OpenResult.noBlocksOpened && !bp.canInterruptParagraph) = true
    · rw [if_pos c1] at h; exact ih' result lastBlock s s' x hj hw h
    rw [if_neg c1] at h
    by_cases c2 : (decide (w > 3) && !bp.canAcceptIndentedLine) = true
    · rw [if_pos c2] at h; exact ih' result lastBlock s s' x hj hw h
    rw [if_neg c2] at h
    obtain ⟨x0, s1, h1, hA⟩ := bind_ok_inv h
    obtain ⟨ex0, e1⟩ := a2_lastOpenedBlock_inv h1
    subst e1
    obtain ⟨y, s2, h2, hB⟩ := bind_ok_inv hA
    have k2 := Sh.a2_bpOpen_KS bp parent _ _ _ hw.1 h2
    have lk := (bpOpen_frl bp parent).h _ _ _ h2
    have o2 := bpOpen_opened bp parent _ _ _ h2
    have hw2 := hw.links k2.1 lk o2
    have hj2' : y.2.hasChildren = true → J s2 := fun hc => hJo bp hcov parent _ _ _ hj h2 (Or.inr hc)
    have hjn : y.1 = none → J s2 := fun hn => hJo bp hcov parent _ _ _ hj h2 (Or.inl hn)
    have hrp := (h6_open_norp bp hcov parent).h _ _ _ h2
    cases hy : y.1 with
    | none =>
      rw [hy] at hB
      exact ih' result x0 s2 s' x (hjn hy) hw2 hB
    | some node =>
      rw [hy] at hB
      have hy' : y = (some node, y.2) := by rw [← hy]
      rw [hy'] at h2
      obtain ⟨f1, f2, f3, _⟩ := Sh.bpOpen_fresh bp parent _ _ node y.2 h2
      have hp := hw.2.2.2.1
      have hl := hw.2.2.1
      obtain ⟨a, b, c⟩ := h6_tpSome (J := fun t => y.2.hasChildren = true → J t)
        (fun t t' ht e hc => hJr t t' (ht hc) e) parent node bp hcov y.2 hrp x0 blankLine _ s2 s' x hj2' hw2 (by omega) f2 f3
        (by omega) (fun z hz => by
          rw [o2] at hz
          have := (hw.1.opened z hz).2
          omega) (by rw [o2]; exact congrArg _ ex0) hB
      exact ⟨node, fun p' e => a ((h9_tpSome_retry parent node bp y.2 x0 blankLine _).h _ _ _ hB p' e), b, c⟩

theorem h9_openBlocksLoop (blankLine continuable : Bool) :
    ∀ (fuel parent : Nat) (result : OpenResult) (lastBlock : Option Block) (s s' : St) (x : OpenResult),
      J s → W6 ob p0 d0 L0 parent s → (∀ l, lastBlock = some l → 0 < l.node) →
      openBlocksLoop blankLine continuable fuel parent result lastBlock s = .ok (x, s') →
      ∃ q, W6 ob p0 d0 L0 q s' := by
  intro fuel
  induction fuel with
  | zero =>
    intro parent result lastBlock s s' x _ _ _ h
    unfold openBlocksLoop at h
    cases h
  | succ fuel ih =>
    intro parent result lastBlock s s' x hj hw hlb h
    rw [openBlocksLoop_succ] at h
    obtain ⟨lp, s1, h1, hA⟩ := bind_ok_inv h
    have hj1 := hJpk s lp s1 hj h1
    have m1 : Sh.Same s s1 := peekLine_keeps (Sh.a2_same_noR s) s _ s1 ⟨rfl, rfl⟩ h1
    obtain ⟨lo, s2, h2, hB⟩ := bind_ok_inv hA
    have hj2 : J s2 := hJlo _ _ _ hj1 h2
    have m2 : Sh.Same s s2 := lineOffset_keeps (Sh.a2_same_noR s) s1 _ s2 m1 h2
    obtain ⟨_, s3, h3, hC⟩ := bind_ok_inv hB
    have e3 := a2_modPc_inv h3
    have hj3 : J s3 := hJr _ _ hj2 (by rw [e3])
    have m3 : Sh.Same s s3 := by
      subst e3
      refine ⟨m2.1, ?_⟩
      show (ite _ _ _ : Ctx).opened = _
      split
      · exact m2.2
      · exact m2.2
    have hw3 : W6 ob p0 d0 L0 parent s3 :=
      hw.links (Sh.a2_KS_same hw.1 m3).1 (LinksKept.of_nodes m3.1) m3.2
    have try6 : ∀ (w : Int) (bps : List BP), (∀ bp ∈ bps, Cov6 bp) →
        oblTry blankLine continuable fuel parent w result lastBlock bps s3 = .ok (x, s') →
        ∃ q, W6 ob p0 d0 L0 q s' := by
      intro w bps hb e
      unfold oblTry at e
      obtain ⟨s0, t1, g1, gA⟩ := bind_ok_inv e
      cases g1
      obtain ⟨y, t2, g2, gB⟩ := bind_ok_inv gA
      obtain ⟨q, hjq, hwq, hr⟩ := h9_tryParsers hJr hJo parent blankLine continuable w bps hb result lastBlock _ _ _ hj3 hw3 g2
      obtain ⟨_, _, hl2⟩ := Sh.a2_tryParsers parent blankLine continuable w bps result lastBlock _ _ _ hw3.1
        hw3.2.2.2.1 hlb g2
      cases hy : y.1 with
      | done =>
        rw [hy] at gB
        exact ⟨q, h6_toContinuable continuable y.2.1 y.2.2 q _ _ _ hwq hl2 gB⟩
      | retry p' =>
        rw [hy] at gB
        obtain ⟨t3, t4, g3, gC⟩ := bind_ok_inv gB
        cases g3
        have := hr p' hy
        subst this
        split at gC
        · obtain ⟨_, _, g4, _⟩ := bind_ok_inv gC
          cases g4
        · exact ih p' y.2.1 y.2.2 _ _ _ (hjq p' hy) hwq hl2 gC
    by_cases c1 : lp.1.isNone = true
    · rw [if_pos c1] at hC
      exact ⟨parent, h6_toContinuable _ _ _ _ _ _ _ hw3 hlb hC⟩
    rw [if_neg c1] at hC
    obtain ⟨c0, s4, h4, hD⟩ := bind_ok_inv hC
    obtain ⟨_, e4⟩ := liftE_ok_inv h4
    subst e4
    by_cases c2 : (c0 == 10) = true
    · rw [if_pos c2] at hD
      exact ⟨parent, h6_toContinuable _ _ _ _ _ _ _ hw3 hlb hD⟩
    rw [if_neg c2] at hD
    split at hD
    · obtain ⟨c, s5, h5, hE⟩ := bind_ok_inv hD
      obtain ⟨ec, e5⟩ := liftE_ok_inv h5
      subst e5
      obtain ⟨l, hl⟩ : ∃ l, lp.1 = some l := by
        cases hq : lp.1 with
        | none => rw [hq] at c1; exact absurd rfl c1
        | some l => exact ⟨l, rfl⟩
      have ec' : idx l (indentWidthI l lo).2 = .ok c := by rw [hl] at ec; exact ec
      exact try6 _ _ (hJtrig s s1 lp l lo c hj h1 hl ec') hE
    · exact try6 _ _ hfree hD

/-- `openBlocks` over an attached stack of `Cov6` blocks only pushes blocks -/
theorem h9_openBlocks (p0 : Nat) (blank : Bool) (s s' : St) (r : OpenResult) (hj : J s) (hk : K s)
    (hatt : ∀ x ∈ s.pc.opened, (nd s x.node).parent.isSome = true ∧ Cov6 x.bp) (hp0 : p0 < s.nodes.length)
    (h : openBlocks p0 blank s = .ok (r, s')) :
    ∃ q, W6 s.pc.opened p0 (nd s 0).children s.nodes.length q s' := by
  have hw : W6 s.pc.opened p0 (nd s 0).children s.nodes.length p0 s :=
    ⟨hk, hatt, Nat.le_refl _, hp0, ⟨[], (List.append_nil _).symm, (fun x hx => by cases hx), rfl, rfl⟩⟩
  unfold openBlocks at h
  obtain ⟨x0, s1, h1, hA⟩ := bind_ok_inv h
  obtain ⟨ex0, e1⟩ := a2_lastOpenedBlock_inv h1
  subst e1
  have hlb0 : ∀ l, x0 = some l → 0 < l.node := by
    intro l hl
    rw [ex0] at hl
    exact (hk.opened l (List.mem_of_getLast? hl)).1
  have fin : ∀ c, (do
        let src ← source
        openBlocksLoop blank c (retryFuel src) p0 OpenResult.noBlocksOpened x0) s1 = .ok (r, s') →
      ∃ q, W6 s1.pc.opened p0 (nd s1 0).children s1.nodes.length q s' := by
    intro c hB
    obtain ⟨src', s3, h3, hC⟩ := bind_ok_inv hB
    cases h3
    exact h9_openBlocksLoop hJr hJo hJlo hJpk hfree hJtrig blank c _ p0 _ x0 _ _ _ hj hw hlb0 hC
  cases x0 with
  | none => exact fin false hA
  | some lb =>
    obtain ⟨n, s3, h3, hC⟩ := bind_ok_inv hA
    obtain ⟨_, e3⟩ := a2_getNode_inv h3
    subst e3
    exact fin _ hC



theorem h9_llOpen (b0 : Block) (rest : List Block) (hne : ∀ z ∈ rest, z.node ≠ b0.node) (i : Int) (p : Nat)
    (blank : Bool) (bl : List LineStat) (t t' : St) (x : LineOutcome × List LineStat) (hj : J t)
    (hm : M6 b0 rest t)
    (hcase : (i = 0 ∧ p = 0) ∨ (0 < i ∧ ∃ b ∈ b0 :: rest, p = b.node))
    (h : llOpen (b0 :: rest) (((b0 :: rest).length : Int) - 1) i blank bl p t = .ok (x, t')) : TopLast t' := by
  obtain ⟨hk, ho, hatt, hl⟩ := hm
  unfold llOpen at h
  obtain ⟨lastNode, u1, g1, gA⟩ := bind_ok_inv h
  obtain ⟨elast, e1⟩ := liftE_ok_inv g1
  rw [e1] at gA
  obtain ⟨r, t1, g2, gB⟩ := bind_ok_inv gA
  have hp0 : p < t.nodes.length := by
    rcases hcase with ⟨_, rfl⟩ | ⟨_, b, hb, rfl⟩
    · exact hk.doc.1
    · exact (hk.opened b (ho ▸ hb)).2
  obtain ⟨q, hw⟩ := h9_openBlocks hJr hJo hJlo hJpk hfree hJtrig p blank t t1 r hj hk (fun y hy => hatt y (ho ▸ hy)) hp0 g2
  rw [ho] at hw
  have hb0lt : b0.node < t.nodes.length := (hk.opened b0 (by rw [ho]; exact List.mem_cons_self)).2
  by_cases hr : (r != OpenResult.paragraphContinuation) = true
  · rw [if_pos hr] at gB
    obtain ⟨pc, u2, g3, gC⟩ := bind_ok_inv gB
    obtain ⟨epc, e3⟩ := a2_getPc_inv g3
    subst e3
    subst epc
    obtain ⟨_, t2, g4, gD⟩ := bind_ok_inv gC
    cases gD
    obtain ⟨_, est⟩ := closeBlocks_opened _ _ _ _ g4
    rcases hcase with ⟨rfl, rfl⟩ | ⟨hi, b, hb, rfl⟩
    · -- level 0
      obtain ⟨hk1, hattc, hL, _, new, e1, e2, e3, e4⟩ := hw
      obtain ⟨_, hget⟩ := h7_blockAt_get elast
      have hlt : ((((b0 :: rest).length : Int) - 1)).toNat < (b0 :: rest).length := by
        rcases Nat.lt_or_ge ((((b0 :: rest).length : Int) - 1)).toNat (b0 :: rest).length with hh | hh
        · exact hh
        · rw [List.getElem?_eq_none hh] at hget; cases hget
      have hslot : slotAfter (b0 :: rest) u2.pc.opened ((((b0 :: rest).length : Int) - 1)).toNat = some lastNode := by
        unfold slotAfter
        rw [e1, List.getElem?_append_left hlt, hget]
      rw [hslot] at g4 est
      have hfrm : ((Option.map (fun x : Block => x.node) (some lastNode) != some lastNode.node) = true) = False := by
        simp
      simp only [hfrm, if_false] at g4 est
      have hst : t'.pc.opened = new := by
        rw [est, e1]
        have : ((((b0 :: rest).length : Int) - 1) + 1).toNat = (b0 :: rest).length := by omega
        rw [this]
        simp
      cases new with
      | nil =>
        intro b hb
        rw [hst] at hb
        cases hb
      | cons n0 more =>
        have hl1 : tl_Last n0.node u2 := by
          show (nd u2 0).children.getLast? = _
          rw [e3]
          simp [w6D]
        have hl2 := h7_closeBlocks (z := n0.node) _ 0 u2 t' _ (fun j b h1 h2 h3 => by
          rw [e1] at h3
          have hbm : b ∈ b0 :: rest := h7_blockAt_left (l := b0 :: rest) h3 (by omega)
          refine ⟨(hatt b hbm).2, ?_⟩
          have := (hk.opened b (ho ▸ hbm)).2
          have := e2 n0 List.mem_cons_self
          omega) hl1 g4
        intro b hb
        rw [hst] at hb
        cases hb
        exact hl2
    · -- level i > 0
      have hp : 0 < b.node := (hk.opened b (ho ▸ hb)).1
      obtain ⟨_, hl1, hh1⟩ := hw.topLast_pos hp b0 rest rfl hl
      obtain ⟨hk1, hattc, hL, _, new, e1, e2, e3, e4⟩ := hw
      have hl2 := h6_closeBlocks (z := b0.node) _ i u2 t' _ (fun j c h1 h3 => by
        refine ⟨(hattc c (Sh.blockAt_mem h3)).2, ?_⟩
        rw [e1] at h3
        have hm : c ∈ rest ++ new := h7_blockAt_tail h3 (by omega)
        rcases List.mem_append.1 hm with hm | hm
        · exact hne c hm
        · have := e2 c hm
          omega) hl1 g4
      intro c hc
      rw [est, e1] at hc
      obtain ⟨n, hn⟩ : ∃ n, i.toNat = n + 1 := ⟨i.toNat - 1, by omega⟩
      rw [hn] at hc
      have hc' : some b0 = some c := hc
      cases hc'
      exact hl2
  · rw [if_neg hr] at gB
    cases gB
    have hr' : r = OpenResult.paragraphContinuation := by simpa using hr
    have ho1 := openBlocks_opened p blank t r t' g2 (by rw [hr']; intro hh; cases hh)
    obtain ⟨hk1, hattc, hL, _, new, e1, e2, e3, e4⟩ := hw
    have hnew : new = [] := by
      rw [ho1, ho] at e1
      exact List.self_eq_append_right.1 e1
    subst hnew
    intro c hc
    rw [ho1, ho] at hc
    cases hc
    show (nd t' 0).children.getLast? = _
    rw [e3]
    exact hl

theorem h9_lineLoop (hJc : ∀ bp, Cov6 bp → ∀ (n : Nat) (s : St) (st : PState) (s' : St), J s → bpContinue bp n s = .ok (st, s') →
      (st.cont = false ∨ st.hasChildren = true) → J s') (b0 : Block) (rest : List Block)
    (hne : ∀ z ∈ rest, z.node ≠ b0.node) 
    (hleaf : ∀ pre be rem, b0 :: rest = pre ++ be :: rem → rem ≠ [] → be.bp.isContainer = true) :
    ∀ (rem : List Block) (i : Int) (bl : List LineStat) (t t' : St) (x : LineOutcome × List LineStat),
      J t → M6 b0 rest t → 0 ≤ i → (∀ z ∈ rem, z ∈ b0 :: rest) → (∃ pre, b0 :: rest = pre ++ rem) →
      lineLoop 0 (b0 :: rest) (((b0 :: rest).length : Int) - 1) rem i bl t = .ok (x, t') → TopLast t' := by
  intro rem
  induction rem with
  | nil =>
    intro i bl t t' x _ hm _ _ _ h
    unfold lineLoop at h
    cases h
    exact hm.top
  | cons be rem ih =>
    intro i bl t t' x hj hm hi hrem hsuf h
    rw [ll_lineLoop_cons] at h
    obtain ⟨lp, t1, h1, hA⟩ := bind_ok_inv h
    have hj1 := hJpk t lp t1 hj h1
    obtain ⟨r', e1⟩ := tl_peekLine_inv h1
    subst e1
    have hm1 : M6 b0 rest { t with r := r' } :=
      hm.links (Sh.a2_KS_same (s' := { t with r := r' }) hm.1 ⟨rfl, rfl⟩).1 (LinksKept.of_nodes rfl) rfl
    have ho1 := hm1.2.1
    cases hl : lp.1 with
    | none =>
      rw [hl] at hA
      obtain ⟨_, t2, h2, hB⟩ := bind_ok_inv hA
      obtain ⟨_, e2⟩ := closeBlocks_opened _ _ _ _ h2
      obtain ⟨_, t3, h3, hC⟩ := bind_ok_inv hB
      cases h3
      cases hC
      intro b hb
      exfalso
      have e2' : t2.pc.opened = [] := by
        rw [e2, ho1]
        have : ((((b0 :: rest).length : Int) - 1) + 1).toNat = (b0 :: rest).length := by omega
        rw [this, List.drop_length]
        rfl
      have hb' : t2.pc.opened.head? = some b := hb
      rw [e2'] at hb'
      cases hb'
    | some line =>
      rw [hl] at hA
      obtain ⟨y, t2, h2, hB⟩ := bind_ok_inv hA
      cases h2
      have hbe : be ∈ b0 :: rest := hrem be List.mem_cons_self
      have fall : ∀ u bl', J u → M6 b0 rest u →
          llFall 0 (b0 :: rest) (((b0 :: rest).length : Int) - 1) i
            ({ t with r := r' } : St).r.position.1 bl' u = .ok (x, t') → TopLast t' := by
        intro u bl' ju mu e
        unfold llFall at e
        by_cases c : (i != 0) = true
        · rw [if_pos c] at e
          obtain ⟨b, u1, g1, gA⟩ := bind_ok_inv e
          obtain ⟨eb, e1⟩ := liftE_ok_inv g1
          rw [e1] at gA
          have hi0 : i ≠ 0 := by simpa using c
          exact h9_llOpen hJr hJo hJlo hJpk hfree hJtrig b0 rest hne i b.node _ _ _ _ _ ju mu
            (Or.inr ⟨by omega, b, Sh.blockAt_mem eb, rfl⟩) gA
        · rw [if_neg c] at e
          have hi0 : i = 0 := by simpa using c
          exact h9_llOpen hJr hJo hJlo hJpk hfree hJtrig b0 rest hne i 0 _ _ _ _ _ ju mu (Or.inl ⟨hi0, rfl⟩) e
      unfold llBody at hB
      obtain ⟨bn, t3, h3, hC⟩ := bind_ok_inv hB
      obtain ⟨_, e3⟩ := a2_getNode_inv h3
      subst e3
      split at hC
      · obtain ⟨st, t4, h4, hD⟩ := bind_ok_inv hC
        have hbe1 : be ∈ ({ t with r := r' } : St).pc.opened := by rw [ho1]; exact hbe
        have hbn := hm1.1.opened be hbe1
        have k4 := (Sh.a2_bpContinue_KS be.bp be.node hbn.1 _ _ _ hm1.1 h4).1
        have hm4 : M6 b0 rest t4 := hm1.links k4 ((bpContinue_frl be.bp be.node).h _ _ _ h4)
          (bpContinue_opened be.bp be.node _ _ _ h4)
        have hcovbe := (hm1.2.2.1 be hbe).2
        by_cases hcont : st.cont = true
        · rw [if_pos hcont] at hD
          by_cases hch : st.hasChildren = true
          · have hj4 : J t4 := hJc be.bp hcovbe be.node _ _ _ hj1 h4 (Or.inr hch)
            split at hD
            · obtain ⟨_, t5, h5, hE⟩ := bind_ok_inv hD
              cases hE
              have hbn4 := hm4.1.opened be (by rw [hm4.2.1]; exact hbe)
              obtain ⟨q, hw⟩ := h9_openBlocks hJr hJo hJlo hJpk hfree hJtrig be.node _ t4 _ _ hj4 hm4.1
                (fun y hy => hm4.2.2.1 y (hm4.2.1 ▸ hy)) hbn4.2 h5
              rw [hm4.2.1] at hw
              exact (hw.topLast_pos hbn4.1 b0 rest rfl hm4.2.2.2).1
            · exact ih (i + 1) _ _ _ _ hj4 hm4 (by omega)
                (fun z hz => hrem z (List.mem_cons_of_mem _ hz))
                (by obtain ⟨pre, e⟩ := hsuf; exact ⟨pre ++ [be], by rw [e]; simp⟩) hD
          · have hf : st.hasChildren = false := Bool.eq_false_iff.2 hch
            rw [hf, Bool.false_and, if_neg Bool.false_ne_true] at hD
            cases rem with
            | nil =>
              unfold lineLoop at hD
              cases hD
              exact hm4.top
            | cons c cs =>
              exfalso
              obtain ⟨pre, e⟩ := hsuf
              have hcn := hleaf pre be (c :: cs) e (List.cons_ne_nil _ _)
              have hbq : be.bp = .blockquote := by
                have h6c := hcovbe
                cases hbp : be.bp <;> rw [hbp] at hcn h6c <;>
                  first | rfl | (cases hcn; done) | exact absurd rfl h6c.1 | exact absurd rfl h6c.2.1
              rw [hbq] at h4
              exact hch (Sh.blockquoteContinue_cont be.node _ _ _ h4 hcont)
        · rw [if_neg hcont] at hD
          have hj4 : J t4 := hJc be.bp hcovbe be.node _ _ _ hj1 h4 (Or.inl (Bool.eq_false_iff.2 hcont))
          exact fall _ _ hj4 hm4 hD
      · exact fall _ _ hj1 hm1 hC

/-- (T1) for `Plain6` sources and attached `Cov6` stacks, over any reader invariant `J` with the closure properties
    `hJr`, `hJo`, `hJlo`, `hJpk`, `hJc` -/
theorem topLast_lineLoopJ_of (hJc : ∀ bp, Cov6 bp → ∀ (n : Nat) (s : St) (st : PState) (s' : St), J s → bpContinue bp n s = .ok (st, s') →
      (st.cont = false ∨ st.hasChildren = true) → J s') (b0 : Block) (rest : List Block)
    (s s' : St) (bl : List LineStat) (x : LineOutcome × List LineStat) (hk : K s) (htop : TopLast s)
    (hop : s.pc.opened = b0 :: rest) (hcov : ∀ z ∈ b0 :: rest, Cov6 z.bp) (hj : J s)
    (hleaf : ∀ pre be rem, b0 :: rest = pre ++ be :: rem → rem ≠ [] → be.bp.isContainer = true)
    (hne : ∀ z ∈ rest, z.node ≠ b0.node) (hatt : ∀ z ∈ b0 :: rest, (nd s z.node).parent.isSome = true)
    (h : lineLoop 0 (b0 :: rest) (((b0 :: rest).length : Int) - 1) (b0 :: rest) 0 bl s = .ok (x, s')) :
    TopLast s' :=
  h9_lineLoop hJr hJo hJlo hJpk hfree hJtrig hJc b0 rest hne hleaf (b0 :: rest) 0 bl s s' x hj
    ⟨hk, hop, fun z hz => ⟨hatt z hz, hcov z hz⟩, htop b0 (by rw [hop]; rfl)⟩ (Int.le_refl 0) (fun z hz => hz) ⟨[], rfl⟩ h



theorem a9_llOpen (b0 : Block) (rest : List Block)
    (hinc : ((b0 :: rest).map (fun z : Block => z.node)).Pairwise (· < ·)) (i : Int) (p : Nat)
    (blank : Bool) (bl : List LineStat) (t t' : St) (x : LineOutcome × List LineStat) (hj : J t)
    (hm : M6 b0 rest t)
    (hcase : (i = 0 ∧ p = 0) ∨ (0 < i ∧ ∃ b, blockAt (b0 :: rest) (i - 1) = .ok b ∧ p = b.node))
    (h : llOpen (b0 :: rest) (((b0 :: rest).length : Int) - 1) i blank bl p t = .ok (x, t')) : AttAll t' := by
  obtain ⟨hk, ho, hatt, hl⟩ := hm
  unfold llOpen at h
  obtain ⟨lastNode, u1, g1, gA⟩ := bind_ok_inv h
  obtain ⟨elast, e1⟩ := liftE_ok_inv g1
  rw [e1] at gA
  obtain ⟨r, t1, g2, gB⟩ := bind_ok_inv gA
  have hi0 : 0 ≤ i ∧ i.toNat ≤ (b0 :: rest).length := by
    rcases hcase with ⟨rfl, _⟩ | ⟨hi, b, hb, _⟩
    · exact ⟨Int.le_refl 0, Nat.zero_le _⟩
    · obtain ⟨_, hg⟩ := h7_blockAt_get hb
      have : (i - 1).toNat < (b0 :: rest).length := by
        rcases Nat.lt_or_ge (i - 1).toNat (b0 :: rest).length with hh | hh
        · exact hh
        · rw [List.getElem?_eq_none hh] at hg; cases hg
      exact ⟨by omega, by omega⟩
  have hp0 : p < t.nodes.length := by
    rcases hcase with ⟨_, rfl⟩ | ⟨_, b, hb, rfl⟩
    · exact hk.doc.1
    · exact (hk.opened b (ho ▸ Sh.blockAt_mem hb)).2
  obtain ⟨q, hw⟩ := h9_openBlocks hJr hJo hJlo hJpk hfree hJtrig p blank t t1 r hj hk (fun y hy => hatt y (ho ▸ hy)) hp0 g2
  rw [ho] at hw
  obtain ⟨hk1, hattc, hL, _, new, e1, e2, e3, e4⟩ := hw
  by_cases hr : (r != OpenResult.paragraphContinuation) = true
  · rw [if_pos hr] at gB
    obtain ⟨pc, u2, g3, gC⟩ := bind_ok_inv gB
    obtain ⟨epc, e3'⟩ := a2_getPc_inv g3
    subst e3'
    subst epc
    obtain ⟨_, t2, g4, gD⟩ := bind_ok_inv gC
    cases gD
    obtain ⟨_, hget⟩ := h7_blockAt_get elast
    have hlt : ((((b0 :: rest).length : Int) - 1)).toNat < (b0 :: rest).length := by
      rcases Nat.lt_or_ge ((((b0 :: rest).length : Int) - 1)).toNat (b0 :: rest).length with hh | hh
      · exact hh
      · rw [List.getElem?_eq_none hh] at hget; cases hget
    have hslot : slotAfter (b0 :: rest) u2.pc.opened ((((b0 :: rest).length : Int) - 1)).toNat = some lastNode := by
      unfold slotAfter
      rw [e1, List.getElem?_append_left hlt, hget]
    rw [hslot] at g4
    have hfrm : ((Option.map (fun x : Block => x.node) (some lastNode) != some lastNode.node) = true) = False := by
      simp
    simp only [hfrm, if_false] at g4
    obtain ⟨_, est⟩ := closeBlocks_opened _ _ _ _ g4
    have hst : t'.pc.opened = (b0 :: rest).take i.toNat ++ new := by
      rw [est, e1, List.take_append_of_le_length hi0.2]
      have : ((((b0 :: rest).length : Int) - 1) + 1).toNat = (b0 :: rest).length := by omega
      rw [this]
      simp
    intro z hz
    rw [hst] at hz
    have hz1 : z ∈ u2.pc.opened := by
      rw [e1]
      rcases List.mem_append.1 hz with hz | hz
      · exact List.mem_append_left _ (List.mem_of_mem_take hz)
      · exact List.mem_append_right _ hz
    refine ⟨?_, (hattc z hz1).2⟩
    refine p6_closeBlocks (a := z.node) _ i u2 t' _ (fun j b h1 h2 h3 => ?_) (hattc z hz1).1 g4
    refine ⟨(hattc b (Sh.blockAt_mem h3)).2, ?_⟩
    rw [e1] at h3
    obtain ⟨_, hg⟩ := h7_blockAt_get h3
    have hjl : j.toNat < (b0 :: rest).length := by omega
    rw [List.getElem?_append_left hjl] at hg
    have hbm : b ∈ b0 :: rest := List.mem_of_getElem? hg
    have hbd : b ∈ (b0 :: rest).drop i.toNat := by
      have : ((b0 :: rest).drop i.toNat)[j.toNat - i.toNat]? = some b := by
        rw [List.getElem?_drop]
        have : i.toNat + (j.toNat - i.toNat) = j.toNat := by omega
        rw [this]; exact hg
      exact List.mem_of_getElem? this
    rcases List.mem_append.1 hz with hz | hz
    · have := a8_sep (b0 :: rest) hinc i.toNat z hz b hbd
      omega
    · have := e2 z hz
      have := (hk.opened b (ho ▸ hbm)).2
      omega
  · rw [if_neg hr] at gB
    cases gB
    exact hattc

theorem a9_lineLoop (hJc : ∀ bp, Cov6 bp → ∀ (n : Nat) (s : St) (st : PState) (s' : St), J s → bpContinue bp n s = .ok (st, s') →
      (st.cont = false ∨ st.hasChildren = true) → J s') (b0 : Block) (rest : List Block)
    (hinc : ((b0 :: rest).map (fun z : Block => z.node)).Pairwise (· < ·)) 
    (hleaf : ∀ pre be rem, b0 :: rest = pre ++ be :: rem → rem ≠ [] → be.bp.isContainer = true) :
    ∀ (rem : List Block) (i : Int) (bl : List LineStat) (t t' : St) (x : LineOutcome × List LineStat),
      J t → M6 b0 rest t → 0 ≤ i → (∀ z ∈ rem, z ∈ b0 :: rest) → (∃ pre, b0 :: rest = pre ++ rem) →
      lineLoop 0 (b0 :: rest) (((b0 :: rest).length : Int) - 1) rem i bl t = .ok (x, t') → AttAll t' := by
  intro rem
  induction rem with
  | nil =>
    intro i bl t t' x _ hm _ _ _ h
    unfold lineLoop at h
    cases h
    intro z hz
    exact hm.2.2.1 z (hm.2.1 ▸ hz)
  | cons be rem ih =>
    intro i bl t t' x hj hm hi hrem hsuf h
    rw [ll_lineLoop_cons] at h
    obtain ⟨lp, t1, h1, hA⟩ := bind_ok_inv h
    have hj1 := hJpk t lp t1 hj h1
    obtain ⟨r', e1⟩ := tl_peekLine_inv h1
    subst e1
    have hm1 : M6 b0 rest { t with r := r' } :=
      hm.links (Sh.a2_KS_same (s' := { t with r := r' }) hm.1 ⟨rfl, rfl⟩).1 (LinksKept.of_nodes rfl) rfl
    have ho1 := hm1.2.1
    cases hl : lp.1 with
    | none =>
      rw [hl] at hA
      obtain ⟨_, t2, h2, hB⟩ := bind_ok_inv hA
      obtain ⟨_, e2⟩ := closeBlocks_opened _ _ _ _ h2
      obtain ⟨_, t3, h3, hC⟩ := bind_ok_inv hB
      cases h3
      cases hC
      intro b hb
      exfalso
      have e2' : t2.pc.opened = [] := by
        rw [e2, ho1]
        have : ((((b0 :: rest).length : Int) - 1) + 1).toNat = (b0 :: rest).length := by omega
        rw [this, List.drop_length]
        rfl
      have hb' : b ∈ t2.pc.opened := hb
      rw [e2'] at hb'
      cases hb'
    | some line =>
      rw [hl] at hA
      obtain ⟨y, t2, h2, hB⟩ := bind_ok_inv hA
      cases h2
      have hbe : be ∈ b0 :: rest := hrem be List.mem_cons_self
      have fall : ∀ u bl', J u → M6 b0 rest u →
          llFall 0 (b0 :: rest) (((b0 :: rest).length : Int) - 1) i
            ({ t with r := r' } : St).r.position.1 bl' u = .ok (x, t') → AttAll t' := by
        intro u bl' ju mu e
        unfold llFall at e
        by_cases c : (i != 0) = true
        · rw [if_pos c] at e
          obtain ⟨b, u1, g1, gA⟩ := bind_ok_inv e
          obtain ⟨eb, e1⟩ := liftE_ok_inv g1
          rw [e1] at gA
          have hi0 : i ≠ 0 := by simpa using c
          exact a9_llOpen hJr hJo hJlo hJpk hfree hJtrig b0 rest hinc i b.node _ _ _ _ _ ju mu
            (Or.inr ⟨by omega, b, eb, rfl⟩) gA
        · rw [if_neg c] at e
          have hi0 : i = 0 := by simpa using c
          exact a9_llOpen hJr hJo hJlo hJpk hfree hJtrig b0 rest hinc i 0 _ _ _ _ _ ju mu (Or.inl ⟨hi0, rfl⟩) e
      unfold llBody at hB
      obtain ⟨bn, t3, h3, hC⟩ := bind_ok_inv hB
      obtain ⟨_, e3⟩ := a2_getNode_inv h3
      subst e3
      split at hC
      · obtain ⟨st, t4, h4, hD⟩ := bind_ok_inv hC
        have hbe1 : be ∈ ({ t with r := r' } : St).pc.opened := by rw [ho1]; exact hbe
        have hbn := hm1.1.opened be hbe1
        have k4 := (Sh.a2_bpContinue_KS be.bp be.node hbn.1 _ _ _ hm1.1 h4).1
        have hm4 : M6 b0 rest t4 := hm1.links k4 ((bpContinue_frl be.bp be.node).h _ _ _ h4)
          (bpContinue_opened be.bp be.node _ _ _ h4)
        have hcovbe := (hm1.2.2.1 be hbe).2
        by_cases hcont : st.cont = true
        · rw [if_pos hcont] at hD
          by_cases hch : st.hasChildren = true
          · have hj4 : J t4 := hJc be.bp hcovbe be.node _ _ _ hj1 h4 (Or.inr hch)
            split at hD
            · obtain ⟨_, t5, h5, hE⟩ := bind_ok_inv hD
              cases hE
              have hbn4 := hm4.1.opened be (by rw [hm4.2.1]; exact hbe)
              obtain ⟨q, hw⟩ := h9_openBlocks hJr hJo hJlo hJpk hfree hJtrig be.node _ t4 _ _ hj4 hm4.1
                (fun y hy => hm4.2.2.1 y (hm4.2.1 ▸ hy)) hbn4.2 h5
              exact hw.2.1
            · exact ih (i + 1) _ _ _ _ hj4 hm4 (by omega)
                (fun z hz => hrem z (List.mem_cons_of_mem _ hz))
                (by obtain ⟨pre, e⟩ := hsuf; exact ⟨pre ++ [be], by rw [e]; simp⟩) hD
          · have hf : st.hasChildren = false := Bool.eq_false_iff.2 hch
            rw [hf, Bool.false_and, if_neg Bool.false_ne_true] at hD
            cases rem with
            | nil =>
              unfold lineLoop at hD
              cases hD
              exact fun z hz => hm4.2.2.1 z (hm4.2.1 ▸ hz)
            | cons c cs =>
              exfalso
              obtain ⟨pre, e⟩ := hsuf
              have hcn := hleaf pre be (c :: cs) e (List.cons_ne_nil _ _)
              have hbq : be.bp = .blockquote := by
                have h6c := hcovbe
                cases hbp : be.bp <;> rw [hbp] at hcn h6c <;>
                  first | rfl | (cases hcn; done) | exact absurd rfl h6c.1 | exact absurd rfl h6c.2.1
              rw [hbq] at h4
              exact hch (Sh.blockquoteContinue_cont be.node _ _ _ h4 hcont)
        · rw [if_neg hcont] at hD
          have hj4 : J t4 := hJc be.bp hcovbe be.node _ _ _ hj1 h4 (Or.inl (Bool.eq_false_iff.2 hcont))
          exact fall _ _ hj4 hm4 hD
      · exact fall _ _ hj1 hm1 hC


/-- (T1) over an abstract reader invariant `J` -/
theorem topLast_lineLoopJ {src : Bytes} (hJc : ∀ bp, Cov6 bp → ∀ (n : Nat) (s : St) (st : PState) (s' : St), J s → bpContinue bp n s = .ok (st, s') →
      (st.cont = false ∨ st.hasChildren = true) → J s') (b0 : Block)
    (rest : List Block) (s s' : St) (bl : List LineStat) (x : LineOutcome × List LineStat) (hk : K s)
    (htop : TopLast s) (hop : s.pc.opened = b0 :: rest) (hcov : ∀ z ∈ b0 :: rest, Cov6 z.bp) (hj : J s)
    (hst : StableL src 0 s) (hatt : ∀ z ∈ b0 :: rest, (nd s z.node).parent.isSome = true)
    (h : lineLoop 0 (b0 :: rest) (((b0 :: rest).length : Int) - 1) (b0 :: rest) 0 bl s = .ok (x, s')) :
    TopLast s' :=
  topLast_lineLoopJ_of hJr hJo hJlo hJpk hfree hJtrig hJc b0 rest s s' bl x hk htop hop hcov hj
    (fun pre be rem e hr => Sh.leaf_of_stable hst pre be rem (hop.trans e) hr) (h7_hne hst b0 rest hop) hatt h

/-- after a pass every open block is attached and `Cov6`, over an abstract `J` -/
theorem attAll_lineLoopJ {src : Bytes} (hJc : ∀ bp, Cov6 bp → ∀ (n : Nat) (s : St) (st : PState) (s' : St), J s → bpContinue bp n s = .ok (st, s') →
      (st.cont = false ∨ st.hasChildren = true) → J s') (b0 : Block)
    (rest : List Block) (s s' : St) (bl : List LineStat) (x : LineOutcome × List LineStat) (hk : K s)
    (htop : TopLast s) (hop : s.pc.opened = b0 :: rest) (hcov : ∀ z ∈ b0 :: rest, Cov6 z.bp) (hj : J s)
    (hst : StableL src 0 s) (hatt : ∀ z ∈ b0 :: rest, (nd s z.node).parent.isSome = true)
    (h : lineLoop 0 (b0 :: rest) (((b0 :: rest).length : Int) - 1) (b0 :: rest) 0 bl s = .ok (x, s')) :
    AttAll s' := by
  have hinc : ((b0 :: rest).map (fun z : Block => z.node)).Pairwise (· < ·) := by
    have := hst.ls.incr
    rw [hop] at this
    exact (List.pairwise_cons.1 this).2
  exact a9_lineLoop hJr hJo hJlo hJpk hfree hJtrig hJc b0 rest hinc
    (fun pre be rem e hr => Sh.leaf_of_stable hst pre be rem (hop.trans e) hr)
    (b0 :: rest) 0 bl s s' x hj ⟨hk, hop, fun z hz => ⟨hatt z hz, hcov z hz⟩, htop b0 (by rw [hop]; rfl)⟩
    (Int.le_refl 0) (fun z hz => hz) ⟨[], rfl⟩ h

theorem att_lineLoopJ {src : Bytes} (hJc : ∀ bp, Cov6 bp → ∀ (n : Nat) (s : St) (st : PState) (s' : St), J s → bpContinue bp n s = .ok (st, s') →
      (st.cont = false ∨ st.hasChildren = true) → J s') (b0 : Block)
    (rest : List Block) (s s' : St) (bl : List LineStat) (x : LineOutcome × List LineStat) (hk : K s)
    (htop : TopLast s) (hop : s.pc.opened = b0 :: rest) (hcov : ∀ z ∈ b0 :: rest, Cov6 z.bp) (hj : J s)
    (hst : StableL src 0 s) (hatt : ∀ z ∈ b0 :: rest, (nd s z.node).parent.isSome = true)
    (h : lineLoop 0 (b0 :: rest) (((b0 :: rest).length : Int) - 1) (b0 :: rest) 0 bl s = .ok (x, s')) :
    ∀ z ∈ s'.pc.opened, (nd s' z.node).parent.isSome = true := fun z hz =>
  (attAll_lineLoopJ hJr hJo hJlo hJpk hfree hJtrig hJc b0 rest s s' bl x hk htop hop hcov hj hst hatt h z hz).1

/-- `openBlocks 0` on an empty stack leaves every open block attached and `Cov6`, over an abstract `J` -/
theorem att_openBlocks0J (blank : Bool) (s s' : St) (r : OpenResult) (hk : K s) (hop : s.pc.opened = []) (hj : J s)
    (h : openBlocks 0 blank s = .ok (r, s')) :
    ∀ z ∈ s'.pc.opened, (nd s' z.node).parent.isSome = true ∧ Cov6 z.bp := by
  obtain ⟨q, hw⟩ := h9_openBlocks hJr hJo hJlo hJpk hfree hJtrig 0 blank s s' r hj hk
    (fun y hy => by rw [hop] at hy; cases hy) hk.doc.1 h
  exact hw.2.1

end j9

end GM.Blocks.Xs
