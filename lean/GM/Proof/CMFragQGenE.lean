/-
  GM.Proof.CMFragQGenE — the abstract block-quote composition (CMFragQGen) for a document WITHOUT its final line feed, and
  the union fragment (stage 13) inside a block quote without final line feed.
-/
import GM.Proof.CMFrag13Quote
import GM.Proof.CMFragQMainE

namespace GM.Proof.CMFrag
open GM GM.Text GM.Blocks GM.Spec

/-- `BlockDTQ` for a block whose last line ends the source without a line feed -/
def BlockDTQE (env : GM.Inl.Env) (b : Raw5) (n : GM.Node) : Prop :=
  ∀ (S : Bytes) (p : Nat) (bk : Bool) (m' : Blocks.Node), ParaAtE S p (lines5 b) →
    NodeRel S false (node5 p b bk) m' →
    GM.Convert.docTree true env (quotePrefix S) (.node m' []) = .ok n

theorem blockDTQE_good (env : GM.Inl.Env) (henv : env.escapedSpace = false) (b : Raw5) (hg : Good5' b)
    (hnic : isIcB b = false) : BlockDTQE env b (rawNode5 b) :=
  fun _ p bk m' hpa hr => docTree_blockQE env henv b p bk hg hnic hpa m' hr

theorem docTrees_quoteNE {S : Bytes} (env : GM.Inl.Env) :
    ∀ (items : List (Nat × Raw5)) (ns : List GM.Node) (trail q : Nat) (bs : List Bool) (kidsB : List Blocks.Node),
      DocAt6E S q items trail → AllBlk (fun b n => BlockDTQ env b n ∧ BlockDTQE env b n) items ns →
      bs.length = items.length →
      RelL (NodeRel S false) (mkNodes5 (closedOf6 q items) (items.map (·.2)) bs) kidsB →
      GM.Convert.docTrees true env (quotePrefix S) (kidsB.map (fun n => Tree.node n [])) = .ok ns
  | [], _, _, _, _, _, h, _, _, _ => h.elim
  | _ :: _, [], _, _, _, _, _, h, _, _ => h.elim
  | _ :: _, _ :: _, _, _, [], _, _, _, hl, _ => by simp at hl
  | [(s, b)], [n], trail, q, bk :: bs, kidsB, h, hb, hl, hr => by
    obtain ⟨_, _, hE⟩ := h
    cases kidsB with
    | nil => simp [closedOf6, mkNodes5, RelL] at hr
    | cons m' kidsB' =>
      simp only [closedOf6, List.map_cons, List.map_nil, mkNodes5, RelL] at hr
      cases kidsB' with
      | cons _ _ =>
        exact hr.2.elim
      | nil =>
        simp only [List.map_cons, List.map_nil, GM.Convert.docTrees, hb.1.2 S (q + s) bk m' hE hr.1, bind,
          Except.bind, pure, Except.pure]
  | [(s, b)], n :: n' :: ns, _, _, _, _, _, hb, _, _ => hb.2.elim
  | (s, b) :: it :: rest, n :: ns, trail, q, bk :: bs, kidsB, h, hb, hl, hr => by
    obtain ⟨_, hpa, hdr⟩ := h
    have hle := docAt6E_le (it :: rest) trail _ hdr
    cases kidsB with
    | nil => simp [closedOf6, mkNodes5, RelL] at hr
    | cons m' kidsB' =>
      simp only [closedOf6, List.map_cons, mkNodes5, RelL] at hr
      have ih := docTrees_quoteNE env (it :: rest) ns trail _ bs kidsB' hdr hb.2
        (by simpa using hl) (by simpa only [closedOf6, List.map_cons] using hr.2)
      simp only [List.map_cons, GM.Convert.docTrees, hb.1.1 S (q + s) bk m' hpa (by omega) hr.1, bind, Except.bind,
        pure, Except.pure]
      rw [ih]

theorem convert_quote_gen7 (H : BPFree) (uc : List (Nat × (Bool × Bool))) (items : List (Nat × Raw5)) (hne : items ≠ [])
    (hgood : ∀ it ∈ items, Good5 it.2) (hseps : SepsOK6 none items) (hnoic : ∀ it ∈ items, isIcB it.2 = false)
    (hno : ∀ it ∈ items, lines5 it.2 ≠ [] ∧ (∀ l, (lines5 it.2).getLast? = some l → l ≠ []) ∧
      ∀ l ∈ lines5 it.2, ∀ c ∈ l, c ≠ 10)
    (hclass : C08ClassL (rawDoc6E items)) (hnb : ∀ b ∈ rawDoc6E items, b ≠ 91)
    (ns : List GM.Node) (html : Bytes)
    (hblk : ∀ env : GM.Inl.Env, env.escapedSpace = false →
      AllBlk (fun b n => BlockDTQ env b n ∧ BlockDTQE env b n) items ns)
    (hr : GM.Convert.renderDoc cmOpts (.mk .document none [.mk .blockquote none ns]) = .ok html) :
    GM.Convert.convertCore uc cmOpts (quotePrefix (rawDoc6E items)) = .ok html := by
  obtain ⟨s', bs, h1, h2, h3, h4⟩ := runT_doc7 atxOpenE_holds hrOpenE_holds fenceCloseE_holds items hne hgood hseps
    (icOK6_of_none _ false hnoic) hno
  rw [mkNodes5L_congr node5E node5 _ _ _ (fun b hb p bk => node5E_of_notIc b
      (lastNotIc_getLast items (lastNotIc_of_none _ hnoic) b hb) p bk), mkNodes5L_node5] at h3
  have hrunT : GM.Convert.blockPhase true (rawDoc6E items) = .ok s' := h1
  have hA : GM.Blocks.run (rawDoc6E items) = .ok s' := by rw [← H _ hnb]; exact hrunT
  obtain ⟨sB, hB, hrel, _⟩ := run_sim hclass hA
  have hBP : GM.Convert.blockPhase true (quotePrefix (rawDoc6E items)) = .ok sB := by
    rw [H _ (noBracket_quotePrefix _ hnb)]; exact hB
  have hd := docAt6E_raw items [] hne hno
  simp only [List.nil_append, List.length_nil] at hd
  have hlen : (closedOf6 0 items).length = items.length := closedOf6_length items 0
  have hml := mkNodes5_length (closedOf6 0 items) (items.map (·.2)) bs (by simp [hlen]) (by rw [hlen]; exact h2)
  rw [h3] at hrel
  obtain ⟨bq, kidsB, htree, hbk, hbl, hkids⟩ := treeOf_quoteQ (addKids { kind := .document } 0 items.length)
    (mkNodes5 (closedOf6 0 items) (items.map (·.2)) bs) sB.nodes items.length (by simp [addKids]) rfl
    (by rw [hml, hlen]) (mkNodes5_children _ _ _) hrel
  have hdt := docTrees_quoteNE (S := rawDoc6E items) { refs := sB.pc.refs, uc := uc } items ns 0 0 bs kidsB hd
    (hblk _ rfl) h2 hkids
  unfold GM.Convert.convertCore GM.Convert.convertWith GM.Convert.parseDoc
  simp only [hBP, GM.Convert.liftErr, bind, Except.bind, htree, GM.Convert.docTree, GM.Convert.docTrees, hdt,
    GM.Convert.inlinePhase, hbk, hbl, GM.Convert.isRawKind, GM.Convert.blockKind, List.isEmpty_nil, pure, Except.pure]
  have hit0 : GM.Convert.inlineTrees (quotePrefix (rawDoc6E items)) [] = .ok [] := rfl
  simpa [hit0] using hr

/-! ### the union fragment -/

theorem blockDTQE_para (env : GM.Inl.Env) (ls : List Bytes) (hne : ls ≠ []) (hb : ∀ l ∈ ls, BlkLine l)
    (ns : List GM.Node) (hin : ParaDTG env ls ns) :
    BlockDTQE env (.old (.para ls)) (.mk .paragraph none ns) := by
  obtain ⟨kidsAt, hpb, hit⟩ := hin
  intro S p bk m' h hr
  have hk := hr.kind
  have hli := hr.lines
  simp only [Bool.false_eq_true, if_false] at hk
  simp only [node5, node4, paraN] at hk hli
  have hpa : ParaAtE S p ls := by simpa [lines5, lines4] using h
  have hnel : ∀ l ∈ ls, l ≠ [] := fun l hl => blkLine_ne (hb l hl)
  obtain ⟨ps, hL, hG⟩ := segsRel_paraQ ls p m'.lines (linesAtE_of_paraAtE ls p hpa) hnel hli
  exact docTree_linesQ env ls ps m' .paragraph hL (by rw [hk]; rfl)
    (by simp [GM.Convert.blockKind, hk, pure, Except.pure]) hne hnel hG _ ns (hpb _ ps hG) (hit _ ps hG)

theorem blockDTQE_atx (env : GM.Inl.Env) (level : Nat) (l : Bytes) (hb : BlkLine l) (ns : List GM.Node)
    (hin : ParaDTG env [l] ns) :
    BlockDTQE env (.old (.atx level l)) (.mk (.heading level) none ns) := by
  obtain ⟨kidsAt, hpb, hit⟩ := hin
  have hlne : l ≠ [] := blkLine_ne hb
  intro S p bk m' h hr
  have hk := hr.kind
  have hli := hr.lines
  have hlv := hr.level
  simp only [Bool.false_eq_true, if_false] at hk
  simp only [node5, node4, headN] at hk hli hlv
  obtain ⟨hln, heof⟩ : Ln S p (p + (List.replicate level 35 ++ 32 :: l).length)
      (List.replicate level 35 ++ 32 :: l) ∧ p + (List.replicate level 35 ++ 32 :: l).length = S.length := by
    simpa [lines5, lines4, ParaAtE] using h
  have hsub : sub S (p + level + 1) (p + (List.replicate level 35 ++ 32 :: l).length) = l := by
    have := sub_drop_prefix S p (p + (List.replicate level 35 ++ 32 :: l).length) (List.replicate level 35 ++ [32]) l
      (by rw [hln.sub]; simp) (by simp)
    simpa [Nat.add_assoc] using this
  have hE : p + (List.replicate level 35 ++ 32 :: l).length = p + level + 1 + l.length := by simp; omega
  rw [hE] at hsub
  have hle : p + level + 1 + l.length ≤ S.length := by have := hln.le; omega
  obtain ⟨A, hL, hG⟩ := segsRel_oneQ (p + level + 1) l m'.lines hlne hsub hle hli
  exact docTree_linesQ env [l] [A] m' (.heading level) hL (by rw [hk]; rfl)
    (by simp [GM.Convert.blockKind, hk, hlv, pure, Except.pure]) (by simp) (by simpa using hlne) hG _ ns
    (hpb _ [A] hG) (hit _ [A] hG)

theorem blockDTQE_u (H : U13InlG) (env : GM.Inl.Env) (henv : env.escapedSpace = false) (b : UBlock) (h : UGood b)
    (hn : b.isIc = false) : BlockDTQE env (uraw b) (uNode b) := by
  cases b with
  | para ls =>
    exact blockDTQE_para env (ls.map ulineSrc) (by simpa using h.1) (ulines_blk ls h.2) (uNodes ls) (H env henv ls h.1 h.2)
  | atx level l =>
    have hok : ULinesOK [⟨l, false⟩] := ⟨by simpa using h.2.2.1, by simp⟩
    have hin := H env henv [⟨l, false⟩] (by simp) hok
    have e1 : [(⟨l, false⟩ : ULine)].map ulineSrc = [elineSrc l] := by simp [ulineSrc]
    rw [e1] at hin
    exact blockDTQE_atx env level (elineSrc l) (erichLine_blk h.2.2.1) _ hin
  | hr x => exact blockDTQE_good env henv _ h rfl
  | fence fc n info ls => exact blockDTQE_good env henv _ h rfl
  | icode ls => exact Bool.noConfusion hn

theorem allBlkQE_u (H : U13InlG) (env : GM.Inl.Env) (henv : env.escapedSpace = false) :
    ∀ (items : List (Nat × UBlock)), (∀ it ∈ items, UGood it.2) → (∀ it ∈ items, it.2.isIc = false) →
    AllBlk (fun b n => BlockDTQ env b n ∧ BlockDTQE env b n) (items.map fun it => (it.1, uraw it.2))
      (items.map fun it => uNode it.2)
  | [], _, _ => trivial
  | it :: rest, h, hn =>
    ⟨⟨blockDTQ_u H env henv it.2 (h it (by simp)) (hn it (by simp)),
        blockDTQE_u H env henv it.2 (h it (by simp)) (hn it (by simp))⟩,
      allBlkQE_u H env henv rest (fun x hx => h x (by simp [hx])) (fun x hx => hn x (by simp [hx]))⟩

/-- the union fragment (without indented code blocks) inside a block quote, without the final line feed -/
theorem convert_quote13E (HB : BPFree) (H : U13InlG) (uc : List (Nat × (Bool × Bool))) (items : List (Nat × UBlock))
    (hne : items ≠ []) (hgood : ∀ it ∈ items, UGood it.2) (hnoic : ∀ it ∈ items, it.2.isIc = false)
    (hseps : SepsOK6 none (items.map fun it => (it.1, uraw it.2)))
    (hclass : C08ClassL (rawDoc6E (items.map fun it => (it.1, uraw it.2))))
    (hnb : ∀ b ∈ rawDoc6E (items.map fun it => (it.1, uraw it.2)), b ≠ 91) (html : Bytes)
    (hr : GM.Convert.renderDoc cmOpts (.mk .document none [.mk .blockquote none (items.map fun it => uNode it.2)]) =
      .ok html) :
    GM.Convert.convertCore uc cmOpts (quotePrefix (rawDoc6E (items.map fun it => (it.1, uraw it.2)))) = .ok html := by
  refine convert_quote_gen7 HB uc _ (by simpa using hne) ?_ hseps (uitems_noic items hnoic) ?_ hclass hnb _ html
    (fun env henv => allBlkQE_u H env henv items hgood hnoic) hr
  · intro x hx
    obtain ⟨it, hit, rfl⟩ := List.mem_map.mp hx
    exact good5_uraw it.2 (hgood it hit)
  · intro x hx
    obtain ⟨it, hit, rfl⟩ := List.mem_map.mp hx
    exact ⟨lines5_ne _ (good5_uraw it.2 (hgood it hit)), uraw_lastNe it.2 (hgood it hit), uraw_noNl it.2 (hgood it hit)⟩

end GM.Proof.CMFrag
