-- GENERATED from BlocksT.lean by tools/port_blocks_v.py (package headingids): the same proofs for the monitored driver runV. Do not edit.
/-
  GM.Proof.BlocksT — termination of the block phase WITH paragraph transformers (GM.Model.Blocks.DriverT):
  for every list of paragraph transformers that keep every reader-only invariant and never exhaust fuel (`PTsOK`),
  `runV pts src ≠ .error .loop` for every source. The proofs are those of GM.Proof.BlocksPres / BlocksRetry /
  BlocksTerm carried over to the driver with transformers (the parser-level lemmas are reused as they are).
-/
import GM.Proof.BlocksT
import GM.Proof.BlocksVPre

namespace GM.Blocks.V
open GM GM.Text

section driver
variable {I : St → Prop} (h : RPrims I) {pts : List PT} (hp : PTsOK pts)
include h hp

theorem closeLoopV_pres (blocks : List Block) (to : Int) (k : Nat) : Pres I (closeLoopV pts blocks to k) := by
  have := bpCloseV_pres h
  have := transformParagraph_pres h pts hp
  induction k with
  | zero => unfold closeLoopV; pres
  | succ k ih => unfold closeLoopV; pres

theorem closeBlocksV_pres (frm to : Int) : Pres I (closeBlocksV pts frm to) := by
  have := h.ronly
  have := closeLoopV_pres h hp
  unfold closeBlocksV; pres

theorem requireParaV_pres (parent : Nat) (last : Option Nat) (lastBlock : Option Block) :
    Pres I (requireParaV pts parent last lastBlock) := by
  have := h.ronly
  have := bpCloseV_pres h
  have := transformParagraph_pres h pts hp
  unfold requireParaV; pres

theorem tryParsersV_pres (parent : Nat) (blankLine continuable : Bool) (w : Int) (bps : List BP)
    (result : OpenResult) (lastBlock : Option Block) :
    Pres I (tryParsersV pts parent blankLine continuable w bps result lastBlock) := by
  have := h.ronly
  have := bpOpen_pres h
  have := requireParaV_pres h hp
  have := closeBlocksV_pres h hp
  have := appendChild_pres h
  have := lastOpenedBlock_pres h
  induction bps generalizing result lastBlock with
  | nil => unfold tryParsersV; pres
  | cons bp bps ih => unfold tryParsersV; pres

end driver

/-! ### the retry loop -/

theorem retryStepV_ok {src : Bytes} {pts : List PT} (hp : PTsOK pts) (b : Int) (blank : Bool) (fuel : Nat)
    (again : Bool → Bool → Nat → OpenResult → Option Block → M OpenResult)
    (hk : ∀ td c p r l, Tr (fun s => Stop src b s ∧ phi src s + tcost td < fuel) (again td c p r l) (fun _ s' => Stop src b s'))
    (tdone cont : Bool) (parent : Nat) (w : Int) (bps : List BP) (result : OpenResult) (lb : Option Block) :
    Tr (fun s => Stop src b s ∧ phi src s + tcost tdone < fuel + 1)
      (retryStepV pts blank tdone cont parent w bps result lb again) (fun _ s' => Stop src b s') := by
  have prims := stop_prims src b
  unfold retryStepV
  refine Tr.bind (R := fun s0 s => Stop src b s ∧ retryMeasure s0 + tcost tdone < fuel + 1) ⟨fun s hs => ⟨hs.1, hs.2⟩⟩ (fun s0 => ?_)
  refine Tr.bind (R := fun _ s => Stop src b s ∧ retryMeasure s0 + tcost tdone < fuel + 1) ?_ (fun x => ?_)
  · constructor
    intro s hs
    have hpres := tryParsersV_pres prims hp parent blank cont w bps result lb
    have h1 := hpres.h s hs.1
    cases ht : tryParsersV pts parent blank cont w bps result lb s with
    | error e => rw [ht] at h1; exact h1
    | ok y => rw [ht] at h1; exact ⟨h1, hs.2⟩
  · obtain ⟨outcome, res, lb'⟩ := x
    cases outcome with
    | retry p' =>
      simp only
      refine Tr.bind (R := fun s1 s => Stop src b s ∧ retryMeasure s0 + tcost tdone < fuel + 1 ∧ s1 = s)
        ⟨fun s hs => ⟨hs.1, hs.2, rfl⟩⟩ (fun s1 => ?_)
      refine Tr.ite (fun _ => ⟨fun _ _ => (by decide : Panic.pre ≠ Panic.loop)⟩) (fun hc => ?_)
      have hlt : retryMeasure s1 < retryMeasure s0 := by simpa using hc
      exact (hk tdone cont p' res lb').weaken (fun s hs => ⟨hs.1, by rw [← hs.2.2]; have := hs.2.1; unfold phi; omega⟩)
    | retryTransformed =>
      simp only
      refine Tr.bind (R := fun s1 s => Stop src b s ∧ retryMeasure s0 + tcost tdone < fuel + 1 ∧ s1 = s)
        ⟨fun s hs => ⟨hs.1, hs.2, rfl⟩⟩ (fun s1 => ?_)
      refine Tr.ite (fun _ => ⟨fun _ _ => (by decide : Panic.pre ≠ Panic.loop)⟩) (fun hc => ?_)
      have hc' : tdone = false ∧ retryMeasure s1 ≤ retryMeasure s0 := by
        cases tdone <;> simp at hc ⊢
        exact hc
      obtain ⟨htd, hle⟩ := hc'
      subst htd
      exact (hk true false parent res lb').weaken
        (fun s hs => ⟨hs.1, by rw [← hs.2.2]; have := hs.2.1; unfold phi tcost at *; simp at *; omega⟩)
    | done =>
      simp only
      exact Tr.of_pres (toContinuable_pres prims cont res lb') (fun s hs => hs.1)

theorem openBlocksLoopV_ok {src : Bytes} {pts : List PT} (hp : PTsOK pts) (b : Int) (blank : Bool) :
    ∀ (fuel : Nat) (tdone cont : Bool) (parent : Nat) (result : OpenResult) (lb : Option Block),
      Tr (fun s => Stop src b s ∧ phi src s + tcost tdone < fuel) (openBlocksLoopV pts blank fuel tdone cont parent result lb)
        (fun _ s' => Stop src b s') := by
  intro fuel
  induction fuel with
  | zero => intro _ _ _ _ _; exact ⟨fun s hs => by have := hs.2; omega⟩
  | succ fuel ih =>
    intro tdone cont parent result lb
    have prims := stop_prims src b
    -- the bound of RetryInv for this iteration
    have hn : ∀ s, phi src s + tcost tdone < fuel + 1 ↔ phi src s < fuel + 1 - tcost tdone := by
      intro s; unfold tcost; split <;> omega
    have exit : ∀ hl r l, Tr (RetryInv src b (fuel + 1 - tcost tdone) hl) (toContinuable cont r l) (fun _ s' => Stop src b s') :=
      fun hl r l => Tr.of_pres (toContinuable_pres prims cont r l) (fun s hs => hs.stop)
    have step : ∀ hl w bps, Tr (RetryInv src b (fuel + 1 - tcost tdone) hl)
        (retryStepV pts blank tdone cont parent w bps result lb (openBlocksLoopV pts blank fuel)) (fun _ s' => Stop src b s') :=
      fun hl w bps => (retryStepV_ok hp b blank fuel _ ih tdone cont parent w bps result lb).weaken
        (fun s hs => ⟨hs.stop, (hn s).2 hs.fuel⟩)
    unfold openBlocksLoopV
    refine Tr.bind (retryInv_peekLine.weaken (fun s hs => ⟨hs.1, (hn s).1 hs.2⟩)) (fun x => ?_)
    obtain ⟨line, seg⟩ := x
    simp only
    refine Tr.bind (Tr.of_pres retryInv_lineOffset (fun _ h => h)) (fun lo => ?_)
    refine Tr.bind (R := fun _ s => RetryInv src b (fuel + 1 - tcost tdone) line.isSome s) ?_ (fun _ => ?_)
    · exact Tr.of_pres (retryInv_modPc _ (fun pc => by split <;> rfl)) (fun _ h => h)
    · refine Tr.ite (fun _ => exit _ _ _) (fun hnone => ?_)
      refine Tr.bind (Tr.of_pres (retryInv_liftE _ (idx_noLoop _ _)) (fun _ h => h)) (fun c => ?_)
      refine Tr.ite (fun _ => exit _ _ _) (fun _ => ?_)
      refine Tr.ite (fun _ => ?_) (fun _ => ?_)
      · refine Tr.bind (Tr.of_pres (retryInv_liftE _ (idx_noLoop _ _)) (fun _ h => h)) (fun c => ?_)
        refine Tr.bind (R := fun _ s => RetryInv src b (fuel + 1 - tcost tdone) line.isSome s) (Tr.pure _ (fun _ h => h)) (fun bps => ?_)
        exact step _ _ bps
      · refine Tr.bind (R := fun _ s => RetryInv src b (fuel + 1 - tcost tdone) line.isSome s) (Tr.pure _ (fun _ h => h)) (fun bps => ?_)
        exact step _ _ bps

/-- what the line loops need from `openBlocksV` -/
def OpenOKV (pts : List PT) (src : Bytes) : Prop := ∀ b parent blank, Pres (Stop src b) (openBlocksV pts parent blank)

/-- `openBlocksV` keeps the line-level invariant and its retry loop has enough fuel -/
theorem openOKV {pts : List PT} (hp : PTsOK pts) (src : Bytes) : OpenOKV pts src := by
  intro b parent blank
  have prims := stop_prims src b
  apply Tr.toPres
  unfold openBlocksV
  refine Tr.bind (Tr.of_pres (lastOpenedBlock_pres prims) (fun _ h => h)) (fun lb => ?_)
  have jp : ∀ cont : Bool, Tr (fun s => Stop src b s)
      (do let v ← source; openBlocksLoopV pts blank (retryFuel v) false cont parent OpenResult.noBlocksOpened lb)
      (fun _ s => Stop src b s) := by
    intro cont
    refine Tr.bind (R := fun v s => Stop src b s ∧ v = src) ⟨fun s hs => ⟨hs, hs.source⟩⟩ (fun v => ?_)
    refine (openBlocksLoopV_ok hp b blank (retryFuel v) false cont parent .noBlocksOpened lb).weaken (fun s hs => ?_)
    obtain ⟨h1, h2⟩ := hs
    subst h2
    have : phi s.r.source s + tcost false < retryFuel s.r.source := by
      unfold phi retryMeasure retryFuel tcost; split <;> simp <;> omega
    rw [h1.source] at this
    exact ⟨h1, this⟩
  simp only
  split
  · refine Tr.bind (Tr.of_pres (getNode_pres _) (fun _ h => h)) (fun n => ?_)
    refine Tr.bind (R := fun _ s => Stop src b s) (Tr.pure _ (fun _ h => h)) (fun cont => jp cont)
  · refine Tr.bind (R := fun _ s => Stop src b s) (Tr.pure _ (fun _ h => h)) (fun cont => jp cont)

/-! ### the line loops -/

theorem lineLoopV_pres {src : Bytes} {pts : List PT} (hp : PTsOK pts) (hob : OpenOKV pts src) (b : Int) (parent : Nat)
    (ob : List Block) (li : Int) (rest : List Block) (i : Int) (bl : List LineStat) :
    Pres (Stop src b) (lineLoopV pts parent ob li rest i bl) := by
  have hpr := stop_prims src b
  have := hpr.ronly; have := hpr.peekLine
  have := closeBlocksV_pres hpr hp
  have := advanceLine_stop src b
  have := bpContinue_pres hpr
  have := hob b
  induction rest generalizing i bl with
  | nil => unfold lineLoopV; pres
  | cons be rest ih => unfold lineLoopV; pres

theorem lineLoopV_next_hasLine (pts : List PT) (parent : Nat) (ob : List Block) (li : Int) (rest0 : List Block)
    (hne : rest0 ≠ []) (i : Int) (bl bl' : List LineStat) (s s' : St)
    (h : lineLoopV pts parent ob li rest0 i bl s = .ok ((.next, bl'), s')) : hasLine s.r = true := by
  obtain ⟨be, rest, rfl⟩ := List.exists_cons_of_ne_nil hne
  cases hl : hasLine s.r with
  | true => rfl
  | false =>
    exfalso
    have hp := peekLine_none_of_noLine s.r hl
    unfold lineLoopV at h
    simp only [bind, StateT.bind, GM.Blocks.peekLine, hp, Except.bind, pure, Except.pure] at h
    cases hc : closeBlocksV pts li 0 s with
    | error e => simp [hc] at h
    | ok x =>
      simp only [hc, advanceLine, StateT.pure, pure, Except.pure] at h
      cases h

theorem linesLoopV_ok {src : Bytes} {pts : List PT} (hp : PTsOK pts) (hob : OpenOKV pts src) (parent : Nat) :
    ∀ (fuel : Nat) (bl : List LineStat) (s : St) (b : Int), Stop src b s → mu src s.r < fuel →
      match linesLoopV pts parent fuel bl s with
      | .ok ((ret, _), s') => Stop src b s' ∧ (ret = false → mu src s'.r ≤ mu src s.r)
      | .error e => e ≠ Panic.loop := by
  intro fuel
  induction fuel with
  | zero => intro bl s b _ h; omega
  | succ fuel ih =>
    intro bl s b hs hmu
    unfold linesLoopV
    simp only [bind, StateT.bind, getPc, Except.bind, pure, Except.pure, StateT.pure]
    by_cases hl0 : (s.pc.opened.length == 0) = true
    · simp only [hl0, if_true]
      exact ⟨hs, fun _ => Nat.le_refl _⟩
    · simp only [hl0, Bool.false_eq_true, if_false, StateT.bind]
      have hne : s.pc.opened ≠ [] := by
        intro e; rw [e] at hl0; simp at hl0
      obtain ⟨be, rest, hbr⟩ := List.exists_cons_of_ne_nil hne
      have hpres := lineLoopV_pres hp hob b parent s.pc.opened ((s.pc.opened.length : Int) - 1) s.pc.opened 0 bl
      have hpres2 := lineLoopV_pres hp hob s.r.pos.stop parent s.pc.opened ((s.pc.opened.length : Int) - 1) s.pc.opened 0 bl
      have hs2 : Stop src s.r.pos.stop s := ⟨hs.source, hs.stop0, hs.stop_le, Int.le_refl _⟩
      cases hr : lineLoopV pts parent s.pc.opened ((s.pc.opened.length : Int) - 1) s.pc.opened 0 bl s with
      | error e => simp only [bind, Except.bind]; exact fun he => hpres.noLoop hs (he ▸ hr)
      | ok x =>
        obtain ⟨⟨outcome, bl1⟩, s1⟩ := x
        have h1 : Stop src b s1 := hpres.ok hs hr
        have h1' : Stop src s.r.pos.stop s1 := hpres2.ok hs2 hr
        cases outcome with
        | eof => simp only [bind, Except.bind, StateT.pure, pure, Except.pure]; exact ⟨h1, fun h => by cases h⟩
        | next =>
          simp only [bind, Except.bind, StateT.bind, advanceLine, pure, Except.pure]
          have hline : hasLine s.r = true :=
            lineLoopV_next_hasLine pts parent _ _ _ hne 0 bl bl1 s s1 hr
          have hdec := mu_next hline h1'.toR hs.toR
          have h2 : Stop src b { s1 with r := s1.r.advanceLine } := h1.toR.advanceLine.toS
          have := ih bl1 { s1 with r := s1.r.advanceLine } b h2 (by simp only; omega)
          revert this
          cases linesLoopV pts parent fuel bl1 { s1 with r := s1.r.advanceLine } with
          | error e => exact id
          | ok y =>
            obtain ⟨⟨ret, bl2⟩, s3⟩ := y
            intro this
            exact ⟨this.1, fun hr' => by have := this.2 hr'; simp only at this; omega⟩

theorem blocksLoopV_ok {src : Bytes} {pts : List PT} (hp : PTsOK pts) (hob : OpenOKV pts src) (parent : Nat) :
    ∀ (fuel : Nat) (bl : List LineStat) (s : St) (b : Int), Stop src b s → mu src s.r < fuel →
      match blocksLoopV pts parent fuel bl s with
      | .ok (_, s') => Stop src b s'
      | .error e => e ≠ Panic.loop := by
  intro fuel
  induction fuel with
  | zero => intro bl s b _ h; omega
  | succ fuel ih =>
    intro bl s b hs hmu
    unfold blocksLoopV
    simp only [bind, StateT.bind, skipBlankLinesR]
    have hsk := skipBlank_ok (loopFuel s.r.source) 0 s.r b hs.toR (by rw [hs.source]; exact mu_lt_loopFuel src s.r)
    cases hr : skipBlankLines readerOps (loopFuel s.r.source) 0 s.r with
    | error e => simp only [Except.bind]; exact hsk.err e hr
    | ok x =>
      obtain ⟨c1, c2, c3⟩ := hsk.ok x hr
      obtain ⟨⟨seg, lines, ok⟩, r0⟩ := x
      simp only at c1 c2 c3
      simp only [Except.bind, pure, Except.pure]
      cases ok with
      | false => simp only [Bool.not_false, if_true, StateT.pure, pure, Except.pure]; exact c1.toS
      | true =>
        simp only [Bool.not_true, Bool.false_eq_true, if_false, StateT.bind, position, getPc, StateT.pure, pure,
          Except.pure, bind, Except.bind, Reader.position]
        have hl0 : hasLine r0 = true := c3 rfl
        generalize hbl2 : (if (lines != 0) = true then blankStats r0.line lines s.pc.opened.length else bl) = bl'
        generalize hbl : isBlankLine _ _ _ = blank
        generalize hs0 : ({ s with r := r0 } : St) = s0
        have hS0 : Stop src b s0 := by subst hs0; exact c1.toS
        have hS0' : Stop src r0.pos.stop s0 := by
          subst hs0; exact ⟨c1.source, c1.stop0, c1.stop_le, Int.le_refl _⟩
        have hr0 : s0.r = r0 := by subst hs0; rfl
        cases ho : openBlocksV pts parent blank s0 with
        | error e => exact fun he => (hob b parent blank).noLoop hS0 (he ▸ ho)
        | ok y =>
          obtain ⟨res, s1⟩ := y
          have h1 : Stop src b s1 := (hob b parent blank).ok hS0 ho
          have h1' : Stop src r0.pos.stop s1 := (hob _ parent blank).ok hS0' ho
          simp only
          by_cases hres : res = OpenResult.newBlocksOpened
          · subst hres
            simp only [bne_self_eq_false, Bool.false_eq_true, if_false, StateT.bind, advanceLine, StateT.pure, pure, Except.pure,
              bind, Except.bind]
            have hdec := mu_next hl0 h1'.toR c1
            have h2 : Stop src b { s1 with r := s1.r.advanceLine } := h1.toR.advanceLine.toS
            have hl := linesLoopV_ok hp hob parent fuel bl' { s1 with r := s1.r.advanceLine } b h2 (by simp only; omega)
            revert hl
            cases linesLoopV pts parent fuel bl' { s1 with r := s1.r.advanceLine } with
            | error e => exact id
            | ok z =>
              obtain ⟨⟨ret, bl2⟩, s3⟩ := z
              intro hl
              simp only
              cases ret with
              | true => simp only [if_true]; exact hl.1
              | false =>
                simp only [Bool.false_eq_true, if_false]
                have := hl.2 rfl
                exact ih bl2 s3 b hl.1 (by simp only at this; omega)
          · have : (res != OpenResult.newBlocksOpened) = true := by simpa using hres
            simp only [this, if_true]
            exact h1

/-- **Termination of the block phase with paragraph transformers**: no loop of the driver exhausts its fuel, for
    every source and every list of transformers that themselves never exhaust fuel and leave the reader alone. -/
theorem runV_noLoop {pts : List PT} (hp : PTsOK pts) (src : Bytes) : runV pts src ≠ .error .loop := by
  have hob := openOKV hp src
  unfold runV parseBlocksV
  simp only [bind, StateT.bind, modPc, source, Except.bind, pure, Except.pure]
  have h0 := stop_init src
  have hm := mu_init src
  have := blocksLoopV_ok hp hob 0 (linesFuel src) [] { initSt src with pc := { (initSt src).pc with opened := [] } } 0
    ⟨h0.source, h0.stop0, h0.stop_le, h0.lb⟩ hm
  revert this
  have e : (initSt src).r.source = src := h0.source
  simp only [e]
  cases blocksLoopV pts 0 (linesFuel src) [] { initSt src with pc := { (initSt src).pc with opened := [] } } with
  | error e => intro h; simp only [Except.map]; intro he; cases he; exact h rfl
  | ok y => intro _; simp [Except.map]

end GM.Blocks.V
