/-
  GM.Proof.ConvertHWFTree — in a well-formed store (`TreeWF`) the tree read off below the Document contains every node at
  most once (`ids_nodup_root`): parent pointers are unique, so two occurrences would have the same chain of ancestors up to
  the Document, and child lists are duplicate-free. Hence `headingsOnceB` (`headingsOnce_of_wf`).
-/
import GM.Proof.ConvertHWFRun

namespace GM.ConvertH
open GM GM.Text GM.Blocks

mutual
/-- all node ids of a block tree, in document order -/
def ids : TreeH → List Nat
  | .node i _ cs => i :: idsL cs
def idsL : List TreeH → List Nat
  | [] => []
  | t :: rest => ids t ++ idsL rest
end

mutual
theorem headingIds_sublist : ∀ t : TreeH, List.Sublist (headingIds t) (ids t)
  | .node i n cs => by
    unfold headingIds ids
    split
    · exact List.Sublist.cons₂ _ (headingIdsL_sublist cs)
    · exact List.Sublist.cons _ (headingIdsL_sublist cs)
theorem headingIdsL_sublist : ∀ ts : List TreeH, List.Sublist (headingIdsL ts) (idsL ts)
  | [] => by unfold headingIdsL idsL; exact List.Sublist.slnil
  | t :: rest => by
    unfold headingIdsL idsL
    exact List.Sublist.append (headingIds_sublist t) (headingIdsL_sublist rest)
end

/-- the `k`-th ancestor by parent pointers -/
def upA (s : St) (x : Nat) : Nat → Option Nat
  | 0 => some x
  | k + 1 => (upA s x k).bind fun z => (ndx s z).parent

theorem upA_succ_left (s : St) (x : Nat) : ∀ k, upA s x (k + 1) = ((ndx s x).parent).bind fun y => upA s y k
  | 0 => by simp [upA]
  | k + 1 => by
    rw [upA, upA_succ_left s x k]
    cases (ndx s x).parent with
    | none => rfl
    | some y => simp [upA]

theorem upA_add (s : St) (x : Nat) (a : Nat) : ∀ b, upA s x (a + b) = (upA s x a).bind fun y => upA s y b
  | 0 => by simp [upA]
  | b + 1 => by
    rw [← Nat.add_assoc, upA, upA_add s x a b]
    cases upA s x a with
    | none => rfl
    | some y => simp [upA]

def NoCyc (s : St) (i : Nat) : Prop := ∀ k, upA s i (k + 1) ≠ some i

theorem idsL_map_mem (nodes : List Blocks.Node) (fuel : Nat) : ∀ (l : List Nat) (x : Nat),
    x ∈ idsL (l.map (treeOfH nodes fuel)) → ∃ c ∈ l, x ∈ ids (treeOfH nodes fuel c)
  | [], x, h => by simp [idsL] at h
  | c :: rest, x, h => by
    simp only [List.map, idsL] at h
    rcases List.mem_append.1 h with h | h
    · exact ⟨c, List.mem_cons_self .., h⟩
    · obtain ⟨c', hc', hx⟩ := idsL_map_mem nodes fuel rest x h
      exact ⟨c', List.mem_cons_of_mem _ hc', hx⟩

section
variable (s : St) (w : TreeWF s)
include w

theorem ids_anc : ∀ (fuel i x : Nat), x ∈ ids (treeOfH s.nodes fuel i) → ∃ k, upA s x k = some i
  | 0, i, x, h => by
    simp only [treeOfH, ids, idsL, List.mem_singleton] at h
    exact ⟨0, by rw [h]; rfl⟩
  | fuel + 1, i, x, h => by
    simp only [treeOfH, ids] at h
    rcases List.mem_cons.1 h with rfl | h
    · exact ⟨0, rfl⟩
    · obtain ⟨c, hc, hx⟩ := idsL_map_mem s.nodes fuel _ x h
      obtain ⟨k, hk⟩ := ids_anc fuel c x hx
      refine ⟨k + 1, ?_⟩
      rw [upA, hk]
      exact (w.edge i c hc).2

theorem child_nocyc (i c : Nat) (hc : c ∈ (ndx s i).children) (hn : NoCyc s i) : NoCyc s c := by
  intro k hk
  rw [upA_succ_left, (w.edge i c hc).2] at hk
  simp only [Option.bind] at hk
  apply hn k
  rw [upA, hk]
  exact (w.edge i c hc).2

theorem anc_unique (i c1 c2 x k1 k2 : Nat) (h1 : c1 ∈ (ndx s i).children) (h2 : c2 ∈ (ndx s i).children)
    (hn : NoCyc s i) (hle : k1 ≤ k2) (u1 : upA s x k1 = some c1) (u2 : upA s x k2 = some c2) : c1 = c2 := by
  obtain ⟨d, rfl⟩ := Nat.exists_eq_add_of_le hle
  rw [upA_add, u1] at u2
  simp only [Option.bind] at u2
  cases d with
  | zero => simpa [upA] using u2
  | succ d' =>
    exfalso
    rw [upA_succ_left, (w.edge i c1 h1).2] at u2
    simp only [Option.bind] at u2
    apply hn d'
    rw [upA, u2]
    exact (w.edge i c2 h2).2

theorem ids_nodup : ∀ (fuel i : Nat), NoCyc s i → (ids (treeOfH s.nodes fuel i)).Nodup
  | 0, i, _ => by simp [treeOfH, ids, idsL]
  | fuel + 1, i, hn => by
    simp only [treeOfH, ids]
    rw [List.nodup_cons]
    constructor
    · intro hi
      obtain ⟨c, hc, hx⟩ := idsL_map_mem s.nodes fuel _ i hi
      obtain ⟨k, hk⟩ := ids_anc s w fuel c i hx
      apply hn k
      rw [upA, hk]
      exact (w.edge i c hc).2
    · have key : ∀ (l : List Nat), l.Nodup → (∀ c ∈ l, c ∈ (ndx s i).children) →
          (idsL (l.map (treeOfH s.nodes fuel))).Nodup := by
        intro l
        induction l with
        | nil => intro _ _; simp [idsL]
        | cons c rest ih =>
          intro hl hsub
          rw [List.nodup_cons] at hl
          simp only [List.map, idsL]
          rw [List.nodup_append]
          refine ⟨ids_nodup fuel c (child_nocyc s w i c (hsub c (List.mem_cons_self ..)) hn),
            ih hl.2 (fun c' hc' => hsub c' (List.mem_cons_of_mem _ hc')), ?_⟩
          intro a ha b hb hab
          subst hab
          obtain ⟨c2, hc2, hx2⟩ := idsL_map_mem s.nodes fuel rest a hb
          obtain ⟨k1, u1⟩ := ids_anc s w fuel c a ha
          obtain ⟨k2, u2⟩ := ids_anc s w fuel c2 a hx2
          have hcc : c = c2 := by
            rcases Nat.le_total k1 k2 with hle | hle
            · exact anc_unique s w i c c2 a k1 k2 (hsub c (List.mem_cons_self ..))
                (hsub c2 (List.mem_cons_of_mem _ hc2)) hn hle u1 u2
            · exact (anc_unique s w i c2 c a k2 k1 (hsub c2 (List.mem_cons_of_mem _ hc2))
                (hsub c (List.mem_cons_self ..)) hn hle u2 u1).symm
          subst hcc
          exact hl.1 hc2
      exact key _ (w.nodup i) (fun _ h => h)

theorem ids_nodup_root (fuel : Nat) : (ids (treeOfH s.nodes fuel 0)).Nodup := by
  apply ids_nodup s w fuel 0
  intro k hk
  rw [upA_succ_left, w.root] at hk
  cases hk

/-- **no node twice in the tree**: a well-formed store gives `headingsOnceB` -/
theorem headingsOnce_of_wf : headingsOnceB (finalTree s) = true := by
  unfold headingsOnceB finalTree
  simp only [decide_eq_true_eq]
  exact List.Nodup.sublist (headingIds_sublist _) (ids_nodup_root s w _)

end

end GM.ConvertH
