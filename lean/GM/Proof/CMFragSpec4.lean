/-
  GM.Proof.CMFragSpec4 — the stage-4 fragment (paragraphs, ATX headings, thematic breaks) of GM.Spec.CMFrag inside
  the spec model GM.Spec.CommonMark:
  * `expectedG_eq_expected`: the prescribed HTML of a stage-4 document is `expected` of the embedded document;
  * `spellG_eq_spell`: for a NON-EMPTY stage-4 document without extra blank lines the source is `spell` of the
    embedded document, byte for byte.
-/
import GM.Proof.CMFragSpec
namespace GM.Proof.CMFrag
open GM GM.Spec.CM GM.Spec.CMFrag

/-! ### S1': prescribed HTML -/

theorem decStr_level4 (level : Nat) (h1 : 1 ≤ level) (h6 : level ≤ 6) : decStr level = [UInt8.ofNat (48 + level)] := by
  have : level = 1 ∨ level = 2 ∨ level = 3 ∨ level = 4 ∨ level = 5 ∨ level = 6 := by omega
  rcases this with h | h | h | h | h | h <;> subst h <;> decide +kernel

theorem render_expB_gembed4 (b : GBlock) (hok : gblockOK b = true) :
    render (expB false false (gembedBlock b)) = expGBlock b := by
  cases b with
  | para ls => exact render_expB_para ls
  | heading level text =>
    simp only [gblockOK, Bool.and_eq_true, decide_eq_true_eq] at hok
    rw [gembedBlock, expB, expGBlock, decStr_level4 level hok.1.1 hok.1.2]
    have h1 : strBytes "<h" = [60, 104] := by decide +kernel
    have h2 : strBytes "</h" = [60, 47, 104] := by decide +kernel
    have h3 : strBytes ">\n" = [62, 10] := by decide +kernel
    rw [h1, h2, h3]
    simp [wrap, expIs, expI, render, renderPiece, nl]
  | thematic c n =>
    rw [gembedBlock, expB, expGBlock]
    decide +kernel

theorem render_expBs_gembed4 (its : List GItem) (hok : ∀ it ∈ its, gblockOK it.block = true) :
    render (expBs false false (its.map fun it => gembedBlock it.block)) = its.flatMap fun it => expGBlock it.block := by
  induction its with
  | nil => simp [expBs, render]
  | cons it rest ih =>
    rw [List.map_cons, expBs, render_append, ih (fun x hx => hok x (by simp [hx])),
      List.flatMap_cons, ← render_expB_gembed4 it.block (hok it (by simp))]
    simp

/-- S1' -/
theorem expectedG_eq_expected (d : GDoc) (h : GFrag d) : expectedG d = expected (gembed d) := by
  have hok : ∀ it ∈ d.items, gblockOK it.block = true := by
    have := h; simp only [GFrag, gfragB, List.all_eq_true] at this; exact this
  rw [expected, expectedPieces, gembed, expectedG, render_expBs_gembed4 d.items hok]

/-! ### S2': source -/

/-- the source lines of one block -/
def gblockLines : GBlock → List Bytes
  | .para ls => ls.map escSpell
  | .heading level text => [List.replicate level 35 ++ [32] ++ escSpell text]
  | .thematic c n => [thematicLine c n false]

/-- the source lines of the items (a blank line in front of every item but the first) -/
def docLinesG (first : Bool) : List GItem → List Bytes
  | [] => []
  | it :: rest => (if first then [] else [[]]) ++ gblockLines it.block ++ docLinesG false rest

theorem spellBs_heading4 (prev pm level : Nat) (kids : List Inline) (rest : List Block) :
    spellBs false false prev pm (.heading {} level false 0 0 kids :: rest) =
      (if prev == 0 then [] else [blankLine]) ++ [(0, List.replicate level 35 ++ [32] ++ spellIs false kids)] ++
        spellBs false false 2 0 rest := by
  simp only [spellBs, kindOf, bch, spellB]
  simp [spaces]

theorem spellBs_thematic4 (prev pm c n : Nat) (rest : List Block) :
    spellBs false false prev pm (.thematic {} c n false :: rest) =
      (if prev == 0 then [] else [blankLine]) ++ [(0, thematicLine c n false)] ++ spellBs false false 4 0 rest := by
  simp only [spellBs, kindOf, bch, spellB]
  simp [spaces]

theorem thematicLine_plain4 (c n : Nat) :
    ∀ x ∈ thematicLine c n false, x ≠ wsMarkQ ∧ x ≠ wsMarkL ∧ x ≠ wsMarkD := by
  intro x hx
  simp only [thematicLine, Bool.false_eq_true, if_false] at hx
  have := List.eq_of_mem_replicate hx
  subst this
  split
  · decide
  · split <;> decide

theorem spellBs_gembed4 (its : List GItem) (hok : ∀ it ∈ its, gblockOK it.block = true) (prev pm : Nat) :
    (spellBs false false prev pm (its.map fun it => gembedBlock it.block)).map (renderLine 0 0 0 0) =
      docLinesG (prev == 0) its := by
  induction its generalizing prev pm with
  | nil => simp [spellBs, docLinesG]
  | cons it rest ih =>
    obtain ⟨g, b⟩ := it
    have hsep : (if prev == 0 then [] else [blankLine]).map (renderLine 0 0 0 0) =
        (if (prev == 0) = true then [] else [[]]) := by
      by_cases h0 : prev = 0
      · subst h0; simp
      · have : (prev == 0) = false := by simpa using h0
        simp [this, renderLine_blank]
    have hb := hok ⟨g, b⟩ (by simp)
    cases b with
    | para ls =>
      simp only [gblockOK, Bool.and_eq_true, List.all_eq_true, Bool.not_eq_true',
        List.isEmpty_eq_false_iff] at hb
      have hp := paraLines_embed ls hb.1 hb.2
      have ih' := ih (fun x hx => hok x (by simp [hx])) 1 0
      rw [List.map_cons, gembedBlock, spellBs_para, List.map_append, List.map_append, hp, ih', docLinesG, hsep]
      rfl
    | heading level text =>
      simp only [gblockOK, Bool.and_eq_true] at hb
      have ih' := ih (fun x hx => hok x (by simp [hx])) 2 0
      have hpl : renderLine 0 0 0 0 (0, List.replicate level 35 ++ [32] ++ escSpell text) =
          List.replicate level 35 ++ [32] ++ escSpell text := by
        apply renderLine_plain
        intro c hc
        simp only [List.mem_append, List.mem_replicate, List.mem_singleton] at hc
        rcases hc with (hc | hc) | hc
        · rw [hc.2]; decide
        · rw [hc]; decide
        · exact (printable_facts c (List.all_eq_true.mp
            (escSpell_printable text (lineOK_printable text hb.2)) c hc)).2
      rw [List.map_cons, gembedBlock, spellBs_heading4, List.map_append, List.map_append, ih', docLinesG, hsep]
      simp only [spellIs, spellI, List.append_nil, List.map_cons, List.map_nil, hpl, gblockLines]
      rfl
    | thematic c n =>
      have ih' := ih (fun x hx => hok x (by simp [hx])) 4 0
      rw [List.map_cons, gembedBlock, spellBs_thematic4, List.map_append, List.map_append, ih', docLinesG, hsep]
      simp only [List.map_cons, List.map_nil, renderLine_plain _ (thematicLine_plain4 c n), gblockLines]
      rfl

theorem gblockLines_flatMap4 (b : GBlock) : (gblockLines b).flatMap (· ++ [10]) = spellGBlock b := by
  cases b with
  | para ls => simp only [gblockLines, spellGBlock, List.flatMap_map]; rfl
  | heading level text => simp [gblockLines, spellGBlock]
  | thematic c n => simp [gblockLines, spellGBlock]

theorem docLinesG_flatMap4 (its : List GItem) (hg : ∀ it ∈ its, it.gap = 0) (first : Bool) :
    (docLinesG first its).flatMap (· ++ [10]) = spellGItems first its := by
  induction its generalizing first with
  | nil => simp [docLinesG, spellGItems]
  | cons it rest ih =>
    obtain ⟨g, b⟩ := it
    have hg0 : g = 0 := hg ⟨g, b⟩ (by simp)
    subst hg0
    rw [docLinesG, spellGItems, List.flatMap_append, List.flatMap_append, ih (fun x hx => hg x (by simp [hx])),
      gblockLines_flatMap4]
    cases first <;> simp [blanks]

theorem docLinesG_ne4 (it : GItem) (rest : List GItem) (h : gblockOK it.block = true) :
    docLinesG true (it :: rest) ≠ [] := by
  obtain ⟨g, b⟩ := it
  cases b with
  | para ls =>
    simp only [gblockOK, Bool.and_eq_true, Bool.not_eq_true', List.isEmpty_eq_false_iff] at h
    cases ls with
    | nil => exact absurd rfl h.1
    | cons l ls => simp [docLinesG, gblockLines]
  | heading level text => simp [docLinesG, gblockLines]
  | thematic c n => simp [docLinesG, gblockLines]

/-- S2': a non-empty stage-4 document without extra blank lines is spelled byte for byte like the embedded one -/
theorem spellG_eq_spell (d : GDoc) (h : GFrag d) (hb : gnoExtraBlanks d = true) (hne : d.items ≠ []) :
    spellG d = spell (gembed d) := by
  obtain ⟨items, trail⟩ := d
  simp only [gnoExtraBlanks, Bool.and_eq_true, beq_iff_eq, List.all_eq_true] at hb
  obtain ⟨ht, hg⟩ := hb
  simp only at ht hne; subst ht
  have hok : ∀ it ∈ items, gblockOK it.block = true := by
    have := h; simp only [GFrag, gfragB, List.all_eq_true] at this; exact this
  have hl := spellBs_gembed4 items hok 0 0
  cases items with
  | nil => exact absurd rfl hne
  | cons it rest =>
    have hdn := docLinesG_ne4 it rest (hok it (by simp))
    simp only [spell, gembed, spellG, blanks, List.replicate_zero, List.append_nil, if_true]
    rw [hl]
    simp only [beq_self_eq_true]
    rw [joinLines_flatMap _ hdn, docLinesG_flatMap4 _ hg]

end GM.Proof.CMFrag
