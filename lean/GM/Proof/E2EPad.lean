/-
  GM.Proof.E2EPad — "no virtual padding" is a CLOSED property of the inline phase: every segment the block reader and the
  inline parsers compute from padding-free segments is padding-free. A value-level logical relation `P0` (segments:
  `padding = 0`; readers: position and lines; nodes: every recorded segment; tuples / lists / options componentwise) and,
  for every function of the reader and of the inline model that handles segments, "padding-free arguments give a
  padding-free answer" (`OKP`: partial correctness — an error satisfies it vacuously, so NO reader refinement is needed).
  Segment arithmetic never creates padding: `withStart` / `withStop` / `trimRightSpace` keep it, `between` subtracts two
  paddings, record literals have padding 0, `advanceLoop` only decrements a NON-zero padding.

  Result (GM.Proof.E2EPadLoop): `InlineSegsUnpadded` — the segments of the tree `parseBlock` answers on `WF0` lines all have
  padding 0. The inline model and the inline proof files are untouched.
-/
import GM.Model.InlinesLoop
import GM.Proof.InlinesTotal
import GM.Proof.BlocksPres

namespace GM.E2E.Pad
open GM GM.Text GM.Inl GM.Proof.InlinesTotal

/-- the logical relation "holds no virtual padding" -/
class P0 (α : Type) where
  p : α → Prop

instance : P0 Segment := ⟨fun s => s.padding = 0⟩
instance : P0 UInt8 := ⟨fun _ => True⟩
instance : P0 Int := ⟨fun _ => True⟩
instance : P0 Nat := ⟨fun _ => True⟩
instance : P0 Bool := ⟨fun _ => True⟩
instance : P0 Unit := ⟨fun _ => True⟩
instance {α} [P0 α] : P0 (List α) := ⟨fun l => ∀ x ∈ l, P0.p x⟩
instance {α} [P0 α] : P0 (Option α) := ⟨fun o => ∀ x, o = some x → P0.p x⟩
instance {α β} [P0 α] [P0 β] : P0 (α × β) := ⟨fun x => P0.p x.1 ∧ P0.p x.2⟩
instance {α β} [P0 α] [P0 β] : P0 (Sum α β) := ⟨fun x => match x with | .inl a => P0.p a | .inr b => P0.p b⟩
instance : P0 BlockReader := ⟨fun r => r.pos.padding = 0 ∧ ∀ s ∈ r.segments, s.padding = 0⟩
instance : P0 Delim := ⟨fun d => d.seg.padding = 0⟩
instance : P0 Node := ⟨fun n => ∀ s ∈ segsOf n, s.padding = 0⟩
instance : P0 Bottom := ⟨fun _ => True⟩

/-- a computation whose answer, if any, is padding-free -/
def OKP {α} [P0 α] (e : Except Panic α) : Prop := ∀ a, e = .ok a → P0.p a

theorem OKP.ok {α} [P0 α] {a : α} (h : P0.p a) : OKP (.ok a : Except Panic α) := fun _ e => by cases e; exact h
theorem OKP.pure {α} [P0 α] {a : α} (h : P0.p a) : OKP (Pure.pure a : Except Panic α) := fun _ e => by cases e; exact h
theorem OKP.error {α} [P0 α] (x : Panic) : OKP (.error x : Except Panic α) := fun _ e => by cases e
theorem OKP.throw {α} [P0 α] (x : Panic) : OKP (throw x : Except Panic α) := fun _ e => by cases e
theorem OKP.bind {α β} [P0 α] [P0 β] {m : Except Panic α} {f : α → Except Panic β} (hm : OKP m)
    (hf : ∀ a, P0.p a → OKP (f a)) : OKP (m >>= f) := by
  intro b hb
  cases m with
  | error e => simp [Bind.bind, Except.bind] at hb
  | ok a => exact hf a (hm a rfl) b hb
/-- a step whose value carries no segment -/
theorem OKP.bind' {α β} [P0 β] {m : Except Panic α} {f : α → Except Panic β}
    (hf : ∀ a, OKP (f a)) : OKP (m >>= f) := by
  intro b hb
  cases m with
  | error e => simp [Bind.bind, Except.bind] at hb
  | ok a => exact hf a b hb

theorem OKP.throw_bind {α β} [P0 β] (e : Panic) (f : α → Except Panic β) :
    OKP ((MonadExcept.throw e : Except Panic α) >>= f) := fun _ h => by cases h
theorem OKP.ite {α} [P0 α] {c : Prop} [Decidable c] {a b : Except Panic α} (ha : OKP a) (hb : OKP b) :
    OKP (if c then a else b) := by
  split <;> assumption

/-! ### simp lemmas that unfold the relation -/

theorem p0_seg (s : Segment) : P0.p s ↔ s.padding = 0 := Iff.rfl
theorem p0_nil {α} [P0 α] : P0.p ([] : List α) := fun _ h => by cases h
theorem p0_cons {α} [P0 α] (a : α) (l : List α) : P0.p (a :: l) ↔ P0.p a ∧ P0.p l := by
  constructor
  · intro h; exact ⟨h a (by simp), fun x hx => h x (by simp [hx])⟩
  · intro h x hx
    rcases List.mem_cons.mp hx with rfl | hx
    · exact h.1
    · exact h.2 x hx
theorem p0_append {α} [P0 α] (a b : List α) : P0.p (a ++ b) ↔ P0.p a ∧ P0.p b := by
  constructor
  · intro h; exact ⟨fun x hx => h x (by simp [hx]), fun x hx => h x (by simp [hx])⟩
  · intro h x hx
    rcases List.mem_append.mp hx with hx | hx
    · exact h.1 x hx
    · exact h.2 x hx
theorem p0_reverse {α} [P0 α] (a : List α) : P0.p a.reverse ↔ P0.p a := by
  constructor
  · intro h x hx; exact h x (by simp [hx])
  · intro h x hx; exact h x (by simpa using hx)
theorem p0_dropLast {α} [P0 α] {a : List α} (h : P0.p a) : P0.p a.dropLast :=
  fun x hx => h x ((List.dropLast_sublist a).subset hx)
theorem p0_some {α} [P0 α] (a : α) : P0.p (some a) ↔ P0.p a := by
  constructor
  · intro h; exact h a rfl
  · intro h x hx; cases hx; exact h
theorem p0_none {α} [P0 α] : P0.p (none : Option α) := fun _ h => by cases h
theorem p0_prod {α β} [P0 α] [P0 β] (a : α) (b : β) : P0.p (a, b) ↔ P0.p a ∧ P0.p b := Iff.rfl
theorem p0_getD {α} [P0 α] {o : Option (List α)} (h : P0.p o) : P0.p (o.getD []) := by
  cases o with
  | none => exact p0_nil
  | some l => exact h l rfl
theorem p0_rd (r : BlockReader) : P0.p r ↔ r.pos.padding = 0 ∧ ∀ s ∈ r.segments, s.padding = 0 := Iff.rfl
theorem p0_true_int (a : Int) : P0.p a := trivial
theorem p0_true_nat (a : Nat) : P0.p a := trivial
theorem p0_true_bool (a : Bool) : P0.p a := trivial
theorem p0_true_u8 (a : UInt8) : P0.p a := trivial
theorem p0_bytes (a : Bytes) : P0.p a := fun _ _ => trivial
theorem p0_obytes (a : Option Bytes) : P0.p a := fun _ _ => p0_bytes _

theorem p0_withStop {s : Segment} (h : s.padding = 0) (v : Int) : (s.withStop v).padding = 0 := h
theorem p0_withStart {s : Segment} (h : s.padding = 0) (v : Int) : (s.withStart v).padding = 0 := h

/-! ### the block reader -/

theorem segAt_p0 {l : List Segment} (h : ∀ s ∈ l, s.padding = 0) (i : Int) : OKP (segAt l i) := by
  intro a ha
  unfold segAt at ha
  split at ha
  · cases ha
  · split at ha
    · rename_i s hs
      cases ha
      exact h _ (List.mem_of_getElem? hs)
    · cases ha

theorem setPosition_p0 (l : Int) (pos : Segment) (hp : pos.start = -1 ∨ pos.padding = 0) {r : BlockReader} (hr : P0.p r) :
    OKP (r.setPosition l pos) := by
  intro a ha
  unfold BlockReader.setPosition at ha
  simp only at ha
  split at ha
  · split at ha
    · cases hs : segAt r.segments l with
      | error e => rw [hs] at ha; simp [bind, Except.bind] at ha
      | ok s =>
        rw [hs] at ha
        simp only [bind, Except.bind, pure, Except.pure, Except.ok.injEq] at ha
        subst ha
        exact ⟨segAt_p0 hr.2 l s hs, hr.2⟩
    · cases ha; exact hr
  · rename_i hne
    have hpad : pos.padding = 0 := by
      rcases hp with h | h
      · simp [h] at hne
      · exact h
    split at ha
    · cases hs : segAt r.segments l with
      | error e => rw [hs] at ha; simp [bind, Except.bind] at ha
      | ok s =>
        rw [hs] at ha
        simp only [bind, Except.bind, pure, Except.pure, Except.ok.injEq] at ha
        subst ha
        exact ⟨hpad, hr.2⟩
    · cases ha; exact ⟨hpad, hr.2⟩

theorem advanceLine_p0 {r : BlockReader} (hr : P0.p r) : OKP r.advanceLine := by
  intro a ha
  unfold BlockReader.advanceLine at ha
  cases hs : r.setPosition (r.line + 1) { start := -1, stop := -1 } with
  | error e => rw [hs] at ha; simp [bind, Except.bind] at ha
  | ok r' =>
    rw [hs] at ha
    simp only [bind, Except.bind, pure, Except.pure, Except.ok.injEq] at ha
    subst ha
    exact setPosition_p0 _ _ (.inl rfl) hr r' hs

theorem peekLine_p0 {r : BlockReader} (hr : P0.p r) : OKP r.peekLine := by
  intro a ha
  unfold BlockReader.peekLine at ha
  split at ha
  · cases hv : r.pos.value r.source with
    | error e => rw [hv] at ha; simp [bind, Except.bind] at ha
    | ok v =>
      rw [hv] at ha
      simp only [bind, Except.bind, pure, Except.pure, Except.ok.injEq] at ha
      subst ha
      exact ⟨⟨p0_obytes _, hr.1⟩, hr⟩
  · cases ha
    exact ⟨⟨p0_obytes _, hr.1⟩, hr⟩

theorem advanceLoop_p0 : ∀ (n : Nat) {r : BlockReader}, P0.p r → OKP (r.advanceLoop n)
  | 0, r, hr => by unfold BlockReader.advanceLoop; exact OKP.pure hr
  | n + 1, r, hr => by
    unfold BlockReader.advanceLoop
    have hz : (r.pos.padding != 0) = false := by simp [hr.1]
    simp only [hz, Bool.false_eq_true, if_false]
    split
    · exact OKP.bind (advanceLine_p0 hr) (fun r' hr' => advanceLoop_p0 n hr')
    · exact advanceLoop_p0 n (r := { r with pos := { r.pos with start := r.pos.start + 1 } }) ⟨hr.1, hr.2⟩

theorem advance_p0 (n : Int) {r : BlockReader} (hr : P0.p r) : OKP (r.advance n) := by
  unfold BlockReader.advance
  simp only
  split
  · exact OKP.pure ⟨hr.1, hr.2⟩
  · exact advanceLoop_p0 _ (r := { r with lineOffset := -1 }) ⟨hr.1, hr.2⟩

theorem position_p0 {r : BlockReader} (hr : P0.p r) : r.position.2.padding = 0 := hr.1

/-! ### the helpers written against the Reader interface, at `blockOps` -/

theorem skipSpacesLine_p0 (segment : Segment) (hseg : segment.padding = 0) : ∀ (l : Bytes) (i chars : Int)
    {r : BlockReader}, P0.p r → OKP (skipSpacesLine blockOps segment l i chars r)
  | [], i, chars, r, hr => by
    unfold skipSpacesLine
    exact OKP.pure ⟨p0_none, trivial, hr⟩
  | c :: cs, i, chars, r, hr => by
    unfold skipSpacesLine
    split
    · exact OKP.bind (advance_p0 1 hr) (fun r' hr' => skipSpacesLine_p0 segment hseg cs _ _ hr')
    · exact OKP.pure ⟨(p0_some _).mpr ⟨hseg, trivial, trivial⟩, trivial, hr⟩

theorem skipSpaces_p0 : ∀ (fuel : Nat) (chars : Int) {r : BlockReader}, P0.p r → OKP (skipSpaces blockOps fuel chars r)
  | 0, _, _, _ => by unfold skipSpaces; exact OKP.error _
  | fuel + 1, chars, r, hr => by
    unfold skipSpaces
    refine OKP.bind (peekLine_p0 hr) (fun a ha => ?_)
    obtain ⟨⟨line, segment⟩, r1⟩ := a
    obtain ⟨⟨_, hseg⟩, hr1⟩ := ha
    simp only
    split
    · exact OKP.pure ⟨⟨hseg, trivial, trivial⟩, hr1⟩
    · refine OKP.bind (skipSpacesLine_p0 segment hseg _ 0 chars hr1) (fun b hb => ?_)
      obtain ⟨res, chars', r2⟩ := b
      obtain ⟨hres, _, hr2⟩ := hb
      simp only
      split
      · rename_i x hx
        exact OKP.pure ⟨hres x rfl, hr2⟩
      · exact skipSpaces_p0 fuel chars' hr2

theorem findClosureLoop_p0 (opener closer : UInt8) (opts : FindClosureOptions) : ∀ (fuel opened cso : Nat)
    (ret : Option (List Segment)) {r : BlockReader}, P0.p ret → P0.p r →
    OKP (findClosureLoop blockOps opener closer opts fuel opened cso ret r)
  | 0, _, _, _, _, _, _ => by unfold findClosureLoop; exact OKP.error _
  | fuel + 1, opened, cso, ret, r, hret, hr => by
    unfold findClosureLoop
    refine OKP.bind (peekLine_p0 hr) (fun a ha => ?_)
    obtain ⟨⟨bs, seg⟩, r1⟩ := a
    obtain ⟨⟨_, hseg⟩, hr1⟩ := ha
    simp only
    split
    · exact OKP.pure ⟨⟨hret, trivial⟩, hr1⟩
    · split
      · refine OKP.bind (advance_p0 _ hr1) (fun r2 hr2 => ?_)
        refine OKP.pure ⟨⟨(p0_some _).mpr ((p0_append _ _).mpr ⟨p0_getD hret, ?_⟩), trivial⟩, hr2⟩
        exact (p0_cons _ _).mpr ⟨p0_withStop hseg _, p0_nil⟩
      · exact OKP.pure ⟨⟨hret, trivial⟩, hr1⟩
      · split
        · exact OKP.pure ⟨⟨hret, trivial⟩, hr1⟩
        · refine OKP.bind (advanceLine_p0 hr1) (fun r2 hr2 => ?_)
          refine findClosureLoop_p0 opener closer opts fuel _ _ _ ?_ hr2
          exact (p0_some _).mpr ((p0_append _ _).mpr ⟨p0_getD hret, (p0_cons _ _).mpr ⟨hseg, p0_nil⟩⟩)

theorem findClosure_p0 (fuel : Nat) (opener closer : UInt8) (opts : FindClosureOptions) {r : BlockReader} (hr : P0.p r) :
    OKP (findClosure blockOps fuel opener closer opts r) := by
  unfold findClosure
  refine OKP.bind (findClosureLoop_p0 opener closer opts fuel 1 0 none p0_none hr) (fun x hx => ?_)
  obtain ⟨⟨hret, _⟩, hr1⟩ := hx
  have hs : OKP (if !opts.advance then blockOps.setPosition (blockOps.position r).1 (blockOps.position r).2 x.2
      else Pure.pure x.2) := by
    split
    · exact setPosition_p0 _ _ (.inr hr.1) hr1
    · exact OKP.pure hr1
  refine OKP.bind hs (fun s' hs' => ?_)
  split
  · exact OKP.pure ⟨⟨hret, trivial⟩, hs'⟩
  · exact OKP.pure ⟨⟨p0_none, trivial⟩, hs'⟩

end GM.E2E.Pad
