/-
  GM.Proof.BlocksShapeJ — "a ListItem's parent is a List" (`ItemPar`), as an invariant of every function of the block
  phase (transformer-free driver), by a syntactic walk.

  `ItemPar s`: every node of kind ListItem whose parent pointer is set points to a node of kind List.
  `JP m`: `m` keeps `ItemPar`, does not shrink the store and keeps the kind of every existing node (`KK`).
  Every write of the model keeps `ItemPar` UNCONDITIONALLY — `RemoveChild` only clears a parent pointer, the nodes
  `InsertAfter` / `ReplaceChild` attach in setext / list `Close` are fresh Paragraph / TextBlock nodes, the parsers write
  no links — except ONE: `parent.AppendChild(parent, node)` in openBlocks (parser.go:1003) for the node `Open` has just
  built. For that one: the node is fresh (`RetFresh`), fresh nodes have the kind the parser builds (`KindsNew`), and
  listItemParser.Open answers a node only under a List (list_item.go:25-28).
-/
import GM.Proof.BlocksClosedEnd

namespace GM.Blocks
open GM GM.Text GM.Spec GM.Proof.Reader

/-- a ListItem's parent is a List -/
def ItemPar (s : St) : Prop :=
  ∀ i p, (nd s i).kind = .listItem → (nd s i).parent = some p → (nd s p).kind = .list

/-- the store does not shrink and existing nodes keep their kind -/
def KK (s s' : St) : Prop := s.nodes.length ≤ s'.nodes.length ∧ ∀ i, i < s.nodes.length → (nd s' i).kind = (nd s i).kind

theorem KK.refl (s : St) : KK s s := ⟨Nat.le_refl _, fun _ _ => rfl⟩
theorem KK.trans {a b c : St} (h1 : KK a b) (h2 : KK b c) : KK a c :=
  ⟨Nat.le_trans h1.1 h2.1, fun i hi => (h2.2 i (Nat.lt_of_lt_of_le hi h1.1)).trans (h1.2 i hi)⟩
theorem KK.of_nodes {s s' : St} (h : s'.nodes = s.nodes) : KK s s' :=
  ⟨by rw [h]; exact Nat.le_refl _, fun i _ => by simp only [nd, h]⟩

theorem ItemPar.of_nodes {s s' : St} (hJ : ItemPar s) (h : s'.nodes = s.nodes) : ItemPar s' := by
  intro i p hk hp
  simp only [nd, h] at hk hp ⊢
  exact hJ i p hk hp

/-- a node of kind List is inside the store -/
theorem lt_of_kind_list {s : St} {p : Nat} (h : (nd s p).kind = .list) : p < s.nodes.length := by
  rcases Nat.lt_or_ge p s.nodes.length with h' | h'
  · exact h'
  · rw [nd_default_of_ge s h'] at h; cases h

/-- one write that keeps kinds; the parent it writes into a ListItem (if any) is a List -/
theorem modNode_ip {id : Nat} {f : Node → Node} {s s' : St} {a : Unit} (hJ : ItemPar s)
    (e : modNode id f s = .ok (a, s')) (hk : ∀ n, (f n).kind = n.kind)
    (hp : (nd s id).kind = .listItem → ∀ p, (f (nd s id)).parent = some p → (nd s p).kind = .list) :
    ItemPar s' ∧ KK s s' := by
  have e' := omodNode_ok e
  have hkind : ∀ i, (nd s' i).kind = (nd s i).kind := by
    intro i
    rw [e', nd_mod]
    split
    · next hc => rw [hc.1]; exact hk _
    · rfl
  refine ⟨fun i p hki hpi => ?_, by rw [e']; simp, fun i _ => hkind i⟩
  rw [hkind] at hki ⊢
  rw [e', nd_mod] at hpi
  split at hpi
  · next hc =>
    rw [← hc.1] at hki
    exact hp hki p hpi
  · exact hJ i p hki hpi

structure JP {α : Type} (m : M α) : Prop where
  h : ∀ s a s', ItemPar s → m s = .ok (a, s') → ItemPar s' ∧ KK s s'

theorem JP.pure {α} (a : α) : JP (pure a : M α) := ⟨fun s _ _ hJ h => by cases h; exact ⟨hJ, KK.refl s⟩⟩

theorem JP.bind {α β} {m : M α} {f : α → M β} (hm : JP m) (hf : ∀ a, JP (f a)) : JP (m >>= f) := by
  constructor
  intro s b s' hJ h
  obtain ⟨a, s1, h1, k1⟩ := obind_ok h
  obtain ⟨j1, q1⟩ := hm.h s a s1 hJ h1
  obtain ⟨j2, q2⟩ := (hf a).h s1 b s' j1 k1
  exact ⟨j2, q1.trans q2⟩

theorem JP.ite {α} {c : Prop} [Decidable c] {a b : M α} (ha : JP a) (hb : JP b) : JP (if c then a else b) := by
  split <;> assumption

theorem JP.throw {α} (e : Panic) : JP (throw e : M α) := ⟨fun _ _ _ _ h => by cases h⟩

/-- a step that leaves the node store alone -/
theorem JP.of_nodes {α} {m : M α} (h : ∀ s a s', m s = .ok (a, s') → s'.nodes = s.nodes) : JP m :=
  ⟨fun s a s' hJ e => ⟨hJ.of_nodes (h s a s' e), KK.of_nodes (h s a s' e)⟩⟩

theorem getNode_jp (id : Nat) : JP (getNode id) := JP.of_nodes (fun _ _ _ h => by cases h; rfl)
theorem getPc_jp : JP getPc := JP.of_nodes (fun _ _ _ h => by cases h; rfl)
theorem get_jp : JP (get : M St) := JP.of_nodes (fun _ _ _ h => by cases h; rfl)
theorem source_jp : JP source := JP.of_nodes (fun _ _ _ h => by cases h; rfl)
theorem position_jp : JP position := JP.of_nodes (fun _ _ _ h => by cases h; rfl)
theorem modPc_jp (f : Ctx → Ctx) : JP (modPc f) := JP.of_nodes (fun _ _ _ h => by cases h; rfl)
theorem setPosition_jp (l : Int) (p : Segment) : JP (setPosition l p) := JP.of_nodes (fun _ _ _ h => by cases h; rfl)
theorem advanceLine_jp : JP advanceLine := JP.of_nodes (fun _ _ _ h => by cases h; rfl)
theorem lastOpenedBlock_jp : JP lastOpenedBlock :=
  JP.of_nodes (fun _ _ _ h => by obtain ⟨_, hs⟩ := olastOpenedBlock_ok h; rw [hs])
theorem liftE_jp {α} (e : Except Panic α) : JP (liftE e) :=
  JP.of_nodes (fun _ _ _ h => by obtain ⟨_, hs⟩ := oliftE_ok h; rw [hs])

theorem reader_jp {α β} (f : Reader → Except Panic (α × Reader)) (g : α → β) :
    JP (fun s => do let (x, r) ← f s.r; Pure.pure (g x, { s with r := r }) : M β) := by
  refine JP.of_nodes (fun s a s' h => ?_)
  cases hf : f s.r with
  | error e => simp [hf, bind, Except.bind] at h
  | ok p =>
    simp only [hf, bind, Except.bind, Pure.pure, Except.pure] at h
    cases h
    rfl

theorem peekLine_jp : JP peekLine := reader_jp (fun r => r.peekLine) id
theorem lineOffset_jp : JP lineOffset := reader_jp (fun r => r.lineOffsetOp) id
theorem skipBlankLinesR_jp : JP skipBlankLinesR :=
  reader_jp (fun r => skipBlankLines readerOps (loopFuel r.source) 0 r) id

theorem advance_jp (n : Int) : JP (advance n) :=
  JP.of_nodes (fun s a s' h => by obtain ⟨r', hs⟩ := oadvance_ok h; rw [hs])
theorem advanceAndSetPadding_jp (n p : Int) : JP (advanceAndSetPadding n p) :=
  JP.of_nodes (fun s a s' h => by obtain ⟨r', hs⟩ := oadvanceAndSetPadding_ok h; rw [hs])

/-- a write that keeps `kind` and `parent` -/
theorem modNode_jp (id : Nat) (f : Node → Node) (hf : ∀ n, (f n).kind = n.kind ∧ (f n).parent = n.parent) :
    JP (modNode id f) :=
  ⟨fun s a s' hJ e => modNode_ip hJ e (fun n => (hf n).1) (fun hk p hp => hJ id p hk (by rw [← (hf _).2]; exact hp))⟩

theorem modNode_keep_ip {id : Nat} {f : Node → Node} {s s' : St} {a : Unit} (hJ : ItemPar s)
    (e : modNode id f s = .ok (a, s')) (hf : ∀ n, (f n).kind = n.kind ∧ (f n).parent = n.parent) :
    ItemPar s' ∧ KK s s' :=
  modNode_ip hJ e (fun n => (hf n).1) (fun hk p hp => hJ id p hk (by rw [← (hf _).2]; exact hp))

/-- a write that clears the parent pointer -/
theorem modNode_jp_none (id : Nat) (f : Node → Node) (hf : ∀ n, (f n).kind = n.kind ∧ (f n).parent = none) :
    JP (modNode id f) :=
  ⟨fun s a s' hJ e => modNode_ip hJ e (fun n => (hf n).1) (fun _ p hp => by rw [(hf _).2] at hp; cases hp)⟩

theorem appendLine_jp (id : Nat) (seg : Segment) : JP (appendLine id seg) := modNode_jp _ _ (fun _ => ⟨rfl, rfl⟩)

/-- a new node without a parent -/
theorem newNode_jp (n : Node) (hn : n.parent = none) : JP (newNode n) := by
  constructor
  intro s a s' hJ h
  obtain ⟨_, hs⟩ := onewNode_ok h
  have hsn : s'.nodes = s.nodes ++ [n] := by rw [hs]
  have hold : ∀ i, i < s.nodes.length → nd s' i = nd s i := fun i hi => GM.Blocks.L.nd_append_lt hsn hi
  refine ⟨fun i p hk hp => ?_, by rw [hsn]; simp, fun i hi => by rw [hold i hi]⟩
  rcases Nat.lt_or_ge i s.nodes.length with hi | hi
  · rw [hold i hi] at hk hp
    have := hJ i p hk hp
    rw [hold p (lt_of_kind_list this)]; exact this
  · rcases Nat.eq_or_lt_of_le hi with e | e
    · rw [← e, GM.Blocks.L.nd_append_self hsn, hn] at hp; cases hp
    · rw [GM.Blocks.L.nd_append_gt hsn e] at hk; cases hk

macro "jp_step" : tactic =>
  `(tactic| first
    | with_reducible apply JP.pure
    | with_reducible apply JP.bind
    | with_reducible apply JP.ite
    | with_reducible apply JP.throw
    | with_reducible apply getNode_jp
    | with_reducible apply getPc_jp
    | with_reducible apply get_jp
    | with_reducible apply source_jp
    | with_reducible apply position_jp
    | with_reducible apply modPc_jp
    | with_reducible apply setPosition_jp
    | with_reducible apply advanceLine_jp
    | with_reducible apply lastOpenedBlock_jp
    | with_reducible apply liftE_jp
    | with_reducible apply peekLine_jp
    | with_reducible apply lineOffset_jp
    | with_reducible apply skipBlankLinesR_jp
    | with_reducible apply advance_jp
    | with_reducible apply advanceAndSetPadding_jp
    | with_reducible apply appendLine_jp
    | (with_reducible apply modNode_jp; intro _; exact ⟨rfl, rfl⟩)
    | (with_reducible apply modNode_jp_none; intro _; exact ⟨rfl, rfl⟩)
    | (with_reducible apply newNode_jp; rfl)
    | apply_hyp
    | intro _
    | split)

macro "jp" : tactic => `(tactic| repeat' jp_step)

/-! ### the tree surgery -/

theorem removeChild_jp (p c : Nat) : JP (removeChild p c) := by unfold removeChild; jp
theorem ensureIsolated_jp (c : Nat) : JP (ensureIsolated c) := by
  have := removeChild_jp
  unfold ensureIsolated; jp
theorem nextSibling_jp (c : Nat) : JP (nextSibling c) := by unfold nextSibling; jp

/-- `AppendChild(p, c)` for a node `c` that is not a ListItem, or under a List -/
theorem appendChild_ip {p c : Nat} {s s' : St} {a : Unit} (hJ : ItemPar s)
    (hc : (nd s c).kind = .listItem → (nd s p).kind = .list) (e : appendChild p c s = .ok (a, s')) :
    ItemPar s' ∧ KK s s' := by
  unfold appendChild at e
  obtain ⟨_, s1, h1, k1⟩ := obind_ok e
  obtain ⟨j1, q1⟩ := (ensureIsolated_jp c).h s _ s1 hJ h1
  obtain ⟨_, s2, h2, k2⟩ := obind_ok k1
  obtain ⟨j2, q2⟩ := modNode_keep_ip j1 h2 (fun _ => ⟨rfl, rfl⟩)
  have q12 := q1.trans q2
  -- kinds of `c` and `p` in `s2`
  have hk2 : ∀ i, (nd s2 i).kind = .listItem ∨ (nd s2 i).kind = .list → i < s.nodes.length → (nd s2 i).kind = (nd s i).kind :=
    fun i _ hi => q12.2 i hi
  obtain ⟨j3, q3⟩ := modNode_ip j2 k2 (fun _ => rfl) (fun hkc q hq => by
    simp only at hq
    cases hq
    rcases Nat.lt_or_ge c s.nodes.length with hcl | hcl
    · rw [q12.2 c hcl] at hkc
      have hpl := hc hkc
      have hplt := lt_of_kind_list hpl
      rw [q12.2 p hplt]; exact hpl
    · -- `c` is not a node of `s`: it is not a node of `s2` either, or a new one; neither case arises for a ListItem
      exfalso
      have e1 := omodNode_ok h2
      have hlen12 : s2.nodes.length = s1.nodes.length := by rw [e1]; simp
      have hlen01 : s1.nodes.length = s.nodes.length := (ensureIsolated_lk h1).len
      rw [nd_default_of_ge s2 (by omega)] at hkc
      cases hkc)
  exact ⟨j3, q12.trans q3⟩

/-- `InsertBefore(p, v1, ins)` for a node `ins` that is not a ListItem -/
theorem insertBefore_ip {p : Nat} {v1 : Option Nat} {ins : Nat} {s s' : St} {a : Unit} (hJ : ItemPar s)
    (hc : (nd s ins).kind ≠ .listItem) (hil : ins < s.nodes.length) (e : insertBefore p v1 ins s = .ok (a, s')) :
    ItemPar s' ∧ KK s s' := by
  have app : ∀ sA, ItemPar sA → KK s sA → appendChild p ins sA = .ok (a, s') → ItemPar s' ∧ KK s s' := by
    intro sA jA qA k
    obtain ⟨j, q⟩ := appendChild_ip jA (fun hk => by rw [qA.2 ins hil] at hk; exact absurd hk hc) k
    exact ⟨j, qA.trans q⟩
  unfold insertBefore at e
  cases v1 with
  | none => exact app s hJ (KK.refl s) e
  | some v =>
    dsimp only at e
    obtain ⟨vn, s1, h1, k1⟩ := obind_ok e
    obtain ⟨_, hs1⟩ := ogetNode_ok h1
    subst s1
    split at k1
    · exact app s hJ (KK.refl s) k1
    · obtain ⟨_, s2, h2, k2⟩ := obind_ok k1
      obtain ⟨j2, q2⟩ := (ensureIsolated_jp ins).h s _ s2 hJ h2
      obtain ⟨_, s3, h3, k3⟩ := obind_ok k2
      obtain ⟨j3, q3⟩ := modNode_keep_ip j2 h3 (fun _ => ⟨rfl, rfl⟩)
      have q23 := q2.trans q3
      obtain ⟨j4, q4⟩ := modNode_ip j3 k3 (fun _ => rfl) (fun hk _ _ => by
        rw [q23.2 ins hil] at hk; exact absurd hk hc)
      exact ⟨j4, q23.trans q4⟩

theorem insertAfter_ip {p : Nat} {v1 : Option Nat} {ins : Nat} {s s' : St} {a : Unit} (hJ : ItemPar s)
    (hc : (nd s ins).kind ≠ .listItem) (hil : ins < s.nodes.length) (e : insertAfter p v1 ins s = .ok (a, s')) :
    ItemPar s' ∧ KK s s' := by
  unfold insertAfter at e
  cases v1 with
  | none =>
    obtain ⟨j, q⟩ := appendChild_ip hJ (fun hk => absurd hk hc) e
    exact ⟨j, q⟩
  | some v =>
    dsimp only at e
    obtain ⟨nx, s1, h1, k1⟩ := obind_ok e
    obtain ⟨j1, q1⟩ := (nextSibling_jp v).h s _ s1 hJ h1
    have fin : ∀ (m : M (Option Nat)), JP m → (m >>= fun next => insertBefore p next ins) s1 = .ok (a, s') →
        ItemPar s' ∧ KK s s' := by
      intro m hm k
      obtain ⟨nx2, s2, h2, k2⟩ := obind_ok k
      obtain ⟨j2, q2⟩ := hm.h s1 _ s2 j1 h2
      have q12 := q1.trans q2
      obtain ⟨j3, q3⟩ := insertBefore_ip j2 (by rw [q12.2 ins hil]; exact hc) (Nat.lt_of_lt_of_le hil q12.1) k2
      exact ⟨j3, q12.trans q3⟩
    split at k1
    · exact fin _ (nextSibling_jp ins) k1
    · exact fin _ (JP.pure nx) k1

theorem replaceChild_ip {p v1 ins : Nat} {s s' : St} {a : Unit} (hJ : ItemPar s)
    (hc : (nd s ins).kind ≠ .listItem) (hil : ins < s.nodes.length) (e : replaceChild p v1 ins s = .ok (a, s')) :
    ItemPar s' ∧ KK s s' := by
  unfold replaceChild at e
  obtain ⟨_, s1, h1, k1⟩ := obind_ok e
  obtain ⟨j1, q1⟩ := insertBefore_ip hJ hc hil h1
  obtain ⟨j2, q2⟩ := (removeChild_jp p v1).h s1 _ s' j1 k1
  exact ⟨j2, q1.trans q2⟩

/-! ### the block parsers -/

macro "jp_step'" : tactic =>
  `(tactic| first
    | apply_hyp
    | jp_step)

/-- like `jp`, but local hypotheses (lemmas about whole sub-blocks) are tried before a `bind` is taken apart -/
macro "jp'" : tactic => `(tactic| repeat' jp_step')

theorem preserveLeadingTab_jp (seg : Segment) (ind : Int) : JP (preserveLeadingTab seg ind) := by
  unfold preserveLeadingTab; jp
theorem codeTakeLine_jp (n : Nat) (pos padding : Int) : JP (codeTakeLine n pos padding) := by
  have := preserveLeadingTab_jp
  unfold codeTakeLine; jp
theorem blockquoteProcess_jp : JP blockquoteProcess := by unfold blockquoteProcess; jp
theorem lastOffset_jp (n : Nat) : JP (lastOffset n) := by unfold lastOffset; jp
theorem lastChildCount_jp (n : Nat) : JP (lastChildCount n) := by unfold lastChildCount; jp

theorem bpOpen_jp (bp : BP) (p : Nat) : JP (bpOpen bp p) := by
  have := preserveLeadingTab_jp
  have := codeTakeLine_jp
  have := blockquoteProcess_jp
  have := lastOffset_jp
  cases bp <;> unfold bpOpen
  · unfold setextOpen; jp
  · unfold thematicOpen; jp
  · unfold listOpen; jp
  · unfold listItemOpen; jp
  · unfold codeOpen; jp
  · unfold atxOpen; jp
  · unfold fencedOpen; jp
  · unfold blockquoteOpen; jp
  · unfold htmlOpen; jp
  · unfold paragraphOpen; jp

theorem bpContinue_jp (bp : BP) (n : Nat) : JP (bpContinue bp n) := by
  have := preserveLeadingTab_jp
  have := codeTakeLine_jp
  have := blockquoteProcess_jp
  have := lastOffset_jp
  have := lastChildCount_jp
  cases bp <;> unfold bpContinue
  · exact JP.pure _
  · exact JP.pure _
  · unfold listContinue; jp
  · unfold listItemContinue; jp
  · unfold codeContinue; jp
  · exact JP.pure _
  · unfold fencedContinue; jp
  · unfold blockquoteContinue; jp
  · unfold htmlContinue; jp
  · unfold paragraphContinue; jp

/-! ### the `Close` functions -/

/-- the replacement paragraph of setextHeadingParser.Close (setext_headings.go:100-104): a fresh Paragraph is attached -/
theorem setext_para_jp (hp node : Nat) (segment : Segment) :
    JP (do
      let para ← newNode { kind := .paragraph }
      appendLine para segment
      insertAfter hp (some node) para : M Unit) := by
  constructor
  intro s a s' hJ h
  obtain ⟨para, s1, h1, k1⟩ := obind_ok h
  obtain ⟨j1, q1⟩ := (newNode_jp { kind := .paragraph } rfl).h s _ s1 hJ h1
  obtain ⟨hpara, hs1⟩ := onewNode_ok h1
  have hsn : s1.nodes = s.nodes ++ [{ kind := .paragraph }] := by rw [hs1]
  obtain ⟨_, s2, h2, k2⟩ := obind_ok k1
  obtain ⟨j2, q2⟩ := (appendLine_jp para segment).h s1 _ s2 j1 h2
  have hlt1 : para < s1.nodes.length := by rw [hsn, hpara]; simp
  have hk1 : (nd s1 para).kind = .paragraph := by rw [hpara, GM.Blocks.L.nd_append_self hsn]
  obtain ⟨j3, q3⟩ := insertAfter_ip j2 (by rw [q2.2 para hlt1, hk1]; decide) (Nat.lt_of_lt_of_le hlt1 q2.1) k2
  exact ⟨j3, (q1.trans q2).trans q3⟩

theorem setext_para_jp' {β : Type} (hp node : Nat) (segment : Segment) (K : Unit → M β) (hK : ∀ r, JP (K r)) :
    JP (newNode { kind := .paragraph } >>= fun para => appendLine para segment >>= fun _ =>
      insertAfter hp (some node) para >>= K) := by
  have e : (newNode { kind := .paragraph } >>= fun para => appendLine para segment >>= fun _ =>
      insertAfter hp (some node) para >>= K) =
      ((do let para ← newNode { kind := .paragraph }
           appendLine para segment
           insertAfter hp (some node) para : M Unit) >>= K) := by
    simp only [bind_assoc]
  rw [e]
  exact JP.bind (setext_para_jp hp node segment) hK

theorem setextClose_jp (node : Nat) : JP (setextClose node) := by
  have := @setext_para_jp'
  have := removeChild_jp
  have := nextSibling_jp
  unfold setextClose
  jp'

/-- the Paragraph → TextBlock replacement of listParser.Close (list.go:270-275): a fresh TextBlock is attached -/
theorem tighten_one_jp (child gc : Nat) (g : Node) :
    JP (do
      let tb ← newNode { kind := .textBlock, lines := g.lines, linesNil := g.linesNil }
      replaceChild child gc tb : M Unit) := by
  constructor
  intro s a s' hJ h
  obtain ⟨tb, s1, h1, k1⟩ := obind_ok h
  obtain ⟨j1, q1⟩ := (newNode_jp { kind := .textBlock, lines := g.lines, linesNil := g.linesNil } rfl).h s _ s1 hJ h1
  obtain ⟨htb, hs1⟩ := onewNode_ok h1
  have hsn : s1.nodes = s.nodes ++ [{ kind := .textBlock, lines := g.lines, linesNil := g.linesNil }] := by rw [hs1]
  have hlt1 : tb < s1.nodes.length := by rw [hsn, htb]; simp
  have hk1 : (nd s1 tb).kind = .textBlock := by rw [htb, GM.Blocks.L.nd_append_self hsn]
  obtain ⟨j2, q2⟩ := replaceChild_ip j1 (by rw [hk1]; decide) hlt1 k1
  exact ⟨j2, q1.trans q2⟩

theorem tighten_one_jp' {β : Type} (child gc : Nat) (g : Node) (K : Unit → M β) (hK : ∀ r, JP (K r)) :
    JP (newNode { kind := .textBlock, lines := g.lines, linesNil := g.linesNil } >>= fun tb =>
      replaceChild child gc tb >>= K) := by
  have e : (newNode { kind := .textBlock, lines := g.lines, linesNil := g.linesNil } >>= fun tb =>
      replaceChild child gc tb >>= K) =
      ((do let tb ← newNode { kind := .textBlock, lines := g.lines, linesNil := g.linesNil }
           replaceChild child gc tb : M Unit) >>= K) := by
    simp only [bind_assoc]
  rw [e]
  exact JP.bind (tighten_one_jp child gc g) hK

theorem tightenItem_jp (child : Nat) : ∀ gcs, JP (tightenItem child gcs) := by
  intro gcs
  induction gcs with
  | nil => unfold tightenItem; exact JP.pure _
  | cons gc gcs ih =>
    unfold tightenItem
    apply JP.bind
    · exact getNode_jp _
    intro g
    dsimp only
    apply JP.ite
    · exact tighten_one_jp' _ _ _ _ (fun _ => ih)
    · exact ih

theorem tightenItems_jp : ∀ l, JP (tightenItems l) := by
  intro l
  induction l with
  | nil => unfold tightenItems; exact JP.pure _
  | cons c rest ih =>
    have := tightenItem_jp
    unfold tightenItems
    jp'

theorem listClose_jp (node : Nat) : JP (listClose node) := by
  have := tightenItems_jp
  unfold listClose
  jp'

theorem bpClose_jp (bp : BP) (node : Nat) : JP (bpClose bp node) := by
  cases bp <;> unfold bpClose
  · exact setextClose_jp node
  · exact JP.pure _
  · exact listClose_jp node
  · exact JP.pure _
  · unfold codeClose; jp
  · exact JP.pure _
  · unfold fencedClose; jp
  · exact JP.pure _
  · exact JP.pure _
  · have := removeChild_jp
    unfold paragraphClose; jp


/-! ### what `Open` returns: a FRESH node, of the kind the parser builds -/

/-- the store grows by nodes of kind `K`; existing nodes keep their kind -/
def KindsNew (K : Kind) (s s' : St) : Prop :=
  s.nodes.length ≤ s'.nodes.length ∧ (∀ i, i < s.nodes.length → (nd s' i).kind = (nd s i).kind) ∧
    (∀ i, s.nodes.length ≤ i → i < s'.nodes.length → (nd s' i).kind = K)

theorem KindsNew.refl (K : Kind) (s : St) : KindsNew K s s := ⟨Nat.le_refl _, fun _ _ => rfl, fun i h1 h2 => by omega⟩
theorem KindsNew.trans {K : Kind} {a b c : St} (h1 : KindsNew K a b) (h2 : KindsNew K b c) : KindsNew K a c := by
  refine ⟨Nat.le_trans h1.1 h2.1, fun i hi => (h2.2.1 i (Nat.lt_of_lt_of_le hi h1.1)).trans (h1.2.1 i hi), fun i hi hi' => ?_⟩
  rcases Nat.lt_or_ge i b.nodes.length with hb | hb
  · exact (h2.2.1 i hb).trans (h1.2.2 i hi hb)
  · exact h2.2.2 i hb hi'
theorem KindsNew.of_nodes {K : Kind} {s s' : St} (h : s'.nodes = s.nodes) : KindsNew K s s' :=
  ⟨by rw [h]; exact Nat.le_refl _, fun i _ => by simp only [nd, h], fun i h1 h2 => by rw [h] at h2; omega⟩

structure FrKn (K : Kind) {α : Type} (m : M α) : Prop where
  h : ∀ s a s', m s = .ok (a, s') → KindsNew K s s'

/-- the node store is not touched -/
structure NSj {α : Type} (m : M α) : Prop where
  h : ∀ s a s', m s = .ok (a, s') → s'.nodes = s.nodes

theorem NSj.frkn {K : Kind} {α} {m : M α} (h : NSj m) : FrKn K m := ⟨fun s a s' e => KindsNew.of_nodes (h.h s a s' e)⟩

theorem NSj.pure {α} (a : α) : NSj (pure a : M α) := ⟨fun _ _ _ h => by cases h; rfl⟩
theorem NSj.bind {α β} {m : M α} {f : α → M β} (hm : NSj m) (hf : ∀ a, NSj (f a)) : NSj (m >>= f) := by
  constructor
  intro s b s' h
  obtain ⟨a, s1, h1, k1⟩ := obind_ok h
  rw [(hf a).h s1 b s' k1, hm.h s a s1 h1]
theorem NSj.ite {α} {c : Prop} [Decidable c] {a b : M α} (ha : NSj a) (hb : NSj b) : NSj (if c then a else b) := by
  split <;> assumption
theorem NSj.throw {α} (e : Panic) : NSj (throw e : M α) := ⟨fun _ _ _ h => by cases h⟩
theorem getNode_ns (id : Nat) : NSj (getNode id) := ⟨fun _ _ _ h => by cases h; rfl⟩
theorem getPc_ns : NSj getPc := ⟨fun _ _ _ h => by cases h; rfl⟩
theorem source_ns : NSj source := ⟨fun _ _ _ h => by cases h; rfl⟩
theorem position_ns : NSj position := ⟨fun _ _ _ h => by cases h; rfl⟩
theorem modPc_ns (f : Ctx → Ctx) : NSj (modPc f) := ⟨fun _ _ _ h => by cases h; rfl⟩
theorem setPosition_ns (l : Int) (p : Segment) : NSj (setPosition l p) := ⟨fun _ _ _ h => by cases h; rfl⟩
theorem lastOpenedBlock_ns : NSj lastOpenedBlock := ⟨fun _ _ _ h => by obtain ⟨_, hs⟩ := olastOpenedBlock_ok h; rw [hs]⟩
theorem liftE_ns {α} (e : Except Panic α) : NSj (liftE e) := ⟨fun _ _ _ h => by obtain ⟨_, hs⟩ := oliftE_ok h; rw [hs]⟩
theorem peekLine_ns : NSj peekLine := by
  constructor
  intro s a s' h
  unfold GM.Blocks.peekLine at h
  cases hf : s.r.peekLine with
  | error e => simp [hf, bind, Except.bind] at h
  | ok p => simp only [hf, bind, Except.bind, Pure.pure, Except.pure] at h; cases h; rfl
theorem lineOffset_ns : NSj lineOffset := ⟨fun s a s' h => by obtain ⟨r', hs⟩ := olineOffset_ok h; rw [hs]⟩
theorem advance_ns (n : Int) : NSj (advance n) := ⟨fun s a s' h => by obtain ⟨r', hs⟩ := oadvance_ok h; rw [hs]⟩
theorem advanceAndSetPadding_ns (n p : Int) : NSj (advanceAndSetPadding n p) :=
  ⟨fun s a s' h => by obtain ⟨r', hs⟩ := oadvanceAndSetPadding_ok h; rw [hs]⟩

macro "ns_step" : tactic =>
  `(tactic| first
    | with_reducible apply NSj.pure
    | with_reducible apply NSj.bind
    | with_reducible apply NSj.ite
    | with_reducible apply NSj.throw
    | with_reducible apply getNode_ns
    | with_reducible apply getPc_ns
    | with_reducible apply source_ns
    | with_reducible apply position_ns
    | with_reducible apply modPc_ns
    | with_reducible apply setPosition_ns
    | with_reducible apply lastOpenedBlock_ns
    | with_reducible apply liftE_ns
    | with_reducible apply peekLine_ns
    | with_reducible apply lineOffset_ns
    | with_reducible apply advance_ns
    | with_reducible apply advanceAndSetPadding_ns
    | apply_hyp
    | intro _
    | split)

macro "ns" : tactic => `(tactic| repeat' ns_step)

theorem FrKn.pure {K : Kind} {α} (a : α) : FrKn K (pure a : M α) := (NSj.pure a).frkn
theorem FrKn.bind {K : Kind} {α β} {m : M α} {f : α → M β} (hm : FrKn K m) (hf : ∀ a, FrKn K (f a)) : FrKn K (m >>= f) := by
  constructor
  intro s b s' h
  obtain ⟨a, s1, h1, k1⟩ := obind_ok h
  exact (hm.h s a s1 h1).trans ((hf a).h s1 b s' k1)
theorem FrKn.ite {K : Kind} {α} {c : Prop} [Decidable c] {a b : M α} (ha : FrKn K a) (hb : FrKn K b) :
    FrKn K (if c then a else b) := by split <;> assumption
theorem FrKn.throw {K : Kind} {α} (e : Panic) : FrKn K (throw e : M α) := ⟨fun _ _ _ h => by cases h⟩

theorem modNode_frkn {K : Kind} (id : Nat) (f : Node → Node) (hf : ∀ n, (f n).kind = n.kind) : FrKn K (modNode id f) := by
  constructor
  intro s a s' h
  have e := omodNode_ok h
  have hkind : ∀ i, (nd s' i).kind = (nd s i).kind := by
    intro i
    rw [e, nd_mod]
    split
    · next hc => rw [hc.1]; exact hf _
    · rfl
  have hlen : s'.nodes.length = s.nodes.length := by rw [e]; simp
  exact ⟨by omega, fun i _ => hkind i, fun i h1 h2 => by omega⟩

theorem appendLine_frkn {K : Kind} (id : Nat) (seg : Segment) : FrKn K (appendLine id seg) := modNode_frkn _ _ (fun _ => rfl)

theorem newNode_frkn {K : Kind} (n : Node) (hn : n.kind = K) : FrKn K (newNode n) := by
  constructor
  intro s a s' h
  obtain ⟨_, hs⟩ := onewNode_ok h
  have hsn : s'.nodes = s.nodes ++ [n] := by rw [hs]
  refine ⟨by rw [hsn]; simp, fun i hi => by rw [GM.Blocks.L.nd_append_lt hsn hi], fun i h1 h2 => ?_⟩
  have : i = s.nodes.length := by rw [hsn] at h2; simp at h2; omega
  rw [this, GM.Blocks.L.nd_append_self hsn]; exact hn

theorem blockquoteProcess_ns : NSj blockquoteProcess := by unfold blockquoteProcess; ns
theorem lastOffset_ns (n : Nat) : NSj (lastOffset n) := by unfold lastOffset; ns
theorem preserveLeadingTab_ns (seg : Segment) (ind : Int) : NSj (preserveLeadingTab seg ind) := by
  unfold preserveLeadingTab; ns

macro "frkn_step" : tactic =>
  `(tactic| first
    | with_reducible apply FrKn.pure
    | with_reducible apply FrKn.bind
    | with_reducible apply FrKn.ite
    | with_reducible apply FrKn.throw
    | with_reducible apply appendLine_frkn
    | (with_reducible apply modNode_frkn; intro _; rfl)
    | (with_reducible apply newNode_frkn; first | rfl | exact rfl | decide | (simp only [BP.kind]))
    | with_reducible exact NSj.frkn (getNode_ns _)
    | with_reducible exact NSj.frkn getPc_ns
    | with_reducible exact NSj.frkn source_ns
    | with_reducible exact NSj.frkn position_ns
    | with_reducible exact NSj.frkn (modPc_ns _)
    | with_reducible exact NSj.frkn (setPosition_ns _ _)
    | with_reducible exact NSj.frkn lastOpenedBlock_ns
    | with_reducible exact NSj.frkn (liftE_ns _)
    | with_reducible exact NSj.frkn peekLine_ns
    | with_reducible exact NSj.frkn lineOffset_ns
    | with_reducible exact NSj.frkn (advance_ns _)
    | with_reducible exact NSj.frkn (advanceAndSetPadding_ns _ _)
    | with_reducible exact NSj.frkn blockquoteProcess_ns
    | with_reducible exact NSj.frkn (lastOffset_ns _)
    | with_reducible exact NSj.frkn (preserveLeadingTab_ns _ _)
    | apply_hyp
    | intro _
    | split)

macro "frkn" : tactic => `(tactic| repeat' frkn_step)

theorem codeTakeLine_frkn {K : Kind} (n : Nat) (pos padding : Int) : FrKn K (codeTakeLine n pos padding) := by
  unfold codeTakeLine; frkn

theorem bpOpen_frkn (bp : BP) (p : Nat) : FrKn bp.kind (bpOpen bp p) := by
  cases bp <;> unfold bpOpen
  · unfold setextOpen; frkn
  · unfold thematicOpen; frkn
  · unfold listOpen; frkn
  · unfold listItemOpen; frkn
  · have := @codeTakeLine_frkn BP.code.kind
    unfold codeOpen; frkn
  · unfold atxOpen; frkn
  · unfold fencedOpen; frkn
  · unfold blockquoteOpen; frkn
  · unfold htmlOpen; frkn
  · unfold paragraphOpen; frkn


/-- the store does not shrink -/
structure LM {α : Type} (m : M α) : Prop where
  h : ∀ s a s', m s = .ok (a, s') → s.nodes.length ≤ s'.nodes.length

theorem LM.of_ns {α} {m : M α} (h : NSj m) : LM m := ⟨fun s a s' e => by rw [h.h s a s' e]; exact Nat.le_refl _⟩
theorem LM.of_frkn {K : Kind} {α} {m : M α} (h : FrKn K m) : LM m := ⟨fun s a s' e => (h.h s a s' e).1⟩

/-- the node `Open` answers is a node it has just built -/
structure RFr (m : M (Option Nat × PState)) : Prop where
  h : ∀ s a s', m s = .ok (a, s') → ∀ id, a.1 = some id → s.nodes.length ≤ id ∧ id < s'.nodes.length

/-- the node answered, if any, is `id` -/
structure RIs (id : Nat) (m : M (Option Nat × PState)) : Prop where
  h : ∀ s a s', m s = .ok (a, s') → (∀ id', a.1 = some id' → id' = id) ∧ s.nodes.length ≤ s'.nodes.length

theorem RFr.pure_none (st : PState) : RFr (pure (none, st)) :=
  ⟨fun _ _ _ h id hid => by cases h; cases hid⟩
theorem RFr.throw (e : Panic) : RFr (throw e) := ⟨fun _ _ _ h => by cases h⟩
theorem RFr.ite {c : Prop} [Decidable c] {a b : M (Option Nat × PState)} (ha : RFr a) (hb : RFr b) :
    RFr (if c then a else b) := by split <;> assumption
theorem RFr.bind_ns {α} {m : M α} {f : α → M (Option Nat × PState)} (hm : NSj m) (hf : ∀ x, RFr (f x)) :
    RFr (m >>= f) := by
  constructor
  intro s b s' h id hid
  obtain ⟨a, s1, h1, k1⟩ := obind_ok h
  have := (hf a).h s1 b s' k1 id hid
  rw [hm.h s a s1 h1] at this
  exact this
theorem RFr.newNode_bind (n : Node) {f : Nat → M (Option Nat × PState)} (hf : ∀ id, RIs id (f id)) :
    RFr (newNode n >>= f) := by
  constructor
  intro s b s' h id hid
  obtain ⟨a, s1, h1, k1⟩ := obind_ok h
  obtain ⟨ha, hs1⟩ := onewNode_ok h1
  obtain ⟨q1, q2⟩ := (hf a).h s1 b s' k1
  have := q1 id hid
  have hl : s1.nodes.length = s.nodes.length + 1 := by rw [hs1]; simp
  omega

theorem RIs.pure_some (id : Nat) (st : PState) : RIs id (pure (some id, st)) :=
  ⟨fun _ _ _ h => by cases h; exact ⟨(fun id' hid' => by cases hid'; rfl), Nat.le_refl _⟩⟩
theorem RIs.pure_none (id : Nat) (st : PState) : RIs id (pure (none, st)) :=
  ⟨fun _ _ _ h => by cases h; exact ⟨(fun id' hid' => by cases hid'), Nat.le_refl _⟩⟩
theorem RIs.throw (id : Nat) (e : Panic) : RIs id (throw e) := ⟨fun _ _ _ h => by cases h⟩
theorem RIs.ite {id : Nat} {c : Prop} [Decidable c] {a b : M (Option Nat × PState)} (ha : RIs id a) (hb : RIs id b) :
    RIs id (if c then a else b) := by split <;> assumption
theorem RIs.bind {id : Nat} {α} {m : M α} {f : α → M (Option Nat × PState)} (hm : LM m) (hf : ∀ x, RIs id (f x)) :
    RIs id (m >>= f) := by
  constructor
  intro s b s' h
  obtain ⟨a, s1, h1, k1⟩ := obind_ok h
  obtain ⟨q1, q2⟩ := (hf a).h s1 b s' k1
  exact ⟨q1, Nat.le_trans (hm.h s a s1 h1) q2⟩

macro "lm" : tactic =>
  `(tactic| first
    | (apply LM.of_ns; ns; done)
    | (apply LM.of_frkn (K := Kind.document); frkn; done))

macro "rfr_step" : tactic =>
  `(tactic| first
    | with_reducible apply RFr.pure_none
    | with_reducible apply RFr.throw
    | with_reducible apply RFr.newNode_bind
    | (with_reducible apply RFr.bind_ns; focus (ns; done))
    | with_reducible apply RFr.ite
    | with_reducible apply RIs.pure_some
    | with_reducible apply RIs.pure_none
    | with_reducible apply RIs.throw
    | (with_reducible apply RIs.bind; focus lm)
    | with_reducible apply RIs.ite
    | intro _
    | split)

macro "rfr" : tactic => `(tactic| repeat' rfr_step)

theorem bpOpen_rfr (bp : BP) (p : Nat) : RFr (bpOpen bp p) := by
  have h1 := @blockquoteProcess_ns
  have h2 := @lastOffset_ns
  have h3 := @codeTakeLine_frkn Kind.document
  cases bp <;> unfold bpOpen
  · unfold setextOpen; rfr
  · unfold thematicOpen; rfr
  · unfold listOpen; rfr
  · unfold listItemOpen; rfr
  · unfold codeOpen; rfr
  · unfold atxOpen; rfr
  · unfold fencedOpen; rfr
  · unfold blockquoteOpen; rfr
  · unfold htmlOpen; rfr
  · unfold paragraphOpen; rfr

/-- **what `Open` answers**: a node it has just built, whose kind is the kind the parser builds -/
theorem bpOpen_ret {bp : BP} {p : Nat} {s s' : St} {a : Option Nat × PState} (e : bpOpen bp p s = .ok (a, s')) :
    KK s s' ∧ ∀ id, a.1 = some id → s.nodes.length ≤ id ∧ id < s'.nodes.length ∧ (nd s' id).kind = bp.kind := by
  have hk := (bpOpen_frkn bp p).h s a s' e
  refine ⟨⟨hk.1, hk.2.1⟩, fun id hid => ?_⟩
  obtain ⟨h1, h2⟩ := (bpOpen_rfr bp p).h s a s' e id hid
  exact ⟨h1, h2, hk.2.2 id h1 h2⟩


end GM.Blocks
