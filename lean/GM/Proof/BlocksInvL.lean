/-
  GM.Proof.BlocksInvL — the list part of the block-phase invariant: what the store looks like around List / ListItem
  nodes (`KidsOK`), and the tree-link frame `TF` that every parser call respects.
-/
import GM.Proof.BlocksSpecList
import GM.Proof.BlocksSpecListItem
import GM.Proof.BlocksSpecBasic

namespace GM.Blocks
open GM GM.Text GM.Spec GM.Proof.Reader

/-- kinds of container blocks -/
def Kind.isCont : Kind → Bool
  | .blockquote | .list | .listItem => true
  | _ => false

/-- the list invariant of the node store: the children of a List are (existing) ListItems with offset ≥ 0, and a node
    whose parent pointer is a List is a ListItem -/
structure KidsOK (s : St) : Prop where
  kids : ∀ i lc, (nd s i).kind = .list → lc ∈ (nd s i).children → lc < s.nodes.length ∧ (nd s lc).kind = .listItem
  off : ∀ i, (nd s i).kind = .listItem → 0 ≤ (nd s i).offset
  pk : ∀ i p, (nd s i).parent = some p → (nd s p).kind = .list → (nd s i).kind = .listItem

/-- what a parser call (Continue / Close) never changes about tree links -/
structure TF (s s' : St) : Prop where
  parent : ∀ i, i < s.nodes.length → (nd s i).kind.isCont = true → (nd s' i).parent = (nd s i).parent
  kids : ∀ i, i < s.nodes.length → (nd s i).kind = .list → (nd s' i).children = (nd s i).children
  offset : ∀ i, i < s.nodes.length → (nd s' i).offset = (nd s i).offset
  newParent : ∀ i p, (nd s' i).parent = some p → (nd s' p).kind = .list → i < s.nodes.length ∧ (nd s i).parent = some p
  newKind : ∀ i, s.nodes.length ≤ i → (nd s' i).kind ≠ .list ∧ (nd s' i).kind ≠ .listItem

/-- nothing about the tree changed at all (all `Continue`s, most `Close`s) -/
structure TreeSame (s s' : St) : Prop where
  len : s'.nodes.length = s.nodes.length
  same : ∀ i, (nd s' i).kind = (nd s i).kind ∧ (nd s' i).parent = (nd s i).parent ∧
    (nd s' i).children = (nd s i).children ∧ (nd s' i).offset = (nd s i).offset

theorem TreeSame.refl (s : St) : TreeSame s s := ⟨rfl, fun _ => ⟨rfl, rfl, rfl, rfl⟩⟩

theorem TreeSame.trans {s1 s2 s3 : St} (h1 : TreeSame s1 s2) (h2 : TreeSame s2 s3) : TreeSame s1 s3 :=
  ⟨by rw [h2.len, h1.len], fun i => by
    obtain ⟨a, b, c, d⟩ := h1.same i; obtain ⟨a', b', c', d'⟩ := h2.same i
    exact ⟨by rw [a', a], by rw [b', b], by rw [c', c], by rw [d', d]⟩⟩

theorem TreeSame.of_nodes_eq {s s' : St} (h : s'.nodes = s.nodes) : TreeSame s s' :=
  ⟨by rw [h], fun i => by simp only [nd, h]; simp⟩

theorem nd_default_of_ge (s : St) {i : Nat} (h : s.nodes.length ≤ i) : nd s i = default := by
  simp [nd, List.getD_eq_getElem?_getD, List.getElem?_eq_none h]

theorem TreeSame.tf {s s' : St} (h : TreeSame s s') : TF s s' where
  parent := fun i _ _ => (h.same i).2.1
  kids := fun i _ _ => (h.same i).2.2.1
  offset := fun i _ => (h.same i).2.2.2
  newParent := fun i p hp _ => by
    rw [(h.same i).2.1] at hp
    refine ⟨?_, hp⟩
    rcases Nat.lt_or_ge i s.nodes.length with hi | hi
    · exact hi
    · rw [nd_default_of_ge s hi] at hp; cases hp
  newKind := fun i hi => by
    rw [(h.same i).1, nd_default_of_ge s hi]
    exact ⟨by decide, by decide⟩

theorem KidsOK.tf {s s' : St} (h : KidsOK s) (e : Ext s s') (t : TF s s') : KidsOK s' where
  kids := by
    intro i lc hk hm
    rcases Nat.lt_or_ge i s.nodes.length with hi | hi
    · rw [e.kind i hi] at hk
      rw [t.kids i hi hk] at hm
      obtain ⟨a, b⟩ := h.kids i lc hk hm
      exact ⟨Nat.lt_of_lt_of_le a e.len, by rw [e.kind lc a]; exact b⟩
    · exact absurd hk (t.newKind i hi).1
  off := by
    intro i hk
    rcases Nat.lt_or_ge i s.nodes.length with hi | hi
    · rw [t.offset i hi]; rw [e.kind i hi] at hk; exact h.off i hk
    · exact absurd hk (t.newKind i hi).2
  pk := by
    intro i p hp hk
    obtain ⟨hi, hp'⟩ := t.newParent i p hp hk
    have hpl : p < s.nodes.length := by
      rcases Nat.lt_or_ge p s.nodes.length with h' | h'
      · exact h'
      · exact absurd hk (t.newKind p h').1
    rw [e.kind p hpl] at hk
    rw [e.kind i hi]
    exact h.pk i p hp' hk

end GM.Blocks
