/-
  GM.Proof.E2EUrlTokMain — copy of GM.Proof.RenderWF.Main for the grammar `WFHtmlU` (harmless `href` / `src` values as a side
  condition of every start tag); see GM.Proof.E2EUrlTokGrammar. Only `wf_el` / `wf_void` differ (they ask for `UrlAttrs`).
-/
import GM.Proof.E2EUrlTokKinds4
import GM.Proof.RenderWF.Template
import GM.Proof.RenderWF.Main

namespace GM.Proof.RenderWFU
open GM GM.Spec GM.Proof.RenderWF

/-! ### unfolding lemmas for the mutually recursive definitions -/

/-! ### image alt text -/

/-! ### one node, given a well-formed body -/

variable {x : Bool} {rc : RCfg}

theorem node_core (hc : CfgOK x rc) (ctx : Ctx) (pih : Bool) (next : Option Node) (k : Kind)
    (attrs : Option (List Attr)) (cs : List Node) (nf : NodeFacts rc ctx k attrs cs)
    {body : Bytes} (hb : WFHtmlU x body) :
    ∃ core, enter rc pih next k attrs cs ++ body ++ leave rc pih next k cs = core ++ tbodyFix rc k next ∧
      WFHtmlU x core := by
  by_cases hh' : handled rc.exts k = false
  · exact ⟨_, by rw [tbodyFix_unhandled hh', List.append_nil], wf_unhandled k hh' pih next attrs cs hb⟩
  have hh : handled rc.exts k = true := by simpa using hh'
  have plain : ∀ {k'}, k' = k → tbodyFix rc k' next = [] →
      WFHtmlU x (enter rc pih next k attrs cs ++ body ++ leave rc pih next k cs) →
      ∃ core, enter rc pih next k attrs cs ++ body ++ leave rc pih next k cs = core ++ tbodyFix rc k next ∧
        WFHtmlU x core := by
    intro k' e h1 h2; subst e
    exact ⟨_, by rw [h1, List.append_nil], h2⟩
  have hk := nf.hkind
  cases k
  case tableHeader => exact wf_tableHeader hh pih next attrs cs hb nf.hattrs
  case tableRow => exact wf_tableRow hh pih next attrs cs hb nf.hattrs
  all_goals refine plain rfl (by simp [tbodyFix]) ?_
  case document => exact wf_document pih next attrs cs hb
  case heading level =>
    simp only [kindInv, Bool.and_eq_true, decide_eq_true_eq] at hk
    exact wf_heading pih next attrs cs level hk.1 hk.2 hb nf.hattrs
  case blockquote => exact wf_blockquote pih next attrs cs hb nf.hattrs
  case codeBlock lines => exact wf_codeBlock pih next attrs cs lines hb
  case fencedCodeBlock info lines => exact wf_fencedCodeBlock pih next attrs cs info lines hb
  case htmlBlock lines closure => exact wf_htmlBlock hc pih next attrs cs lines closure hb
  case list ordered start => exact wf_list pih next attrs cs ordered start hb nf.hattrs nf.hclash
  case listItem => exact wf_listItem pih next attrs cs hb nf.hattrs
  case paragraph => exact wf_paragraph pih next attrs cs hb nf.hattrs
  case textBlock => exact wf_textBlock pih next attrs cs hb
  case thematicBreak => exact wf_thematicBreak hc pih next attrs cs hb nf.hattrs
  case autoLink email url label => exact wf_autoLink hc pih next attrs cs email url label hb nf.hattrs
  case codeSpan => exact wf_codeSpan pih next attrs cs hb nf.hattrs
  case emphasis level => exact wf_emphasis pih next attrs cs level hb nf.hattrs
  case image dest title =>
    exact wf_image hc pih next attrs cs dest title hb nf.hattrs nf.hclash (altTexts_inert rc _ cs _ nf.hchildren)
  case link dest title => exact wf_link hc pih next attrs cs dest title hb nf.hattrs nf.hclash
  case rawHTML segs => exact wf_rawHTML hc pih next attrs cs segs hb
  case text v soft hard raw cjk => exact wf_text hc pih next attrs cs v soft hard raw cjk hb
  case string v raw code =>
    refine wf_string pih next attrs cs v raw code hb ?_
    intro hcode
    simp only [kindInv, hcode, Bool.not_true, Bool.false_or] at hk
    exact hk
  case table => exact wf_table hh pih next attrs cs hb nf.hattrs
  case tableCell align => exact wf_tableCell hh pih next attrs cs align hb nf.hattrs
  case strikethrough => exact wf_strikethrough hh pih next attrs cs hb nf.hattrs
  case taskCheckBox checked => exact wf_taskCheckBox hc hh pih next attrs cs checked hb
  case definitionList => exact wf_definitionList hh pih next attrs cs hb nf.hattrs
  case definitionTerm => exact wf_definitionTerm hh pih next attrs cs hb nf.hattrs
  case definitionDescription tight => exact wf_definitionDescription hh pih next attrs cs tight hb nf.hattrs
  case footnoteLink index refCount refIndex =>
    exact wf_footnoteLink hc hh pih next attrs cs index refCount refIndex hb
  case footnoteBacklink index refCount refIndex =>
    exact wf_footnoteBacklink hc hh pih next attrs cs index refCount refIndex hb
  case footnote index => exact wf_footnote hc hh pih next attrs cs index hb nf.hattrs nf.hclash
  case footnoteList => exact wf_footnoteList hc hh pih next attrs cs hb nf.hattrs nf.hclash
  case other => exact wf_other pih next attrs cs hb

/-! ### lists of children -/

/-- the induction predicate: a node renders to a well-formed core plus its share of the `<tbody>` element -/
def NodeWF (x : Bool) (rc : RCfg) (n : Node) : Prop :=
  ∀ ctx pih next, nodeInv rc ctx n = true →
    ∃ core, renderNode rc pih next n = core ++ tbodyFix rc n.kind next ∧ WFHtmlU x core

theorem list_plain (cs : List Node) (hP : ∀ c ∈ cs, NodeWF x rc c) (ctx : Ctx) (hinv : nodesInv rc ctx cs = true)
    (hfix : ∀ c ∈ cs, ∀ next, tbodyFix rc c.kind next = []) (pih : Bool) : WFHtmlU x (renderNodes rc pih cs) := by
  induction cs with
  | nil => exact .nil
  | cons c rest ih =>
    rw [nodesInv_cons, Bool.and_eq_true] at hinv
    rw [renderNodes_cons]
    obtain ⟨core, e, w⟩ := hP c (by simp) ctx pih rest.head? hinv.1
    rw [e, hfix c (by simp), List.append_nil]
    exact .append _ _ w (ih (fun d hd => hP d (by simp [hd])) hinv.2 (fun d hd => hfix d (by simp [hd])))

theorem rows_wf (hh : rc.exts.table = true) (rows : List Node) (hP : ∀ c ∈ rows, NodeWF x rc c)
    (hinv : nodesInv rc .table rows = true) (hrows : rows.all (fun r => r.kind == .tableRow) = true)
    (hne : rows ≠ []) (pih : Bool) :
    ∃ B, renderNodes rc pih rows = B ++ strBytes "</tbody>\n" ∧ WFHtmlU x B := by
  induction rows with
  | nil => exact absurd rfl hne
  | cons r rest ih =>
    rw [nodesInv_cons, Bool.and_eq_true] at hinv
    rw [List.all_cons, Bool.and_eq_true] at hrows
    rw [renderNodes_cons]
    obtain ⟨core, e, w⟩ := hP r (by simp) .table pih rest.head? hinv.1
    rw [e, kind_eq_row _ hrows.1]
    cases rest with
    | nil =>
      refine ⟨core, ?_, w⟩
      simp [tbodyFix, handled, hh, renderNodes_nil]
    | cons r' rest' =>
      obtain ⟨B, eB, wB⟩ := ih (fun d hd => hP d (by simp [hd])) hinv.2 hrows.2 (by simp)
      refine ⟨core ++ B, ?_, .append _ _ w wB⟩
      rw [eB]
      simp [tbodyFix, handled, hh]

theorem table_children_wf (hh : rc.exts.table = true) (cs : List Node) (hP : ∀ c ∈ cs, NodeWF x rc c)
    (hinv : nodesInv rc .table cs = true) (hshape : tableShape cs = true) (pih : Bool) :
    WFHtmlU x (renderNodes rc pih cs) := by
  unfold tableShape at hshape
  split at hshape
  · rename_i a hcs rows
    rw [nodesInv_cons, Bool.and_eq_true] at hinv
    rw [renderNodes_cons]
    obtain ⟨core, e, w⟩ := hP _ (by simp) .table pih rows.head? hinv.1
    rw [e]
    cases rows with
    | nil =>
      refine (w.of_eq ?_)
      simp [tbodyFix, handled, hh, Node.kind, renderNodes_nil]
    | cons r rest =>
      obtain ⟨B, eB, wB⟩ := rows_wf hh (r :: rest) (fun d hd => hP d (by simp [hd])) hinv.2 hshape (by simp) pih
      rw [eB]
      have tb := wf_el (x := x) tag_tbody (sok_fixed tag_tbody (fixed := []) rfl (by simp))
        (pre := [10]) (post := [10]) (opn := strBytes "<tbody>\n") (cls := strBytes "</tbody>\n")
        (by bnorm) (by bnorm) (by decide) (by decide) wB
      refine (WFHtmlU.append _ _ w tb).of_eq ?_
      simp [tbodyFix, handled, hh, Node.kind]
  · cases hshape

theorem children_wf {ctx : Ctx} {k : Kind} {attrs : Option (List Attr)} {cs : List Node}
    (nf : NodeFacts rc ctx k attrs cs) (hP : ∀ c ∈ cs, NodeWF x rc c) (pih : Bool) :
    WFHtmlU x (renderNodes rc pih cs) := by
  by_cases ht : rc.exts.table = true
  · by_cases hk : k = .table
    · subst hk
      exact table_children_wf ht cs hP nf.hchildren nf.hkind pih
    · have hctx : childCtx k ≠ .table := by
        cases k <;> first | (exact absurd rfl hk) | (simp [childCtx])
      exact list_plain cs hP _ nf.hchildren
        (fun c hc next => fix_nil_of_ctx hctx c (nodesInv_mem nf.hchildren c hc) next) pih
  · have ht' : rc.exts.table = false := by simpa using ht
    exact list_plain cs hP _ nf.hchildren (fun c _ next => fix_nil_of_noTable ht' _ next) pih

/-! ### the whole tree -/

theorem node_wf (hc : CfgOK x rc) : ∀ n, NodeWF x rc n := by
  apply Node.ind
  intro k a cs ih ctx pih next hinv
  have nf := nodeFacts hinv
  rw [renderNode_mk]
  have hb : WFHtmlU x (if (handled rc.exts k && skipsChildren k) = true then []
      else renderNodes rc k.isTableHeader cs) := by
    split
    · exact .nil
    · exact children_wf nf ih _
  exact node_core hc ctx pih next k a cs nf hb

/-- Appendix E step 1 for an arbitrary renderer state in safe mode with consistent XHTML flags. -/
theorem render_wf_cfg (hc : CfgOK x rc) (t : Node) (hinv : nodeInv rc .any t = true) : WFHtmlU x (render rc t) := by
  obtain ⟨core, e, w⟩ := node_wf hc t .any false none hinv
  unfold render
  rw [e, fix_nil_of_ctx (by decide) t hinv, List.append_nil]
  exact w

/-! ### the configurations `mkRCfg` builds -/

/-- Appendix E step 1 for any renderer state in safe mode whose copies of the XHTML flag agree (this covers
    non-default footnote options, as long as the configured strings are inert — part of `Inv`). -/
theorem render_wf_rc (x : Bool) (rc : RCfg) (hsafe : rc.core.unsafe_ = false) (hcore : rc.core.xhtml = x)
    (htask : rc.task.xhtml = x) (hfoot : rc.foot.xhtml = x) (t : Node) (hinv : Spec.Inv rc t = true) :
    WFHtmlU x (render rc t) := by
  unfold Spec.Inv at hinv
  rw [Bool.and_eq_true] at hinv
  exact render_wf_cfg ⟨hsafe, hcore, htask, hfoot, footOK_of_inv hinv.2⟩ t hinv.1

/-- Appendix E step 1: in safe mode, under the tree invariant, the renderer's output is in the grammar. -/
theorem render_wf (o : Opts) (e : Exts) (t : Node) (hsafe : o.unsafe_ = false)
    (hinv : Spec.Inv (mkRCfg o e) t = true) : WFHtmlU o.xhtml (render (mkRCfg o e) t) := by
  unfold Spec.Inv at hinv
  rw [Bool.and_eq_true] at hinv
  exact render_wf_cfg (cfgOK_mk o e hsafe) t hinv.1

end GM.Proof.RenderWFU

