-- GENERATED from BlocksTNP3.lean by tools/port_blocks_v.py (package headingids): the same proofs for the monitored driver runV. Do not edit.
/-
  GM.Proof.BlocksTNP3 — no-panic proof of the block driver WITH paragraph transformers, list-aware layer, part 1:
  the tree-link frame `TF`, `KidsOK` and `PLTf` over a `transformParagraph` call, and `closeLoopV` / `closeBlocksV` total
  with these frames (the analogue of `L.closeListL_okl` / `L.closeBlocksL_okl` of GM.Proof.BlocksDriverL).
  The frame lemmas of BlocksDriverL that take `Ext` only use its `len` and `kind`: they are restated for `ExtW`.
-/
import GM.Proof.BlocksVNP1
import GM.Proof.BlocksDriverL
import GM.Proof.BlocksFrames
import GM.Proof.BlocksPlt

namespace GM.Blocks.L.TV
open GM GM.Text GM.Spec GM.Proof.Reader GM.Blocks.TV

/-! ### the frame lemmas of BlocksDriverL for `ExtW` -/

theorem TF.transW {s1 s2 s3 : St} (h12 : TF s1 s2) (e12 : ExtW s1 s2) (h23 : TF s2 s3) (e23 : ExtW s2 s3) : TF s1 s3 where
  parent := fun i hi hk => by
    rw [h23.parent i (Nat.lt_of_lt_of_le hi e12.len) (by rw [e12.kind i hi]; exact hk), h12.parent i hi hk]
  kids := fun i hi hk => by
    rw [h23.kids i (Nat.lt_of_lt_of_le hi e12.len) (by rw [e12.kind i hi]; exact hk), h12.kids i hi hk]
  offset := fun i hi => by rw [h23.offset i (Nat.lt_of_lt_of_le hi e12.len), h12.offset i hi]
  newParent := fun i p hp hk => by
    obtain ⟨hi2, hp2⟩ := h23.newParent i p hp hk
    have hp2l : p < s2.nodes.length := by
      rcases Nat.lt_or_ge p s2.nodes.length with h | h
      · exact h
      · exact absurd hk (h23.newKind p h).1
    rw [e23.kind p hp2l] at hk
    exact h12.newParent i p hp2 hk
  newKind := fun i hi => by
    rcases Nat.lt_or_ge i s2.nodes.length with h | h
    · rw [e23.kind i h]; exact h12.newKind i hi
    · exact h23.newKind i h

theorem KidsOK.tfW {s s' : St} (h : KidsOK s) (e : ExtW s s') (t : TF s s') : KidsOK s' where
  kids := by
    intro i lc hk hm
    rcases Nat.lt_or_ge i s.nodes.length with hi | hi
    · rw [e.kind i hi] at hk
      rw [t.kids i hi hk] at hm
      obtain ⟨a, b⟩ := h.kids i lc hk hm
      exact ⟨Nat.lt_of_lt_of_le a e.len, by rw [e.kind lc a]; exact b⟩
    · exact absurd hk (t.newKind i hi).1
  off := by
    intro i hk
    rcases Nat.lt_or_ge i s.nodes.length with hi | hi
    · rw [t.offset i hi]; rw [e.kind i hi] at hk; exact h.off i hk
    · exact absurd hk (t.newKind i hi).2
  pk := by
    intro i p hp hk
    obtain ⟨hi, hp'⟩ := t.newParent i p hp hk
    have hpl : p < s.nodes.length := by
      rcases Nat.lt_or_ge p s.nodes.length with h' | h'
      · exact h'
      · exact absurd hk (t.newKind p h').1
    rw [e.kind p hpl] at hk
    rw [e.kind i hi]
    exact h.pk i p hp' hk

theorem LinkP.tfW {s s' : St} {p : Nat} {b' : Block} (h : LinkP s p b') (e : ExtW s s') (t : TF s s')
    (hp : p < s.nodes.length) (hb : b'.node < s.nodes.length) (hbk : (nd s b'.node).kind = b'.bp.kind) : LinkP s' p b' where
  down := fun hk => by
    rw [e.kind p hp] at hk
    obtain ⟨a, b, c⟩ := h.down hk
    refine ⟨a, ?_, by rw [t.kids p hp hk]; exact c⟩
    rw [t.parent b'.node hb (by rw [hbk, a]; rfl)]; exact b
  up := fun hi => by rw [e.kind p hp]; exact h.up hi

theorem chainedO_tfW {s s' : St} (e : ExtW s s') (t : TF s s') : ∀ (p : Nat) (l : List Block), ChainedO s p l →
    p < s.nodes.length → (∀ b ∈ l, b.node < s.nodes.length ∧ (nd s b.node).kind = b.bp.kind) → ChainedO s' p l := by
  intro p l
  induction l generalizing p with
  | nil => intro _ _ _; trivial
  | cons b rest ih =>
    intro h hp hb
    exact ⟨LinkP.tfW h.1 e t hp (hb b (by simp)).1 (hb b (by simp)).2,
      ih b.node h.2 (hb b (by simp)).1 (fun x hx => hb x (List.mem_cons_of_mem _ hx))⟩

theorem LStore.stepW {s s' : St} {root : Nat} (h : LStore s root) (e : ExtW s s') (t : TF s s')
    (hplt : ∀ i p, (nd s' i).parent = some p → p < s'.nodes.length) (ho : s'.pc.opened = s.pc.opened)
    (hb : ∀ b ∈ s.pc.opened, BlockOK s b) : LStore s' root where
  kids := KidsOK.tfW h.kids e t
  plt := hplt
  rootKind := by rw [e.kind root h.rootLt]; exact h.rootKind
  rootLt := Nat.lt_of_lt_of_le h.rootLt e.len
  attached := fun b hbm hc => by
    rw [ho] at hbm
    have hbk := hb b hbm
    rw [t.parent b.node hbk.lt (by rw [hbk.kind]; exact isCont_of_container hc)]
    exact h.attached b hbm hc
  incr := by rw [ho]; exact h.incr

theorem LStore.closeW {s s' : St} {root : Nat} (h : LStore s root) (e : ExtW s s') (t : TF s s') (hplt : PLTf s')
    (hsub : List.Sublist s'.pc.opened s.pc.opened) (hb : ∀ b ∈ s.pc.opened, BlockOK s b) : LStore s' root where
  kids := KidsOK.tfW h.kids e t
  plt := hplt
  rootKind := by rw [e.kind root h.rootLt]; exact h.rootKind
  rootLt := Nat.lt_of_lt_of_le h.rootLt e.len
  attached := fun b hbm hc => by
    have hbm' := hsub.subset hbm
    have hbk := hb b hbm'
    rw [t.parent b.node hbk.lt (by rw [hbk.kind]; exact isCont_of_container hc)]
    exact h.attached b hbm' hc
  incr := h.incr.sublist (List.Sublist.cons_cons _ (List.Sublist.map _ hsub))

/-! ### the tree-link frame of a transformer call -/

/-- the contract `PTPost` of one transformer call on a Paragraph: `TStep` with the tree-link frame and `PLTf` -/
theorem tstepL_of_post {src : Bytes} {node : Nat} {s s' : St} (hn : NodesOK src s) (hlt : node < s.nodes.length)
    (hkind : (nd s node).kind = .paragraph) (hkids : KidsOK s) (hplt : PLTf s) (h : PTPost node s s') :
    ∃ g, TStep src node s s' g ∧ TF s s' ∧ PLTf s' := by
  obtain ⟨g, hg⟩ := tstep_of_post hn hlt h
  refine ⟨g, hg, ?_⟩
  rcases h.res with ⟨refs, k, hk, e⟩ | ⟨refs, p, hp, e⟩
  · have ts : TreeSame s s' := by
      rw [e]
      exact fr_treeSame_set s node _ _ _ ⟨rfl, rfl, rfl, rfl⟩
    exact ⟨ts.tf, PLT.treeSame hplt ts⟩
  · have tsE : TreeSame s (ptEmptied s node refs) :=
      fr_treeSame_set s node _ _ _ ⟨rfl, rfl, rfl, rfl⟩
    have hpltE : PLT (ptEmptied s node refs) := PLT.treeSame hplt tsE
    unfold ptReplace at e
    obtain ⟨t, sA, e1, e2⟩ := fr_bind_ok e
    have hA := plt_newNode _ _ t sA hpltE rfl e1
    have hsA : sA = { (ptEmptied s node refs) with nodes := (ptEmptied s node refs).nodes ++
        [{ kind := .textBlock, blankPrev := (nd s node).blankPrev }] } := by cases e1; rfl
    have tfxA : TFX (ptEmptied s node refs) sA := by
      rw [hsA]; exact fr_newNode_tfx _ _ ⟨(fun h => by cases h), (fun h => by cases h)⟩ rfl
    have hElen : (ptEmptied s node refs).nodes.length = s.nodes.length := tsE.len
    have hpl : p < s.nodes.length := hplt node p hp
    have hndA : ∀ i, i < s.nodes.length → nd sA i = nd (ptEmptied s node refs) i := fun i hi =>
      nd_of_append_lt (by rw [hsA]) (by rw [hElen]; exact hi)
    have hpk : (nd sA p).kind ≠ .list := by
      rw [hndA p hpl, (tsE.same p).1]
      intro hl
      have := hkids.pk node p hp hl
      rw [hkind] at this; cases this
    have hvk : (nd sA node).kind.isCont = false := by
      rw [hndA node hlt, (tsE.same node).1, hkind]; rfl
    have htid : t = s.nodes.length := by rw [hA.2.2, hElen]
    have hndt : nd sA t = { kind := .textBlock, blankPrev := (nd s node).blankPrev } := by
      rw [htid, hsA]; simp only [nd]; rw [← hElen]; exact getD_length_append _ _ _
    have tfk := fr_replaceChild_tfk p node t sA s' hpk hvk (by rw [hndt]; rfl) (by rw [hndt]) e2
    have hplt' := plt_replaceChild p node t sA s' hA.1 (by rw [hA.2.1, hElen]; omega) e2
    exact ⟨(tsE.tfk.tfx.trans (tfxA.trans tfk.tfx)).tf, hplt'.1⟩

/-- `transformParagraph` with the tree-link frame -/
theorem transformParagraphL_oke {src : Bytes} {e : Panic} : ∀ (pts : List PT), PTsSpec src e pts →
    ∀ (node : Nat) (s : St), s.r.source = src → node < s.nodes.length → (nd s node).kind = .paragraph →
      (nd s node).parent.isSome = true → (nd s node).lines ≠ [] → NodesOK src s → KidsOK s → PLTf s →
      OKE e (fun g s' => TStep src node s s' g ∧ TF s s' ∧ PLTf s') (transformParagraph pts node s) := by
  intro pts
  induction pts with
  | nil =>
    intro _ node s _ _ _ _ hl hn _ hplt
    unfold transformParagraph
    exact OKE.ok ⟨TStep.refl hn hl, TF.refl s, hplt⟩
  | cons pt pts ih =>
    intro hs node s hsrc hlt hk hp hl hn hkids hplt
    unfold transformParagraph
    have h1 : OKE e (fun (_ : Unit) s1 => ∃ g, TStep src node s s1 g ∧ TF s s1 ∧ PLTf s1) (pt node s) := by
      rcases hs pt (List.mem_cons_self ..) node s hsrc hlt hk hp hn with ⟨s1, e1, hpost⟩ | e1
      · rw [e1]; exact OKE.ok (tstepL_of_post hn hlt hk hkids hplt hpost)
      · exact .inr e1
    refine OKE.bind h1 (fun _ s1 hg => ?_)
    obtain ⟨g, hg, htf, hplt1⟩ := hg
    refine OKE.bind (m := getNode node) (P := fun n sy => n = nd s1 node ∧ sy = s1) (OKE.ok ⟨rfl, rfl⟩) (fun n sy hy => ?_)
    obtain ⟨hn1, hsy⟩ := hy
    subst n sy
    cases g with
    | true =>
      have : (nd s1 node).parent.isNone = true := by rw [hg.goneP rfl]; rfl
      rw [if_pos this]
      exact OKE.ok ⟨hg, htf, hplt1⟩
    | false =>
      obtain ⟨hl1, hp1⟩ := hg.keep rfl
      have : ¬ (nd s1 node).parent.isNone = true := by
        rw [hp1]; cases hh : (nd s node).parent with
        | none => rw [hh] at hp; cases hp
        | some _ => simp
      rw [if_neg this]
      have := ih (fun q hq => hs q (List.mem_cons_of_mem _ hq)) node s1 (by rw [hg.r]; exact hsrc)
        (Nat.lt_of_lt_of_le hlt hg.len) (by rw [hg.kind node hlt]; exact hk) (by rw [hp1]; exact hp) hl1 hg.nodes
        (KidsOK.tfW hkids hg.extW htf) hplt1
      exact this.mono (fun g2 s2 h2 => ⟨hg.trans h2.1, TF.transW htf hg.extW h2.2.1 h2.1.extW, h2.2.2⟩)

/-! ### closeBlocksV with the list frames -/

section close
variable {src : Bytes} (lsp : LSp src) {e : Panic} {pts : List PT} (hpts : PTsSpec src e pts)
include lsp hpts

/-- `ClosedT` + the tree-link frame, `KidsOK`, `PLTf` -/
def ClosedLT (src : Bytes) (K : List Block) (s s' : St) : Prop :=
  ClosedT src K s s' ∧ TF s s' ∧ KidsOK s' ∧ PLTf s'

theorem closeListLT_oke (K : List Block) : ∀ (l : List Block) (s : St), s.r.source = src → NodesOK src s → KeysOK s →
    KidsOK s → PLTf s → (∀ b ∈ l, BlockOK s b) → (∀ b ∈ l.tail, b.bp.isContainer = true) →
    (∀ top, l.head? = some top → top.bp = .paragraph → s.pc.tmpPara ≠ some top.node) →
    (∀ k ∈ K, BlockOK s k ∧ ∀ top, l.head? = some top → CompatT s k top) →
    OKE e (fun _ s' => s'.pc.opened = s.pc.opened ∧ ClosedLT src K s s') (closeListV pts l s) := by
  intro l
  induction l with
  | nil =>
    intro s _ hn hk hkids hplt _ _ _ hK
    exact OKE.ok ⟨rfl, ⟨rfl, hn, hk, ExtW.refl s, .inl rfl, fun k hk' => (hK k hk').1⟩, TF.refl s, hkids, hplt⟩
  | cons top cs ih =>
    intro s hsrc hn hk hkids hplt hl hcs htmp hK
    unfold closeListV
    refine OKE.bind (m := getNode top.node) (P := fun n s1 => n = nd s top.node ∧ s1 = s)
      (OKE.ok ⟨rfl, rfl⟩) (fun n s0 hn0 => ?_)
    obtain ⟨hn0, hs0⟩ := hn0
    subst n s0
    have htop := hl top (by simp)
    have rest : ∀ s1 : St, (s1.pc.opened = s.pc.opened ∧ ClosedLT src K s s1 ∧ (∀ b ∈ cs, BlockOK s1 b)) →
        OKE e (fun _ s' => s'.pc.opened = s.pc.opened ∧ ClosedLT src K s s') (closeListV pts cs s1) := by
      intro s1 h1
      obtain ⟨hop, ⟨⟨hr, hn1, hk1, he1, ht1, hK1⟩, htf1, hkids1, hplt1⟩, hcs1⟩ := h1
      have := ih s1 (by rw [hr]; exact hsrc) hn1 hk1 hkids1 hplt1 hcs1
        (fun b hb => hcs b (List.mem_of_mem_tail hb))
        (fun top' ht hp => by
          have : top'.bp.isContainer = true := hcs top' (by
            cases cs with
            | nil => simp at ht
            | cons a as => simp at ht; subst ht; simp)
          exact absurd hp (container_kind this).1)
        (fun k hk' => ⟨hK1 k hk', fun top' ht => CompatT.of_container (hcs top' (by
            cases cs with
            | nil => simp at ht
            | cons a as => simp at ht; subst ht; simp))⟩)
      refine OKE.mono this (fun _ s2 h2 => ?_)
      obtain ⟨b, ⟨a, c, d, e', t', f⟩, tf2, kk, pp⟩ := h2
      refine ⟨by rw [b, hop], ⟨by rw [a, hr], c, d, he1.trans e', ?_, f⟩, TF.transW htf1 he1 tf2 e', kk, pp⟩
      rcases t' with t' | t'
      · rw [t']; exact ht1
      · exact .inr t'
    have close : ∀ s1 : St, (s1.pc.opened = s.pc.opened ∧ ClosedLT src K s s1 ∧ (∀ b ∈ cs, BlockOK s1 b)) →
        BlockOK s1 top → (∀ k ∈ K, Compat s1 k top) →
        OKE e (fun _ s' => s'.pc.opened = s.pc.opened ∧ ClosedLT src K s s')
          ((do
            if (← getNode top.node).parent.isSome then bpCloseV top.bp top.node
            closeListV pts cs : M Unit) s1) := by
      intro s1 h1 htop1 hcomp1
      obtain ⟨hop, ⟨⟨hr, hn1, hk1, he1, ht1, hK1⟩, htf1, hkids1, hplt1⟩, hcs1⟩ := h1
      refine OKE.bind (m := getNode top.node) (P := fun n sy => n = nd s1 top.node ∧ sy = s1)
        (OKE.ok ⟨rfl, rfl⟩) (fun n sy hy => ?_)
      obtain ⟨hn0, hsy⟩ := hy
      subst n sy
      by_cases hp : (nd s1 top.node).parent.isSome = true
      · rw [if_pos hp]
        have hc := closeAll src top.bp top.node s1 (by rw [hr]; exact hsrc) hn1 hk1 htop1
        have hc'0 : OKL (fun (_ : Unit) s2 => ClosePost src top.bp top.node s1 s2 ∧ TF s1 s2 ∧ PLTf s2)
            (bpClose top.bp top.node s1) := by
          rcases hc with ⟨a, s2, e2, h2⟩ | e2
          · exact .inl ⟨a, s2, e2, h2, lsp.closeTF top.bp top.node s1 s2 hn1 hk1 htop1 hkids1 e2,
              lsp.closePLT top.bp top.node s1 s2 hn1 hk1 htop1 hkids1 hplt1 e2⟩
          · exact .inr e2
        have hc' := bpCloseV_okl (src := src) (fun _ s' h => ⟨h.1.nodes, by rw [h.1.r, hr]; exact hsrc⟩) hc'0
        refine OKE.bind (OKE.of_okl hc') (fun _ s2 h2 => rest s2 ?_)
        obtain ⟨h2, htf2, hplt2⟩ := h2
        have hks : KeysOK s2 := hk1.ext h2.ext
          (by rcases h2.tmp with h | h; exact .inl h; exact .inr h.2)
          (by rcases h2.fence with h | h; exact .inl h; exact .inr h.2.1)
        refine ⟨by rw [h2.opened, hop], ⟨⟨by rw [h2.r, hr], h2.nodes, hks, he1.trans (ExtW.of_ext h2.ext), ?_, ?_⟩,
          TF.transW htf1 he1 htf2 (ExtW.of_ext h2.ext), hkids1.tf h2.ext htf2, hplt2⟩, ?_⟩
        · rcases h2.tmp with h | h
          · rw [h]; exact ht1
          · exact .inr h.2
        · intro k hk'
          have kok := hK1 k hk'
          have kc := hcomp1 k hk'
          refine kok.ext h2.ext ?_ ?_
          · intro hse
            rcases h2.tmp with h | h
            · rw [h]; exact (kok.setext hse).2
            · exact absurd h.1 (kc.1 hse)
          · intro hfe
            rcases h2.fence with h | h
            · rw [h]; exact kok.fenced hfe
            · obtain ⟨h1', _, f, hf, hfn⟩ := h
              exact absurd hfn (kc.2 hfe h1' f hf)
        · intro b hb
          exact (hcs1 b hb).ext_container h2.ext (hcs b hb)
      · rw [if_neg hp]
        exact rest s1 ⟨hop, ⟨⟨hr, hn1, hk1, he1, ht1, hK1⟩, htf1, hkids1, hplt1⟩, hcs1⟩
    have hself : s.pc.opened = s.pc.opened ∧ ClosedLT src K s s ∧ (∀ b ∈ cs, BlockOK s b) :=
      ⟨rfl, ⟨⟨rfl, hn, hk, ExtW.refl s, .inl rfl, fun k hk' => (hK k hk').1⟩, TF.refl s, hkids, hplt⟩,
        fun b hb => hl b (by simp [hb])⟩
    by_cases hpar : ((nd s top.node).kind == Kind.paragraph && (nd s top.node).parent.isSome) = true
    · rw [if_pos hpar]
      simp only [Bool.and_eq_true, beq_iff_eq] at hpar
      obtain ⟨hkind, hpp⟩ := hpar
      have hbp : top.bp = .paragraph := by
        have := htop.kind; rw [hkind] at this; exact kind_paragraph this.symm
      have htp := transformParagraphL_oke pts hpts top.node s hsrc htop.lt hkind hpp (htop.para hbp) hn hkids hplt
      refine OKE.bind htp (fun g s1 hg => ?_)
      obtain ⟨hg, htf1, hplt1⟩ := hg
      have hk1 : KeysOK s1 := hg.keysOK hk (htmp top rfl hbp)
      have hK1 : ∀ k ∈ K, BlockOK s1 k := fun k hk' =>
        hg.blockOK hkind (hK k hk').1 (fun hkp => ((hK k hk').2 top rfl).2 hbp hkp)
      have hcs1 : ∀ b ∈ cs, BlockOK s1 b := fun b hb =>
        hg.blockOK hkind (hl b (by simp [hb])) (fun hkp => absurd hkp (container_kind (hcs b hb)).1)
      have hcl : s1.pc.opened = s.pc.opened ∧ ClosedLT src K s s1 ∧ (∀ b ∈ cs, BlockOK s1 b) :=
        ⟨hg.opened, ⟨⟨hg.r, hg.nodes, hk1, hg.extW, .inl hg.tmp, hK1⟩, htf1, KidsOK.tfW hkids hg.extW htf1, hplt1⟩, hcs1⟩
      cases g with
      | false =>
        obtain ⟨hl1, hp1⟩ := hg.keep rfl
        have htop1 : BlockOK s1 top :=
          ⟨Nat.lt_of_lt_of_le htop.lt hg.len, by rw [hg.kind _ htop.lt]; exact htop.kind, fun _ => hl1,
            (fun h => by rw [hbp] at h; cases h), (fun h => by rw [hbp] at h; cases h)⟩
        refine close s1 hcl htop1 (fun k hk' => ?_)
        have kc := ((hK k hk').2 top rfl).1
        refine ⟨kc.1, fun _ hc => ?_⟩
        rw [hbp] at hc; cases hc
      | true =>
        refine OKE.bind (m := getNode top.node) (P := fun n sy => n = nd s1 top.node ∧ sy = s1)
          (OKE.ok ⟨rfl, rfl⟩) (fun n sy hy => ?_)
        obtain ⟨hn0, hsy⟩ := hy
        subst n sy
        have : ¬ (nd s1 top.node).parent.isSome = true := by rw [hg.goneP rfl]; simp
        rw [if_neg this]
        exact rest s1 hcl
    · rw [if_neg hpar]
      exact close s hself htop (fun k hk' => ((hK k hk').2 top rfl).1)

theorem closeBlocksLT_oke (pre mid post : List Block) (s : St) (hop : s.pc.opened = pre ++ mid ++ post)
    (hsrc : s.r.source = src) (hn : NodesOK src s) (hk : KeysOK s) (hkids : KidsOK s) (hplt : PLTf s)
    (hmid : ∀ b ∈ mid, BlockOK s b) (hleafy : Leafy mid)
    (htmp : ∀ top, mid.getLast? = some top → top.bp = .paragraph → s.pc.tmpPara ≠ some top.node)
    (hK : ∀ k ∈ pre ++ post, BlockOK s k ∧ ∀ top, mid.getLast? = some top → CompatT s k top) :
    OKE e (fun _ s' => s'.pc.opened = pre ++ post ∧ ClosedLT src (pre ++ post) s s')
      (closeBlocksV pts ((pre.length : Int) + (mid.length : Int) - 1) (pre.length : Int) s) := by
  unfold closeBlocksV
  refine OKE.bind (m := getPc) (P := fun pc s1 => pc = s.pc ∧ s1 = s) (OKE.ok ⟨rfl, rfl⟩) (fun pc s0 h0 => ?_)
  obtain ⟨h0, h0'⟩ := h0
  subst pc s0
  have hcnt : ((pre.length : Int) + (mid.length : Int) - 1 - (pre.length : Int) + 1).toNat = mid.length := by omega
  rw [hcnt, hop, closeLoopV_eq pts (pre ++ mid ++ post) pre.length mid.length (by simp)]
  have hdt : ((pre ++ mid ++ post).drop pre.length).take mid.length = mid := by
    rw [List.append_assoc, List.drop_left, List.take_left]
  rw [hdt]
  have hcl := closeListLT_oke lsp hpts (pre ++ post) mid.reverse s hsrc hn hk hkids hplt
    (fun b hb => hmid b (by simpa using hb))
    (fun b hb => hleafy b (by
      have : mid.reverse.tail = mid.dropLast.reverse := by
        rw [List.tail_reverse]
      rw [this] at hb; simpa using hb))
    (fun top ht => htmp top (by rw [List.head?_reverse] at ht; exact ht))
    (fun k hk' => ⟨(hK k hk').1, fun top ht => (hK k hk').2 top (by
      rw [List.head?_reverse] at ht; exact ht)⟩)
  refine OKE.bind hcl (fun _ s1 h1 => ?_)
  obtain ⟨hop1, ⟨hr, hn1, hk1, he1, ht1, hK1⟩, htf1, hkids1, hplt1⟩ := h1
  have hpre : closeBlocks.slice' (pre ++ mid ++ post) 0 (pre.length : Int) = .ok pre := by
    unfold closeBlocks.slice'
    rw [if_pos ⟨by omega, by omega, by simp; omega⟩]
    simp
  have hpost : closeBlocks.slice' (pre ++ mid ++ post) ((pre.length : Int) + (mid.length : Int) - 1 + 1)
      ((pre ++ mid ++ post).length : Int) = .ok post := by
    unfold closeBlocks.slice'
    rw [if_pos ⟨by omega, by simp; omega, by omega⟩]
    have e1 : ((pre.length : Int) + (mid.length : Int) - 1 + 1).toNat = pre.length + mid.length := by omega
    have e2 : (((pre ++ mid ++ post).length : Int) - ((pre.length : Int) + (mid.length : Int) - 1 + 1)).toNat = post.length := by
      simp; omega
    rw [e1, e2]
    have : (pre ++ mid ++ post).drop (pre.length + mid.length) = post := by
      rw [← List.length_append, List.drop_left]
    rw [this]; simp
  have fin : ∀ o : List Block, ClosedLT src (pre ++ post) s ({ s1 with pc := { s1.pc with opened := o } } : St) := by
    intro o
    refine ⟨⟨hr, hn1, ⟨hk1.tmp, hk1.fence⟩, ⟨he1.len, he1.kind⟩, ht1, ?_⟩,
      ⟨htf1.parent, htf1.kids, htf1.offset, htf1.newParent, htf1.newKind⟩, ⟨hkids1.kids, hkids1.off, hkids1.pk⟩, hplt1⟩
    intro k hk'
    have := hK1 k hk'
    exact ⟨this.lt, this.kind, this.para, this.setext, this.fenced⟩
  by_cases hfl : ((pre.length : Int) + (mid.length : Int) - 1 == ((pre ++ mid ++ post).length : Int) - 1) = true
  · rw [if_pos hfl]
    have hpe : post = [] := by
      have : (pre.length : Int) + (mid.length : Int) - 1 = ((pre ++ mid ++ post).length : Int) - 1 := by simpa using hfl
      simp at this
      cases post with
      | nil => rfl
      | cons a as => simp at this; omega
    subst hpe
    simp only [bind, StateT.bind, liftE, hpre, Except.map, Except.bind, modPc, pure, StateT.pure, Except.pure]
    exact OKE.ok ⟨by simp, fin _⟩
  · rw [if_neg hfl]
    simp only [bind, StateT.bind, liftE, hpre, hpost, Except.map, Except.bind, modPc, pure, StateT.pure, Except.pure]
    exact OKE.ok ⟨rfl, fin _⟩

end close

end GM.Blocks.L.TV
