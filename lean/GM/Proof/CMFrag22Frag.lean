/-
  GM.Proof.CMFrag22Frag — stage 22: quoted documents of the WIDER class of quotesim2 (`C08ClassG`: lists and blank lines
  allowed, no setext underline): a stage-6 document / a document of the union fragment (now WITH `*` emphasis, digits,
  `-`, `+` inside the text) inside `k + 1` nested block quotes, for sources without tab, CR, `[` in which no line ends in
  `-` or `=` (`noBarEnd`).
-/
import GM.Proof.CMFrag21Quote
import GM.Proof.CMFragClassG
import GM.Proof.CMFragNFrag
import GM.Proof.CMFrag13Inl

namespace GM.Proof.CMFrag
open GM GM.Text GM.Blocks GM.Spec GM.Spec.CM GM.Spec.CMFrag

theorem simOK_quoteLinesN {S : Bytes} (h : ∀ k, C08ClassG (quoteLinesN k S)) : ∀ k, SimOK (qpN k S) := by
  intro k
  rw [← quoteLinesN_eq]
  exact simOK_G (h k)

/-- **stage 22 for stage-6 documents** -/
theorem fragment22_conforms_of (H : BPFree) (k : Nat) (d : KDoc) (h : GQFrag d) (uc : List (Nat × (Bool × Bool))) :
    GM.Convert.convertCore uc cmOpts (spellNQ k d) = .ok (expectedNQ k d) := by
  have hk := gqfrag_kfrag d h
  have hnb := gqclean_no_bracket d h
  have hsim := simOK_quoteLinesN (fun k => (gqclean_classG_N d h k).1)
  unfold KFrag kfragB at hk
  simp only [Bool.and_eq_true, List.all_eq_true] at hk
  obtain ⟨hok, hseps⟩ := hk
  have hgood : ∀ it ∈ d.items.map convK, Good5' it.2 := by
    intro x hx
    obtain ⟨it, hit, rfl⟩ := List.mem_map.mp hx
    exact good5_rawOfH it.block (hok it hit)
  rw [spellK_raw] at hnb hsim
  have hlev : ∀ b ∈ (d.items.map convK).map (·.2), ∀ level l, b = Raw5.old (RawBlock.atx level l) → level ≤ 6 := by
    intro b hb level l he
    obtain ⟨it, hit, rfl⟩ := List.mem_map.mp hb
    have := hgood it hit
    rw [he] at this
    exact this.2.1
  have hc := convert_nest_genS H uc (d.items.map convK) d.trail (fun it hit => good5_of it.2 (hgood it hit))
    (sepsOK_of none d.items hseps) (by
      intro x hx
      obtain ⟨it, _, rfl⟩ := List.mem_map.mp hx
      exact isIcB_rawOfH it.block) (fun it hit => lines5_no_nl it.2 (hgood it hit)) hsim hnb (k + 1) _ _
    (fun env henv => repL_good env henv _ (fun b hb => by
      obtain ⟨it, hit, rfl⟩ := List.mem_map.mp hb
      exact hgood it hit))
    (renderDoc_nestN (k + 1) _ hlev)
  rw [spellNQ_eq, spellK_raw, hc]
  have he : expectedK d = hdocHtml ((d.items.map (·.block)).map rawOfH) := by
    rw [hdocHtml_spelled _ (by
      intro b hb
      obtain ⟨it, hit, rfl⟩ := List.mem_map.mp hb
      exact hok it hit)]
    simp [expectedK, List.flatMap_map]
  rw [expectedNQ, he]
  simp [convK, List.map_map, Function.comp_def]

/-- **stage 22 for the union fragment** (with `*` emphasis inside the quotes) -/
theorem fragment22U_conforms_of (HB : BPFree) (H : U13InlG) (k : Nat) (d : UDocS) (h : GUQFrag d)
    (uc : List (Nat × (Bool × Bool))) :
    GM.Convert.convertCore uc cmOpts (quoteLinesN (k + 1) (spellU d)) = .ok (wrapQ (k + 1) (expectedU d)) := by
  have hf := guqfrag_ufrag h
  have hnb := guqclean_no_bracket d h
  have hsim := simOK_quoteLinesN (fun k => (guqclean_classG_N d h k).1)
  have hnoic : ∀ it ∈ uitemsOf d, it.2.isIc = false := by
    intro x hx
    obtain ⟨it, hit, rfl⟩ := List.mem_map.mp hx
    have := guqfrag_noic h it hit
    simpa [isIc_ublockOfS13] using this
  rw [quoteLinesN_eq, spellU_raw, ← uitemsOf_raw] at *
  refine convert_nest13S HB H uc (uitemsOf d) d.trail (uitemsOf_good d hf) (uitemsOf_seps d hf) hnoic hsim hnb (k + 1) _ ?_
  rw [uitemsOf_nodes, renderDoc_nest_uN (k + 1) _ (ublocks_good d hf), uDocHtml_ofS d hf]

end GM.Proof.CMFrag
